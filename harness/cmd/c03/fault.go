// Fault part of the C03 harness: a compaction that hits an I/O error (RLIMIT_FSIZE in a child
// process: the temp file cannot grow beyond a chosen size, so a block write inside WriteEntry or the
// final flush inside the writer's Close fails with EFBIG). Whatever the compaction reports, the
// swamp must afterwards load to exactly the records it held before (complete old or complete new).
package main

import (
	"fmt"
	"io"
	"log/slog"
	"os"
	"os/exec"
	"os/signal"
	"path/filepath"
	"strconv"
	"strings"
	"syscall"

	"github.com/hydraide/hydraide/app/core/hydra/swamp/beacon"
	"github.com/hydraide/hydraide/app/core/hydra/swamp/chronicler"
	v2 "github.com/hydraide/hydraide/app/core/hydra/swamp/chronicler/v2"
	ctlcmd "github.com/hydraide/hydraide/app/hydraidectl/cmd"
	"verif/harness/common"
)

var faultModes = []string{"cli", "force", "load", "close", "dir"}

// childFault runs in the child: args = mode, swamp path (without .hyd), max block, limit, name
func childFault(args []string) {
	signal.Ignore(syscall.SIGXFSZ)
	slog.SetDefault(slog.New(slog.NewTextHandler(io.Discard, nil)))
	mode, swampPath := args[0], args[1]
	maxBlock, _ := strconv.Atoi(args[2])
	limit, _ := strconv.ParseUint(args[3], 10, 64)
	name := args[4]
	hyd := swampPath + ".hyd"
	mk := func() chronicler.Chronicler {
		c := chronicler.NewV2WithName(swampPath, 3, name)
		c.CreateDirectoryIfNotExists()
		return c
	}
	var c chronicler.Chronicler
	if mode == "close" || mode == "force" {
		// Load first (counters), with its own self-heal kept out of the way
		c = mk()
		chronicler.VerifSetCompactionParams(c, 4, 0.3, maxBlock, 1)
		c.RegisterLiveCountFunction(func() int { return 1 })
		c.Load(beacon.New())
	}
	lim := syscall.Rlimit{Cur: limit, Max: limit}
	if err := syscall.Setrlimit(syscall.RLIMIT_FSIZE, &lim); err != nil {
		fmt.Println("RESULT setrlimit-failed")
		return
	}
	switch mode {
	case "cli":
		r := ctlcmd.VerifCompactSwamp(hyd, 0.01)
		fmt.Printf("RESULT compacted=%v err=%v\n", r.Compacted, r.Error)
	case "dir":
		res, err := v2.CompactDirectory(filepath.Dir(hyd), maxBlock, 0.01)
		fmt.Printf("RESULT n=%d err=%v\n", len(res), err)
	case "force":
		fmt.Printf("RESULT err=%v\n", c.ForceCompaction())
	case "close":
		fmt.Printf("RESULT err=%v\n", c.Close())
	case "load":
		c = mk()
		chronicler.VerifSetCompactionParams(c, 4, 0.3, maxBlock, -1)
		c.Load(beacon.New())
		fmt.Println("RESULT loaded")
	}
}

// runFaultCase builds a fragmented swamp, runs one compaction entry point in a child under a file
// size limit, recovers with the real chronicler and reports a KC_image case.
func runFaultCase(rng *common.Rng, self, dir string, mode int, closeFault bool) (term string, descr map[string]interface{}, hist []string) {
	in := newIntern()
	os.MkdirAll(dir, 0o755)
	swampPath := filepath.Join(dir, "swamp")
	hydPath := swampPath + ".hyd"
	nm := "verif/c03/fault"
	maxBlock := []int{64, 256, 16384}[rng.Intn(3)]
	if closeFault {
		maxBlock = 16384 // the whole compacted file is one block, flushed inside the writer's Close
	}
	var es []v2.Entry
	nk := 2 + rng.Intn(8)
	for i := 0; i < 14+rng.Intn(40); i++ {
		k := fmt.Sprintf("k%d", rng.Intn(nk))
		if rng.Chance(12) {
			es = append(es, v2.Entry{Operation: v2.OpDelete, Key: k})
		} else {
			es = append(es, v2.Entry{Operation: v2.OpUpdate, Key: k, Data: payloadFor(k, fmt.Sprintf("f%d", i))})
		}
	}
	writeRaw(hydPath, nm, es, maxBlock, false)
	oldObs := readHyd(hydPath)
	oldTerm := strings.TrimSuffix(strings.TrimPrefix(in.fimg(oldObs), "(Some "), ")")
	fi, _ := os.Stat(hydPath)
	base := v2.FileHeaderSize + len(nm)
	limit := base + rng.Intn(int(fi.Size()))
	if closeFault {
		// room for the header, the name, the block header and a few payload bytes only
		limit = base + v2.BlockHeaderSize + rng.Intn(24)
	}
	if rng.Chance(10) {
		limit = base - 1 - rng.Intn(base-1) // not even the header + name fit
	}
	cmd := exec.Command(self, "child-fault", faultModes[mode], swampPath, strconv.Itoa(maxBlock), strconv.Itoa(limit), nm)
	outb, _ := cmd.CombinedOutput()
	result := strings.TrimSpace(string(outb))
	if i := strings.LastIndex(result, "RESULT"); i >= 0 {
		result = result[i:]
	}
	mid := readHyd(hydPath) // straight after the faulted call, before any recovery
	// recovery: what the server does next
	ch := chronicler.NewV2WithName(swampPath, 3, nm)
	ch.CreateDirectoryIfNotExists()
	chronicler.VerifSetCompactionParams(ch, 4, 0.3, maxBlock, -1)
	b := beacon.New()
	ch.Load(b)
	after := readHyd(hydPath)
	ok := mid.idxOK && len(mid.index) == len(oldObs.index) && after.idxOK && b.Count() == len(after.index) && !exists(hydPath+".compact")
	ch.Close()
	replaced := len(mid.entries) != len(oldObs.entries)
	term = fmt.Sprintf("(KC_image %s %s %s)", oldTerm, in.index(after), common.Bool(ok))
	descr = map[string]interface{}{"kind": "io-fault", "entry_point": faultModes[mode], "max_block": maxBlock, "file_size_limit": limit,
		"old_file_size": fi.Size(), "child_result": result, "hyd_replaced": replaced, "live_before": len(oldObs.index), "live_right_after": len(mid.index), "live_after_recovery": len(after.index)}
	hist = []string{"fault_via_" + faultModes[mode]}
	if replaced {
		hist = append(hist, "fault_case_compaction_completed")
	} else {
		hist = append(hist, "fault_case_compaction_failed_or_skipped")
	}
	os.RemoveAll(dir)
	return
}
