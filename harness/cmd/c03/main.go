// c03: correspondence check for V2 compaction against Storage/C03Compact.v.
//
// Sessions: a real V2 chronicler (and the CLI's compactSwamp) is driven through all five
// compaction entry points on scratch directories, with something placed at the
// ".hyd.compact" path before a step (nothing / valid file with ghost keys / valid foreign
// file / truncated file / random bytes / empty dir / non-empty dir). After every step the
// .hyd is read back with the real reader (all entries + LoadIndex); the Coq side evaluates
// the property oracle on those observations and replays the model.
//
// Crash part: a real compaction runs in a child process under strace; the write/fsync/rename
// sequence on the temp file is lifted to the model's ops (checked: complete file, fsync, then
// rename) and directory images for a crash after every traced op (plus torn writes and stale
// temps) are materialised and loaded by the real chronicler.
package main

import (
	"bytes"
	"fmt"
	"io"
	"log/slog"
	"os"
	"os/exec"
	"path/filepath"
	"regexp"
	"sort"
	"strconv"
	"strings"
	"syscall"

	"github.com/hydraide/hydraide/app/core/hydra/swamp/beacon"
	"github.com/hydraide/hydraide/app/core/hydra/swamp/chronicler"
	v2 "github.com/hydraide/hydraide/app/core/hydra/swamp/chronicler/v2"
	"github.com/hydraide/hydraide/app/core/hydra/swamp/treasure"
	"github.com/hydraide/hydraide/app/core/hydra/swamp/treasure/guard"
	ctlcmd "github.com/hydraide/hydraide/app/hydraidectl/cmd"
	"github.com/hydraide/hydraide/app/verifhook"
	"verif/harness/common"
)

// ---- interning -------------------------------------------------------------------------------

type intern struct {
	keys map[string]uint64
	pays map[string]uint64
}

func newIntern() *intern {
	return &intern{keys: map[string]uint64{v2.MetadataEntryKey: 0}, pays: map[string]uint64{"": 0}}
}
func (in *intern) key(k string) uint64 {
	if id, ok := in.keys[k]; ok {
		return id
	}
	id := uint64(len(in.keys))
	in.keys[k] = id
	return id
}
func (in *intern) pay(p []byte) uint64 {
	if id, ok := in.pays[string(p)]; ok {
		return id
	}
	id := uint64(len(in.pays))
	in.pays[string(p)] = id
	return id
}

func opName(op uint8) string {
	switch op {
	case v2.OpInsert, v2.OpUpdate:
		return "OSet"
	case v2.OpDelete:
		return "ODel"
	case v2.OpMetadata:
		return "OMeta"
	}
	return "OOther"
}
func (in *intern) entry(e v2.Entry) string {
	return fmt.Sprintf("(E %s %d %d)", opName(e.Operation), in.key(e.Key), in.pay(e.Data))
}
func (in *intern) entries(es []v2.Entry) string {
	s := make([]string, len(es))
	for i, e := range es {
		s[i] = in.entry(e)
	}
	return "[" + strings.Join(s, "; ") + "]"
}

// ---- reading files with the real reader ---------------------------------------------------------

type fileObs struct {
	exists  bool
	ok      bool // header + all blocks readable
	hname   string
	entries []v2.Entry
	idxOK   bool
	index   map[string][]byte
	name    string
}

func readHyd(path string) fileObs {
	var o fileObs
	if _, err := os.Stat(path); err != nil {
		return o
	}
	o.exists = true
	fr, err := v2.NewFileReader(path)
	if err == nil {
		o.hname = fr.GetSwampName()
		_, err = fr.ReadAllEntries(func(e v2.Entry) bool { o.entries = append(o.entries, e); return true })
		fr.Close()
		o.ok = err == nil
	}
	fr2, err := v2.NewFileReader(path)
	if err == nil {
		idx, nm, err := fr2.LoadIndex()
		fr2.Close()
		if err == nil {
			o.idxOK, o.index, o.name = true, idx, nm
		}
	}
	return o
}

func (in *intern) fimg(o fileObs) string {
	if !o.exists {
		return "None"
	}
	if !o.ok {
		return "(Some (FTorn 0 []))"
	}
	return fmt.Sprintf("(Some (FGood %d %s))", in.pay([]byte(o.hname)), in.entries(o.entries))
}
func (in *intern) index(o fileObs) string {
	if !o.exists || !o.idxOK {
		return "None"
	}
	keys := make([]string, 0, len(o.index))
	for k := range o.index {
		keys = append(keys, k)
	}
	sort.Strings(keys)
	ps := make([]string, len(keys))
	for i, k := range keys {
		ps[i] = fmt.Sprintf("(%d, %d)", in.key(k), in.pay(o.index[k]))
	}
	return fmt.Sprintf("(Some ([%s], %d))", strings.Join(ps, "; "), in.pay([]byte(o.name)))
}

// ---- writing raw files ---------------------------------------------------------------------------

// writeRaw writes a .hyd with the real FileWriter. asV2 rewrites the header version to 2 (name then
// lives in an OpMetadata entry, which the caller put into entries).
func writeRaw(path, name string, entries []v2.Entry, maxBlock int, asV2 bool) error {
	os.Remove(path)
	w, err := v2.NewFileWriterWithName(path, maxBlock, name)
	if err != nil {
		return err
	}
	for _, e := range entries {
		if err := w.WriteEntry(e); err != nil {
			w.Close()
			return err
		}
	}
	if err := w.Close(); err != nil {
		return err
	}
	if asV2 {
		f, err := os.OpenFile(path, os.O_RDWR, 0o644)
		if err != nil {
			return err
		}
		f.WriteAt([]byte{2, 0}, 4)
		f.Close()
	}
	return nil
}

func makeTreasure(key, content string, del bool, withFileName bool) (treasure.Treasure, []byte) {
	tr := treasure.New(nil)
	gid := tr.StartTreasureGuard(false, guard.BodyAuthID)
	tr.BodySetKey(gid, key)
	tr.SetContentString(gid, content)
	if withFileName {
		tr.BodySetFileName(gid, "x.hyd")
	}
	if del {
		tr.BodySetForDeletion(gid, "u", false)
	}
	b, _ := tr.ConvertToByte(gid)
	tr.ReleaseTreasureGuard(gid)
	return tr, b
}

func payloadFor(key, content string) []byte {
	_, b := makeTreasure(key, content, false, false)
	return b
}

// ---- stale temp kinds ---------------------------------------------------------------------------

const (
	stNone    = iota
	stGhost   // valid file, same name, holding keys that are dead/foreign in the swamp
	stForeign // valid file, other name, foreign key
	stTrunc   // valid file cut at a random offset
	stRandom  // random bytes
	stHeaderOnly
	stEmptyDir
	stFullDir
	stKinds
)

var stName = []string{"none", "valid_older_state", "foreign_name", "truncated", "random_bytes", "header_only", "empty_dir", "nonempty_dir"}

// placeStale puts the chosen thing at tmpPath and returns the Coq term of so_place.
func placeStale(in *intern, rng *common.Rng, kind int, tmpPath, swampName string, keys []string, maxBlock int) string {
	os.RemoveAll(tmpPath)
	switch kind {
	case stNone:
		return "(Some None)"
	case stGhost, stForeign, stTrunc:
		nm := swampName
		var es []v2.Entry
		n := 1 + rng.Intn(4)
		for i := 0; i < n; i++ {
			k := keys[rng.Intn(len(keys))]
			if kind == stForeign || rng.Chance(30) {
				k = fmt.Sprintf("ghost-%d", rng.Intn(3))
			}
			es = append(es, v2.Entry{Operation: v2.OpInsert, Key: k, Data: payloadFor(k, fmt.Sprintf("stale-%d", rng.Intn(50)))})
		}
		if kind == stForeign {
			nm = "other/swamp/name"
		}
		writeRaw(tmpPath, nm, es, maxBlock, false)
		if kind == stTrunc {
			b, _ := os.ReadFile(tmpPath)
			cut := rng.Intn(len(b))
			os.WriteFile(tmpPath, b[:cut], 0o644)
			return "(Some (Some (NFile (FTorn 0 []))))"
		}
		return fmt.Sprintf("(Some (Some (NFile (FGood %d %s))))", in.pay([]byte(nm)), in.entries(es))
	case stRandom:
		b := rng.Bytes(rng.Intn(200))
		if rng.Chance(40) && len(b) >= 6 {
			copy(b, []byte{'H', 'Y', 'D', 'R', 3, 0})
		}
		os.WriteFile(tmpPath, b, 0o644)
		return "(Some (Some (NFile FBad)))"
	case stHeaderOnly:
		writeRaw(tmpPath, swampName, nil, maxBlock, false)
		return fmt.Sprintf("(Some (Some (NFile (FGood %d []))))", in.pay([]byte(swampName)))
	case stEmptyDir:
		os.Mkdir(tmpPath, 0o755)
		return "(Some (Some (NFile FBad)))"
	case stFullDir:
		os.Mkdir(tmpPath, 0o755)
		os.WriteFile(filepath.Join(tmpPath, "x"), []byte("x"), 0o644)
		return "(Some (Some NDir))"
	}
	return "None"
}

// ---- sessions ------------------------------------------------------------------------------------

type sessionResult struct {
	term       string
	descr      map[string]interface{}
	nontrivial bool
	hist       []string
	goViol     []string
}

func inode(path string) uint64 {
	fi, err := os.Stat(path)
	if err != nil {
		return 0
	}
	if st, ok := fi.Sys().(*syscall.Stat_t); ok {
		return st.Ino
	}
	return 0
}

func exists(path string) bool { _, err := os.Lstat(path); return err == nil }

// liveTracker plays the beacon's Count(). While suppress is set it reports a huge count, which keeps
// the inline trigger of Write quiet so that Close / ForceCompaction find a fragmented file.
type liveTracker struct {
	keys     map[string]bool
	suppress bool
}

func (l *liveTracker) count() int {
	if l.suppress {
		return 1 << 30
	}
	return len(l.keys)
}

func runSession(rng *common.Rng, dir string, forceKind int, forceStale int) sessionResult {
	in := newIntern()
	res := sessionResult{descr: map[string]interface{}{}}
	os.MkdirAll(dir, 0o755)
	swampPath := filepath.Join(dir, "swamp")
	hydPath := swampPath + ".hyd"
	tmpPath := hydPath + ".compact"

	nkeys := 1 + rng.Intn(6)
	keys := make([]string, nkeys)
	for i := range keys {
		keys[i] = fmt.Sprintf("k%d", i)
	}
	if rng.Chance(5) {
		keys[0] = v2.MetadataEntryKey // a user key that collides with the metadata key
	}
	minEntries := []int{4, 8, 16, 4, 8, 16, 6, 100}[rng.Intn(8)]
	threshold := []float64{0.3, 0.5, 0.1}[rng.Intn(3)]
	maxBlock := []int{64, 256, 16384}[rng.Intn(3)]
	fileName := "verif/c03/swamp"
	cname := fileName
	switch rng.Intn(10) {
	case 0:
		cname = ""
	case 1:
		cname = "verif/c03/renamed"
	}
	seqn := 0
	newContent := func() string { seqn++; return fmt.Sprintf("v%d", seqn) }

	// initial file
	var initTerm = "None"
	initKind := rng.Intn(10)
	if initKind > 0 {
		n := 1 + rng.Intn(3*minEntries/2+4)
		if minEntries == 100 {
			n = 90 + rng.Intn(80)
		}
		var es []v2.Entry
		hname := fileName
		asV2 := false
		switch rng.Intn(8) {
		case 0: // legacy V2 layout: name in a metadata entry
			asV2 = true
			hname = ""
			es = append(es, v2.Entry{Operation: v2.OpMetadata, Key: v2.MetadataEntryKey, Data: []byte(fileName)})
		case 1: // no name at all
			hname = ""
		}
		liveBias := rng.Intn(100) // how often a fresh key is used -> fragmentation level
		for i := 0; i < n; i++ {
			k := keys[rng.Intn(len(keys))]
			if rng.Intn(100) < liveBias/4 {
				k = fmt.Sprintf("u%d", i)
			}
			switch {
			case rng.Chance(15):
				es = append(es, v2.Entry{Operation: v2.OpDelete, Key: k})
			case rng.Chance(2):
				es = append(es, v2.Entry{Operation: v2.OpMetadata, Key: v2.MetadataEntryKey, Data: []byte("late/meta")})
			case rng.Chance(2):
				es = append(es, v2.Entry{Operation: v2.OpInsert, Key: k, Data: nil}) // zero-length payload
			default:
				op := v2.OpInsert
				if rng.Bool() {
					op = v2.OpUpdate
				}
				es = append(es, v2.Entry{Operation: op, Key: k, Data: payloadFor(k, newContent())})
			}
		}
		if err := writeRaw(hydPath, hname, es, maxBlock, asV2); err != nil {
			res.goViol = append(res.goViol, "cannot write initial file: "+err.Error())
		}
		initTerm = in.fimg(readHyd(hydPath)) // read back with the real reader: also checks writer/reader agree with what was written
		want := fmt.Sprintf("(Some (FGood %d %s))", in.pay([]byte(hname)), in.entries(es))
		if initTerm != want {
			res.goViol = append(res.goViol, "initial file does not read back as written")
		}
		res.hist = append(res.hist, "init_file")
		if asV2 {
			res.hist = append(res.hist, "init_v2_layout")
		}
	} else {
		res.hist = append(res.hist, "init_none")
	}

	var chron chronicler.Chronicler
	tracker := &liveTracker{keys: map[string]bool{}}
	syncTracker := func() {
		tracker.keys = map[string]bool{}
		if o := readHyd(hydPath); o.idxOK {
			for k := range o.index {
				tracker.keys[k] = true
			}
		}
	}
	liveMode := rng.Intn(10) // 0: no live function registered, 1: always 0, else accurate
	suppressWrites := rng.Chance(35)
	newChron := func() {
		if cname == "" {
			chron = chronicler.NewV2(swampPath, 3)
		} else {
			chron = chronicler.NewV2WithName(swampPath, 3, cname)
		}
		chron.CreateDirectoryIfNotExists()
		chronicler.VerifSetCompactionParams(chron, minEntries, threshold, maxBlock, -1)
		switch liveMode {
		case 0:
		case 1:
			chron.RegisterLiveCountFunction(func() int { return 0 })
		default:
			chron.RegisterLiveCountFunction(tracker.count)
		}
		syncTracker()
	}

	nsteps := 2 + rng.Intn(5)
	var stepTerms []string
	var stepDescr []string
	prevEntries := len(readHyd(hydPath).entries)
	staleUsed := false
	for si := 0; si < nsteps; si++ {
		// choose the step kind
		var kind string
		if si == 0 && forceKind >= 0 {
			kind = []string{"KWrite", "KClose", "KForce", "KLoad", "KCli"}[forceKind]
			if kind == "KWrite" || kind == "KClose" || kind == "KForce" {
				newChron()
				if rng.Bool() {
					chron.Load(beacon.New()) // not recorded: no stale temp yet, compaction only if already fragmented
				}
				if kind != "KWrite" {
					// not recorded either: fragment the file with the inline trigger kept quiet, so that
					// the recorded Close / ForceCompaction has something to compact
					tracker.suppress = true
					var ts []treasure.Treasure
					for i := 0; i < 2*minEntries+2; i++ {
						t, _ := makeTreasure(keys[rng.Intn(len(keys))], newContent(), false, true)
						ts = append(ts, t)
					}
					chron.Write(ts)
					chron.Sync()
					tracker.suppress = false
				}
				// the unrecorded calls may have changed the file; re-read the initial image
				initTerm = in.fimg(readHyd(hydPath))
				prevEntries = len(readHyd(hydPath).entries)
				syncTracker()
			}
		} else if chron == nil {
			kind = []string{"KLoad", "KLoad", "KCli", "KCli", "KWrite"}[rng.Intn(5)]
		} else {
			kind = []string{"KWrite", "KWrite", "KWrite", "KForce", "KClose", "KClose"}[rng.Intn(6)]
		}
		// stale temp
		place := "None"
		st := -1
		if si == 0 && forceStale >= 0 {
			st = forceStale
		} else if rng.Chance(45) {
			st = rng.Intn(stKinds)
		}
		tmpBefore := exists(tmpPath)
		if st >= 0 {
			place = placeStale(in, rng, st, tmpPath, fileName, keys, maxBlock)
			tmpBefore = st != stNone
			res.hist = append(res.hist, "stale_"+stName[st]+"_before_"+kind)
			if st != stNone {
				staleUsed = true
			}
		}
		inoBefore := inode(hydPath)
		tracker.suppress = suppressWrites && kind == "KWrite"
		var batchTerm = "[]"
		nbatch := 0
		switch kind {
		case "KWrite":
			if chron == nil {
				newChron()
			}
			nb := 1 + rng.Intn(2*minEntries)
			if minEntries == 100 {
				nb = 1 + rng.Intn(60)
			}
			if rng.Chance(10) {
				nb = 0
			}
			var ts []treasure.Treasure
			var bt []string
			for i := 0; i < nb; i++ {
				k := keys[rng.Intn(len(keys))]
				if rng.Chance(8) {
					k = fmt.Sprintf("w%d-%d", si, i)
				}
				del := rng.Chance(15)
				t, b := makeTreasure(k, newContent(), del, rng.Bool())
				ts = append(ts, t)
				if del {
					delete(tracker.keys, k)
					bt = append(bt, fmt.Sprintf("(%d, None)", in.key(k)))
				} else {
					tracker.keys[k] = true
					bt = append(bt, fmt.Sprintf("(%d, Some %d)", in.key(k), in.pay(b)))
				}
			}
			nbatch = nb
			batchTerm = "[" + strings.Join(bt, "; ") + "]"
			chron.Write(ts)
		case "KClose":
			if chron == nil {
				newChron()
			}
			if err := chron.Close(); err != nil {
				res.goViol = append(res.goViol, "Close error: "+err.Error())
			}
		case "KForce":
			if chron == nil {
				newChron()
			}
			chron.ForceCompaction()
		case "KLoad":
			newChron()
			chron.Load(beacon.New())
		case "KCli":
			thr := []float64{0.2, 0.2, 0.5, 0.01, 0, 0.9}[rng.Intn(6)]
			r := ctlcmd.VerifCompactSwamp(hydPath, thr)
			_ = r
		}
		writerOpen := false
		if chron != nil {
			writerOpen, _, _ = chronicler.VerifState(chron)
			if writerOpen {
				chron.Sync()
			}
		}
		o := readHyd(hydPath)
		tmpAfter := exists(tmpPath)
		inoAfter := inode(hydPath)
		compacted := (inoBefore != 0 && inoAfter != inoBefore) || (o.ok && len(o.entries) != prevEntries+nbatch)
		go1 := compacted
		switch kind {
		case "KWrite":
			go1 = nbatch > 0 && !writerOpen
		case "KClose":
			go1 = compacted || (tmpBefore && !tmpAfter)
		}
		if kind == "KClose" {
			if rng.Chance(70) {
				chron = nil
			}
		}
		if kind == "KCli" {
			// nothing
		}
		if compacted {
			res.hist = append(res.hist, "compacted_via_"+kind)
			if st > stNone {
				res.nontrivial = true
				res.hist = append(res.hist, "compacted_with_stale_"+stName[st]+"_via_"+kind)
			}
			syncTracker()
		}
		if o.ok {
			prevEntries = len(o.entries)
		}
		stepTerms = append(stepTerms, fmt.Sprintf("(SO %s %s %s %s %s %s %s %s)", kind, place, batchTerm,
			common.Bool(go1), common.Bool(compacted), in.fimg(o), in.index(o), common.Bool(tmpAfter)))
		stepDescr = append(stepDescr, fmt.Sprintf("%s stale=%v batch=%d compacted=%v live=%d entries=%d tmp_after=%v", kind,
			func() string {
				if st < 0 {
					return "-"
				}
				return stName[st]
			}(), nbatch, compacted, len(o.index), len(o.entries), tmpAfter))
	}
	if chron != nil {
		chron.Close()
	}
	_ = staleUsed
	res.term = fmt.Sprintf("(KC_session (CASE %d %s [%s]))", in.pay([]byte(cname)), initTerm, strings.Join(stepTerms, ";\n    "))
	res.descr = map[string]interface{}{"kind": "session", "dir_layout": "swamp.hyd + swamp.hyd.compact", "cname": cname,
		"min_entries": minEntries, "threshold": threshold, "max_block": maxBlock, "keys": nkeys, "steps": stepDescr}
	os.RemoveAll(dir)
	return res
}

// ---- crash part ----------------------------------------------------------------------------------

type traceOp struct {
	kind string // unlink create write fsync close rename open_existing
	off  int64
	data []byte
}

var reOpenat = regexp.MustCompile(`openat\([^,]+, "([^"]*)", ([A-Z_|0-9a-zx]+)(?:, [0-7]+)?\) = (\d+)`)
var reWrite = regexp.MustCompile(`^(?:\[pid +\d+\] |\d+ +)?(write|pwrite64)\((\d+)<([^>]*)>, "((?:\\x[0-9a-f]{2})*)"(?:\.\.\.)?, (\d+)(?:, (\d+))?\) = (-?\d+)`)
var reLseek = regexp.MustCompile(`lseek\((\d+)<([^>]*)>, (-?\d+), (SEEK_[A-Z]+)\) = (-?\d+)`)
var reFsync = regexp.MustCompile(`(fsync|fdatasync)\((\d+)<([^>]*)>\) = (-?\d+)`)
var reClose = regexp.MustCompile(`close\((\d+)<([^>]*)>\) = (-?\d+)`)
var reRename = regexp.MustCompile(`rename(?:at|at2)?\((?:[^,]+, )?"([^"]*)", (?:[^,]+, )?"([^"]*)"(?:, [^)]*)?\) = (-?\d+)`)
var reUnlink = regexp.MustCompile(`unlink(?:at)?\((?:[^,]+, )?"([^"]*)"(?:, [^)]*)?\) = (-?\d+)`)

var reResumed = regexp.MustCompile(`^(\d+)\s+<\.\.\. (\w+) resumed>(.*)$`)
var rePid = regexp.MustCompile(`^(\d+)\s`)
var reAngle = regexp.MustCompile(`<((?:\\x[0-9a-f]{2})+)>`)
var reQuoted = regexp.MustCompile(`"((?:\\x[0-9a-f]{2})+)"`)
var reIsWrite = regexp.MustCompile(`^(?:\[pid +\d+\] |\d+ +)?(write|pwrite64)\(`)

// strace -xx prints paths in hex too: decode them (but not the data of write calls)
func decodeLine(line string) string {
	line = reAngle.ReplaceAllStringFunc(line, func(m string) string { return "<" + string(unhex(m[1:len(m)-1])) + ">" })
	if !reIsWrite.MatchString(line) {
		line = reQuoted.ReplaceAllStringFunc(line, func(m string) string { return "\"" + string(unhex(m[1:len(m)-1])) + "\"" })
	}
	return line
}

func unhex(s string) []byte {
	out := make([]byte, 0, len(s)/4)
	for i := 0; i+3 < len(s); i += 4 {
		v, _ := strconv.ParseUint(s[i+2:i+4], 16, 8)
		out = append(out, byte(v))
	}
	return out
}

// parseTrace extracts the ops on tmpPath (and the rename onto hydPath) from an strace log.
func parseTrace(log string, tmpPath, hydPath string) ([]traceOp, error) {
	var ops []traceOp
	pos := int64(0)
	// a syscall interrupted by another thread's output is printed in two pieces
	// ("PID call(args <unfinished ...>" ... "PID <... call resumed>rest"): join them at the place
	// where the call started
	pending := map[string]int{} // pid -> index into lines of the unfinished piece
	var lines []string
	for _, raw := range strings.Split(log, "\n") {
		line := decodeLine(raw)
		if m := reResumed.FindStringSubmatch(line); m != nil {
			if i, ok := pending[m[1]]; ok {
				lines[i] = strings.TrimSpace(strings.TrimSuffix(strings.TrimSpace(lines[i]), "<unfinished ...>")) + strings.TrimSpace(m[3])
				delete(pending, m[1])
			}
			continue
		}
		if strings.HasSuffix(strings.TrimSpace(line), "<unfinished ...>") {
			if m := rePid.FindStringSubmatch(line); m != nil {
				pending[m[1]] = len(lines)
			}
		}
		lines = append(lines, line)
	}
	for _, line := range lines {
		if strings.Contains(line, "<unfinished") {
			if strings.Contains(line, tmpPath) {
				return nil, fmt.Errorf("syscall on temp path never resumed: %s", line)
			}
			continue
		}
		if !strings.Contains(line, tmpPath) {
			continue
		}
		if m := reUnlink.FindStringSubmatch(line); m != nil && m[1] == tmpPath {
			ops = append(ops, traceOp{kind: "unlink"})
			continue
		}
		if m := reOpenat.FindStringSubmatch(line); m != nil && m[1] == tmpPath {
			if strings.Contains(m[2], "O_CREAT") && strings.Contains(m[2], "O_TRUNC") {
				ops = append(ops, traceOp{kind: "create"})
				pos = 0
			} else if strings.Contains(m[2], "O_RDWR") || strings.Contains(m[2], "O_WRONLY") {
				ops = append(ops, traceOp{kind: "open_existing"})
			}
			continue
		}
		if m := reWrite.FindStringSubmatch(line); m != nil && m[3] == tmpPath {
			data := unhex(m[4])
			n, _ := strconv.Atoi(m[7])
			if n != len(data) {
				return nil, fmt.Errorf("short or truncated write record: %s", line[:80])
			}
			off := pos
			if m[1] == "pwrite64" {
				off, _ = strconv.ParseInt(m[6], 10, 64)
			} else {
				pos += int64(n)
			}
			ops = append(ops, traceOp{kind: "write", off: off, data: data})
			continue
		}
		if m := reLseek.FindStringSubmatch(line); m != nil && m[2] == tmpPath {
			pos, _ = strconv.ParseInt(m[5], 10, 64)
			continue
		}
		if m := reFsync.FindStringSubmatch(line); m != nil && m[3] == tmpPath {
			ops = append(ops, traceOp{kind: "fsync"})
			continue
		}
		if m := reClose.FindStringSubmatch(line); m != nil && m[2] == tmpPath {
			ops = append(ops, traceOp{kind: "close"})
			continue
		}
		if m := reRename.FindStringSubmatch(line); m != nil && m[1] == tmpPath && m[2] == hydPath && m[3] == "0" {
			ops = append(ops, traceOp{kind: "rename"})
			continue
		}
	}
	return ops, nil
}

// liftOps turns the traced byte-level ops into the model's cops. Writes at offset 0 of 64 bytes
// are header writes (the first one after create = part of CCreateTmp), the name write follows the
// first header; every other write pair (16-byte block header, payload) is one CAppendTmp.
func liftOps(in *intern, ops []traceOp) (string, error) {
	var out []string
	created := false
	var pendingHdr *v2.BlockHeader
	nameLen := -1
	fileLen := int64(0)
	for _, o := range ops {
		switch o.kind {
		case "unlink":
			out = append(out, "CRemoveTmp")
		case "open_existing":
			return "", fmt.Errorf("temp file opened without O_CREAT|O_TRUNC (append to an existing temp)")
		case "create":
			created, nameLen, fileLen = true, -1, 0
		case "write":
			if !created {
				return "", fmt.Errorf("write before create")
			}
			switch {
			case o.off == 0 && len(o.data) == v2.FileHeaderSize:
				var h v2.FileHeader
				if err := h.Deserialize(o.data); err != nil {
					return "", err
				}
				if nameLen < 0 {
					nameLen = int(h.NameLength)
					if nameLen == 0 {
						out = append(out, "(CCreateTmp 0)")
					}
					fileLen = int64(v2.FileHeaderSize)
				} else {
					out = append(out, "CHeaderTmp")
				}
			case nameLen > 0 && o.off == int64(v2.FileHeaderSize) && fileLen == int64(v2.FileHeaderSize):
				out = append(out, fmt.Sprintf("(CCreateTmp %d)", in.pay(o.data)))
				fileLen += int64(len(o.data))
			case o.off == fileLen && pendingHdr == nil && len(o.data) == v2.BlockHeaderSize:
				pendingHdr = &v2.BlockHeader{}
				pendingHdr.Deserialize(o.data)
				fileLen += int64(len(o.data))
			case o.off == fileLen && pendingHdr != nil:
				blk, err := v2.ParseBlock(pendingHdr, o.data)
				if err != nil {
					return "", fmt.Errorf("traced block does not parse: %v", err)
				}
				out = append(out, "(CAppendTmp "+in.entries(blk.Entries)+")")
				pendingHdr = nil
				fileLen += int64(len(o.data))
			default:
				return "", fmt.Errorf("unexpected write off=%d len=%d filelen=%d", o.off, len(o.data), fileLen)
			}
		case "fsync":
			out = append(out, "CFsyncTmp")
		case "close":
			out = append(out, "CCloseTmp")
		case "rename":
			out = append(out, "CRenameTmpHyd")
		}
	}
	return "[" + strings.Join(out, "; ") + "]", nil
}

// childCompact is executed in the child process (under strace): one CLI compaction.
func childCompact(path string, maxBlock int) {
	c := v2.NewCompactor(path, maxBlock, 0.01)
	if _, err := c.Compact(); err != nil {
		fmt.Fprintln(os.Stderr, "compact error:", err)
		os.Exit(3)
	}
}

// materialise builds the temp-file bytes after the first n traced ops.
func materialise(ops []traceOp, n int, tornLast int) (tmp []byte, tmpExists bool, renamed bool) {
	for i := 0; i < n && i < len(ops); i++ {
		o := ops[i]
		switch o.kind {
		case "unlink":
			tmp, tmpExists = nil, false
		case "create":
			tmp, tmpExists = []byte{}, true
		case "write":
			d := o.data
			if i == n-1 && tornLast >= 0 && tornLast < len(d) {
				d = d[:tornLast]
			}
			end := int(o.off) + len(d)
			if end > len(tmp) {
				tmp = append(tmp, make([]byte, end-len(tmp))...)
			}
			copy(tmp[o.off:], d)
		case "rename":
			renamed = true
		}
	}
	return
}

func main() {
	if len(os.Args) >= 4 && os.Args[1] == "child-compact" {
		mb, _ := strconv.Atoi(os.Args[3])
		childCompact(os.Args[2], mb)
		return
	}
	if len(os.Args) >= 7 && os.Args[1] == "child-fault" {
		childFault(os.Args[2:])
		return
	}
	slog.SetDefault(slog.New(slog.NewTextHandler(io.Discard, nil)))
	a := common.ParseArgs()
	run := common.NewRun(a, "C03", "HV.Storage.C03Compact")
	run.Shard = 150
	run.Meta.Rule = "session case = a real V2 chronicler / hydraidectl compactSwamp driven through 2-6 steps (Write-inline, Close, ForceCompaction, Load self-heal, CLI) on a scratch swamp with random thresholds, with a stale node placed at the .hyd.compact path before steps; non-trivial = a compaction actually replaced the .hyd while a stale node (valid older state / foreign name / truncated / random bytes / dir) was present. concurrent case = a compaction entry point parked just before its rename (verif hook) while another goroutine calls Write/Sync/Close/Destroy/ForceCompaction on the same chronicler, plus unparked stress with writer goroutines; non-trivial = the compaction really was in flight. fault case = a compaction entry point run in a child process under RLIMIT_FSIZE (block write or the final flush in Close fails), then recovery by the real chronicler. crash case = directory image after a prefix of the strace'd op sequence of a real compaction (torn last write, stale temps), loaded by the real chronicler; all crash images are non-trivial"
	rng := common.NewRng(a.Seed, "C03")
	work, err := os.MkdirTemp("", "c03-")
	if err != nil {
		fmt.Fprintln(os.Stderr, err)
		os.Exit(2)
	}
	defer os.RemoveAll(work)

	nrand, ncrash := 260, 4
	if a.Tier == "thorough" {
		nrand, ncrash = 2500, 24
	}
	type job struct {
		rng         *common.Rng
		kind, stale int
	}
	var jobs []job
	// every entry point x every stale kind, several times
	reps := 3
	if a.Tier == "thorough" {
		reps = 20
	}
	for r := 0; r < reps; r++ {
		for k := 0; k < 5; k++ {
			for s := 0; s < stKinds; s++ {
				jobs = append(jobs, job{rng.Fork(fmt.Sprintf("grid-%d-%d-%d", r, k, s)), k, s})
			}
		}
	}
	for i := 0; i < nrand; i++ {
		jobs = append(jobs, job{rng.Fork(fmt.Sprintf("rand-%d", i)), -1, -1})
	}
	results := make([]sessionResult, len(jobs))
	common.Parallel(len(jobs), 12, func(i int) {
		results[i] = runSession(jobs[i].rng, filepath.Join(work, fmt.Sprintf("s%d", i)), jobs[i].kind, jobs[i].stale)
	})
	for _, r := range results {
		idx := run.Add(r.term, r.descr, r.nontrivial)
		for _, h := range r.hist {
			run.Hist(h)
		}
		for _, v := range r.goViol {
			run.Violate(idx, "harness self-check", "c03_harness_selfcheck", v)
		}
	}
	run.Meta.Traces = len(results)

	// ---- concurrency part (conc.go)
	installParkController()
	nconc, nstress, stressLive := 3, 2, 500
	if a.Tier == "thorough" {
		nconc, nstress, stressLive = 20, 16, 1500
	}
	type cjob struct {
		rng         *common.Rng
		trig, other int
	}
	var cjobs []cjob
	for r := 0; r < nconc; r++ {
		for t := range concTriggers {
			for o := range concOthers {
				cjobs = append(cjobs, cjob{rng.Fork(fmt.Sprintf("conc-%d-%d-%d", r, t, o)), t, o})
			}
		}
	}
	cres := make([]concResult, len(cjobs)+nstress)
	for i := range cjobs { // one at a time: one armed parking slot
		cres[i] = runConcCase(cjobs[i].rng, filepath.Join(work, fmt.Sprintf("k%d", i)), cjobs[i].trig, cjobs[i].other)
	}
	for i := 0; i < nstress; i++ { // one at a time: they are timing sensitive
		cres[len(cjobs)+i] = runStressCase(rng.Fork(fmt.Sprintf("stress-%d", i)), filepath.Join(work, fmt.Sprintf("st%d", i)), stressLive)
	}
	verifhook.Install(nil)
	for _, r := range cres {
		idx := run.Add(r.term, r.descr, r.nontrivial)
		for _, h := range r.hist {
			run.Hist(h)
		}
		for _, v := range r.viol {
			run.Violate(idx, "no call hangs", "c03_concurrent_call_hang", v)
		}
	}

	// ---- I/O fault part (fault.go)
	{
		selfExe, _ := os.Executable()
		nfault := 4
		if a.Tier == "thorough" {
			nfault = 40
		}
		type fjob struct {
			rng   *common.Rng
			mode  int
			close bool
		}
		var fjobs []fjob
		for r := 0; r < nfault; r++ {
			for m := range faultModes {
				fjobs = append(fjobs, fjob{rng.Fork(fmt.Sprintf("fault-%d-%d", r, m)), m, r%2 == 0})
			}
		}
		type fres struct {
			term  string
			descr map[string]interface{}
			hist  []string
		}
		fr := make([]fres, len(fjobs))
		common.Parallel(len(fjobs), 8, func(i int) {
			t, d, h := runFaultCase(fjobs[i].rng, selfExe, filepath.Join(work, fmt.Sprintf("f%d", i)), fjobs[i].mode, fjobs[i].close)
			fr[i] = fres{t, d, h}
		})
		for _, r := range fr {
			run.Add(r.term, r.descr, true)
			for _, h := range r.hist {
				run.Hist(h)
			}
		}
	}

	// ---- crash part
	if _, err := exec.LookPath("strace"); err != nil {
		fmt.Fprintln(os.Stderr, "strace not available: the crash-atomicity correspondence cannot run")
		os.Exit(4)
	}
	self, _ := os.Executable()
	for ci := 0; ci < ncrash; ci++ {
		crng := rng.Fork(fmt.Sprintf("crash-%d", ci))
		in := newIntern()
		dir := filepath.Join(work, fmt.Sprintf("c%d", ci))
		os.MkdirAll(dir, 0o755)
		hydPath := filepath.Join(dir, "swamp.hyd")
		tmpPath := hydPath + ".compact"
		maxBlock := []int{64, 128, 256}[crng.Intn(3)]
		nm := "verif/c03/crash"
		var es []v2.Entry
		nk := 2 + crng.Intn(5)
		for i := 0; i < 12+crng.Intn(30); i++ {
			k := fmt.Sprintf("k%d", crng.Intn(nk))
			if crng.Chance(15) {
				es = append(es, v2.Entry{Operation: v2.OpDelete, Key: k})
			} else {
				es = append(es, v2.Entry{Operation: v2.OpUpdate, Key: k, Data: payloadFor(k, fmt.Sprintf("c%d", i))})
			}
		}
		writeRaw(hydPath, nm, es, maxBlock, false)
		oldBytes, _ := os.ReadFile(hydPath)
		oldObs := readHyd(hydPath)
		oldTerm := strings.TrimSuffix(strings.TrimPrefix(in.fimg(oldObs), "(Some "), ")")
		// a stale temp is present while the traced compaction runs
		placeStale(in, crng, 1+crng.Intn(4), tmpPath, nm, []string{"k0", "k1"}, maxBlock)
		staleBytes, _ := os.ReadFile(tmpPath)
		logPath := filepath.Join(dir, "trace.log")
		cmd := exec.Command("strace", "-f", "-y", "-xx", "-s", "1000000", "-o", logPath,
			"-e", "trace=openat,write,pwrite64,lseek,fsync,fdatasync,rename,renameat,renameat2,unlink,unlinkat,close",
			self, "child-compact", hydPath, strconv.Itoa(maxBlock))
		var stderr bytes.Buffer
		cmd.Stderr = &stderr
		badTrace := func(why string) {
			// the real compaction did not run to completion / is not traceable: reported as a trace the
			// model rejects (code 1), never silently skipped
			run.Add("(KC_trace [CRenameTmpHyd; CRenameTmpHyd] FBad)", map[string]interface{}{"kind": "trace", "error": why, "max_block": maxBlock}, true)
			run.Hist("trace_failed")
			os.RemoveAll(dir)
		}
		if err := cmd.Run(); err != nil {
			if _, ok := err.(*exec.ExitError); !ok {
				fmt.Fprintln(os.Stderr, "cannot run strace:", err)
				os.Exit(4)
			}
			badTrace("compaction in the traced child failed: " + strings.TrimSpace(stderr.String()))
			continue
		}
		logb, _ := os.ReadFile(logPath)
		ops, err := parseTrace(string(logb), tmpPath, hydPath)
		if err != nil {
			badTrace("cannot parse strace log: " + err.Error())
			continue
		}
		newObs := readHyd(hydPath)
		newBytes, _ := os.ReadFile(hydPath)
		newTerm := strings.TrimSuffix(strings.TrimPrefix(in.fimg(newObs), "(Some "), ")")
		lifted, lerr := liftOps(in, ops)
		kinds := make([]string, len(ops))
		for i, o := range ops {
			kinds[i] = o.kind
		}
		if lerr != nil {
			// not liftable: report as an op list the model rejects
			lifted = "[CRenameTmpHyd; CRenameTmpHyd]"
		}
		idx := run.Add(fmt.Sprintf("(KC_trace %s %s)", lifted, newTerm),
			map[string]interface{}{"kind": "trace", "ops": kinds, "lift_error": fmt.Sprint(lerr), "max_block": maxBlock}, true)
		_ = idx
		run.Hist("trace")
		run.HistN("trace_ops", len(ops))
		if !bytes.Equal(newBytes, func() []byte { b, _, _ := materialise(ops, len(ops), -1); return b }()) {
			// the traced writes must reproduce the new file byte for byte, otherwise images are not faithful
			run.Violate(idx, "harness self-check", "c03_trace_incomplete", "traced writes do not reproduce the compacted file")
		}
		// crash images
		emit := func(hydB, tmpB []byte, tmpExists bool, hydIsOldOrNew bool, what string) {
			idir := filepath.Join(dir, "img")
			os.RemoveAll(idir)
			os.MkdirAll(idir, 0o755)
			hp := filepath.Join(idir, "swamp.hyd")
			os.WriteFile(hp, hydB, 0o644)
			if tmpExists {
				os.WriteFile(hp+".compact", tmpB, 0o644)
			}
			// recovery = what the server does: a chronicler Load (temp cleanup, possibly self-heal), then read
			ch := chronicler.NewV2WithName(filepath.Join(idir, "swamp"), 3, nm)
			ch.CreateDirectoryIfNotExists()
			chronicler.VerifSetCompactionParams(ch, 4, 0.3, maxBlock, -1)
			b := beacon.New()
			ch.Load(b)
			after := readHyd(hp)
			beaconOK := after.idxOK && b.Count() == len(after.index)
			ch.Close()
			term := fmt.Sprintf("(KC_image %s %s %s)", oldTerm, in.index(after), common.Bool(hydIsOldOrNew && beaconOK && !exists(hp+".compact")))
			run.Add(term, map[string]interface{}{"kind": "crash-image", "what": what, "max_block": maxBlock}, true)
			run.Hist("image_" + strings.SplitN(what, ":", 2)[0])
		}
		for n := 0; n <= len(ops); n++ {
			tmpB, tmpEx, renamed := materialise(ops, n, -1)
			what := fmt.Sprintf("prefix:%d/%d", n, len(ops))
			if renamed {
				emit(newBytes, nil, false, true, "after_rename:"+what)
				// rename executed but not durable: old .hyd, complete temp
				emit(oldBytes, newBytes, true, true, "rename_not_durable:"+what)
				continue
			}
			if n == 0 || (n <= 1 && ops[0].kind == "unlink") {
				// the stale temp is still there (unlink not executed or not durable)
				emit(oldBytes, staleBytes, true, true, "stale_present:"+what)
			}
			emit(oldBytes, tmpB, tmpEx, true, what)
			if n > 0 && ops[n-1].kind == "write" {
				L := len(ops[n-1].data)
				cuts := []int{1, L / 2, L - 1}
				for _, c := range cuts {
					if c >= 0 && c < L {
						tb, te, _ := materialise(ops, n, c)
						emit(oldBytes, tb, te, true, fmt.Sprintf("torn:%d/%d cut=%d", n, len(ops), c))
					}
				}
				// unsynced data lost entirely while the directory entry survived: zero-length / zero-filled temp
				emit(oldBytes, make([]byte, len(tmpB)), true, true, "zero_filled:"+what)
			}
		}
		os.RemoveAll(dir)
	}
	run.Finish("check_all")
}
