// Concurrency part of the C03 harness: a compaction entry point running at the same time as other
// calls on the same chronicler.
//
// Deterministic cases: the goroutine that runs the compaction is parked at the verif hook point
// "compactor.beforeRename" (temp file complete, .hyd not yet replaced); while it is parked another
// goroutine issues a Write / Sync / Close / Destroy / ForceCompaction; then the compaction is
// released, a late Write goes through the same chronicler, the chronicler is closed and the .hyd is
// read back. Every treasure whose Write returned must be there (C03_any_interleaving_preserves +
// C03_write_order_per_key: the goroutines write disjoint key sets).
// Stress cases: no parking, a large mostly-live file, several writer goroutines and repeated
// ForceCompaction / Close calls.
package main

import (
	"fmt"
	"os"
	"path/filepath"
	"strings"
	"sync"
	"sync/atomic"
	"time"

	"github.com/hydraide/hydraide/app/core/hydra/swamp/beacon"
	"github.com/hydraide/hydraide/app/core/hydra/swamp/chronicler"
	v2 "github.com/hydraide/hydraide/app/core/hydra/swamp/chronicler/v2"
	"github.com/hydraide/hydraide/app/core/hydra/swamp/treasure"
	"github.com/hydraide/hydraide/app/verifhook"
	"verif/harness/common"
)

type parkSlot struct {
	once    sync.Once
	parked  chan struct{}
	release chan struct{}
}

// armedSlot: while a deterministic case is running, whichever goroutine reaches
// compactor.beforeRename first is parked - the caller of the entry point or a background
// goroutine it may have handed the compaction to. The cases run one at a time.
var armedSlot atomic.Pointer[parkSlot]

func installParkController() {
	verifhook.Install(func(site string, gid int64, args []int64) {
		if site != "compactor.beforeRename" {
			return
		}
		s := armedSlot.Load()
		if s == nil {
			return
		}
		first := false
		s.once.Do(func() { first = true })
		if !first {
			return
		}
		close(s.parked)
		select {
		case <-s.release:
		case <-time.After(5 * time.Second):
		}
	})
}

// safeTracker plays the beacon's Count(). With quiet set it reports a huge count, which keeps the
// inline trigger of the other goroutine's Write from starting a compaction of its own (that second
// compaction would remove the parked one's temp file and mask a lost write).
type safeTracker struct {
	mu    sync.Mutex
	keys  map[string]bool
	quiet bool
}

func (t *safeTracker) count() int {
	t.mu.Lock()
	defer t.mu.Unlock()
	if t.quiet {
		return 1 << 30
	}
	return len(t.keys)
}
func (t *safeTracker) setQuiet(q bool) { t.mu.Lock(); t.quiet = q; t.mu.Unlock() }
func (t *safeTracker) set(k string, live bool) {
	t.mu.Lock()
	if live {
		t.keys[k] = true
	} else {
		delete(t.keys, k)
	}
	t.mu.Unlock()
}

var concTriggers = []string{"ForceCompaction", "Close", "WriteInline"}
var concOthers = []string{"Write", "Write", "Sync", "Close", "Destroy", "ForceCompaction", "WriteTwice"}

type batchRec struct {
	ts    []treasure.Treasure
	terms []string
}

func mkBatch(in *intern, tr *safeTracker, keys []string, n int, tag string, rng *common.Rng, allowDelete bool) batchRec {
	var b batchRec
	for i := 0; i < n; i++ {
		k := keys[rng.Intn(len(keys))]
		del := allowDelete && rng.Chance(12)
		t, raw := makeTreasure(k, fmt.Sprintf("%s-%d-%d", tag, i, rng.Intn(1000)), del, rng.Bool())
		b.ts = append(b.ts, t)
		if del {
			tr.set(k, false)
			b.terms = append(b.terms, fmt.Sprintf("(%d, None)", in.key(k)))
		} else {
			tr.set(k, true)
			b.terms = append(b.terms, fmt.Sprintf("(%d, Some %d)", in.key(k), in.pay(raw)))
		}
	}
	return b
}

type concResult struct {
	term       string
	descr      map[string]interface{}
	nontrivial bool
	hist       []string
	viol       []string
}

func waitOrTimeout(ch chan struct{}, d time.Duration) bool {
	select {
	case <-ch:
		return true
	case <-time.After(d):
		return false
	}
}

func runConcCase(rng *common.Rng, dir string, trig, other int) concResult {
	in := newIntern()
	res := concResult{}
	os.MkdirAll(dir, 0o755)
	swampPath := filepath.Join(dir, "swamp")
	hydPath := swampPath + ".hyd"
	cname := "verif/c03/conc"
	maxBlock := []int{64, 256, 16384}[rng.Intn(3)]
	minEntries := []int{4, 8, 16}[rng.Intn(3)]

	// fragmented initial file over the trigger goroutine's keys
	nk := 2 + rng.Intn(5)
	keysA := make([]string, nk)
	for i := range keysA {
		keysA[i] = fmt.Sprintf("a%d", i)
	}
	var es []v2.Entry
	n := 3*minEntries + rng.Intn(40)
	for i := 0; i < n; i++ {
		k := keysA[rng.Intn(nk)]
		if rng.Chance(10) {
			es = append(es, v2.Entry{Operation: v2.OpDelete, Key: k})
		} else {
			es = append(es, v2.Entry{Operation: v2.OpUpdate, Key: k, Data: payloadFor(k, fmt.Sprintf("init-%d", i))})
		}
	}
	writeRaw(hydPath, cname, es, maxBlock, false)
	initObs := readHyd(hydPath)
	initTerm := in.fimg(initObs)

	tracker := &safeTracker{keys: map[string]bool{}}
	for k := range initObs.index {
		tracker.keys[k] = true
	}
	chron := chronicler.NewV2WithName(swampPath, 3, cname)
	chron.CreateDirectoryIfNotExists()
	// Load initialises the entry counter from the header; its own self-heal is kept out of the way
	// (size cap of one byte) so that the recorded trigger has something to compact
	chronicler.VerifSetCompactionParams(chron, minEntries, 0.3, maxBlock, 1)
	chron.RegisterLiveCountFunction(tracker.count)
	chron.Load(beacon.New())

	var writes []string
	keysB := []string{"b0", "b1", "b2", "b3"}
	keysLate := []string{"late0", "late1", "late2"}
	// some already flushed, some still buffered entries before the trigger
	if rng.Bool() {
		pre := mkBatch(in, tracker, keysA, 1+rng.Intn(4), "pre", rng, false)
		// keep the inline trigger quiet for this one: it is not the recorded trigger
		chronicler.VerifSetCompactionParams(chron, 1<<30, -1, -1, -1)
		chron.Write(pre.ts)
		chronicler.VerifSetCompactionParams(chron, minEntries, -1, -1, -1)
		writes = append(writes, pre.terms...)
		if rng.Bool() {
			chron.Sync()
		}
	}

	slot := &parkSlot{parked: make(chan struct{}), release: make(chan struct{})}
	armedSlot.Store(slot)
	defer armedSlot.Store(nil)
	done1 := make(chan struct{})
	var trigBatch batchRec
	if concTriggers[trig] == "WriteInline" {
		trigBatch = mkBatch(in, tracker, keysA, 2+rng.Intn(6), "trig", rng, true)
	}
	go func() {
		defer close(done1)
		switch concTriggers[trig] {
		case "ForceCompaction":
			chron.ForceCompaction()
		case "Close":
			chron.Close()
		case "WriteInline":
			chron.Write(trigBatch.ts)
		}
	}()
	writes = append(writes, trigBatch.terms...)

	parked := false
	select {
	case <-slot.parked:
		parked = true
	case <-done1:
		// returned without reaching the rename: no compaction - or one handed to another goroutine
		parked = waitOrTimeout(slot.parked, 3*time.Millisecond)
	case <-time.After(3 * time.Second):
		res.viol = append(res.viol, "trigger neither parked nor returned within 3s")
	}

	quietOthers := rng.Chance(65)
	if quietOthers {
		tracker.setQuiet(true)
	}
	destroyed := false
	done2 := make(chan struct{})
	var otherTerms []string
	ob1 := mkBatch(in, tracker, keysB, 1+rng.Intn(4), "other", rng, true)
	ob2 := mkBatch(in, tracker, keysB, 1+rng.Intn(3), "other2", rng, false)
	go func() {
		defer close(done2)
		switch concOthers[other] {
		case "Write":
			chron.Write(ob1.ts)
		case "WriteTwice":
			chron.Write(ob1.ts)
			chron.Sync()
			chron.Write(ob2.ts)
		case "Sync":
			chron.Sync()
		case "Close":
			chron.Close()
		case "Destroy":
			chron.Destroy()
		case "ForceCompaction":
			chron.ForceCompaction()
		}
	}()
	switch concOthers[other] {
	case "Write":
		otherTerms = ob1.terms
	case "WriteTwice":
		otherTerms = append(append([]string{}, ob1.terms...), ob2.terms...)
	case "Destroy":
		destroyed = true
	}
	early := false
	if parked {
		early = waitOrTimeout(done2, 25*time.Millisecond)
		close(slot.release)
	}
	if !waitOrTimeout(done1, 5*time.Second) || !waitOrTimeout(done2, 5*time.Second) {
		res.viol = append(res.viol, "a call did not return within 5s after the compaction was released")
	}
	writes = append(writes, otherTerms...)

	// the same chronicler keeps being used
	late := mkBatch(in, tracker, keysLate, 1+rng.Intn(3), "late", rng, false)
	chron.Write(late.ts)
	if !destroyed {
		writes = append(writes, late.terms...)
	}
	if rng.Bool() {
		chron.Sync()
		late2 := mkBatch(in, tracker, keysLate, 1+rng.Intn(2), "late2", rng, false)
		chron.Write(late2.ts)
		if !destroyed {
			writes = append(writes, late2.terms...)
		}
	}
	chron.Close()
	final := readHyd(hydPath)

	res.term = fmt.Sprintf("(KC_conc %s %d [%s] %s %s)", initTerm, in.pay([]byte(cname)), strings.Join(writes, "; "),
		common.Bool(destroyed), in.index(final))
	res.descr = map[string]interface{}{"kind": "concurrent", "trigger": concTriggers[trig], "other_call": concOthers[other],
		"compaction_parked_before_rename": parked, "other_call_returned_while_parked": early,
		"inline_trigger_of_other_calls_quiet": quietOthers, "writes": len(writes), "final_live": len(final.index), "final_exists": final.exists, "max_block": maxBlock, "min_entries": minEntries}
	res.nontrivial = parked
	res.hist = []string{"conc_" + concTriggers[trig] + "_vs_" + concOthers[other]}
	if parked {
		res.hist = append(res.hist, "conc_parked_"+concTriggers[trig])
	}
	if early {
		res.hist = append(res.hist, "conc_other_returned_while_parked")
	}
	os.RemoveAll(dir)
	return res
}

// runStressCase: large mostly-live file, writer goroutines with disjoint key sets, repeated
// ForceCompaction / Close from another goroutine, no parking.
func runStressCase(rng *common.Rng, dir string, nlive int) concResult {
	in := newIntern()
	res := concResult{}
	os.MkdirAll(dir, 0o755)
	swampPath := filepath.Join(dir, "swamp")
	hydPath := swampPath + ".hyd"
	cname := "verif/c03/stress"
	maxBlock := 64 // one entry per block: the rewrite takes many syscalls
	var es []v2.Entry
	for cycle := 0; cycle < 2; cycle++ {
		for i := 0; i < nlive; i++ {
			k := fmt.Sprintf("base%d", i)
			es = append(es, v2.Entry{Operation: v2.OpUpdate, Key: k, Data: payloadFor(k, fmt.Sprintf("c%d", cycle))})
		}
	}
	writeRaw(hydPath, cname, es, maxBlock, false)
	initObs := readHyd(hydPath)
	initTerm := in.fimg(initObs)
	chron := chronicler.NewV2WithName(swampPath, 3, cname)
	chron.CreateDirectoryIfNotExists()
	chronicler.VerifSetCompactionParams(chron, 100, 0.3, maxBlock, -1)
	// no live-count function: only the explicit calls compact

	nw := 2 + rng.Intn(2)
	perWriter := make([][]string, nw)
	var wg sync.WaitGroup
	stop := make(chan struct{})
	var inMu sync.Mutex // the intern table is shared by the writer goroutines
	for w := 0; w < nw; w++ {
		wg.Add(1)
		wrng := rng.Fork(fmt.Sprint("w", w))
		go func(w int) {
			defer wg.Done()
			for i := 0; ; i++ {
				select {
				case <-stop:
					return
				default:
				}
				nb := 1 + wrng.Intn(3)
				var ts []treasure.Treasure
				var terms []string
				for j := 0; j < nb; j++ {
					k := fmt.Sprintf("w%d-%d", w, wrng.Intn(40))
					if wrng.Chance(50) {
						k = fmt.Sprintf("w%d-new-%d-%d", w, i, j)
					}
					t, raw := makeTreasure(k, fmt.Sprintf("s%d-%d", i, j), false, false)
					ts = append(ts, t)
					inMu.Lock()
					terms = append(terms, fmt.Sprintf("(%d, Some %d)", in.key(k), in.pay(raw)))
					inMu.Unlock()
				}
				chron.Write(ts)
				perWriter[w] = append(perWriter[w], terms...) // recorded only after Write returned
				if wrng.Chance(20) {
					chron.Sync()
				}
				time.Sleep(time.Duration(50+wrng.Intn(200)) * time.Microsecond)
			}
		}(w)
	}
	time.Sleep(2 * time.Millisecond)
	ncomp := 0
	for r := 0; r < 3; r++ {
		ino := inode(hydPath)
		if r == 1 && rng.Bool() {
			chron.Close()
		} else {
			chron.ForceCompaction()
		}
		if inode(hydPath) != ino {
			ncomp++
		}
		time.Sleep(time.Duration(1+rng.Intn(4)) * time.Millisecond)
	}
	close(stop)
	wg.Wait()
	chron.Close()
	final := readHyd(hydPath)
	var writes []string
	for _, l := range perWriter {
		writes = append(writes, l...)
	}
	res.term = fmt.Sprintf("(KC_conc %s %d [%s] false %s)", initTerm, in.pay([]byte(cname)), strings.Join(writes, "; "), in.index(final))
	res.descr = map[string]interface{}{"kind": "concurrent-stress", "writers": nw, "base_live_keys": nlive, "acknowledged_writes": len(writes),
		"compactions_that_replaced_the_file": ncomp, "final_live": len(final.index)}
	res.nontrivial = ncomp > 0 && len(writes) > 0
	res.hist = []string{"stress", fmt.Sprintf("stress_compactions_%d", ncomp)}
	os.RemoveAll(dir)
	return res
}
