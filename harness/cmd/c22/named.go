package main

// Named model types. reflect.StructOf only makes anonymous types, so everything that depends on
// a type's identity as the SDK might (mis)compute it - Name(), String(), PkgPath(), NumField(),
// the generic base name - is exercised with this library: package-level types, types declared
// inside different functions under the same identifier (same PkgPath+Name, different types),
// same-named types of two packages that are both called "models", and instantiations of one
// generic type. The stream that uses them is sequential, so "the first type seen wins" style
// state in the converters shows up deterministically.

import (
	"reflect"
	"time"

	ma "verif/harness/lib/c22/a/models"
	mb "verif/harness/lib/c22/b/models"
)

// ---- package-level, uniquely named ----------------------------------------------------------

type Article struct {
	Slug     string            `hydraide:"key"`
	Title    string            `hydraide:"title"`
	Keywords string            `hydraide:"keywords,omitempty"`
	Score    float64           `hydraide:"score"`
	Meta     map[string]string `hydraide:"meta,omitempty"`
	Author   *Inner            `hydraide:"author"`
	Created  time.Time         `hydraide:"createdAt"`
	CreatedB string            `hydraide:"createdBy,omitempty"`
}

type Gauge struct {
	Key   string    `hydraide:"key"`
	Value float32   `hydraide:"value"`
	Exp   time.Time `hydraide:"expireAt,omitempty"`
}

type Marker struct {
	Key string    `hydraide:"key"`
	Upd time.Time `hydraide:"updatedAt,omitempty"`
	By  string    `hydraide:"updatedBy"`
}

type Blob struct {
	K string `hydraide:"key"`
	V []byte `hydraide:"value,omitempty"`
}

type Listing struct {
	K string  `hydraide:"key"`
	V []Inner `hydraide:"value"`
}

// wire names that are the Go names of OTHER fields of the same model
type Story struct {
	ID       string `hydraide:"key"`
	Headline string `hydraide:"Title"`
	Title    string `hydraide:"Subtitle,omitempty"`
	Subtitle string `hydraide:"headline,omitempty"`
	Key      int64  `hydraide:"ID,omitempty"`
}

type Swapped struct {
	A     string `hydraide:"B,omitempty"`
	B     string `hydraide:"A,omitempty"`
	ID    string `hydraide:"key"`
	Value int64  `hydraide:"Key,omitempty"`
}

type Prefs struct {
	Lang    string
	Volume  int8 `hydraide:"omitempty"`
	Flags   map[string]int64
	Last    time.Time `hydraide:"deletable"`
	Contact *string   `hydraide:"omitempty"`
}

// ---- one generic type, several instantiations ----------------------------------------------------

type Box[T any] struct {
	ID string `hydraide:"key"`
	V  T      `hydraide:"value"`
}

type Bag[T any] struct {
	ID   string `hydraide:"key"`
	Item T      `hydraide:"item"`
	N    int64  `hydraide:"n,omitempty"`
}

// ---- same identifier declared in different functions ------------------------------------------------

func localModel1() any {
	type Model struct { // single value
		Key   string `hydraide:"key"`
		Value int64  `hydraide:"value"`
	}
	return Model{}
}

func localModel2() any {
	type Model struct { // map body
		Key   string `hydraide:"key"`
		Title string `hydraide:"title"`
		Pages int32  `hydraide:"pages"`
	}
	return Model{}
}

func localModel3() any {
	type Model struct { // key only + metadata
		Key string    `hydraide:"key"`
		At  time.Time `hydraide:"createdAt,omitempty"`
		By  string    `hydraide:"createdBy"`
	}
	return Model{}
}

func localModel4() any {
	type Model struct { // map body: other names, other indexes, other omitempty flags
		Pages uint16   `hydraide:"title,omitempty"`
		Extra []string `hydraide:"extra"`
		Title string   `hydraide:"pages"`
		Key   string   `hydraide:"key"`
	}
	return Model{}
}

func localRec1() any {
	type Rec struct {
		ID string `hydraide:"key"`
		A  string `hydraide:"a"`
		B  int64  `hydraide:"b,omitempty"`
	}
	return Rec{}
}

func localRec2() any {
	type Rec struct { // same field count and Go field names as Rec above, tags swapped
		ID string `hydraide:"key"`
		A  string `hydraide:"b,omitempty"`
		B  int64  `hydraide:"a"`
	}
	return Rec{}
}

func localRec3() any {
	type Rec struct { // same names, the value shape
		ID string `hydraide:"key"`
		A  string `hydraide:"value"`
		B  int64  `hydraide:"updatedBy_n"`
	}
	return Rec{}
}

func localProfile1() any {
	type Profile struct {
		Name  string
		Score int32 `hydraide:"omitempty"`
	}
	return Profile{}
}

func localProfile2() any {
	type Profile struct {
		Score string `hydraide:"deletable"`
		Name  []int64
		Extra bool
	}
	return Profile{}
}

type namedType struct {
	typ     reflect.Type
	group   string // types in one group share Name() (and mostly PkgPath())
	profile bool
}

func namedLibrary() []namedType {
	var l []namedType
	add := func(group string, profile bool, vs ...any) {
		for _, v := range vs {
			l = append(l, namedType{reflect.TypeOf(v), group, profile})
		}
	}
	add("unique", false, Article{}, Gauge{}, Marker{}, Blob{}, Listing{}, Story{}, Swapped{})
	add("unique", true, Prefs{})
	add("Box", false, Box[int64]{}, Box[string]{}, Box[[]string]{}, Box[time.Time]{}, Box[*Inner]{}, Box[Inner]{})
	add("Bag", false, Bag[string]{}, Bag[int64]{}, Bag[map[string]int64]{})
	add("Model", false, localModel1(), localModel2(), localModel3(), localModel4())
	add("Rec", false, localRec1(), localRec2(), localRec3())
	add("Profile", true, localProfile1(), localProfile2())
	a, b := ma.Types(), mb.Types()
	add("models.Doc", false, a[0], b[0])
	add("models.Counter", false, a[1], b[1])
	add("models.Settings", true, a[2], b[2])
	return l
}

// modelOfType builds the harness' description of a named struct type (all field types must be
// in the kinds table).
func modelOfType(t reflect.Type) *model {
	m := &model{Type: t}
	for i := 0; i < t.NumField(); i++ {
		sf := t.Field(i)
		k := kindOf(sf.Type)
		if k == nil {
			panic("c22: field type not in the kinds table: " + sf.Type.String())
		}
		f := fieldSpec{Name: sf.Name, Kind: k, Val: reflect.Zero(sf.Type)}
		if tag, ok := sf.Tag.Lookup("hydraide"); ok {
			f.Tag = sp(tag)
		}
		m.Fields = append(m.Fields, f)
	}
	return m
}
