// c22: correspondence harness for C22 (SDK model save/read round-trips exactly; a field's tag
// name never changes how another part of the model is encoded or decoded).
//
// The real Go SDK runs over bufconn against the in-process gateway (in-memory swamps, one per
// case). Struct model types are generated with reflect.StructOf: 1-6 fields, tags drawn from
// the reserved names, near-miss names containing them, random identifiers, odd tags, with and
// without omitempty; field kinds across all scalars, []byte, time.Time, slices, maps,
// pointers, nested structs; values zero / boundary / random.
//
// Per case the harness records (a) the KeyValuePair(s) the SDK really sent (gRPC client
// interceptor), (b) the model read back by CatalogRead / CatalogReadMany / ProfileRead into a
// fresh value of the same type, and emits both as a Coq term; Sdk/ConvCheck.v evaluates the
// round-trip oracle on the observations and replays Sdk/Conv.v on the same model.
// Extra streams: decoder probes (a fully populated Treasure decoded into small models) and
// inspectCatalogModel probes, so the three tag readers are observed separately.
package main

import (
	"bytes"
	"context"
	"encoding/gob"
	"fmt"
	"math"
	"net"
	"os"
	"reflect"
	"sort"
	"strings"
	"sync"
	"time"

	"github.com/hydraide/hydraide/sdk/go/hydraidego/v3"
	"github.com/hydraide/hydraide/sdk/go/hydraidego/v3/client"
	hydrapb "github.com/hydraide/hydraide/sdk/go/hydraidego/v3/hydraidepbgo"
	sdkname "github.com/hydraide/hydraide/sdk/go/hydraidego/v3/name"
	"github.com/vmihailenco/msgpack/v5"
	"google.golang.org/grpc"
	"google.golang.org/grpc/credentials/insecure"
	"google.golang.org/grpc/test/bufconn"
	"google.golang.org/protobuf/proto"
	"google.golang.org/protobuf/types/known/timestamppb"

	"verif/harness/common"
	"verif/harness/rig"
)

// ---- SDK connection with a capturing interceptor ---------------------------------------------

type capture struct {
	mu   sync.Mutex
	sets []*hydrapb.SetRequest
}
type capKey struct{}

type fakeClient struct{ sc hydrapb.HydraideServiceClient }

func (f *fakeClient) Connect(bool) error { return nil }
func (f *fakeClient) CloseConnection()   {}
func (f *fakeClient) GetServiceClient(sdkname.Name) hydrapb.HydraideServiceClient {
	return f.sc
}
func (f *fakeClient) GetServiceClientAndHost(sdkname.Name) *client.ServiceClient {
	return &client.ServiceClient{GrpcClient: f.sc, Host: "bufconn"}
}
func (f *fakeClient) GetUniqueServiceClients() []hydrapb.HydraideServiceClient {
	return []hydrapb.HydraideServiceClient{f.sc}
}
func (f *fakeClient) GetAllIslands() uint64 { return 1000 }

func connect(s *rig.Server) (hydraidego.Hydraidego, func()) {
	lis := bufconn.Listen(4 << 20)
	gs := grpc.NewServer(grpc.MaxRecvMsgSize(1<<30), grpc.MaxSendMsgSize(1<<30))
	hydrapb.RegisterHydraideServiceServer(gs, s.GW)
	go func() { _ = gs.Serve(lis) }()
	icpt := func(ctx context.Context, method string, req, reply any, cc *grpc.ClientConn, invoker grpc.UnaryInvoker, opts ...grpc.CallOption) error {
		if c, ok := ctx.Value(capKey{}).(*capture); ok {
			if r, ok := req.(*hydrapb.SetRequest); ok {
				c.mu.Lock()
				c.sets = append(c.sets, proto.Clone(r).(*hydrapb.SetRequest))
				c.mu.Unlock()
			}
		}
		return invoker(ctx, method, req, reply, cc, opts...)
	}
	conn, err := grpc.NewClient("passthrough:///bufnet",
		grpc.WithContextDialer(func(ctx context.Context, _ string) (net.Conn, error) { return lis.DialContext(ctx) }),
		grpc.WithTransportCredentials(insecure.NewCredentials()),
		grpc.WithUnaryInterceptor(icpt),
		grpc.WithDefaultCallOptions(grpc.MaxCallRecvMsgSize(1<<30), grpc.MaxCallSendMsgSize(1<<30)))
	if err != nil {
		panic(err)
	}
	sc := hydrapb.NewHydraideServiceClient(conn)
	return hydraidego.New(&fakeClient{sc: sc}), func() { conn.Close(); gs.Stop(); lis.Close() }
}

// ---- field kinds --------------------------------------------------------------------------------

type Inner struct {
	A int64
	B string
	C []string
}

type kind struct {
	name string
	typ  reflect.Type
	cx   string // "" | "CSlice" | "CMap" | "CPtr" | "struct" | "other"
}

var kinds = []kind{
	{"string", reflect.TypeOf(""), ""},
	{"bool", reflect.TypeOf(false), ""},
	{"uint8", reflect.TypeOf(uint8(0)), ""},
	{"uint16", reflect.TypeOf(uint16(0)), ""},
	{"uint32", reflect.TypeOf(uint32(0)), ""},
	{"uint64", reflect.TypeOf(uint64(0)), ""},
	{"uint", reflect.TypeOf(uint(0)), ""},
	{"int8", reflect.TypeOf(int8(0)), ""},
	{"int16", reflect.TypeOf(int16(0)), ""},
	{"int32", reflect.TypeOf(int32(0)), ""},
	{"int64", reflect.TypeOf(int64(0)), ""},
	{"int", reflect.TypeOf(int(0)), ""},
	{"float32", reflect.TypeOf(float32(0)), ""},
	{"float64", reflect.TypeOf(float64(0)), ""},
	{"bytes", reflect.TypeOf([]byte(nil)), ""},
	{"time", reflect.TypeOf(time.Time{}), ""},
	{"[]string", reflect.TypeOf([]string(nil)), "CSlice"},
	{"[]int64", reflect.TypeOf([]int64(nil)), "CSlice"},
	{"[]Inner", reflect.TypeOf([]Inner(nil)), "CSlice"},
	{"map[string]int64", reflect.TypeOf(map[string]int64(nil)), "CMap"},
	{"map[string]string", reflect.TypeOf(map[string]string(nil)), "CMap"},
	{"*Inner", reflect.TypeOf((*Inner)(nil)), "CPtr"},
	{"*int64", reflect.TypeOf((*int64)(nil)), "CPtr"},
	{"*string", reflect.TypeOf((*string)(nil)), "CPtr"},
	{"Inner", reflect.TypeOf(Inner{}), "struct"},
	{"chan", reflect.TypeOf((chan int)(nil)), "other"},
}

const (
	kString = 0
	kTime   = 15
	kInner  = 24
	kChan   = 25
)

var timeType = reflect.TypeOf(time.Time{})

func kindOf(t reflect.Type) *kind {
	for i := range kinds {
		if kinds[i].typ == t {
			return &kinds[i]
		}
	}
	return nil
}

func randIdent(r *common.Rng, n int) string {
	const first = "abcdefghijklmnopqrstuvwxyzABCDEFGHIJKLMNOPQRSTUVWXYZ"
	const rest = first + "0123456789_"
	b := []byte{first[r.Intn(len(first))]}
	for i := 1; i < n; i++ {
		b = append(b, rest[r.Intn(len(rest))])
	}
	return string(b)
}

func randString(r *common.Rng) string {
	switch r.Intn(10) {
	case 0:
		return "a"
	case 1:
		return "héllo 世"
	case 2:
		return "key"
	default:
		n := 1 + r.Intn(12)
		b := make([]byte, n)
		for i := range b {
			b[i] = byte(32 + r.Intn(95))
		}
		return string(b)
	}
}

func randInner(r *common.Rng) Inner {
	in := Inner{A: int64(r.U64()), B: randString(r)}
	for i := r.Intn(3); i > 0; i-- {
		in.C = append(in.C, randString(r))
	}
	return in
}

func genTime(r *common.Rng, mode int) time.Time {
	switch mode {
	case 0:
		return time.Time{}
	case 1:
		switch r.Intn(7) {
		case 6:
			return time.Unix(-5, 5).UTC() // before the epoch, with a nanosecond part
		case 0:
			return time.Unix(0, 0).UTC()
		case 1:
			return time.Unix(1, 0).UTC()
		case 2:
			return time.Unix(-5, 0).UTC() // before the epoch
		case 3:
			return time.Date(2300, 1, 2, 3, 4, 5, 0, time.UTC) // beyond int64 nanoseconds
		case 4:
			return time.Unix(0, 1).UTC()
		default:
			return time.Unix(1700000000, 999999999).UTC()
		}
	default:
		sec := int64(1 + r.Intn(2000000000))
		ns := int64(0)
		if r.Chance(25) {
			ns = int64(r.Intn(1000000000))
		}
		t := time.Unix(sec, ns).UTC()
		if r.Chance(20) {
			t = t.In(time.FixedZone("x", 7200))
		}
		return t
	}
}

// genValue: mode 0 zero, 1 boundary, 2 random.
func genValue(r *common.Rng, k *kind, mode int) reflect.Value {
	v := reflect.New(k.typ).Elem()
	if mode == 0 {
		return v
	}
	pickU := func(max uint64) uint64 {
		if mode == 1 {
			return []uint64{1, max, max - 1, max / 2}[r.Intn(4)]
		}
		x := r.U64()
		if max != math.MaxUint64 {
			x %= max + 1
		}
		return x
	}
	pickI := func(min, max int64) int64 {
		if mode == 1 {
			return []int64{min, max, -1, 1, min + 1}[r.Intn(5)]
		}
		if min == math.MinInt64 {
			return int64(r.U64())
		}
		return min + int64(r.U64()%uint64(max-min+1))
	}
	switch k.name {
	case "string":
		v.SetString(randString(r))
	case "bool":
		v.SetBool(mode == 1 || r.Bool())
	case "uint8":
		v.SetUint(pickU(math.MaxUint8))
	case "uint16":
		v.SetUint(pickU(math.MaxUint16))
	case "uint32":
		v.SetUint(pickU(math.MaxUint32))
	case "uint64", "uint":
		v.SetUint(pickU(math.MaxUint64))
	case "int8":
		v.SetInt(pickI(math.MinInt8, math.MaxInt8))
	case "int16":
		v.SetInt(pickI(math.MinInt16, math.MaxInt16))
	case "int32":
		v.SetInt(pickI(math.MinInt32, math.MaxInt32))
	case "int64", "int":
		v.SetInt(pickI(math.MinInt64, math.MaxInt64))
	case "float32":
		if mode == 1 {
			v.SetFloat(float64([]float32{float32(math.Copysign(0, -1)), float32(math.Inf(1)), float32(math.Inf(-1)), math.MaxFloat32, math.SmallestNonzeroFloat32, float32(math.NaN())}[r.Intn(6)]))
		} else {
			v.SetFloat(float64(float32(r.Intn(2000001)-1000000) / 64))
		}
	case "float64":
		if mode == 1 {
			v.SetFloat([]float64{math.Copysign(0, -1), math.Inf(1), math.Inf(-1), math.MaxFloat64, math.SmallestNonzeroFloat64, math.NaN()}[r.Intn(6)])
		} else {
			v.SetFloat(float64(int64(r.U64())) / 1024)
		}
	case "bytes":
		if mode == 1 {
			v.SetBytes([][]byte{{}, {0}, {0xC7, 0x00, 0x81}, {0xff}}[r.Intn(4)])
		} else {
			v.SetBytes(r.Bytes(1 + r.Intn(16)))
		}
	case "time":
		v.Set(reflect.ValueOf(genTime(r, mode)))
	case "[]string":
		s := []string{}
		if mode == 2 {
			for i := 1 + r.Intn(3); i > 0; i-- {
				s = append(s, randString(r))
			}
		}
		v.Set(reflect.ValueOf(s))
	case "[]int64":
		s := []int64{}
		if mode == 2 {
			for i := 1 + r.Intn(3); i > 0; i-- {
				s = append(s, int64(r.U64()))
			}
		}
		v.Set(reflect.ValueOf(s))
	case "[]Inner":
		s := []Inner{}
		if mode == 2 {
			for i := 1 + r.Intn(2); i > 0; i-- {
				s = append(s, randInner(r))
			}
		}
		v.Set(reflect.ValueOf(s))
	case "map[string]int64":
		m := map[string]int64{}
		if mode == 2 {
			for i := 1 + r.Intn(3); i > 0; i-- {
				m[randIdent(r, 1+r.Intn(5))] = int64(r.U64())
			}
		}
		v.Set(reflect.ValueOf(m))
	case "map[string]string":
		m := map[string]string{}
		if mode == 2 {
			for i := 1 + r.Intn(3); i > 0; i-- {
				m[randIdent(r, 1+r.Intn(5))] = randString(r)
			}
		}
		v.Set(reflect.ValueOf(m))
	case "*Inner":
		in := Inner{}
		if mode == 2 {
			in = randInner(r)
		}
		v.Set(reflect.ValueOf(&in))
	case "*int64":
		x := int64(0)
		if mode == 2 {
			x = int64(r.U64())
		}
		v.Set(reflect.ValueOf(&x))
	case "*string":
		x := ""
		if mode == 2 {
			x = randString(r)
		}
		v.Set(reflect.ValueOf(&x))
	case "Inner":
		v.Set(reflect.ValueOf(randInner(r)))
	case "chan":
		if mode == 2 {
			v.Set(reflect.ValueOf(make(chan int)))
		}
	}
	return v
}

// ---- canonical equality (nil == empty for slices and maps) ---------------------------------------

func canonEq(a, b reflect.Value) bool {
	if a.Type() != b.Type() {
		return false
	}
	switch a.Kind() {
	case reflect.Slice:
		if a.Len() != b.Len() {
			return false
		}
		for i := 0; i < a.Len(); i++ {
			if !canonEq(a.Index(i), b.Index(i)) {
				return false
			}
		}
		return true
	case reflect.Map:
		if a.Len() != b.Len() {
			return false
		}
		it := a.MapRange()
		for it.Next() {
			bv := b.MapIndex(it.Key())
			if !bv.IsValid() || !canonEq(it.Value(), bv) {
				return false
			}
		}
		return true
	case reflect.Ptr:
		if a.IsNil() || b.IsNil() {
			return a.IsNil() == b.IsNil()
		}
		return canonEq(a.Elem(), b.Elem())
	case reflect.Struct:
		if a.Type() == timeType {
			return a.Interface().(time.Time).Equal(b.Interface().(time.Time))
		}
		for i := 0; i < a.NumField(); i++ {
			if !canonEq(a.Field(i), b.Field(i)) {
				return false
			}
		}
		return true
	case reflect.Chan:
		return a.IsNil() == b.IsNil()
	case reflect.Float32, reflect.Float64:
		// Go equality (so -0.0 == 0.0), except that NaN equals a NaN of the same bits
		x, y := a.Float(), b.Float()
		return x == y || math.Float64bits(x) == math.Float64bits(y)
	default:
		return reflect.DeepEqual(a.Interface(), b.Interface())
	}
}

// ---- Coq terms -------------------------------------------------------------------------------------

func strTerm(s string) string { return common.ByteList([]byte(s)) }

func state(v reflect.Value) string {
	switch {
	case v.IsNil():
		return "SNil"
	case v.Kind() != reflect.Ptr && v.Len() == 0:
		return "SEmpty"
	default:
		return "SFull"
	}
}

// valTerm prints a field value. Opaque kinds carry a token: 0 for nil / empty / zero, tok for
// "the content saved in this field", and garbage (77777) for any other content.
func valTerm(v reflect.Value, tok uint64) string {
	k := kindOf(v.Type())
	switch k.name {
	case "string":
		return "(VStr " + strTerm(v.String()) + ")"
	case "bool":
		return "(VBool " + common.Bool(v.Bool()) + ")"
	case "uint8":
		return "(VU U8 " + common.N(v.Uint()) + ")"
	case "uint16":
		return "(VU U16 " + common.N(v.Uint()) + ")"
	case "uint32":
		return "(VU U32 " + common.N(v.Uint()) + ")"
	case "uint64":
		return "(VU U64 " + common.N(v.Uint()) + ")"
	case "uint":
		return "(VU UInt " + common.N(v.Uint()) + ")"
	case "int8":
		return "(VI I8 " + common.Z(v.Int()) + ")"
	case "int16":
		return "(VI I16 " + common.Z(v.Int()) + ")"
	case "int32":
		return "(VI I32 " + common.Z(v.Int()) + ")"
	case "int64":
		return "(VI I64 " + common.Z(v.Int()) + ")"
	case "int":
		return "(VI IInt " + common.Z(v.Int()) + ")"
	case "float32":
		return "(VF32 " + common.N(uint64(math.Float32bits(float32(v.Float())))) + ")"
	case "float64":
		return "(VF64 " + common.N(math.Float64bits(v.Float())) + ")"
	case "bytes":
		return "(VBytes " + state(v) + " " + common.ByteList(v.Bytes()) + ")"
	case "time":
		t := v.Interface().(time.Time)
		return "(VTime " + common.Z(t.Unix()) + " " + common.N(uint64(t.Nanosecond())) + ")"
	case "Inner":
		if v.IsZero() || canonEq(v, reflect.Zero(v.Type())) {
			tok = 0
		}
		return "(VStruct " + common.N(tok) + ")"
	case "chan":
		if v.IsNil() {
			tok = 0
		}
		return "(VOther " + common.N(tok) + ")"
	}
	st := state(v)
	if st != "SFull" {
		tok = 0
	}
	return "(VCx " + k.cx + " " + st + " " + common.N(tok) + ")"
}

// canonTerm: the term of (canon v) for an opaque value (used inside blobs)
func canonTerm(v reflect.Value, tok uint64) string {
	t := valTerm(v, tok)
	t = strings.Replace(t, "(VCx CSlice SEmpty", "(VCx CSlice SNil", 1)
	t = strings.Replace(t, "(VCx CMap SEmpty", "(VCx CMap SNil", 1)
	t = strings.Replace(t, "(VBytes SEmpty", "(VBytes SNil", 1)
	t = strings.Replace(t, "(VF32 2147483648%N)", "(VF32 0%N)", 1)
	t = strings.Replace(t, "(VF64 9223372036854775808%N)", "(VF64 0%N)", 1)
	return t
}

// ---- models ----------------------------------------------------------------------------------------

type fieldSpec struct {
	Name   string
	Tag    *string // hydraide tag; nil = no hydraide tag
	Kind   *kind
	Val    reflect.Value
	ValStr string
}

type model struct {
	Fields []fieldSpec
	Type   reflect.Type
}

func (m *model) build() {
	sf := make([]reflect.StructField, len(m.Fields))
	for i, f := range m.Fields {
		tag := `json:"x"`
		if f.Tag != nil {
			tag = `hydraide:"` + *f.Tag + `" json:"x"`
		}
		sf[i] = reflect.StructField{Name: f.Name, Type: f.Kind.typ, Tag: reflect.StructTag(tag)}
	}
	m.Type = reflect.StructOf(sf)
}

func (m *model) instance() reflect.Value {
	p := reflect.New(m.Type)
	for i, f := range m.Fields {
		p.Elem().Field(i).Set(f.Val)
	}
	return p
}

func tok(i int) uint64 { return uint64(100 + i) }

func (m *model) term() string {
	fs := make([]string, len(m.Fields))
	for i, f := range m.Fields {
		tag := "None"
		if f.Tag != nil {
			tag = common.Some(strTerm(*f.Tag))
		}
		fs[i] = "F " + strTerm(f.Name) + " " + tag + " " + valTerm(f.Val, tok(i))
	}
	return common.List(fs)
}

// readTerm prints the values of a read-back instance; an opaque field gets the saved field's
// token iff it is canonically equal to what was saved there.
func (m *model) readTerm(p reflect.Value) string {
	vs := make([]string, len(m.Fields))
	for i, f := range m.Fields {
		got := p.Elem().Field(i)
		t := uint64(77777)
		if canonEq(got, f.Val) {
			t = tok(i)
		}
		vs[i] = valTerm(got, t)
	}
	return "(ReadVals " + common.List(vs) + ")"
}

func (m *model) descr() interface{} {
	fs := []string{}
	for _, f := range m.Fields {
		tag := "<none>"
		if f.Tag != nil {
			tag = `hydraide:"` + *f.Tag + `"`
		}
		fs = append(fs, fmt.Sprintf("%s %s `%s` = %s", f.Name, f.Kind.name, tag, fmtVal(f.Val)))
	}
	return fs
}

func fmtVal(v reflect.Value) string {
	if v.Kind() == reflect.Ptr && !v.IsNil() {
		return fmt.Sprintf("&%#v", v.Elem().Interface())
	}
	if v.Type() == timeType {
		t := v.Interface().(time.Time)
		return fmt.Sprintf("time(unix=%d,ns=%d)", t.Unix(), t.Nanosecond())
	}
	s := fmt.Sprintf("%#v", v.Interface())
	if len(s) > 120 {
		s = s[:120] + "..."
	}
	return s
}

var reservedTags = []string{"key", "value", "expireAt", "createdBy", "createdAt", "updatedBy", "updatedAt"}
var nearMiss = []string{"keywords", "monkey", "keys", "Key", "KEY", "key_id", "turkey", "values", "value2", "myvalue",
	"valu", "Value", "expireAtUtc", "expireat", "createdAtUtc", "createdByUser", "createdat", "updatedAtTs",
	"xupdatedBy", "updatedByKey", "omitempty", "valueexpireAt", "keyvalue", "createdAtcreatedBy", "deletable"}
var oddTags = []string{"", ",omitempty", "-", "a b", " key", "key ", "value ", ",", "title,", "x,y,z", "é"}
var optionSuffix = []string{"", "", "", ",omitempty", ",omitempty", ", omitempty", ",omitempty ", ",deletable", ",foo,omitempty", ",omitemptyx"}

var goNamePool = []string{"Key", "Value", "Title", "Subtitle", "Keywords", "Name", "ID", "Tags", "Count", "CreatedAt", "CreatedBy",
	"UpdatedAt", "UpdatedBy", "ExpireAt", "ExpiredAt", "Values", "Omitempty", "Body", "Meta"}

func isReservedHead(h string) bool {
	for _, t := range reservedTags {
		if t == h {
			return true
		}
	}
	return false
}

// crossLink makes the wire name (tag head) of one tagged, non-reserved field A coincide with the
// Go NAME of another such field B (exactly, lower-cased or upper-cased) and usually makes B absent
// from what is stored (omitempty + zero value) while A holds a value: any "fall back to the field
// name", "match names case-insensitively" or "first field that answers to this name" logic in
// the converters then reads or writes the wrong field.
func (m *model) crossLink(r *common.Rng) bool {
	var idx []int
	for i, f := range m.Fields {
		if f.Tag != nil && head(*f.Tag) != "" && !isReservedHead(head(*f.Tag)) {
			idx = append(idx, i)
		}
	}
	if len(idx) < 2 {
		return false
	}
	a, b := idx[r.Intn(len(idx))], idx[r.Intn(len(idx))]
	if a == b {
		return false
	}
	A, B := &m.Fields[a], &m.Fields[b]
	newHead := B.Name
	switch r.Intn(6) {
	case 0:
		newHead = strings.ToLower(newHead)
	case 1:
		newHead = strings.ToUpper(newHead)
	}
	for i, f := range m.Fields {
		if i != a && f.Tag != nil && head(*f.Tag) == newHead {
			return false
		}
	}
	if isReservedHead(newHead) {
		return false
	}
	A.Tag = sp(newHead + strings.TrimPrefix(*A.Tag, head(*A.Tag)))
	if r.Chance(50) {
		A.Kind = B.Kind
	}
	A.Val = genValue(r, A.Kind, 2)
	if r.Chance(65) {
		B.Tag = sp(head(*B.Tag) + ",omitempty")
		B.Val = reflect.Zero(B.Kind.typ)
	}
	return true
}

func sp(s string) *string { return &s }

func pickMode(r *common.Rng) int {
	switch x := r.Intn(10); {
	case x < 2:
		return 0
	case x < 4:
		return 1
	default:
		return 2
	}
}

func randKind(r *common.Rng) *kind {
	if r.Chance(2) {
		return &kinds[kChan]
	}
	return &kinds[r.Intn(len(kinds)-1)]
}

func bodyTag(r *common.Rng) string {
	switch x := r.Intn(10); {
	case x < 5:
		return nearMiss[r.Intn(len(nearMiss))]
	case x < 9:
		return randIdent(r, 1+r.Intn(9))
	default:
		return oddTags[r.Intn(len(oddTags))]
	}
}

func head(tag string) string { return strings.SplitN(tag, ",", 2)[0] }

// addFresh is add, but re-draws the tag a few times if its head is already used in the model
// (duplicates are generated on purpose elsewhere, at a fixed small rate).
func (m *model) addFresh(r *common.Rng, gen func() string, k *kind, mode int) {
	t := gen()
	for try := 0; try < 5; try++ {
		clash := false
		for _, f := range m.Fields {
			clash = clash || (f.Tag != nil && head(*f.Tag) == head(t))
		}
		if !clash {
			break
		}
		t = gen()
	}
	m.add(r, sp(t), k, mode)
}

func (m *model) add(r *common.Rng, tag *string, k *kind, mode int) {
	f := fieldSpec{Name: fmt.Sprintf("F%d", len(m.Fields)), Tag: tag, Kind: k}
	switch x := r.Intn(100); {
	case x < 15:
		f.Name = strings.ToUpper(randIdent(r, 1)) + randIdent(r, r.Intn(6))
	case x < 40:
		// Go field names that look like wire names / reserved words: the SDK must go by the tag only
		f.Name = goNamePool[r.Intn(len(goNamePool))]
	}
	for _, g := range m.Fields {
		if g.Name == f.Name {
			f.Name = fmt.Sprintf("F%d", len(m.Fields))
		}
	}
	f.Val = genValue(r, k, mode)
	m.Fields = append(m.Fields, f)
}

// revalue draws new values for every field of an existing model type (second use of the same
// type). A string field tagged as the key keeps getting a non-empty value most of the time.
func (m *model) revalue(r *common.Rng, catalog bool) {
	for i := range m.Fields {
		f := &m.Fields[i]
		mode := pickMode(r)
		if catalog && f.Tag != nil && head(*f.Tag) == "key" && f.Kind.name == "string" && !r.Chance(4) {
			mode = 2
		}
		f.Val = genValue(r, f.Kind, mode)
	}
}

func genCatalogModel(r *common.Rng) (*model, string) {
	m := &model{}
	shapeKind := []string{"keyonly", "single", "body", "body", "body", "chaos"}[r.Intn(6)]
	// key
	if r.Chance(93) {
		mode := 2
		if r.Chance(5) {
			mode = 0
		}
		k := &kinds[kString]
		if r.Chance(3) {
			k = randKind(r)
		}
		m.add(r, sp("key"+[]string{"", "", "", "", ",omitempty"}[r.Intn(5)]), k, mode)
	}
	metaField := func() {
		role := reservedTags[2+r.Intn(5)]
		for try := 0; try < 5; try++ {
			clash := false
			for _, f := range m.Fields {
				clash = clash || (f.Tag != nil && head(*f.Tag) == role)
			}
			if !clash {
				break
			}
			role = reservedTags[2+r.Intn(5)]
		}
		k := &kinds[kString]
		if strings.HasSuffix(role, "At") {
			k = &kinds[kTime]
		}
		if r.Chance(8) {
			k = randKind(r)
		}
		m.add(r, sp(role+optionSuffix[r.Intn(len(optionSuffix))]), k, pickMode(r))
	}
	switch shapeKind {
	case "single":
		m.add(r, sp("value"+optionSuffix[r.Intn(len(optionSuffix))]), randKind(r), pickMode(r))
	case "body":
		n := 1 + r.Intn(4)
		for i := 0; i < n; i++ {
			m.addFresh(r, func() string { return bodyTag(r) + optionSuffix[r.Intn(len(optionSuffix))] }, randKind(r), pickMode(r))
		}
	case "chaos":
		n := 1 + r.Intn(4)
		for i := 0; i < n; i++ {
			var t string
			switch x := r.Intn(10); {
			case x < 4:
				t = reservedTags[r.Intn(len(reservedTags))]
			case x < 7:
				t = nearMiss[r.Intn(len(nearMiss))]
			case x < 9:
				t = randIdent(r, 1+r.Intn(9))
			default:
				t = oddTags[r.Intn(len(oddTags))]
			}
			m.add(r, sp(t+optionSuffix[r.Intn(len(optionSuffix))]), randKind(r), pickMode(r))
		}
	}
	for len(m.Fields) < 6 && r.Chance(45) {
		metaField()
	}
	if len(m.Fields) < 6 && r.Chance(10) {
		m.add(r, nil, randKind(r), pickMode(r)) // no hydraide tag
	}
	if len(m.Fields) > 0 && len(m.Fields) < 6 && r.Chance(5) { // duplicate of an existing tag
		src := m.Fields[r.Intn(len(m.Fields))]
		if src.Tag != nil {
			m.add(r, sp(*src.Tag), randKind(r), pickMode(r))
			shapeKind += "+dup"
		}
	}
	if len(m.Fields) == 0 {
		m.add(r, sp("key"), &kinds[kString], 2)
	}
	if (strings.HasPrefix(shapeKind, "body") || strings.HasPrefix(shapeKind, "chaos")) && r.Chance(35) && m.crossLink(r) {
		shapeKind += "+xname"
	}
	// shuffle the field order (the key need not come first)
	if r.Chance(50) {
		for i := len(m.Fields) - 1; i > 0; i-- {
			j := r.Intn(i + 1)
			m.Fields[i], m.Fields[j] = m.Fields[j], m.Fields[i]
		}
	}
	m.build()
	return m, shapeKind
}

func genProfileModel(r *common.Rng) *model {
	m := &model{}
	n := 1 + r.Intn(6)
	for i := 0; i < n; i++ {
		var tag *string
		switch x := r.Intn(10); {
		case x < 3:
		case x < 5:
			tag = sp("omitempty")
		case x < 6:
			tag = sp("deletable")
		case x < 7:
			tag = sp([]string{"omitempty,deletable", "x,omitempty", " omitempty", "omitemptyx", "deletable,omitempty"}[r.Intn(5)])
		case x < 9:
			tag = sp(reservedTags[r.Intn(len(reservedTags))] + optionSuffix[r.Intn(len(optionSuffix))])
		default:
			tag = sp(nearMiss[r.Intn(len(nearMiss))])
		}
		m.add(r, tag, randKind(r), pickMode(r))
	}
	if len(m.Fields) >= 2 && r.Chance(20) { // a tag that is another field's Go name (profile keys are field names)
		i, j := r.Intn(len(m.Fields)), r.Intn(len(m.Fields))
		if i != j {
			m.Fields[i].Tag = sp(m.Fields[j].Name + []string{"", ",omitempty", ",deletable"}[r.Intn(3)])
		}
	}
	m.build()
	return m
}

// ---- observations -------------------------------------------------------------------------------------

func errTerm(err error) string {
	s := err.Error()
	role := func() string {
		for _, p := range [][2]string{{"expireAt", "RExpireAt"}, {"createdBy", "RCreatedBy"}, {"createdAt", "RCreatedAt"}, {"updatedBy", "RUpdatedBy"}, {"updatedAt", "RUpdatedAt"}} {
			if strings.Contains(s, p[0]+" field") {
				return p[1]
			}
		}
		return "RNone"
	}
	switch {
	case strings.Contains(s, "model mixes"):
		return "EMixed"
	case strings.Contains(s, "key field must be a non-empty string"):
		return "EKey"
	case strings.Contains(s, "key field not found"):
		return "ENoKey"
	case strings.Contains(s, "must be a non-zero time.Time"):
		return "(EZero " + role() + ")"
	case strings.Contains(s, "field must be a time.Time"), strings.Contains(s, "field must be a string"):
		return "(EType " + role() + ")"
	case strings.Contains(s, "unsupported value type"):
		return "EUnsupported"
	case strings.Contains(s, "-encode"), strings.Contains(s, "encode map-body"):
		return "ECodec"
	case strings.Contains(s, "KeyValues cannot be empty"):
		return "EEmpty"
	}
	return "(EType RNone)" // unknown error text: never equal to a model error
}

// blobTerm lists every interpretation of an observed BytesVal that the harness could verify
// with the Go libraries themselves.
func blobTerm(m *model, b []byte) string {
	var in []string
	hasBytesField := false
	for i, f := range m.Fields {
		if f.Kind.name == "bytes" {
			hasBytesField = true
		}
		if f.Kind.cx != "CSlice" && f.Kind.cx != "CMap" && f.Kind.cx != "CPtr" {
			continue
		}
		dst := reflect.New(f.Kind.typ)
		msgp := len(b) >= 2 && b[0] == 0xC7 && b[1] == 0x00
		var err error
		if msgp {
			err = msgpack.Unmarshal(b[2:], dst.Interface())
		} else {
			err = gob.NewDecoder(bytes.NewReader(b)).Decode(dst.Interface())
		}
		if err == nil && canonEq(dst.Elem(), f.Val) {
			t := "(BEnc " + common.Bool(msgp) + " " + canonTerm(f.Val, tok(i)) + ")"
			dup := false
			for _, x := range in {
				dup = dup || x == t
			}
			if !dup {
				in = append(in, t)
			}
		}
	}
	if hasBytesField || len(b) <= 8 {
		in = append(in, "(BRaw "+common.ByteList(b)+")")
	}
	if len(b) >= 2 && b[0] == 0xC7 && b[1] == 0x00 {
		raws := map[string]msgpack.RawMessage{}
		if err := msgpack.Unmarshal(b[2:], &raws); err == nil {
			names := make([]string, 0, len(raws))
			for n := range raws {
				names = append(names, n)
			}
			sort.Slice(names, func(i, j int) bool { return bytes.Compare([]byte(names[i]), []byte(names[j])) < 0 })
			var es []string
			ok := true
			for _, n := range names {
				// the LAST field whose tag head is n supplies the value (Go map semantics)
				found := -1
				for i, f := range m.Fields {
					if f.Tag != nil && strings.SplitN(*f.Tag, ",", 2)[0] == n {
						dst := reflect.New(f.Kind.typ)
						var err error
						if len(raws[n]) > 0 { // msgpack nil arrives as an empty RawMessage: the zero value
							err = msgpack.Unmarshal(raws[n], dst.Interface())
						}
						if err == nil && canonEq(dst.Elem(), f.Val) {
							found = i
						}
					}
				}
				if found < 0 {
					ok = false
					break
				}
				es = append(es, "("+strTerm(n)+", "+canonTerm(m.Fields[found].Val, tok(found))+")")
			}
			if ok {
				in = append(in, "(BBody "+common.List(es)+")")
			}
		}
	}
	return "(BObs " + common.List(in) + ")"
}

func tsTerm(t *timestamppb.Timestamp) string {
	return "(pTime " + common.Z(t.GetSeconds()) + " " + common.N(uint64(uint32(t.GetNanos()))) + ")"
}

func kvTerm(m *model, kv *hydrapb.KeyValuePair) string {
	var e []string
	add := func(sn, p string) { e = append(e, "("+sn+", "+p+")") }
	typed := func(rank int, slot string) { add(fmt.Sprintf("SnTyped %d", rank), "pTyped ("+slot+")") }
	if kv.Key != "" {
		add("SnKey", "pStr "+strTerm(kv.Key))
	}
	if kv.Int8Val != nil {
		typed(0, "tI8 "+common.Z(int64(*kv.Int8Val)))
	}
	if kv.Int16Val != nil {
		typed(1, "tI16 "+common.Z(int64(*kv.Int16Val)))
	}
	if kv.Int32Val != nil {
		typed(2, "tI32 "+common.Z(int64(*kv.Int32Val)))
	}
	if kv.Int64Val != nil {
		typed(3, "tI64 "+common.Z(*kv.Int64Val))
	}
	if kv.Uint8Val != nil {
		typed(4, "tU8 "+common.N(uint64(*kv.Uint8Val)))
	}
	if kv.Uint16Val != nil {
		typed(5, "tU16 "+common.N(uint64(*kv.Uint16Val)))
	}
	if kv.Uint32Val != nil {
		typed(6, "tU32 "+common.N(uint64(*kv.Uint32Val)))
	}
	if kv.Uint64Val != nil {
		typed(7, "tU64 "+common.N(*kv.Uint64Val))
	}
	if kv.Float32Val != nil {
		typed(8, "tF32 "+common.N(uint64(math.Float32bits(*kv.Float32Val))))
	}
	if kv.Float64Val != nil {
		typed(9, "tF64 "+common.N(math.Float64bits(*kv.Float64Val)))
	}
	if kv.StringVal != nil {
		typed(10, "tStr "+strTerm(*kv.StringVal))
	}
	if kv.BoolVal != nil {
		typed(11, "tBool "+common.Bool(*kv.BoolVal == hydrapb.Boolean_TRUE))
	}
	if kv.BytesVal != nil {
		typed(12, "tBytes "+blobTerm(m, kv.BytesVal))
	}
	if kv.Uint32Slice != nil {
		typed(13, "tBytes (BObs [])") // never produced by the converters
	}
	if kv.VoidVal != nil {
		add("SnVoid", "pBool "+common.Bool(*kv.VoidVal))
	}
	if kv.ExpiredAt != nil {
		add("SnExp", tsTerm(kv.ExpiredAt))
	}
	if kv.CreatedBy != nil {
		add("SnCBy", "pStr "+strTerm(*kv.CreatedBy))
	}
	if kv.CreatedAt != nil {
		add("SnCAt", tsTerm(kv.CreatedAt))
	}
	if kv.UpdatedBy != nil {
		add("SnUBy", "pStr "+strTerm(*kv.UpdatedBy))
	}
	if kv.UpdatedAt != nil {
		add("SnUAt", tsTerm(kv.UpdatedAt))
	}
	return common.List(e)
}

// ---- one save/read case ----------------------------------------------------------------------------------

type result struct {
	term       string
	descr      map[string]interface{}
	nontrivial bool
	hist       []string
}

func swampName(msgp bool, realm string, i int) sdkname.Name {
	s := "c22g"
	if msgp {
		s = "c22m"
	}
	return sdkname.New().Sanctuary(s).Realm(realm).Swamp(fmt.Sprintf("s%d", i))
}

func safely(f func() error) (err error, panicked bool) {
	defer func() {
		if p := recover(); p != nil {
			err, panicked = fmt.Errorf("panic: %v", p), true
		}
	}()
	return f(), false
}

var catalogAPIs = []string{"CatalogSave+CatalogRead", "CatalogSave+CatalogReadMany", "", "CatalogCreate+CatalogRead"}

func runCatalog(sdk hydraidego.Hydraidego, r *common.Rng, i int) []result {
	m, shapeKind := genCatalogModel(r)
	msgp := r.Bool()
	api := []int{0, 0, 1, 1, 3}[r.Intn(5)]
	out := []result{execCatalog(sdk, m, shapeKind, msgp, api, swampName(msgp, "cat", i))}
	// second (and third) use of the same struct type with other values, other encoding, other API
	for n := 1; n <= 2 && r.Chance(25); n++ {
		m.revalue(r, true)
		msgp, api = r.Bool(), []int{0, 1, 3}[r.Intn(3)]
		out = append(out, execCatalog(sdk, m, shapeKind+"+reuse", msgp, api, swampName(msgp, "cat", i+n*1000000)))
	}
	return out
}

// execCatalog saves one instance of the model into a fresh swamp and reads it back.
func execCatalog(sdk hydraidego.Hydraidego, m *model, shapeKind string, msgp bool, api int, sw sdkname.Name) result {
	res := result{descr: map[string]interface{}{"api": catalogAPIs[api],
		"msgpack": msgp, "model": m.descr(), "generator": shapeKind, "go_type": m.Type.String()}}
	res.hist = append(res.hist, "catalog:"+shapeKind, "api:"+catalogAPIs[api])
	inst := m.instance()
	cp := &capture{}
	ctx, cancel := context.WithTimeout(context.WithValue(context.Background(), capKey{}, cp), 30*time.Second)
	defer cancel()
	var saveTerm string
	readTerm := "ReadErr"
	err, panicked := safely(func() error {
		if api == 3 {
			return sdk.CatalogCreate(ctx, sw, inst.Interface())
		}
		_, e := sdk.CatalogSave(ctx, sw, inst.Interface())
		return e
	})
	if err != nil {
		res.descr["save_error"] = err.Error()
		if panicked {
			saveTerm = "(SaveErr EPanic)"
		} else {
			saveTerm = "(SaveErr " + errTerm(err) + ")"
		}
		res.hist = append(res.hist, "save:rejected")
	} else if len(cp.sets) != 1 || len(cp.sets[0].Swamps) != 1 || len(cp.sets[0].Swamps[0].KeyValues) != 1 {
		saveTerm = "(SaveErr EPanic)"
		res.descr["save_error"] = "no single KeyValuePair captured"
	} else {
		kv := cp.sets[0].Swamps[0].KeyValues[0]
		saveTerm = "(SaveOk " + kvTerm(m, kv) + ")"
		res.descr["kv"] = kv.String()
		res.hist = append(res.hist, "save:accepted")
		res.nontrivial = len(m.Fields) >= 2
		got := reflect.New(m.Type)
		var rerr error
		var rp bool
		if api != 1 {
			rerr, rp = safely(func() error { return sdk.CatalogRead(ctx, sw, kv.Key, got.Interface()) })
		} else {
			n := 0
			rerr, rp = safely(func() error {
				return sdk.CatalogReadMany(ctx, sw, &hydraidego.Index{IndexType: hydraidego.IndexKey, IndexOrder: hydraidego.IndexOrderAsc},
					reflect.Zero(m.Type).Interface(), func(x any) error { got = reflect.ValueOf(x); n++; return nil })
			})
			if rerr == nil && n != 1 {
				rerr = fmt.Errorf("CatalogReadMany returned %d models", n)
			}
		}
		switch {
		case rp:
			readTerm = "ReadPanic"
			res.descr["read_error"] = rerr.Error()
		case rerr != nil:
			res.descr["read_error"] = rerr.Error()
		default:
			readTerm = m.readTerm(got)
			res.descr["read"] = fmt.Sprintf("%+v", got.Elem().Interface())
		}
	}
	res.term = fmt.Sprintf("CSaveRead %d %s %s %s %s", api, common.Bool(msgp), m.term(), saveTerm, readTerm)
	return res
}

func runProfile(sdk hydraidego.Hydraidego, r *common.Rng, i int) []result {
	m := genProfileModel(r)
	msgp := r.Bool()
	out := []result{execProfile(sdk, m, "profile", msgp, swampName(msgp, "prof", i))}
	if r.Chance(25) {
		m.revalue(r, false)
		msgp = r.Bool()
		out = append(out, execProfile(sdk, m, "profile+reuse", msgp, swampName(msgp, "prof", i+1000000)))
	}
	return out
}

func execProfile(sdk hydraidego.Hydraidego, m *model, label string, msgp bool, sw sdkname.Name) result {
	res := result{descr: map[string]interface{}{"api": "ProfileSave+ProfileRead", "msgpack": msgp, "model": m.descr(), "go_type": m.Type.String()}}
	res.hist = append(res.hist, label)
	inst := m.instance()
	cp := &capture{}
	ctx, cancel := context.WithTimeout(context.WithValue(context.Background(), capKey{}, cp), 30*time.Second)
	defer cancel()
	var saveTerm string
	readTerm := "ReadErr"
	err, panicked := safely(func() error { return sdk.ProfileSave(ctx, sw, inst.Interface()) })
	if err != nil {
		res.descr["save_error"] = err.Error()
		if panicked {
			saveTerm = "(SaveErr EPanic)"
		} else {
			saveTerm = "(SaveErr " + errTerm(err) + ")"
		}
		res.hist = append(res.hist, "save:rejected")
	} else if len(cp.sets) != 1 || len(cp.sets[0].Swamps) != 1 {
		saveTerm = "(SaveErr EPanic)"
		res.descr["save_error"] = "no single SetRequest captured"
	} else {
		var es []string
		for _, kv := range cp.sets[0].Swamps[0].KeyValues {
			es = append(es, "("+strTerm(kv.Key)+", "+kvTerm(m, kv)+")")
		}
		saveTerm = "(SaveProf " + common.List(es) + ")"
		res.hist = append(res.hist, "save:accepted")
		res.nontrivial = len(m.Fields) >= 2
		got := reflect.New(m.Type)
		rerr, rp := safely(func() error { return sdk.ProfileRead(ctx, sw, got.Interface()) })
		switch {
		case rp:
			readTerm = "ReadPanic"
			res.descr["read_error"] = rerr.Error()
		case rerr != nil:
			res.descr["read_error"] = rerr.Error()
		default:
			readTerm = m.readTerm(got)
			res.descr["read"] = fmt.Sprintf("%+v", got.Elem().Interface())
		}
	}
	res.term = fmt.Sprintf("CSaveRead 2 %s %s %s %s", common.Bool(msgp), m.term(), saveTerm, readTerm)
	return res
}

// ---- probes -------------------------------------------------------------------------------------------------

func probeTags() []string {
	var ts []string
	for _, t := range reservedTags {
		ts = append(ts, t)
	}
	ts = append(ts, nearMiss...)
	ts = append(ts, oddTags...)
	var all []string
	for _, t := range ts {
		for _, o := range []string{"", ",omitempty", ", omitempty"} {
			all = append(all, t+o)
		}
	}
	return all
}

// runDecodeProbe: a fully populated Treasure decoded into {F <string|time.Time> `tag`}.
func runDecodeProbe(tag string, useTime bool, tokSeed int) result {
	k := &kinds[kString]
	if useTime {
		k = &kinds[kTime]
	}
	m := &model{Fields: []fieldSpec{{Name: "F", Tag: sp(tag), Kind: k, Val: reflect.Zero(k.typ)}}}
	m.build()
	sv := "content"
	iv := int64(1234567)
	cb, ub := "creator", "updater"
	tr := &hydrapb.Treasure{Key: "thekey", IsExist: true,
		ExpiredAt: timestamppb.New(time.Unix(1000, 5)), CreatedAt: timestamppb.New(time.Unix(2000, 6)),
		UpdatedAt: timestamppb.New(time.Unix(3000, 7)), CreatedBy: &cb, UpdatedBy: &ub}
	content := "(Some (tStr " + strTerm(sv) + "))"
	if useTime {
		tr.Int64Val = &iv
		content = "(Some (tI64 " + common.Z(iv) + "))"
	} else {
		tr.StringVal = &sv
	}
	tT := fmt.Sprintf("(mkT %s %s %s %s %s %s %s)", strTerm("thekey"), content,
		common.Z(1000*1e9+5), strTerm(cb), common.Z(2000*1e9+6), strTerm(ub), common.Z(3000*1e9+7))
	got := reflect.New(m.Type)
	err, panicked := safely(func() error { return hydraidego.VerifC22Decode(tr, got.Interface()) })
	readTerm := "ReadErr"
	switch {
	case panicked:
		readTerm = "ReadPanic"
	case err == nil:
		readTerm = m.readTerm(got)
	}
	return result{term: "CDecode " + tT + " " + m.term() + " " + readTerm,
		descr:      map[string]interface{}{"probe": "decode", "tag": tag, "field_is_time": useTime, "outcome": fmt.Sprint(err)},
		nontrivial: true, hist: []string{"probe:decode"}}
}

// runBodyDecodeProbe decodes a FOREIGN map body (as the patch flow, another SDK or an older
// version of the model would have written it) into a map-body model: entries under some of the
// model's wire names, under Go field names of its fields, under case variants and under unknown
// names. Only the entries stored under a field's own wire name may reach that field.
func runBodyDecodeProbe(r *common.Rng) (result, bool) {
	m, _ := genCatalogModel(r)
	sh, names, idxs, _, err := hydraidego.VerifC22Inspect(m.Type)
	if err != nil || sh != 2 {
		return result{}, false
	}
	wire := map[string]int{}
	for k, n := range names {
		if _, dup := wire[n]; dup || m.Fields[idxs[k]].Kind.cx == "other" {
			return result{}, false
		}
		wire[n] = idxs[k]
	}
	body := map[string]any{}
	terms := map[string]string{}
	for i := range m.Fields {
		m.Fields[i].Val = reflect.Zero(m.Fields[i].Kind.typ)
	}
	for n, i := range wire {
		if r.Chance(65) {
			f := &m.Fields[i]
			f.Val = genValue(r, f.Kind, pickMode(r))
			body[n] = f.Val.Interface()
			terms[n] = canonTerm(f.Val, tok(i))
		}
	}
	foreign := func(n string) {
		if _, used := body[n]; used || n == "" {
			return
		}
		if _, isWire := wire[n]; isWire {
			return
		}
		switch r.Intn(3) {
		case 0:
			s := randString(r)
			body[n], terms[n] = s, "(VStr "+strTerm(s)+")"
		case 1:
			x := int64(r.U64())
			body[n], terms[n] = x, "(VI I64 "+common.Z(x)+")"
		default:
			b := r.Bool()
			body[n], terms[n] = b, "(VBool "+common.Bool(b)+")"
		}
	}
	for _, f := range m.Fields {
		if r.Chance(60) {
			foreign(f.Name)
		}
		if r.Chance(25) {
			foreign(strings.ToLower(f.Name))
		}
	}
	for n := range wire {
		if r.Chance(25) {
			foreign(strings.ToUpper(n))
		}
		if r.Chance(25) {
			foreign(strings.ToLower(n))
		}
		if r.Chance(15) {
			foreign(n + "x")
		}
	}
	foreign(randIdent(r, 1+r.Intn(6)))
	if len(body) == 0 {
		return result{}, false
	}
	enc, err := msgpack.Marshal(body)
	if err != nil {
		return result{}, false
	}
	blob := append([]byte{0xC7, 0x00}, enc...)
	if r.Chance(30) {
		blob = enc // the patch flow hands back the unwrapped msgpack
	}
	ns := make([]string, 0, len(terms))
	for n := range terms {
		ns = append(ns, n)
	}
	sort.Strings(ns)
	var es []string
	for _, n := range ns {
		es = append(es, "("+strTerm(n)+", "+terms[n]+")")
	}
	tr := &hydrapb.Treasure{Key: "thekey", IsExist: true, BytesVal: blob}
	tT := fmt.Sprintf("(mkT %s (Some (tBytes (BBody %s))) 0%%Z [] 0%%Z [] 0%%Z)", strTerm("thekey"), common.List(es))
	got := reflect.New(m.Type)
	derr, panicked := safely(func() error { return hydraidego.VerifC22Decode(tr, got.Interface()) })
	readTerm := "ReadErr"
	switch {
	case panicked:
		readTerm = "ReadPanic"
	case derr == nil:
		// the key field legitimately receives the treasure key
		for i, f := range m.Fields {
			if f.Tag != nil && head(*f.Tag) == "key" && f.Kind.name == "string" {
				m.Fields[i].Val = reflect.ValueOf("thekey")
			}
		}
		readTerm = m.readTerm(got)
	}
	// the model term must describe the struct TYPE only (values = what the body holds per wire name)
	return result{term: "CDecode " + tT + " " + m.term() + " " + readTerm,
		descr: map[string]interface{}{"probe": "decode of a foreign map body", "model": m.descr(), "body_keys": ns,
			"outcome": fmt.Sprint(derr), "read": fmt.Sprintf("%+v", got.Elem().Interface())},
		nontrivial: true, hist: []string{"probe:body-decode"}}, true
}

func runInspectProbe(m *model) result {
	sh, names, _, omit, err := hydraidego.VerifC22Inspect(m.Type)
	o := "InspErr"
	if err == nil {
		var es []string
		for i := range names {
			es = append(es, "("+strTerm(names[i])+", "+common.Bool(omit[i])+")")
		}
		o = fmt.Sprintf("(InspOk %d %s)", sh, common.List(es))
	}
	return result{term: "CInspect " + m.term() + " " + o,
		descr:      map[string]interface{}{"probe": "inspectCatalogModel", "model": m.descr()},
		nontrivial: len(m.Fields) >= 2, hist: []string{"probe:inspect"}}
}

// the tag witnesses of the refutation theorems, replayed on the real SDK
func witnessModels() []*model {
	mk := func(fs ...fieldSpec) *model {
		m := &model{Fields: fs}
		m.build()
		return m
	}
	str := func(name, tag, v string) fieldSpec {
		return fieldSpec{Name: name, Tag: sp(tag), Kind: &kinds[kString], Val: reflect.ValueOf(v)}
	}
	i64 := func(name, tag string, v int64) fieldSpec {
		return fieldSpec{Name: name, Tag: sp(tag), Kind: kindOf(reflect.TypeOf(int64(0))), Val: reflect.ValueOf(v)}
	}
	tm := func(name, tag string, v time.Time) fieldSpec {
		return fieldSpec{Name: name, Tag: sp(tag), Kind: &kinds[kTime], Val: reflect.ValueOf(v)}
	}
	return []*model{
		mk(str("ID", "key", "d1"), str("Keywords", "keywords", "alpha beta")),
		mk(str("ID", "key", "d2"), str("Values", "values", "v"), i64("N", "count", 7)),
		mk(str("ID", "key", "d3"), i64("Monkey", "monkey", 3)),
		mk(str("ID", "key", "d4"), tm("CreatedAtUtc", "createdAtUtc", time.Unix(1700000000, 0).UTC()), str("T", "title", "x")),
		mk(str("ID", "key", "d5"), str("CreatedByUser", "createdByUser", "bob"), tm("At", "createdAt", time.Unix(1700000001, 0).UTC())),
		mk(str("ID", "key", "d6"), str("V", "valueexpireAt", "zz")),
		mk(str("ID", "key,omitempty", "d7"), str("V", "value", "zz")),
	}
}

func runWitness(sdk hydraidego.Hydraidego, m *model, i int, msgp bool) result {
	sw := swampName(msgp, "wit", i)
	inst := m.instance()
	cp := &capture{}
	ctx, cancel := context.WithTimeout(context.WithValue(context.Background(), capKey{}, cp), 30*time.Second)
	defer cancel()
	res := result{descr: map[string]interface{}{"api": "CatalogSave+CatalogRead (witness)", "msgpack": msgp, "model": m.descr()},
		nontrivial: true, hist: []string{"witness"}}
	saveTerm, readTerm := "(SaveErr EPanic)", "ReadErr"
	err, _ := safely(func() error { _, e := sdk.CatalogSave(ctx, sw, inst.Interface()); return e })
	if err != nil {
		saveTerm = "(SaveErr " + errTerm(err) + ")"
		res.descr["save_error"] = err.Error()
	} else if len(cp.sets) == 1 {
		kv := cp.sets[0].Swamps[0].KeyValues[0]
		saveTerm = "(SaveOk " + kvTerm(m, kv) + ")"
		res.descr["kv"] = kv.String()
		got := reflect.New(m.Type)
		rerr, rp := safely(func() error { return sdk.CatalogRead(ctx, sw, kv.Key, got.Interface()) })
		if rp {
			readTerm = "ReadPanic"
			res.descr["read_error"] = rerr.Error()
		} else if rerr == nil {
			readTerm = m.readTerm(got)
			res.descr["read"] = fmt.Sprintf("%+v", got.Elem().Interface())
		} else {
			res.descr["read_error"] = rerr.Error()
		}
	}
	res.term = fmt.Sprintf("CSaveRead 0 %s %s %s %s", common.Bool(msgp), m.term(), saveTerm, readTerm)
	return res
}

// ---- main ------------------------------------------------------------------------------------------------------

func main() {
	args := common.ParseArgs()
	rig.Quiet()
	run := common.NewRun(args, "C22", "HV.Sdk.ConvCheck")
	run.Meta.Rule = "a save/read case is non-trivial when the SDK accepted the model and it has at least two fields; probes always are"

	root, _ := os.MkdirTemp("", "c22")
	defer os.RemoveAll(root)
	srv := rig.Start(root, true)
	defer srv.Stop()
	sdk, done := connect(srv)
	defer done()
	for _, msgp := range []bool{false, true} {
		for _, realm := range []string{"cat", "prof", "wit"} {
			s := "c22g"
			fs := &hydraidego.SwampFilesystemSettings{}
			if msgp {
				s = "c22m"
				fs.EncodingFormat = hydraidego.EncodingMsgPack
			}
			if errs := sdk.RegisterSwamp(context.Background(), &hydraidego.RegisterSwampRequest{
				SwampPattern: sdkname.New().Sanctuary(s).Realm(realm).Swamp("*"), CloseAfterIdle: time.Hour,
				IsInMemorySwamp: true, FilesystemSettings: fs}); errs != nil {
				fmt.Fprintln(os.Stderr, "register:", errs)
				os.Exit(3)
			}
		}
	}

	nCat, nProf, nInsp := 1050, 380, 280
	if args.Tier == "thorough" {
		nCat, nProf, nInsp = 16000, 5000, 2000
	}
	base := common.NewRng(args.Seed, "C22")
	var results []result

	// 1. witnesses
	for i, m := range witnessModels() {
		results = append(results, runWitness(sdk, m, i, i%2 == 1))
	}
	// 2. decoder probes
	for i, t := range probeTags() {
		results = append(results, runDecodeProbe(t, false, i), runDecodeProbe(t, true, i))
	}
	// 3. inspect probes
	ri := base.Fork("inspect")
	for i := 0; i < nInsp; i++ {
		m, _ := genCatalogModel(ri)
		results = append(results, runInspectProbe(m))
	}
	// 3b. foreign-body decode probes
	rb := base.Fork("bodyprobe")
	for n, tries := 0, 0; n < nInsp && tries < 20*nInsp; tries++ {
		if res, ok := runBodyDecodeProbe(rb); ok {
			results = append(results, res)
			n++
		}
	}
	// 4. named model types, sequentially: per type an inspect probe, then three save/read rounds
	//    with zero / boundary / random values; the order of the types changes with the seed
	lib := namedLibrary()
	rn := base.Fork("named")
	for i := len(lib) - 1; i > 0; i-- {
		j := rn.Intn(i + 1)
		lib[i], lib[j] = lib[j], lib[i]
	}
	nRounds := 3
	if args.Tier == "thorough" {
		nRounds = 8
	}
	for round := 0; round < nRounds; round++ {
		for ti, nt := range lib {
			m := modelOfType(nt.typ)
			if round == 0 {
				results = append(results, runInspectProbe(m))
			}
			m.revalue(rn, !nt.profile)
			msgp := rn.Bool()
			idx := 5000000 + round*1000 + ti
			var res result
			if nt.profile {
				res = execProfile(sdk, m, "named:"+nt.group, msgp, swampName(msgp, "prof", idx))
			} else {
				res = execCatalog(sdk, m, "named:"+nt.group, msgp, []int{0, 1, 3}[rn.Intn(3)], swampName(msgp, "cat", idx))
			}
			results = append(results, res)
		}
	}
	// 5. catalog and profile save/read (parallel, deterministic per index)
	seeds := make([]uint64, nCat+nProf)
	for i := range seeds {
		seeds[i] = base.U64()
	}
	out := make([][]result, nCat+nProf)
	common.Parallel(nCat+nProf, 16, func(i int) {
		r := common.NewRng(seeds[i], "case")
		if i < nCat {
			out[i] = runCatalog(sdk, r, i)
		} else {
			out[i] = runProfile(sdk, r, i)
		}
	})
	for _, o := range out {
		results = append(results, o...)
	}

	for _, res := range results {
		run.Add(res.term, res.descr, res.nontrivial)
		for _, h := range res.hist {
			run.Hist(h)
		}
	}
	run.Meta.Traces = len(results)
	run.Finish("check_all")
}
