// c05: correspondence check for "close and reload preserve every record exactly" against
// Record/Treasure.v + Record/Gob.v.
//
// Three kinds of cases:
//
//	GobCase    the zero-omission law the model assumes about encoding/gob, checked on the real
//	           library for every field of treasure.Content with zero / boundary / ordinary values;
//	ValueCase  one treasure through the real ConvertToByte + LoadFromByte, every content type;
//	ReloadCase histories of Set / Increment* / PatchTreasures / Delete / Uint32SlicePush /
//	           Uint32SliceDelete over all value types (zero, boundary, ordinary values, metadata)
//	           on persistent V2 swamps of the in-process engine; every key is read with Get and
//	           GetByIndex before and after the engine is restarted (a quarter of the swamps also
//	           live under a 1 s idle-close pattern); oracle = equal snapshots.
package main

import (
	"bytes"
	"context"
	"encoding/gob"
	"fmt"
	"math"
	"os"
	"reflect"
	"sync"
	"time"

	"github.com/hydraide/hydraide/app/core/hydra"
	"github.com/hydraide/hydraide/app/core/hydra/swamp/treasure"
	"github.com/hydraide/hydraide/app/verifhook"
	hydrapb "github.com/hydraide/hydraide/sdk/go/hydraidego/v3/hydraidepbgo"
	"google.golang.org/protobuf/types/known/timestamppb"
	"verif/harness/common"
	"verif/harness/lib/c30"
	"verif/harness/rig"
)

// ---- values -----------------------------------------------------------------------------------

type val struct {
	T int      `json:"type"` // treasure.ContentType numbering, 0 = void
	I int64    `json:"i,omitempty"`
	U uint64   `json:"u,omitempty"`
	F uint64   `json:"fbits,omitempty"`
	S []byte   `json:"s,omitempty"`
	B bool     `json:"b,omitempty"`
	L []uint32 `json:"l,omitempty"`
}

var typeNames = []string{"void", "uint8", "uint16", "uint32", "uint64", "int8", "int16", "int32", "int64", "float32", "float64", "string", "bool", "bytes", "uint32slice"}

func zlist(l []uint32) string {
	s := make([]string, len(l))
	for i, x := range l {
		s[i] = common.Z(int64(x))
	}
	return common.List(s)
}
func uz(u uint64) string { return fmt.Sprintf("%d%%Z", u) }

func (v val) coq() string {
	switch v.T {
	case 0:
		return "VVoid"
	case 1:
		return common.App("VU8", uz(v.U))
	case 2:
		return common.App("VU16", uz(v.U))
	case 3:
		return common.App("VU32", uz(v.U))
	case 4:
		return common.App("VU64", uz(v.U))
	case 5:
		return common.App("VI8", common.Z(v.I))
	case 6:
		return common.App("VI16", common.Z(v.I))
	case 7:
		return common.App("VI32", common.Z(v.I))
	case 8:
		return common.App("VI64", common.Z(v.I))
	case 9:
		return common.App("VF32", uz(v.F))
	case 10:
		return common.App("VF64", uz(v.F))
	case 11:
		return common.App("VStr", common.ByteList(v.S))
	case 12:
		return common.App("VBool", common.Bool(v.B))
	case 13:
		return common.App("VBytes", common.ByteList(v.S))
	case 14:
		return common.App("VU32S", zlist(v.L))
	}
	panic("type")
}

func (v val) isZero() bool {
	switch v.T {
	case 1, 2, 3, 4:
		return v.U == 0
	case 5, 6, 7, 8:
		return v.I == 0
	case 9:
		return v.F == 0 || v.F == 0x80000000
	case 10:
		return v.F == 0 || v.F == 1<<63
	case 11, 13:
		return len(v.S) == 0
	case 12:
		return !v.B
	case 14:
		return len(v.L) == 0
	}
	return false
}

// msgpackDoc: magic prefix + {"n": 5, "s": "ab", "f": true} - a body PatchTreasures accepts
var msgpackDoc = []byte{0xC7, 0x00, 0x83, 0xA1, 'n', 0x05, 0xA1, 's', 0xA2, 'a', 'b', 0xA1, 'f', 0xC3}

func manyU32(n int) []uint32 {
	l := make([]uint32, n)
	for i := range l {
		l[i] = uint32(i * 7919)
	}
	return l
}

// valuesOf: zero, boundary and ordinary values of a content type (lengths above 255 included)
func valuesOf(t int) []val {
	u := func(xs ...uint64) (o []val) {
		for _, x := range xs {
			o = append(o, val{T: t, U: x})
		}
		return
	}
	i := func(xs ...int64) (o []val) {
		for _, x := range xs {
			o = append(o, val{T: t, I: x})
		}
		return
	}
	switch t {
	case 0:
		return []val{{T: 0}}
	case 1:
		return u(0, 1, 255, 7)
	case 2:
		return u(0, 1, 65535, 300)
	case 3:
		return u(0, 1, math.MaxUint32, 70000)
	case 4:
		return u(0, 1, math.MaxUint64, 1<<40)
	case 5:
		return i(0, 1, -1, 127, -128)
	case 6:
		return i(0, 1, -1, 32767, -32768)
	case 7:
		return i(0, 5, -1, math.MaxInt32, math.MinInt32)
	case 8:
		return i(0, 5, -1, math.MaxInt64, math.MinInt64)
	case 9:
		var o []val
		for _, f := range []float32{0, float32(math.Copysign(0, -1)), 1.5, -2.25, math.MaxFloat32, math.SmallestNonzeroFloat32, float32(math.Inf(1)), float32(math.NaN())} {
			o = append(o, val{T: 9, F: uint64(math.Float32bits(f))})
		}
		return o
	case 10:
		var o []val
		for _, f := range []float64{0, math.Copysign(0, -1), 1.5, -2.25, math.MaxFloat64, math.SmallestNonzeroFloat64, math.Inf(-1), math.NaN()} {
			o = append(o, val{T: 10, F: math.Float64bits(f)})
		}
		return o
	case 11:
		return []val{{T: 11, S: []byte{}}, {T: 11, S: []byte("a")}, {T: 11, S: []byte("hello world")}, {T: 11, S: []byte{0}}, {T: 11, S: []byte("\xc3\xa9\x00z")}, {T: 11, S: bytes.Repeat([]byte("0123456789"), 30)}}
	case 12:
		return []val{{T: 12, B: false}, {T: 12, B: true}}
	case 13:
		return []val{{T: 13, S: []byte{}}, {T: 13, S: []byte{0}}, {T: 13, S: []byte{0xC7, 0x00, 0x80}}, {T: 13, S: []byte{1, 2, 3, 0, 255}}, {T: 13, S: bytes.Repeat([]byte{0, 200}, 150)}, {T: 13, S: msgpackDoc}}
	case 14:
		return []val{{T: 14, L: []uint32{}}, {T: 14, L: []uint32{0}}, {T: 14, L: []uint32{5, 1, math.MaxUint32}}, {T: 14, L: manyU32(70)}}
	}
	return nil
}

// ---- part 1: the gob law on treasure.Content ---------------------------------------------------

func contentOf(v val) *treasure.Content {
	c := &treasure.Content{}
	switch v.T {
	case 0:
		c.Void = true
	case 1:
		x := uint8(v.U)
		c.Uint8 = &x
	case 2:
		x := uint16(v.U)
		c.Uint16 = &x
	case 3:
		x := uint32(v.U)
		c.Uint32 = &x
	case 4:
		x := v.U
		c.Uint64 = &x
	case 5:
		x := int8(v.I)
		c.Int8 = &x
	case 6:
		x := int16(v.I)
		c.Int16 = &x
	case 7:
		x := int32(v.I)
		c.Int32 = &x
	case 8:
		x := v.I
		c.Int64 = &x
	case 9:
		x := math.Float32frombits(uint32(v.F))
		c.Float32 = &x
	case 10:
		x := math.Float64frombits(v.F)
		c.Float64 = &x
	case 11:
		x := string(v.S)
		c.String = &x
	case 12:
		x := v.B
		c.Boolean = &x
	case 13:
		c.ByteArray = append([]byte{}, v.S...)
	case 14:
		s := treasure.Uint32Slice{}
		for _, x := range v.L {
			s = append(s, byte(x), byte(x>>8), byte(x>>16), byte(x>>24))
		}
		c.Uint32Slice = &s
	}
	return c
}

func optZ(ok bool, s string) string {
	if !ok {
		return "None"
	}
	return common.Some(s)
}

func hintFields(c *treasure.Content) (uint64, bool) {
	rv := reflect.ValueOf(c).Elem()
	var z uint64
	var n bool
	if f := rv.FieldByName("ZeroOf"); f.IsValid() {
		z = uint64(f.Int())
	}
	if f := rv.FieldByName("ZeroNeg"); f.IsValid() {
		n = f.Bool()
	}
	return z, n
}
func setHint(c *treasure.Content, z int64, n bool) bool {
	rv := reflect.ValueOf(c).Elem()
	f := rv.FieldByName("ZeroOf")
	if !f.IsValid() {
		return false
	}
	f.SetInt(z)
	rv.FieldByName("ZeroNeg").SetBool(n)
	return true
}
func hasHintField() bool {
	_, ok := reflect.TypeOf(treasure.Content{}).FieldByName("ZeroOf")
	return ok
}

func contentCoq(c *treasure.Content) string {
	if c == nil {
		return "empty_content"
	}
	var u32s string = "None"
	if c.Uint32Slice != nil {
		var l []uint32
		b := *c.Uint32Slice
		for i := 0; i+4 <= len(b); i += 4 {
			l = append(l, uint32(b[i])|uint32(b[i+1])<<8|uint32(b[i+2])<<16|uint32(b[i+3])<<24)
		}
		u32s = common.Some(zlist(l))
	}
	z, n := hintFields(c)
	d := func(p interface{}) string {
		rv := reflect.ValueOf(p)
		if rv.IsNil() {
			return "None"
		}
		e := rv.Elem()
		switch e.Kind() {
		case reflect.Uint8, reflect.Uint16, reflect.Uint32, reflect.Uint64:
			return common.Some(uz(e.Uint()))
		case reflect.Int8, reflect.Int16, reflect.Int32, reflect.Int64:
			return common.Some(common.Z(e.Int()))
		case reflect.Float32:
			return common.Some(uz(uint64(math.Float32bits(float32(e.Float())))))
		case reflect.Float64:
			return common.Some(uz(math.Float64bits(e.Float())))
		case reflect.String:
			return common.Some(common.ByteList([]byte(e.String())))
		case reflect.Bool:
			return common.Some(common.Bool(e.Bool()))
		}
		panic("kind")
	}
	return fmt.Sprintf("{| c_void := %s; c_u8 := %s; c_u16 := %s; c_u32 := %s; c_u64 := %s; c_i8 := %s; c_i16 := %s; c_i32 := %s; c_i64 := %s; c_f32 := %s; c_f64 := %s; c_str := %s; c_bool := %s; c_bytes := %s; c_u32s := %s; c_zero_of := %s; c_zero_neg := %s |}",
		common.Bool(c.Void), d(c.Uint8), d(c.Uint16), d(c.Uint32), d(c.Uint64), d(c.Int8), d(c.Int16), d(c.Int32), d(c.Int64),
		d(c.Float32), d(c.Float64), d(c.String), d(c.Boolean), optZ(c.ByteArray != nil, common.ByteList(c.ByteArray)), u32s,
		common.N(z), common.Bool(n))
}

func gobRoundTrip(c *treasure.Content) (*treasure.Content, error) {
	m := treasure.Model{Key: "k", Content: c, CreatedAt: 5}
	var buf bytes.Buffer
	if err := gob.NewEncoder(&buf).Encode(m); err != nil {
		return nil, err
	}
	var out treasure.Model
	if err := gob.NewDecoder(&buf).Decode(&out); err != nil {
		return nil, err
	}
	return out.Content, nil
}

// ---- part 2: one treasure through ConvertToByte / LoadFromByte --------------------------------

func setTreasure(t treasure.Treasure, v val) {
	g := t.StartTreasureGuard(true)
	defer t.ReleaseTreasureGuard(g)
	switch v.T {
	case 0:
		t.SetContentVoid(g)
	case 1:
		t.SetContentUint8(g, uint8(v.U))
	case 2:
		t.SetContentUint16(g, uint16(v.U))
	case 3:
		t.SetContentUint32(g, uint32(v.U))
	case 4:
		t.SetContentUint64(g, v.U)
	case 5:
		t.SetContentInt8(g, int8(v.I))
	case 6:
		t.SetContentInt16(g, int16(v.I))
	case 7:
		t.SetContentInt32(g, int32(v.I))
	case 8:
		t.SetContentInt64(g, v.I)
	case 9:
		t.SetContentFloat32(g, math.Float32frombits(uint32(v.F)))
	case 10:
		t.SetContentFloat64(g, math.Float64frombits(v.F))
	case 11:
		t.SetContentString(g, string(v.S))
	case 12:
		t.SetContentBool(g, v.B)
	case 13:
		t.SetContentByteArray(g, append([]byte{}, v.S...))
	case 14:
		_ = t.Uint32SlicePush(v.L)
	}
}

func readTreasure(t treasure.Treasure) val {
	ct := int(t.GetContentType())
	v := val{T: ct}
	switch ct {
	case 1:
		x, _ := t.GetContentUint8()
		v.U = uint64(x)
	case 2:
		x, _ := t.GetContentUint16()
		v.U = uint64(x)
	case 3:
		x, _ := t.GetContentUint32()
		v.U = uint64(x)
	case 4:
		x, _ := t.GetContentUint64()
		v.U = x
	case 5:
		x, _ := t.GetContentInt8()
		v.I = int64(x)
	case 6:
		x, _ := t.GetContentInt16()
		v.I = int64(x)
	case 7:
		x, _ := t.GetContentInt32()
		v.I = int64(x)
	case 8:
		x, _ := t.GetContentInt64()
		v.I = x
	case 9:
		x, _ := t.GetContentFloat32()
		v.F = uint64(math.Float32bits(x))
	case 10:
		x, _ := t.GetContentFloat64()
		v.F = math.Float64bits(x)
	case 11:
		x, _ := t.GetContentString()
		v.S = []byte(x)
	case 12:
		x, _ := t.GetContentBool()
		v.B = x
	case 13:
		x, _ := t.GetContentByteArray()
		v.S = x
	case 14:
		x, _ := t.Uint32SliceGetAll()
		v.L = x
	}
	return v
}

func treasureRoundTrip(v val) (val, error) {
	t := treasure.New(nil)
	g0 := t.StartTreasureGuard(true)
	t.BodySetKey(g0, "k")
	t.ReleaseTreasureGuard(g0)
	setTreasure(t, v)
	g := t.StartTreasureGuard(true)
	b, err := t.ConvertToByte(g)
	t.ReleaseTreasureGuard(g)
	if err != nil {
		return val{}, err
	}
	t2 := treasure.New(nil)
	g2 := t2.StartTreasureGuard(true)
	defer t2.ReleaseTreasureGuard(g2)
	if err := t2.LoadFromByte(g2, b, "f"); err != nil {
		return val{}, err
	}
	return readTreasure(t2), nil
}

// Model / Content exactly as the pinned commit declares them (before the ZeroOf / ZeroNeg hint
// fields): bytes encoded from these are "existing files".
type oldContent struct {
	Void        bool
	Uint8       *uint8
	Uint16      *uint16
	Uint32      *uint32
	Uint64      *uint64
	Int8        *int8
	Int16       *int16
	Int32       *int32
	Int64       *int64
	Float32     *float32
	Float64     *float64
	String      *string
	Boolean     *bool
	ByteArray   []byte
	Uint32Slice *treasure.Uint32Slice
}
type oldModel struct {
	Key              string
	Content          *oldContent
	CreatedAt        int64
	CreatedBy        string
	CreatedByChanged bool
	DeletedAt        int64
	DeletedBy        string
	ModifiedAt       int64
	ModifiedBy       string
	ExpirationTime   int64
	FileName         *string
}

func oldFileRoundTrip(v val) (val, error) {
	c := contentOf(v)
	oc := &oldContent{Void: c.Void, Uint8: c.Uint8, Uint16: c.Uint16, Uint32: c.Uint32, Uint64: c.Uint64, Int8: c.Int8, Int16: c.Int16,
		Int32: c.Int32, Int64: c.Int64, Float32: c.Float32, Float64: c.Float64, String: c.String, Boolean: c.Boolean, ByteArray: c.ByteArray, Uint32Slice: c.Uint32Slice}
	var buf bytes.Buffer
	if err := gob.NewEncoder(&buf).Encode(oldModel{Key: "k", Content: oc, CreatedAt: 7, ModifiedBy: "m"}); err != nil {
		return val{}, err
	}
	t2 := treasure.New(nil)
	g2 := t2.StartTreasureGuard(true)
	defer t2.ReleaseTreasureGuard(g2)
	if err := t2.LoadFromByte(g2, buf.Bytes(), "f"); err != nil {
		return val{}, err
	}
	if t2.GetKey() != "k" || t2.GetCreatedAt() != 7 || t2.GetModifiedBy() != "m" {
		return val{}, fmt.Errorf("old-format metadata not loaded")
	}
	return readTreasure(t2), nil
}

// ---- part 3: engine histories -------------------------------------------------------------------

type viewT struct {
	Exist     bool   `json:"exist"`
	V         val    `json:"v"`
	Created   int64  `json:"created"`
	HasC      bool   `json:"hasCreated"`
	CreatedBy string `json:"createdBy"`
	Modified  int64  `json:"modified"`
	HasM      bool   `json:"hasModified"`
	ModBy     string `json:"modifiedBy"`
	Expiry    int64  `json:"expiry"`
	HasE      bool   `json:"hasExpiry"`
}

func (w viewT) coqView() string {
	return fmt.Sprintf("{| w_val := %s; w_created := %s; w_created_by := %s; w_modified := %s; w_modified_by := %s; w_expiry := %s |}",
		w.V.coq(), optZ(w.HasC, common.Z(w.Created)), common.ByteList([]byte(w.CreatedBy)),
		optZ(w.HasM, common.Z(w.Modified)), common.ByteList([]byte(w.ModBy)), optZ(w.HasE, common.Z(w.Expiry)))
}
func (w viewT) coqRec() string {
	return fmt.Sprintf("{| r_val := %s; r_created := %s; r_created_by := %s; r_modified := %s; r_modified_by := %s; r_expiry := %s |}",
		w.V.coq(), common.Z(w.Created), common.ByteList([]byte(w.CreatedBy)), common.Z(w.Modified), common.ByteList([]byte(w.ModBy)), common.Z(w.Expiry))
}
func (w viewT) coqOpt() string {
	if !w.Exist {
		return "None"
	}
	return common.Some(w.coqView())
}

func viewOf(a *c30.API, swamp string, t *hydrapb.Treasure) viewT {
	w := viewT{Exist: t.IsExist}
	if !t.IsExist {
		return w
	}
	switch {
	case t.Uint8Val != nil:
		w.V = val{T: 1, U: uint64(*t.Uint8Val)}
	case t.Uint16Val != nil:
		w.V = val{T: 2, U: uint64(*t.Uint16Val)}
	case t.Uint32Val != nil:
		w.V = val{T: 3, U: uint64(*t.Uint32Val)}
	case t.Uint64Val != nil:
		w.V = val{T: 4, U: *t.Uint64Val}
	case t.Int8Val != nil:
		w.V = val{T: 5, I: int64(*t.Int8Val)}
	case t.Int16Val != nil:
		w.V = val{T: 6, I: int64(*t.Int16Val)}
	case t.Int32Val != nil:
		w.V = val{T: 7, I: int64(*t.Int32Val)}
	case t.Int64Val != nil:
		w.V = val{T: 8, I: *t.Int64Val}
	case t.Float32Val != nil:
		w.V = val{T: 9, F: uint64(math.Float32bits(*t.Float32Val))}
	case t.Float64Val != nil:
		w.V = val{T: 10, F: math.Float64bits(*t.Float64Val)}
	case t.StringVal != nil:
		w.V = val{T: 11, S: []byte(*t.StringVal)}
	case t.BoolVal != nil:
		w.V = val{T: 12, B: *t.BoolVal == hydrapb.Boolean_TRUE}
	case t.BytesVal != nil:
		w.V = val{T: 13, S: t.BytesVal}
	case len(t.Uint32Slice) > 0:
		w.V = val{T: 14, L: t.Uint32Slice}
	default:
		// no value field: void, or an empty uint32 set (only Uint32SliceSize can tell)
		c, cancel := context.WithTimeout(context.Background(), 20*time.Second)
		r, err := a.S.GW.Uint32SliceSize(c, &hydrapb.Uint32SliceSizeRequest{IslandID: a.Island, SwampName: swamp, Key: t.Key})
		cancel()
		if err == nil && r != nil {
			w.V = val{T: 14, L: []uint32{}}
		}
	}
	w.Created, w.HasC = c30.Nanos(t.CreatedAt)
	w.Modified, w.HasM = c30.Nanos(t.UpdatedAt)
	w.Expiry, w.HasE = c30.Nanos(t.ExpiredAt)
	w.CreatedBy = t.GetCreatedBy()
	w.ModBy = t.GetUpdatedBy()
	return w
}

func kvOf(key string, v val) *hydrapb.KeyValuePair {
	kv := &hydrapb.KeyValuePair{Key: key}
	switch v.T {
	case 0:
		tr := true
		kv.VoidVal = &tr
	case 1:
		x := uint32(v.U)
		kv.Uint8Val = &x
	case 2:
		x := uint32(v.U)
		kv.Uint16Val = &x
	case 3:
		x := uint32(v.U)
		kv.Uint32Val = &x
	case 4:
		x := v.U
		kv.Uint64Val = &x
	case 5:
		x := int32(v.I)
		kv.Int8Val = &x
	case 6:
		x := int32(v.I)
		kv.Int16Val = &x
	case 7:
		x := int32(v.I)
		kv.Int32Val = &x
	case 8:
		x := v.I
		kv.Int64Val = &x
	case 9:
		x := math.Float32frombits(uint32(v.F))
		kv.Float32Val = &x
	case 10:
		x := math.Float64frombits(v.F)
		kv.Float64Val = &x
	case 11:
		x := string(v.S)
		kv.StringVal = &x
	case 12:
		b := hydrapb.Boolean_FALSE
		if v.B {
			b = hydrapb.Boolean_TRUE
		}
		kv.BoolVal = &b
	case 13:
		kv.BytesVal = append([]byte{}, v.S...)
	}
	return kv
}

type hop struct {
	Kind string `json:"op"`
	K    int    `json:"k"`
	V    val    `json:"v"`
	Meta int    `json:"meta"`
	By   int64  `json:"by"`
}

type plan struct {
	idx   int
	swamp string
	idle  bool
	segs  [3][]hop // segment 0 | writer tick | segment 1 | close+reload | segment 2 | close+reload
	ops   []hop    // all segments, for the description
	// observed history and snapshots around the two reloads
	opTerms   []string
	nTerms1   int // number of opTerms before the first reload
	before    [2][]viewT
	after     [2][]viewT
	ibefore   [2][]string
	iafter    [2][]string
	err       error
	zero      bool
	t0        int64
	opNo      int
	restarted bool // second case starts from the snapshot after the first reload
	types     []int
	win       int  // 0 = none; 1..3 = segment 1 runs while the background flush is parked at winSites[win-1]
	winHit    bool // the flush really was parked while segment 1 ran
	terms1    []string
}

const nKeys = 6

func keyName(k int) string { return fmt.Sprintf("k%d", k) }

// genPlan: three segments of operations. Between segment 0 and 1 the background writer ticks
// (everything written so far is on disk, the swamp stays in memory - or is idle-closed); between
// 1 and 2, and after 2, the engine is restarted. Besides single operations the generator emits
// bursts on one key inside one segment (i.e. inside one write interval): update+delete,
// delete+re-create, update+update, ..., preferably on keys that earlier segments already wrote,
// so that a record can be "on disk and buffered", "on disk and deleted", "deleted and
// re-created" when the next operation or the close arrives.
func genPlan(rng *common.Rng, idx int, tier string) *plan {
	p := &plan{idx: idx, idle: idx%4 == 3}
	pat := "r"
	if p.idle {
		pat = "i"
	}
	p.swamp = fmt.Sprintf("c05/%s/s%d", pat, idx)
	// each key has a fixed type for the whole case (type changes through Set are C06's business);
	// key 5 is the uint32-set key
	types := make([]int, nKeys)
	for k := range types {
		types[k] = rng.Intn(14) // 0..13
	}
	types[nKeys-1] = 14
	types[3] = 13 // key 3 (and key 4 in half of the cases): a ByteArray key that is patched often
	if rng.Chance(50) {
		types[4] = 13
	}
	pick := func(t int) val {
		vs := valuesOf(t)
		if rng.Chance(45) {
			return vs[0] // the zero value of the type
		}
		return vs[rng.Intn(len(vs))]
	}
	update := func(k int) hop {
		t := types[k]
		switch {
		case t == 14:
			return hop{Kind: "push", K: k, V: pick(14)}
		case t >= 1 && t <= 10 && rng.Chance(35):
			return hop{Kind: "inc", K: k, V: val{T: t}, By: int64(rng.Intn(3)) - 1, Meta: rng.Intn(2)}
		case t == 13 && rng.Chance(55):
			// By selects the ops: 0 none, 1 INC n (same size), 2 SET s to another 2-byte string (same
			// size), 3 SET s to a longer string, 4 SET f (flag flip, same size), 5 INC + SET together;
			// Meta: 0 none (nothing stamped), 1 stamps, 2 only ClearExpiredAt, 3 only SetUpdatedBy
			return hop{Kind: "patch", K: k, Meta: []int{0, 0, 0, 1, 2, 3}[rng.Intn(6)], By: int64(rng.Intn(6))}
		case t == 13 && rng.Chance(50):
			return hop{Kind: "set", K: k, V: val{T: 13, S: msgpackDoc}, Meta: rng.Intn(4)}
		}
		return hop{Kind: "set", K: k, V: pick(t), Meta: rng.Intn(4)}
	}
	remove := func(k int) hop {
		switch x := rng.Intn(100); {
		case x < 60:
			return hop{Kind: "delete", K: k}
		case x < 80:
			return hop{Kind: "shift", K: k} // ShiftByKeys: the other route into deleteHandler
		case x < 90:
			return hop{Kind: "deldup", K: k} // Delete with the key listed twice
		}
		return hop{Kind: "delpair", K: k, By: int64((k + 1 + rng.Intn(nKeys-1)) % nKeys)} // two keys in one Delete
	}
	p.types = types
	if !p.idle && idx%3 == 1 {
		p.win = 1 + (idx/3)%3
	}
	written := []int{}
	for sg := 0; sg < 3; sg++ {
		items := rng.Intn(4)
		if sg == 0 {
			items = 2 + rng.Intn(3)
		}
		if tier == "thorough" {
			items += rng.Intn(3)
		}
		touched := []int{}
		for i := 0; i < items; i++ {
			k := rng.Intn(nKeys)
			if len(written) > 0 && rng.Chance(70) {
				k = written[rng.Intn(len(written))]
			}
			touched = append(touched, k)
			// "meta": a Set that repeats the key's current value and names exactly one (or two) of
			// CreatedAt / CreatedBy / UpdatedAt / UpdatedBy / ExpiredAt - each metadata field on its own
			metaOnly := func() hop { return hop{Kind: "meta", K: k, Meta: []int{1, 2, 4, 8, 16, 2 | 8, 1 | 4}[rng.Intn(7)]} }
			var seq []hop
			switch x := rng.Intn(118); {
			case x >= 100 && x < 112:
				seq = []hop{metaOnly()}
			case x >= 112:
				seq = []hop{update(k), metaOnly()}
			case x < 30:
				seq = []hop{update(k)}
			case x < 38:
				seq = []hop{remove(k)}
			case x < 58:
				seq = []hop{update(k), remove(k)}
			case x < 70:
				seq = []hop{remove(k), update(k)}
			case x < 78:
				seq = []hop{update(k), remove(k), update(k)}
			case x < 84:
				seq = []hop{update(k), update(k)}
			case x < 90:
				seq = []hop{remove(k), remove(k)}
			case x < 95:
				seq = []hop{update(k), update(k), remove(k)}
			default:
				if types[k] == 14 {
					seq = []hop{update(k), {Kind: "sdel", K: k, V: val{T: 14, L: []uint32{5}}}}
				} else {
					seq = []hop{remove(k), update(k), remove(k)}
				}
			}
			p.segs[sg] = append(p.segs[sg], seq...)
			if rng.Chance(8) {
				p.segs[sg] = append(p.segs[sg], hop{Kind: "compact", K: k}) // CompactSwamp: rewrites the file from the live index
			}
		}
		if sg == 1 && p.win > 0 {
			// inside a flush window: no CompactSwamp (it needs the chronicler the parked flush holds),
			// and no re-create of a key removed inside the same window (deleting and re-creating a
			// key of an unwritten batch is C16's open finding recreate_in_flush_window_old_object_written_last)
			removed := map[int]bool{}
			var kept []hop
			for _, o := range p.segs[sg] {
				rm := o.Kind == "delete" || o.Kind == "shift" || o.Kind == "deldup" || o.Kind == "delpair"
				if o.Kind == "compact" || (!rm && removed[o.K]) {
					continue
				}
				if rm {
					removed[o.K] = true
					if o.Kind == "delpair" {
						removed[int(o.By)] = true
					}
				}
				kept = append(kept, o)
			}
			p.segs[sg] = kept
		}
		written = append(written, touched...)
		p.ops = append(p.ops, p.segs[sg]...)
	}
	return p
}

func doInc(a *c30.API, swamp, key string, t int, by int64, meta *hydrapb.IncrementRequestMetadata) error {
	c, cancel := context.WithTimeout(context.Background(), 20*time.Second)
	defer cancel()
	if by == 0 {
		by = 1
	}
	var err error
	g := a.S.GW
	switch t {
	case 5:
		_, err = g.IncrementInt8(c, &hydrapb.IncrementInt8Request{IslandID: a.Island, SwampName: swamp, Key: key, IncrementBy: int32(by), SetIfNotExist: meta, SetIfExist: meta})
	case 6:
		_, err = g.IncrementInt16(c, &hydrapb.IncrementInt16Request{IslandID: a.Island, SwampName: swamp, Key: key, IncrementBy: int32(by), SetIfNotExist: meta, SetIfExist: meta})
	case 7:
		_, err = g.IncrementInt32(c, &hydrapb.IncrementInt32Request{IslandID: a.Island, SwampName: swamp, Key: key, IncrementBy: int32(by), SetIfNotExist: meta, SetIfExist: meta})
	case 8:
		_, err = g.IncrementInt64(c, &hydrapb.IncrementInt64Request{IslandID: a.Island, SwampName: swamp, Key: key, IncrementBy: by, SetIfNotExist: meta, SetIfExist: meta})
	case 1:
		_, err = g.IncrementUint8(c, &hydrapb.IncrementUint8Request{IslandID: a.Island, SwampName: swamp, Key: key, IncrementBy: 1, SetIfNotExist: meta, SetIfExist: meta})
	case 2:
		_, err = g.IncrementUint16(c, &hydrapb.IncrementUint16Request{IslandID: a.Island, SwampName: swamp, Key: key, IncrementBy: 1, SetIfNotExist: meta, SetIfExist: meta})
	case 3:
		_, err = g.IncrementUint32(c, &hydrapb.IncrementUint32Request{IslandID: a.Island, SwampName: swamp, Key: key, IncrementBy: 1, SetIfNotExist: meta, SetIfExist: meta})
	case 4:
		_, err = g.IncrementUint64(c, &hydrapb.IncrementUint64Request{IslandID: a.Island, SwampName: swamp, Key: key, IncrementBy: 1, SetIfNotExist: meta, SetIfExist: meta})
	case 9:
		_, err = g.IncrementFloat32(c, &hydrapb.IncrementFloat32Request{IslandID: a.Island, SwampName: swamp, Key: key, IncrementBy: float32(by) * 1.5, SetIfNotExist: meta, SetIfExist: meta})
	case 10:
		_, err = g.IncrementFloat64(c, &hydrapb.IncrementFloat64Request{IslandID: a.Island, SwampName: swamp, Key: key, IncrementBy: float64(by) * 1.5, SetIfNotExist: meta, SetIfExist: meta})
	}
	_ = err // a failed increment (condition / type / overflow policy) is an acceptable outcome: the observed record decides
	return nil
}

func snapshot(a *c30.API, p *plan) ([]viewT, []string, error) {
	keys := make([]string, nKeys+1)
	for k := 0; k < nKeys; k++ {
		keys[k] = keyName(k)
	}
	keys[nKeys] = "k9"
	ts, err := a.Get(p.swamp, keys)
	if err != nil {
		return nil, nil, err
	}
	vs := make([]viewT, len(ts))
	for i, t := range ts {
		vs[i] = viewOf(a, p.swamp, t)
	}
	its, err := a.GetByIndex(p.swamp, hydrapb.IndexType_KEY, hydrapb.OrderType_ASC, nil, nil)
	if err != nil {
		return nil, nil, err
	}
	idx := make([]string, len(its))
	for i, t := range its {
		t.IsExist = true
		var k int
		fmt.Sscanf(t.Key, "k%d", &k)
		idx[i] = common.Pair(common.N(uint64(k)), viewOf(a, p.swamp, t).coqView())
	}
	return vs, idx, nil
}

func doOp(a *c30.API, p *plan, o hop) error {
	key := keyName(o.K)
	i := p.opNo
	p.opNo++
	t0 := p.t0
	var err error
	switch o.Kind {
	case "set":
		kv := kvOf(key, o.V)
		if o.Meta&1 == 1 {
			kv.CreatedAt = c30.TSNanos(t0 - int64(i+1)*1e9)
			by := "alice"
			kv.CreatedBy = &by
			kv.ExpiredAt = c30.TSNanos(t0 + 3600e9)
		}
		if o.Meta&2 == 2 {
			kv.UpdatedAt = c30.TSNanos(t0 + int64(i))
			by := "bob"
			kv.UpdatedBy = &by
		}
		_, err = a.Set(p.swamp, kv)
	case "meta":
		ts, gerr := a.Get(p.swamp, []string{key})
		if gerr != nil {
			return gerr
		}
		cur := viewOf(a, p.swamp, ts[0])
		if !cur.Exist || cur.V.T == 14 {
			return nil // nothing to re-set (a uint32 set has no Set form)
		}
		kv := kvOf(key, cur.V)
		who := fmt.Sprintf("u%d", i)
		if o.Meta&1 != 0 {
			kv.CreatedAt = c30.TSNanos(t0 - int64(i+7)*1e9)
		}
		if o.Meta&2 != 0 {
			kv.CreatedBy = &who
		}
		if o.Meta&4 != 0 {
			kv.UpdatedAt = c30.TSNanos(t0 + int64(i+7))
		}
		if o.Meta&8 != 0 {
			kv.UpdatedBy = &who
		}
		if o.Meta&16 != 0 {
			kv.ExpiredAt = c30.TSNanos(t0 + 7200e9 + int64(i))
		}
		_, err = a.Set(p.swamp, kv)
	case "inc":
		var m *hydrapb.IncrementRequestMetadata
		if o.Meta == 1 {
			tr := true
			by := "carol"
			m = &hydrapb.IncrementRequestMetadata{CreatedAt: &tr, UpdatedAt: &tr, UpdatedBy: &by, ExpiredAt: c30.TSNanos(t0 - 3600e9)}
		}
		err = doInc(a, p.swamp, key, o.V.T, o.By, m)
	case "patch":
		var meta *hydrapb.PatchMeta
		if o.Meta == 1 {
			by := "dave"
			meta = &hydrapb.PatchMeta{SetUpdatedAt: true, SetUpdatedBy: &by, SetCreatedAt: true, SetExpiredAt: c30.TS(-3600, 0)}
		}
		switch o.Meta {
		case 2:
			meta = &hydrapb.PatchMeta{ClearExpiredAt: true}
		case 3:
			by := fmt.Sprintf("p%d", i)
			meta = &hydrapb.PatchMeta{SetUpdatedBy: &by}
		}
		str := func(x string) []byte { return append([]byte{0xA0 | byte(len(x))}, x...) }
		two := []string{"cd", "ef", "gh"}[i%3]
		flag := []byte{0xC2 + byte(i%2)}
		var ops []*hydrapb.PatchOp
		switch o.By {
		case 1:
			ops = []*hydrapb.PatchOp{{Op: hydrapb.PatchOp_INC, Path: "n", Value: []byte{0x01}}}
		case 2:
			ops = []*hydrapb.PatchOp{{Op: hydrapb.PatchOp_SET, Path: "s", Value: str(two)}}
		case 3:
			ops = []*hydrapb.PatchOp{{Op: hydrapb.PatchOp_SET, Path: "s", Value: str(fmt.Sprintf("longer-%d", i))}}
		case 4:
			ops = []*hydrapb.PatchOp{{Op: hydrapb.PatchOp_SET, Path: "f", Value: flag}}
		case 5:
			ops = []*hydrapb.PatchOp{{Op: hydrapb.PatchOp_INC, Path: "n", Value: []byte{0x01}}, {Op: hydrapb.PatchOp_SET, Path: "s", Value: str(two)}}
		}
		_, err = a.Patch(p.swamp, key, true, meta, ops) // per-key outcomes (TYPE_MISMATCH on a non-msgpack body, ...) are fine: the observed record decides
	case "delete":
		err = a.Delete(p.swamp, []string{key})
	case "deldup":
		err = a.Delete(p.swamp, []string{key, key})
	case "delpair":
		err = a.Delete(p.swamp, []string{key, keyName(int(o.By))})
	case "compact":
		c, cancel := context.WithTimeout(context.Background(), 20*time.Second)
		_, cerr := a.S.GW.CompactSwamp(c, &hydrapb.CompactSwampRequest{IslandID: a.Island, SwampName: p.swamp})
		cancel()
		_ = cerr   // nothing on disk yet / missing swamp: acceptable
		return nil // no record is touched: not an operation of the model
	case "shift":
		c, cancel := context.WithTimeout(context.Background(), 20*time.Second)
		_, serr := a.S.GW.ShiftByKeys(c, &hydrapb.ShiftByKeysRequest{IslandID: a.Island, SwampName: p.swamp, Keys: []string{key}})
		cancel()
		_ = serr // a missing key / missing swamp is an acceptable outcome: the observed record decides
	case "push":
		c, cancel := context.WithTimeout(context.Background(), 20*time.Second)
		_, err = a.S.GW.Uint32SlicePush(c, &hydrapb.AddToUint32SlicePushRequest{IslandID: a.Island, SwampName: p.swamp, KeySlicePairs: []*hydrapb.KeySlicePair{{Key: key, Values: o.V.L}}})
		cancel()
	case "sdel":
		// never delete down to an empty set through this RPC (Uint32SliceDelete on the last
		// element blocked on the pinned commit); 5 is removed only if something else stays
		ts, gerr := a.Get(p.swamp, []string{key})
		if gerr == nil && len(ts) == 1 && len(ts[0].Uint32Slice) >= 2 {
			c, cancel := context.WithTimeout(context.Background(), 20*time.Second)
			_, err = a.S.GW.Uint32SliceDelete(c, &hydrapb.Uint32SliceDeleteRequest{IslandID: a.Island, SwampName: p.swamp, KeySlicePairs: []*hydrapb.KeySlicePair{{Key: key, Values: o.V.L}}})
			cancel()
		}
	}
	if err != nil {
		return fmt.Errorf("op %d %s: %w", i, o.Kind, err)
	}
	// observe what the operation left behind (M2) - for every key it may have touched
	keys := []int{o.K}
	if o.Kind == "delpair" {
		keys = append(keys, int(o.By))
	}
	for _, k := range keys {
		ts, gerr := a.Get(p.swamp, []string{keyName(k)})
		if gerr != nil {
			return fmt.Errorf("get after op %d: %w", i, gerr)
		}
		w := viewOf(a, p.swamp, ts[0])
		if w.Exist {
			p.opTerms = append(p.opTerms, common.App("OWrite", common.N(uint64(k)), w.coqRec()))
			if w.V.isZero() {
				p.zero = true
			}
		} else {
			p.opTerms = append(p.opTerms, common.App("ODelete", common.N(uint64(k))))
		}
	}
	return nil
}

func runSeg(a *c30.API, p *plan, sg int) {
	if p.err != nil {
		return
	}
	for _, o := range p.segs[sg] {
		if err := doOp(a, p, o); err != nil {
			p.err = err
			return
		}
	}
}

// ---- operations that arrive while a flush of the background writer is in progress ---------------
//
// The writer runs concurrently with the client also in single-client use, so "a history followed
// by close" includes operations that land inside a flush. The hook points of swamp.go
// (fileWriterHandler) and chronicler_v2.go (Write) let the harness hold the flush of one swamp at
// one of three places - before it collects its batch, after it took the batch off the buffer but
// before it is encoded, after it was written - run the segment, and let the flush go on.
var winSites = []string{"swamp.flush.begin", "chronicler.write.begin", "swamp.flush.wrote"}

type winCtl struct {
	mu       sync.Mutex
	site     map[int64]string        // swamp id -> site to park at (one shot)
	release  map[int64]chan struct{} // swamp id -> closed to let the flush continue
	parked   map[int64]bool
	gidSwamp map[int64]int64 // flush goroutine -> swamp id (chronicler.write.begin carries no id)
}

func newWinCtl() *winCtl {
	return &winCtl{site: map[int64]string{}, release: map[int64]chan struct{}{}, parked: map[int64]bool{}, gidSwamp: map[int64]int64{}}
}

func (w *winCtl) hook(site string, gid int64, args []int64) {
	var id int64
	switch site {
	case "swamp.flush.begin":
		if len(args) == 0 {
			return
		}
		id = args[0]
		w.mu.Lock()
		w.gidSwamp[gid] = id
		w.mu.Unlock()
	case "chronicler.write.begin":
		w.mu.Lock()
		id = w.gidSwamp[gid]
		w.mu.Unlock()
	case "swamp.flush.wrote":
		if len(args) == 0 {
			return
		}
		id = args[0]
	default:
		return
	}
	w.mu.Lock()
	if id == 0 || w.site[id] != site {
		w.mu.Unlock()
		return
	}
	delete(w.site, id)
	ch := w.release[id]
	w.parked[id] = true
	w.mu.Unlock()
	<-ch
}

func (w *winCtl) arm(id int64, site string) {
	w.mu.Lock()
	w.site[id] = site
	w.release[id] = make(chan struct{})
	w.parked[id] = false
	w.mu.Unlock()
}
func (w *winCtl) isParked(id int64) bool {
	w.mu.Lock()
	defer w.mu.Unlock()
	return w.parked[id]
}
func (w *winCtl) letGo(id int64) {
	w.mu.Lock()
	delete(w.site, id)
	if ch, ok := w.release[id]; ok {
		close(ch)
		delete(w.release, id)
	}
	w.mu.Unlock()
}

var wctl = newWinCtl()

// phase 0: sentinel + segment 0 (then the writer ticks)
func phase0(a *c30.API, p *plan) {
	p.t0 = time.Now().UnixNano()
	// sentinel: keeps the swamp alive when every other key is deleted
	if _, err := a.Set(p.swamp, &hydrapb.KeyValuePair{Key: "k9", BytesVal: []byte{1}}); err != nil {
		p.err = err
		return
	}
	p.opTerms = append(p.opTerms, common.App("OWrite", "9%N", viewT{Exist: true, V: val{T: 13, S: []byte{1}}}.coqRec()))
	runSeg(a, p, 0)
}

// phase 1: segment 1, snapshot (then the engine restarts)
func phase1(a *c30.API, p *plan) {
	if p.err == nil {
		p.opTerms = append(p.opTerms, "OTick") // the harness waited longer than the write interval
	}
	ranSeg1 := false
	if p.err == nil && p.win > 0 {
		if obj := hydra.VerifMapEntry(a.S.Zeus.GetHydra(), rig.Name(p.swamp).Get()); obj != nil {
			id := verifhook.ID(obj)
			wctl.arm(id, winSites[p.win-1])
			defer wctl.letGo(id)
			// something for the next tick to flush: a write that always counts as a modification
			k := 0
			if len(p.segs[1]) > 0 {
				k = p.segs[1][0].K
			}
			var first hop
			if k == nKeys-1 {
				first = hop{Kind: "push", K: k, V: val{T: 14, L: []uint32{uint32(1000 + p.idx)}}}
			} else {
				first = hop{Kind: "set", K: k, V: valuesOf(p.types[k])[len(valuesOf(p.types[k]))-1], Meta: 3}
			}
			if err := doOp(a, p, first); err != nil {
				p.err = err
				return
			}
			for dl := time.Now().Add(2500 * time.Millisecond); time.Now().Before(dl) && !wctl.isParked(id); {
				time.Sleep(5 * time.Millisecond)
			}
			p.winHit = wctl.isParked(id)
			if p.winHit {
				p.opTerms = append(p.opTerms, common.App("OWin", common.N(uint64(p.win))))
			}
			runSeg(a, p, 1)
			wctl.letGo(id)
			ranSeg1 = true
		}
	}
	if !ranSeg1 {
		runSeg(a, p, 1)
	}
	if p.err != nil {
		return
	}
	p.nTerms1 = len(p.opTerms)
	p.terms1 = append([]string{}, p.opTerms...)
	p.before[0], p.ibefore[0], p.err = snapshot(a, p)
}

// phase 2: snapshot after the first reload, segment 2, snapshot (then the engine restarts again)
func phase2(a *c30.API, p *plan) {
	if p.err != nil {
		return
	}
	if p.after[0], p.iafter[0], p.err = snapshot(a, p); p.err != nil {
		return
	}
	if viewsCoq(p.before[0]) == viewsCoq(p.after[0]) {
		p.opTerms = append(p.opTerms, "OReload")
	} else {
		// the first reload already changed something (reported by the first case): the second
		// case starts from what was actually there after it, so that it is judged on its own
		p.opTerms = p.opTerms[:0]
		for i, w := range p.after[0] {
			k := i
			if i == nKeys {
				k = 9
			}
			if w.Exist {
				p.opTerms = append(p.opTerms, common.App("OWrite", common.N(uint64(k)), w.coqRec()))
			}
		}
		p.opTerms = append(p.opTerms, "OReload")
		p.restarted = true
	}
	runSeg(a, p, 2)
	if p.err != nil {
		return
	}
	p.before[1], p.ibefore[1], p.err = snapshot(a, p)
}

// phase 3: snapshot after the second reload
func phase3(a *c30.API, p *plan) {
	if p.err != nil {
		return
	}
	p.after[1], p.iafter[1], p.err = snapshot(a, p)
}

func viewsCoq(vs []viewT) string {
	s := make([]string, len(vs))
	for i, w := range vs {
		k := i
		if i == nKeys {
			k = 9
		}
		s[i] = common.Pair(common.N(uint64(k)), w.coqOpt())
	}
	return common.List(s)
}

func main() {
	args := common.ParseArgs()
	run := common.NewRun(args, "C05", "HV.Record.Gob")
	run.Shard = 70 // cases are a few KB each: smaller shards evaluate in parallel
	run.Meta.Rule = "non-trivial = the case stores at least one typed zero-like value (0, -0.0, \"\", false, empty bytes, empty uint32 set) or, for gob/value cases, the value is such a zero"
	rig.Quiet()
	fixed := hasHintField()
	run.Meta.Extra["content_has_zero_hint_fields"] = fixed

	// part 1: gob law
	for t := 0; t <= 14; t++ {
		for _, v := range valuesOf(t) {
			variants := []func(c *treasure.Content) bool{func(*treasure.Content) bool { return true }}
			if fixed {
				variants = append(variants, func(c *treasure.Content) bool { return setHint(c, int64(t), v.T == 9 || v.T == 10) })
			}
			for _, f := range variants {
				cin := contentOf(v)
				if !f(cin) {
					continue
				}
				cout, err := gobRoundTrip(cin)
				if err != nil {
					idx := run.Add(common.App("GobCase", "empty_content", "empty_content"), map[string]interface{}{"gob_error": err.Error(), "value": v}, false)
					run.Violate(idx, "harness", "gob_error", err.Error())
					continue
				}
				run.Add(common.App("GobCase", contentCoq(cin), contentCoq(cout)), map[string]interface{}{"kind": "gob", "type": typeNames[t], "value": v}, v.isZero())
				run.Hist("gob:" + typeNames[t])
			}
		}
	}
	// part 2: ConvertToByte / LoadFromByte per value
	for t := 0; t <= 14; t++ {
		for _, v := range valuesOf(t) {
			out, err := treasureRoundTrip(v)
			if err != nil {
				idx := run.Add(common.App("ValueCase", common.Bool(fixed), "VVoid", "VVoid"), map[string]interface{}{"error": err.Error(), "value": v}, false)
				run.Violate(idx, "harness", "convert_error", err.Error())
				continue
			}
			run.Add(common.App("ValueCase", common.Bool(fixed), v.coq(), out.coq()), map[string]interface{}{"kind": "value", "type": typeNames[t], "value": v, "reloaded": out}, v.isZero())
			run.Hist("value:" + typeNames[t])
		}
	}

	// part 2b: files written by the pinned commit's struct still load
	for t := 0; t <= 14; t++ {
		for _, v := range valuesOf(t) {
			out, err := oldFileRoundTrip(v)
			if err != nil {
				idx := run.Add(common.App("OldFileCase", common.Bool(fixed), "VVoid", "VVoid"), map[string]interface{}{"error": err.Error(), "value": v}, false)
				run.Violate(idx, "existing files still load", "old_format_file_does_not_load", err.Error())
				continue
			}
			run.Add(common.App("OldFileCase", common.Bool(fixed), v.coq(), out.coq()), map[string]interface{}{"kind": "oldfile", "type": typeNames[t], "value": v, "loaded": out}, !v.isZero())
			run.Hist("oldfile:" + typeNames[t])
		}
	}

	// part 3: engine histories
	root, _ := os.MkdirTemp("", "c05")
	defer os.RemoveAll(root)
	n := 190
	if args.Tier == "thorough" {
		n = 1600
	}
	rng := common.NewRng(args.Seed, "C05")
	plans := make([]*plan, n)
	for i := range plans {
		plans[i] = genPlan(rng, i, args.Tier)
	}
	register := func(s *rig.Server) {
		s.Register("c05/r/*", false, 3600, 1, 8192)
		s.Register("c05/i/*", false, 1, 1, 8192)
	}
	s := rig.Start(root, true)
	register(s)
	a := c30.New(s)
	verifhook.Install(wctl.hook)
	defer verifhook.Install(nil)
	common.Parallel(n, 16, func(i int) { phase0(a, plans[i]) })
	time.Sleep(2200 * time.Millisecond) // the 1 s writer tick flushes segment 0; the 1 s idle-close pattern evicts its swamps
	common.Parallel(n, 16, func(i int) { phase1(a, plans[i]) })
	verifhook.Install(nil)
	a.Close()
	s = s.Restart()
	register(s)
	a = c30.New(s)
	common.Parallel(n, 16, func(i int) { phase2(a, plans[i]) })
	a.Close()
	s = s.Restart()
	register(s)
	a = c30.New(s)
	common.Parallel(n, 16, func(i int) { phase3(a, plans[i]) })
	a.Close()
	s.Stop()

	for _, p := range plans {
		if p.err != nil {
			fmt.Fprintf(os.Stderr, "c05: case %d: %v\n", p.idx, p.err)
			idx := run.Add(common.App("GobCase", "empty_content", "empty_content"), map[string]interface{}{"swamp": p.swamp, "error": p.err.Error(), "ops": p.ops}, false)
			run.Violate(idx, "harness", "rpc_error", p.err.Error())
			continue
		}
		for r := 0; r < 2; r++ {
			terms := p.opTerms
			if r == 0 {
				terms = p.terms1
			}
			term := common.App("ReloadCase", common.Bool(fixed), common.List(terms), viewsCoq(p.before[r]), viewsCoq(p.after[r]), common.List(p.ibefore[r]), common.List(p.iafter[r]))
			run.Add(term, map[string]interface{}{"kind": "reload", "reload_no": r + 1, "swamp": p.swamp,
				"segment0_then_writer_tick": p.segs[0], "segment1_then_reload": p.segs[1], "segment2_then_reload": p.segs[2],
				"before": p.before[r], "after": p.after[r], "idle_pattern": p.idle}, p.zero || len(p.segs[r+1]) > 0)
		}
		for sg := 0; sg < 3; sg++ {
			seen := map[int]string{}
			for _, o := range p.segs[sg] {
				run.Hist("op:" + o.Kind)
				if o.Kind == "set" {
					run.Hist("set:" + typeNames[o.V.T])
				}
				rm := o.Kind == "delete" || o.Kind == "shift" || o.Kind == "deldup" || o.Kind == "delpair"
				if rm && seen[o.K] == "update" {
					run.Hist(fmt.Sprintf("update_then_remove_within_segment%d", sg))
				}
				if !rm && seen[o.K] == "remove" {
					run.Hist(fmt.Sprintf("remove_then_recreate_within_segment%d", sg))
				}
				if rm {
					seen[o.K] = "remove"
				} else {
					seen[o.K] = "update"
				}
			}
		}
		if p.idle {
			run.Hist("idle_close_pattern")
		}
		if p.win > 0 {
			if p.winHit {
				run.Hist("segment1_inside_flush_parked_at:" + winSites[p.win-1])
			} else {
				run.Hist("flush_window_not_reached")
			}
		}
	}
	_ = timestamppb.Now
	run.Finish("check_all")
}
