(* Compress/Wrapper.v — model of app/core/compressor/compressor.go: the plumbing that the
   wrapper adds around the four third-party codecs, and the C24 case checker.
   The codecs themselves are arguments (M5): [enc a x], [dec a y] return what the library
   returned for that call.  No proofs here. *)
From HV Require Import Base.Prelude Compress.Snappy.
Local Open Scope N_scope.

Inductive alg := Gzip | LZ4 | Snappy | Zstd.

(* compressor.Type is an int; Gzip = iota+1 ... *)
Definition alg_of_type (t : Z) : option alg :=
  match t with
  | 1%Z => Some Gzip | 2%Z => Some LZ4 | 3%Z => Some Snappy | 4%Z => Some Zstd
  | _ => None
  end.

(* result of a Compress/Decompress call, canonicalised: a non-nil error (whatever it is,
   whatever data accompanies it) is [Err]; nil error is [Ok data], nil data = []. *)
Inductive res := Ok (b : bytes) | Err.

Section Wrapper.
  Variable enc : alg -> bytes -> res.
  Variable dec : alg -> bytes -> res.
  (* [named_err_bug = true]: decompressGzip of the pinned commit returned the *named result*
     err (always nil) on both error paths, i.e. (nil, nil). *)
  Variable named_err_bug : bool.

  Definition compress (t : Z) (x : bytes) : res :=
    match alg_of_type t with
    | None => Err                         (* "unknown compressor type" *)
    | Some a => enc a x
    end.

  Definition decompress (t : Z) (y : bytes) : res :=
    match alg_of_type t with
    | None => Err
    | Some Gzip => match dec Gzip y with
                   | Ok o => Ok o
                   | Err => if named_err_bug then Ok [] else Err
                   end
    | Some a => dec a y
    end.
End Wrapper.

(* ---- spec-level notions used by the theorems ---------------------------------------- *)

(* a codec detects damage: any byte string other than the compressed form of x decodes to an
   error or to x itself *)
Definition detects (enc : alg -> bytes -> res) (dec : alg -> bytes -> res) (a : alg) : Prop :=
  forall x y y', enc a x = Ok y -> y' <> y -> dec a y' = Err \/ dec a y' = Ok x.

(* ---- damage ------------------------------------------------------------------------- *)

Inductive damage :=
| DFlip (l : list (N * N))      (* xor the byte at each position with a non-zero mask *)
| DTrunc (n : N)                (* keep the first n bytes, n < length *)
| DAppend (g : bytes).          (* append garbage *)

Fixpoint xor_at (i : nat) (m : N) (l : bytes) : bytes :=
  match l, i with
  | [], _ => []
  | h :: t, O => N.lxor h m :: t
  | h :: t, S i' => h :: xor_at i' m t
  end.

Definition apply_damage (d : damage) (y : bytes) : bytes :=
  match d with
  | DFlip l => fold_left (fun acc pm => xor_at (N.to_nat (fst pm)) (snd pm) acc) l y
  | DTrunc n => firstn (N.to_nat n) y
  | DAppend g => y ++ g
  end.

Definition bytes_eqb : bytes -> bytes -> bool := list_eqb N.eqb.

Definition res_eqb (a b : res) : bool :=
  match a, b with
  | Err, Err => true
  | Ok x, Ok y => bytes_eqb x y
  | _, _ => false
  end.

Definition res_of_opt (o : option bytes) : res :=
  match o with Some b => Ok b | None => Err end.

(* ---- LZ4 frame layout (only to *classify* where damage hit; lz4 frame format 1.6):
        magic(4) FLG BD [content size 8] [dict id 4] HC, then blocks: size word (4, LE; 0 = end
        mark), data (size & 0x7fffffff) [+4 block checksum], finally the content checksum. *)
Fixpoint lz4_words (fuel : nat) (src : bytes) (pos : N) (blkck : bool) : list (N * N) :=
  match fuel with
  | O => []
  | S fuel' =>
    match le_take 4 src with
    | None => []
    | Some (w, rest) =>
      if w =? 0 then [(pos, 4)]
      else let n := N.land w 2147483647 + (if blkck then 4 else 0) in
           (pos, 4) :: lz4_words fuel' (skipn (N.to_nat n) rest) (pos + 4 + n) blkck
    end
  end.

Definition lz4_size_words (y : bytes) : list (N * N) :=
  match y with
  | _ :: _ :: _ :: _ :: flg :: _ =>
    let h := 7 + (if N.testbit flg 3 then 8 else 0) + (if N.testbit flg 0 then 4 else 0) in
    lz4_words (length y) (skipn (N.to_nat h) y) h (N.testbit flg 4)
  | _ => []
  end.

(* ---- the cases the harness emits ------------------------------------------------------ *)

(* observed results, compactly: [RPatch l] is "no error, data = the original input x with
   the byte at each listed position replaced" (lossless; keeps case files small because an
   undetected literal flip changes one byte of a long output); [WSame] = the wrapper returned
   exactly what the codec returned when called directly. *)
Inductive robs := RErr | ROk (b : bytes) | RPatch (l : list (N * N)).
Inductive wobs := WSame | WIs (r : robs).

Definition res_of_robs (x : bytes) (r : robs) : res :=
  match r with
  | RErr => Err
  | ROk b => Ok b
  | RPatch l => Ok (fold_left (fun acc pb => set_nth (N.to_nat (fst pb)) (snd pb) acc) l x)
  end.

Definition res_of_wobs (x : bytes) (lib : res) (w : wobs) : res :=
  match w with WSame => lib | WIs r => res_of_robs x r end.

Record dobs := { dmg : damage; lib_dec : robs; wrap_dec : wobs }.

Inductive case :=
| CRound (t : Z) (x : bytes) (lib_enc : res) (wrap_enc : option res) (lib_dec0 : robs) (wrap_dec0 : wobs)
    (* compress x, decompress the result; lib_* = the codec called directly;
       wrap_enc = None: same as lib_enc *)
| CRoundBig (t : Z) (len : N) (same : bool)
    (* large payload, compared on the Go side only *)
| CDamage (t : Z) (x y : bytes) (ds : list dobs)
    (* y = Compress x (observed in a CRound case); each d: decompress (apply_damage d y) *)
| CGarbage (t : Z) (y : bytes) (lib_dec0 wrap_dec0 : res)
    (* arbitrary bytes *)
| CUnknown (t : Z) (x : bytes) (wrap_enc wrap_dec0 : res).

(* verdict codes (props/C24.json):
   1 wrapper model <> wrapper        2 round trip broken          3 Gallina snappy decoder <> Go's
   4 unknown type accepted           5 harness inconsistency (damage does not change y)
   9 silent difference, unclassified 40 gzip silent difference
   10 snappy: flips confined to literal payload bytes
   11 snappy: flips confined to literal payload and copy-offset bits
   20 lz4 truncation accepted   21 lz4 magic flipped to skippable-frame magic
   22 lz4 size word / end mark flip   30 zstd truncated to the empty string *)

Definition model_dec (t : Z) (lib : res) (y : bytes) : res :=
  decompress (fun _ _ => lib) false t y.

Definition all_in (runs : list (N * N)) (l : list (N * N)) : bool :=
  forallb (fun pm => in_runs runs (fst pm)) l.

(* a flip that only touches literal payload, or only bits of a copy offset *)
Definition snappy_data_flip (r : roles) (pm : N * N) : bool :=
  in_runs (lit_runs r) (fst pm) || in_runs (off_runs r) (fst pm) ||
  (existsb (N.eqb (fst pm)) (copy1_tags r) && (N.land (snd pm) 31 =? 0)).

(* [r]: roles of the positions of the valid y (snappy: literal/offset positions;
   lz4: size-word positions in [lit_runs]) *)
Definition silent_code (t : Z) (r : roles) (d : damage) : N :=
  match alg_of_type t with
  | Some Gzip => 40
  | Some Snappy =>
    match d with
    | DFlip l => if all_in (lit_runs r) l then 10
                 else if forallb (snappy_data_flip r) l then 11 else 9
    | _ => 9
    end
  | Some LZ4 =>
    match d with
    | DTrunc _ => 20
    | DFlip l => if forallb (fun pm => fst pm <? 4) l ||
                    (* byte 1 of the magic becomes 0x2a, bytes 2 and 3 untouched: the frame is a
                       skippable frame whatever else was flipped behind it *)
                    (existsb (fun pm => (fst pm =? 1) && (snd pm =? 8)) l &&
                     forallb (fun pm => negb ((fst pm =? 2) || (fst pm =? 3))) l) then 21
                 else if all_in (lit_runs r) l then 22 else 9
    | _ => 9
    end
  | Some Zstd =>
    match d with
    | DTrunc 0 => 30
    | _ => 9
    end
  | None => 9
  end.

Definition class_roles (t : Z) (y : bytes) : roles :=
  match alg_of_type t with
  | Some Snappy => snappy_roles y
  | Some LZ4 => {| lit_runs := lz4_size_words y; off_runs := []; copy1_tags := [] |}
  | _ => no_roles
  end.

Definition code_if (b : bool) (c : N) : list N := if b then [] else [c].

(* all non-zero codes of one damaged decompression *)
Definition chk_dobs (t : Z) (x y : bytes) (runs : roles) (o : dobs) : list N :=
  let y' := apply_damage (dmg o) y in
  if bytes_eqb y' y then [5] else
  let lib := res_of_robs x (lib_dec o) in
  let wr := res_of_wobs x lib (wrap_dec o) in
  code_if (res_eqb (model_dec t lib y') wr) 1 ++
  match alg_of_type t with
  | Some Snappy => code_if (res_eqb (res_of_opt (snappy_decode y')) lib) 3
  | _ => []
  end ++
  match wr with
  | Err => []
  | Ok x' => if bytes_eqb x' x then [] else [silent_code t runs (dmg o)]
  end.

Definition chk (c : case) : list N :=
  match c with
  | CRound t x le we0 ld0 wd0 =>
    let we := match we0 with None => le | Some r => r end in
    let ld := res_of_robs x ld0 in
    let wd := res_of_wobs x ld wd0 in
    code_if (res_eqb (compress (fun _ _ => le) t x) we) 1 ++
    match we with
    | Ok y => code_if (res_eqb (model_dec t ld y) wd) 1
    | Err => []
    end ++
    match alg_of_type t, we, wd with
    | Some _, Ok _, Ok x' => code_if (bytes_eqb x' x) 2
    | Some _, _, _ => [2]
    | None, _, _ => []
    end ++
    match alg_of_type t, we with
    | Some Snappy, Ok y =>
      code_if (res_eqb (res_of_opt (snappy_decode y)) (Ok x)) 3 ++
      (* golang/snappy emits the literal-only form below 17 bytes (hypothesis of
         snappy_does_not_detect) *)
      code_if (negb (blen x <? 17) || bytes_eqb y (enc_lit x)) 3
    | _, _ => []
    end
  | CRoundBig t len same => code_if same 2
  | CDamage t x y ds =>
    let runs := class_roles t y in
    flat_map (chk_dobs t x y runs) ds
  | CGarbage t y ld wd =>
    code_if (res_eqb (model_dec t ld y) wd) 1 ++
    match alg_of_type t with
    | Some Snappy => code_if (res_eqb (res_of_opt (snappy_decode y)) ld) 3
    | _ => []
    end
  | CUnknown t x we wd =>
    match alg_of_type t with
    | Some _ => [5]
    | None => match we, wd with Err, Err => [] | _, _ => [4] end
    end
  end.

Fixpoint dedup (l : list N) : list N :=
  match l with
  | [] => []
  | c :: t => if existsb (N.eqb c) t then dedup t else c :: dedup t
  end.

(* one verdict per distinct code of a case (a damage group can show several) *)
Fixpoint check_from (i : N) (cs : list case) : list verdict :=
  match cs with
  | [] => []
  | c :: t => map (fun k => (i, k)) (dedup (chk c)) ++ check_from (N.succ i) t
  end.

Definition check_all (cs : list case) : list verdict := check_from 0 cs.
