(* Compress/SnappyProofs.v — facts about the Gallina model of the raw Snappy block decoder:
   it inverts the literal-only encoder (what golang/snappy emits for inputs below 17 bytes),
   and consequently a flipped literal byte is never detected. *)
From HV Require Import Base.Prelude Compress.Snappy Compress.Wrapper.
From Coq Require Import ZifyN ZifyNat ZifyBool.
Ltac Zify.zify_post_hook ::= Z.div_mod_to_equations.
Local Open Scope N_scope.

Lemma land3_mul4 : forall k, N.land (4 * k) 3 = 0.
Proof.
  intro k. change 3 with (N.ones 2). rewrite N.land_ones. change (2 ^ 2) with 4.
  rewrite N.mul_comm. apply N.mod_mul. discriminate.
Qed.

Lemma shiftr2_mul4 : forall k, N.shiftr (4 * k) 2 = k.
Proof.
  intro k. rewrite N.shiftr_div_pow2. change (2 ^ 2) with 4.
  rewrite N.mul_comm. apply N.div_mul. discriminate.
Qed.

Lemma blen_pos : forall (x : bytes), x <> [] -> 1 <= blen x.
Proof. intros [|h t] H; [contradiction|]. unfold blen. simpl length. lia. Qed.

Theorem snappy_lit_roundtrip : forall x : bytes,
  (length x <= 60)%nat -> snappy_decode (enc_lit x) = Some x.
Proof.
  intros x Hlen. destruct x as [|h t] eqn:Ex; [vm_compute; reflexivity|].
  rewrite <- Ex in *. assert (Hne : x <> []) by (subst; discriminate).
  assert (Hn1 : 1 <= blen x) by (apply blen_pos; exact Hne).
  assert (Hn60 : blen x <= 60) by (unfold blen; lia).
  assert (Henc : enc_lit x = blen x :: 4 * (blen x - 1) :: x) by (subst x; reflexivity).
  rewrite Henc. unfold snappy_decode, decoded_len, uvarint.
  cbn [uvarint_go].
  assert (H128 : (blen x <? 128) = true) by lia. rewrite H128.
  cbn [Nat.eqb andb]. rewrite N.shiftl_0_r, N.lor_0_l.
  assert (H32 : (4294967295 <? blen x) = false) by lia. rewrite H32.
  cbn [length dec_loop].
  rewrite land3_mul4, shiftr2_mul4. cbn [N.eqb].
  assert (H60 : (blen x - 1 <? 60) = true) by lia. rewrite H60.
  replace (blen x - 1 + 1) with (blen x) by lia.
  rewrite N.sub_0_r. rewrite N.ltb_irrefl. cbn [orb].
  assert (Hnat : N.to_nat (blen x) = length x) by (unfold blen; apply Nat2N.id).
  rewrite Hnat, skipn_all, firstn_all. rewrite N.add_0_l, N.eqb_refl.
  rewrite rev_append_rev, app_nil_r, rev_involutive. reflexivity.
Qed.

Lemma set_nth_length : forall i b (l : bytes), length (set_nth i b l) = length l.
Proof. induction i as [|i IH]; intros b [|h t]; simpl; auto. Qed.

Lemma set_nth_changes : forall i b (l : bytes),
  (i < length l)%nat -> nth i l 0 <> b -> set_nth i b l <> l.
Proof.
  induction i as [|i IH]; intros b [|h t] Hi Hne; simpl in *; try lia.
  - intro E. injection E as E. congruence.
  - intro E. injection E as E. revert E. apply IH; [lia|exact Hne].
Qed.

(* Flipping any byte of the literal payload of a valid block gives another valid block: it
   decodes without error to different data.  (Positions 0 and 1 of [enc_lit x] are the length
   varint and the literal tag, payload byte i sits at position 2+i.) *)
Theorem snappy_literal_flip_undetected : forall (x : bytes) i b,
  (length x <= 60)%nat -> (i < length x)%nat -> nth i x 0 <> b ->
  let y := enc_lit x in
  let y' := set_nth (2 + i) b y in
  y' <> y /\ snappy_decode y' = Some (set_nth i b x) /\ set_nth i b x <> x.
Proof.
  intros x i b Hlen Hi Hne y y'.
  assert (Hch : set_nth i b x <> x) by (apply set_nth_changes; assumption).
  assert (Hy' : y' = enc_lit (set_nth i b x)).
  { unfold y', y. destruct x as [|h t]; [simpl in Hi; lia|].
    unfold enc_lit at 1. cbn [plus set_nth].
    unfold enc_lit. destruct (set_nth i b (h :: t)) as [|h' t'] eqn:Es.
    - apply (f_equal (@length N)) in Es. rewrite set_nth_length in Es. discriminate.
    - rewrite <- Es. unfold blen. rewrite set_nth_length. reflexivity. }
  split; [|split].
  - rewrite Hy'. unfold y. intro E.
    destruct x as [|h t]; [simpl in Hi; lia|].
    destruct (set_nth i b (h :: t)) as [|h' t'] eqn:Es.
    + apply (f_equal (@length N)) in Es. rewrite set_nth_length in Es. discriminate.
    + unfold enc_lit in E. injection E as _ E1 E2. apply Hch. congruence.
  - rewrite Hy'. apply snappy_lit_roundtrip. rewrite set_nth_length. exact Hlen.
  - exact Hch.
Qed.

Example snappy_flip_example :
  snappy_decode (set_nth 3 120 (enc_lit [97;98;99])) = Some [97;120;99].
Proof. vm_compute; reflexivity. Qed.

(* Consequently raw Snappy does not have the [detects] property, whatever encoder is used, as
   long as it emits the literal-only form for some non-empty input of at most 60 bytes (the
   harness checks that golang/snappy does so for every generated input below 17 bytes). *)
Theorem snappy_does_not_detect : forall (enc dec : alg -> bytes -> res) (x : bytes),
  x <> [] -> (length x <= 60)%nat ->
  enc Snappy x = Ok (enc_lit x) ->
  (forall y, dec Snappy y = res_of_opt (snappy_decode y)) ->
  ~ detects enc dec Snappy.
Proof.
  intros enc dec x Hne Hlen Henc Hdec Hdet.
  assert (Hi : (0 < length x)%nat) by (destruct x; [contradiction | simpl; lia]).
  assert (Hb : nth 0 x 0 <> N.succ (nth 0 x 0)) by lia.
  destruct (snappy_literal_flip_undetected x 0 (N.succ (nth 0 x 0)) Hlen Hi Hb) as [Hy [Hd Hx]].
  destruct (Hdet x (enc_lit x) _ Henc Hy) as [He|Ho].
  - rewrite Hdec, Hd in He. discriminate.
  - rewrite Hdec, Hd in Ho. injection Ho as Ho. exact (Hx Ho).
Qed.
