(* Compress/Snappy.v — executable model of the raw Snappy *block* decoder
   (github.com/golang/snappy decode.go / decode_other.go, as called by
   compressor.go:decompressSnappy).  No proofs here.

   The decoder is written over the remaining source bytes; the destination is kept
   reversed ([rout]), [d] is the number of bytes written, [dlen] the announced length. *)
From HV Require Import Base.Prelude.
Local Open Scope N_scope.

Definition bytes := list N.

Definition blen (b : bytes) : N := N.of_nat (length b).

(* encoding/binary.Uvarint: Some (value, rest) when a terminated varint of at most 10
   bytes is present (10th byte at most 1); None = "n <= 0". *)
Fixpoint uvarint_go (fuel : nat) (src : bytes) (shift acc : N) : option (N * bytes) :=
  match fuel with
  | O => None                                   (* i == MaxVarintLen64: overflow *)
  | S fuel' =>
    match src with
    | [] => None                                (* buffer too small *)
    | b :: rest =>
      if b <? 128 then
        if (Nat.eqb fuel' 0) && (1 <? b) then None
        else Some (N.lor acc (N.shiftl b shift), rest)
      else uvarint_go fuel' rest (shift + 7) (N.lor acc (N.shiftl (N.land b 127) shift))
    end
  end.

Definition uvarint (src : bytes) : option (N * bytes) := uvarint_go 10 src 0 0.

(* decodedLen: corrupt when no varint or value above 2^32-1 *)
Definition decoded_len (src : bytes) : option (N * bytes) :=
  match uvarint src with
  | Some (v, rest) => if 4294967295 <? v then None else Some (v, rest)
  | None => None
  end.

(* little-endian value of the first k bytes, and the rest; None if fewer than k bytes *)
Fixpoint le_take (k : nat) (src : bytes) : option (N * bytes) :=
  match k with
  | O => Some (0, src)
  | S k' => match src with
            | [] => None
            | b :: rest => match le_take k' rest with
                           | Some (v, r) => Some (b + 256 * v, r)
                           | None => None
                           end
            end
  end.

(* forward, possibly overlapping copy of [n] bytes from [offset] back: on the reversed
   destination the source byte is at index offset-1. *)
Fixpoint copy_back (n : nat) (off1 : nat) (rout : bytes) : bytes :=
  match n with
  | O => rout
  | S n' => copy_back n' off1 (nth off1 rout 0 :: rout)
  end.

(* one element (literal or copy) per unit of fuel; every element consumes >= 1 source byte *)
Fixpoint dec_loop (fuel : nat) (src rout : bytes) (d dlen : N) : option bytes :=
  match fuel with
  | O => None
  | S fuel' =>
    match src with
    | [] => if d =? dlen then Some (rev rout) else None
    | tag :: rest =>
      let kind := N.land tag 3 in
      let x := N.shiftr tag 2 in
      if kind =? 0 then
        (* literal *)
        let hdr := if x <? 60 then Some (x, rest)
                   else le_take (N.to_nat (x - 59)) rest in
        match hdr with
        | None => None
        | Some (x', rest') =>
          let len := x' + 1 in
          if (dlen - d <? len) || (blen rest' <? len) then None
          else dec_loop fuel' (skipn (N.to_nat len) rest')
                        (rev_append (firstn (N.to_nat len) rest') rout) (d + len) dlen
        end
      else
        let ext := if kind =? 1 then 1%nat else if kind =? 2 then 2%nat else 4%nat in
        match le_take ext rest with
        | None => None
        | Some (v, rest') =>
          let len := if kind =? 1 then 4 + N.land x 7 else 1 + x in
          let offset := if kind =? 1 then N.lor (N.shiftl (N.land tag 224) 3) v else v in
          (* Go: int(uint32(...)) on a 64-bit platform never goes negative *)
          if (offset =? 0) || (d <? offset) || (dlen - d <? len) then None
          else dec_loop fuel' rest' (copy_back (N.to_nat len) (N.to_nat (offset - 1)) rout)
                        (d + len) dlen
        end
    end
  end.

Definition snappy_decode (src : bytes) : option bytes :=
  match decoded_len src with
  | None => None
  | Some (dlen, body) => dec_loop (S (length body)) body [] 0 dlen
  end.

(* ---- literal-only encoder for short inputs (golang/snappy emitLiteral, len <= 60):
        uvarint(len) = one byte, tag = (len-1)<<2, then the bytes themselves. *)
Definition enc_lit (x : bytes) : bytes :=
  match x with
  | [] => [0]
  | _ => blen x :: 4 * (blen x - 1) :: x
  end.

(* ---- roles of the positions of a *valid* block (used only to classify where damage hit):
        literal payload runs, copy-offset byte runs, and the positions of 1-byte-offset copy
        tags (whose top three bits are offset bits).  Offsets are relative to the whole block;
        [pos] is the offset of [src] in the block. *)
Record roles := { lit_runs : list (N * N); off_runs : list (N * N); copy1_tags : list N }.

Definition no_roles : roles := {| lit_runs := []; off_runs := []; copy1_tags := [] |}.

Fixpoint block_roles (fuel : nat) (src : bytes) (pos : N) (acc : roles) : roles :=
  match fuel with
  | O => acc
  | S fuel' =>
    match src with
    | [] => acc
    | tag :: rest =>
      let kind := N.land tag 3 in
      let x := N.shiftr tag 2 in
      if kind =? 0 then
        let extra := if x <? 60 then 0 else x - 59 in
        let hdr := if x <? 60 then Some (x, rest) else le_take (N.to_nat extra) rest in
        match hdr with
        | None => acc
        | Some (x', rest') =>
          let len := x' + 1 in
          block_roles fuel' (skipn (N.to_nat len) rest') (pos + 1 + extra + len)
            {| lit_runs := (pos + 1 + extra, len) :: lit_runs acc;
               off_runs := off_runs acc; copy1_tags := copy1_tags acc |}
        end
      else
        let ext := if kind =? 1 then 1 else if kind =? 2 then 2 else 4 in
        block_roles fuel' (skipn (N.to_nat ext) rest) (pos + 1 + ext)
          {| lit_runs := lit_runs acc;
             off_runs := (pos + 1, ext) :: off_runs acc;
             copy1_tags := if kind =? 1 then pos :: copy1_tags acc else copy1_tags acc |}
    end
  end.

Definition snappy_roles (block : bytes) : roles :=
  match decoded_len block with
  | None => no_roles
  | Some (_, body) => block_roles (S (length body)) body (blen block - blen body) no_roles
  end.

Definition in_runs (runs : list (N * N)) (p : N) : bool :=
  existsb (fun r => (fst r <=? p) && (p <? fst r + snd r)) runs.

(* replace the byte at index i *)
Fixpoint set_nth (i : nat) (b : N) (l : bytes) : bytes :=
  match l, i with
  | [], _ => []
  | _ :: t, O => b :: t
  | h :: t, S i' => h :: set_nth i' b t
  end.
