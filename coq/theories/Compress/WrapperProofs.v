(* Compress/WrapperProofs.v — what compressor.go's plumbing adds to (and takes from) the
   codecs: nothing.  All statements are for arbitrary codec functions [enc]/[dec] (M5). *)
From HV Require Import Base.Prelude Compress.Snappy Compress.Wrapper.
Local Open Scope N_scope.

Section WrapperFacts.
  Variable enc : alg -> bytes -> res.
  Variable dec : alg -> bytes -> res.

  (* the codec law assumed of the third-party libraries *)
  Definition codec_roundtrip : Prop :=
    forall a x, exists y, enc a x = Ok y /\ dec a y = Ok x.

  Lemma wrapper_roundtrip : codec_roundtrip ->
    forall bug t a x, alg_of_type t = Some a ->
    exists y, compress enc t x = Ok y /\ decompress dec bug t y = Ok x.
  Proof.
    intros Hrt bug t a x Ht. destruct (Hrt a x) as [y [He Hd]].
    exists y. unfold compress, decompress. rewrite Ht. split; [exact He|].
    destruct a; try exact Hd. rewrite Hd. reflexivity.
  Qed.

  Lemma wrapper_errors_propagate : forall t a y,
    alg_of_type t = Some a -> dec a y = Err -> decompress dec false t y = Err.
  Proof.
    intros t a y Ht Hd. unfold decompress. rewrite Ht. destruct a; try exact Hd.
    rewrite Hd. reflexivity.
  Qed.

  (* with the named-result bug the three other codecs still propagate *)
  Lemma wrapper_errors_propagate_partial : forall bug t a y,
    alg_of_type t = Some a -> a <> Gzip -> dec a y = Err -> decompress dec bug t y = Err.
  Proof.
    intros bug t a y Ht Hna Hd. unfold decompress. rewrite Ht. destruct a; try exact Hd.
    contradiction.
  Qed.

  Lemma wrapper_ok_passthrough : forall t y o,
    decompress dec false t y = Ok o -> exists a, alg_of_type t = Some a /\ dec a y = Ok o.
  Proof.
    intros t y o H. unfold decompress in H. destruct (alg_of_type t) as [a|] eqn:Ht; [|discriminate].
    exists a. split; [reflexivity|]. destruct a; try exact H.
    destruct (dec Gzip y); [exact H | discriminate].
  Qed.

  Lemma wrapper_unknown_type : forall bug t x,
    alg_of_type t = None -> compress enc t x = Err /\ decompress dec bug t x = Err.
  Proof. intros bug t x Ht. unfold compress, decompress. rewrite Ht. split; reflexivity. Qed.

  Lemma wrapper_no_silent_difference : forall t a x y y',
    alg_of_type t = Some a -> detects enc dec a ->
    compress enc t x = Ok y -> y' <> y ->
    decompress dec false t y' = Err \/ decompress dec false t y' = Ok x.
  Proof.
    intros t a x y y' Ht Hdet Hc Hne. unfold compress in Hc. rewrite Ht in Hc.
    destruct (Hdet x y y' Hc Hne) as [He|Ho].
    - left. apply wrapper_errors_propagate with (a := a); assumption.
    - right. unfold decompress. rewrite Ht. destruct a; try exact Ho. rewrite Ho. reflexivity.
  Qed.
End WrapperFacts.

(* ---- the hypotheses are satisfiable: a toy codec (prefix a zero byte) ----------------- *)
Definition toy_enc (_ : alg) (x : bytes) : res := Ok (0 :: x).
Definition toy_dec (_ : alg) (y : bytes) : res :=
  match y with 0 :: x => Ok x | _ => Err end.

Example toy_roundtrip : codec_roundtrip toy_enc toy_dec.
Proof. intros a x. exists (0 :: x). split; reflexivity. Qed.

(* a codec that detects all damage: a single valid codeword, everything else is an error *)
Definition one_enc (_ : alg) (x : bytes) : res := Ok [7].
Definition one_dec (_ : alg) (y : bytes) : res :=
  match y with [7] => Ok [] | _ => Err end.
Example one_detects : forall a, detects one_enc one_dec a.
Proof.
  intros a x y y' He Hne. injection He as <-. left.
  destruct y' as [|b [|c t]]; try reflexivity.
  - destruct (N.eq_dec b 7) as [->|Hb]; [contradiction|].
    unfold one_dec. destruct b as [|p]; [reflexivity|].
    destruct p as [p|p|]; try reflexivity.
    destruct p as [p|p|]; try reflexivity.
    destruct p as [p|p|]; try reflexivity. contradiction.
  - unfold one_dec. destruct b as [|p]; [reflexivity|].
    destruct p as [p|p|]; try reflexivity.
    destruct p as [p|p|]; try reflexivity.
    destruct p as [p|p|]; reflexivity.
Qed.

Example toy_wrapper_roundtrip :
  exists y, compress toy_enc 3%Z [1;2;3] = Ok y /\ decompress toy_dec false 3%Z y = Ok [1;2;3].
Proof. exists [0;1;2;3]. split; vm_compute; reflexivity. Qed.

(* ---- the pinned commit's decompressGzip ---------------------------------------------- *)
Lemma errors_propagate_refuted_with_named_err :
  exists (dec : alg -> bytes -> res) y,
    dec Gzip y = Err /\ decompress dec true 1%Z y = Ok [].
Proof. exists (fun _ _ => Err), [1;2;3]. split; reflexivity. Qed.

Lemma no_silent_difference_refuted_with_named_err :
  exists (enc dec : alg -> bytes -> res) x y y',
    detects enc dec Gzip /\ compress enc 1%Z x = Ok y /\ y' <> y /\ x <> [] /\
    decompress dec true 1%Z y' = Ok [].
Proof.
  exists one_enc, one_dec, [42], [7], [8].
  split; [apply one_detects|]. repeat split; try discriminate; reflexivity.
Qed.
