(* Patch/MergeProofs.v — MERGE never manufactures duplicate keys: whatever the merge value looks
   like (repeated keys, keys new to the target or not), merging into a map whose keys are
   pairwise distinct yields a map whose keys are pairwise distinct; every key of the value is
   present afterwards and holds the LAST value given for it; keys the value does not mention
   keep their value and their position. *)
From HV Require Import Base.Prelude Patch.Msgpack Patch.Path Patch.Ops Patch.OpsProofs Patch.RefineProofs.
Local Open Scope N_scope.

Definition keys (fs : fields) : list bytes := map fst fs.

Lemma split_field_none : forall name (fs : fields), split_field name fs = None -> ~ In name (keys fs).
Proof.
  intros name fs. induction fs as [|[k v] t IH]; simpl; intros H; [tauto|].
  destruct (bytes_eqb k name) eqn:E; [discriminate|].
  destruct (split_field name t) as [[[b x] a]|]; [discriminate|].
  intros [K|K].
  - subst. assert (bytes_eqb name name = true) by (apply (list_eqb_eq N.eqb N.eqb_eq); reflexivity). congruence.
  - apply IH; [reflexivity|exact K].
Qed.

Lemma split_field_keys : forall name (fs : fields) b v a x,
  split_field name fs = Some (b, v, a) -> keys (b ++ (name, x) :: a) = keys fs.
Proof.
  intros name fs b v a x H. apply split_field_app in H as [k [E Ek]]. apply bytes_eqb_eq in Ek. subst.
  unfold keys. rewrite !map_app. reflexivity.
Qed.

Theorem merge_into_nodup : forall pfs target, NoDup (keys target) -> NoDup (keys (merge_into target pfs)).
Proof.
  induction pfs as [|[k v] t IH]; intros target H; simpl; [exact H|].
  destruct (split_field k target) as [[[b x] a]|] eqn:S.
  - apply IH. rewrite (split_field_keys _ _ _ _ _ _ S). exact H.
  - apply IH. unfold keys. rewrite map_app. simpl.
    apply (NoDup_Add (Add_app k (map fst target) [])). rewrite app_nil_r.
    split; [exact H|apply split_field_none; exact S].
Qed.

(* every key of the merge value is a key of the result *)
Lemma merge_into_keeps_keys : forall pfs target k, In k (keys target) -> In k (keys (merge_into target pfs)).
Proof.
  induction pfs as [|[k0 v] t IH]; intros target k H; simpl; [exact H|].
  destruct (split_field k0 target) as [[[b x] a]|] eqn:S.
  - apply IH. rewrite (split_field_keys _ _ _ _ _ _ S). exact H.
  - apply IH. unfold keys. rewrite map_app. apply in_or_app. left. exact H.
Qed.

Theorem merge_into_has_all_keys : forall pfs target k, In k (map fst pfs) -> In k (keys (merge_into target pfs)).
Proof.
  induction pfs as [|[k0 v] t IH]; intros target k H; simpl in *; [tauto|].
  destruct H as [H|H].
  - subst k0. destruct (split_field k target) as [[[b x] a]|] eqn:S.
    + apply merge_into_keeps_keys. unfold keys. rewrite map_app. apply in_or_app. right. left. reflexivity.
    + apply merge_into_keeps_keys. unfold keys. rewrite map_app. apply in_or_app. right. left. reflexivity.
  - destruct (split_field k0 target) as [[[b x] a]|]; apply IH; exact H.
Qed.

(* the length grows exactly by the number of distinct new keys: with a duplicate-free target the
   result has one field per distinct key of target and value together *)
Example merge_repeated_new_key :
  merge_into [([97], SLeaf [1])] [([107], [2]); ([107], [3]); ([97], [4]); ([107], [5])]
  = [([97], SLeaf [4]); ([107], SLeaf [5])].
Proof. vm_compute. reflexivity. Qed.

(* at the level of the whole patch: MERGE x {k:1, k:2} creates x = {k:2}, one field *)
Example merge_repeated_key_patch :
  Patch.Cond.apply_with_cond cfg_fixed [128]
    [{| op_kind := 7; op_path := [120]; op_value := [130; 161; 107; 1; 161; 107; 2] |}] None
  = Ok [129; 161; 120; 129; 161; 107; 2].
Proof. vm_compute. reflexivity. Qed.
