(* Patch/DocSpec.v — reference semantics of a structural patch on abstract documents, written
   from docs/features/structural-msgpack-patch.md and the documented behaviour of the operations
   (SET/DELETE/INC/APPEND/PREPEND/REMOVE_AT/REMOVE_VAL/MERGE, auto-create, first match on
   duplicate keys).  No byte splicing: a document is an ordered tree whose scalar values are
   typed wire values (the "type preservation guarantee" makes the wire type part of the value,
   so a scalar is identified by its exact encoding) and values carried by operations are
   documents themselves, not byte strings.  Executable definitions only. *)
From Coq Require Import Floats.SpecFloat.
From HV Require Import Base.Prelude Patch.Msgpack Patch.Path Patch.Float Patch.Ops Patch.Cond.
Local Open Scope N_scope.

Inductive doc :=
| DVal (raw : bytes)                   (* a scalar: nil, bool, number, string, binary, extension *)
| DMap (fs : list (bytes * doc))       (* ordered, string keys, duplicates possible *)
| DArr (xs : list doc).

Fixpoint to_doc (s : skel) : doc :=
  match s with
  | SLeaf raw => DVal raw
  | SMap fs => DMap ((fix go (l : list (bytes * skel)) := match l with [] => [] | (k, v) :: t => (k, to_doc v) :: go t end) fs)
  | SArr xs => DArr ((fix go (l : list skel) := match l with [] => [] | v :: t => to_doc v :: go t end) xs)
  end.

(* the document a byte string denotes *)
Definition decode (b : bytes) : res doc :=
  match parse b with Ok s => Ok (to_doc s) | Err e => Err e end.

(* the document a (possibly mutated) skeleton denotes: spliced values are read as documents *)
Definition value_doc (raw : bytes) : doc :=
  match parse raw with Ok s => to_doc s | Err _ => DVal raw end.

Fixpoint norm (s : skel) : doc :=
  match s with
  | SLeaf raw => value_doc raw
  | SMap fs => DMap ((fix go (l : list (bytes * skel)) := match l with [] => [] | (k, v) :: t => (k, norm v) :: go t end) fs)
  | SArr xs => DArr ((fix go (l : list skel) := match l with [] => [] | v :: t => norm v :: go t end) xs)
  end.

(* ---- navigation: where a path ends, and what may be done there -------------------------- *)
Inductive slot :=
| SlotValue (t : doc)                  (* the path names an existing field or element *)
| SlotMissing (rest : list seg)        (* a field on the path is absent; rest = segments after it *)
| SlotAppend.                          (* "[]" on an existing array *)

Inductive act :=
| Keep                                 (* leave the document as it is *)
| Put (d : doc)                        (* replace the existing value *)
| Drop                                 (* remove the existing field / element *)
| Create (d : doc)                     (* add the absent field (as last field) with value d *)
| Push (front : bool) (d : doc).       (* add an element at the front / back of the array *)

Definition dfields := list (bytes * doc).

Fixpoint dnav (f : slot -> res act) (segs : list seg) (cur : doc) : res doc :=
  match segs with
  | [] => Err EPath
  | sg :: rest =>
    match sg with
    | SegField name =>
        match cur with
        | DMap fs =>
            match split_field name fs with
            | None =>
                a <- f (SlotMissing rest) ;;
                match a with
                | Keep => Ok cur
                | Create d => Ok (DMap (fs ++ [(name, d)]))
                | _ => Err EPath
                end
            | Some (b, v, a) =>
                match rest with
                | [] =>
                    x <- f (SlotValue v) ;;
                    match x with
                    | Keep => Ok cur
                    | Put d => Ok (DMap (b ++ (name, d) :: a))
                    | Drop => Ok (DMap (b ++ a))
                    | _ => Err EPath
                    end
                | _ => v' <- dnav f rest v ;; Ok (DMap (b ++ (name, v') :: a))
                end
            end
        | _ => Err EType
        end
    | SegIndex i =>
        match cur with
        | DArr xs =>
            match resolve_index i (length xs) with
            | None => Err EPath
            | Some idx =>
                match split_nth idx xs with
                | None => Err EPath
                | Some (b, v, a) =>
                    match rest with
                    | [] =>
                        x <- f (SlotValue v) ;;
                        match x with
                        | Keep => Ok cur
                        | Put d => Ok (DArr (b ++ d :: a))
                        | Drop => Ok (DArr (b ++ a))
                        | _ => Err EPath
                        end
                    | _ => v' <- dnav f rest v ;; Ok (DArr (b ++ v' :: a))
                    end
                end
            end
        | _ => Err EType
        end
    | SegAppend =>
        match rest with
        | _ :: _ => Err EPath
        | [] =>
            match cur with
            | DArr xs =>
                x <- f SlotAppend ;;
                match x with
                | Keep => Ok cur
                | Push true d => Ok (DArr (d :: xs))
                | Push false d => Ok (DArr (xs ++ [d]))
                | _ => Err EPath
                end
            | _ => Err EType
            end
        end
    end
  end.

(* auto-created maps for the absent fields named by [names], ending in d *)
Fixpoint dchain (names : list bytes) (d : doc) : doc :=
  match names with [] => d | n :: t => DMap [(n, dchain t d)] end.

Definition create_at (rest : list seg) (d : doc) : res act :=
  match field_names rest with Some ns => Ok (Create (dchain ns d)) | None => Err EPath end.

(* ---- the operations ----------------------------------------------------------------------- *)
(* SET: replace an existing value; add an absent field, creating absent parents as maps *)
Definition d_set (v : doc) (sl : slot) : res act :=
  match sl with
  | SlotValue _ => Ok (Put v)
  | SlotMissing rest => create_at rest v
  | SlotAppend => Err EPath
  end.

(* DELETE: remove if present, otherwise nothing *)
Definition d_delete (sl : slot) : res act :=
  match sl with SlotValue _ => Ok Drop | _ => Ok Keep end.

(* INC: add the delta to a numeric scalar of the same class, keeping the target's wire type;
   an absent field is created with the delta as its value *)
Definition d_inc (delta_raw : bytes) (delta : num) (sl : slot) : res act :=
  match sl with
  | SlotValue (DVal raw) =>
      tn <- read_numeric raw ;;
      if num_class_of tn =? num_class_of delta
      then nb <- inc_bytes (leaf_code raw) tn delta ;; Ok (Put (DVal nb))
      else Err EType
  | SlotValue _ => Err EType
  | SlotMissing rest => create_at rest (value_doc delta_raw)
  | SlotAppend => Err EPath
  end.

(* APPEND / PREPEND: "x[]" adds an element; an absent array is created with that one element *)
Definition d_push (front : bool) (v : doc) (sl : slot) : res act :=
  match sl with
  | SlotAppend => Ok (Push front v)
  | SlotValue _ => Err EPath
  | SlotMissing rest =>
      match rev rest with
      | SegAppend :: ri =>
          match field_names (rev ri) with
          | Some ns => Ok (Create (dchain ns (DArr [v])))
          | None => Err EPath
          end
      | _ => Err EPath
      end
  end.

(* REMOVE_AT: remove the element at an index that must exist *)
Definition d_remove_at (sl : slot) : res act :=
  match sl with SlotValue _ => Ok Drop | _ => Err EPath end.

(* REMOVE_VAL: remove the first scalar element equal (same wire value) to v *)
Fixpoint d_remove_first (v : bytes) (xs : list doc) : list doc :=
  match xs with
  | [] => []
  | DVal raw :: t => if bytes_eqb raw v then t else DVal raw :: d_remove_first v t
  | x :: t => x :: d_remove_first v t
  end.

Definition d_remove_val (v : bytes) (sl : slot) : res act :=
  match sl with
  | SlotValue (DArr xs) => Ok (Put (DArr (d_remove_first v xs)))
  | SlotValue _ => Err EType
  | _ => Ok Keep
  end.

(* MERGE: shallow merge of the fields of a map value, in order: existing key (first match)
   replaced in place, new key added last *)
Fixpoint d_merge (target : dfields) (pfs : dfields) : dfields :=
  match pfs with
  | [] => target
  | (k, v) :: t =>
      match split_field k target with
      | Some (b, _, a) => d_merge (b ++ (k, v) :: a) t
      | None => d_merge (target ++ [(k, v)]) t
      end
  end.

Definition d_merge_op (pfs : dfields) (sl : slot) : res act :=
  match sl with
  | SlotValue (DMap fs) => Ok (Put (DMap (d_merge fs pfs)))
  | SlotValue _ => Err EType
  | SlotMissing rest => create_at rest (DMap (d_merge [] pfs))
  | SlotAppend => Err EPath
  end.

(* one operation on a document; the value is given as bytes and read as a document *)
Definition doc_op (d : doc) (o : op) (segs : list seg) : res doc :=
  let v := op_value o in
  let need_value : res unit := match v with [] => Err EInvalidOp | _ => Ok tt end in
  let valid : res unit := if valid_value v then Ok tt else Err EInvalid in
  match op_kind o with
  | 0 => _ <- need_value ;; _ <- valid ;; dnav (d_set (value_doc v)) segs d
  | 1 => dnav d_delete segs d
  | 2 => _ <- need_value ;; _ <- valid ;;
         dl <- read_numeric v ;;
         match dl with NNone => Err EType | _ => dnav (d_inc v dl) segs d end
  | 3 => _ <- need_value ;; _ <- valid ;; dnav (d_push false (value_doc v)) segs d
  | 4 => _ <- need_value ;; _ <- valid ;; dnav (d_push true (value_doc v)) segs d
  | 5 => if last_is_index segs then dnav d_remove_at segs d else Err EPath
  | 6 => _ <- need_value ;; dnav (d_remove_val v) segs d
  | 7 => _ <- need_value ;; _ <- valid ;;
         match v with
         | c :: _ =>
             if is_map_code c then
               match parse v with
               | Ok (SMap fs) => match to_doc (SMap fs) with
                                 | DMap pfs => dnav (d_merge_op pfs) segs d
                                 | _ => Err EType
                                 end
               | Ok _ => Err EType
               | Err e => Err e
               end
             else Err EType
         | [] => Err EInvalidOp
         end
  | _ => Err EInvalidOp
  end.

Fixpoint doc_ops (d : doc) (ops : list op) : res doc :=
  match ops with
  | [] => Ok d
  | o :: t =>
      match parse_path (op_path o) with
      | None => Err EPath
      | Some segs => d' <- doc_op d o segs ;; doc_ops d' t
      end
  end.

(* conditions on documents: the target must be an existing scalar *)
Fixpoint dresolve (segs : list seg) (cur : doc) : res (option doc) :=
  match segs with
  | [] => Err EPath
  | sg :: rest =>
    match sg with
    | SegField name =>
        match cur with
        | DMap fs =>
            match split_field name fs with
            | None => Ok None
            | Some (_, v, _) => match rest with [] => Ok (Some v) | _ => dresolve rest v end
            end
        | _ => Err EType
        end
    | SegIndex i =>
        match cur with
        | DArr xs =>
            match resolve_index i (length xs) with
            | None => Err EPath
            | Some idx =>
                match split_nth idx xs with
                | None => Err EPath
                | Some (_, v, _) => match rest with [] => Ok (Some v) | _ => dresolve rest v end
                end
            end
        | _ => Err EType
        end
    | SegAppend =>
        match rest with
        | _ :: _ => Err EPath
        | [] => match cur with DArr _ => Ok None | _ => Err EType end
        end
    end
  end.

Definition doc_cond (d : doc) (cd : cond) : res unit :=
  match parse_path (cond_path cd) with
  | None => Err EPath
  | Some segs =>
    let r := dresolve segs d in
    match r with
    | Err EType | Ok _ =>
        let target := match r with Ok (Some (DVal raw)) => Some raw | _ => None end in
        if cond_op cd =? 6 then (match target with Some _ => Ok tt | None => Err ECondNotMet end)
        else if cond_op cd =? 7 then (match target with Some _ => Err ECondNotMet | None => Ok tt end)
        else
          match r with
          | Err e => Err e
          | Ok _ =>
              match target with
              | None => Err ECondNotMet
              | Some raw =>
                  cmp <- compare_leaf cfg_fixed raw (cond_threshold cd) ;;
                  match cond_met (cond_op cd) cmp with
                  | None => Err EInvalidOp
                  | Some true => Ok tt
                  | Some false => Err ECondNotMet
                  end
              end
          end
    | Err e => Err e
    end
  end.

(* the documented patch: condition first, then every operation in order, all or nothing *)
Definition doc_patch (d : doc) (ops : list op) (cd : option cond) : res doc :=
  _ <- match cd with Some x => doc_cond d x | None => Ok tt end ;;
  doc_ops d ops.
