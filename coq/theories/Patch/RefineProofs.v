(* Patch/RefineProofs.v — the skeleton operations refine the documented semantics
   (Patch/DocSpec.v).  [norm s] is the document a skeleton denotes (spliced values read as
   documents).  For a skeleton whose leaves are scalars ([clean], as produced by Parse) and each
   of SET, DELETE, INC, APPEND, PREPEND, REMOVE_AT: the document denoted by the result of the
   byte-splicing operation is the result of the documented operation on the denoted document,
   and both fail with the same error class.  (REMOVE_VAL and MERGE are compared with DocSpec by
   the correspondence harness only.) *)
From Coq Require Import Floats.SpecFloat.
From HV Require Import Base.Prelude Patch.Msgpack Patch.Path Patch.Float Patch.Ops Patch.Cond
  Patch.DocSpec Patch.MsgpackProofs Patch.OpsProofs.
Local Open Scope N_scope.

Definition nf (fs : fields) : dfields := map (fun kv => (fst kv, norm (snd kv))) fs.

Lemma norm_map : forall fs, norm (SMap fs) = DMap (nf fs).
Proof.
  intro fs. simpl. f_equal. induction fs as [|[k v] t IH]; [reflexivity|]. simpl. rewrite IH. reflexivity.
Qed.
Lemma norm_arr : forall xs, norm (SArr xs) = DArr (map norm xs).
Proof.
  intro xs. reflexivity.
Qed.
Lemma nf_app : forall a b, nf (a ++ b) = nf a ++ nf b.
Proof. intros. unfold nf. apply map_app. Qed.

Lemma bytes_eqb_eq : forall a b, bytes_eqb a b = true -> a = b.
Proof. intros a b H. apply (list_eqb_eq N.eqb N.eqb_eq). exact H. Qed.

(* a leaf that denotes a scalar document *)
Definition scalar_leaf (raw : bytes) : Prop := value_doc raw = DVal raw.
Definition clean (s : skel) : Prop := skel_all scalar_leaf ktrue ctrue s.

Lemma clean_map : forall fs, clean (SMap fs) <-> Forall (fun kv => clean (snd kv)) fs.
Proof.
  intro fs. unfold clean. rewrite skel_all_map. unfold ctrue, ktrue. split.
  - intros [_ H]. eapply Forall_impl; [|exact H]. simpl. tauto.
  - intro H. split; [exact I|]. eapply Forall_impl; [|exact H]. simpl. tauto.
Qed.
Lemma clean_arr : forall xs, clean (SArr xs) <-> Forall clean xs.
Proof. intro xs. unfold clean. rewrite skel_all_arr. unfold ctrue. tauto. Qed.

Lemma split_field_nf : forall name fs,
  split_field name (nf fs) =
  match split_field name fs with Some (b, v, a) => Some (nf b, norm v, nf a) | None => None end.
Proof.
  intros name fs. induction fs as [|[k v] t IH]; [reflexivity|]. simpl.
  destruct (bytes_eqb k name); [reflexivity|]. rewrite IH.
  destruct (split_field name t) as [[[b x] a]|]; reflexivity.
Qed.

Lemma split_nth_norm : forall n xs,
  split_nth n (map norm xs) =
  match split_nth n xs with Some (b, v, a) => Some (map norm b, norm v, map norm a) | None => None end.
Proof.
  intros n xs. revert n. induction xs as [|x t IH]; intro n; destruct n as [|n']; simpl; try reflexivity.
  rewrite IH. destruct (split_nth n' t) as [[[b y] a]|]; reflexivity.
Qed.

Definition nres (r : res skel) : res doc := match r with Ok s => Ok (norm s) | Err e => Err e end.

Definition interp_value_map (b : dfields) (name : bytes) (v : doc) (a : dfields) (x : act) : res doc :=
  match x with
  | Keep => Ok (DMap (b ++ (name, v) :: a))
  | Put d => Ok (DMap (b ++ (name, d) :: a))
  | Drop => Ok (DMap (b ++ a))
  | _ => Err EPath
  end.
Definition interp_value_arr (b : list doc) (v : doc) (a : list doc) (x : act) : res doc :=
  match x with
  | Keep => Ok (DArr (b ++ v :: a))
  | Put d => Ok (DArr (b ++ d :: a))
  | Drop => Ok (DArr (b ++ a))
  | _ => Err EPath
  end.

Record hsim (h : handlers) (f : slot -> res act) : Prop := {
  sim_missing : forall fs name rest,
    match h_missing h fs name rest with Ok fs' => Ok (DMap (nf fs')) | Err e => Err e end =
    (x <- f (SlotMissing rest) ;;
     match x with Keep => Ok (DMap (nf fs)) | Create d => Ok (DMap (nf fs ++ [(name, d)])) | _ => Err EPath end);
  sim_field : forall b name v a, clean v ->
    match h_field h b name v a with Ok fs' => Ok (DMap (nf fs')) | Err e => Err e end =
    (x <- f (SlotValue (norm v)) ;; interp_value_map (nf b) name (norm v) (nf a) x);
  sim_index : forall b v a, clean v ->
    match h_index h b v a with Ok xs' => Ok (DArr (map norm xs')) | Err e => Err e end =
    (x <- f (SlotValue (norm v)) ;; interp_value_arr (map norm b) (norm v) (map norm a) x);
  sim_append : forall xs,
    match h_append h xs with Ok xs' => Ok (DArr (map norm xs')) | Err e => Err e end =
    (x <- f SlotAppend ;;
     match x with
     | Keep => Ok (DArr (map norm xs))
     | Push true d => Ok (DArr (d :: map norm xs))
     | Push false d => Ok (DArr (map norm xs ++ [d]))
     | _ => Err EPath
     end)
}.

Lemma clean_leaf_doc : forall raw, clean (SLeaf raw) -> norm (SLeaf raw) = DVal raw.
Proof. intros raw H. exact H. Qed.

Theorem walk_refines_dnav : forall h f, hsim h f -> forall segs s,
  clean s -> nres (walk h segs s) = dnav f segs (norm s).
Proof.
  intros h f Hs segs. induction segs as [|sg rest IH]; intros s Hc; [reflexivity|].
  destruct sg as [name|i|].
  - destruct s as [raw|fs|xs].
    + rewrite (clean_leaf_doc _ Hc). reflexivity.
    + rewrite norm_map. simpl walk. simpl dnav. rewrite split_field_nf.
      destruct (split_field name fs) as [[[b v] a]|] eqn:S.
      * apply split_field_app in S as [k [Efs Ek]]. apply bytes_eqb_eq in Ek. subst k fs.
        apply clean_map in Hc. apply Forall_app in Hc as [_ Hc]. inversion Hc as [|? ? Hv _]; subst. simpl in Hv.
        destruct rest as [|sg2 rest2].
        -- pose proof (sim_field h f Hs b name v a Hv) as Q. unfold bind in *.
           destruct (h_field h b name v a) as [fs'|e]; unfold nres; rewrite ?norm_map; rewrite Q;
             destruct (f (SlotValue (norm v))) as [x|e']; try reflexivity;
             destruct x; simpl; rewrite ?nf_app; reflexivity.
        -- specialize (IH v Hv).
           destruct (walk h (sg2 :: rest2) v) as [v'|e]; cbn [nres bind] in IH |- *; rewrite <- IH; cbn [bind];
             [rewrite norm_map, nf_app|]; reflexivity.
      * pose proof (sim_missing h f Hs fs name rest) as Q. unfold bind in *.
        destruct (h_missing h fs name rest) as [fs'|e]; unfold nres; rewrite ?norm_map; rewrite Q;
          destruct (f (SlotMissing rest)) as [x|e']; try reflexivity; destruct x; reflexivity.
    + rewrite norm_arr. reflexivity.
  - destruct s as [raw|fs|xs].
    + rewrite (clean_leaf_doc _ Hc). reflexivity.
    + rewrite norm_map. reflexivity.
    + rewrite norm_arr. simpl walk. simpl dnav. rewrite map_length.
      destruct (resolve_index i (length xs)) as [idx|]; [|reflexivity].
      rewrite split_nth_norm.
      destruct (split_nth idx xs) as [[[b v] a]|] eqn:S; [|reflexivity].
      apply split_nth_app in S. subst xs.
      apply clean_arr in Hc. apply Forall_app in Hc as [_ Hc]. inversion Hc as [|? ? Hv _]; subst.
      destruct rest as [|sg2 rest2].
      * pose proof (sim_index h f Hs b v a Hv) as Q. unfold bind in *.
        destruct (h_index h b v a) as [xs'|e]; unfold nres; rewrite ?norm_arr; rewrite Q;
          destruct (f (SlotValue (norm v))) as [x|e']; try reflexivity;
          destruct x; simpl; rewrite ?map_app; reflexivity.
      * specialize (IH v Hv).
        destruct (walk h (sg2 :: rest2) v) as [v'|e]; cbn [nres bind] in IH |- *; rewrite <- IH; cbn [bind];
          [rewrite norm_arr, map_app|]; reflexivity.
  - destruct rest as [|sg2 rest2].
    + destruct s as [raw|fs|xs].
      * rewrite (clean_leaf_doc _ Hc). reflexivity.
      * rewrite norm_map. reflexivity.
      * rewrite norm_arr. simpl walk. simpl dnav.
        pose proof (sim_append h f Hs xs) as Q. unfold bind in *.
        destruct (h_append h xs) as [xs'|e]; unfold nres; rewrite ?norm_arr; rewrite Q;
          destruct (f SlotAppend) as [x|e']; try reflexivity; destruct x as [| | | |[|] d]; reflexivity.
    + reflexivity.
Qed.

(* ---- the six operations ------------------------------------------------------------------- *)
Lemma chain_norm : forall ns x, norm (chain ns x) = dchain ns (norm x).
Proof. induction ns as [|n t IH]; intro x; simpl; [reflexivity|]. rewrite IH. reflexivity. Qed.

Lemma create_fields_sim : forall fs name rest x,
  match create_fields fs name rest x with Ok fs' => Ok (DMap (nf fs')) | Err e => Err e end =
  (a <- create_at rest (norm x) ;;
   match a with Keep => Ok (DMap (nf fs)) | Create d => Ok (DMap (nf fs ++ [(name, d)])) | _ => Err EPath end).
Proof.
  intros fs name rest x. unfold create_fields, create_at. destruct (field_names rest) as [ns|]; [|reflexivity].
  simpl. rewrite nf_app. simpl. rewrite chain_norm. reflexivity.
Qed.

Lemma hsim_set : forall v, hsim (h_set v) (d_set (value_doc v)).
Proof.
  intro v. constructor; simpl.
  - intros. apply (create_fields_sim fs name rest (SLeaf v)).
  - intros. rewrite nf_app. reflexivity.
  - intros. rewrite map_app. reflexivity.
  - reflexivity.
Qed.

Lemma hsim_delete : hsim h_delete d_delete.
Proof.
  constructor; simpl.
  - reflexivity.
  - intros. rewrite nf_app. reflexivity.
  - intros. rewrite map_app. reflexivity.
  - reflexivity.
Qed.

Lemma hsim_remove_at : hsim h_remove_at d_remove_at.
Proof.
  constructor; simpl.
  - reflexivity.
  - intros. rewrite nf_app. reflexivity.
  - intros. rewrite map_app. reflexivity.
  - reflexivity.
Qed.

Lemma hsim_push : forall v p, hsim (h_append_op v p) (d_push p (value_doc v)).
Proof.
  intros v p. constructor; simpl.
  - intros fs name rest. unfold create_array.
    destruct (rev rest) as [|[| |] ri]; try reflexivity.
    destruct (field_names (rev ri)) as [ns|]; [|reflexivity].
    simpl. rewrite nf_app. simpl. rewrite chain_norm. reflexivity.
  - reflexivity.
  - reflexivity.
  - intro xs. destruct p; simpl; [reflexivity|]. rewrite map_app. reflexivity.
Qed.

Lemma inc_bytes_scalar : forall code t d nb, inc_bytes code t d = Ok nb -> value_doc nb = DVal nb.
Proof.
  intros code t d nb H. unfold inc_bytes in H.
  destruct t, d; try discriminate; inversion H; subst; clear H.
  - unfold enc_int. repeat match goal with |- context [if ?x then _ else _] => destruct x end; reflexivity.
  - unfold enc_uint. repeat match goal with |- context [if ?x then _ else _] => destruct x end; reflexivity.
  - unfold enc_float. repeat match goal with |- context [if ?x then _ else _] => destruct x end; reflexivity.
Qed.

Lemma inc_target_sim : forall t d, clean t ->
  match inc_target t d with Ok t' => Ok (norm t') | Err e => Err e end =
  (x <- (match norm t with
         | DVal raw =>
             tn <- read_numeric raw ;;
             if num_class_of tn =? num_class_of d
             then nb <- inc_bytes (leaf_code raw) tn d ;; Ok (Put (DVal nb))
             else Err EType
         | _ => Err EType
         end) ;;
   match x with Put dd => Ok dd | _ => Err EPath end).
Proof.
  intros t d Hc. destruct t as [raw|fs|xs].
  - rewrite (clean_leaf_doc _ Hc). unfold inc_target, bind.
    destruct (read_numeric raw) as [tn|e]; [|reflexivity].
    destruct (num_class_of tn =? num_class_of d); [|reflexivity].
    destruct (inc_bytes (leaf_code raw) tn d) as [nb|e] eqn:E; [|reflexivity].
    change (norm (SLeaf nb)) with (value_doc nb). rewrite (inc_bytes_scalar _ _ _ _ E). reflexivity.
  - rewrite norm_map. reflexivity.
  - rewrite norm_arr. reflexivity.
Qed.

Lemma hsim_inc : forall v d, hsim (h_inc v d) (d_inc v d).
Proof.
  intros v d. constructor; simpl.
  - intros. apply (create_fields_sim fs name rest (SLeaf v)).
  - intros b name t a Hc. pose proof (inc_target_sim t d Hc) as Q. unfold bind in *.
    destruct (inc_target t d) as [t'|e].
    + rewrite nf_app. simpl.
      destruct (norm t) as [raw| |]; try discriminate.
      destruct (read_numeric raw) as [tn|e]; [|discriminate].
      destruct (num_class_of tn =? num_class_of d); [|discriminate].
      destruct (inc_bytes (leaf_code raw) tn d) as [nb|e]; [|discriminate].
      inversion Q; subst. reflexivity.
    + destruct (norm t) as [raw| |]; try (inversion Q; subst; reflexivity).
      destruct (read_numeric raw) as [tn|e']; [|inversion Q; subst; reflexivity].
      destruct (num_class_of tn =? num_class_of d); [|inversion Q; subst; reflexivity].
      destruct (inc_bytes (leaf_code raw) tn d) as [nb|e']; [discriminate|inversion Q; subst; reflexivity].
  - intros b t a Hc. pose proof (inc_target_sim t d Hc) as Q. unfold bind in *.
    destruct (inc_target t d) as [t'|e].
    + rewrite map_app. simpl.
      destruct (norm t) as [raw| |]; try discriminate.
      destruct (read_numeric raw) as [tn|e]; [|discriminate].
      destruct (num_class_of tn =? num_class_of d); [|discriminate].
      destruct (inc_bytes (leaf_code raw) tn d) as [nb|e]; [|discriminate].
      inversion Q; subst. reflexivity.
    + destruct (norm t) as [raw| |]; try (inversion Q; subst; reflexivity).
      destruct (read_numeric raw) as [tn|e']; [|inversion Q; subst; reflexivity].
      destruct (num_class_of tn =? num_class_of d); [|inversion Q; subst; reflexivity].
      destruct (inc_bytes (leaf_code raw) tn d) as [nb|e']; [discriminate|inversion Q; subst; reflexivity].
  - reflexivity.
Qed.

Lemma nres_bind : forall (A : Type) (a : res A) (k : A -> res skel),
  nres (bind a k) = bind a (fun x => nres (k x)).
Proof. intros A a k. destruct a; reflexivity. Qed.

(* ops_refine_docspec (one op, SET/DELETE/INC/APPEND/PREPEND/REMOVE_AT, any path, any value
   bytes): on a skeleton with scalar leaves the byte-level operation and the documented operation
   agree - same resulting document, or the same error class. *)
Theorem op_refines_docspec : forall s o segs,
  clean s -> op_kind o <= 5 ->
  nres (apply_op cfg_fixed s o segs) = doc_op (norm s) o segs.
Proof.
  intros s o segs Hc Hk. unfold apply_op, doc_op, check_value. simpl validate_values. cbv iota.
  set (v := op_value o) in *.
  destruct (op_kind o) as [|p]; [|destruct p as [[[|p|]|[|p|]|]|[[|p|]|[|p|]|]|]]; try lia;
    rewrite ?nres_bind; unfold bind;
    try (destruct v as [|c0 v0] eqn:Ev; [reflexivity|]);
    try (destruct (valid_value (c0 :: v0)); [|reflexivity]).
  all: try (apply walk_refines_dnav; [|exact Hc];
            first [apply hsim_set | apply hsim_delete | apply hsim_push | apply hsim_remove_at]).
  - (* REMOVE_AT *)
    destruct (last_is_index segs); [|reflexivity].
    apply walk_refines_dnav; [apply hsim_remove_at|exact Hc].
  - (* INC *)
    destruct (read_numeric (c0 :: v0)) as [d|e]; [|reflexivity].
    destruct d; try reflexivity; (apply walk_refines_dnav; [apply hsim_inc|exact Hc]).
Qed.

(* the hypothesis is satisfiable: the skeleton of a parsed body has scalar leaves, and the two
   sides really compute the same non-trivial document *)
Example op_refines_docspec_example :
  exists s, parse ex_body = Ok s /\ clean s /\
    nres (apply_op cfg_fixed s (ex_set [121; 46; 122] [147; 1; 2; 3]) [SegField [121]; SegField [122]]) =
    Ok (DMap [([120], DVal [1]); ([110], DVal [208; 127]);
              ([121], DMap [([122], DArr [DVal [1]; DVal [2]; DVal [3]])])]).
Proof.
  eexists. split; [vm_compute; reflexivity|]. split.
  - apply clean_map. repeat constructor.
  - vm_compute. reflexivity.
Qed.

(* what is not covered: a container inserted by an op is opaque to the later ops of the same
   patch - the byte-level code rejects the patch, the documented semantics accept it *)
Theorem ops_refine_docspec_refuted_for_container_then_navigate :
  exists body ops d,
    apply_with_cond cfg_fixed body ops None = Err EType /\
    decode body = Ok d /\ (exists d', doc_patch d ops None = Ok d').
Proof.
  exists ex_body, [ex_set [109] [129; 161; 98; 1]; ex_set [109; 46; 98] [2]].
  eexists. split; [vm_compute; reflexivity|]. split; [vm_compute; reflexivity|].
  eexists. vm_compute. reflexivity.
Qed.
