(* Patch/OpsProofs.v — theorems about the patch operations (C13):
   every successful patch of the repaired code yields a well-formed body; atomicity; INC keeps
   the target's type with the stated wrap; comparisons follow numeric order and NaN is unordered;
   the refutations for the code as found. *)
From Coq Require Import ZifyN ZifyNat ZifyBool Floats.SpecFloat.
From HV Require Import Base.Prelude Patch.Msgpack Patch.Path Patch.Float Patch.Ops Patch.Cond
  Patch.MsgpackProofs.
Local Open Scope N_scope.
Ltac Zify.zify_post_hook ::= Z.div_mod_to_equations.

Arguments firstn : simpl never.
Arguments skipn : simpl never.

(* ---- list helpers ---------------------------------------------------------------------------- *)
Lemma split_field_app : forall (V : Type) name (fs : list (bytes * V)) b v a,
  split_field name fs = Some (b, v, a) -> exists k, fs = b ++ (k, v) :: a /\ bytes_eqb k name = true.
Proof.
  intros V name fs. induction fs as [|[k x] t IH]; intros b v a H; simpl in H; [discriminate|].
  destruct (bytes_eqb k name) eqn:E.
  - inversion H; subst. exists k. split; [reflexivity|exact E].
  - destruct (split_field name t) as [[[b' v'] a']|] eqn:S; [|discriminate]. inversion H; subst.
    destruct (IH _ _ _ eq_refl) as [k' [Et Ek]]. exists k'. split; [simpl; rewrite Et; reflexivity|exact Ek].
Qed.

Lemma split_nth_app : forall (V : Type) n (xs : list V) b v a,
  split_nth n xs = Some (b, v, a) -> xs = b ++ v :: a.
Proof.
  intros V n xs. revert n. induction xs as [|x t IH]; intros n b v a H.
  - destruct n; simpl in H; discriminate.
  - destruct n as [|n']; simpl in H.
    + inversion H; subst. reflexivity.
    + destruct (split_nth n' t) as [[[b' v'] a']|] eqn:S; [|discriminate]. inversion H; subst.
      simpl. f_equal. eapply IH. exact S.
Qed.

(* ---- 1. the operations keep every leaf well-formed ----------------------------------------- *)
Definition FW (fs : fields) : Prop := Forall (fun kv => ktrue (fst kv) /\ leaves_wf (snd kv)) fs.
Definition AW (xs : list skel) : Prop := Forall leaves_wf xs.

Lemma lw_map : forall fs, leaves_wf (SMap fs) <-> FW fs.
Proof. intro fs. unfold leaves_wf, FW. rewrite skel_all_map. unfold ctrue. tauto. Qed.
Lemma lw_arr : forall xs, leaves_wf (SArr xs) <-> AW xs.
Proof. intro xs. unfold leaves_wf, AW. rewrite skel_all_arr. unfold ctrue. tauto. Qed.

Record handlers_wf (h : handlers) : Prop := {
  hw_missing : forall fs name rest fs', FW fs -> h_missing h fs name rest = Ok fs' -> FW fs';
  hw_field : forall b name v a fs', FW b -> leaves_wf v -> FW a -> h_field h b name v a = Ok fs' -> FW fs';
  hw_index : forall b v a xs', AW b -> leaves_wf v -> AW a -> h_index h b v a = Ok xs' -> AW xs';
  hw_append : forall xs xs', AW xs -> h_append h xs = Ok xs' -> AW xs'
}.

Lemma FW_entry : forall k v, leaves_wf v -> ktrue (fst (k, v)) /\ leaves_wf (snd (k, v)).
Proof. intros. split; [exact I|assumption]. Qed.

Lemma walk_wf : forall h, handlers_wf h -> forall segs cur s',
  leaves_wf cur -> walk h segs cur = Ok s' -> leaves_wf s'.
Proof.
  intros h Hh segs. induction segs as [|sg rest IH]; intros cur s' Hc H; simpl in H; [discriminate|].
  destruct sg as [name|i|].
  - destruct cur as [raw|fs|xs]; try discriminate. apply lw_map in Hc.
    destruct (split_field name fs) as [[[b v] a]|] eqn:S.
    + apply split_field_app in S as [k [Efs _]]. subst fs. unfold FW in Hc.
      apply Forall_app in Hc as [Hb Ha]. inversion Ha as [|? ? [_ Hv] Ha']; subst.
      destruct rest as [|sg2 rest2].
      * unfold bind in H. destruct (h_field h b name v a) as [fs'|e] eqn:E; [|discriminate].
        inversion H; subst. apply lw_map. exact (hw_field h Hh b name v a fs' Hb Hv Ha' E).
      * unfold bind in H. destruct (walk h (sg2 :: rest2) v) as [v'|e] eqn:E; [|discriminate].
        inversion H; subst. apply lw_map. unfold FW. apply Forall_app. split; [exact Hb|].
        constructor; [apply FW_entry; eapply IH; [exact Hv|exact E]|exact Ha'].
    + unfold bind in H. destruct (h_missing h fs name rest) as [fs'|e] eqn:E; [|discriminate].
      inversion H; subst. apply lw_map. exact (hw_missing h Hh fs name rest fs' Hc E).
  - destruct cur as [raw|fs|xs]; try discriminate. apply lw_arr in Hc.
    destruct (resolve_index i (length xs)) as [idx|]; [|discriminate].
    destruct (split_nth idx xs) as [[[b v] a]|] eqn:S; [|discriminate].
    apply split_nth_app in S. subst xs. unfold AW in Hc.
    apply Forall_app in Hc as [Hb Ha]. inversion Ha as [|? ? Hv Ha']; subst.
    destruct rest as [|sg2 rest2].
    + unfold bind in H. destruct (h_index h b v a) as [xs'|e] eqn:E; [|discriminate].
      inversion H; subst. apply lw_arr. exact (hw_index h Hh b v a xs' Hb Hv Ha' E).
    + unfold bind in H. destruct (walk h (sg2 :: rest2) v) as [v'|e] eqn:E; [|discriminate].
      inversion H; subst. apply lw_arr. unfold AW. apply Forall_app. split; [exact Hb|].
      constructor; [eapply IH; [exact Hv|exact E]|exact Ha'].
  - destruct rest; [|discriminate]. destruct cur as [raw|fs|xs]; try discriminate. apply lw_arr in Hc.
    unfold bind in H. destruct (h_append h xs) as [xs'|e] eqn:E; [|discriminate].
    inversion H; subst. apply lw_arr. exact (hw_append h Hh xs xs' Hc E).
Qed.

Lemma chain_wf : forall ns v, leaves_wf v -> leaves_wf (chain ns v).
Proof.
  induction ns as [|n t IH]; intros v H; simpl; [exact H|].
  apply lw_map. constructor; [apply FW_entry; apply IH; exact H|constructor].
Qed.

Lemma FW_snoc : forall fs k v, FW fs -> leaves_wf v -> FW (fs ++ [(k, v)]).
Proof. intros. apply Forall_app. split; [assumption|]. constructor; [apply FW_entry; assumption|constructor]. Qed.

Lemma FW_put : forall b k v a, FW b -> leaves_wf v -> FW a -> FW (b ++ (k, v) :: a).
Proof. intros. apply Forall_app. split; [assumption|]. constructor; [apply FW_entry; assumption|assumption]. Qed.

Lemma AW_put : forall b v a, AW b -> leaves_wf v -> AW a -> AW (b ++ v :: a).
Proof. intros. apply Forall_app. split; [assumption|]. constructor; assumption. Qed.

Lemma create_fields_wf : forall fs name rest v fs',
  FW fs -> leaves_wf v -> create_fields fs name rest v = Ok fs' -> FW fs'.
Proof.
  unfold create_fields. intros fs name rest v fs' Hf Hv H. destruct (field_names rest); [|discriminate].
  inversion H; subst. apply FW_snoc; [exact Hf|apply chain_wf; exact Hv].
Qed.

Lemma leaf_wf : forall v, WF v -> leaves_wf (SLeaf v).
Proof. intros v H. exact H. Qed.

Lemma h_set_wf : forall v, WF v -> handlers_wf (h_set v).
Proof.
  intros v Hv. constructor; simpl.
  - intros. eapply create_fields_wf; eauto. apply leaf_wf; exact Hv.
  - intros b name t a fs' Hb _ Ha H. inversion H; subst. apply FW_put; auto.
  - intros b t a xs' Hb _ Ha H. inversion H; subst. apply AW_put; auto.
  - intros; discriminate.
Qed.

Lemma h_delete_wf : handlers_wf h_delete.
Proof.
  constructor; simpl.
  - intros fs name rest fs' Hf H. inversion H; subst. exact Hf.
  - intros b name t a fs' Hb _ Ha H. inversion H; subst. apply Forall_app. split; assumption.
  - intros b t a xs' Hb _ Ha H. inversion H; subst. apply Forall_app. split; assumption.
  - intros xs xs' Hx H. inversion H; subst. exact Hx.
Qed.

Lemma h_remove_at_wf : handlers_wf h_remove_at.
Proof.
  constructor; simpl; try (intros; discriminate).
  - intros b name t a fs' Hb _ Ha H. inversion H; subst. apply Forall_app. split; assumption.
  - intros b t a xs' Hb _ Ha H. inversion H; subst. apply Forall_app. split; assumption.
Qed.

(* the re-encoded INC result is a well-formed scalar *)
Lemma inc_bytes_WF : forall code t d nb, inc_bytes code t d = Ok nb -> WF nb.
Proof.
  intros code t d nb H. unfold inc_bytes in H.
  destruct t, d; try discriminate; inversion H; subst; clear H.
  - unfold enc_int. repeat match goal with |- context [if ?x then _ else _] => destruct x end;
      (apply WF_scalar; [exact I|reflexivity]).
  - unfold enc_uint. repeat match goal with |- context [if ?x then _ else _] => destruct x end;
      (apply WF_scalar; [exact I|reflexivity]).
  - unfold enc_float. repeat match goal with |- context [if ?x then _ else _] => destruct x end;
      (apply WF_scalar; [exact I|reflexivity]).
Qed.

Lemma inc_target_wf : forall t d t', inc_target t d = Ok t' -> leaves_wf t'.
Proof.
  unfold inc_target. intros t d t' H. destruct t as [raw| |]; try discriminate.
  unfold bind in H. destruct (read_numeric raw) as [tn|e]; [|discriminate].
  destruct (num_class_of tn =? num_class_of d); [|discriminate].
  destruct (inc_bytes (leaf_code raw) tn d) as [nb|e] eqn:E; [|discriminate].
  inversion H; subst. apply leaf_wf. eapply inc_bytes_WF; exact E.
Qed.

Lemma h_inc_wf : forall v d, WF v -> handlers_wf (h_inc v d).
Proof.
  intros v d Hv. constructor; simpl.
  - intros. eapply create_fields_wf; eauto. apply leaf_wf; exact Hv.
  - intros b name t a fs' Hb _ Ha H. unfold bind in H.
    destruct (inc_target t d) as [t'|e] eqn:E; [|discriminate]. inversion H; subst.
    apply FW_put; auto. eapply inc_target_wf; exact E.
  - intros b t a xs' Hb _ Ha H. unfold bind in H.
    destruct (inc_target t d) as [t'|e] eqn:E; [|discriminate]. inversion H; subst.
    apply AW_put; auto. eapply inc_target_wf; exact E.
  - intros; discriminate.
Qed.

Lemma h_append_wf : forall v p, WF v -> handlers_wf (h_append_op v p).
Proof.
  intros v p Hv. constructor; simpl; try (intros; discriminate).
  - intros fs name rest fs' Hf H. unfold create_array in H.
    destruct (rev rest) as [|[| |] ri]; try discriminate.
    destruct (field_names (rev ri)); [|discriminate]. inversion H; subst.
    apply FW_snoc; [exact Hf|]. apply chain_wf. apply lw_arr. constructor; [apply leaf_wf; exact Hv|constructor].
  - intros xs xs' Hx H. inversion H; subst. destruct p.
    + constructor; [apply leaf_wf; exact Hv|exact Hx].
    + apply Forall_app. split; [exact Hx|]. constructor; [apply leaf_wf; exact Hv|constructor].
Qed.

Lemma remove_val_wf : forall v xs, AW xs -> AW (remove_val v xs).
Proof.
  intros v xs H. induction H as [|x t Hx Ht IH]; simpl; [constructor|].
  destruct x as [raw| |]; try (constructor; assumption).
  destruct (bytes_eqb raw v); [exact Ht|constructor; assumption].
Qed.

Lemma h_remove_val_wf : forall v, handlers_wf (h_remove_val v).
Proof.
  intro v. constructor; simpl.
  - intros fs name rest fs' Hf H. inversion H; subst. exact Hf.
  - intros b name t a fs' Hb Ht Ha H. unfold bind, remove_val_target in H.
    destruct t as [| |xs]; try discriminate. inversion H; subst.
    apply FW_put; auto. apply lw_arr. apply remove_val_wf. apply lw_arr. exact Ht.
  - intros b t a xs' Hb Ht Ha H. unfold bind, remove_val_target in H.
    destruct t as [| |xs]; try discriminate. inversion H; subst.
    apply AW_put; auto. apply lw_arr. apply remove_val_wf. apply lw_arr. exact Ht.
  - intros xs xs' Hx H. inversion H; subst. exact Hx.
Qed.

Definition PW (pfs : list (bytes * bytes)) : Prop := Forall (fun kv => WF (snd kv)) pfs.

Lemma merge_into_wf : forall pfs target, PW pfs -> FW target -> FW (merge_into target pfs).
Proof.
  induction pfs as [|[k v] t IH]; intros target Hp Ht; simpl; [exact Ht|].
  inversion Hp; subst. destruct (split_field k target) as [[[b x] a]|] eqn:S.
  - apply IH; [assumption|]. apply split_field_app in S as [k' [E _]]. subst target.
    apply Forall_app in Ht as [Hb Ha]. inversion Ha; subst. apply FW_put; auto.
  - apply IH; [assumption|]. apply FW_snoc; auto.
Qed.

Lemma extract_fields_wf : forall v pfs, extract_fields v = Ok pfs -> PW pfs.
Proof.
  unfold extract_fields. intros v pfs H. destruct v as [|c r]; [discriminate|].
  destruct (is_map_code c); [|discriminate]. destruct (lead_shape c); try discriminate.
  destruct (read_count w c r) as [[n r']|]; [|discriminate].
  destruct (parse_many extract_field (clamp n r') r') as [[l rest]|e] eqn:PM; [|discriminate].
  destruct (n <=? N.of_nat (length r')); [|discriminate]. inversion H; subst.
  eapply parse_many_all; [|exact PM]. intros b [k x] r1 E. unfold extract_field in E.
  destruct (parse_key b) as [[k0 rk]|e]; [|discriminate].
  destruct (skip (S (length rk)) rk) as [r2|] eqn:SK; [|discriminate]. inversion E; subst. simpl.
  apply skip_sound in SK as [w0 [Er Ww]]. subst rk. rewrite app_length.
  replace (length w0 + length r1 - length r1)%nat with (length w0) by lia.
  rewrite firstn_app. rewrite Nat.sub_diag. rewrite firstn_all. change (firstn 0 r1) with (@nil N).
  rewrite app_nil_r. exact Ww.
Qed.

Lemma h_merge_wf : forall pfs, PW pfs -> handlers_wf (h_merge pfs).
Proof.
  intros pfs Hp. constructor; simpl.
  - intros. eapply create_fields_wf; eauto. apply lw_map. apply merge_into_wf; [exact Hp|constructor].
  - intros b name t a fs' Hb Ht Ha H. unfold bind, merge_target in H.
    destruct t as [|fs|]; try discriminate. inversion H; subst.
    apply FW_put; auto. apply lw_map. apply merge_into_wf; [exact Hp|apply lw_map; exact Ht].
  - intros b t a xs' Hb Ht Ha H. unfold bind, merge_target in H.
    destruct t as [|fs|]; try discriminate. inversion H; subst.
    apply AW_put; auto. apply lw_map. apply merge_into_wf; [exact Hp|apply lw_map; exact Ht].
  - intros; discriminate.
Qed.

Lemma check_value_WF : forall v, check_value cfg_fixed v = Ok tt -> WF v.
Proof.
  unfold check_value. simpl. intros v H. destruct (valid_value v) eqn:E; [|discriminate].
  apply valid_value_WF. exact E.
Qed.

Lemma apply_op_wf : forall s o segs s',
  leaves_wf s -> apply_op cfg_fixed s o segs = Ok s' -> leaves_wf s'.
Proof.
  intros s o segs s' Hs H. unfold apply_op in H.
  set (v := op_value o) in *.
  destruct (op_kind o) as [|p]; [|destruct p as [[[|p|]|[|p|]|]|[[|p|]|[|p|]|]|]]; try discriminate;
    unfold bind in H;
    repeat match type of H with
           | match (match v with [] => _ | _ :: _ => _ end) with _ => _ end = _ => destruct v eqn:Ev; [discriminate|]
           | match check_value cfg_fixed ?x with _ => _ end = _ =>
               let E := fresh "CV" in destruct (check_value cfg_fixed x) as [[]|] eqn:E; [apply check_value_WF in E|discriminate]
           end.
  all: try solve [ refine (walk_wf _ _ _ _ _ Hs H);
                   first [apply h_set_wf; assumption | apply h_delete_wf | apply h_append_wf; assumption
                         | apply h_remove_val_wf] ].
  all: try solve [ destruct (last_is_index segs); [|discriminate];
                   refine (walk_wf _ _ _ _ _ Hs H); apply h_remove_at_wf ].
  all: try solve [ destruct (read_numeric _) as [d|e]; [|discriminate];
                   destruct d; try discriminate;
                   (refine (walk_wf _ _ _ _ _ Hs H); apply h_inc_wf; assumption) ].
  all: try solve [ destruct (extract_fields _) as [pfs|e] eqn:EF; [|discriminate];
                   refine (walk_wf _ _ _ _ _ Hs H); apply h_merge_wf; eapply extract_fields_wf; exact EF ].
Qed.

Lemma apply_ops_wf : forall ops s s',
  leaves_wf s -> apply_ops cfg_fixed s ops = Ok s' -> leaves_wf s'.
Proof.
  induction ops as [|o t IH]; intros s s' Hs H; simpl in H.
  - inversion H; subst. exact Hs.
  - destruct (parse_path (op_path o)) as [segs|]; [|discriminate]. unfold bind in H.
    destruct (apply_op cfg_fixed s o segs) as [s1|e] eqn:E; [|discriminate].
    eapply IH; [|exact H]. eapply apply_op_wf; [exact Hs|exact E].
Qed.

(* C13_success_wellformed: a reported success of the repaired code is the serialisation of a
   skeleton whose leaves are all well-formed msgpack values; if moreover no container of the
   result has 2^32 or more children and no key 2^32 or more bytes (the encoder's uint32
   truncation), the output is one well-formed msgpack value. *)
Theorem success_wellformed : forall body ops cd out,
  apply_with_cond cfg_fixed body ops cd = Ok out ->
  exists s', out = serialize s' /\ leaves_wf s' /\ (small s' -> WF out).
Proof.
  unfold apply_with_cond, bind. intros body ops cd out H.
  destruct (parse body) as [s|e] eqn:P; [|discriminate].
  destruct (match cd with Some x => eval_cond cfg_fixed s x | None => Ok tt end) as [u|e]; [|discriminate].
  destruct (apply_ops cfg_fixed s ops) as [s'|e] eqn:A; [|discriminate].
  inversion H; subst. exists s'. split; [reflexivity|].
  assert (L : leaves_wf s') by (eapply apply_ops_wf; [eapply parse_leaves_wf; exact P|exact A]).
  split; [exact L|]. intro Sm. apply serialize_WF. apply skel_ok_intro; assumption.
Qed.

Definition ex_body : bytes := [130; 161; 120; 1; 161; 110; 208; 127].   (* {x: 1, n: int8 127} *)
Definition ex_set (p v : bytes) : op := {| op_kind := 0; op_path := p; op_value := v |}.

(* the hypotheses are satisfiable, non-trivially *)
Example success_wellformed_example :
  apply_with_cond cfg_fixed ex_body [ex_set [121] [161; 97]] None
  = Ok [131; 161; 120; 1; 161; 110; 208; 127; 161; 121; 161; 97].
Proof. vm_compute. reflexivity. Qed.

(* the code as found: SET x <0xc1> succeeds and the stored body is no longer msgpack *)
Theorem success_wellformed_refuted_without_validation :
  exists body ops out,
    apply_with_cond cfg_orig body ops None = Ok out /\ valid_value body = true /\ valid_value out = false.
Proof.
  exists ex_body, [ex_set [120] [193]], [130; 161; 120; 193; 161; 110; 208; 127].
  vm_compute. repeat split; reflexivity.
Qed.

(* and the repaired code rejects that value *)
Example malformed_value_rejected :
  apply_with_cond cfg_fixed ex_body [ex_set [120] [193]] None = Err EInvalid /\
  apply_with_cond cfg_fixed ex_body [ex_set [120] [165; 97; 98]] None = Err EInvalid /\
  apply_with_cond cfg_fixed ex_body [ex_set [120] [1; 2]] None = Err EInvalid.
Proof. vm_compute. repeat split; reflexivity. Qed.

(* ---- 2. atomicity ----------------------------------------------------------------------------- *)
(* swamp.PatchFields: the stored body is replaced only when ApplyWithCondition succeeds *)
Definition patch_fields (c : cfg) (stored : bytes) (ops : list op) (cd : option cond) : (N * bytes) :=
  match apply_with_cond c stored ops cd with
  | Ok out => (0, out)
  | Err e => (err_code e, stored)
  end.

Theorem atomic_on_failure : forall c stored ops cd,
  fst (patch_fields c stored ops cd) <> 0 -> snd (patch_fields c stored ops cd) = stored.
Proof.
  intros c stored ops cd. unfold patch_fields. destruct (apply_with_cond c stored ops cd); simpl; [congruence|reflexivity].
Qed.

(* a failing op anywhere in the list, or an unmet/failing condition, fails the whole patch,
   whatever the earlier ops did *)
Lemma apply_ops_app : forall c ops1 ops2 s,
  apply_ops c s (ops1 ++ ops2) = (s1 <- apply_ops c s ops1 ;; apply_ops c s1 ops2).
Proof.
  induction ops1 as [|o t IH]; intros ops2 s; simpl; [reflexivity|].
  destruct (parse_path (op_path o)); [|reflexivity]. unfold bind.
  destruct (apply_op c s o l); [apply IH|reflexivity].
Qed.

Theorem failing_op_fails_patch : forall c body ops1 o ops2 cd s s1 e,
  parse body = Ok s ->
  apply_ops c s ops1 = Ok s1 ->
  apply_ops c s1 [o] = Err e ->
  exists e', apply_with_cond c body (ops1 ++ o :: ops2) cd = Err e'.
Proof.
  intros c body ops1 o ops2 cd s s1 e P A1 Ao. unfold apply_with_cond, bind. rewrite P.
  destruct (match cd with Some x => eval_cond c s x | None => Ok tt end); [|eexists; reflexivity].
  rewrite apply_ops_app. unfold bind. rewrite A1.
  change (o :: ops2) with ([o] ++ ops2). rewrite apply_ops_app. unfold bind. rewrite Ao.
  eexists; reflexivity.
Qed.

Theorem unmet_condition_fails_patch : forall c body ops cd s e,
  parse body = Ok s -> eval_cond c s cd = Err e ->
  apply_with_cond c body ops (Some cd) = Err e.
Proof. intros c body ops cd s e P E. unfold apply_with_cond, bind. rewrite P, E. reflexivity. Qed.

Example atomic_example :
  patch_fields cfg_fixed ex_body [ex_set [121] [1]; ex_set [120; 46; 122] [2]] None = (4, ex_body).
Proof. vm_compute. reflexivity. Qed.

(* ---- 3. INC keeps the target's type; the wrap is stated ------------------------------------- *)
Definition width_bits (code : N) : nat :=
  if (code =? 204) || (code =? 208) then 8%nat
  else if (code =? 205) || (code =? 209) then 16%nat
  else if (code =? 206) || (code =? 210) then 32%nat
  else 64%nat.

(* a sized integer / float code is kept; a fixint target is widened to the 64-bit code of its class *)
Definition inc_result_code (code : N) : N :=
  if in_range 202 211 code then code
  else if is_posfix code then 207
  else 211.

Lemma be_val_be8 : forall n, n < 18446744073709551616 -> be_val 0 (be8 n) = n.
Proof. intros n H. unfold be8, be4. simpl. lia. Qed.

Lemma be_val_1 : forall x, be_val 0 [x] = x.
Proof. intro x. simpl. lia. Qed.

Lemma be_val_be2' : forall n, n < 65536 -> be_val 0 (be2 n) = n.
Proof. intros n H. unfold be2. simpl. lia. Qed.

Lemma be_val_be4' : forall n, n < 4294967296 -> be_val 0 (be4 n) = n.
Proof. intros n H. unfold be4. simpl. lia. Qed.

Lemma z_mod_pow_lt : forall z b, z_mod_pow z b < 2 ^ N.of_nat b.
Proof.
  intros z b. unfold z_mod_pow.
  assert (0 < 2 ^ Z.of_nat b)%Z by (apply Z.pow_pos_nonneg; lia).
  pose proof (Z.mod_pos_bound z (2 ^ Z.of_nat b) H) as B.
  apply N2Z.inj_lt. rewrite Z2N.id by lia. rewrite N2Z.inj_pow. rewrite nat_N_Z. simpl Z.of_N. lia.
Qed.

(* the int result: same code for int8/16/32/64, value = two's-complement wrap of the exact sum
   at that width; fixint targets come back as int64 *)
Theorem inc_int_type_and_wrap : forall code a b nb,
  inc_bytes code (NInt a) (NInt b) = Ok nb ->
  let rc := if in_range 208 210 code then code else 211 in
  leaf_code nb = rc /\
  read_numeric nb = Ok (NInt (signed (width_bits rc) (z_mod_pow (a + b) (width_bits rc)))).
Proof.
  intros code a b nb H. simpl in H. inversion H; subst; clear H. unfold enc_int, in_range.
  destruct (code =? 208) eqn:E8; [apply N.eqb_eq in E8; subst; split; [reflexivity|] |].
  { unfold read_numeric. change (num_class 208) with 1. change (is_negfix 208) with false. change (208 =? 208) with true.
    cbv iota beta. unfold take. simpl length. simpl Nat.leb. cbv iota.
    change (firstn 1 [z_mod_pow (a + b) 8]) with [z_mod_pow (a + b) 8]. rewrite be_val_1. reflexivity. }
  destruct (code =? 209) eqn:E16; [apply N.eqb_eq in E16; subst; split; [reflexivity|] |].
  { unfold read_numeric. change (num_class 209) with 1. change (is_negfix 209) with false.
    change (209 =? 208) with false. change (209 =? 209) with true. cbv iota beta.
    unfold take. unfold be2. simpl length. simpl Nat.leb. cbv iota.
    match goal with |- context [firstn 2 ?l] => change (firstn 2 l) with (be2 (z_mod_pow (a + b) 16)) end.
    rewrite be_val_be2' by apply (z_mod_pow_lt _ 16). reflexivity. }
  destruct (code =? 210) eqn:E32; [apply N.eqb_eq in E32; subst; split; [reflexivity|] |].
  { unfold read_numeric. change (num_class 210) with 1. change (is_negfix 210) with false.
    change (210 =? 208) with false. change (210 =? 209) with false. change (210 =? 210) with true. cbv iota beta.
    unfold take. unfold be4. simpl length. simpl Nat.leb. cbv iota.
    match goal with |- context [firstn 4 ?l] => change (firstn 4 l) with (be4 (z_mod_pow (a + b) 32)) end.
    rewrite be_val_be4' by apply (z_mod_pow_lt _ 32). reflexivity. }
  assert (R : (if (208 <=? code) && (code <=? 210) then code else 211) = 211).
  { destruct ((208 <=? code) && (code <=? 210)) eqn:R; [|reflexivity]. lia. }
  rewrite R. split; [reflexivity|].
  unfold read_numeric. change (num_class 211) with 1. change (is_negfix 211) with false.
  change (211 =? 208) with false. change (211 =? 209) with false. change (211 =? 210) with false. cbv iota beta.
  unfold take. unfold be8, be4. simpl length. simpl Nat.leb. cbv iota.
  match goal with |- context [firstn 8 ?l] => change (firstn 8 l) with (be8 (z_mod_pow (a + b) 64)) end.
  rewrite be_val_be8 by apply (z_mod_pow_lt _ 64). reflexivity.
Qed.

(* the uint result: same code for uint8/16/32/64, value = sum modulo 2^width; positive fixint
   targets come back as uint64 *)
Theorem inc_uint_type_and_wrap : forall code a b nb,
  inc_bytes code (NUint a) (NUint b) = Ok nb ->
  let rc := if in_range 204 206 code then code else 207 in
  leaf_code nb = rc /\ read_numeric nb = Ok (NUint ((a + b) mod 2 ^ N.of_nat (width_bits rc))).
Proof.
  intros code a b nb H. simpl in H. inversion H; subst; clear H. unfold enc_uint, in_range.
  destruct (code =? 204) eqn:E8; [apply N.eqb_eq in E8; subst; split; [reflexivity|] |].
  { unfold read_numeric. change (num_class 204) with 2. change (is_posfix 204) with false. change (204 =? 204) with true.
    cbv iota beta. unfold take. simpl length. simpl Nat.leb. cbv iota.
    match goal with |- context [firstn 1 ?l] => change (firstn 1 l) with [(a + b) mod 256] end.
    rewrite be_val_1. reflexivity. }
  destruct (code =? 205) eqn:E16; [apply N.eqb_eq in E16; subst; split; [reflexivity|] |].
  { unfold read_numeric. change (num_class 205) with 2. change (is_posfix 205) with false.
    change (205 =? 204) with false. change (205 =? 205) with true. cbv iota beta.
    unfold take. unfold be2. simpl length. simpl Nat.leb. cbv iota.
    match goal with |- context [firstn 2 ?l] => change (firstn 2 l) with (be2 ((a + b) mod 65536)) end.
    rewrite be_val_be2' by (apply N.mod_lt; lia). reflexivity. }
  destruct (code =? 206) eqn:E32; [apply N.eqb_eq in E32; subst; split; [reflexivity|] |].
  { unfold read_numeric. change (num_class 206) with 2. change (is_posfix 206) with false.
    change (206 =? 204) with false. change (206 =? 205) with false. change (206 =? 206) with true. cbv iota beta.
    unfold take. unfold be4. simpl length. simpl Nat.leb. cbv iota.
    match goal with |- context [firstn 4 ?l] => change (firstn 4 l) with (be4 ((a + b) mod 4294967296)) end.
    rewrite be_val_be4' by (apply N.mod_lt; lia). reflexivity. }
  assert (R : (if (204 <=? code) && (code <=? 206) then code else 207) = 207).
  { destruct ((204 <=? code) && (code <=? 206)) eqn:R; [|reflexivity]. lia. }
  rewrite R. split; [reflexivity|].
  unfold read_numeric. change (num_class 207) with 2. change (is_posfix 207) with false.
  change (207 =? 204) with false. change (207 =? 205) with false. change (207 =? 206) with false. cbv iota beta.
  unfold take. unfold be8, be4. simpl length. simpl Nat.leb. cbv iota.
  match goal with |- context [firstn 8 ?l] => change (firstn 8 l) with (be8 ((a + b) mod 18446744073709551616)) end.
  rewrite be_val_be8 by (apply N.mod_lt; lia). reflexivity.
Qed.

(* the float result keeps float32 / float64 *)
Theorem inc_float_type : forall code a b nb,
  inc_bytes code (NFloat a) (NFloat b) = Ok nb ->
  leaf_code nb = (if code =? 202 then 202 else 203).
Proof.
  intros code a b nb H. simpl in H. inversion H; subst. unfold enc_float. destruct (code =? 202); reflexivity.
Qed.

(* the wrap is real: int8 127 + 1 = int8 -128, reported as success *)
Example inc_int8_wraps :
  apply_with_cond cfg_fixed ex_body [{| op_kind := 2; op_path := [110]; op_value := [208; 1] |}] None
  = Ok [130; 161; 120; 1; 161; 110; 208; 128].
Proof. vm_compute. reflexivity. Qed.

(* "keeps the target's numeric type" does not hold for fixint targets: 0x01 + 1 = uint64 2 *)
Theorem inc_keeps_code_refuted_for_fixint :
  exists body ops out, apply_with_cond cfg_fixed body ops None = Ok out /\
    body = [129; 161; 120; 1] /\ out = [129; 161; 120; 207; 0; 0; 0; 0; 0; 0; 0; 2].
Proof.
  exists [129; 161; 120; 1], [{| op_kind := 2; op_path := [120]; op_value := [1] |}],
         [129; 161; 120; 207; 0; 0; 0; 0; 0; 0; 0; 2].
  vm_compute. repeat split; reflexivity.
Qed.

(* ---- 4. comparisons follow numeric order; NaN equals nothing -------------------------------- *)
Theorem compare_int_order : forall c a b x y, a <> [] -> b <> [] ->
  read_numeric a = Ok (NInt x) -> read_numeric b = Ok (NInt y) ->
  compare_leaf c a b = Ok (of_comparison (x ?= y)%Z).
Proof.
  intros c a b x y Ha Hb Ra Rb. unfold compare_leaf. destruct a; [congruence|]. destruct b; [congruence|].
  rewrite Ra, Rb. reflexivity.
Qed.

Theorem compare_uint_order : forall c a b x y, a <> [] -> b <> [] ->
  read_numeric a = Ok (NUint x) -> read_numeric b = Ok (NUint y) ->
  compare_leaf c a b = Ok (of_comparison (x ?= y)).
Proof.
  intros c a b x y Ha Hb Ra Rb. unfold compare_leaf. destruct a; [congruence|]. destruct b; [congruence|].
  rewrite Ra, Rb. reflexivity.
Qed.

(* floats: IEEE order (SFcompare) when neither is NaN; with a NaN operand the result is
   "unordered" and only NOT_EQUAL is met *)
Theorem compare_float_order : forall a b x y, a <> [] -> b <> [] ->
  read_numeric a = Ok (NFloat x) -> read_numeric b = Ok (NFloat y) ->
  compare_leaf cfg_fixed a b =
    Ok (match SFcompare x y with Some r => of_comparison r | None => CUnord end) /\
  (sf_is_nan x = true \/ sf_is_nan y = true -> compare_leaf cfg_fixed a b = Ok CUnord).
Proof.
  intros a b x y Ha Hb Ra Rb. unfold compare_leaf. destruct a; [congruence|]. destruct b; [congruence|].
  rewrite Ra, Rb. simpl. unfold float_cmp, sf64_compare. split; [reflexivity|].
  intros [N|N]; destruct x, y; simpl in N; try discriminate; reflexivity.
Qed.

Theorem unordered_only_not_equal : forall cop,
  cond_met cop CUnord = Some true <-> cop = 1.
Proof.
  intro cop. split.
  - destruct cop as [|p]; simpl; [discriminate|].
    destruct p as [[[|p|]|[|p|]|]|[[|p|]|[|p|]|]|]; simpl; try discriminate; reflexivity.
  - intro; subst. reflexivity.
Qed.

Definition nan64 : bytes := [203; 127; 248; 0; 0; 0; 0; 0; 0].
Definition nan_body : bytes := [129; 161; 102] ++ nan64.          (* {f: NaN} *)
Definition nan_cond (cop : N) : cond := {| cond_path := [102]; cond_op := cop; cond_threshold := nan64 |}.

(* the code as found: NaN EQUAL NaN is met and NaN NOT_EQUAL NaN is not *)
Theorem numeric_order_refuted_for_nan_before_fix :
  apply_with_cond cfg_orig nan_body [] (Some (nan_cond 0)) = Ok nan_body /\
  apply_with_cond cfg_orig nan_body [] (Some (nan_cond 1)) = Err ECondNotMet.
Proof. vm_compute. split; reflexivity. Qed.

Example nan_equals_nothing_after_fix :
  apply_with_cond cfg_fixed nan_body [] (Some (nan_cond 0)) = Err ECondNotMet /\
  apply_with_cond cfg_fixed nan_body [] (Some (nan_cond 1)) = Ok nan_body /\
  apply_with_cond cfg_fixed nan_body [] (Some (nan_cond 3)) = Err ECondNotMet /\
  apply_with_cond cfg_fixed nan_body [] (Some (nan_cond 5)) = Err ECondNotMet.
Proof. vm_compute. repeat split; reflexivity. Qed.

(* later ops of a patch see what earlier ops wrote: SET n := int32 1000 then INC n by int8 1 on a
   body where n was int8 5 gives int32 1001 (the code of the value just stored, not the
   pre-patch one); uint8 7, SET int16 256, INC int8 -1 gives int16 255 *)
Example inc_after_set_uses_the_stored_type :
  apply_with_cond cfg_fixed [129; 161; 110; 208; 5]
    [ex_set [110] [210; 0; 0; 3; 232]; {| op_kind := 2; op_path := [110]; op_value := [208; 1] |}] None
  = Ok [129; 161; 110; 210; 0; 0; 3; 233] /\
  apply_with_cond cfg_fixed [129; 161; 110; 204; 7]
    [ex_set [110] [209; 1; 0]; {| op_kind := 2; op_path := [110]; op_value := [208; 255] |}] None
  = Ok [129; 161; 110; 209; 0; 255].
Proof. vm_compute. split; reflexivity. Qed.
