From HV Require Import Base.Prelude Patch.Msgpack.
