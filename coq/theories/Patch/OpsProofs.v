(* Patch/OpsProofs.v — theorems about the patch operations (C13):
   every successful patch of the repaired code yields a well-formed body; atomicity; INC keeps
   the target's type with the stated wrap; comparisons follow numeric order and NaN is unordered;
   the refutations for the code as found. *)
From Coq Require Import ZifyN ZifyNat ZifyBool Floats.SpecFloat.
From HV Require Import Base.Prelude Patch.Msgpack Patch.Path Patch.Float Patch.Ops Patch.Cond
  Patch.MsgpackProofs.
Local Open Scope N_scope.
Ltac Zify.zify_post_hook ::= Z.div_mod_to_equations.

Arguments firstn : simpl never.
Arguments skipn : simpl never.

(* ---- list helpers ---------------------------------------------------------------------------- *)
Lemma split_field_app : forall (V : Type) name (fs : list (bytes * V)) b v a,
  split_field name fs = Some (b, v, a) -> exists k, fs = b ++ (k, v) :: a /\ bytes_eqb k name = true.
Proof.
  intros V name fs. induction fs as [|[k x] t IH]; intros b v a H; simpl in H; [discriminate|].
  destruct (bytes_eqb k name) eqn:E.
  - inversion H; subst. exists k. split; [reflexivity|exact E].
  - destruct (split_field name t) as [[[b' v'] a']|] eqn:S; [|discriminate]. inversion H; subst.
    destruct (IH _ _ _ eq_refl) as [k' [Et Ek]]. exists k'. split; [simpl; rewrite Et; reflexivity|exact Ek].
Qed.

Lemma split_nth_app : forall (V : Type) n (xs : list V) b v a,
  split_nth n xs = Some (b, v, a) -> xs = b ++ v :: a.
Proof.
  intros V n xs. revert n. induction xs as [|x t IH]; intros n b v a H.
  - destruct n; simpl in H; discriminate.
  - destruct n as [|n']; simpl in H.
    + inversion H; subst. reflexivity.
    + destruct (split_nth n' t) as [[[b' v'] a']|] eqn:S; [|discriminate]. inversion H; subst.
      simpl. f_equal. eapply IH. exact S.
Qed.

(* ---- 1. the operations keep every leaf well-formed ----------------------------------------- *)
Definition FW (fs : fields) : Prop := Forall (fun kv => ktrue (fst kv) /\ leaves_wf (snd kv)) fs.
Definition AW (xs : list skel) : Prop := Forall leaves_wf xs.

Lemma lw_map : forall fs, leaves_wf (SMap fs) <-> FW fs.
Proof. intro fs. unfold leaves_wf, FW. rewrite skel_all_map. unfold ctrue. tauto. Qed.
Lemma lw_arr : forall xs, leaves_wf (SArr xs) <-> AW xs.
Proof. intro xs. unfold leaves_wf, AW. rewrite skel_all_arr. unfold ctrue. tauto. Qed.

Record handlers_wf (h : handlers) : Prop := {
  hw_missing : forall fs name rest fs', FW fs -> h_missing h fs name rest = Ok fs' -> FW fs';
  hw_field : forall b name v a fs', FW b -> leaves_wf v -> FW a -> h_field h b name v a = Ok fs' -> FW fs';
  hw_index : forall b v a xs', AW b -> leaves_wf v -> AW a -> h_index h b v a = Ok xs' -> AW xs';
  hw_append : forall xs xs', AW xs -> h_append h xs = Ok xs' -> AW xs'
}.

Lemma FW_entry : forall k v, leaves_wf v -> ktrue (fst (k, v)) /\ leaves_wf (snd (k, v)).
Proof. intros. split; [exact I|assumption]. Qed.

Lemma walk_wf : forall h, handlers_wf h -> forall segs cur s',
  leaves_wf cur -> walk h segs cur = Ok s' -> leaves_wf s'.
Proof.
  intros h Hh segs. induction segs as [|sg rest IH]; intros cur s' Hc H; simpl in H; [discriminate|].
  destruct sg as [name|i|].
  - destruct cur as [raw|fs|xs]; try discriminate. apply lw_map in Hc.
    destruct (split_field name fs) as [[[b v] a]|] eqn:S.
    + apply split_field_app in S as [k [Efs _]]. subst fs. unfold FW in Hc.
      apply Forall_app in Hc as [Hb Ha]. inversion Ha as [|? ? [_ Hv] Ha']; subst.
      destruct rest as [|sg2 rest2].
      * unfold bind in H. destruct (h_field h b name v a) as [fs'|e] eqn:E; [|discriminate].
        inversion H; subst. apply lw_map. exact (hw_field h Hh b name v a fs' Hb Hv Ha' E).
      * unfold bind in H. destruct (walk h (sg2 :: rest2) v) as [v'|e] eqn:E; [|discriminate].
        inversion H; subst. apply lw_map. unfold FW. apply Forall_app. split; [exact Hb|].
        constructor; [apply FW_entry; eapply IH; [exact Hv|exact E]|exact Ha'].
    + unfold bind in H. destruct (h_missing h fs name rest) as [fs'|e] eqn:E; [|discriminate].
      inversion H; subst. apply lw_map. exact (hw_missing h Hh fs name rest fs' Hc E).
  - destruct cur as [raw|fs|xs]; try discriminate. apply lw_arr in Hc.
    destruct (resolve_index i (length xs)) as [idx|]; [|discriminate].
    destruct (split_nth idx xs) as [[[b v] a]|] eqn:S; [|discriminate].
    apply split_nth_app in S. subst xs. unfold AW in Hc.
    apply Forall_app in Hc as [Hb Ha]. inversion Ha as [|? ? Hv Ha']; subst.
    destruct rest as [|sg2 rest2].
    + unfold bind in H. destruct (h_index h b v a) as [xs'|e] eqn:E; [|discriminate].
      inversion H; subst. apply lw_arr. exact (hw_index h Hh b v a xs' Hb Hv Ha' E).
    + unfold bind in H. destruct (walk h (sg2 :: rest2) v) as [v'|e] eqn:E; [|discriminate].
      inversion H; subst. apply lw_arr. unfold AW. apply Forall_app. split; [exact Hb|].
      constructor; [eapply IH; [exact Hv|exact E]|exact Ha'].
  - destruct rest; [|discriminate]. destruct cur as [raw|fs|xs]; try discriminate. apply lw_arr in Hc.
    unfold bind in H. destruct (h_append h xs) as [xs'|e] eqn:E; [|discriminate].
    inversion H; subst. apply lw_arr. exact (hw_append h Hh xs xs' Hc E).
Qed.

Lemma chain_wf : forall ns v, leaves_wf v -> leaves_wf (chain ns v).
Proof.
  induction ns as [|n t IH]; intros v H; simpl; [exact H|].
  apply lw_map. constructor; [apply FW_entry; apply IH; exact H|constructor].
Qed.

Lemma FW_snoc : forall fs k v, FW fs -> leaves_wf v -> FW (fs ++ [(k, v)]).
Proof. intros. apply Forall_app. split; [assumption|]. constructor; [apply FW_entry; assumption|constructor]. Qed.

Lemma FW_put : forall b k v a, FW b -> leaves_wf v -> FW a -> FW (b ++ (k, v) :: a).
Proof. intros. apply Forall_app. split; [assumption|]. constructor; [apply FW_entry; assumption|assumption]. Qed.

Lemma AW_put : forall b v a, AW b -> leaves_wf v -> AW a -> AW (b ++ v :: a).
Proof. intros. apply Forall_app. split; [assumption|]. constructor; assumption. Qed.

Lemma create_fields_wf : forall fs name rest v fs',
  FW fs -> leaves_wf v -> create_fields fs name rest v = Ok fs' -> FW fs'.
Proof.
  unfold create_fields. intros fs name rest v fs' Hf Hv H. destruct (field_names rest); [|discriminate].
  inversion H; subst. apply FW_snoc; [exact Hf|apply chain_wf; exact Hv].
Qed.

Lemma leaf_wf : forall v, WF v -> leaves_wf (SLeaf v).
Proof. intros v H. exact H. Qed.

Lemma h_set_wf : forall v, WF v -> handlers_wf (h_set v).
Proof.
  intros v Hv. constructor; simpl.
  - intros. eapply create_fields_wf; eauto. apply leaf_wf; exact Hv.
  - intros b name t a fs' Hb _ Ha H. inversion H; subst. apply FW_put; auto.
  - intros b t a xs' Hb _ Ha H. inversion H; subst. apply AW_put; auto.
  - intros; discriminate.
Qed.

Lemma h_delete_wf : handlers_wf h_delete.
Proof.
  constructor; simpl.
  - intros fs name rest fs' Hf H. inversion H; subst. exact Hf.
  - intros b name t a fs' Hb _ Ha H. inversion H; subst. apply Forall_app. split; assumption.
  - intros b t a xs' Hb _ Ha H. inversion H; subst. apply Forall_app. split; assumption.
  - intros xs xs' Hx H. inversion H; subst. exact Hx.
Qed.

Lemma h_remove_at_wf : handlers_wf h_remove_at.
Proof.
  constructor; simpl; try (intros; discriminate).
  intros b t a xs' Hb _ Ha H. inversion H; subst. apply Forall_app. split; assumption.
Qed.

(* the re-encoded INC result is a well-formed scalar *)
Lemma inc_bytes_WF : forall code t d nb, inc_bytes code t d = Ok nb -> WF nb.
Proof.
  intros code t d nb H. unfold inc_bytes in H.
  destruct t, d; try discriminate; inversion H; subst; clear H.
  - unfold enc_int. repeat match goal with |- context [if ?x then _ else _] => destruct x end;
      (apply WF_scalar; [exact I|reflexivity]).
  - unfold enc_uint. repeat match goal with |- context [if ?x then _ else _] => destruct x end;
      (apply WF_scalar; [exact I|reflexivity]).
  - unfold enc_float. repeat match goal with |- context [if ?x then _ else _] => destruct x end;
      (apply WF_scalar; [exact I|reflexivity]).
Qed.

Lemma inc_target_wf : forall t d t', inc_target t d = Ok t' -> leaves_wf t'.
Proof.
  unfold inc_target. intros t d t' H. destruct t as [raw| |]; try discriminate.
  unfold bind in H. destruct (read_numeric raw) as [tn|e]; [|discriminate].
  destruct (num_class_of tn =? num_class_of d); [|discriminate].
  destruct (inc_bytes (leaf_code raw) tn d) as [nb|e] eqn:E; [|discriminate].
  inversion H; subst. apply leaf_wf. eapply inc_bytes_WF; exact E.
Qed.

Lemma h_inc_wf : forall v d, WF v -> handlers_wf (h_inc v d).
Proof.
  intros v d Hv. constructor; simpl.
  - intros. eapply create_fields_wf; eauto. apply leaf_wf; exact Hv.
  - intros b name t a fs' Hb _ Ha H. unfold bind in H.
    destruct (inc_target t d) as [t'|e] eqn:E; [|discriminate]. inversion H; subst.
    apply FW_put; auto. eapply inc_target_wf; exact E.
  - intros b t a xs' Hb _ Ha H. unfold bind in H.
    destruct (inc_target t d) as [t'|e] eqn:E; [|discriminate]. inversion H; subst.
    apply AW_put; auto. eapply inc_target_wf; exact E.
  - intros; discriminate.
Qed.

Lemma h_append_wf : forall v p, WF v -> handlers_wf (h_append_op v p).
Proof.
  intros v p Hv. constructor; simpl; try (intros; discriminate).
  - intros fs name rest fs' Hf H. unfold create_array in H.
    destruct (rev rest) as [|[| |] ri]; try discriminate.
    destruct (field_names (rev ri)); [|discriminate]. inversion H; subst.
    apply FW_snoc; [exact Hf|]. apply chain_wf. apply lw_arr. constructor; [apply leaf_wf; exact Hv|constructor].
  - intros xs xs' Hx H. inversion H; subst. destruct p.
    + constructor; [apply leaf_wf; exact Hv|exact Hx].
    + apply Forall_app. split; [exact Hx|]. constructor; [apply leaf_wf; exact Hv|constructor].
Qed.

Lemma remove_val_wf : forall v xs, AW xs -> AW (remove_val v xs).
Proof.
  intros v xs H. induction H as [|x t Hx Ht IH]; simpl; [constructor|].
  destruct x as [raw| |]; try (constructor; assumption).
  destruct (bytes_eqb raw v); [exact Ht|constructor; assumption].
Qed.

Lemma h_remove_val_wf : forall v, handlers_wf (h_remove_val v).
Proof.
  intro v. constructor; simpl.
  - intros fs name rest fs' Hf H. inversion H; subst. exact Hf.
  - intros b name t a fs' Hb Ht Ha H. unfold bind, remove_val_target in H.
    destruct t as [| |xs]; try discriminate. inversion H; subst.
    apply FW_put; auto. apply lw_arr. apply remove_val_wf. apply lw_arr. exact Ht.
  - intros b t a xs' Hb Ht Ha H. unfold bind, remove_val_target in H.
    destruct t as [| |xs]; try discriminate. inversion H; subst.
    apply AW_put; auto. apply lw_arr. apply remove_val_wf. apply lw_arr. exact Ht.
  - intros xs xs' Hx H. inversion H; subst. exact Hx.
Qed.

Definition PW (pfs : list (bytes * bytes)) : Prop := Forall (fun kv => WF (snd kv)) pfs.

Lemma merge_into_wf : forall pfs target, PW pfs -> FW target -> FW (merge_into target pfs).
Proof.
  induction pfs as [|[k v] t IH]; intros target Hp Ht; simpl; [exact Ht|].
  inversion Hp; subst. destruct (split_field k target) as [[[b x] a]|] eqn:S.
  - apply IH; [assumption|]. apply split_field_app in S as [k' [E _]]. subst target.
    apply Forall_app in Ht as [Hb Ha]. inversion Ha; subst. apply FW_put; auto.
  - apply IH; [assumption|]. apply FW_snoc; auto.
Qed.

Lemma extract_fields_wf : forall v pfs, extract_fields v = Ok pfs -> PW pfs.
Proof.
  unfold extract_fields. intros v pfs H. destruct v as [|c r]; [discriminate|].
  destruct (is_map_code c); [|discriminate]. destruct (lead_shape c); try discriminate.
  destruct (read_count w c r) as [[n r']|]; [|discriminate].
  destruct (parse_many extract_field (clamp n r') r') as [[l rest]|e] eqn:PM; [|discriminate].
  destruct (n <=? N.of_nat (length r')); [|discriminate]. inversion H; subst.
  eapply parse_many_all; [|exact PM]. intros b [k x] r1 E. unfold extract_field in E.
  destruct (parse_key b) as [[k0 rk]|e]; [|discriminate].
  destruct (skip (S (length rk)) rk) as [r2|] eqn:SK; [|discriminate]. inversion E; subst. simpl.
  apply skip_sound in SK as [w0 [Er Ww]]. subst rk. rewrite app_length.
  replace (length w0 + length r1 - length r1)%nat with (length w0) by lia.
  rewrite firstn_app. rewrite Nat.sub_diag. rewrite firstn_all. change (firstn 0 r1) with (@nil N).
  rewrite app_nil_r. exact Ww.
Qed.

Lemma h_merge_wf : forall pfs, PW pfs -> handlers_wf (h_merge pfs).
Proof.
  intros pfs Hp. constructor; simpl.
  - intros. eapply create_fields_wf; eauto. apply lw_map. apply merge_into_wf; [exact Hp|constructor].
  - intros b name t a fs' Hb Ht Ha H. unfold bind, merge_target in H.
    destruct t as [|fs|]; try discriminate. inversion H; subst.
    apply FW_put; auto. apply lw_map. apply merge_into_wf; [exact Hp|apply lw_map; exact Ht].
  - intros b t a xs' Hb Ht Ha H. unfold bind, merge_target in H.
    destruct t as [|fs|]; try discriminate. inversion H; subst.
    apply AW_put; auto. apply lw_map. apply merge_into_wf; [exact Hp|apply lw_map; exact Ht].
  - intros; discriminate.
Qed.

Lemma check_value_WF : forall v, check_value cfg_fixed v = Ok tt -> WF v.
Proof.
  unfold check_value. simpl. intros v H. destruct (valid_value v) eqn:E; [|discriminate].
  apply valid_value_WF. exact E.
Qed.

Lemma apply_op_wf : forall s o segs s',
  leaves_wf s -> apply_op cfg_fixed s o segs = Ok s' -> leaves_wf s'.
Proof.
  intros s o segs s' Hs H. unfold apply_op in H.
  set (v := op_value o) in *.
  destruct (op_kind o) as [|p]; [|destruct p as [[[|p|]|[|p|]|]|[[|p|]|[|p|]|]|]]; try discriminate;
    unfold bind in H;
    repeat match type of H with
           | match (match v with [] => _ | _ :: _ => _ end) with _ => _ end = _ => destruct v eqn:Ev; [discriminate|]
           | match check_value cfg_fixed ?x with _ => _ end = _ =>
               let E := fresh "CV" in destruct (check_value cfg_fixed x) as [[]|] eqn:E; [apply check_value_WF in E|discriminate]
           end.
  all: try solve [ refine (walk_wf _ _ _ _ _ Hs H);
                   first [apply h_set_wf; assumption | apply h_delete_wf | apply h_append_wf; assumption
                         | apply h_remove_val_wf] ].
  all: try solve [ destruct (last_is_index segs); [|discriminate];
                   refine (walk_wf _ _ _ _ _ Hs H); apply h_remove_at_wf ].
  all: try solve [ destruct (read_numeric _) as [d|e]; [|discriminate];
                   destruct d; try discriminate;
                   (refine (walk_wf _ _ _ _ _ Hs H); apply h_inc_wf; assumption) ].
  all: try solve [ destruct (extract_fields _) as [pfs|e] eqn:EF; [|discriminate];
                   refine (walk_wf _ _ _ _ _ Hs H); apply h_merge_wf; eapply extract_fields_wf; exact EF ].
Qed.
