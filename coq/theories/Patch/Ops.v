(* Patch/Ops.v — the eight mutation operations of msgpackpatch on skeletons, faithful to
   apply.go, append.go, remove.go, merge.go, inc.go, numeric.go (including the order of the
   checks, hence the error class returned, the auto-create rules and first-match on duplicate
   keys).  Executable definitions only.

   The Go code resolves a path to a cursor (Path.Resolve) and then mutates the skeleton through
   pointers; the skeleton has no sharing, and on any error the whole result is discarded, so a
   purely functional walk that rebuilds the spine is observationally the same.  [walk] is
   Resolve fused with the mutation: the per-operation [handlers] say what happens at the four
   places a resolution can end (missing field, existing final field, existing final index,
   append marker). *)
From Coq Require Import Floats.SpecFloat.
From HV Require Import Base.Prelude Patch.Msgpack Patch.Path Patch.Float.
Local Open Scope N_scope.

(* whether op values are validated before use (the repaired code) or spliced verbatim (the code
   as found): the model is parametric so that the old behaviour stays documented *)
Record cfg := { validate_values : bool; nan_unordered : bool }.
Definition cfg_fixed := {| validate_values := true; nan_unordered := true |}.
Definition cfg_orig := {| validate_values := false; nan_unordered := false |}.

(* ---- numeric leaves (numeric.go) ---------------------------------------------------------- *)
Inductive num :=
| NInt (z : Z)                (* class int: value as int64 *)
| NUint (n : N)               (* class uint: value as uint64 *)
| NFloat (f : spec_float)     (* class float: value as float64 (canonical binary64) *)
| NNone.                      (* not numeric *)

Definition num_class_of (x : num) : N :=
  match x with NInt _ => 1 | NUint _ => 2 | NFloat _ => 3 | NNone => 0 end.

Definition signed (bits : nat) (v : N) : Z :=
  let m := (2 ^ Z.of_nat bits)%Z in
  if (Z.of_N v <? m / 2)%Z then Z.of_N v else (Z.of_N v - m)%Z.

(* readNumericLeaf: only the first value of raw is read, trailing bytes are ignored;
   Err EInvalid for an empty or truncated numeric *)
Definition read_numeric (raw : bytes) : res num :=
  match raw with
  | [] => Err EInvalid
  | c :: r =>
      let fixed (k : nat) (f : N -> num) : res num :=
        match take k r with Some (h, _) => Ok (f (be_val 0 h)) | None => Err EInvalid end in
      match num_class c with
      | 0 => Ok NNone
      | 1 => if is_negfix c then Ok (NInt (signed 8 c))
             else if c =? 208 then fixed 1%nat (fun v => NInt (signed 8 v))
             else if c =? 209 then fixed 2%nat (fun v => NInt (signed 16 v))
             else if c =? 210 then fixed 4%nat (fun v => NInt (signed 32 v))
             else fixed 8%nat (fun v => NInt (signed 64 v))
      | 2 => if is_posfix c then Ok (NUint c)
             else if c =? 204 then fixed 1%nat NUint
             else if c =? 205 then fixed 2%nat NUint
             else if c =? 206 then fixed 4%nat NUint
             else fixed 8%nat NUint
      | _ => if c =? 202 then fixed 4%nat (fun v => NFloat (sf64_of_bits32 (Z.of_N v)))
             else fixed 8%nat (fun v => NFloat (sf64_of_bits (Z.of_N v)))
      end
  end.

Definition be_bytes (k : nat) (v : N) : bytes :=
  match k with
  | 1%nat => [v mod 256]
  | 2%nat => be2 v
  | 4%nat => be4 v
  | _ => be8 v
  end.

Definition z_mod_pow (z : Z) (bits : nat) : N := Z.to_N (z mod 2 ^ Z.of_nat bits)%Z.

(* encodeIntWithCode(code, ti+di): the int64 sum is truncated to the width of the target's code
   (int8(n), int16(n), int32(n)); fixint targets are widened to int64 (0xd3) *)
Definition enc_int (code : N) (sum : Z) : bytes :=
  if code =? 208 then [208; z_mod_pow sum 8]
  else if code =? 209 then 209 :: be2 (z_mod_pow sum 16)
  else if code =? 210 then 210 :: be4 (z_mod_pow sum 32)
  else 211 :: be8 (z_mod_pow sum 64).

Definition enc_uint (code : N) (sum : N) : bytes :=
  if code =? 204 then [204; sum mod 256]
  else if code =? 205 then 205 :: be2 (sum mod 65536)
  else if code =? 206 then 206 :: be4 (sum mod 4294967296)
  else 207 :: be8 (sum mod 18446744073709551616).

Definition enc_float (code : N) (sum : spec_float) : bytes :=
  if code =? 202 then 202 :: be4 (Z.to_N (bits_of_sf32 (sf32_of_sf64 sum)))
  else 203 :: be8 (Z.to_N (bits_of_sf64 sum)).

(* computeIncBytes *)
Definition inc_bytes (code : N) (t d : num) : res bytes :=
  match t, d with
  | NInt a, NInt b => Ok (enc_int code (a + b)%Z)
  | NUint a, NUint b => Ok (enc_uint code (a + b))
  | NFloat a, NFloat b => Ok (enc_float code (sf64_add a b))
  | _, _ => Err EType
  end.

(* ---- operations --------------------------------------------------------------------------- *)
Record op := { op_kind : N; op_path : bytes; op_value : bytes }.

Definition fields := list (bytes * skel).

Record handlers := {
  (* the field [name] is missing in the map with fields [fs]; [rest] = the segments after it *)
  h_missing : fields -> bytes -> list seg -> res fields;
  (* final segment is a field that exists: fields before, key, value, fields after *)
  h_field : fields -> bytes -> skel -> fields -> res fields;
  (* final segment is an index that exists *)
  h_index : list skel -> skel -> list skel -> res (list skel);
  (* final segment is the append marker on an existing array *)
  h_append : list skel -> res (list skel)
}.

Fixpoint walk (h : handlers) (segs : list seg) (cur : skel) : res skel :=
  match segs with
  | [] => Err EPath
  | sg :: rest =>
    match sg with
    | SegField name =>
        match cur with
        | SMap fs =>
            match split_field name fs with
            | None => fs' <- h_missing h fs name rest ;; Ok (SMap fs')
            | Some (b, v, a) =>
                match rest with
                | [] => fs' <- h_field h b name v a ;; Ok (SMap fs')
                | _ => v' <- walk h rest v ;; Ok (SMap (b ++ (name, v') :: a))
                end
            end
        | _ => Err EType
        end
    | SegIndex i =>
        match cur with
        | SArr xs =>
            match resolve_index i (length xs) with
            | None => Err EPath
            | Some idx =>
                match split_nth idx xs with
                | None => Err EPath
                | Some (b, v, a) =>
                    match rest with
                    | [] => xs' <- h_index h b v a ;; Ok (SArr xs')
                    | _ => v' <- walk h rest v ;; Ok (SArr (b ++ v' :: a))
                    end
                end
            end
        | _ => Err EType
        end
    | SegAppend =>
        match rest with
        | _ :: _ => Err EPath
        | [] => match cur with
                | SArr xs => xs' <- h_append h xs ;; Ok (SArr xs')
                | _ => Err EType
                end
        end
    end
  end.

(* all segments are plain fields: their names *)
Fixpoint field_names (segs : list seg) : option (list bytes) :=
  match segs with
  | [] => Some []
  | SegField n :: t => match field_names t with Some l => Some (n :: l) | None => None end
  | _ :: _ => None
  end.

(* auto-created chain of single-field maps ending in v *)
Fixpoint chain (names : list bytes) (v : skel) : skel :=
  match names with
  | [] => v
  | n :: t => SMap [(n, chain t v)]
  end.

(* missing field [name], remaining segments [rest] all fields: append name -> chain(rest, v) *)
Definition create_fields (fs : fields) (name : bytes) (rest : list seg) (v : skel) : res fields :=
  match field_names rest with
  | Some ns => Ok (fs ++ [(name, chain ns v)])
  | None => Err EPath
  end.

(* remaining segments = fields ... then the append marker *)
Definition create_array (fs : fields) (name : bytes) (rest : list seg) (v : skel) : res fields :=
  match rev rest with
  | SegAppend :: ri =>
      match field_names (rev ri) with
      | Some ns => Ok (fs ++ [(name, chain ns (SArr [v]))])
      | None => Err EPath
      end
  | _ => Err EPath
  end.

Definition h_set (v : bytes) : handlers := {|
  h_missing := fun fs name rest => create_fields fs name rest (SLeaf v);
  h_field := fun b name _ a => Ok (b ++ (name, SLeaf v) :: a);
  h_index := fun b _ a => Ok (b ++ SLeaf v :: a);
  h_append := fun _ => Err EPath |}.

Definition h_delete : handlers := {|
  h_missing := fun fs _ _ => Ok fs;
  h_field := fun b _ _ a => Ok (b ++ a);
  h_index := fun b _ a => Ok (b ++ a);
  h_append := fun xs => Ok xs |}.

Definition inc_target (t : skel) (d : num) : res skel :=
  match t with
  | SLeaf raw =>
      tn <- read_numeric raw ;;
      if num_class_of tn =? num_class_of d
      then nb <- inc_bytes (leaf_code raw) tn d ;; Ok (SLeaf nb)
      else Err EType
  | _ => Err EType
  end.

Definition h_inc (v : bytes) (d : num) : handlers := {|
  h_missing := fun fs name rest => create_fields fs name rest (SLeaf v);
  h_field := fun b name t a => t' <- inc_target t d ;; Ok (b ++ (name, t') :: a);
  h_index := fun b t a => t' <- inc_target t d ;; Ok (b ++ t' :: a);
  h_append := fun _ => Err EPath |}.

Definition h_append_op (v : bytes) (prepend : bool) : handlers := {|
  h_missing := fun fs name rest => create_array fs name rest (SLeaf v);
  h_field := fun _ _ _ _ => Err EPath;
  h_index := fun _ _ _ => Err EPath;
  h_append := fun xs => Ok (if prepend then SLeaf v :: xs else xs ++ [SLeaf v]) |}.

(* (h_field is never reached: REMOVE_AT requires the final segment to be an index) *)
Definition h_remove_at : handlers := {|
  h_missing := fun _ _ _ => Err EPath;
  h_field := fun b _ _ a => Ok (b ++ a);
  h_index := fun b _ a => Ok (b ++ a);
  h_append := fun _ => Err EPath |}.

(* remove the first leaf item whose bytes equal v *)
Fixpoint remove_val (v : bytes) (xs : list skel) : list skel :=
  match xs with
  | [] => []
  | SLeaf raw :: t => if bytes_eqb raw v then t else SLeaf raw :: remove_val v t
  | x :: t => x :: remove_val v t
  end.

Definition remove_val_target (v : bytes) (t : skel) : res skel :=
  match t with SArr xs => Ok (SArr (remove_val v xs)) | _ => Err EType end.

Definition h_remove_val (v : bytes) : handlers := {|
  h_missing := fun fs _ _ => Ok fs;
  h_field := fun b name t a => t' <- remove_val_target v t ;; Ok (b ++ (name, t') :: a);
  h_index := fun b t a => t' <- remove_val_target v t ;; Ok (b ++ t' :: a);
  h_append := fun xs => Ok xs |}.

(* mergeFieldsInto: a matching key (first match) is overwritten in place, a new key appended *)
Fixpoint merge_into (target : fields) (pfs : list (bytes * bytes)) : fields :=
  match pfs with
  | [] => target
  | (k, v) :: t =>
      match split_field k target with
      | Some (b, _, a) => merge_into (b ++ (k, SLeaf v) :: a) t
      | None => merge_into (target ++ [(k, SLeaf v)]) t
      end
  end.

(* extractTopLevelFields: (key, raw value bytes) of a msgpack map; values are skipped with
   Decoder.Skip; bytes after the map are ignored *)
Definition extract_field (b : bytes) : res ((bytes * bytes) * bytes) :=
  match parse_key b with
  | Err e => Err e
  | Ok (k, r) =>
      match skip (S (length r)) r with
      | Some r' => Ok ((k, firstn (length r - length r') r), r')
      | None => Err EInvalid
      end
  end.

Definition extract_fields (v : bytes) : res (list (bytes * bytes)) :=
  match v with
  | [] => Err EInvalid
  | c :: r =>
      if is_map_code c then
        match lead_shape c with
        | ShMap w =>
            match read_count w c r with
            | None => Err EInvalid
            | Some (n, r') =>
                match parse_many extract_field (clamp n r') r' with
                | Err e => Err e
                | Ok (pfs, _) => if n <=? N.of_nat (length r') then Ok pfs else Err EInvalid
                end
            end
        | _ => Err EInvalid
        end
      else Err EType
  end.

Definition merge_target (pfs : list (bytes * bytes)) (t : skel) : res skel :=
  match t with SMap fs => Ok (SMap (merge_into fs pfs)) | _ => Err EType end.

Definition h_merge (pfs : list (bytes * bytes)) : handlers := {|
  h_missing := fun fs name rest => create_fields fs name rest (SMap (merge_into [] pfs));
  h_field := fun b name t a => t' <- merge_target pfs t ;; Ok (b ++ (name, t') :: a);
  h_index := fun b t a => t' <- merge_target pfs t ;; Ok (b ++ t' :: a);
  h_append := fun _ => Err EPath |}.

Definition last_is_index (segs : list seg) : bool :=
  match rev segs with SegIndex _ :: _ => true | _ => false end.

(* the value check added by the repair: spliced values must be exactly one well-formed value *)
Definition check_value (c : cfg) (v : bytes) : res unit :=
  if validate_values c then (if valid_value v then Ok tt else Err EInvalid) else Ok tt.

(* applyOp *)
Definition apply_op (c : cfg) (s : skel) (o : op) (segs : list seg) : res skel :=
  let v := op_value o in
  let need_value : res unit := match v with [] => Err EInvalidOp | _ => Ok tt end in
  match op_kind o with
  | 0 => _ <- need_value ;; _ <- check_value c v ;; walk (h_set v) segs s
  | 1 => walk h_delete segs s
  | 2 => _ <- need_value ;; _ <- check_value c v ;;
         d <- read_numeric v ;;
         match d with
         | NNone => Err EType
         | _ => walk (h_inc v d) segs s
         end
  | 3 => _ <- need_value ;; _ <- check_value c v ;; walk (h_append_op v false) segs s
  | 4 => _ <- need_value ;; _ <- check_value c v ;; walk (h_append_op v true) segs s
  | 5 => if last_is_index segs then walk h_remove_at segs s else Err EPath
  | 6 => _ <- need_value ;; walk (h_remove_val v) segs s
  | 7 => _ <- need_value ;; _ <- check_value c v ;;
         pfs <- extract_fields v ;; walk (h_merge pfs) segs s
  | _ => Err EInvalidOp
  end.

Fixpoint apply_ops (c : cfg) (s : skel) (ops : list op) : res skel :=
  match ops with
  | [] => Ok s
  | o :: t =>
      match parse_path (op_path o) with
      | None => Err EPath
      | Some segs => s' <- apply_op c s o segs ;; apply_ops c s' t
      end
  end.
