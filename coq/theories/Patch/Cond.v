(* Patch/Cond.v — pre-conditions of msgpackpatch (condition.go): compareLeafBytes,
   evaluateCondition, ApplyWithCondition.  Executable definitions only.

   Floats are compared through Floats.SpecFloat on bit patterns.  [nan_unordered] selects the
   repaired comparison (NaN is unordered: only NOT_EQUAL is met) or the code as found
   (cmpFloat64 returned 0 for NaN, so EQUAL/>=/<= were met and NOT_EQUAL was not). *)
From Coq Require Import Floats.SpecFloat.
From HV Require Import Base.Prelude Patch.Msgpack Patch.Path Patch.Float Patch.Ops.
Local Open Scope N_scope.

Inductive cmpres := CLt | CEq | CGt | CUnord.

Definition of_comparison (c : comparison) : cmpres :=
  match c with Lt => CLt | Eq => CEq | Gt => CGt end.

(* bytes.Compare *)
Fixpoint lex_compare (a b : bytes) : comparison :=
  match a, b with
  | [], [] => Eq
  | [], _ :: _ => Lt
  | _ :: _, [] => Gt
  | x :: ta, y :: tb => match x ?= y with Eq => lex_compare ta tb | c => c end
  end.

(* msgpack.Unmarshal(raw, &any) = Decoder.DecodeInterface: like Skip, except that an extension
   must be the registered time extension (id -1) with 4, 8 or 12 payload bytes, and map keys are
   read with DecodeString (str, bin or nil codes).  Bytes after the value are ignored. *)
Definition iface_key (b : bytes) : option bytes :=
  match b with
  | [] => None
  | c :: r =>
      if c =? 192 then Some r
      else if is_string_code c || in_range 196 198 c
      then match leaf_extent c r with Some k => Some (skipn k r) | None => None end
      else None
  end.

Definition is_ext_code c := in_range 199 201 c || in_range 212 216 c.

Fixpoint iface_skip (fuel : nat) (b : bytes) : option bytes :=
  match fuel with
  | O => None
  | S f =>
    match b with
    | [] => None
    | c :: r =>
      match lead_shape c with
      | ShBad => None
      | ShArr w =>
          match read_count w c r with
          | Some (n, r') =>
              match iter_opt (iface_skip f) (clamp n r') r' with
              | Some rest => if n <=? N.of_nat (length r') then Some rest else None
              | None => None
              end
          | None => None
          end
      | ShMap w =>
          match read_count w c r with
          | Some (n, r') =>
              match iter_opt (fun x => match iface_key x with Some y => iface_skip f y | None => None end)
                             (clamp n r') r' with
              | Some rest => if n <=? N.of_nat (length r') then Some rest else None
              | None => None
              end
          | None => None
          end
      | _ =>
          match leaf_extent c r with
          | None => None
          | Some k =>
              if is_ext_code c then
                (* payload = [len bytes] id data *)
                let hdr := match lead_shape c with ShLen w _ => w | _ => O end in
                let body := skipn hdr (firstn k r) in
                match body with
                | 255 :: data =>
                    let n := length data in
                    if (Nat.eqb n 4 || Nat.eqb n 8 || Nat.eqb n 12)%bool then Some (skipn k r) else None
                | _ => None
                end
              else Some (skipn k r)
          end
      end
    end
  end.

Inductive ikind := IStr (p : bytes) | IBin (p : bytes) | IBool (b : bool) | IOther.

Definition decode_iface (raw : bytes) : option ikind :=
  match iface_skip (S (length raw)) raw with
  | None => None
  | Some _ =>
      match raw with
      | [] => None
      | c :: r =>
          let payload :=
            match leaf_extent c r with
            | Some k => skipn (match lead_shape c with ShLen w _ => w | _ => O end) (firstn k r)
            | None => []
            end in
          if is_string_code c then Some (IStr payload)
          else if in_range 196 198 c then Some (IBin payload)
          else if c =? 194 then Some (IBool false)
          else if c =? 195 then Some (IBool true)
          else Some IOther
      end
  end.

Definition float_cmp (c : cfg) (x y : spec_float) : cmpres :=
  match sf64_compare x y with
  | Some r => of_comparison r
  | None => if nan_unordered c then CUnord else CEq
  end.

(* compareLeafBytes *)
Definition compare_leaf (c : cfg) (a b : bytes) : res cmpres :=
  match a, b with
  | [], _ | _, [] => Err EInvalid
  | _, _ =>
    an <- read_numeric a ;;
    bn <- read_numeric b ;;
    if (num_class_of an =? 0) && (num_class_of bn =? 0) then
      match decode_iface a with
      | None => Err EInvalid
      | Some ia =>
        match decode_iface b with
        | None => Err EInvalid
        | Some ib =>
          match ia with
          | IStr x => match ib with IStr y => Ok (of_comparison (lex_compare x y)) | _ => Err EType end
          | IBin x => match ib with IBin y => Ok (of_comparison (lex_compare x y)) | _ => Err EType end
          | IBool x => match ib with
                       | IBool y => Ok (if Bool.eqb x y then CEq else if y then CLt else CGt)
                       | _ => Err EType
                       end
          | IOther => if bytes_eqb a b then Ok CEq else Err EType
          end
        end
      end
    else
      match an, bn with
      | NInt x, NInt y => Ok (of_comparison (x ?= y)%Z)
      | NUint x, NUint y => Ok (of_comparison (x ?= y))
      | NFloat x, NFloat y => Ok (float_cmp c x y)
      | _, _ => Err EType
      end
  end.

(* condition operators: 0 EQUAL 1 NOT_EQUAL 2 GT 3 GE 4 LT 5 LE 6 EXISTS 7 NOT_EXISTS *)
Definition cond_met (cop : N) (r : cmpres) : option bool :=
  match cop with
  | 0 => Some (match r with CEq => true | _ => false end)
  | 1 => Some (match r with CEq => false | _ => true end)
  | 2 => Some (match r with CGt => true | _ => false end)
  | 3 => Some (match r with CGt | CEq => true | _ => false end)
  | 4 => Some (match r with CLt => true | _ => false end)
  | 5 => Some (match r with CLt | CEq => true | _ => false end)
  | _ => None
  end.

Record cond := { cond_path : bytes; cond_op : N; cond_threshold : bytes }.

(* evaluateCondition *)
Definition eval_cond (c : cfg) (s : skel) (cd : cond) : res unit :=
  match parse_path (cond_path cd) with
  | None => Err EPath
  | Some segs =>
    let r := resolve segs s in
    match r with
    | Err EType | Ok _ =>
        let target := match r with Ok (Some (SLeaf raw)) => Some raw | _ => None end in
        if cond_op cd =? 6 then (match target with Some _ => Ok tt | None => Err ECondNotMet end)
        else if cond_op cd =? 7 then (match target with Some _ => Err ECondNotMet | None => Ok tt end)
        else
          match r with
          | Err e => Err e
          | Ok _ =>
              match target with
              | None => Err ECondNotMet
              | Some raw =>
                  cmp <- compare_leaf c raw (cond_threshold cd) ;;
                  match cond_met (cond_op cd) cmp with
                  | None => Err EInvalidOp
                  | Some true => Ok tt
                  | Some false => Err ECondNotMet
                  end
              end
          end
    | Err e => Err e
    end
  end.

(* ApplyWithCondition *)
Definition apply_with_cond (c : cfg) (body : bytes) (ops : list op) (cd : option cond) : res bytes :=
  s <- parse body ;;
  _ <- match cd with Some x => eval_cond c s x | None => Ok tt end ;;
  s' <- apply_ops c s ops ;;
  Ok (serialize s').
