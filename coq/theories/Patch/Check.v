(* Patch/Check.v — evaluation of C13 harness cases (no proofs).
   A case = what was given to msgpackpatch.ApplyWithCondition and what it returned.
   Verdict codes (props/C13.json):
     1 mismatch   faithful model (Patch/Cond.v apply_with_cond, cfg_fixed) <> implementation
     2 violation  success with a body that is not one well-formed msgpack value, some op value malformed
     3 violation  success with a malformed body, all op values well-formed
     4 violation  a float comparison involving NaN was treated as ordered/equal
     5 violation  result differs from the documented semantics (Patch/DocSpec.v)
     6 violation  same, and an earlier op of the same patch carried a container value
                  (known: a value set in a patch is opaque to later ops of that patch) *)
From Coq Require Import Floats.SpecFloat.
From HV Require Export Base.Prelude Patch.Msgpack Patch.Path Patch.Float Patch.Ops Patch.Cond Patch.DocSpec.
Local Open Scope N_scope.

(* compact notation for byte strings in case files: B 0x1<hex digits of the bytes> (the leading
   1 marks the start, so leading zero bytes survive); one numeral instead of one per byte *)
Fixpoint unpack_pos (p : positive) (acc : list N) (cur : N) (bit : N) : list N :=
  match p with
  | xH => acc
  | xO q => if bit =? 7 then unpack_pos q (cur :: acc) 0 0 else unpack_pos q acc cur (bit + 1)
  | xI q => if bit =? 7 then unpack_pos q ((cur + 128) :: acc) 0 0 else unpack_pos q acc (cur + 2 ^ bit) (bit + 1)
  end.
Definition B (n : N) : bytes := match n with N0 => [] | Npos p => unpack_pos p [] 0 0 end.

Definition raw_op := ((N * bytes) * bytes)%type.
Definition raw_cond := ((bytes * N) * bytes)%type.
(* body, ops, condition, (error class of the implementation (0 = success), output bytes) *)
Definition pcase := (((bytes * list raw_op) * option raw_cond) * (N * bytes))%type.

Definition mk_op (r : raw_op) : op := {| op_kind := fst (fst r); op_path := snd (fst r); op_value := snd r |}.
Definition mk_cond (r : raw_cond) : cond :=
  {| cond_path := fst (fst r); cond_op := snd (fst r); cond_threshold := snd r |}.

(* NaN payloads are hardware business: canonicalise float NaN leaves before comparing *)
Definition canon_leaf (raw : bytes) : bytes :=
  match raw with
  | [202; a; b; c; d] =>
      if sf_is_nan (sf32_of_bits (Z.of_N (be_val 0 [a; b; c; d]))) then [202; 127; 192; 0; 0] else raw
  | [203; a; b; c; d; e; f; g; h] =>
      if sf_is_nan (sf64_of_bits (Z.of_N (be_val 0 [a; b; c; d; e; f; g; h])))
      then [203; 127; 248; 0; 0; 0; 0; 0; 0] else raw
  | _ => raw
  end.

Fixpoint canon_skel (s : skel) : skel :=
  match s with
  | SLeaf raw => SLeaf (canon_leaf raw)
  | SMap fs => SMap ((fix go (l : list (bytes * skel)) := match l with [] => [] | (k, v) :: t => (k, canon_skel v) :: go t end) fs)
  | SArr xs => SArr ((fix go (l : list skel) := match l with [] => [] | v :: t => canon_skel v :: go t end) xs)
  end.

Definition canon_bytes (b : bytes) : bytes :=
  match parse b with Ok s => serialize (canon_skel s) | Err _ => b end.

Definition out_eqb (a b : bytes) : bool :=
  if bytes_eqb a b then true else bytes_eqb (canon_bytes a) (canon_bytes b).

Fixpoint canon_doc (d : doc) : doc :=
  match d with
  | DVal raw => DVal (canon_leaf raw)
  | DMap fs => DMap ((fix go (l : list (bytes * doc)) := match l with [] => [] | (k, v) :: t => (k, canon_doc v) :: go t end) fs)
  | DArr xs => DArr ((fix go (l : list doc) := match l with [] => [] | v :: t => canon_doc v :: go t end) xs)
  end.

Fixpoint doc_eqb (a b : doc) : bool :=
  match a, b with
  | DVal x, DVal y => bytes_eqb x y
  | DMap f1, DMap f2 =>
      (fix go (l1 : list (bytes * doc)) (l2 : list (bytes * doc)) : bool :=
         match l1, l2 with
         | [], [] => true
         | (k1, v1) :: t1, (k2, v2) :: t2 => bytes_eqb k1 k2 && doc_eqb v1 v2 && go t1 t2
         | _, _ => false
         end) f1 f2
  | DArr x1, DArr x2 =>
      (fix go (l1 l2 : list doc) : bool :=
         match l1, l2 with
         | [], [] => true
         | v1 :: t1, v2 :: t2 => doc_eqb v1 v2 && go t1 t2
         | _, _ => false
         end) x1 x2
  | _, _ => false
  end.

(* ---- oracles on the implementation's observations ---------------------------------------- *)
Definition carries_value (k : N) : bool := (k =? 0) || (k =? 2) || (k =? 3) || (k =? 4) || (k =? 7).

Definition some_value_malformed (ops : list op) : bool :=
  existsb (fun o => carries_value (op_kind o) && negb (valid_value (op_value o))) ops.

(* the documented semantics speak about string-keyed documents: every spliced value must be one *)
Definition value_in_domain (o : op) : bool :=
  if carries_value (op_kind o) then
    match op_value o with
    | [] => true
    | v => match parse v with Ok _ => true | Err _ => negb (valid_value v) end
    end
  else true.

Definition has_container_lead (v : bytes) : bool :=
  match v with c :: _ => is_container_code c | [] => false end.

Definition container_valued (o : op) : bool :=
  if op_kind o =? 7 then
    match extract_fields (op_value o) with
    | Ok pfs => existsb (fun kv => has_container_lead (snd kv)) pfs
    | Err _ => false
    end
  else carries_value (op_kind o) && has_container_lead (op_value o).

(* is the condition a float/float comparison with a NaN operand? then: expected "met" *)
Definition nan_condition (body : bytes) (cd : cond) : option bool :=
  if cond_op cd <? 6 then
    match parse body, parse_path (cond_path cd) with
    | Ok s, Some segs =>
        match resolve segs s with
        | Ok (Some (SLeaf raw)) =>
            match read_numeric raw, read_numeric (cond_threshold cd) with
            | Ok (NFloat x), Ok (NFloat y) =>
                if sf_is_nan x || sf_is_nan y then Some (cond_op cd =? 1) else None
            | _, _ => None
            end
        | _ => None
        end
    | _, _ => None
    end
  else None.

Definition res_doc_eqb (a b : res doc) : bool :=
  match a, b with
  | Ok x, Ok y => doc_eqb (canon_doc x) (canon_doc y)
  | Err _, Err _ => true
  | _, _ => false
  end.

Definition check_case (c : pcase) : N :=
  let '(((body, rops), rcond), (ecode, out)) := c in
  let ops := map mk_op rops in
  let cd := option_map mk_cond rcond in
  let v_wf :=
    if (ecode =? 0) && negb (valid_value out)
    then (if some_value_malformed ops then 2 else 3) else 0 in
  let v_nan :=
    match cd with
    | Some x => match nan_condition body x with
                | Some expect_met => if Bool.eqb expect_met (negb (ecode =? 6)) then 0 else 4
                | None => 0
                end
    | None => 0
    end in
  let v_doc :=
    if forallb value_in_domain ops then
      let expected := match decode body with Ok d => doc_patch d ops cd | Err e => Err e end in
      let observed := if ecode =? 0 then decode out else Err EInvalid in
      if res_doc_eqb expected observed then 0
      else if existsb container_valued ops then 6 else 5
    else 0 in
  if negb (v_wf =? 0) then v_wf
  else if negb (v_nan =? 0) then v_nan
  else if negb (v_doc =? 0) then v_doc
  else
    match apply_with_cond cfg_fixed body ops cd with
    | Ok m => if (ecode =? 0) && out_eqb m out then 0 else 1
    | Err e => if ecode =? err_code e then 0 else 1
    end.

Definition check_all (cs : list pcase) : list verdict := check_cases check_case cs.
