(* Patch/Msgpack.v — byte-level structural msgpack model used by msgpackpatch (C13).
   Executable definitions only (no proofs).  Bytes are [N] (< 256) in [list N].

   Faithful to app/core/hydra/swamp/treasure/msgpackpatch/{codes,skeleton,serialize}.go and to
   the parts of github.com/vmihailenco/msgpack/v5 they call (PeekCode, Skip, DecodeMapLen,
   DecodeArrayLen, DecodeString, EncodeMapLen, EncodeArrayLen, EncodeString):
   - [lead_shape] classifies all 256 lead bytes (compared exhaustively with the table printed
     from the compiled code, Gen/C13Consts.v, in MsgpackProofs.v);
   - [skip] is Decoder.Skip (any msgpack value, any key type);
   - [parse] is msgpackpatch.Parse (maps need string keys; leaves are kept as raw bytes);
   - [serialize] is Skeleton.Serialize (leaves verbatim, container/key headers minimal, the
     uint32 truncation of the encoder written out). *)
From HV Require Import Base.Prelude.
Local Open Scope N_scope.

Definition byte := N.
Definition bytes := list N.

(* error classes = the sentinel errors of the package (errors.Is) *)
Inductive err := EInvalid | ENonStringKey | EPath | EType | EInvalidOp | ECondNotMet.
Inductive res (A : Type) := Ok (a : A) | Err (e : err).
Arguments Ok {A} a.
Arguments Err {A} e.

Definition err_code (e : err) : N :=
  match e with EInvalid => 1 | ENonStringKey => 2 | EPath => 3 | EType => 4 | EInvalidOp => 5 | ECondNotMet => 6 end.

Definition bind {A B} (r : res A) (f : A -> res B) : res B :=
  match r with Ok a => f a | Err e => Err e end.
Notation "x <- r ;; k" := (bind r (fun x => k)) (at level 61, r at next level, right associativity).

Definition bytes_eqb (a b : bytes) : bool := list_eqb N.eqb a b.

(* ---- code classifiers (codes.go) ---------------------------------------------------------- *)
Definition in_range (lo hi c : N) : bool := (lo <=? c) && (c <=? hi).
Definition is_fixmap c := in_range 128 143 c.
Definition is_fixarray c := in_range 144 159 c.
Definition is_fixstr c := in_range 160 191 c.
Definition is_posfix c := c <=? 127.
Definition is_negfix c := 224 <=? c.
Definition is_map_code c := is_fixmap c || (c =? 222) || (c =? 223).
Definition is_array_code c := is_fixarray c || (c =? 220) || (c =? 221).
Definition is_string_code c := is_fixstr c || (c =? 217) || (c =? 218) || (c =? 219).
Definition is_integer_code c := is_posfix c || is_negfix c || in_range 204 211 c.
Definition is_float_code c := (c =? 202) || (c =? 203).

(* numeric class (numeric.go:classifyNumericCode): 0 none, 1 int, 2 uint, 3 float *)
Definition num_class (c : N) : N :=
  if is_float_code c then 3
  else if in_range 208 211 c then 1
  else if in_range 204 207 c then 2
  else if is_posfix c then 2
  else if is_negfix c then 1
  else 0.

(* ---- the shape of every lead byte (what Decoder.Skip does with it) ------------------------ *)
Inductive shape :=
| ShFixed (k : nat)                 (* k payload bytes follow *)
| ShLen (w : nat) (extra : nat)     (* w-byte big-endian length n, then n + extra bytes *)
| ShArr (w : nat)                   (* w = 0: count in the low 4 bits; else w-byte count *)
| ShMap (w : nat)
| ShBad.                            (* 0xc1 *)

Definition lead_shape (c : N) : shape :=
  if c <=? 127 then ShFixed 0
  else if c <=? 143 then ShMap 0
  else if c <=? 159 then ShArr 0
  else if c <=? 191 then ShFixed (N.to_nat (N.land c 31))
  else if c =? 192 then ShFixed 0
  else if c =? 193 then ShBad
  else if c <=? 195 then ShFixed 0
  else if c =? 196 then ShLen 1 0
  else if c =? 197 then ShLen 2 0
  else if c =? 198 then ShLen 4 0
  else if c =? 199 then ShLen 1 1
  else if c =? 200 then ShLen 2 1
  else if c =? 201 then ShLen 4 1
  else if c =? 202 then ShFixed 4
  else if c =? 203 then ShFixed 8
  else if c =? 204 then ShFixed 1
  else if c =? 205 then ShFixed 2
  else if c =? 206 then ShFixed 4
  else if c =? 207 then ShFixed 8
  else if c =? 208 then ShFixed 1
  else if c =? 209 then ShFixed 2
  else if c =? 210 then ShFixed 4
  else if c =? 211 then ShFixed 8
  else if c =? 212 then ShFixed 2
  else if c =? 213 then ShFixed 3
  else if c =? 214 then ShFixed 5
  else if c =? 215 then ShFixed 9
  else if c =? 216 then ShFixed 17
  else if c =? 217 then ShLen 1 0
  else if c =? 218 then ShLen 2 0
  else if c =? 219 then ShLen 4 0
  else if c =? 220 then ShArr 2
  else if c =? 221 then ShArr 4
  else if c =? 222 then ShMap 2
  else if c =? 223 then ShMap 4
  else ShFixed 0.

(* ---- reading ------------------------------------------------------------------------------ *)
Fixpoint be_val (acc : N) (l : bytes) : N :=
  match l with [] => acc | x :: t => be_val (acc * 256 + x) t end.

(* [take n l] = the first n bytes and the rest, if there are n bytes *)
Definition take (n : nat) (l : bytes) : option (bytes * bytes) :=
  if (n <=? length l)%nat then Some (firstn n l, skipn n l) else None.

Definition read_be (w : nat) (l : bytes) : option (N * bytes) :=
  match take w l with Some (h, r) => Some (be_val 0 h, r) | None => None end.

(* take with an N count: never converts a count larger than the input to nat *)
Definition take_n (n : N) (extra : nat) (l : bytes) : option (bytes * bytes) :=
  if n + N.of_nat extra <=? N.of_nat (length l) then take (N.to_nat n + extra) l else None.

(* element count of a container header (lead byte c already consumed) *)
Definition read_count (w : nat) (c : N) (r : bytes) : option (N * bytes) :=
  match w with O => Some (N.land c 15, r) | _ => read_be w r end.

(* a declared count larger than the remaining input cannot be satisfied (every element takes
   at least one byte); iterate at most length+1 times, which fails in the same way *)
Definition clamp (n : N) (r : bytes) : nat := N.to_nat (N.min n (N.of_nat (S (length r)))).

Fixpoint iter_opt (f : bytes -> option bytes) (n : nat) (b : bytes) : option bytes :=
  match n with
  | O => Some b
  | S n' => match f b with Some r => iter_opt f n' r | None => None end
  end.

(* payload extent of a non-container value whose lead byte c was consumed: number of bytes of r
   that belong to it *)
Definition leaf_extent (c : N) (r : bytes) : option nat :=
  match lead_shape c with
  | ShFixed k => if (k <=? length r)%nat then Some k else None
  | ShLen w extra =>
      match read_be w r with
      | Some (n, r') => if n + N.of_nat extra <=? N.of_nat (length r')
                        then Some (w + (N.to_nat n + extra))%nat else None
      | None => None
      end
  | _ => None
  end.

(* Decoder.Skip *)
Fixpoint skip (fuel : nat) (b : bytes) : option bytes :=
  match fuel with
  | O => None
  | S f =>
    match b with
    | [] => None
    | c :: r =>
      match lead_shape c with
      | ShBad => None
      | ShArr w =>
          match read_count w c r with
          | Some (n, r') =>
              match iter_opt (skip f) (clamp n r') r' with
              | Some rest => if n <=? N.of_nat (length r') then Some rest else None
              | None => None
              end
          | None => None
          end
      | ShMap w =>
          match read_count w c r with
          | Some (n, r') =>
              match iter_opt (skip f) (2 * clamp n r') r' with
              | Some rest => if n <=? N.of_nat (length r') then Some rest else None
              | None => None
              end
          | None => None
          end
      | _ => match leaf_extent c r with Some k => Some (skipn k r) | None => None end
      end
    end
  end.

(* exactly one well-formed msgpack value, nothing after it *)
Definition valid_value (b : bytes) : bool :=
  match skip (S (length b)) b with Some [] => true | _ => false end.

(* ---- skeleton ----------------------------------------------------------------------------- *)
Inductive skel :=
| SLeaf (raw : bytes)
| SMap (fs : list (bytes * skel))
| SArr (xs : list skel).

(* PeekCode + isStringCode + DecodeString *)
Definition parse_key (b : bytes) : res (bytes * bytes) :=
  match b with
  | [] => Err EInvalid
  | c :: r =>
      if is_string_code c then
        match leaf_extent c r with
        | Some k =>
            let hdr := match lead_shape c with ShLen w _ => w | _ => O end in
            Ok (skipn hdr (firstn k r), skipn k r)
        | None => Err EInvalid
        end
      else Err ENonStringKey
  end.

Fixpoint parse_many {A} (p : bytes -> res (A * bytes)) (n : nat) (b : bytes) : res (list A * bytes) :=
  match n with
  | O => Ok ([], b)
  | S n' =>
      match p b with
      | Err e => Err e
      | Ok (x, r) =>
          match parse_many p n' r with
          | Err e => Err e
          | Ok (xs, r') => Ok (x :: xs, r')
          end
      end
  end.

Definition parse_field (pn : bytes -> res (skel * bytes)) (b : bytes) : res ((bytes * skel) * bytes) :=
  match parse_key b with
  | Err e => Err e
  | Ok (k, r) => match pn r with Err e => Err e | Ok (v, r') => Ok ((k, v), r') end
  end.

Fixpoint parse_node (fuel : nat) (b : bytes) : res (skel * bytes) :=
  match fuel with
  | O => Err EInvalid
  | S f =>
    match b with
    | [] => Err EInvalid
    | c :: r =>
      match lead_shape c with
      | ShMap w =>
          match read_count w c r with
          | None => Err EInvalid
          | Some (n, r') =>
              match parse_many (parse_field (parse_node f)) (clamp n r') r' with
              | Err e => Err e
              | Ok (fs, rest) => if n <=? N.of_nat (length r') then Ok (SMap fs, rest) else Err EInvalid
              end
          end
      | ShArr w =>
          match read_count w c r with
          | None => Err EInvalid
          | Some (n, r') =>
              match parse_many (parse_node f) (clamp n r') r' with
              | Err e => Err e
              | Ok (xs, rest) => if n <=? N.of_nat (length r') then Ok (SArr xs, rest) else Err EInvalid
              end
          end
      | _ =>
          match leaf_extent c r with
          | Some k => Ok (SLeaf (c :: firstn k r), skipn k r)
          | None => Err EInvalid
          end
      end
    end
  end.

(* msgpackpatch.Parse *)
Definition parse (b : bytes) : res skel :=
  match parse_node (S (length b)) b with
  | Err e => Err e
  | Ok (s, []) => Ok s
  | Ok (_, _ :: _) => Err EInvalid
  end.

(* ---- serialisation ------------------------------------------------------------------------ *)
Definition be2 (n : N) : bytes := [(n / 256) mod 256; n mod 256].
Definition be4 (n : N) : bytes := [(n / 16777216) mod 256; (n / 65536) mod 256; (n / 256) mod 256; n mod 256].
Definition be8 (n : N) : bytes := be4 (n / 4294967296) ++ be4 n.

Definition map_header (n : N) : bytes :=
  if n <? 16 then [128 + n] else if n <=? 65535 then 222 :: be2 n else 223 :: be4 n.
Definition arr_header (n : N) : bytes :=
  if n <? 16 then [144 + n] else if n <=? 65535 then 220 :: be2 n else 221 :: be4 n.
Definition str_header (n : N) : bytes :=
  if n <? 32 then [160 + n] else if n <? 256 then [217; n] else if n <=? 65535 then 218 :: be2 n else 219 :: be4 n.
Definition enc_str (k : bytes) : bytes := str_header (N.of_nat (length k)) ++ k.

Fixpoint serialize (s : skel) : bytes :=
  match s with
  | SLeaf raw => raw
  | SMap fs =>
      map_header (N.of_nat (length fs)) ++
      (fix go (l : list (bytes * skel)) : bytes :=
         match l with [] => [] | (k, v) :: t => enc_str k ++ serialize v ++ go t end) fs
  | SArr xs =>
      arr_header (N.of_nat (length xs)) ++
      (fix go (l : list skel) : bytes :=
         match l with [] => [] | v :: t => serialize v ++ go t end) xs
  end.

(* first byte of a leaf = Skeleton.LeafCode (193 = never a valid code, for the empty list) *)
Definition leaf_code (raw : bytes) : N := match raw with c :: _ => c | [] => 193 end.

Definition is_container_code c := is_map_code c || is_array_code c.
