(* Patch/Path.v — path expressions of msgpackpatch (path.go): ParsePath and the read-only
   Resolve.  Executable definitions only.  A path string is a byte list (Go string). *)
From HV Require Import Base.Prelude Patch.Msgpack.
Local Open Scope N_scope.

Inductive seg :=
| SegField (name : bytes)
| SegIndex (i : Z)          (* may be negative; resolved against the array length *)
| SegAppend.                (* "[]" *)

(* strings.Split(s, sep) on one byte *)
Fixpoint split_on (sep : N) (cur : bytes) (l : bytes) : list bytes :=
  match l with
  | [] => [rev cur]
  | x :: t => if x =? sep then rev cur :: split_on sep [] t else split_on sep (x :: cur) t
  end.

(* strings.IndexByte: prefix before the first occurrence and the suffix starting at it *)
Fixpoint break_at (c : N) (l : bytes) : option (bytes * bytes) :=
  match l with
  | [] => None
  | x :: t => if x =? c then Some ([], l)
              else match break_at c t with Some (a, b) => Some (x :: a, b) | None => None end
  end.

Definition contains (c : N) (l : bytes) : bool := existsb (N.eqb c) l.

(* strconv.Atoi: optional sign, at least one digit, decimal digits only, int64 range *)
Fixpoint digits (acc : Z) (l : bytes) : option Z :=
  match l with
  | [] => Some acc
  | x :: t => if (48 <=? x) && (x <=? 57) then digits (acc * 10 + Z.of_N (x - 48))%Z t else None
  end.

Definition atoi (l : bytes) : option Z :=
  let '(neg, ds) := match l with
                    | 45 :: t => (true, t)
                    | 43 :: t => (false, t)
                    | _ => (false, l)
                    end in
  match ds with
  | [] => None
  | _ => match digits 0%Z ds with
         | None => None
         | Some v => let z := if neg then (- v)%Z else v in
                     if ((-9223372036854775808 <=? z) && (z <=? 9223372036854775807))%Z
                     then Some z else None
         end
  end.

(* the bracket suffixes of one dot-separated part: "[N]" or "[]", repeated *)
Fixpoint brackets (fuel : nat) (rest : bytes) : option (list seg) :=
  match fuel with
  | O => None
  | S f =>
    match rest with
    | [] => Some []
    | 91 :: t =>                                  (* '[' *)
        match break_at 93 t with                  (* ']' *)
        | None => None
        | Some (inner, close) =>
            let after := tl close in
            match inner with
            | [] => match brackets f after with Some l => Some (SegAppend :: l) | None => None end
            | [42] => None                        (* "[*]" *)
            | _ => match atoi inner with
                   | None => None
                   | Some z => match brackets f after with Some l => Some (SegIndex z :: l) | None => None end
                   end
            end
        end
    | _ => None
    end
  end.

Definition parse_part (part : bytes) : option (list seg) :=
  match part with
  | [] => None
  | 35 :: _ => None                               (* '#' pseudo-field *)
  | _ =>
    match break_at 91 part with
    | None => if contains 93 part then None else Some [SegField part]
    | Some (name, rest) =>
        match name with
        | [] => None
        | _ => if contains 93 name then None
               else match brackets (S (length rest)) rest with
                    | Some l => Some (SegField name :: l)
                    | None => None
                    end
        end
    end
  end.

Fixpoint parse_parts (ps : list bytes) : option (list seg) :=
  match ps with
  | [] => Some []
  | p :: t => match parse_part p with
              | None => None
              | Some l => match parse_parts t with Some l' => Some (l ++ l') | None => None end
              end
  end.

(* ParsePath; None = ErrPathInvalid *)
Definition parse_path (s : bytes) : option (list seg) :=
  match s with
  | [] => None
  | _ => parse_parts (split_on 46 [] s)
  end.

(* ---- navigation helpers ---------------------------------------------------------------- *)
(* first field with the given key (findField): fields before it, its value, fields after it *)
Fixpoint split_field {V} (name : bytes) (fs : list (bytes * V)) : option (list (bytes * V) * V * list (bytes * V)) :=
  match fs with
  | [] => None
  | (k, v) :: t =>
      if bytes_eqb k name then Some ([], v, t)
      else match split_field name t with
           | Some (b, x, a) => Some ((k, v) :: b, x, a)
           | None => None
           end
  end.

Fixpoint split_nth {V} (n : nat) (xs : list V) : option (list V * V * list V) :=
  match xs, n with
  | [], _ => None
  | x :: t, O => Some ([], x, t)
  | x :: t, S n' => match split_nth n' t with
                    | Some (b, y, a) => Some (x :: b, y, a)
                    | None => None
                    end
  end.

(* resolveIndex *)
Definition resolve_index (want : Z) (len : nat) : option nat :=
  let w := if (want <? 0)%Z then (Z.of_nat len + want)%Z else want in
  if ((w <? 0) || (Z.of_nat len <=? w))%Z then None else Some (Z.to_nat w).

(* Path.Resolve, read-only view: Ok (Some t) = the target exists, Ok None = missing final or
   intermediate field, or the append marker. *)
Fixpoint resolve (segs : list seg) (cur : skel) : res (option skel) :=
  match segs with
  | [] => Err EPath
  | sg :: rest =>
    match sg with
    | SegField name =>
        match cur with
        | SMap fs =>
            match split_field name fs with
            | None => Ok None
            | Some (_, v, _) => match rest with [] => Ok (Some v) | _ => resolve rest v end
            end
        | _ => Err EType
        end
    | SegIndex i =>
        match cur with
        | SArr xs =>
            match resolve_index i (length xs) with
            | None => Err EPath
            | Some idx =>
                match split_nth idx xs with
                | None => Err EPath
                | Some (_, v, _) => match rest with [] => Ok (Some v) | _ => resolve rest v end
                end
            end
        | _ => Err EType
        end
    | SegAppend =>
        match rest with
        | _ :: _ => Err EPath
        | [] => match cur with SArr _ => Ok None | _ => Err EType end
        end
    end
  end.
