(* Patch/Float.v — IEEE-754 binary32/binary64 bit patterns <-> Floats.SpecFloat.spec_float
   (pure Z arithmetic, no axioms; PrimFloat and Flocq are not used).  Executable only. *)
From Coq Require Import Floats.SpecFloat.
From HV Require Import Base.Prelude.
Local Open Scope Z_scope.

Definition prec64 := 53.  Definition emax64 := 1024.
Definition prec32 := 24.  Definition emax32 := 128.

(* generic decode: mw = mantissa field width, ew = exponent field width *)
Definition sf_of_bits (mw ew : Z) (bits : Z) : spec_float :=
  let m := bits mod 2 ^ mw in
  let e := (bits / 2 ^ mw) mod 2 ^ ew in
  let s := Z.odd (bits / 2 ^ (mw + ew)) in
  let bias := 2 ^ (ew - 1) - 1 in
  if e =? 0 then
    match m with Zpos p => S754_finite s p (1 - bias - mw) | _ => S754_zero s end
  else if e =? 2 ^ ew - 1 then
    (if m =? 0 then S754_infinity s else S754_nan)
  else
    match m + 2 ^ mw with Zpos p => S754_finite s p (e - bias - mw) | _ => S754_nan end.

(* generic encode of a canonical spec_float of that format; NaN -> the quiet NaN with empty payload *)
Definition bits_of_sf (mw ew : Z) (x : spec_float) : Z :=
  let bias := 2 ^ (ew - 1) - 1 in
  let sgn (s : bool) := if s then 2 ^ (mw + ew) else 0 in
  match x with
  | S754_zero s => sgn s
  | S754_infinity s => sgn s + (2 ^ ew - 1) * 2 ^ mw
  | S754_nan => (2 ^ ew - 1) * 2 ^ mw + 2 ^ (mw - 1)
  | S754_finite s m e =>
      if Zpos m <? 2 ^ mw then sgn s + Zpos m
      else sgn s + (e + bias + mw) * 2 ^ mw + (Zpos m - 2 ^ mw)
  end.

Definition sf64_of_bits (b : Z) := sf_of_bits 52 11 b.
Definition sf32_of_bits (b : Z) := sf_of_bits 23 8 b.
Definition bits_of_sf64 (x : spec_float) := bits_of_sf 52 11 x.
Definition bits_of_sf32 (x : spec_float) := bits_of_sf 23 8 x.

(* re-round a spec_float to a format (exact when representable): float64(float32) and
   float32(float64) *)
Definition sf_round (prec emax : Z) (x : spec_float) : spec_float :=
  match x with
  | S754_finite s m e => binary_round prec emax s m e
  | _ => x
  end.

Definition sf_is_nan (x : spec_float) : bool := match x with S754_nan => true | _ => false end.

(* float64 value of a float32 bit pattern *)
Definition sf64_of_bits32 (b : Z) : spec_float := sf_round prec64 emax64 (sf32_of_bits b).

Definition sf64_add (x y : spec_float) : spec_float := SFadd prec64 emax64 x y.
Definition sf64_compare (x y : spec_float) : option comparison := SFcompare x y.
Definition sf32_of_sf64 (x : spec_float) : spec_float := sf_round prec32 emax32 x.
