(* Patch/MsgpackProofs.v — lemmas about the byte-level msgpack model:
   - the lead-byte classifiers equal the table printed from the compiled Go code (all 256 bytes);
   - [WF]: the msgpack grammar as an inductive predicate; Decoder.Skip is sound for it
     ([skip_sound]), so a validated value is a well-formed msgpack value;
   - the serialisation of a skeleton whose leaves are well-formed is well-formed ([serialize_WF]). *)
From Coq Require Import ZifyN ZifyNat ZifyBool.
From HV Require Import Base.Prelude Patch.Msgpack Gen.C13Consts.
Local Open Scope N_scope.
Ltac Zify.zify_post_hook ::= Z.div_mod_to_equations.

Arguments firstn : simpl never.
Arguments skipn : simpl never.
Arguments N.mul : simpl never.
Arguments N.add : simpl never.
Arguments N.div : simpl never.
Arguments N.modulo : simpl never.
Arguments N.land : simpl never.
Arguments N.leb : simpl never.
Arguments N.ltb : simpl never.
Arguments N.eqb : simpl never.
Arguments N.of_nat : simpl never.
Arguments N.to_nat : simpl never.
Arguments Nat.mul : simpl never.

(* ---- 1. the classifier table ------------------------------------------------------------- *)
Definition flags_of (c : N) : N :=
  (if is_map_code c then 1 else 0) + (if is_array_code c then 2 else 0) +
  (if is_string_code c then 4 else 0) + (if is_integer_code c then 8 else 0) +
  (if is_float_code c then 16 else 0).

(* 1 + number of bytes Decoder.Skip consumes on c followed by c13_pad bytes k; 0 if it fails *)
Definition probe (c k : N) : N :=
  match skip (S (S c13_pad)) (c :: repeat k c13_pad) with
  | Some r => 1 + (N.of_nat (S c13_pad) - N.of_nat (length r))
  | None => 0
  end.

Definition entry (c : N) : N * N * N * N := (flags_of c, num_class c, probe c 0, probe c 1).
Definition all_bytes : list N := map N.of_nat (seq 0 256).

Lemma lead_table_eq : map entry all_bytes = c13_lead_table.
Proof. vm_compute. reflexivity. Qed.

Lemma lead_table_matches : forall c, c < 256 ->
  nth_error c13_lead_table (N.to_nat c) = Some (entry c).
Proof.
  intros c Hc. rewrite <- lead_table_eq. apply map_nth_error.
  unfold all_bytes.
  replace c with (N.of_nat (N.to_nat c)) at 2 by lia.
  apply map_nth_error.
  rewrite nth_error_nth' with (d := O) by (rewrite seq_length; lia).
  rewrite seq_nth by lia. reflexivity.
Qed.

Lemma op_numbering : c13_op_kinds = [0; 1; 2; 3; 4; 5; 6; 7] /\ c13_cond_ops = [0; 1; 2; 3; 4; 5; 6; 7].
Proof. split; vm_compute; reflexivity. Qed.

(* ---- 2. the grammar ------------------------------------------------------------------------ *)
Definition hdr_ok (w : nat) (c : N) (hdr : bytes) (n : N) : Prop :=
  length hdr = w /\ match w with O => N.land c 15 | _ => be_val 0 hdr end = n.

Definition scalar_shape (c : N) : Prop :=
  match lead_shape c with ShFixed _ | ShLen _ _ => True | _ => False end.

Inductive WF : bytes -> Prop :=
| WF_scalar : forall c p, scalar_shape c -> leaf_extent c p = Some (length p) -> WF (c :: p)
| WF_arr : forall c w hdr items, lead_shape c = ShArr w ->
    hdr_ok w c hdr (N.of_nat (length items)) -> Forall WF items -> WF (c :: hdr ++ concat items)
| WF_map : forall c w hdr n items, lead_shape c = ShMap w ->
    hdr_ok w c hdr n -> length items = (2 * N.to_nat n)%nat -> Forall WF items ->
    WF (c :: hdr ++ concat items).

Lemma take_split : forall n l h r, take n l = Some (h, r) -> l = h ++ r /\ length h = n.
Proof.
  unfold take. intros n l h r H. destruct (n <=? length l)%nat eqn:E; [|discriminate].
  inversion H; subst. split; [symmetry; apply firstn_skipn|].
  apply firstn_length_le. apply Nat.leb_le in E. exact E.
Qed.

Lemma read_count_split : forall w c r0 n r', read_count w c r0 = Some (n, r') ->
  exists hdr, r0 = hdr ++ r' /\ hdr_ok w c hdr n.
Proof.
  intros w c r0 n r' H. destruct w as [|w'].
  - simpl in H. inversion H; subst. exists []. split; [reflexivity|]. split; reflexivity.
  - unfold read_count, read_be in H. destruct (take (S w') r0) as [[h r]|] eqn:T; [|discriminate].
    inversion H; subst. apply take_split in T as [E L]. exists h. split; [exact E|]. split; [exact L|reflexivity].
Qed.

Lemma leaf_extent_le : forall c r k, leaf_extent c r = Some k -> (k <= length r)%nat.
Proof.
  unfold leaf_extent. intros c r k H. destruct (lead_shape c); try discriminate.
  - destruct (k0 <=? length r)%nat eqn:E; [|discriminate]. inversion H; subst. apply Nat.leb_le in E. exact E.
  - unfold read_be in H. destruct (take w r) as [[h r']|] eqn:T; [|discriminate].
    apply take_split in T as [E L].
    destruct (be_val 0 h + N.of_nat extra <=? N.of_nat (length r')) eqn:B; [|discriminate].
    inversion H; subst. rewrite app_length. lia.
Qed.

Lemma leaf_extent_firstn : forall c r k, leaf_extent c r = Some k ->
  leaf_extent c (firstn k r) = Some (length (firstn k r)).
Proof.
  intros c r k H. pose proof (leaf_extent_le _ _ _ H) as Hle.
  rewrite firstn_length_le by exact Hle.
  unfold leaf_extent in *. destruct (lead_shape c); try discriminate.
  - destruct (k0 <=? length r)%nat eqn:E; [|discriminate]. inversion H; subst.
    rewrite firstn_length_le by exact Hle. rewrite Nat.leb_refl. reflexivity.
  - unfold read_be, take in *.
    destruct (w <=? length r)%nat eqn:E; [|discriminate].
    destruct (be_val 0 (firstn w r) + N.of_nat extra <=? N.of_nat (length (skipn w r))) eqn:B; [|discriminate].
    inversion H; subst. clear H.
    rewrite firstn_length_le by exact Hle.
    replace (w <=? w + (N.to_nat (be_val 0 (firstn w r)) + extra))%nat with true by (symmetry; apply Nat.leb_le; lia).
    rewrite firstn_firstn. replace (Init.Nat.min w (w + (N.to_nat (be_val 0 (firstn w r)) + extra))) with w by lia.
    rewrite skipn_firstn_comm. rewrite firstn_length_le by (rewrite skipn_length in *; lia).
    replace (be_val 0 (firstn w r) + N.of_nat extra <=?
             N.of_nat (w + (N.to_nat (be_val 0 (firstn w r)) + extra) - w)) with true
      by (symmetry; apply N.leb_le; lia).
    reflexivity.
Qed.

Lemma iter_sound : forall (sk : bytes -> option bytes),
  (forall b r, sk b = Some r -> exists v, b = v ++ r /\ WF v) ->
  forall k b r, iter_opt sk k b = Some r ->
  exists items, b = concat items ++ r /\ Forall WF items /\ length items = k.
Proof.
  intros sk Hsk k. induction k as [|k IH]; intros b r H; simpl in H.
  - inversion H; subst. exists []. repeat split; constructor.
  - destruct (sk b) as [r1|] eqn:E; [|discriminate].
    apply Hsk in E as [v [Eb Wv]]. apply IH in H as [items [Er [Fi Li]]].
    exists (v :: items). split; [|split].
    + simpl. rewrite <- app_assoc. rewrite <- Er. exact Eb.
    + constructor; assumption.
    + simpl. rewrite Li. reflexivity.
Qed.

Lemma clamp_le : forall n r, n <= N.of_nat (length r) -> clamp n r = N.to_nat n.
Proof. intros n r H. unfold clamp. f_equal. lia. Qed.

Lemma skip_sound : forall f b r, skip f b = Some r -> exists v, b = v ++ r /\ WF v.
Proof.
  induction f as [|f IH]; intros b r H; [discriminate|].
  simpl in H. destruct b as [|c r0]; [discriminate|].
  destruct (lead_shape c) as [k0|w ex0|w|w|] eqn:Hs.
  - destruct (leaf_extent c r0) as [k|] eqn:L; [|discriminate]. inversion H; subst.
    exists (c :: firstn k r0). split.
    + simpl. f_equal. symmetry. apply firstn_skipn.
    + apply WF_scalar; [unfold scalar_shape; rewrite Hs; exact I|apply leaf_extent_firstn; exact L].
  - destruct (leaf_extent c r0) as [k|] eqn:L; [|discriminate]. inversion H; subst.
    exists (c :: firstn k r0). split.
    + simpl. f_equal. symmetry. apply firstn_skipn.
    + apply WF_scalar; [unfold scalar_shape; rewrite Hs; exact I|apply leaf_extent_firstn; exact L].
  - destruct (read_count w c r0) as [[n r']|] eqn:RC; [|discriminate].
    destruct (iter_opt (skip f) (clamp n r') r') as [rest|] eqn:IT; [|discriminate].
    destruct (n <=? N.of_nat (length r')) eqn:B; [|discriminate]. inversion H; subst.
    apply N.leb_le in B. rewrite clamp_le in IT by exact B.
    apply read_count_split in RC as [hdr [E0 HO]].
    apply (iter_sound _ IH) in IT as [items [Er [Fi Li]]].
    exists (c :: hdr ++ concat items). split.
    + simpl. f_equal. rewrite E0, Er. rewrite <- app_assoc. reflexivity.
    + eapply WF_arr; [exact Hs| |exact Fi]. unfold bytes in *. rewrite Li. rewrite N2Nat.id. exact HO.
  - destruct (read_count w c r0) as [[n r']|] eqn:RC; [|discriminate].
    destruct (iter_opt (skip f) (2 * clamp n r') r') as [rest|] eqn:IT; [|discriminate].
    destruct (n <=? N.of_nat (length r')) eqn:B; [|discriminate]. inversion H; subst.
    apply N.leb_le in B. rewrite clamp_le in IT by exact B.
    apply read_count_split in RC as [hdr [E0 HO]].
    apply (iter_sound _ IH) in IT as [items [Er [Fi Li]]].
    exists (c :: hdr ++ concat items). split.
    + simpl. f_equal. rewrite E0, Er. rewrite <- app_assoc. reflexivity.
    + eapply WF_map; [exact Hs|exact HO|exact Li|exact Fi].
  - discriminate.
Qed.

(* a validated value is a well-formed msgpack value *)
Lemma valid_value_WF : forall v, valid_value v = true -> WF v.
Proof.
  unfold valid_value. intros v H. destruct (skip (S (length v)) v) as [[|x t]|] eqn:E; try discriminate.
  apply skip_sound in E as [w [Ev Ww]]. rewrite app_nil_r in Ev. subst. exact Ww.
Qed.

(* ---- 3. headers written by the encoder ---------------------------------------------------- *)
Lemma be_val_be2 : forall n, n <= 65535 -> be_val 0 (be2 n) = n.
Proof. intros n H. unfold be2. simpl. lia. Qed.

Lemma be_val_be4 : forall n, n < 4294967296 -> be_val 0 (be4 n) = n.
Proof. intros n H. unfold be4. simpl. lia. Qed.

Lemma land15 : forall n, n < 16 -> N.land (128 + n) 15 = n /\ N.land (144 + n) 15 = n.
Proof.
  intros n H. change 15 with (N.ones 4). rewrite !N.land_ones. change (2 ^ 4) with 16. lia.
Qed.

Lemma land31 : forall n, n < 32 -> N.land (160 + n) 31 = n.
Proof.
  intros n H. change 31 with (N.ones 5). rewrite !N.land_ones. change (2 ^ 5) with 32. lia.
Qed.

Lemma shape_fixmap : forall n, n < 16 -> lead_shape (128 + n) = ShMap 0.
Proof.
  intros n H. unfold lead_shape.
  destruct (128 + n <=? 127) eqn:E1; [lia|]. destruct (128 + n <=? 143) eqn:E2; [reflexivity|lia].
Qed.

Lemma shape_fixarr : forall n, n < 16 -> lead_shape (144 + n) = ShArr 0.
Proof.
  intros n H. unfold lead_shape.
  destruct (144 + n <=? 127) eqn:E1; [lia|]. destruct (144 + n <=? 143) eqn:E2; [lia|].
  destruct (144 + n <=? 159) eqn:E3; [reflexivity|lia].
Qed.

Lemma shape_fixstr : forall n, n < 32 -> lead_shape (160 + n) = ShFixed (N.to_nat n).
Proof.
  intros n H. unfold lead_shape.
  destruct (160 + n <=? 127) eqn:E1; [lia|]. destruct (160 + n <=? 143) eqn:E2; [lia|].
  destruct (160 + n <=? 159) eqn:E3; [lia|]. destruct (160 + n <=? 191) eqn:E4; [|lia].
  rewrite land31 by exact H. reflexivity.
Qed.

Lemma map_header_ok : forall n, n < 4294967296 ->
  exists c w hdr, map_header n = c :: hdr /\ lead_shape c = ShMap w /\ hdr_ok w c hdr n.
Proof.
  intros n H. unfold map_header. destruct (n <? 16) eqn:E1.
  - exists (128 + n), O, []. split; [reflexivity|]. split; [apply shape_fixmap; lia|].
    split; [reflexivity|]. apply land15. lia.
  - destruct (n <=? 65535) eqn:E2.
    + exists 222, 2%nat, (be2 n). split; [reflexivity|]. split; [reflexivity|]. split; [reflexivity|].
      apply be_val_be2. lia.
    + exists 223, 4%nat, (be4 n). split; [reflexivity|]. split; [reflexivity|]. split; [reflexivity|].
      apply be_val_be4. lia.
Qed.

Lemma arr_header_ok : forall n, n < 4294967296 ->
  exists c w hdr, arr_header n = c :: hdr /\ lead_shape c = ShArr w /\ hdr_ok w c hdr n.
Proof.
  intros n H. unfold arr_header. destruct (n <? 16) eqn:E1.
  - exists (144 + n), O, []. split; [reflexivity|]. split; [apply shape_fixarr; lia|].
    split; [reflexivity|]. apply land15. lia.
  - destruct (n <=? 65535) eqn:E2.
    + exists 220, 2%nat, (be2 n). split; [reflexivity|]. split; [reflexivity|]. split; [reflexivity|].
      apply be_val_be2. lia.
    + exists 221, 4%nat, (be4 n). split; [reflexivity|]. split; [reflexivity|]. split; [reflexivity|].
      apply be_val_be4. lia.
Qed.

(* what the parser sees in front of an encoded key *)
Lemma enc_str_extent : forall k, N.of_nat (length k) < 4294967296 ->
  exists c p, enc_str k = c :: p /\ is_string_code c = true /\ scalar_shape c /\
    (forall rest, leaf_extent c (p ++ rest) = Some (length p)) /\
    skipn (match lead_shape c with ShLen w _ => w | _ => O end) p = k.
Proof.
  intros k H. unfold enc_str, str_header. set (n := N.of_nat (length k)) in *.
  destruct (n <? 32) eqn:E1.
  - exists (160 + n), k. split; [reflexivity|]. split.
    { unfold is_string_code, is_fixstr, in_range.
      destruct (160 <=? 160 + n) eqn:A; [|lia]. destruct (160 + n <=? 191) eqn:B; [reflexivity|lia]. }
    split. { unfold scalar_shape. rewrite shape_fixstr by lia. exact I. }
    split.
    + intro rest. unfold leaf_extent. rewrite shape_fixstr by lia.
      replace (N.to_nat n) with (length k) by lia.
      rewrite app_length. replace (length k <=? length k + length rest)%nat with true
        by (symmetry; apply Nat.leb_le; lia). reflexivity.
    + rewrite shape_fixstr by lia. reflexivity.
  - destruct (n <? 256) eqn:E2.
    + exists 217, (n :: k). split; [reflexivity|]. split; [reflexivity|]. split; [exact I|]. split.
      * intro rest. unfold leaf_extent. change (lead_shape 217) with (ShLen 1 0).
        unfold read_be, take. simpl length.
        replace (1 <=? S (length (k ++ rest)))%nat with true by reflexivity.
        change (firstn 1 ((n :: k) ++ rest)) with [n]. change (skipn 1 ((n :: k) ++ rest)) with (k ++ rest).
        simpl be_val. rewrite app_length.
        replace (0 * 256 + n + N.of_nat 0 <=? N.of_nat (length k + length rest)) with true
          by (symmetry; apply N.leb_le; lia).
        f_equal. lia.
      * reflexivity.
    + destruct (n <=? 65535) eqn:E3.
      * exists 218, (be2 n ++ k). split; [reflexivity|]. split; [reflexivity|]. split; [exact I|]. split.
        -- intro rest. unfold leaf_extent. change (lead_shape 218) with (ShLen 2 0).
           unfold read_be, take. rewrite <- app_assoc. unfold be2 at 1 2 3. simpl length.
           replace (2 <=? S (S (length (k ++ rest))))%nat with true by reflexivity.
           change (firstn 2 ([n / 256 mod 256; n mod 256] ++ k ++ rest)) with (be2 n).
           change (skipn 2 ([n / 256 mod 256; n mod 256] ++ k ++ rest)) with (k ++ rest).
           rewrite be_val_be2 by lia. rewrite !app_length.
           replace (n + N.of_nat 0 <=? N.of_nat (length k + length rest)) with true
             by (symmetry; apply N.leb_le; lia).
           f_equal. unfold be2. simpl length. lia.
        -- reflexivity.
      * exists 219, (be4 n ++ k). split; [reflexivity|]. split; [reflexivity|]. split; [exact I|]. split.
        -- intro rest. unfold leaf_extent. change (lead_shape 219) with (ShLen 4 0).
           unfold read_be, take. rewrite <- app_assoc. unfold be4 at 1 2 3. simpl length.
           replace (4 <=? S (S (S (S (length (k ++ rest))))))%nat with true by reflexivity.
           change (firstn 4 ([n / 16777216 mod 256; n / 65536 mod 256; n / 256 mod 256; n mod 256] ++ k ++ rest)) with (be4 n).
           change (skipn 4 ([n / 16777216 mod 256; n / 65536 mod 256; n / 256 mod 256; n mod 256] ++ k ++ rest)) with (k ++ rest).
           rewrite be_val_be4 by lia. rewrite !app_length.
           replace (n + N.of_nat 0 <=? N.of_nat (length k + length rest)) with true
             by (symmetry; apply N.leb_le; lia).
           f_equal. unfold be4. simpl length. lia.
        -- reflexivity.
Qed.

Lemma enc_str_WF : forall k, N.of_nat (length k) < 4294967296 -> WF (enc_str k).
Proof.
  intros k H. destruct (enc_str_extent k H) as [c [p [E [_ [S [L _]]]]]]. rewrite E.
  apply WF_scalar; [exact S|]. specialize (L []). rewrite app_nil_r in L. exact L.
Qed.

(* ---- 4. serialisation of a well-formed skeleton is well-formed ----------------------------- *)
(* [skel_all L K C s]: every leaf satisfies L, every key K, every container child count C *)
Fixpoint skel_all (L K : bytes -> Prop) (C : nat -> Prop) (s : skel) : Prop :=
  match s with
  | SLeaf raw => L raw
  | SMap fs =>
      C (length fs) /\
      (fix go (l : list (bytes * skel)) : Prop :=
         match l with [] => True | (k, v) :: t => (K k /\ skel_all L K C v) /\ go t end) fs
  | SArr xs =>
      C (length xs) /\
      (fix go (l : list skel) : Prop := match l with [] => True | v :: t => skel_all L K C v /\ go t end) xs
  end.

Lemma skel_all_map : forall L K C fs,
  skel_all L K C (SMap fs) <-> C (length fs) /\ Forall (fun kv => K (fst kv) /\ skel_all L K C (snd kv)) fs.
Proof.
  intros L K C fs. simpl. apply and_iff_compat_l. induction fs as [|[k v] t IH]; split; intro H.
  - constructor.
  - exact I.
  - destruct H as [H1 H2]. constructor; [exact H1|apply IH; exact H2].
  - inversion H; subst. split; [assumption|apply IH; assumption].
Qed.

Lemma skel_all_arr : forall L K C xs,
  skel_all L K C (SArr xs) <-> C (length xs) /\ Forall (skel_all L K C) xs.
Proof.
  intros L K C xs. simpl. apply and_iff_compat_l. induction xs as [|v t IH]; split; intro H.
  - constructor.
  - exact I.
  - destruct H as [H1 H2]. constructor; [exact H1|apply IH; exact H2].
  - inversion H; subst. split; [assumption|apply IH; assumption].
Qed.

Fixpoint skel_ind' (P : skel -> Prop)
  (Hl : forall raw, P (SLeaf raw))
  (Hm : forall fs, Forall (fun kv => P (snd kv)) fs -> P (SMap fs))
  (Ha : forall xs, Forall P xs -> P (SArr xs)) (s : skel) : P s :=
  match s with
  | SLeaf raw => Hl raw
  | SMap fs => Hm fs ((fix go (l : list (bytes * skel)) : Forall (fun kv => P (snd kv)) l :=
                         match l with
                         | [] => Forall_nil _
                         | kv :: t => Forall_cons kv (skel_ind' P Hl Hm Ha (snd kv)) (go t)
                         end) fs)
  | SArr xs => Ha xs ((fix go (l : list skel) : Forall P l :=
                         match l with
                         | [] => Forall_nil _
                         | v :: t => Forall_cons v (skel_ind' P Hl Hm Ha v) (go t)
                         end) xs)
  end.

Definition ktrue (_ : bytes) : Prop := True.
Definition ctrue (_ : nat) : Prop := True.
Definition ksmall (k : bytes) : Prop := N.of_nat (length k) < 4294967296.
Definition csmall (n : nat) : Prop := N.of_nat n < 4294967296.

(* every leaf is a well-formed msgpack value (the invariant the operations maintain) *)
Definition leaves_wf (s : skel) : Prop := skel_all WF ktrue ctrue s.
(* sizes the encoder can express: keys and child counts below 2^32 (the uint32 truncation of
   lengths in EncodeString/EncodeMapLen/EncodeArrayLen is not reached) *)
Definition small (s : skel) : Prop := skel_all (fun _ => True) ksmall csmall s.
Definition skel_ok (s : skel) : Prop := skel_all WF ksmall csmall s.

Lemma skel_ok_intro : forall s, leaves_wf s -> small s -> skel_ok s.
Proof.
  unfold leaves_wf, small, skel_ok.
  induction s as [raw|fs IH|xs IH] using skel_ind'; intros H1 H2.
  - exact H1.
  - apply skel_all_map in H1 as [_ F1]. apply skel_all_map in H2 as [C2 F2]. apply skel_all_map. split; [exact C2|]. clear C2.
    induction fs as [|kv t IHt]; [constructor|].
    inversion IH; subst. inversion F1; subst. inversion F2; subst.
    constructor; [|apply IHt; assumption].
    split; [tauto|]. apply H1; tauto.
  - apply skel_all_arr in H1 as [_ F1]. apply skel_all_arr in H2 as [C2 F2]. apply skel_all_arr. split; [exact C2|]. clear C2.
    induction xs as [|v t IHt]; [constructor|].
    inversion IH; subst. inversion F1; subst. inversion F2; subst.
    constructor; [|apply IHt; assumption]. apply H1; assumption.
Qed.

Definition ser_fields (fs : list (bytes * skel)) : bytes :=
  (fix go (l : list (bytes * skel)) : bytes :=
     match l with [] => [] | (k, v) :: t => enc_str k ++ serialize v ++ go t end) fs.
Definition ser_items (xs : list skel) : bytes :=
  (fix go (l : list skel) : bytes := match l with [] => [] | v :: t => serialize v ++ go t end) xs.

Lemma serialize_WF : forall s, skel_ok s -> WF (serialize s).
Proof.
  unfold skel_ok.
  induction s as [raw|fs IH|xs IH] using skel_ind'; intro H.
  - exact H.
  - apply skel_all_map in H as [Hn Hf].
    change (serialize (SMap fs)) with (map_header (N.of_nat (length fs)) ++ ser_fields fs).
    destruct (map_header_ok _ Hn) as [c [w [hdr [E [Sh HO]]]]]. rewrite E.
    assert (G : exists items, ser_fields fs = concat items /\ Forall WF items /\ length items = (2 * length fs)%nat).
    { clear Hn E HO. induction fs as [|[k v] t IHt].
      - exists []. repeat split; constructor.
      - inversion Hf as [|? ? [Hk Hv] Ht]; subst. inversion IH as [|? ? Pv Pt]; subst.
        destruct (IHt Pt Ht) as [items [Ei [Fi Li]]].
        exists (enc_str k :: serialize v :: items). split; [|split].
        + change (ser_fields ((k, v) :: t)) with (enc_str k ++ serialize v ++ ser_fields t).
          rewrite Ei. simpl. reflexivity.
        + constructor; [apply enc_str_WF; exact Hk|]. constructor; [apply Pv; exact Hv|exact Fi].
        + simpl. rewrite Li. lia. }
    destruct G as [items [Ei [Fi Li]]]. rewrite Ei. simpl.
    eapply WF_map; [exact Sh|exact HO| |exact Fi]. unfold bytes in *. rewrite Li. lia.
  - apply skel_all_arr in H as [Hn Hf].
    change (serialize (SArr xs)) with (arr_header (N.of_nat (length xs)) ++ ser_items xs).
    destruct (arr_header_ok _ Hn) as [c [w [hdr [E [Sh HO]]]]]. rewrite E.
    assert (G : exists items, ser_items xs = concat items /\ Forall WF items /\ length items = length xs).
    { clear Hn E HO. induction xs as [|v t IHt].
      - exists []. repeat split; constructor.
      - inversion Hf as [|? ? Hv Ht]; subst. inversion IH as [|? ? Pv Pt]; subst.
        destruct (IHt Pt Ht) as [items [Ei [Fi Li]]].
        exists (serialize v :: items). split; [|split].
        + change (ser_items (v :: t)) with (serialize v ++ ser_items t). rewrite Ei. reflexivity.
        + constructor; [apply Pv; exact Hv|exact Fi].
        + simpl. rewrite Li. reflexivity. }
    destruct G as [items [Ei [Fi Li]]]. rewrite Ei. simpl.
    eapply WF_arr; [exact Sh| |exact Fi]. unfold bytes in *. rewrite Li. exact HO.
Qed.

(* ---- 5. what the parser produces has well-formed leaves ------------------------------------- *)
Lemma parse_many_all : forall (A : Type) (p : bytes -> res (A * bytes)) (P : A -> Prop),
  (forall b x r, p b = Ok (x, r) -> P x) ->
  forall n b xs r, parse_many p n b = Ok (xs, r) -> Forall P xs.
Proof.
  intros A p P Hp n. induction n as [|n IH]; intros b xs r H; simpl in H.
  - inversion H; subst. constructor.
  - destruct (p b) as [[x r1]|e] eqn:E; [|discriminate].
    destruct (parse_many p n r1) as [[xs' r2]|e] eqn:E2; [|discriminate].
    inversion H; subst. constructor; [eapply Hp; exact E|eapply IH; exact E2].
Qed.

Lemma parse_node_leaves_wf : forall f b s r, parse_node f b = Ok (s, r) -> leaves_wf s.
Proof.
  unfold leaves_wf.
  induction f as [|f IH]; intros b s r H; [discriminate|].
  simpl in H. destruct b as [|c r0]; [discriminate|].
  assert (LEAF : forall k, leaf_extent c r0 = Some k ->
                 (match lead_shape c with ShFixed _ | ShLen _ _ => True | _ => False end) ->
                 skel_all WF ktrue ctrue (SLeaf (c :: firstn k r0))).
  { intros k L S. simpl. apply WF_scalar; [exact S|apply leaf_extent_firstn; exact L]. }
  destruct (lead_shape c) as [k0|w ex0|w|w|] eqn:Hs.
  - destruct (leaf_extent c r0) as [k|] eqn:L; [|discriminate]. inversion H; subst. apply LEAF; [reflexivity|exact I].
  - destruct (leaf_extent c r0) as [k|] eqn:L; [|discriminate]. inversion H; subst. apply LEAF; [reflexivity|exact I].
  - destruct (read_count w c r0) as [[n r']|]; [|discriminate].
    destruct (parse_many (parse_node f) (clamp n r') r') as [[xs rest]|e] eqn:PM; [|discriminate].
    destruct (n <=? N.of_nat (length r')); [|discriminate]. inversion H; subst.
    apply skel_all_arr. split; [exact I|].
    eapply parse_many_all; [|exact PM]. intros b0 x r1 E. eapply IH; exact E.
  - destruct (read_count w c r0) as [[n r']|]; [|discriminate].
    destruct (parse_many (parse_field (parse_node f)) (clamp n r') r') as [[fs rest]|e] eqn:PM; [|discriminate].
    destruct (n <=? N.of_nat (length r')); [|discriminate]. inversion H; subst.
    apply skel_all_map. split; [exact I|].
    eapply parse_many_all; [|exact PM]. intros b0 [k v] r1 E. unfold parse_field in E.
    destruct (parse_key b0) as [[k0 rk]|e]; [|discriminate].
    destruct (parse_node f rk) as [[v0 rv]|e] eqn:PN; [|discriminate].
    inversion E; subst. split; [exact I|]. simpl. eapply IH; exact PN.
  - unfold leaf_extent in H. rewrite Hs in H. discriminate.
Qed.

Lemma parse_leaves_wf : forall b s, parse b = Ok s -> leaves_wf s.
Proof.
  unfold parse. intros b s H. destruct (parse_node (S (length b)) b) as [[s0 r]|e] eqn:E; [|discriminate].
  destruct r; [|discriminate]. inversion H; subst. eapply parse_node_leaves_wf; exact E.
Qed.
