From HV Require Import Base.Prelude Patch.Msgpack Gen.C13Consts.
Local Open Scope N_scope.
