(* Patch/FrameProofs.v — untouched leaves keep their exact bytes and their relative order.
   [leaves s] is the sequence of leaf byte strings of a skeleton in document order.  For every
   operation: the leaves of the result are the leaves of the input with only the segment that
   belongs to the addressed target (empty if the target does not exist) replaced. *)
From HV Require Import Base.Prelude Patch.Msgpack Patch.Path Patch.Ops Patch.OpsProofs.
Local Open Scope N_scope.

Fixpoint leaves (s : skel) : list bytes :=
  match s with
  | SLeaf raw => [raw]
  | SMap fs => (fix go (l : list (bytes * skel)) : list bytes :=
                  match l with [] => [] | (_, v) :: t => leaves v ++ go t end) fs
  | SArr xs => (fix go (l : list skel) : list bytes :=
                  match l with [] => [] | v :: t => leaves v ++ go t end) xs
  end.

Definition lf (fs : fields) : list bytes := leaves (SMap fs).
Definition la (xs : list skel) : list bytes := leaves (SArr xs).

Lemma lf_cons : forall k v t, lf ((k, v) :: t) = leaves v ++ lf t.
Proof. reflexivity. Qed.
Lemma la_cons : forall v t, la (v :: t) = leaves v ++ la t.
Proof. reflexivity. Qed.

Lemma lf_app : forall a b, lf (a ++ b) = lf a ++ lf b.
Proof.
  induction a as [|[k v] t IH]; intro b; [reflexivity|].
  change (((k, v) :: t) ++ b) with ((k, v) :: (t ++ b)). rewrite !lf_cons, IH, app_assoc. reflexivity.
Qed.
Lemma la_app : forall a b, la (a ++ b) = la a ++ la b.
Proof.
  induction a as [|v t IH]; intro b; [reflexivity|].
  change ((v :: t) ++ b) with (v :: (t ++ b)). rewrite !la_cons, IH, app_assoc. reflexivity.
Qed.

(* the leaves of the addressed target; [] when it does not exist (missing field, append marker) *)
Definition target_leaves (segs : list seg) (s : skel) : list bytes :=
  match resolve segs s with Ok (Some t) => leaves t | _ => [] end.

Record handlers_frame (h : handlers) : Prop := {
  hf_missing : forall fs name rest fs', h_missing h fs name rest = Ok fs' -> exists new, lf fs' = lf fs ++ new;
  hf_field : forall b name v a fs', h_field h b name v a = Ok fs' -> exists new, lf fs' = lf b ++ new ++ lf a;
  hf_index : forall b v a xs', h_index h b v a = Ok xs' -> exists new, la xs' = la b ++ new ++ la a;
  hf_append : forall xs xs', h_append h xs = Ok xs' -> exists new, la xs' = new ++ la xs \/ la xs' = la xs ++ new
}.

Lemma walk_frame : forall h, handlers_frame h -> forall segs s s',
  walk h segs s = Ok s' ->
  exists l1 new l2, leaves s = l1 ++ target_leaves segs s ++ l2 /\ leaves s' = l1 ++ new ++ l2.
Proof.
  intros h Hh segs. induction segs as [|sg rest IH]; intros s s' H; simpl in H; [discriminate|].
  unfold target_leaves. simpl resolve.
  destruct sg as [name|i|].
  - destruct s as [raw|fs|xs]; try discriminate.
    destruct (split_field name fs) as [[[b v] a]|] eqn:S.
    + apply split_field_app in S as [k [Efs _]]. subst fs.
      destruct rest as [|sg2 rest2].
      * unfold bind in H. destruct (h_field h b name v a) as [fs'|e] eqn:E; [|discriminate].
        inversion H; subst. destruct (hf_field h Hh _ _ _ _ _ E) as [new Hn].
        exists (lf b), new, (lf a). split; [|exact Hn].
        change (leaves (SMap (b ++ (k, v) :: a))) with (lf (b ++ (k, v) :: a)). rewrite lf_app, lf_cons. reflexivity.
      * unfold bind in H. destruct (walk h (sg2 :: rest2) v) as [v'|e] eqn:E; [|discriminate].
        inversion H; subst. destruct (IH _ _ E) as [l1 [new [l2 [E1 E2]]]].
        exists (lf b ++ l1), new, (l2 ++ lf a). unfold target_leaves in E1.
        change (leaves (SMap (b ++ (k, v) :: a))) with (lf (b ++ (k, v) :: a)).
        change (leaves (SMap (b ++ (name, v') :: a))) with (lf (b ++ (name, v') :: a)).
        rewrite !lf_app, !lf_cons, E1, E2. rewrite <- !app_assoc. split; reflexivity.
    + unfold bind in H. destruct (h_missing h fs name rest) as [fs'|e] eqn:E; [|discriminate].
      inversion H; subst. destruct (hf_missing h Hh _ _ _ _ E) as [new Hn].
      exists (lf fs), new, []. split; [simpl; rewrite app_nil_r; reflexivity|].
      rewrite app_nil_r. exact Hn.
  - destruct s as [raw|fs|xs]; try discriminate.
    destruct (resolve_index i (length xs)) as [idx|]; [|discriminate].
    destruct (split_nth idx xs) as [[[b v] a]|] eqn:S; [|discriminate].
    apply split_nth_app in S. subst xs.
    destruct rest as [|sg2 rest2].
    + unfold bind in H. destruct (h_index h b v a) as [xs'|e] eqn:E; [|discriminate].
      inversion H; subst. destruct (hf_index h Hh _ _ _ _ E) as [new Hn].
      exists (la b), new, (la a). split; [|exact Hn].
      change (leaves (SArr (b ++ v :: a))) with (la (b ++ v :: a)). rewrite la_app, la_cons. reflexivity.
    + unfold bind in H. destruct (walk h (sg2 :: rest2) v) as [v'|e] eqn:E; [|discriminate].
      inversion H; subst. destruct (IH _ _ E) as [l1 [new [l2 [E1 E2]]]].
      exists (la b ++ l1), new, (l2 ++ la a). unfold target_leaves in E1.
      change (leaves (SArr (b ++ v :: a))) with (la (b ++ v :: a)).
      change (leaves (SArr (b ++ v' :: a))) with (la (b ++ v' :: a)).
      rewrite !la_app, !la_cons, E1, E2. rewrite <- !app_assoc. split; reflexivity.
  - destruct rest; [|discriminate]. destruct s as [raw|fs|xs]; try discriminate.
    unfold bind in H. destruct (h_append h xs) as [xs'|e] eqn:E; [|discriminate].
    inversion H; subst. destruct (hf_append h Hh _ _ E) as [new [Hn|Hn]].
    + exists [], new, (la xs). split; [reflexivity|]. exact Hn.
    + exists (la xs), new, []. split; [simpl; rewrite app_nil_r; reflexivity|]. rewrite app_nil_r. exact Hn.
Qed.

Ltac put_field := eexists; rewrite lf_app, lf_cons; reflexivity.
Ltac put_item := eexists; rewrite la_app, la_cons; reflexivity.
Ltac snoc_field := eexists; rewrite lf_app; reflexivity.

Lemma create_fields_frame : forall fs name rest v fs',
  create_fields fs name rest v = Ok fs' -> exists new, lf fs' = lf fs ++ new.
Proof.
  unfold create_fields. intros fs name rest v fs' H. destruct (field_names rest); [|discriminate].
  inversion H; subst. snoc_field.
Qed.

Lemma drop_field : forall b a, exists new : list bytes, lf (b ++ a) = lf b ++ new ++ lf a.
Proof. intros. exists []. rewrite lf_app. reflexivity. Qed.
Lemma drop_item : forall b a, exists new : list bytes, la (b ++ a) = la b ++ new ++ la a.
Proof. intros. exists []. rewrite la_app. reflexivity. Qed.
Lemma keep_fields : forall fs, exists new : list bytes, lf fs = lf fs ++ new.
Proof. intros. exists []. rewrite app_nil_r. reflexivity. Qed.
Lemma keep_items : forall xs, exists new : list bytes, la xs = new ++ la xs \/ la xs = la xs ++ new.
Proof. intros. exists []. left. reflexivity. Qed.

Lemma h_set_frame : forall v, handlers_frame (h_set v).
Proof.
  intro v. constructor; simpl.
  - intros. eapply create_fields_frame; eauto.
  - intros b name t a fs' H. inversion H; subst. put_field.
  - intros b t a xs' H. inversion H; subst. put_item.
  - intros; discriminate.
Qed.

Lemma h_delete_frame : handlers_frame h_delete.
Proof.
  constructor; simpl.
  - intros fs name rest fs' H. inversion H; subst. apply keep_fields.
  - intros b name t a fs' H. inversion H; subst. apply drop_field.
  - intros b t a xs' H. inversion H; subst. apply drop_item.
  - intros xs xs' H. inversion H; subst. apply keep_items.
Qed.

Lemma h_remove_at_frame : handlers_frame h_remove_at.
Proof.
  constructor; simpl; try (intros; discriminate).
  - intros b name t a fs' H. inversion H; subst. apply drop_field.
  - intros b t a xs' H. inversion H; subst. apply drop_item.
Qed.

Lemma h_inc_frame : forall v d, handlers_frame (h_inc v d).
Proof.
  intros v d. constructor; simpl.
  - intros. eapply create_fields_frame; eauto.
  - intros b name t a fs' H. unfold bind in H. destruct (inc_target t d); [|discriminate]. inversion H; subst. put_field.
  - intros b t a xs' H. unfold bind in H. destruct (inc_target t d); [|discriminate]. inversion H; subst. put_item.
  - intros; discriminate.
Qed.

Lemma h_append_frame : forall v p, handlers_frame (h_append_op v p).
Proof.
  intros v p. constructor; simpl; try (intros; discriminate).
  - intros fs name rest fs' H. unfold create_array in H.
    destruct (rev rest) as [|[| |] ri]; try discriminate.
    destruct (field_names (rev ri)); [|discriminate]. inversion H; subst. snoc_field.
  - intros xs xs' H. inversion H; subst. exists [v]. destruct p.
    + left. reflexivity.
    + right. rewrite la_app. reflexivity.
Qed.

Lemma h_remove_val_frame : forall v, handlers_frame (h_remove_val v).
Proof.
  intro v. constructor; simpl.
  - intros fs name rest fs' H. inversion H; subst. apply keep_fields.
  - intros b name t a fs' H. unfold bind in H. destruct (remove_val_target v t); [|discriminate]. inversion H; subst. put_field.
  - intros b t a xs' H. unfold bind in H. destruct (remove_val_target v t); [|discriminate]. inversion H; subst. put_item.
  - intros xs xs' H. inversion H; subst. apply keep_items.
Qed.

Lemma h_merge_frame : forall pfs, handlers_frame (h_merge pfs).
Proof.
  intro pfs. constructor; simpl.
  - intros. eapply create_fields_frame; eauto.
  - intros b name t a fs' H. unfold bind in H. destruct (merge_target pfs t); [|discriminate]. inversion H; subst. put_field.
  - intros b t a xs' H. unfold bind in H. destruct (merge_target pfs t); [|discriminate]. inversion H; subst. put_item.
  - intros; discriminate.
Qed.

(* untouched_bytes_preserved: one operation changes only the leaf segment of its target *)
Theorem untouched_bytes_preserved : forall c s o segs s',
  apply_op c s o segs = Ok s' ->
  exists l1 new l2, leaves s = l1 ++ target_leaves segs s ++ l2 /\ leaves s' = l1 ++ new ++ l2.
Proof.
  intros c s o segs s' H. unfold apply_op in H.
  set (v := op_value o) in *.
  destruct (op_kind o) as [|p]; [|destruct p as [[[|p|]|[|p|]|]|[[|p|]|[|p|]|]|]]; try discriminate;
    unfold bind in H;
    repeat match type of H with
           | match ?x with Ok _ => _ | Err _ => _ end = _ => destruct x; [|discriminate]
           | (if ?x then _ else _) = _ => destruct x; [|discriminate]
           | match ?x with NInt _ => _ | NUint _ => _ | NFloat _ => _ | NNone => _ end = _ => destruct x; try discriminate
           end.
  all: refine (walk_frame _ _ _ _ _ H);
    first [apply h_set_frame | apply h_delete_frame | apply h_inc_frame | apply h_append_frame
          | apply h_remove_at_frame | apply h_remove_val_frame | apply h_merge_frame].
Qed.

(* MERGE into an existing map: a key that the patch does not mention keeps its value *)
Lemma split_field_put_other : forall name k (b : fields) x y a,
  bytes_eqb k name = false ->
  option_map (fun t => snd (fst t)) (split_field name (b ++ (k, y) :: a)) =
  option_map (fun t => snd (fst t)) (split_field name (b ++ (k, x) :: a)).
Proof.
  intros name k b x y a Hk. induction b as [|[k0 v0] t IH]; simpl.
  - rewrite Hk. destruct (split_field name a) as [[[? ?] ?]|]; reflexivity.
  - destruct (bytes_eqb k0 name); [reflexivity|].
    destruct (split_field name (t ++ (k, y) :: a)) as [[[? ?] ?]|];
    destruct (split_field name (t ++ (k, x) :: a)) as [[[? ?] ?]|]; simpl in *; congruence.
Qed.

(* example: SET of one field leaves every other leaf byte-identical, in order *)
Example untouched_example :
  exists s s', parse ex_body = Ok s /\ apply_op cfg_fixed s (ex_set [120] [192]) [SegField [120]] = Ok s' /\
    leaves s = [[1]; [208; 127]] /\ leaves s' = [[192]; [208; 127]] /\ target_leaves [SegField [120]] s = [[1]].
Proof.
  eexists. eexists. split; [vm_compute; reflexivity|]. split; [vm_compute; reflexivity|].
  repeat split; vm_compute; reflexivity.
Qed.
