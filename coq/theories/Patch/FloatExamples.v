(* Patch/FloatExamples.v — a float32 field is compared with a float64 threshold at full float64
   precision: the field is widened exactly, the threshold is never narrowed.  Worked on the model
   (the harness compares the same adjacent pairs, and thousands more, with the Go code). *)
From Coq Require Import Floats.SpecFloat.
From HV Require Import Base.Prelude Patch.Msgpack Patch.Path Patch.Float Patch.Ops Patch.Cond.
Local Open Scope N_scope.

Definition f32_0_1 : bytes := [202; 61; 204; 204; 205].                        (* float32 0.1 *)
Definition f64_0_1 : bytes := [203; 63; 185; 153; 153; 153; 153; 153; 154].    (* float64 0.1 *)
Definition f32_1 : bytes := [202; 63; 128; 0; 0].                              (* float32 1 *)
Definition f64_1_eps : bytes := [203; 63; 240; 0; 0; 0; 0; 0; 1].              (* float64 1 + 2^-52 *)
Definition f32_max : bytes := [202; 127; 127; 255; 255].                       (* float32 max *)
Definition f64_1e300 : bytes := [203; 126; 55; 225; 67; 197; 201; 46; 203].    (* about 1e300 *)
Definition f64_of_f32_0_1 : bytes := [203; 63; 185; 153; 153; 160; 0; 0; 0].   (* float64(float32 0.1) *)

Theorem float32_field_vs_float64_threshold :
  compare_leaf cfg_fixed f32_0_1 f64_0_1 = Ok CGt /\          (* 0.1f = 0.100000001490116 > 0.1 *)
  compare_leaf cfg_fixed f64_0_1 f32_0_1 = Ok CLt /\
  compare_leaf cfg_fixed f32_0_1 f64_of_f32_0_1 = Ok CEq /\   (* equal only to its exact image *)
  compare_leaf cfg_fixed f32_1 f64_1_eps = Ok CLt /\          (* one float64 ulp is seen *)
  compare_leaf cfg_fixed f32_max f64_1e300 = Ok CLt.          (* no overflow to +Inf *)
Proof. vm_compute. repeat split; reflexivity. Qed.

(* hence: EQUAL against the float64 literal 0.1 is NOT met on a float32 0.1 field, GREATER_THAN is *)
Example float32_condition_patch :
  let body := [129; 161; 102] ++ f32_0_1 in
  apply_with_cond cfg_fixed body [] (Some {| cond_path := [102]; cond_op := 0; cond_threshold := f64_0_1 |}) = Err ECondNotMet /\
  apply_with_cond cfg_fixed body [] (Some {| cond_path := [102]; cond_op := 2; cond_threshold := f64_0_1 |}) = Ok body.
Proof. vm_compute. split; reflexivity. Qed.
