(* Query/PlannerProofs.v — planner_sound: for every plan the planner produces, the full-scan
   value of the group (match decision and collected labels) is recovered from the bucket lookup
   of the hints and the scan of the residual. *)
From HV Require Import Base.Prelude Query.Canon Query.Filter Query.Planner Query.Routes Query.FilterProofs.
Open Scope string_scope.
Open Scope list_scope.

Arguments String.eqb : simpl never.

Definition idb (b : bool) : bool := b.

Lemma combine_and : forall rs, combine_results false rs = forallb (fun b => b) rs.
Proof. destruct rs; reflexivity. Qed.

Lemma combine_or_cons : forall x rs, combine_results true (x :: rs) = existsb (fun b => b) (x :: rs).
Proof. reflexivity. Qed.

Lemma forallb_remove : forall (A B : list bool) x,
  forallb (fun b => b) (A ++ x :: B) = x && forallb (fun b => b) (A ++ B).
Proof.
  intros A B x. rewrite !forallb_app. simpl.
  destruct x, (forallb (fun b => b) A), (forallb (fun b => b) B); reflexivity.
Qed.

Lemma remove_at_app {A} : forall (pre post : list A) x, remove_at (List.length pre) (pre ++ x :: post) = pre ++ post.
Proof. induction pre as [|a t IH]; intros; simpl; [reflexivity | rewrite IH; reflexivity]. Qed.

Lemma first_leg_spec : forall ih legs i j l h,
  first_leg ih i legs = Some (j, l, h) ->
  exists pre post, legs = pre ++ l :: post /\ j = (i + List.length pre)%nat /\ ih l = Some h.
Proof.
  intros ih. induction legs as [|a t IH]; intros i j l h H; simpl in H; [discriminate|].
  destruct (ih a) eqn:E.
  - inversion H; subst. exists [], t. simpl. repeat split; auto; lia.
  - apply IH in H as (pre & post & -> & -> & Hh). exists (a :: pre), post. simpl. repeat split; auto; lia.
Qed.

Lemma first_leg_none : forall ih legs i, first_leg ih i legs = None -> forall l, In l legs -> ih l = None.
Proof.
  intros ih. induction legs as [|a t IH]; intros i H l Hin; simpl in *; [contradiction|].
  destruct (ih a) eqn:E; [discriminate|]. destruct Hin as [<-|Hin]; [exact E | eapply IH; eauto].
Qed.

Lemma first_sub_spec : forall ih kl subs i j s hs,
  first_sub ih kl i subs = Some (j, s, hs) ->
  exists pre post, subs = pre ++ s :: post /\ j = (i + List.length pre)%nat /\ sub_union ih kl s = Some hs.
Proof.
  intros ih kl. induction subs as [|a t IH]; intros i j s hs H; simpl in H; [discriminate|].
  destruct (sub_union ih kl a) eqn:E.
  - inversion H; subst. exists [], t. simpl. repeat split; auto; lia.
  - apply IH in H as (pre & post & -> & -> & Hh). exists (a :: pre), post. simpl. repeat split; auto; lia.
Qed.

(* an OR group made of indexable legs only *)
Lemma all_hints_eval : forall r legs hs,
  all_hints indexable_hint legs = Some hs -> not_raw r ->
  existsb (fun b => b) (map (scan_leg r) legs) = matches_hints r hs.
Proof.
  intros r. induction legs as [|l t IH]; intros hs H Hr; simpl in H.
  - inversion H; subst. reflexivity.
  - destruct (indexable_hint l) eqn:E1; [|discriminate].
    destruct (all_hints indexable_hint t) eqn:E2; [|discriminate].
    inversion H; subst. simpl. rewrite (leg_semantics_agree r l h E1 Hr). rewrite (IH _ eq_refl Hr). reflexivity.
Qed.

Lemma all_hints_nil : forall ih legs, all_hints ih legs = Some [] -> legs = [].
Proof.
  intros ih [|l t] H; [reflexivity|]. simpl in H.
  destruct (ih l); [|discriminate]. destruct (all_hints ih t); discriminate.
Qed.

Lemma plan_or_spec : forall g hs resid,
  plan_or indexable_hint true g = POrUnion hs resid ->
  exists o l t, g = Grp o (l :: t) [] [] /\ all_hints indexable_hint (l :: t) = Some hs
                /\ resid = (if has_labels g then Some g else None).
Proof.
  intros [o legs subs opq] hs resid H. unfold plan_or in H.
  destruct subs; [|discriminate]. destruct opq; [|discriminate].
  destruct (all_hints indexable_hint legs) as [[|h0 hs0]|] eqn:E; try discriminate.
  inversion H; subst. destruct legs as [|l t]; [simpl in E; discriminate|].
  exists o, l, t. repeat split; auto.
Qed.

(* labels of a group without labels *)
Lemma no_labels_legs : forall (legf : rec -> leg -> bool) r legs,
  existsb (fun l => negb (String.eqb (llabel l) "")) legs = false ->
  flat_map (fun l => lab (legf r l) (llabel l)) legs = [].
Proof.
  induction legs as [|l t IH]; intros H; simpl in *; [reflexivity|].
  apply orb_false_iff in H as [H1 H2]. rewrite (IH H2). unfold lab.
  apply negb_false_iff in H1. rewrite H1. simpl. rewrite andb_false_r. reflexivity.
Qed.

Theorem planner_sound_or : forall g hs resid r,
  plan_filter g = POrUnion hs resid -> not_raw r ->
  eval_group scan_leg r g = matches_hints r hs
  /\ match resid with
     | Some g' => g' = g
     | None => glabels scan_leg r g = []
     end.
Proof.
  intros g hs resid r H Hr. unfold plan_filter, plan_filter_gen in H.
  destruct (is_empty_group g); [discriminate|].
  destruct (g_or g) eqn:Eo.
  - apply plan_or_spec in H as (o & l & t & -> & Hall & ->). simpl in Eo. subst o. split.
    + simpl eval_group. rewrite !app_nil_r. rewrite <- (all_hints_eval r _ _ Hall Hr). reflexivity.
    + destruct (has_labels (Grp true (l :: t) [] [])) eqn:El; [reflexivity|].
      simpl in El. rewrite !orb_false_r in El.
      simpl glabels. rewrite !app_nil_r. apply (no_labels_legs scan_leg r (l :: t)). exact El.
  - destruct g as [o legs subs opq]. simpl in H.
    destruct (first_leg indexable_hint 0 legs) as [[[i l] h]|]; [discriminate|].
    destruct (first_sub indexable_hint true 0 subs) as [[[i s] hs']|]; discriminate.
Qed.

Lemma flat_map_remove {A B} (f : A -> list B) : forall pre post x,
  f x = [] -> flat_map f (pre ++ x :: post) = flat_map f (pre ++ post).
Proof. intros. rewrite !flat_map_app. simpl. rewrite H. reflexivity. Qed.

Theorem planner_sound_and : forall g hs resid r,
  plan_filter g = PAnd hs resid -> not_raw r ->
  eval_group scan_leg r g = matches_hints r hs && eval_group scan_leg r resid
  /\ (eval_group scan_leg r g = true -> glabels scan_leg r resid = glabels scan_leg r g).
Proof.
  intros g hs resid r H Hr. unfold plan_filter, plan_filter_gen in H.
  destruct (is_empty_group g); [discriminate|].
  destruct (g_or g) eqn:Eo.
  { destruct g as [o legs subs opq]. unfold plan_or in H.
    destruct subs; [|discriminate]. destruct opq; [|discriminate].
    destruct (all_hints indexable_hint legs) as [[|h0 hs0]|]; discriminate. }
  destruct g as [o legs subs opq]. simpl in Eo. subst o. simpl in H.
  destruct (first_leg indexable_hint 0 legs) as [[[i l] h]|] eqn:Ef.
  - apply first_leg_spec in Ef as (pre & post & -> & -> & Hh). simpl in H.
    assert (Hl : scan_leg r l = matches_hint r h) by (apply leg_semantics_agree; auto).
    assert (Hev : eval_group scan_leg r (Grp false (pre ++ l :: post) subs opq)
                  = scan_leg r l && eval_group scan_leg r (Grp false (pre ++ post) subs opq)).
    { simpl eval_group. rewrite !combine_and, !map_app. simpl map. rewrite <- !app_assoc. simpl.
      rewrite forallb_remove. reflexivity. }
    destruct (String.eqb (llabel l) "") eqn:El; simpl in H; inversion H; subst; clear H.
    + rewrite remove_at_app. split.
      * rewrite Hev, Hl. simpl. rewrite orb_false_r. reflexivity.
      * intros _. simpl glabels. f_equal. symmetry. apply flat_map_remove.
        unfold lab. rewrite El. simpl. rewrite andb_false_r. reflexivity.
    + split; [|reflexivity]. rewrite Hev, Hl. simpl. rewrite orb_false_r.
      destruct (matches_hint r h); reflexivity.
  - destruct (first_sub indexable_hint true 0 subs) as [[[i s] hs']|] eqn:Es; [|discriminate].
    apply first_sub_spec in Es as (pre & post & -> & -> & Hu). simpl in H.
    unfold sub_union in Hu. destruct (is_empty_group s); [discriminate|].
    destruct (g_or s) eqn:Eos; [|discriminate].
    destruct (plan_or indexable_hint true s) as [| |hs2 rs2] eqn:Ep; try discriminate.
    injection Hu as Hu; subst hs2. apply plan_or_spec in Ep as (o & l0 & t0 & -> & Hall & _).
    simpl in Eos. subst o.
    assert (Hs : eval_group scan_leg r (Grp true (l0 :: t0) [] []) = matches_hints r hs').
    { simpl eval_group. rewrite !app_nil_r. rewrite <- (all_hints_eval r _ _ Hall Hr). reflexivity. }
    set (s := Grp true (l0 :: t0) [] []) in *.
    assert (Hev : eval_group scan_leg r (Grp false legs (pre ++ s :: post) opq)
                  = eval_group scan_leg r s && eval_group scan_leg r (Grp false legs (pre ++ post) opq)).
    { simpl eval_group. rewrite !combine_and, !map_app. simpl map.
      rewrite <- !app_assoc. simpl. rewrite !app_assoc. rewrite <- (app_assoc _ _ (map (fun q => opred q r) opq)).
      simpl. rewrite forallb_remove. rewrite <- !app_assoc. reflexivity. }
    destruct (has_labels s) eqn:El; simpl in H; inversion H; subst; clear H.
    + split; [|reflexivity]. rewrite Hev, Hs. destruct (matches_hints r hs); reflexivity.
    + rewrite remove_at_app. split.
      * rewrite Hev, Hs. reflexivity.
      * intros _. simpl glabels. f_equal. f_equal. symmetry. apply flat_map_remove.
        destruct (eval_group scan_leg r s); [|reflexivity].
        unfold s in *. simpl in El. rewrite !orb_false_r in El.
        simpl glabels. rewrite !app_nil_r. apply (no_labels_legs scan_leg r (l0 :: t0)). exact El.
Qed.

(* non-vacuity: a group for which the planner consumes a labelled leg, on a matching record *)
Example planner_sound_and_example :
  let g := Grp false [mkLeg OpGt (CInt 64 0) "b" "big" [] []; mkLeg OpEq (CInt 64 1) "a" "L1" [] []] [] [] in
  let r := mkRec "k" 0 0 0 (BMap true [("a", VFloat 4607182418800017408); ("b", VInt 3)]) in
  exists hs resid, plan_filter g = PAnd hs resid /\ not_raw r /\ eval_group scan_leg r g = true
                   /\ matches_hints r hs = true /\ glabels scan_leg r resid = ["big"; "L1"].
Proof. do 2 eexists. repeat split; vm_compute; reflexivity. Qed.

(* the unrepaired planner dropped the label together with the consumed leg *)
Theorem planner_sound_refuted_label_dropped :
  exists g r hs resid, plan_filter_legacy g = PAnd hs resid /\ not_raw r /\
    eval_group scan_leg r g = true /\ glabels scan_leg r resid <> glabels scan_leg r g.
Proof.
  exists (Grp false [mkLeg OpEq (CInt 64 1) "a" "L1" [] []] [] []),
         (mkRec "k" 0 0 0 (BMap true [("a", VInt 1)])).
  do 2 eexists. repeat split; try (vm_compute; reflexivity). vm_compute. discriminate.
Qed.
