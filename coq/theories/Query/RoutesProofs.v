(* Query/RoutesProofs.v — C08: the accelerated route and the full-scan route of the repaired
   GetByIndexStream agree, for every swamp contents, beacon order, tie order and request, as long
   as no body is a msgpack map without the magic prefix (for which the statement is refuted).
   Also the bucket invariant: incremental maintenance with a build in flight equals a fresh
   build. *)
From HV Require Import Base.Prelude Query.Canon Query.Filter Query.Planner Query.Routes
     Query.FilterProofs Query.PlannerProofs.
From Coq Require Import Permutation Sorted.
Open Scope string_scope.
Open Scope list_scope.
Open Scope Z_scope.

Arguments String.eqb : simpl never.

(* ---- list helpers --------------------------------------------------------------------------- *)
Lemma perm_filter {A} (p : A -> bool) : forall l l', Permutation l l' -> Permutation (filter p l) (filter p l').
Proof.
  induction 1; simpl.
  - constructor.
  - destruct (p x); [constructor|]; assumption.
  - destruct (p x), (p y); first [apply perm_swap | apply Permutation_refl].
  - eapply Permutation_trans; eauto.
Qed.

Lemma filter_filter {A} (p q : A -> bool) : forall l, filter p (filter q l) = filter (fun x => q x && p x) l.
Proof.
  induction l as [|a t IH]; simpl; [reflexivity|].
  destruct (q a); simpl; [destruct (p a); rewrite IH; reflexivity | exact IH].
Qed.

Lemma map_filter_ext {A B} (f f' : A -> B) (p p' : A -> bool) : forall l,
  (forall x, In x l -> p x = p' x /\ (p' x = true -> f x = f' x)) ->
  map f (filter p l) = map f' (filter p' l).
Proof.
  induction l as [|a t IH]; intros H; simpl; [reflexivity|].
  destruct (H a (or_introl eq_refl)) as [Hp Hf]. rewrite Hp.
  destruct (p' a) eqn:E; simpl; [rewrite (Hf eq_refl)|]; rewrite IH; auto; intros; apply H; right; assumption.
Qed.

Lemma In_firstn {A} : forall n (l : list A) x, In x (firstn n l) -> In x l.
Proof. induction n; intros [|a t] x H; simpl in *; try contradiction. destruct H; [left|right]; auto. Qed.

Lemma In_skipn {A} : forall n (l : list A) x, In x (skipn n l) -> In x l.
Proof. induction n; intros [|a t] x H; simpl in *; auto. Qed.

Lemma sorted_filter {A} (R : A -> A -> Prop) (p : A -> bool) : forall l,
  StronglySorted R l -> StronglySorted R (filter p l).
Proof.
  induction 1; simpl; [constructor|]. destruct (p a); [|assumption].
  constructor; [assumption|]. rewrite Forall_forall in *. intros x Hx. apply filter_In in Hx as [Hx _]. auto.
Qed.

(* ---- candidates by key ----------------------------------------------------------------------- *)
Lemma mem_str_In : forall k l, mem_str k l = true -> In k l.
Proof.
  induction l as [|a t IH]; simpl; intros H; [discriminate|].
  apply orb_true_iff in H as [H|H]; [left; apply String.eqb_eq in H; auto | right; auto].
Qed.

Lemma mem_candidates : forall (m : rec -> bool) contents r,
  NoDup (map rkey contents) -> In r contents ->
  mem_str (rkey r) (map rkey (filter m contents)) = m r.
Proof.
  induction contents as [|a t IH]; intros r Hnd Hin; simpl in *; [contradiction|].
  inversion Hnd as [|? ? Hna Hnd']; subst.
  destruct Hin as [->|Hin].
  - destruct (m r) eqn:Em; simpl.
    + rewrite String.eqb_refl. reflexivity.
    + destruct (mem_str (rkey r) (map rkey (filter m t))) eqn:E; [|reflexivity].
      exfalso. apply Hna. apply mem_str_In in E. apply in_map_iff in E as (x & Hx & Hf).
      apply filter_In in Hf as [Hf _]. apply in_map_iff. eauto.
  - assert (Hne : String.eqb (rkey r) (rkey a) = false).
    { apply String.eqb_neq. intros E. apply Hna. rewrite <- E. apply in_map. assumption. }
    destruct (m a); simpl; [rewrite Hne; simpl|]; apply IH; assumption.
Qed.

(* ---- the wrapped request is the same scan ------------------------------------------------------ *)
Lemma wrap_eval : forall legf r f, eval_group legf r (wrap f) = eval_group legf r f.
Proof. intros. simpl. rewrite orb_false_r. reflexivity. Qed.

Lemma wrap_labels : forall legf r f,
  glabels legf r (wrap f) = if eval_group legf r f then glabels legf r f else [].
Proof. intros. simpl. rewrite !app_nil_r. reflexivity. Qed.

Theorem scan_wrap : forall legf ord q f, scan_route legf ord q (wrap f) = scan_route legf ord q f.
Proof.
  intros. unfold scan_route, emit. f_equal. apply map_filter_ext. intros x _. split.
  - rewrite wrap_eval. reflexivity.
  - intros H. apply andb_true_iff in H as [_ H]. rewrite wrap_labels, H. reflexivity.
Qed.

(* ---- hypotheses ---------------------------------------------------------------------------------- *)
Definition all_not_raw (contents : list rec) : Prop := forall r, In r contents -> not_raw r.

Definition rowf (f : group) (r : rec) : row := (rkey r, glabels scan_leg r f).

Definition hints_of (p : plan) : list hint :=
  match p with PAnd hs _ => hs | POrUnion hs _ => hs | PBypass => [] end.

(* what the planner guarantees, in the form both route proofs use: on a record that is not raw the
   scan predicate of F is "candidate and residual", and the labels coincide on matches *)
Lemma plan_split : forall f r,
  not_raw r ->
  match plan_filter f with
  | PBypass => True
  | PAnd hs resid =>
      eval_group scan_leg r f = matches_hints r hs && eval_group scan_leg r resid
      /\ (eval_group scan_leg r f = true -> glabels scan_leg r resid = glabels scan_leg r f)
  | POrUnion hs resid =>
      eval_group scan_leg r f = matches_hints r hs
      /\ (match resid with Some g => g = f | None => glabels scan_leg r f = [] end)
  end.
Proof.
  intros f r Hr. destruct (plan_filter f) eqn:E; [exact I | |].
  - apply planner_sound_and; assumption.
  - apply planner_sound_or; assumption.
Qed.

(* the rows both routes emit, before MaxResults, as record lists *)
Definition scan_recs (ord : list rec) (q : req) : list rec :=
  filter (fun r => keys_ok q r && eval_group scan_leg r (qfilter q)) (beacon_page ord q).

Definition resid_pred (p : plan) (r : rec) : bool :=
  match p with
  | PAnd _ resid => eval_group scan_leg r resid
  | POrUnion _ (Some g) => eval_group scan_leg r g
  | _ => true
  end.

Definition accel_recs (contents ord srt : list rec) (q : req) : list rec :=
  filter (fun r => keys_ok q r && resid_pred (plan_filter (qfilter q)) r)
         (bucket_rows contents ord srt q (hints_of (plan_filter (qfilter q)))).

Lemma scan_route_recs : forall ord q,
  scan_route scan_leg ord q (qfilter q) = take_max (qmax q) (map (rowf (qfilter q)) (scan_recs ord q)).
Proof. reflexivity. Qed.

Lemma accel_route_recs : forall contents ord srt q,
  plan_filter (qfilter q) <> PBypass ->
  (forall r, In r (bucket_rows contents ord srt q (hints_of (plan_filter (qfilter q)))) ->
             not_raw r /\ matches_hints r (hints_of (plan_filter (qfilter q))) = true) ->
  accel_route scan_leg contents ord srt q
  = take_max (qmax q) (map (rowf (qfilter q)) (accel_recs contents ord srt q)).
Proof.
  intros contents ord srt q Hnb Hrows. unfold accel_route, accel_recs, emit.
  destruct (plan_filter (qfilter q)) as [|hs resid|hs resid] eqn:Ep; [congruence| |]; simpl in *; f_equal.
  - apply map_filter_ext. intros x Hx. split; [reflexivity|]. intros Hp.
    destruct (Hrows x Hx) as [Hr Hm]. pose proof (plan_split (qfilter q) x Hr) as Hs. rewrite Ep in Hs.
    destruct Hs as [He Hl]. apply andb_true_iff in Hp as [_ Hp]. unfold rowf. f_equal.
    apply Hl. rewrite He, Hm, Hp. reflexivity.
  - apply map_filter_ext. intros x Hx. destruct (Hrows x Hx) as [Hr Hm].
    pose proof (plan_split (qfilter q) x Hr) as Hs. rewrite Ep in Hs. destruct Hs as [He Hl].
    destruct resid as [g|]; [subst g; split; [reflexivity | intros _; reflexivity]|].
    split; [reflexivity|]. intros _. unfold rowf. rewrite Hl. reflexivity.
Qed.

(* on a record of the contents that is not raw: scan predicate = candidate /\ residual predicate *)
Lemma pred_split : forall q r,
  not_raw r -> plan_filter (qfilter q) <> PBypass ->
  eval_group scan_leg r (qfilter q)
  = matches_hints r (hints_of (plan_filter (qfilter q))) && resid_pred (plan_filter (qfilter q)) r.
Proof.
  intros q r Hr Hnb. pose proof (plan_split (qfilter q) r Hr) as Hs.
  destruct (plan_filter (qfilter q)) as [|hs resid|hs resid]; [congruence| |]; simpl.
  - apply Hs.
  - destruct Hs as [He Hl]. destruct resid as [g|]; [subst g; rewrite He; destruct (matches_hints r hs); reflexivity|].
    rewrite andb_true_r. exact He.
Qed.

(* ---- C08, paged requests and bypassed filters: identical outputs ---------------------------------- *)
Lemma exact_paged : forall contents ord srt q,
  NoDup (map rkey contents) -> all_not_raw contents -> incl ord contents ->
  paged q = true -> plan_filter (qfilter q) <> PBypass ->
  accel_route scan_leg contents ord srt q = scan_route scan_leg ord q (qfilter q).
Proof.
  intros contents ord srt q Hnd Hraw Hincl Hpg Hnb.
  assert (Hin : forall r, In r (beacon_page ord q) -> In r contents).
  { intros r Hr. apply Hincl. unfold beacon_page, page in Hr.
    destruct (qlimit q =? 0); [|apply In_firstn in Hr]; apply In_skipn in Hr;
      apply filter_In in Hr as [Hr _]; exact Hr. }
  rewrite accel_route_recs; [|exact Hnb|].
  - rewrite scan_route_recs. f_equal. f_equal. unfold accel_recs, scan_recs, bucket_rows.
    rewrite Hpg, filter_filter. apply filter_ext_in. intros r Hr. unfold candidates.
    rewrite (mem_candidates _ contents r Hnd (Hin r Hr)).
    rewrite (pred_split q r (Hraw r (Hin r Hr)) Hnb).
    destruct (matches_hints r (hints_of (plan_filter (qfilter q)))), (keys_ok q r); reflexivity.
  - intros r Hr. unfold bucket_rows in Hr. rewrite Hpg in Hr. apply filter_In in Hr as [Hr Hm].
    unfold candidates in Hm. rewrite (mem_candidates _ contents r Hnd (Hin r Hr)) in Hm. split; [apply Hraw, Hin, Hr | exact Hm].
Qed.

Theorem C08_routes_agree_exact : forall contents ord srt q,
  NoDup (map rkey contents) -> all_not_raw contents -> incl ord contents ->
  paged q = true \/ plan_filter (qfilter q) = PBypass ->
  accel_route scan_leg contents ord srt q = scan_route scan_leg ord q (wrap (qfilter q)).
Proof.
  intros contents ord srt q Hnd Hraw Hincl Hcase. rewrite scan_wrap.
  destruct (plan_filter (qfilter q)) eqn:Ep.
  - unfold accel_route. rewrite Ep. reflexivity.
  - destruct Hcase as [Hpg|Hb]; [|discriminate]. apply exact_paged; auto. rewrite Ep. discriminate.
  - destruct Hcase as [Hpg|Hb]; [|discriminate]. apply exact_paged; auto. rewrite Ep. discriminate.
Qed.

(* ---- C08, unpaged bucket-routed requests: same records, each route sorted, same cut ------------- *)
Definition sortedR (q : req) : rec -> rec -> Prop := fun a b => sort_leb (qidx q) (qdesc q) a b = true.

Theorem C08_routes_agree_unpaged : forall contents ord srt q,
  all_not_raw contents ->
  Permutation ord (filter (eligible (qidx q)) contents) -> StronglySorted (sortedR q) ord ->
  Permutation srt (bucket_unsorted contents q (hints_of (plan_filter (qfilter q)))) ->
  StronglySorted (sortedR q) srt ->
  paged q = false -> plan_filter (qfilter q) <> PBypass ->
  exists S B,
    scan_route scan_leg ord q (wrap (qfilter q)) = take_max (qmax q) (map (rowf (qfilter q)) S)
    /\ accel_route scan_leg contents ord srt q = take_max (qmax q) (map (rowf (qfilter q)) B)
    /\ Permutation S B /\ StronglySorted (sortedR q) S /\ StronglySorted (sortedR q) B.
Proof.
  intros contents ord srt q Hraw Hord Hsord Hsrt Hssrt Hpg Hnb.
  set (hs := hints_of (plan_filter (qfilter q))) in *.
  assert (Hpage : forall l, page q l = l).
  { intros l. unfold paged in Hpg. apply orb_false_iff in Hpg as [H1 H2].
    apply negb_false_iff in H1, H2. unfold page. rewrite H2. apply Z.eqb_eq in H1. rewrite H1. reflexivity. }
  assert (Hsrt_in : forall r, In r srt -> In r contents /\ matches_hints r hs = true).
  { intros r Hr. apply (Permutation_in _ Hsrt) in Hr. unfold bucket_unsorted, candidates in Hr.
    apply filter_In in Hr as [Hr _]. apply filter_In in Hr as [Hr _]. apply filter_In in Hr. exact Hr. }
  exists (scan_recs ord q), (accel_recs contents ord srt q). split; [|split; [|split; [|split]]].
  - rewrite scan_wrap. apply scan_route_recs.
  - apply accel_route_recs; [exact Hnb|]. intros r Hr. unfold bucket_rows in Hr. rewrite Hpg in Hr.
    destruct (Hsrt_in r Hr) as [Hc Hm]. split; [apply Hraw; exact Hc | exact Hm].
  - unfold scan_recs, accel_recs, bucket_rows, beacon_page. rewrite Hpg, Hpage.
    eapply Permutation_trans; [apply perm_filter, perm_filter, Hord|].
    eapply Permutation_trans; [|apply Permutation_sym, perm_filter, Hsrt].
    unfold bucket_unsorted, candidates. rewrite !filter_filter.
    match goal with |- Permutation (filter ?P1 contents) (filter ?P2 contents) =>
      rewrite (filter_ext_in P1 P2 contents); [apply Permutation_refl|] end.
    intros r Hr. cbv beta. rewrite (pred_split q r (Hraw r Hr) Hnb). fold hs.
    destruct (matches_hints r hs), (eligible (qidx q) r), (in_window q r), (keys_ok q r); reflexivity.
  - unfold scan_recs, beacon_page. rewrite Hpage. apply sorted_filter, sorted_filter. exact Hsord.
  - unfold accel_recs, bucket_rows. rewrite Hpg. apply sorted_filter. exact Hssrt.
Qed.

(* ---- non-vacuity and refutation ------------------------------------------------------------------ *)
Definition ex_contents : list rec :=
  [ mkRec "k00" 30 0 0 (BMap true [("a", VInt 1); ("b", VInt 7)]);
    mkRec "k01" 10 0 0 (BMap true [("a", VFloat 4607182418800017408); ("b", VInt 9)]);
    mkRec "k02" 20 0 0 (BMap true [("a", VInt 2)]);
    mkRec "k03" 0 0 0 (BMap true [("a", VUint 1); ("b", VInt 8)]) ].
Definition ex_filter : group :=
  Grp false [mkLeg OpEq (CInt 64 1) "a" "one" [] []; mkLeg OpGt (CInt 64 6) "b" "" [] []] [] [].
Definition ex_req : req := mkReq 2 false 0 0 None None 0 [] [] ex_filter.
Definition ex_ord : list rec := [nth 1 ex_contents (mkRec "" 0 0 0 BOpaque); nth 2 ex_contents (mkRec "" 0 0 0 BOpaque);
                                 nth 0 ex_contents (mkRec "" 0 0 0 BOpaque)].
Definition ex_srt : list rec := [nth 1 ex_contents (mkRec "" 0 0 0 BOpaque); nth 0 ex_contents (mkRec "" 0 0 0 BOpaque)].

Example C08_routes_agree_example :
  plan_filter ex_filter <> PBypass /\ paged ex_req = false
  /\ accel_route scan_leg ex_contents ex_ord ex_srt ex_req = [("k01", ["one"]); ("k00", ["one"])]
  /\ scan_route scan_leg ex_ord ex_req (wrap ex_filter) = [("k01", ["one"]); ("k00", ["one"])].
Proof. repeat split; try (vm_compute; reflexivity). vm_compute. discriminate. Qed.

(* the hypotheses of C08_routes_agree_unpaged hold for that example (no vacuous implication) *)
Example C08_routes_agree_unpaged_hyps_example :
  all_not_raw ex_contents
  /\ Permutation ex_ord (filter (eligible (qidx ex_req)) ex_contents)
  /\ StronglySorted (sortedR ex_req) ex_ord
  /\ Permutation ex_srt (bucket_unsorted ex_contents ex_req (hints_of (plan_filter (qfilter ex_req))))
  /\ StronglySorted (sortedR ex_req) ex_srt.
Proof.
  split; [|split; [|split; [|split]]].
  - intros r Hr. simpl in Hr. destruct Hr as [<-|[<-|[<-|[<-|[]]]]]; exact I.
  - vm_compute filter. apply Permutation_sym.
    apply (Permutation_cons_app [nth 1 ex_contents (mkRec "" 0 0 0 BOpaque); nth 2 ex_contents (mkRec "" 0 0 0 BOpaque)] []).
    apply Permutation_refl.
  - unfold ex_ord, sortedR. repeat (constructor; try (vm_compute; reflexivity)).
  - vm_compute bucket_unsorted. apply perm_swap.
  - unfold ex_srt, sortedR. repeat (constructor; try (vm_compute; reflexivity)).
Qed.

(* open on the current tree: a msgpack body without the magic prefix *)
Theorem C08_routes_agree_refuted_raw_body :
  exists contents ord srt q,
    NoDup (map rkey contents) /\ incl ord contents /\
    accel_route scan_leg contents ord srt q <> scan_route scan_leg ord q (wrap (qfilter q)).
Proof.
  set (r0 := mkRec "k00" 0 0 0 (BMap false [("a", VInt 1)])).
  set (r1 := mkRec "k01" 0 0 0 (BMap true [("a", VInt 1)])).
  exists [r0; r1], [r0; r1], [r0; r1],
         (mkReq 0 false 0 0 None None 0 [] [] (Grp false [mkLeg OpEq (CInt 64 1) "a" "" [] []] [] [])).
  split; [|split].
  - repeat constructor; simpl; intuition discriminate.
  - apply incl_refl.
  - vm_compute. discriminate.
Qed.

(* ---- the unrepaired routes (documentation of the fixed divergence classes) ------------------------ *)
(* paging after the indexed restriction, no attribute check, window applied to the key index *)
Definition accel_route_legacy (contents srt : list rec) (q : req) (hs : list hint) (resid : option group) : list row :=
  emit scan_leg q resid (page q srt).

Theorem C08_routes_agree_refuted_legacy_paging :
  exists contents ord srt q hs resid,
    plan_filter_legacy (qfilter q) = PAnd hs resid /\
    Permutation srt (candidates contents hs) /\
    accel_route_legacy contents srt q hs (Some resid) <> scan_route scan_leg ord q (wrap (qfilter q)).
Proof.
  set (r0 := mkRec "k00" 0 0 0 (BMap true [("a", VInt 0)])).
  set (r1 := mkRec "k01" 0 0 0 (BMap true [("a", VInt 1)])).
  set (r2 := mkRec "k02" 0 0 0 (BMap true [("a", VInt 1)])).
  exists [r0; r1; r2], [r0; r1; r2], [r1; r2],
         (mkReq 0 false 1 0 None None 0 [] [] (Grp false [mkLeg OpEq (CInt 64 1) "a" "" [] []] [] [])).
  do 2 eexists. split; [vm_compute; reflexivity|]. split; [apply Permutation_refl|].
  vm_compute. discriminate.
Qed.

(* ---- bucket invariant ------------------------------------------------------------------------------ *)
(* The bucket's byKey map as a function; a Save notification sets the key's canonical value, a
   delete removes it. [build snapshot] is BuildEquality; DrainPending replays the queued
   notifications in FIFO order. *)
Inductive bop := BSet (k : string) (v : ckey) | BDel (k : string).

Definition bstate := string -> option ckey.

Definition bapply (s : bstate) (o : bop) : bstate :=
  match o with
  | BSet k v => fun x => if String.eqb x k then Some v else s x
  | BDel k => fun x => if String.eqb x k then None else s x
  end.

Definition bapply_all (s : bstate) (ops : list bop) : bstate := fold_left bapply ops s.

(* the state a key ends in is decided by the last operation on it *)
Fixpoint last_on (k : string) (ops : list bop) (d : option ckey) : option ckey :=
  match ops with
  | [] => d
  | BSet k' v :: t => last_on k t (if String.eqb k k' then Some v else d)
  | BDel k' :: t => last_on k t (if String.eqb k k' then None else d)
  end.

Lemma bapply_all_last : forall ops s k, bapply_all s ops k = last_on k ops (s k).
Proof.
  induction ops as [|o t IH]; intros s k; simpl; [reflexivity|].
  unfold bapply_all in *. simpl. rewrite IH. destruct o; reflexivity.
Qed.

Lemma last_on_app : forall a b k d, last_on k (a ++ b) d = last_on k b (last_on k a d).
Proof. induction a as [|o t IH]; intros; simpl; [reflexivity|]. destruct o; apply IH. Qed.

Lemma last_on_idem : forall a k d, last_on k a (last_on k a d) = last_on k a d.
Proof.
  intros a k. assert (G : forall d d', last_on k a d = last_on k a d' \/ (last_on k a d = d /\ last_on k a d' = d')).
  { induction a as [|o t IH]; intros d d'; simpl; [right; auto|].
    destruct o as [k' v|k']; destruct (String.eqb k k'); auto. }
  intros d. destruct (G d (last_on k a d)) as [H|[H1 H2]]; [symmetry; exact H | exact H2].
Qed.

(* Incremental maintenance equals a fresh build, for every history and every position of the
   build in it: the swamp state is [c0] when the bucket is registered (buildInFlight = 1), the
   notifications [p1] arrive before the snapshot is taken (so they are both in the snapshot and
   in the pending queue), [p2] during the build (pending queue only), [p3] after DrainPending
   (applied directly).  The bucket then equals the bucket of a fresh build over the final state. *)
Theorem bucket_inv : forall (c0 : bstate) (p1 p2 p3 : list bop) (k : string),
  let snapshot := bapply_all c0 p1 in
  let bucket := bapply_all (bapply_all snapshot (p1 ++ p2)) p3 in
  let fresh := bapply_all c0 (p1 ++ p2 ++ p3) in
  bucket k = fresh k.
Proof.
  intros c0 p1 p2 p3 k. simpl. rewrite !bapply_all_last, !last_on_app.
  rewrite last_on_idem. reflexivity.
Qed.

Example bucket_inv_example :
  let c0 : bstate := fun x => if String.eqb x "k1" then Some (KInt 1) else None in
  let p1 := [BDel "k1"; BSet "k2" (KInt 5)] in
  let p2 := [BSet "k1" (KStr "x")] in
  let p3 := [BDel "k2"] in
  let bucket := bapply_all (bapply_all (bapply_all c0 p1) (p1 ++ p2)) p3 in
  bucket "k1" = Some (KStr "x") /\ bucket "k2" = None.
Proof. split; vm_compute; reflexivity. Qed.
