(* Query/FilterProofs.v — leg semantics: on a plain dotted path the full-scan evaluation of an
   indexable leg equals the bucket lookup (valuecanon.Equal on the canonical key), for every
   body except a msgpack map without the magic prefix.  Plus the refutation witnesses for the
   unrepaired comparison and for [*] / #len paths. *)
From HV Require Import Base.Prelude Query.Canon Query.Filter Query.Planner Query.Routes.
Open Scope string_scope.
Open Scope Z_scope.

Arguments String.eqb : simpl never.
Arguments strip_star : simpl never.
Arguments canon_equal : simpl never.
Arguments split_dot : simpl never.

(* ---- plain paths --------------------------------------------------------------------------- *)
Lemma extract_parts_plain : forall parts cur,
  forallb plain_part parts = true -> extract_parts cur parts = XVal (plain_parts cur parts).
Proof.
  induction parts as [|p rest IH]; intros cur H; simpl in *.
  - reflexivity.
  - apply andb_true_iff in H as [Hp Hr]. unfold plain_part in Hp.
    apply andb_true_iff in Hp as [Hlen Hstar].
    destruct (String.eqb p "#len") eqn:E1; [discriminate|].
    destruct (strip_star p) eqn:E2; [discriminate|].
    destruct cur; try reflexivity.
    destruct (lookup p l) eqn:E3; [apply IH; exact Hr | reflexivity].
Qed.

Lemma extract_path_plain : forall d path,
  plain_path path = true -> extract_path d path = XVal (plain_extract d path).
Proof.
  intros d path H. unfold extract_path, plain_extract.
  destruct (String.eqb path ""); [reflexivity|].
  apply extract_parts_plain. exact H.
Qed.

(* ---- canonical equality facts --------------------------------------------------------------- *)
Lemma canon_null_cmp : forall c k, cmp_key c = Some k -> canon_equal KNull k = false.
Proof. intros c k H. destruct c; inversion H; subst; reflexivity. Qed.

Lemma canon_null_str : forall l, existsb (canon_equal KNull) (map KStr l) = false.
Proof. induction l; simpl; [reflexivity|]. rewrite IHl. reflexivity. Qed.

Lemma canon_null_int : forall l, existsb (canon_equal KNull) (map KInt l) = false.
Proof. induction l; simpl; [reflexivity|]. rewrite IHl. reflexivity. Qed.

Lemma existsb_map {A B} (f : A -> B) (p : B -> bool) l : existsb p (map f l) = existsb (fun a => p (f a)) l.
Proof. induction l; simpl; [reflexivity|]. rewrite IHl. reflexivity. Qed.

Lemma str_in_canon : forall fv l, str_in fv l = existsb (canon_equal (canonicalize fv)) (map KStr l).
Proof.
  intros fv l. rewrite existsb_map.
  destruct fv; simpl;
    (induction l as [|a t IH]; simpl; [reflexivity | rewrite <- IH; reflexivity]).
Qed.

Lemma int_in_canon : forall fv l, int_in fv l = existsb (canon_equal (canonicalize fv)) (map KInt l).
Proof.
  intros fv l. unfold int_in. rewrite existsb_map.
  destruct fv; simpl; try reflexivity.
  induction l as [|a t IH]; simpl; [reflexivity | rewrite <- IH; reflexivity].
Qed.

(* ---- leg_semantics_agree --------------------------------------------------------------------- *)
Definition not_raw (r : rec) : Prop := match rbody r with BMap false _ => False | _ => True end.

Theorem leg_semantics_agree : forall r l h,
  indexable_hint l = Some h -> not_raw r -> scan_leg r l = matches_hint r h.
Proof.
  intros r l h Hih Hraw. unfold indexable_hint, indexable_hint_gen in Hih.
  destruct (String.eqb (lpath l) "") eqn:Ee; [discriminate|]. simpl in Hih.
  destruct (plain_path (lpath l)) eqn:Ep; [|discriminate]. simpl in Hih.
  unfold scan_leg, eval_leg_gen, matches_hint, bucket_key, not_raw in *.
  destruct (rbody r) as [pref d|] eqn:Eb.
  - destruct pref; [|contradiction].
    unfold eval_leg_doc. rewrite (extract_path_plain d _ Ep).
    destruct (lop l) eqn:Eo; try discriminate.
    + destruct (cmp_key (lcmp l)) eqn:Ek; [|discriminate]. inversion Hih; subst.
      destruct (is_nil (plain_extract d (lpath l))) eqn:En; [|reflexivity].
      destruct (plain_extract d (lpath l)); try discriminate. simpl.
      symmetry. eapply canon_null_cmp; eauto.
    + assert (h = HIn (lpath l) (map KStr (lstrs l))) as -> by (destruct (lstrs l); [discriminate | congruence]).
      apply str_in_canon.
    + assert (h = HIn (lpath l) (map KInt (lints l))) as -> by (destruct (lints l); [discriminate | congruence]).
      apply int_in_canon.
    + assert (h = HIn (lpath l) (map KInt (lints l))) as -> by (destruct (lints l); [discriminate | congruence]).
      apply int_in_canon.
  - destruct (lop l) eqn:Eo; try discriminate.
    + destruct (cmp_key (lcmp l)) eqn:Ek; [|discriminate]. inversion Hih; subst.
      symmetry. eapply canon_null_cmp; eauto.
    + assert (h = HIn (lpath l) (map KStr (lstrs l))) as -> by (destruct (lstrs l); [discriminate | congruence]).
      symmetry. apply canon_null_str.
    + assert (h = HIn (lpath l) (map KInt (lints l))) as -> by (destruct (lints l); [discriminate | congruence]).
      symmetry. apply canon_null_int.
    + assert (h = HIn (lpath l) (map KInt (lints l))) as -> by (destruct (lints l); [discriminate | congruence]).
      symmetry. apply canon_null_int.
Qed.

(* the hypotheses are satisfiable and the conclusion is not vacuous: a = uint8 5 matches float 5.0 *)
Example leg_semantics_agree_example :
  let r := mkRec "k" 0 0 0 (BMap true [("a", VUint 5)]) in
  let l := mkLeg OpEq (CFloat 64 4617315517961601024) "a" "" [] [] in
  exists h, indexable_hint l = Some h /\ not_raw r /\ scan_leg r l = true /\ matches_hint r h = true.
Proof. eexists. repeat split; vm_compute; reflexivity. Qed.

(* ---- refutations: the unrepaired comparison -------------------------------------------------- *)
(* 5.7 (float64) against int64 5: the legacy scan truncates and matches, the bucket does not *)
Theorem leg_semantics_agree_refuted_float_truncation :
  exists r l h, indexable_hint l = Some h /\ not_raw r /\
                scan_leg_legacy r l = true /\ matches_hint r h = false.
Proof.
  exists (mkRec "k" 0 0 0 (BMap true [("a", VFloat 4618103647896390861)])),
         (mkLeg OpEq (CInt 64 5) "a" "" [] []).
  eexists. repeat split; vm_compute; reflexivity.
Qed.

(* uint64 2^63+1 against float64 2^63: float64(n) rounds to 2^63, the canonical rule refuses *)
Theorem leg_semantics_agree_refuted_uint64_above_2_63 :
  exists r l h, indexable_hint l = Some h /\ not_raw r /\
                scan_leg_legacy r l = true /\ matches_hint r h = false.
Proof.
  exists (mkRec "k" 0 0 0 (BMap true [("a", VUint 9223372036854775809)])),
         (mkLeg OpEq (CFloat 64 4890909195324358656) "a" "" [] []).
  eexists. repeat split; vm_compute; reflexivity.
Qed.

(* [*] and #len under the unrepaired planner (no plain-path check): the scan matches through
   the wildcard / the length, the bucket looks up the literal key and finds nothing *)
Theorem leg_semantics_agree_refuted_wildcard_path :
  exists r l h, indexable_hint_legacy l = Some h /\ not_raw r /\
                scan_leg r l = true /\ matches_hint r h = false.
Proof.
  exists (mkRec "k" 0 0 0 (BMap true [("t", VArr [VStr "x"])])),
         (mkLeg OpEq (CStr "x") "t[*]" "" [] []).
  eexists. repeat split; vm_compute; reflexivity.
Qed.

Theorem leg_semantics_agree_refuted_len_path :
  exists r l h, indexable_hint_legacy l = Some h /\ not_raw r /\
                scan_leg r l = true /\ matches_hint r h = false.
Proof.
  exists (mkRec "k" 0 0 0 (BMap true [("t", VArr [VInt 1; VInt 2])])),
         (mkLeg OpEq (CInt 64 2) "t.#len" "" [] []).
  eexists. repeat split; vm_compute; reflexivity.
Qed.

(* still open on the current tree: a body without the magic prefix *)
Theorem leg_semantics_agree_refuted_raw_body :
  exists r l h, indexable_hint l = Some h /\ scan_leg r l = false /\ matches_hint r h = true.
Proof.
  exists (mkRec "k" 0 0 0 (BMap false [("a", VInt 1)])), (mkLeg OpEq (CInt 64 1) "a" "" [] []).
  eexists. repeat split; vm_compute; reflexivity.
Qed.
