(* Query/Filter.v — records, body documents, field-path extraction (with the [*] wildcard and
   the #len pseudo-field of filter.go:extractFieldByPath), filter legs and AND/OR groups, and
   the full-scan evaluation of filter_native.go (evaluateNativeFilterGroup[WithMeta],
   evaluateBytesFieldFilterAgainstMap, evaluateAnyMatch).  Model only, no proofs.

   [scan_leg] is the code after the fix "full-scan EQUAL and INT*_IN use valuecanon";
   [scan_leg_legacy] is the comparison the unrepaired tree used (convert the field to the Go
   type of the compare value, truncating) and is kept for the refutation witnesses. *)
From HV Require Export Base.Prelude Query.Canon.
From Coq Require Import Floats.SpecFloat.
Open Scope string_scope.
Open Scope Z_scope.

(* ---- records ------------------------------------------------------------------------------ *)
(* BMap prefixed d : the Treasure holds bytes that msgpack-decode to the map d; [prefixed] says
   whether they carry the 0xC7 0x00 magic.  BOpaque: anything else (other content type, bytes
   that do not decode to a map). *)
Inductive body := BMap (prefixed : bool) (d : list (string * val)) | BOpaque.

Record rec := mkRec { rkey : string; rcreated : Z; rupdated : Z; rexpired : Z; rbody : body }.

(* ---- paths -------------------------------------------------------------------------------- *)
Fixpoint split_dot_aux (s : string) (cur : string) : list string :=
  match s with
  | EmptyString => [cur]
  | String c t =>
      if Ascii.eqb c "."%char then cur :: split_dot_aux t EmptyString
      else split_dot_aux t (cur ++ String c EmptyString)
  end.
Definition split_dot (s : string) : list string := split_dot_aux s EmptyString.   (* strings.Split(s,".") *)

(* strings.HasSuffix(part,"[*]") / TrimSuffix *)
Fixpoint strip_star (s : string) : option string :=
  if String.eqb s "[*]" then Some EmptyString
  else match s with
       | EmptyString => None
       | String c t => option_map (String c) (strip_star t)
       end.

Fixpoint lookup (k : string) (m : list (string * val)) : option val :=
  match m with
  | [] => None
  | (k', v) :: t => if String.eqb k k' then Some v else lookup k t
  end.

Definition is_nil (v : val) : bool := match v with VNil => true | _ => false end.

(* result of the gateway's extractFieldByPath: a value (VNil for nil/absent) or the
   anyMatchSlice sentinel *)
Inductive xres := XVal (v : val) | XAny (vs : list val).

Definition rest_is_empty (rest : list string) : bool :=     (* strings.Join(rest,".") == "" *)
  match rest with [] => true | [s] => String.eqb s EmptyString | _ => false end.

Fixpoint extract_parts (cur : val) (parts : list string) : xres :=
  match parts with
  | [] => XVal cur
  | p :: rest =>
      if String.eqb p "#len" then
        match cur with
        | VArr l => XVal (VInt (Z.of_nat (List.length l)))
        | VMap l => XVal (VInt (Z.of_nat (List.length l)))
        | _ => XVal VNil
        end
      else match strip_star p with
      | Some fname =>
          let cur' :=
            if String.eqb fname EmptyString then Some cur
            else match cur with
                 | VMap m => Some (match lookup fname m with Some v => v | None => VNil end)
                 | _ => None
                 end in
          match cur' with
          | Some (VArr arr) =>
              XAny (flat_map (fun elem =>
                       if rest_is_empty rest then [elem]
                       else match elem with
                            | VMap _ =>
                                match extract_parts elem rest with
                                | XVal v => if is_nil v then [] else [v]
                                | XAny _ => [VOther]      (* a nested sentinel: non-nil, matches nothing *)
                                end
                            | _ => []
                            end) arr)
          | _ => XVal VNil
          end
      | None =>
          match cur with
          | VMap m => match lookup p m with Some v => extract_parts v rest | None => XVal VNil end
          | _ => XVal VNil
          end
      end
  end.

Definition extract_path (d : list (string * val)) (path : string) : xres :=
  if String.eqb path EmptyString then XVal (VMap d) else extract_parts (VMap d) (split_dot path).

(* bucket.go:extractFieldByPath — plain dotted navigation only *)
Fixpoint plain_parts (cur : val) (parts : list string) : val :=
  match parts with
  | [] => cur
  | p :: rest =>
      match cur with
      | VMap m => match lookup p m with Some v => plain_parts v rest | None => VNil end
      | _ => VNil
      end
  end.
Definition plain_extract (d : list (string * val)) (path : string) : val :=
  if String.eqb path EmptyString then VMap d else plain_parts (VMap d) (split_dot path).

(* ---- legs --------------------------------------------------------------------------------- *)
Inductive op := OpEq | OpNe | OpGt | OpGe | OpLt | OpLe | OpStrIn | OpI32In | OpI64In | OpIsEmpty | OpIsNotEmpty.

(* compare value with the width of the oneof variant (8/16/32/64; floats 32/64) *)
Inductive cmpv := CInt (w : N) (z : Z) | CUint (w : N) (n : N) | CFloat (w : N) (bits : N)
                | CStr (s : string) | CBool (b : bool) | CNone.

Record leg := mkLeg { lop : op; lcmp : cmpv; lpath : string; llabel : string;
                      lstrs : list string; lints : list Z }.

(* compareValueToAny followed by Canonicalize *)
Definition cmp_key (c : cmpv) : option ckey :=
  match c with
  | CInt _ z => Some (KInt z)
  | CUint _ n => Some (KUint n)
  | CFloat _ b => Some (KFloat b)
  | CStr s => Some (KStr s)
  | CBool b => Some (KBool b)
  | CNone => None
  end.

Definition cmp_ord {A} (eqb ltb : A -> A -> bool) (o : op) (a r : A) : bool :=
  match o with
  | OpEq => eqb a r
  | OpNe => negb (eqb a r)
  | OpGt => ltb r a
  | OpGe => ltb r a || eqb a r
  | OpLt => ltb a r
  | OpLe => ltb a r || eqb a r
  | _ => false
  end.

Definition cmp_float (o : op) (a r : spec_float) : bool :=
  match o with
  | OpEq => f_eqb a r
  | OpNe => negb (f_eqb a r)
  | OpGt => f_ltb r a
  | OpGe => f_leb r a
  | OpLt => f_ltb a r
  | OpLe => f_leb a r
  | _ => false
  end.

(* the typed comparison: convert the field to the compare value's type *)
Definition typed_compare (o : op) (c : cmpv) (fv : val) : bool :=
  match c with
  | CInt _ r => match to_int64 fv with Some a => cmp_ord Z.eqb Z.ltb o a r | None => false end
  | CUint _ r => match to_uint64 fv with Some a => cmp_ord N.eqb N.ltb o a r | None => false end
  | CFloat _ r => match to_float64 fv with Some a => cmp_float o a (decode_f64 r) | None => false end
  | CStr r => match fv with VStr a => cmp_ord String.eqb str_ltb o a r | _ => false end
  | CBool r => match fv with
               | VBool a => match o with OpEq => Bool.eqb a r | OpNe => negb (Bool.eqb a r) | _ => false end
               | _ => false
               end
  | CNone => false
  end.

Definition str_in (fv : val) (vals : list string) : bool :=
  match fv with VStr s => existsb (String.eqb s) vals | _ => false end.

Definition int_in (fv : val) (vals : list Z) : bool :=          (* after the fix: canonical *)
  negb (is_nil fv) && existsb (fun a => canon_equal (canonicalize fv) (KInt a)) vals.

Definition int_in_legacy (fv : val) (vals : list Z) : bool :=
  match to_int64 fv with Some v => existsb (Z.eqb v) vals | None => false end.

Definition empty_val (v : val) : bool :=
  match v with VNil => true | VStr s => String.eqb s EmptyString | _ => false end.

(* evaluateAnyMatch: only some oneof variants are handled for plain comparisons *)
Definition any_compare (o : op) (c : cmpv) (v : val) : bool :=
  match c with
  | CStr _ | CBool _ => typed_compare o c v
  | CInt w _ => if N.eqb w 16 then false else typed_compare o c v
  | CFloat w _ => if N.eqb w 64 then typed_compare o c v else false
  | _ => false
  end.

Definition eval_any (legacy : bool) (vs : list val) (l : leg) : bool :=
  match vs with
  | [] => match lop l with OpIsEmpty => true | _ => false end
  | _ =>
      match lop l with
      | OpIsNotEmpty => existsb (fun v => negb (empty_val v)) vs
      | OpIsEmpty => forallb empty_val vs
      | OpStrIn => existsb (fun v => str_in v (lstrs l)) vs
      | OpI32In | OpI64In =>
          existsb (fun v => if legacy then int_in_legacy v (lints l) else int_in v (lints l)) vs
      | o => existsb (fun v => negb (is_nil v) && any_compare o (lcmp l) v) vs
      end
  end.

(* evaluateBytesFieldFilterAgainstMap *)
Definition eval_leg_doc (legacy : bool) (d : list (string * val)) (l : leg) : bool :=
  match extract_path d (lpath l) with
  | XAny vs => eval_any legacy vs l
  | XVal fv =>
      match lop l with
      | OpStrIn => str_in fv (lstrs l)
      | OpI32In | OpI64In => if legacy then int_in_legacy fv (lints l) else int_in fv (lints l)
      | OpIsEmpty => empty_val fv
      | OpIsNotEmpty => negb (empty_val fv)
      | OpEq =>
          if is_nil fv then false
          else if legacy then typed_compare OpEq (lcmp l) fv
          else match cmp_key (lcmp l) with
               | Some k => canon_equal (canonicalize fv) k
               | None => false
               end
      | o => if is_nil fv then false else typed_compare o (lcmp l) fv
      end
  end.

(* evaluateNativeBytesFieldFilter: only bytes with the magic prefix that decode to a map are
   looked into; everything else matches IS_EMPTY only *)
Definition eval_leg_gen (legacy : bool) (r : rec) (l : leg) : bool :=
  match rbody r with
  | BMap true d => eval_leg_doc legacy d l
  | _ => match lop l with OpIsEmpty => true | _ => false end
  end.

Definition scan_leg := eval_leg_gen false.
Definition scan_leg_legacy := eval_leg_gen true.

(* ---- groups ------------------------------------------------------------------------------- *)
(* phrase / vector / geo / nested-slice legs are opaque labelled predicates *)
Record oleg := mkO { olabel : string; opred : rec -> bool }.

Inductive group := Grp (is_or : bool) (legs : list leg) (subs : list group) (opq : list oleg).

Definition g_or (g : group) := match g with Grp o _ _ _ => o end.
Definition g_legs (g : group) := match g with Grp _ l _ _ => l end.
Definition g_subs (g : group) := match g with Grp _ _ s _ => s end.
Definition g_opq (g : group) := match g with Grp _ _ _ q => q end.

Definition combine_results (is_or : bool) (rs : list bool) : bool :=
  match rs with
  | [] => true                                         (* empty group: no filtering *)
  | _ => if is_or then existsb (fun b => b) rs else forallb (fun b => b) rs
  end.

Section Eval.
  Variable leg_eval : rec -> leg -> bool.

  Fixpoint eval_group (r : rec) (g : group) : bool :=
    match g with
    | Grp o legs subs opq =>
        combine_results o (map (leg_eval r) legs ++ map (eval_group r) subs ++ map (fun q => opred q r) opq)%list
    end.

  Definition lab (matched : bool) (l : string) : list string :=
    if matched && negb (String.eqb l EmptyString) then [l] else [].

  (* labels collected by evaluateNativeFilterGroupWithMeta for a record that matches g *)
  Fixpoint glabels (r : rec) (g : group) : list string :=
    match g with
    | Grp o legs subs opq =>
        (flat_map (fun l => lab (leg_eval r l) (llabel l)) legs
        ++ flat_map (fun s => if eval_group r s then glabels r s else []) subs
        ++ flat_map (fun q => lab (opred q r) (olabel q)) opq)%list
    end.
End Eval.

Fixpoint has_labels (g : group) : bool :=
  match g with
  | Grp _ legs subs opq =>
      existsb (fun l => negb (String.eqb (llabel l) EmptyString)) legs
      || existsb has_labels subs
      || existsb (fun q => negb (String.eqb (olabel q) EmptyString)) opq
  end.
