(* Query/Planner.v — bucket_planner.go: PlanFilter / planAnd / planOr / indexableHint /
   removeFilterAt / removeSubGroupAt, after the fixes "planner rejects [*]/#len paths" and
   "labelled legs stay in the residual".  [indexable_hint_legacy] / [plan_filter_legacy] are
   the unrepaired versions (kept for the refutation witnesses).  Model only, no proofs. *)
From HV Require Import Base.Prelude Query.Canon Query.Filter.
Open Scope string_scope.

Inductive hint := HEq (path : string) (k : ckey) | HIn (path : string) (ks : list ckey).

(* isPlainFieldPath *)
Definition plain_part (p : string) : bool :=
  negb (String.eqb p "#len") && match strip_star p with Some _ => false | None => true end.
Definition plain_path (path : string) : bool := forallb plain_part (split_dot path).

Definition indexable_hint_gen (check_plain : bool) (l : leg) : option hint :=
  if String.eqb (lpath l) EmptyString || (check_plain && negb (plain_path (lpath l))) then None
  else match lop l with
       | OpEq => match cmp_key (lcmp l) with Some k => Some (HEq (lpath l) k) | None => None end
       | OpStrIn => match lstrs l with [] => None | _ => Some (HIn (lpath l) (map KStr (lstrs l))) end
       | OpI32In | OpI64In => match lints l with [] => None | _ => Some (HIn (lpath l) (map KInt (lints l))) end
       | _ => None
       end.
Definition indexable_hint := indexable_hint_gen true.
Definition indexable_hint_legacy := indexable_hint_gen false.

Inductive plan :=
| PBypass
| PAnd (hints : list hint) (resid : group)
| POrUnion (hints : list hint) (resid : option group).

Fixpoint remove_at {A} (i : nat) (l : list A) : list A :=
  match l, i with
  | [], _ => []
  | _ :: t, O => t
  | x :: t, S j => x :: remove_at j t
  end.

Definition is_empty_group (g : group) : bool :=
  match g with Grp _ [] [] [] => true | _ => false end.

(* all-or-nothing collection of hints for planOr *)
Fixpoint all_hints (ih : leg -> option hint) (legs : list leg) : option (list hint) :=
  match legs with
  | [] => Some []
  | l :: t => match ih l, all_hints ih t with
              | Some h, Some hs => Some (h :: hs)
              | _, _ => None
              end
  end.

Section Plan.
  Variable ih : leg -> option hint.
  Variable keep_labels : bool.      (* true: the repaired planner *)

  Definition plan_or (g : group) : plan :=
    match g with
    | Grp _ legs subs opq =>
        match subs, opq with
        | [], [] =>
            match all_hints ih legs with
            | Some [] => PBypass
            | Some hs => POrUnion hs (if keep_labels && has_labels g then Some g else None)
            | None => PBypass
            end
        | _, _ => PBypass
        end
    end.

  (* first indexable leg *)
  Fixpoint first_leg (i : nat) (legs : list leg) : option (nat * leg * hint) :=
    match legs with
    | [] => None
    | l :: t => match ih l with Some h => Some (i, l, h) | None => first_leg (S i) t end
    end.

  (* PlanFilter on a sub-group yields OrUnion only for a non-empty OR group *)
  Definition sub_union (s : group) : option (list hint) :=
    if is_empty_group s then None
    else if g_or s then match plan_or s with POrUnion hs _ => Some hs | _ => None end
    else None.

  Fixpoint first_sub (i : nat) (subs : list group) : option (nat * group * list hint) :=
    match subs with
    | [] => None
    | s :: t => match sub_union s with Some hs => Some (i, s, hs) | None => first_sub (S i) t end
    end.

  Definition plan_and (g : group) : plan :=
    match g with
    | Grp o legs subs opq =>
        match first_leg 0 legs with
        | Some (i, l, h) =>
            PAnd [h] (if keep_labels && negb (String.eqb (llabel l) EmptyString) then g
                      else Grp o (remove_at i legs) subs opq)
        | None =>
            match first_sub 0 subs with
            | Some (i, s, hs) =>
                PAnd hs (if keep_labels && has_labels s then g else Grp o legs (remove_at i subs) opq)
            | None => PBypass
            end
        end
    end.

  Definition plan_filter_gen (g : group) : plan :=
    if is_empty_group g then PBypass else if g_or g then plan_or g else plan_and g.
End Plan.

Definition plan_filter := plan_filter_gen indexable_hint true.
Definition plan_filter_legacy := plan_filter_gen indexable_hint_legacy false.
