(* Query/Canon.v — values of a msgpack-decoded Treasure body, the canonical key of package
   valuecanon (Canonicalize / Equal), and the scan-side conversions of filter.go
   (toInt64 / toUint64 / toFloat64, which truncate).  Model only, no proofs.

   Widths: msgpack decoding yields int8..int64, uint8..uint64, float32/float64; every consumer
   in both routes widens at once (int64(n), uint64(n), float64(n)), which is exact, so the model
   keeps one signed, one unsigned and one float kind (binary64 bit pattern).
   Floats are Floats.SpecFloat values (pure Z arithmetic).  Go's float->integer conversion is
   implementation-defined outside the target range; the model follows the amd64 code the
   toolchain emits (CVTTSD2SQ: NaN and out-of-range give 0x8000000000000000) and is tied to the
   compiled code by the conversion probes of the harness. *)
From HV Require Import Base.Prelude.
From Coq Require Export String Ascii.
From Coq Require Import Floats.SpecFloat.
Open Scope string_scope.
Open Scope Z_scope.

(* ---- values ------------------------------------------------------------------------------ *)
Inductive val :=
| VNil | VBool (b : bool) | VInt (z : Z) | VUint (n : N) | VFloat (bits : N) | VStr (s : string)
| VTime (secs : Z) | VArr (l : list val) | VMap (l : list (string * val)) | VOther.

(* ---- binary64 ---------------------------------------------------------------------------- *)
Definition decode_f64 (bits : N) : spec_float :=
  let b := Z.of_N bits in
  let s := Z.testbit b 63 in
  let e := Z.land (Z.shiftr b 52) 2047 in
  let m := Z.land b (2 ^ 52 - 1) in
  if e =? 0 then (if m =? 0 then S754_zero s else S754_finite s (Z.to_pos m) (-1074))
  else if e =? 2047 then (if m =? 0 then S754_infinity s else S754_nan)
  else S754_finite s (Z.to_pos (m + 2 ^ 52)) (e - 1075).

(* float64(i) for an integer: round to nearest even *)
Definition z2f (z : Z) : spec_float := binary_normalize 53 1024 z 0 false.

(* truncation toward zero; None for NaN and the infinities *)
Definition trunc_sf (f : spec_float) : option Z :=
  match f with
  | S754_zero _ => Some 0
  | S754_finite s m e =>
      let a := if 0 <=? e then Zpos m * 2 ^ e else Z.shiftr (Zpos m) (- e) in
      Some (if s then - a else a)
  | _ => None
  end.

Definition min_i64 : Z := - 2 ^ 63.
Definition max_i64 : Z := 2 ^ 63 - 1.

(* int64(f) as compiled for amd64 *)
Definition go_f2i (f : spec_float) : Z :=
  match trunc_sf f with
  | Some t => if (min_i64 <=? t) && (t <=? max_i64) then t else min_i64
  | None => min_i64
  end.

(* uint64(f) as compiled for amd64: x < 2^63 ? uint64(int64(x)) : uint64(int64(x - 2^63)) | 2^63 *)
Definition go_f2u (f : spec_float) : N :=
  match trunc_sf f with
  | Some t =>
      if t <? 2 ^ 63 then Z.to_N ((if min_i64 <=? t then t else min_i64) mod 2 ^ 64)
      else if t <? 2 ^ 64 then Z.to_N t else Z.to_N (2 ^ 63)
  | None => Z.to_N (2 ^ 63)
  end.

Definition f_eqb (a b : spec_float) : bool := SFeqb a b.     (* Go ==: NaN never, +0 == -0 *)
Definition f_ltb (a b : spec_float) : bool := SFltb a b.
Definition f_leb (a b : spec_float) : bool := SFleb a b.

(* ---- canonical keys (valuecanon.Key) ----------------------------------------------------- *)
Inductive ckey :=
| KNull | KBool (b : bool) | KInt (z : Z) | KUint (n : N) | KFloat (bits : N) | KStr (s : string).

Definition canonicalize (v : val) : ckey :=
  match v with
  | VNil => KNull
  | VBool b => KBool b
  | VInt z => KInt z
  | VUint n => KUint n
  | VFloat b => KFloat b
  | VStr s => KStr s
  | VTime z => KInt z
  | VArr _ | VMap _ | VOther => KNull
  end.

Definition is_numeric (k : ckey) : bool :=
  match k with KInt _ | KUint _ | KFloat _ => true | _ => false end.

Definition is_float (k : ckey) : bool := match k with KFloat _ => true | _ => false end.

(* toFloat64Lossless *)
Definition to_float_lossless (k : ckey) : option spec_float :=
  match k with
  | KFloat b => Some (decode_f64 b)
  | KInt z => let f := z2f z in if go_f2i f =? z then Some f else None
  | KUint n => let f := z2f (Z.of_N n) in if N.eqb (go_f2u f) n then Some f else None
  | _ => None
  end.

(* valuecanon.Equal *)
Definition canon_equal (a b : ckey) : bool :=
  match a, b with
  | KNull, KNull => true
  | KBool x, KBool y => Bool.eqb x y
  | KInt x, KInt y => x =? y
  | KUint x, KUint y => N.eqb x y
  | KFloat x, KFloat y => f_eqb (decode_f64 x) (decode_f64 y)
  | KStr x, KStr y => String.eqb x y
  | _, _ =>
      if negb (is_numeric a) || negb (is_numeric b) then false
      else if is_float a || is_float b then
        match to_float_lossless a, to_float_lossless b with
        | Some fa, Some fb => f_eqb fa fb
        | _, _ => false
        end
      else
        match a, b with
        | KInt i, KUint u => (0 <=? i) && N.eqb (Z.to_N i) u
        | KUint u, KInt i => (0 <=? i) && N.eqb (Z.to_N i) u
        | _, _ => false
        end
  end.

(* ---- scan-side conversions (filter.go) ---------------------------------------------------- *)
Definition to_int64 (v : val) : option Z :=
  match v with
  | VInt z => Some z
  | VUint n => if Z.of_N n <=? max_i64 then Some (Z.of_N n) else None
  | VFloat b => Some (go_f2i (decode_f64 b))
  | VTime z => Some z
  | _ => None
  end.

Definition to_uint64 (v : val) : option N :=
  match v with
  | VUint n => Some n
  | VInt z => if 0 <=? z then Some (Z.to_N z) else None
  | VFloat b => Some (go_f2u (decode_f64 b))
  | _ => None
  end.

Definition to_float64 (v : val) : option spec_float :=
  match v with
  | VFloat b => Some (decode_f64 b)
  | VInt z => Some (z2f z)
  | VUint n => Some (z2f (Z.of_N n))
  | _ => None
  end.

(* bytewise string order (Go's < on strings) *)
Definition str_ltb (a b : string) : bool :=
  match String.compare a b with Lt => true | _ => false end.
Definition str_leb (a b : string) : bool :=
  match String.compare a b with Gt => false | _ => true end.
