(* Query/Routes.v — the two executions of gateway.go:GetByIndexStream as functions of the swamp
   contents, the beacon order, and the request; the bucket as a function of the contents; the
   case checker used by the correspondence harness (check_all).  Model only, no proofs.

   M2: the order of the beacon among records with equal sort attribute, and the order in which
   the bucket hands out candidates (Go map iteration), are inputs: [ord] is the beacon's ordered
   list (observed), [srt] the sorted candidate list. *)
From HV Require Export Base.Prelude Query.Canon Query.Filter Query.Planner.
Open Scope string_scope.
Open Scope Z_scope.

(* ---- request ------------------------------------------------------------------------------ *)
(* qidx: 0 key, 1 expiration time, 2 creation time, 3 update time *)
Record req := mkReq { qidx : N; qdesc : bool; qfrom : Z; qlimit : Z; qft : option Z; qtt : option Z;
                      qmax : Z; qinc : list string; qexc : list string; qfilter : group }.

Definition attr (idx : N) (r : rec) : Z :=
  match idx with 1%N => rexpired r | 2%N => rcreated r | 3%N => rupdated r | _ => 0 end.

(* the time beacons hold only Treasures whose timestamp is non-zero *)
Definition eligible (idx : N) (r : rec) : bool := N.eqb idx 0 || negb (attr idx r =? 0).

Definition in_window (q : req) (r : rec) : bool :=
  N.eqb (qidx q) 0
  || ((match qft q with Some f => f <=? attr (qidx q) r | None => true end)
      && (match qtt q with Some t => attr (qidx q) r <? t | None => true end)).

(* beacon.GetManyFromOrderPosition on a sorted beacon: window, then From, then Limit *)
Definition page (q : req) (l : list rec) : list rec :=
  let l1 := skipn (Z.to_nat (qfrom q)) l in
  if qlimit q =? 0 then l1 else firstn (Z.to_nat (qlimit q)) l1.

Definition beacon_page (ord : list rec) (q : req) : list rec := page q (filter (in_window q) ord).

Definition mem_str (k : string) (l : list string) : bool := existsb (String.eqb k) l.

Definition keys_ok (q : req) (r : rec) : bool :=
  (match qinc q with [] => true | inc => mem_str (rkey r) inc end)
  && negb (mem_str (rkey r) (qexc q)).

Definition take_max (m : Z) {A} (l : list A) : list A := if m <=? 0 then l else firstn (Z.to_nat m) l.

Definition row := (string * list string)%type.

(* the streaming loop: key filters, per-row predicate, labels, MaxResults *)
Definition emit (legf : rec -> leg -> bool) (q : req) (f : option group) (rows : list rec) : list row :=
  take_max (qmax q)
    (map (fun r => (rkey r, match f with Some g => glabels legf r g | None => [] end))
         (filter (fun r => keys_ok q r && match f with Some g => eval_group legf r g | None => true end) rows)).

(* ---- bucket ------------------------------------------------------------------------------- *)
(* bucket.extractKey: the prefix is optional for the bucket *)
Definition bucket_key (r : rec) (path : string) : ckey :=
  match rbody r with
  | BMap _ d => canonicalize (plain_extract d path)
  | BOpaque => KNull
  end.

Definition matches_hint (r : rec) (h : hint) : bool :=
  match h with
  | HEq p k => canon_equal (bucket_key r p) k
  | HIn p ks => existsb (canon_equal (bucket_key r p)) ks
  end.

Definition matches_hints (r : rec) (hs : list hint) : bool := existsb (matches_hint r) hs.

(* collectBucketCandidates over a fresh bucket: the records whose key matches, each once *)
Definition candidates (contents : list rec) (hs : list hint) : list rec :=
  filter (fun r => matches_hints r hs) contents.

(* ---- sorting ------------------------------------------------------------------------------ *)
Definition sort_leb (idx : N) (desc : bool) (a b : rec) : bool :=
  if N.eqb idx 0 then (if desc then str_leb (rkey b) (rkey a) else str_leb (rkey a) (rkey b))
  else (if desc then attr idx b <=? attr idx a else attr idx a <=? attr idx b).

Fixpoint insert_sorted (leb : rec -> rec -> bool) (x : rec) (l : list rec) : list rec :=
  match l with
  | [] => [x]
  | y :: t => if leb x y then x :: l else y :: insert_sorted leb x t
  end.
Definition isort (leb : rec -> rec -> bool) (l : list rec) : list rec := fold_right (insert_sorted leb) [] l.

(* ---- the two routes ----------------------------------------------------------------------- *)
Definition scan_route (legf : rec -> leg -> bool) (ord : list rec) (q : req) (f : group) : list row :=
  emit legf q (Some f) (beacon_page ord q).

(* what the unpaged bucket branch sorts *)
Definition bucket_unsorted (contents : list rec) (q : req) (hs : list hint) : list rec :=
  filter (in_window q) (filter (eligible (qidx q)) (candidates contents hs)).

Definition paged (q : req) : bool := negb (qfrom q =? 0) || negb (qlimit q =? 0).

Definition bucket_rows (contents ord srt : list rec) (q : req) (hs : list hint) : list rec :=
  if paged q then filter (fun r => mem_str (rkey r) (map rkey (candidates contents hs))) (beacon_page ord q)
  else srt.

Definition accel_route (legf : rec -> leg -> bool) (contents ord srt : list rec) (q : req) : list row :=
  match plan_filter (qfilter q) with
  | PBypass => scan_route legf ord q (qfilter q)
  | PAnd hs resid => emit legf q (Some resid) (bucket_rows contents ord srt q hs)
  | POrUnion hs resid => emit legf q resid (bucket_rows contents ord srt q hs)
  end.

(* the wrapped request of the harness: OR{sub-group F} *)
Definition wrap (f : group) : group := Grp true [] [f] [].

(* ---- case checker -------------------------------------------------------------------------- *)
Inductive case :=
| CaseQ (contents : list rec) (ord : list string) (q : req) (acc scan : list row)
| CaseF2I (bits : N) (i : Z) (u : N)
| CaseI2F (z : Z) (bits : N)
| CaseU2F (n : N) (bits : N).

Fixpoint find_rec (k : string) (l : list rec) : option rec :=
  match l with
  | [] => None
  | r :: t => if String.eqb k (rkey r) then Some r else find_rec k t
  end.

Fixpoint resolve (contents : list rec) (ks : list string) : option (list rec) :=
  match ks with
  | [] => Some []
  | k :: t => match find_rec k contents, resolve contents t with
              | Some r, Some rs => Some (r :: rs)
              | _, _ => None
              end
  end.

Fixpoint sorted_by (leb : rec -> rec -> bool) (l : list rec) : bool :=
  match l with
  | [] => true
  | x :: t => match t with [] => true | y :: _ => leb x y && sorted_by leb t end
  end.

Fixpoint nodup_str (l : list string) : bool :=
  match l with [] => true | x :: t => negb (mem_str x t) && nodup_str t end.

(* ord is a duplicate-free, sorted enumeration of exactly the eligible records *)
Definition ord_ok (contents : list rec) (q : req) (ordk : list string) (ord : list rec) : bool :=
  nodup_str ordk
  && forallb (eligible (qidx q)) ord
  && forallb (fun r => implb (eligible (qidx q) r) (mem_str (rkey r) ordk)) contents
  && sorted_by (sort_leb (qidx q) (qdesc q)) ord.

Definition row_eqb (a b : row) : bool :=
  String.eqb (fst a) (fst b) && list_eqb String.eqb (snd a) (snd b).
Definition rows_eqb := list_eqb row_eqb.

Definition mem_row (x : row) (l : list row) : bool := existsb (row_eqb x) l.

(* sort attribute of an output row *)
Definition row_attr (contents : list rec) (idx : N) (x : row) : Z :=
  match find_rec (fst x) contents with Some r => attr idx r | None => 0 end.

(* "the same records in the same order up to ties": same length, the same sequence of sort
   attributes, no key twice, and every row of one output occurs (with its labels) in the other;
   only when MaxResults cut the output (cut = true) the last tie group is exempt, because the two
   routes may cut it differently. For the key index there are no ties: plain equality. *)
Definition agree_ties (contents : list rec) (idx : N) (cut : bool) (a b : list row) : bool :=
  if N.eqb idx 0 then rows_eqb a b
  else
    let ka := map (row_attr contents idx) a in
    let kb := map (row_attr contents idx) b in
    let lastk := last ka 0 in
    let exempt x := cut && (row_attr contents idx x =? lastk) in
    list_eqb Z.eqb ka kb
    && nodup_str (map fst a) && nodup_str (map fst b)
    && forallb (fun x => exempt x || mem_row x b) a
    && forallb (fun x => exempt x || mem_row x a) b.

Definition was_cut (q : req) (a : list row) : bool :=
  (0 <? qmax q) && (Z.of_nat (List.length a) =? qmax q).

Definition has_raw_body (contents : list rec) : bool :=
  existsb (fun r => match rbody r with BMap false _ => true | _ => false end) contents.

(* verdict codes: 1 scan output <> model; 2 accelerated output <> model; 3 observed beacon order
   is not a sorted enumeration of the eligible records; 10 routes disagree; 11 routes disagree
   exactly as the model predicts for a body without the msgpack magic prefix; 20..22 numeric
   conversion probes *)
Definition check_q (contents : list rec) (ordk : list string) (q : req) (acc scan : list row) : N :=
  match resolve contents ordk with
  | None => 3%N
  | Some ord =>
      let agree := agree_ties contents (qidx q) (was_cut q acc) acc scan in
      let exp_scan := scan_route scan_leg ord q (wrap (qfilter q)) in
      let srt := isort (sort_leb (qidx q) (qdesc q)) (bucket_unsorted contents q
                    (match plan_filter (qfilter q) with PAnd hs _ => hs | POrUnion hs _ => hs | PBypass => [] end)) in
      let exp_acc := accel_route scan_leg contents ord srt q in
      let scan_ok := rows_eqb exp_scan scan in
      let acc_ok :=
        match plan_filter (qfilter q) with
        | PBypass => rows_eqb exp_acc acc
        | _ => if paged q then rows_eqb exp_acc acc else agree_ties contents (qidx q) (was_cut q acc) exp_acc acc
        end in
      if negb (ord_ok contents q ordk ord) then 3%N
      else if negb agree then
        (if has_raw_body contents && scan_ok && acc_ok then 11%N else 10%N)
      else if negb scan_ok then 1%N
      else if negb acc_ok then 2%N
      else 0%N
  end.

Definition chk (c : case) : N :=
  match c with
  | CaseQ contents ordk q acc scan => check_q contents ordk q acc scan
  | CaseF2I bits i u =>
      if (go_f2i (decode_f64 bits) =? i) && N.eqb (go_f2u (decode_f64 bits)) u then 0%N else 20%N
  | CaseI2F z bits => if f_eqb (z2f z) (decode_f64 bits) then 0%N else 21%N
  | CaseU2F n bits => if f_eqb (z2f (Z.of_N n)) (decode_f64 bits) then 0%N else 22%N
  end.

Definition check_all (cases : list case) : list verdict := check_cases chk cases.
