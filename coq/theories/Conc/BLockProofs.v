(* Conc/BLockProofs.v — invariants of the business-lock model for every trace, any number of
   callers, with and without pruning; mutual exclusion, FIFO, head progress, release only by
   owner/TTL, no residue (C28) and its refutation for the unpruned code. *)
From HV Require Import Base.Prelude Conc.BLock.
From Coq Require Import Sorted.

(* ---- lists ---------------------------------------------------------------------------------- *)
Lemma upd_nth_same {A} : forall (l : list A) i x y,
  nth_error l i = Some y -> nth_error (upd i x l) i = Some x.
Proof. induction l as [|z t IH]; intros [|i] x y E; simpl in *; try discriminate; eauto. Qed.

Lemma upd_nth_other {A} : forall (l : list A) i j x, i <> j -> nth_error (upd i x l) j = nth_error l j.
Proof.
  induction l as [|z t IH]; intros [|i] [|j] x N; simpl; try reflexivity; try congruence.
  apply IH. congruence.
Qed.

Lemma upd_id {A} : forall (l : list A) i x, nth_error l i = Some x -> upd i x l = l.
Proof. induction l as [|z t IH]; intros [|i] x E; simpl in *; try discriminate; try congruence.
  f_equal. eauto. Qed.

Lemma upd_nth_inv {A} (l : list A) i x y j z :
  nth_error l i = Some y -> nth_error (upd i x l) j = Some z ->
  (j = i /\ z = x) \/ (j <> i /\ nth_error l j = Some z).
Proof.
  intros E F. destruct (Nat.eq_dec j i) as [->|N].
  - rewrite (upd_nth_same _ _ _ _ E) in F. left; split; congruence.
  - rewrite upd_nth_other in F by congruence. right; auto.
Qed.

Lemma upd_nth_none {A} : forall (l : list A) i x, nth_error l i = None -> upd i x l = l.
Proof. induction l as [|z t IH]; intros [|i] x E; simpl in *; try discriminate; try reflexivity.
  f_equal; eauto. Qed.

(* lookup in an updated thread list, whether or not the index exists *)
Lemma upd_nth_cases {A} (l : list A) i x j :
  nth_error (upd i x l) j = if Nat.eqb j i then (match nth_error l i with Some _ => Some x | None => None end)
                            else nth_error l j.
Proof.
  destruct (Nat.eqb_spec j i) as [->|N].
  - destruct (nth_error l i) eqn:E; [eapply upd_nth_same; eauto|].
    rewrite upd_nth_none by assumption. assumption.
  - apply upd_nth_other. congruence.
Qed.

(* ---- removal on entry lists --------------------------------------------------------------- *)
Definition removed (id : nat) (l : list entry) : list entry :=
  if is_head id l then wake_head (rm_first id l) else rm_first id l.

Lemma rm_first_In id : forall l e, In e (rm_first id l) -> In e l.
Proof. induction l as [|a t IH]; simpl; intros e H; auto. destruct (Nat.eqb (e_tok a) id); simpl in *; intuition. Qed.

Lemma rm_first_tok id : forall l e, NoDup (map e_tok l) -> In e (rm_first id l) -> e_tok e <> id.
Proof.
  induction l as [|a t IH]; simpl; intros e ND H; [tauto|]. inversion ND as [|? ? Na NDt]; subst.
  destruct (Nat.eqb_spec (e_tok a) id) as [E|N].
  - intros Ee. apply Na. rewrite E, <- Ee. apply in_map. assumption.
  - destruct H as [<-|H]; [assumption|]. apply IH; assumption.
Qed.

Lemma rm_first_nodup id : forall l, NoDup (map e_tok l) -> NoDup (map e_tok (rm_first id l)).
Proof.
  induction l as [|a t IH]; simpl; intros ND; [constructor|]. inversion ND as [|? ? Na NDt]; subst.
  destruct (Nat.eqb (e_tok a) id); [assumption|]. simpl. constructor; [|auto].
  intros Hin. apply Na. apply in_map_iff in Hin. destruct Hin as [e [Ee Hin]].
  apply in_map_iff. exists e. split; [assumption|]. eapply rm_first_In; eauto.
Qed.

Lemma sorted_lt_sub : forall (l : list nat) a, StronglySorted lt (a :: l) -> forall x, In x l -> a < x.
Proof. intros l a S x Hin. inversion S as [|? ? _ F]; subst. rewrite Forall_forall in F. auto. Qed.

Lemma rm_first_sorted id : forall l, StronglySorted lt (map e_seq l) -> StronglySorted lt (map e_seq (rm_first id l)).
Proof.
  induction l as [|a t IH]; simpl; intros S; [constructor|]. inversion S as [|? ? St F]; subst.
  destruct (Nat.eqb (e_tok a) id); [assumption|]. simpl. constructor; [auto|].
  rewrite Forall_forall in *. intros x Hin. apply F. apply in_map_iff in Hin. destruct Hin as [e [<- Hin]].
  apply in_map. eapply rm_first_In; eauto.
Qed.

Lemma wake_head_tok l : map e_tok (wake_head l) = map e_tok l.
Proof. destruct l; reflexivity. Qed.
Lemma wake_head_seq l : map e_seq (wake_head l) = map e_seq l.
Proof. destruct l; reflexivity. Qed.

Lemma wake_head_In l e : In e (wake_head l) ->
  exists e0, In e0 l /\ e_tok e0 = e_tok e /\ e_seq e0 = e_seq e /\ (e_ready e0 = true -> e_ready e = true).
Proof.
  destruct l as [|a t]; simpl; [tauto|]. intros [<-|H].
  - exists a. simpl. auto.
  - exists e. auto.
Qed.

Lemma removed_In id l e : In e (removed id l) ->
  exists e0, In e0 l /\ e_tok e0 = e_tok e /\ e_seq e0 = e_seq e /\ (e_ready e0 = true -> e_ready e = true).
Proof.
  unfold removed. destruct (is_head id l).
  - intros H. destruct (wake_head_In _ _ H) as [e0 [Hin R]]. exists e0. split; [eapply rm_first_In; eauto|assumption].
  - intros H. exists e. split; [eapply rm_first_In; eauto|auto].
Qed.

Lemma removed_tok_map id l : map e_tok (removed id l) = map e_tok (rm_first id l).
Proof. unfold removed. destruct (is_head id l); [apply wake_head_tok|reflexivity]. Qed.
Lemma removed_seq_map id l : map e_seq (removed id l) = map e_seq (rm_first id l).
Proof. unfold removed. destruct (is_head id l); [apply wake_head_seq|reflexivity]. Qed.

Lemma removed_tok id l e : NoDup (map e_tok l) -> In e (removed id l) -> e_tok e <> id.
Proof.
  intros ND H. assert (Hm : In (e_tok e) (map e_tok (rm_first id l))).
  { rewrite <- removed_tok_map. apply in_map. assumption. }
  apply in_map_iff in Hm. destruct Hm as [e1 [<- H1]]. eapply rm_first_tok; eauto.
Qed.

Definition ready_ok (l : list entry) : Prop :=
  match l with [] => True | e :: t => e_ready e = true /\ Forall (fun x => e_ready x = false) t end.

Lemma rm_first_allfalse id : forall l, Forall (fun x => e_ready x = false) l ->
  Forall (fun x => e_ready x = false) (rm_first id l).
Proof.
  intros l F. rewrite Forall_forall in *. intros x Hin. apply F. eapply rm_first_In; eauto.
Qed.

Lemma removed_ready_ok id l : ready_ok l -> ready_ok (removed id l).
Proof.
  unfold removed. destruct l as [|a t]; simpl; [auto|]. intros [Ra Ft].
  destruct (Nat.eqb (e_tok a) id) eqn:E; simpl.
  - destruct t as [|b t']; simpl; [exact I|]. inversion Ft; subst. split; [reflexivity|assumption].
  - split; [assumption|]. apply rm_first_allfalse. assumption.
Qed.

Lemma ready_ok_head l e : ready_ok l -> In e l -> e_ready e = true -> exists t, l = e :: t.
Proof.
  destruct l as [|a t]; simpl; [tauto|]. intros [Ra Ft] [<-|Hin] Re; [eauto|].
  rewrite Forall_forall in Ft. rewrite (Ft _ Hin) in Re. discriminate.
Qed.

Lemma nodup_tok_eq l e1 e2 : NoDup (map e_tok l) -> In e1 l -> In e2 l -> e_tok e1 = e_tok e2 -> e1 = e2.
Proof.
  induction l as [|a t IH]; simpl; [tauto|]. intros ND H1 H2 E. inversion ND as [|? ? Na NDt]; subst.
  destruct H1 as [<-|H1], H2 as [<-|H2]; auto.
  - exfalso. apply Na. rewrite E. apply in_map. assumption.
  - exfalso. apply Na. rewrite <- E. apply in_map. assumption.
Qed.

Lemma find_entry_In id : forall l e, find_entry id l = Some e -> In e l /\ e_tok e = id.
Proof.
  induction l as [|a t IH]; simpl; intros e F; [discriminate|].
  destruct (Nat.eqb_spec (e_tok a) id) as [E|N].
  - inversion F; subst. auto.
  - destruct (IH _ F). auto.
Qed.

Lemma find_entry_some id : forall l e, In e l -> e_tok e = id -> exists e', find_entry id l = Some e'.
Proof.
  induction l as [|a t IH]; simpl; intros e Hin E; [tauto|].
  destruct (Nat.eqb_spec (e_tok a) id); [eauto|]. destruct Hin as [<-|Hin]; [congruence|eauto].
Qed.

Lemma has_tok_In id l : has_tok id l = true <-> exists e, In e l /\ e_tok e = id.
Proof.
  unfold has_tok. rewrite existsb_exists. split; intros [e [Hin E]]; exists e; split; auto.
  - apply Nat.eqb_eq. assumption.
  - apply Nat.eqb_eq. assumption.
Qed.

Lemma sorted_app_last (l : list nat) n : StronglySorted lt l -> Forall (fun x => x < n) l -> StronglySorted lt (l ++ [n]).
Proof.
  induction l as [|a t IH]; simpl; intros S F; [repeat constructor|].
  inversion S as [|? ? St Fa]; subst. inversion F as [|? ? Ha Ft]; subst. constructor; [auto|].
  apply Forall_app. split; [assumption|]. constructor; [assumption|constructor].
Qed.

(* ---- the invariant -------------------------------------------------------------------------- *)
Definition thr_ok (s : st) (p : nat) (e : entry) : Prop :=
  nth_error (thr s) (e_tok e) = Some (L2 p) \/ nth_error (thr s) (e_tok e) = Some (H p).

Record Inv (s : st) : Prop := mkInv {
  i_cur : forall p, cur s = Some p -> exists q, nth_error (heap s) p = Some q /\ retired q = false;
  i_old : forall p q, nth_error (heap s) p = Some q -> cur s <> Some p -> ents q = [] /\ retired q = true;
  i_rdy : forall p q, nth_error (heap s) p = Some q -> ready_ok (ents q);
  i_thr : forall p q e, nth_error (heap s) p = Some q -> In e (ents q) -> thr_ok s p e;
  i_nodup : forall p q, nth_error (heap s) p = Some q -> NoDup (map e_tok (ents q));
  i_hrdy : forall p q e, nth_error (heap s) p = Some q -> In e (ents q) ->
           is_H (nth_error (thr s) (e_tok e)) = true -> e_ready e = true;
  i_seq : forall p q, nth_error (heap s) p = Some q -> StronglySorted lt (map e_seq (ents q));
  i_seqb : forall p q e, nth_error (heap s) p = Some q -> In e (ents q) -> e_seq e < nenq s;
  i_glog : StronglySorted gt (glog s) /\ Forall (fun g => g < nenq s) (glog s);
  i_wait : forall p q e g, nth_error (heap s) p = Some q -> In e (ents q) ->
           is_H (nth_error (thr s) (e_tok e)) = false -> In g (glog s) -> g < e_seq e }.

Lemma inv_init n : Inv (init n).
Proof.
  assert (N : forall p (q : qobj), nth_error (@nil qobj) p = Some q -> False)
    by (intros [|p] q E; discriminate).
  constructor; simpl; try (intros; exfalso; eapply N; eassumption).
  - intros p E; discriminate.
  - split; constructor.
Qed.

(* an object that has entries is the current one *)
Lemma nonempty_is_cur s p q : Inv s -> nth_error (heap s) p = Some q -> ents q <> [] -> cur s = Some p.
Proof.
  intros I E N. destruct (cur s) as [c|] eqn:Ec.
  - destruct (Nat.eq_dec c p) as [->|Ne]; [reflexivity|].
    destruct (i_old s I p q E) as [Z _]; [rewrite Ec; congruence|contradiction].
  - destruct (i_old s I p q E) as [Z _]; [rewrite Ec; congruence|contradiction].
Qed.

Lemma unretired_is_cur s p q : Inv s -> nth_error (heap s) p = Some q -> retired q = false -> cur s = Some p.
Proof.
  intros I E N. destruct (cur s) as [c|] eqn:Ec.
  - destruct (Nat.eq_dec c p) as [->|Ne]; [reflexivity|].
    destruct (i_old s I p q E) as [_ Z]; [rewrite Ec; congruence|congruence].
  - destruct (i_old s I p q E) as [_ Z]; [rewrite Ec; congruence|congruence].
Qed.

Lemma inv_do_remove prune s p id s' f :
  Inv s -> do_remove prune s p id = Some (s', f) -> Inv s' /\ thr s' = thr s.
Proof.
  intros I E. unfold do_remove in E.
  destruct (nth_error (heap s) p) as [q|] eqn:Eq; [|discriminate].
  unfold q_remove in E. destruct (has_tok id (ents q)) eqn:Eh.
  - (* found *)
    assert (Hne : ents q <> []). { intros Z. rewrite Z in Eh. discriminate. }
    pose proof (nonempty_is_cur s p q I Eq Hne) as Hc.
    fold (removed id (ents q)) in E. set (l' := removed id (ents q)) in *.
    inversion E; subst s' f; clear E. simpl. rewrite Hc. simpl. rewrite Nat.eqb_refl, andb_true_r.
    split; [|reflexivity].
    destruct (i_cur s I p Hc) as [q2 [Eq2 Rq]]. rewrite Eq in Eq2. inversion Eq2; subst q2; clear Eq2.
    constructor; simpl.
    + intros p0 Hp0. destruct (prune && is_nil l') eqn:Ed; [discriminate|]. inversion Hp0; subst p0.
      eexists. split; [eapply upd_nth_same; eauto|]. simpl. rewrite Rq. reflexivity.
    + intros p0 q0 E0 Hn. destruct (upd_nth_inv _ _ _ _ _ _ Eq E0) as [[-> ->]|[Np E1]].
      * simpl. destruct (prune && is_nil l') eqn:Ed; [|congruence].
        apply andb_true_iff in Ed. destruct Ed as [_ Ed]. split.
        -- destruct l'; [reflexivity|discriminate].
        -- apply orb_true_r.
      * apply (i_old s I p0 q0 E1). rewrite Hc. congruence.
    + intros p0 q0 E0. destruct (upd_nth_inv _ _ _ _ _ _ Eq E0) as [[-> ->]|[Np E1]]; simpl.
      * apply removed_ready_ok. eapply i_rdy; eauto.
      * eapply i_rdy; eauto.
    + intros p0 q0 e E0 Hin. destruct (upd_nth_inv _ _ _ _ _ _ Eq E0) as [[-> ->]|[Np E1]]; simpl in *.
      * destruct (removed_In _ _ _ Hin) as [e0 [Hin0 [Et _]]].
        pose proof (i_thr s I p q e0 Eq Hin0) as T. unfold thr_ok in *. simpl. rewrite <- Et. exact T.
      * exact (i_thr s I p0 q0 e E1 Hin).
    + intros p0 q0 E0. destruct (upd_nth_inv _ _ _ _ _ _ Eq E0) as [[-> ->]|[Np E1]]; simpl.
      * unfold l'. rewrite removed_tok_map. apply rm_first_nodup. eapply i_nodup; eauto.
      * eapply i_nodup; eauto.
    + intros p0 q0 e E0 Hin Hh. destruct (upd_nth_inv _ _ _ _ _ _ Eq E0) as [[-> ->]|[Np E1]]; simpl in *.
      * destruct (removed_In _ _ _ Hin) as [e0 [Hin0 [Et [_ Er]]]]. apply Er.
        eapply i_hrdy; eauto. rewrite Et. assumption.
      * eapply i_hrdy; eauto.
    + intros p0 q0 E0. destruct (upd_nth_inv _ _ _ _ _ _ Eq E0) as [[-> ->]|[Np E1]]; simpl.
      * unfold l'. rewrite removed_seq_map. apply rm_first_sorted. eapply i_seq; eauto.
      * eapply i_seq; eauto.
    + intros p0 q0 e E0 Hin. destruct (upd_nth_inv _ _ _ _ _ _ Eq E0) as [[-> ->]|[Np E1]]; simpl in *.
      * destruct (removed_In _ _ _ Hin) as [e0 [Hin0 [_ [Es _]]]]. rewrite <- Es. eapply i_seqb; eauto.
      * eapply i_seqb; eauto.
    + apply (i_glog s I).
    + intros p0 q0 e g E0 Hin Hh Hg. destruct (upd_nth_inv _ _ _ _ _ _ Eq E0) as [[-> ->]|[Np E1]]; simpl in *.
      * destruct (removed_In _ _ _ Hin) as [e0 [Hin0 [Et [Es _]]]]. rewrite <- Es.
        eapply i_wait; eauto. rewrite Et. assumption.
      * eapply i_wait; eauto.
  - (* not found: nothing changes *)
    inversion E; subst s' f; clear E. simpl. rewrite (upd_id _ _ _ Eq).
    split; [|reflexivity]. destruct s; simpl in *. exact I.
Qed.

(* after a caller in the select removed itself, no object holds an entry of it *)
Lemma do_remove_absent prune s p t s' f : Inv s -> nth_error (thr s) t = Some (L2 p) ->
  do_remove prune s p t = Some (s', f) ->
  forall p0 q0 e, nth_error (heap s') p0 = Some q0 -> In e (ents q0) -> e_tok e <> t.
Proof.
  intros I Et E p0 q0 e E0 Hin Ee. unfold do_remove in E.
  destruct (nth_error (heap s) p) as [q|] eqn:Eq; [|discriminate].
  unfold q_remove in E. destruct (has_tok t (ents q)) eqn:Eh; inversion E; subst s' f; clear E; simpl in *.
  - destruct (upd_nth_inv _ _ _ _ _ _ Eq E0) as [[-> ->]|[Np E1]]; simpl in *.
    + eapply (removed_tok t (ents q) e); eauto. eapply i_nodup; eauto.
    + destruct (i_thr s I p0 q0 e E1 Hin) as [T|T]; rewrite Ee, Et in T; inversion T; congruence.
  - destruct (upd_nth_inv _ _ _ _ _ _ Eq E0) as [[-> ->]|[Np E1]]; simpl in *.
    + assert (has_tok t (ents q) = true) by (apply has_tok_In; eauto). congruence.
    + destruct (i_thr s I p0 q0 e E1 Hin) as [T|T]; rewrite Ee, Et in T; inversion T; congruence.
Qed.

(* changing the pc of a thread that has no entry anywhere keeps the invariant *)
Lemma inv_set_thr_absent s t c : Inv s ->
  (forall p q e, nth_error (heap s) p = Some q -> In e (ents q) -> e_tok e <> t) ->
  Inv (set_thr s t c).
Proof.
  intros I A. unfold set_thr.
  assert (L : forall p q e, nth_error (heap s) p = Some q -> In e (ents q) ->
              nth_error (upd t c (thr s)) (e_tok e) = nth_error (thr s) (e_tok e)).
  { intros p q e E Hin. apply upd_nth_other. intros Z. eapply A; eauto. }
  constructor; simpl.
  - apply (i_cur s I).
  - apply (i_old s I).
  - apply (i_rdy s I).
  - intros p q e E Hin. unfold thr_ok; simpl. rewrite (L p q e E Hin). exact (i_thr s I p q e E Hin).
  - apply (i_nodup s I).
  - intros p q e E Hin. rewrite (L p q e E Hin). eapply i_hrdy; eauto.
  - apply (i_seq s I).
  - apply (i_seqb s I).
  - apply (i_glog s I).
  - intros p q e g E Hin. rewrite (L p q e E Hin). eapply i_wait; eauto.
Qed.

Lemma nth_app_inv {A} : forall (l : list A) x i y,
  nth_error (l ++ [x]) i = Some y -> nth_error l i = Some y \/ (i = length l /\ y = x).
Proof.
  induction l as [|a t IH]; intros x [|i] y E; simpl in *.
  - right. split; congruence.
  - destruct i; discriminate.
  - left. assumption.
  - destruct (IH _ _ _ E) as [L|[-> ->]]; auto.
Qed.

Lemma nth_app_last {A} (l : list A) x : nth_error (l ++ [x]) (length l) = Some x.
Proof. induction l; simpl; auto. Qed.

Lemma nth_some_lt {A} (l : list A) i y : nth_error l i = Some y -> i < length l.
Proof. intros E. apply nth_error_Some. congruence. Qed.

Lemma nodup_app_last (l : list nat) x : NoDup l -> ~ In x l -> NoDup (l ++ [x]).
Proof.
  induction l as [|a t IH]; simpl; intros ND N; [repeat constructor; auto|].
  inversion ND; subst. constructor.
  - rewrite in_app_iff. simpl. intuition.
  - apply IH; intuition.
Qed.

Lemma no_entry_unless_queued s t : Inv s ->
  (forall p, nth_error (thr s) t <> Some (L2 p)) -> (forall p, nth_error (thr s) t <> Some (H p)) ->
  forall p q e, nth_error (heap s) p = Some q -> In e (ents q) -> e_tok e <> t.
Proof.
  intros I N2 NH p q e E Hin Z. destruct (i_thr s I p q e E Hin) as [T|T]; rewrite Z in T.
  - exact (N2 _ T).
  - exact (NH _ T).
Qed.

Lemma inv_step prune s a s' : Inv s -> step prune s a = Some s' -> Inv s'.
Proof.
  intros I E. destruct a as [t|t|p id]; simpl in E.
  - (* AStep *)
    destruct (nth_error (thr s) t) as [c|] eqn:Et; [|discriminate].
    destruct c as [|p|p|p|]; try discriminate.
    + (* L0: getQueue *)
      assert (A : forall p q e, nth_error (heap s) p = Some q -> In e (ents q) -> e_tok e <> t).
      { apply no_entry_unless_queued; [assumption| |]; intros p; rewrite Et; discriminate. }
      destruct (cur s) as [p|] eqn:Ec.
      * inversion E; subst. apply inv_set_thr_absent; assumption.
      * inversion E; subst; clear E.
        set (x := {| ents := []; retired := false |}).
        set (s1 := {| heap := heap s ++ [x]; cur := Some (length (heap s)); thr := thr s;
                      nenq := nenq s; glog := glog s |}).
        change (Inv (set_thr s1 t (L1 (length (heap s))))).
        assert (I1 : Inv s1).
        { constructor; simpl.
          - intros p Hp. inversion Hp; subst p. exists x. split; [apply nth_app_last|reflexivity].
          - intros p q Ep Hn. destruct (nth_app_inv _ _ _ _ Ep) as [L|[-> ->]]; [|congruence].
            apply (i_old s I p q L). rewrite Ec. discriminate.
          - intros p q Ep. destruct (nth_app_inv _ _ _ _ Ep) as [L|[-> ->]]; [eapply i_rdy; eauto|exact Logic.I].
          - intros p q e Ep Hin. destruct (nth_app_inv _ _ _ _ Ep) as [L|[-> ->]]; [|destruct Hin].
            exact (i_thr s I p q e L Hin).
          - intros p q Ep. destruct (nth_app_inv _ _ _ _ Ep) as [L|[-> ->]]; [eapply i_nodup; eauto|constructor].
          - intros p q e Ep Hin. destruct (nth_app_inv _ _ _ _ Ep) as [L|[-> ->]]; [|destruct Hin].
            eapply i_hrdy; eauto.
          - intros p q Ep. destruct (nth_app_inv _ _ _ _ Ep) as [L|[-> ->]]; [eapply i_seq; eauto|constructor].
          - intros p q e Ep Hin. destruct (nth_app_inv _ _ _ _ Ep) as [L|[-> ->]]; [|destruct Hin].
            eapply i_seqb; eauto.
          - apply (i_glog s I).
          - intros p q e g Ep Hin. destruct (nth_app_inv _ _ _ _ Ep) as [L|[-> ->]]; [|destruct Hin].
            eapply i_wait; eauto. }
        apply inv_set_thr_absent; [assumption|].
        intros p q e Ep Hin. simpl in Ep. destruct (nth_app_inv _ _ _ _ Ep) as [L|[-> ->]]; [|destruct Hin].
        eapply A; eauto.
    + (* L1 p: enqueue *)
      assert (A : forall p q e, nth_error (heap s) p = Some q -> In e (ents q) -> e_tok e <> t).
      { apply no_entry_unless_queued; [assumption| |]; intros p0; rewrite Et; discriminate. }
      destruct (nth_error (heap s) p) as [q|] eqn:Eq; [|discriminate].
      destruct (retired q) eqn:Er.
      * inversion E; subst. apply inv_set_thr_absent; assumption.
      * inversion E; subst; clear E.
        pose proof (unretired_is_cur s p q I Eq Er) as Hc.
        set (e := {| e_tok := t; e_seq := nenq s; e_ready := is_nil (ents q) |}).
        assert (L : forall p0 q0 e0, nth_error (heap s) p0 = Some q0 -> In e0 (ents q0) ->
                    nth_error (upd t (L2 p) (thr s)) (e_tok e0) = nth_error (thr s) (e_tok e0)).
        { intros p0 q0 e0 E0 Hin. apply upd_nth_other. intros Z. eapply A; eauto. }
        assert (Lt : nth_error (upd t (L2 p) (thr s)) t = Some (L2 p)) by (eapply upd_nth_same; eauto).
        constructor; simpl.
        -- intros p0 Hp0. rewrite Hc in Hp0. inversion Hp0; subst p0.
           eexists. split; [eapply upd_nth_same; eauto|reflexivity].
        -- intros p0 q0 E0 Hn. destruct (upd_nth_inv _ _ _ _ _ _ Eq E0) as [[-> ->]|[Np E1]]; [congruence|].
           eapply i_old; eauto.
        -- intros p0 q0 E0. destruct (upd_nth_inv _ _ _ _ _ _ Eq E0) as [[-> ->]|[Np E1]]; [|eapply i_rdy; eauto].
           simpl. pose proof (i_rdy s I p q Eq) as R. unfold e. destruct (ents q) as [|a l]; simpl in *.
           ++ split; [reflexivity|constructor].
           ++ destruct R as [Ra Fl]. split; [assumption|]. apply Forall_app. split; [assumption|].
              constructor; [reflexivity|constructor].
        -- intros p0 q0 e0 E0 Hin. unfold thr_ok; simpl.
           destruct (upd_nth_inv _ _ _ _ _ _ Eq E0) as [[-> ->]|[Np E1]]; simpl in *.
           ++ apply in_app_iff in Hin. destruct Hin as [Hin|[<-|[]]].
              ** rewrite (L p q e0 Eq Hin). exact (i_thr s I p q e0 Eq Hin).
              ** left. exact Lt.
           ++ rewrite (L p0 q0 e0 E1 Hin). exact (i_thr s I p0 q0 e0 E1 Hin).
        -- intros p0 q0 E0. destruct (upd_nth_inv _ _ _ _ _ _ Eq E0) as [[-> ->]|[Np E1]]; [|eapply i_nodup; eauto].
           simpl. rewrite map_app. simpl. apply nodup_app_last; [eapply i_nodup; eauto|].
           intros Hin. apply in_map_iff in Hin. destruct Hin as [e0 [Z Hin]]. eapply A; eauto.
        -- intros p0 q0 e0 E0 Hin Hh.
           destruct (upd_nth_inv _ _ _ _ _ _ Eq E0) as [[-> ->]|[Np E1]]; simpl in *.
           ++ apply in_app_iff in Hin. destruct Hin as [Hin|[<-|[]]].
              ** rewrite (L p q e0 Eq Hin) in Hh. eapply i_hrdy; eauto.
              ** simpl in Hh. rewrite Lt in Hh. discriminate.
           ++ rewrite (L p0 q0 e0 E1 Hin) in Hh. eapply i_hrdy; eauto.
        -- intros p0 q0 E0. destruct (upd_nth_inv _ _ _ _ _ _ Eq E0) as [[-> ->]|[Np E1]]; [|eapply i_seq; eauto].
           simpl. rewrite map_app. simpl. apply sorted_app_last; [eapply i_seq; eauto|].
           apply Forall_forall. intros x Hx. apply in_map_iff in Hx. destruct Hx as [e0 [<- Hin]].
           eapply i_seqb; eauto.
        -- intros p0 q0 e0 E0 Hin.
           destruct (upd_nth_inv _ _ _ _ _ _ Eq E0) as [[-> ->]|[Np E1]]; simpl in *.
           ++ apply in_app_iff in Hin. destruct Hin as [Hin|[<-|[]]]; [|simpl; lia].
              pose proof (i_seqb s I p q e0 Eq Hin). lia.
           ++ pose proof (i_seqb s I p0 q0 e0 E1 Hin). lia.
        -- destruct (i_glog s I) as [G1 G2]. split; [assumption|].
           eapply Forall_impl; [|exact G2]. simpl. intros; lia.
        -- intros p0 q0 e0 g E0 Hin Hh Hg.
           destruct (upd_nth_inv _ _ _ _ _ _ Eq E0) as [[-> ->]|[Np E1]]; simpl in *.
           ++ apply in_app_iff in Hin. destruct Hin as [Hin|[<-|[]]].
              ** rewrite (L p q e0 Eq Hin) in Hh. eapply i_wait; eauto.
              ** simpl. destruct (i_glog s I) as [_ G2]. rewrite Forall_forall in G2. auto.
           ++ rewrite (L p0 q0 e0 E1 Hin) in Hh. eapply i_wait; eauto.
    + (* L2 p: the select takes the ready branch *)
      destruct (nth_error (heap s) p) as [q|] eqn:Eq; [|discriminate].
      destruct (find_entry t (ents q)) as [e|] eqn:Ef; [|discriminate].
      destruct (e_ready e) eqn:Er; [|discriminate].
      inversion E; subst; clear E.
      destruct (find_entry_In _ _ _ Ef) as [Hine Etok].
      assert (Lt : nth_error (upd t (H p) (thr s)) t = Some (H p)) by (eapply upd_nth_same; eauto).
      (* any entry with token t is e itself, in object p *)
      assert (U : forall p0 q0 e0, nth_error (heap s) p0 = Some q0 -> In e0 (ents q0) -> e_tok e0 = t ->
                  p0 = p /\ q0 = q /\ e0 = e).
      { intros p0 q0 e0 E0 Hin Z. destruct (i_thr s I p0 q0 e0 E0 Hin) as [T|T]; rewrite Z, Et in T; inversion T; subst p0.
        rewrite Eq in E0. inversion E0; subst q0. repeat split.
        eapply nodup_tok_eq; eauto; [eapply i_nodup; eauto|congruence]. }
      assert (L : forall e0, e_tok e0 <> t ->
                  nth_error (upd t (H p) (thr s)) (e_tok e0) = nth_error (thr s) (e_tok e0)).
      { intros e0 N. apply upd_nth_other. congruence. }
      constructor; simpl.
      * apply (i_cur s I).
      * apply (i_old s I).
      * apply (i_rdy s I).
      * intros p0 q0 e0 E0 Hin. unfold thr_ok; simpl. destruct (Nat.eq_dec (e_tok e0) t) as [Z|N].
        -- destruct (U p0 q0 e0 E0 Hin Z) as [-> _]. right. rewrite Z. exact Lt.
        -- rewrite (L e0 N). exact (i_thr s I p0 q0 e0 E0 Hin).
      * apply (i_nodup s I).
      * intros p0 q0 e0 E0 Hin Hh. destruct (Nat.eq_dec (e_tok e0) t) as [Z|N].
        -- destruct (U p0 q0 e0 E0 Hin Z) as [_ [_ ->]]. assumption.
        -- rewrite (L e0 N) in Hh. eapply i_hrdy; eauto.
      * apply (i_seq s I).
      * apply (i_seqb s I).
      * destruct (i_glog s I) as [G1 G2]. split.
        -- constructor; [assumption|]. apply Forall_forall. intros g Hg. unfold gt.
           eapply (i_wait s I p q e g Eq Hine); [rewrite Etok, Et; reflexivity|assumption].
        -- constructor; [eapply i_seqb; eauto|assumption].
      * intros p0 q0 e0 g E0 Hin Hh Hg. destruct (Nat.eq_dec (e_tok e0) t) as [Z|N].
        -- rewrite Z, Lt in Hh. discriminate.
        -- rewrite (L e0 N) in Hh. destruct Hg as [<-|Hg]; [|eapply i_wait; eauto].
           (* e is the head of the current queue and e0 is behind it *)
           assert (Hp0 : cur s = Some p0).
           { eapply nonempty_is_cur; eauto. intros Z. rewrite Z in Hin. destruct Hin. }
           assert (Hp : cur s = Some p).
           { eapply nonempty_is_cur; eauto. intros Z. rewrite Z in Hine. destruct Hine. }
           rewrite Hp in Hp0. inversion Hp0; subst p0. rewrite Eq in E0. inversion E0; subst q0.
           destruct (ready_ok_head _ _ (i_rdy s I p q Eq) Hine Er) as [tl Hq].
           pose proof (i_seq s I p q Eq) as S. rewrite Hq in S, Hin. simpl in S.
           destruct Hin as [<-|Hin]; [congruence|].
           eapply sorted_lt_sub; eauto. apply in_map. assumption.
  - (* ACancel *)
    destruct (nth_error (thr s) t) as [c|] eqn:Et; [|discriminate].
    destruct c as [|p|p|p|]; try discriminate.
    destruct (do_remove prune s p t) as [[s1 f]|] eqn:Ed; [|discriminate].
    inversion E; subst; clear E.
    destruct (inv_do_remove _ _ _ _ _ _ I Ed) as [I1 T1].
    apply inv_set_thr_absent; [assumption|]. exact (do_remove_absent prune s p t s1 f I Et Ed).
  - (* ARemove *)
    destruct (do_remove prune s p id) as [[s1 f]|] eqn:Ed; [|discriminate].
    inversion E; subst. eapply inv_do_remove; eauto.
Qed.

Lemma inv_run prune : forall acts s s', Inv s -> run prune s acts = Some s' -> Inv s'.
Proof.
  induction acts as [|a r IH]; intros s s' I E; simpl in E.
  - inversion E; subst; assumption.
  - destruct (step prune s a) as [s1|] eqn:Es; [|discriminate].
    eapply IH; [eapply inv_step; eauto|eassumption].
Qed.

Lemma reach_inv prune n acts s : run prune (init n) acts = Some s -> Inv s.
Proof. apply inv_run, inv_init. Qed.

(* ---- C14: mutual exclusion ---------------------------------------------------------------- *)
Lemma In_nonempty {A} (l : list A) x : In x l -> l <> [].
Proof. intros H Z. rewrite Z in H. destruct H. Qed.

Lemma holder_is_head s p q e : Inv s -> nth_error (heap s) p = Some q -> holder_in s q e ->
  cur s = Some p /\ exists tl, ents q = e :: tl.
Proof.
  intros I E [Hin Hh]. split.
  - eapply nonempty_is_cur; eauto. eapply In_nonempty; eauto.
  - eapply ready_ok_head; eauto; [eapply i_rdy; eauto|eapply i_hrdy; eauto].
Qed.

Theorem lock_mutex : forall prune n acts s, run prune (init n) acts = Some s ->
  forall p1 q1 e1 p2 q2 e2,
    nth_error (heap s) p1 = Some q1 -> nth_error (heap s) p2 = Some q2 ->
    holder_in s q1 e1 -> holder_in s q2 e2 ->
    p1 = p2 /\ e1 = e2 /\ cur s = Some p1 /\ exists tl, ents q1 = e1 :: tl.
Proof.
  intros prune n acts s R p1 q1 e1 p2 q2 e2 E1 E2 H1 H2.
  pose proof (reach_inv _ _ _ _ R) as I.
  destruct (holder_is_head s p1 q1 e1 I E1 H1) as [C1 [t1 Q1]].
  destruct (holder_is_head s p2 q2 e2 I E2 H2) as [C2 [t2 Q2]].
  rewrite C1 in C2. inversion C2; subst p2. rewrite E1 in E2. inversion E2; subst q2.
  rewrite Q1 in Q2. inversion Q2; subst. repeat split; eauto.
Qed.

Example lock_mutex_nonvacuous :
  exists s q e, run true (init 3) [AStep 0; AStep 1; AStep 0; AStep 1; AStep 2; AStep 2; AStep 0] = Some s /\
                nth_error (heap s) 0 = Some q /\ holder_in s q e /\ length (ents q) = 3.
Proof.
  eexists. eexists. eexists. split; [vm_compute; reflexivity|].
  split; [reflexivity|]. split; [split; [left; reflexivity|reflexivity]|reflexivity].
Qed.

(* ---- C14: the head of a non-empty queue is ready, and enabled or holding ------------------- *)
Theorem lock_head_is_ready : forall prune n acts s, run prune (init n) acts = Some s ->
  forall p q e tl, nth_error (heap s) p = Some q -> ents q = e :: tl ->
    cur s = Some p /\ e_ready e = true /\
    ((nth_error (thr s) (e_tok e) = Some (L2 p) /\ exists s', step prune s (AStep (e_tok e)) = Some s') \/
     (nth_error (thr s) (e_tok e) = Some (H p) /\ exists s', step prune s (ARemove p (e_tok e)) = Some s')).
Proof.
  intros prune n acts s R p q e tl E Q. pose proof (reach_inv _ _ _ _ R) as I.
  assert (Hin : In e (ents q)) by (rewrite Q; left; reflexivity).
  pose proof (i_rdy s I p q E) as Rd. rewrite Q in Rd. destruct Rd as [Re _].
  split; [eapply nonempty_is_cur; eauto; rewrite Q; discriminate|]. split; [assumption|].
  destruct (i_thr s I p q e E Hin) as [T|T]; [left|right]; (split; [assumption|]).
  - simpl. rewrite T, E, Q. simpl. rewrite Nat.eqb_refl, Re. eexists; reflexivity.
  - simpl. unfold do_remove. rewrite E. destruct (q_remove prune (e_tok e) q). eexists; reflexivity.
Qed.

(* ---- C14: FIFO --------------------------------------------------------------------------- *)
(* [glog] lists the enqueue numbers of the granted callers, newest first: grants happen in
   strictly increasing enqueue order, and every caller still waiting in a queue was enqueued
   after every caller granted so far. *)
Theorem lock_fifo : forall prune n acts s, run prune (init n) acts = Some s ->
  StronglySorted gt (glog s) /\
  forall p q e g, nth_error (heap s) p = Some q -> In e (ents q) ->
                  nth_error (thr s) (e_tok e) = Some (L2 p) -> In g (glog s) -> g < e_seq e.
Proof.
  intros prune n acts s R. pose proof (reach_inv _ _ _ _ R) as I. split; [apply (i_glog s I)|].
  intros p q e g E Hin T Hg. eapply i_wait; eauto. rewrite T. reflexivity.
Qed.

Example lock_fifo_nonvacuous :
  exists s, run true (init 3) [AStep 0; AStep 1; AStep 0; AStep 1; AStep 2; AStep 2; AStep 0;
                               ARemove 0 0; AStep 1; ACancel 2; ARemove 0 1] = Some s /\
            glog s = [1; 0] /\ cur s = None.
Proof. eexists. split; [vm_compute; reflexivity|]. split; reflexivity. Qed.

(* ---- C14: release only by the owner's id or its TTL -------------------------------------- *)
Lemma removed_keeps id : forall l e, In e l -> e_tok e <> id ->
  exists e', In e' (removed id l) /\ e_tok e' = e_tok e /\ e_seq e' = e_seq e.
Proof.
  intros l e Hin N.
  assert (K : In e (rm_first id l)).
  { induction l as [|a t IH]; simpl in *; [tauto|]. destruct (Nat.eqb_spec (e_tok a) id) as [Z|Z].
    - destruct Hin as [<-|Hin]; [congruence|assumption].
    - destruct Hin as [<-|Hin]; [left; reflexivity|right; auto]. }
  unfold removed. destruct (is_head id l); [|eauto].
  destruct (rm_first id l) as [|a t]; simpl in *; [tauto|]. destruct K as [<-|K].
  - eexists. split; [left; reflexivity|]. simpl. auto.
  - exists e. auto.
Qed.

Lemma do_remove_keeps prune s p id s' f : do_remove prune s p id = Some (s', f) ->
  forall p0 q0 e0, nth_error (heap s) p0 = Some q0 -> In e0 (ents q0) -> e_tok e0 <> id ->
  exists q1 e1, nth_error (heap s') p0 = Some q1 /\ In e1 (ents q1) /\ e_tok e1 = e_tok e0 /\ e_seq e1 = e_seq e0.
Proof.
  intros E p0 q0 e0 E0 Hin N. unfold do_remove in E.
  destruct (nth_error (heap s) p) as [q|] eqn:Eq; [|discriminate].
  unfold q_remove in E. destruct (has_tok id (ents q)) eqn:Eh; inversion E; subst s' f; clear E; simpl.
  - destruct (Nat.eq_dec p0 p) as [->|Np].
    + rewrite Eq in E0. inversion E0; subst q0.
      destruct (removed_keeps id _ _ Hin N) as [e' [K1 [K2 K3]]].
      eexists. exists e'. split; [eapply upd_nth_same; eauto|]. simpl. unfold removed in K1.
      repeat split; assumption.
    + exists q0, e0. rewrite upd_nth_other by congruence. auto.
  - rewrite (upd_id _ _ _ Eq). exists q0, e0. auto.
Qed.

(* an Unlock / watchdog removal with any other id leaves the holder queued and holding;
   a removal of an id that is not queued in that object changes nothing at all *)
Theorem lock_release_only_by_owner_or_ttl : forall prune n acts s, run prune (init n) acts = Some s ->
  (forall p0 q0 e p id s', nth_error (heap s) p0 = Some q0 -> holder_in s q0 e -> e_tok e <> id ->
     step prune s (ARemove p id) = Some s' ->
     exists q1 e1, nth_error (heap s') p0 = Some q1 /\ holder_in s' q1 e1 /\ e_tok e1 = e_tok e) /\
  (forall p q id, nth_error (heap s) p = Some q -> has_tok id (ents q) = false ->
     do_remove prune s p id = Some (s, false)).
Proof.
  intros prune n acts s R. split.
  - intros p0 q0 e p id s' E0 [Hin Hh] N St. simpl in St.
    destruct (do_remove prune s p id) as [[s1 f]|] eqn:Ed; [|discriminate]. inversion St; subst s1.
    destruct (do_remove_keeps _ _ _ _ _ _ Ed p0 q0 e E0 Hin N) as [q1 [e1 [K1 [K2 [K3 _]]]]].
    exists q1, e1. split; [assumption|]. split; [|assumption]. split; [assumption|].
    pose proof (reach_inv _ _ _ _ R) as I. destruct (inv_do_remove _ _ _ _ _ _ I Ed) as [_ T].
    rewrite T, K3. assumption.
  - intros p q id E Hh. unfold do_remove, q_remove. rewrite E, Hh. simpl.
    rewrite (upd_id _ _ _ E). destruct s; reflexivity.
Qed.

(* ids are tokens = positions in the thread list: a caller that has been granted or cancelled
   never enqueues again, so a stale id is never queued again *)
Theorem lock_stale_id_never_requeued : forall prune n acts s, run prune (init n) acts = Some s ->
  forall p q e, nth_error (heap s) p = Some q -> In e (ents q) ->
    nth_error (thr s) (e_tok e) = Some (L2 p) \/ nth_error (thr s) (e_tok e) = Some (H p).
Proof. intros prune n acts s R p q e E Hin. exact (i_thr s (reach_inv _ _ _ _ R) p q e E Hin). Qed.

Theorem gw_ttl_floor : forall floor ttl, (floor <= gw_ttl floor ttl)%Z.
Proof. intros. unfold gw_ttl. destruct (ttl <=? floor)%Z eqn:E; lia. Qed.

(* ---- C14: no waiter is left blocked (traces in which Unlock uses only ids that Lock returned
        or ids that no caller has) --------------------------------------------------------------- *)
Definition Inv2 (s : st) : Prop :=
  forall t p, nth_error (thr s) t = Some (L2 p) ->
  exists q e, nth_error (heap s) p = Some q /\ In e (ents q) /\ e_tok e = t.

Lemma inv2_init n : Inv2 (init n).
Proof.
  intros t p E. simpl in E. exfalso. apply nth_error_In in E. apply repeat_spec in E. discriminate.
Qed.

Lemma inv2_step prune s a s' : Inv s -> Inv2 s -> valid_action s a = true ->
  step prune s a = Some s' -> Inv2 s'.
Proof.
  intros I J V E. destruct a as [t|t|p id]; simpl in E.
  - destruct (nth_error (thr s) t) as [c|] eqn:Et; [|discriminate].
    destruct c as [|p|p|p|]; try discriminate.
    + destruct (cur s) as [p|] eqn:Ec; inversion E; subst; clear E; intros t0 p0 T; simpl in *;
        rewrite upd_nth_cases, Et in T; destruct (Nat.eqb t0 t); try discriminate.
      * apply J; assumption.
      * destruct (J t0 p0 T) as [q [e [Eq R]]]. exists q, e. split; [|assumption].
        rewrite nth_error_app1; [assumption|eapply nth_some_lt; eauto].
    + destruct (nth_error (heap s) p) as [q|] eqn:Eq; [|discriminate].
      destruct (retired q) eqn:Er; inversion E; subst; clear E; intros t0 p0 T; simpl in *;
        rewrite upd_nth_cases, Et in T; destruct (Nat.eqb_spec t0 t) as [->|Nt]; try discriminate.
      * apply J; assumption.
      * inversion T; subst p0. eexists. eexists. split; [eapply upd_nth_same; eauto|].
        simpl. split; [apply in_app_iff; right; left; reflexivity|reflexivity].
      * destruct (J t0 p0 T) as [q0 [e0 [E0 [Hin Z]]]].
        destruct (Nat.eq_dec p0 p) as [->|Np].
        -- rewrite Eq in E0. inversion E0; subst q0. eexists. exists e0.
           split; [eapply upd_nth_same; eauto|]. simpl. split; [apply in_app_iff; left; assumption|assumption].
        -- exists q0, e0. rewrite upd_nth_other by congruence. auto.
    + destruct (nth_error (heap s) p) as [q|] eqn:Eq; [|discriminate].
      destruct (find_entry t (ents q)) as [e|]; [|discriminate].
      destruct (e_ready e); [|discriminate]. inversion E; subst; clear E. intros t0 p0 T; simpl in *.
      rewrite upd_nth_cases, Et in T. destruct (Nat.eqb t0 t); [discriminate|]. apply J; assumption.
  - destruct (nth_error (thr s) t) as [c|] eqn:Et; [|discriminate].
    destruct c as [|p|p|p|]; try discriminate.
    destruct (do_remove prune s p t) as [[s1 f]|] eqn:Ed; [|discriminate].
    inversion E; subst; clear E. destruct (inv_do_remove _ _ _ _ _ _ I Ed) as [_ T1].
    intros t0 p0 T. simpl in T. rewrite T1, upd_nth_cases, Et in T.
    destruct (Nat.eqb_spec t0 t) as [->|Nt]; [discriminate|].
    destruct (J t0 p0 T) as [q0 [e0 [E0 [Hin Z]]]].
    destruct (do_remove_keeps _ _ _ _ _ _ Ed p0 q0 e0 E0 Hin ltac:(congruence)) as [q1 [e1 [K1 [K2 [K3 _]]]]].
    exists q1, e1. simpl. repeat split; congruence.
  - destruct (do_remove prune s p id) as [[s1 f]|] eqn:Ed; [|discriminate].
    inversion E; subst; clear E. destruct (inv_do_remove _ _ _ _ _ _ I Ed) as [_ T1].
    intros t0 p0 T. rewrite T1 in T. simpl in V. unfold known_id in V.
    assert (Nt : t0 <> id). { intros ->. rewrite T in V. discriminate. }
    destruct (J t0 p0 T) as [q0 [e0 [E0 [Hin Z]]]].
    destruct (do_remove_keeps _ _ _ _ _ _ Ed p0 q0 e0 E0 Hin ltac:(congruence)) as [q1 [e1 [K1 [K2 [K3 _]]]]].
    exists q1, e1. repeat split; congruence.
Qed.

Lemma inv2_run prune : forall acts s s', Inv s -> Inv2 s -> valid_trace prune s acts = true ->
  run prune s acts = Some s' -> Inv2 s'.
Proof.
  induction acts as [|a r IH]; intros s s' I J V E; simpl in *.
  - inversion E; subst; assumption.
  - apply andb_true_iff in V. destruct V as [Va Vr].
    destruct (step prune s a) as [s1|] eqn:Es; [|discriminate].
    eapply IH; [eapply inv_step; eauto|eapply inv2_step; eauto|assumption|assumption].
Qed.

(* whenever some caller waits in the select, the head of that very queue is an enabled waiter
   or a holder whose removal (Unlock with its id, or its TTL) is enabled *)
Theorem lock_no_stuck_waiter : forall prune n acts s,
  valid_trace prune (init n) acts = true -> run prune (init n) acts = Some s ->
  forall t p, nth_error (thr s) t = Some (L2 p) ->
  cur s = Some p /\
  exists q e tl, nth_error (heap s) p = Some q /\ ents q = e :: tl /\ e_ready e = true /\
    ((nth_error (thr s) (e_tok e) = Some (L2 p) /\ exists s', step prune s (AStep (e_tok e)) = Some s') \/
     (nth_error (thr s) (e_tok e) = Some (H p) /\ exists s', step prune s (ARemove p (e_tok e)) = Some s')).
Proof.
  intros prune n acts s V R t p T.
  pose proof (inv2_run prune acts _ _ (inv_init n) (inv2_init n) V R) as J.
  destruct (J t p T) as [q [e0 [Eq [Hin _]]]].
  destruct (ents q) as [|e tl] eqn:Q; [destruct Hin|].
  destruct (lock_head_is_ready prune n acts s R p q e tl Eq Q) as [C [Re D]].
  split; [assumption|]. exists q, e, tl. auto.
Qed.

Example lock_no_stuck_nonvacuous :
  valid_trace true (init 2) [AStep 0; AStep 0; AStep 1; AStep 1; AStep 0; ARemove 0 0] = true /\
  exists s, run true (init 2) [AStep 0; AStep 0; AStep 1; AStep 1; AStep 0; ARemove 0 0] = Some s /\
            nth_error (thr s) 1 = Some (L2 0).
Proof. split; [vm_compute; reflexivity|]. eexists. split; [vm_compute; reflexivity|reflexivity]. Qed.

(* ---- C28: no residue with pruning ----------------------------------------------------------- *)
Definition InvP (s : st) : Prop :=
  forall p q, cur s = Some p -> nth_error (heap s) p = Some q -> ents q = [] ->
  exists t, nth_error (thr s) t = Some (L1 p).

Lemma invp_init n : InvP (init n).
Proof. intros p q E. discriminate. Qed.

Lemma do_remove_invp s p id s' f : Inv s -> InvP s -> do_remove true s p id = Some (s', f) -> InvP s'.
Proof.
  intros I P E. pose proof E as E'. unfold do_remove in E.
  destruct (nth_error (heap s) p) as [q|] eqn:Eq; [|discriminate].
  unfold q_remove in E. destruct (has_tok id (ents q)) eqn:Eh.
  - assert (Hne : ents q <> []). { intros Z. rewrite Z in Eh. discriminate. }
    pose proof (nonempty_is_cur s p q I Eq Hne) as Hc.
    inversion E; subst s' f; clear E. intros p0 q0 C0 E0 Z0. simpl in *.
    rewrite Hc in C0. simpl in C0. rewrite Nat.eqb_refl, andb_true_r in C0.
    match type of C0 with (if ?b then _ else _) = _ => destruct b eqn:Eb end; [discriminate|].
    inversion C0; subst p0. rewrite (upd_nth_same _ _ _ _ Eq) in E0. inversion E0; subst q0. simpl in *.
    rewrite Z0 in Eb. discriminate.
  - inversion E; subst s' f; clear E. intros p0 q0 C0 E0 Z0. simpl in *.
    rewrite (upd_id _ _ _ Eq) in E0. eapply P; eauto.
Qed.

Lemma invp_step s a s' : Inv s -> InvP s -> step true s a = Some s' -> InvP s'.
Proof.
  intros I P E. destruct a as [t|t|p id]; simpl in E.
  - destruct (nth_error (thr s) t) as [c|] eqn:Et; [|discriminate].
    destruct c as [|p|p|p|]; try discriminate.
    + destruct (cur s) as [p|] eqn:Ec; inversion E; subst; clear E; intros p0 q0 C0 E0 Z0; simpl in *.
      * rewrite Ec in C0. inversion C0; subst p0. exists t. eapply upd_nth_same; eauto.
      * inversion C0; subst p0. exists t. eapply upd_nth_same; eauto.
    + destruct (nth_error (heap s) p) as [q|] eqn:Eq; [|discriminate].
      destruct (retired q) eqn:Er; inversion E; subst; clear E; intros p0 q0 C0 E0 Z0; simpl in *.
      * destruct (P p0 q0 C0 E0 Z0) as [t0 T0]. exists t0.
        rewrite upd_nth_other; [assumption|]. intros <-. rewrite Et in T0. inversion T0; subst p0.
        destruct (i_cur s I p C0) as [q2 [E2 R2]]. congruence.
      * pose proof (unretired_is_cur s p q I Eq Er) as Hc. rewrite Hc in C0. inversion C0; subst p0.
        rewrite (upd_nth_same _ _ _ _ Eq) in E0. inversion E0; subst q0. simpl in Z0.
        destruct (ents q); discriminate.
    + destruct (nth_error (heap s) p) as [q|] eqn:Eq; [|discriminate].
      destruct (find_entry t (ents q)) as [e|]; [|discriminate].
      destruct (e_ready e); [|discriminate]. inversion E; subst; clear E.
      intros p0 q0 C0 E0 Z0; simpl in *. destruct (P p0 q0 C0 E0 Z0) as [t0 T0]. exists t0.
      rewrite upd_nth_other; [assumption|]. intros <-. congruence.
  - destruct (nth_error (thr s) t) as [c|] eqn:Et; [|discriminate].
    destruct c as [|p|p|p|]; try discriminate.
    destruct (do_remove true s p t) as [[s1 f]|] eqn:Ed; [|discriminate].
    inversion E; subst; clear E. pose proof (do_remove_invp _ _ _ _ _ I P Ed) as P1.
    destruct (inv_do_remove _ _ _ _ _ _ I Ed) as [_ T1].
    intros p0 q0 C0 E0 Z0; simpl in *. destruct (P1 p0 q0 C0 E0 Z0) as [t0 T0]. exists t0.
    rewrite upd_nth_other; [assumption|]. intros <-. rewrite T1 in T0. congruence.
  - destruct (do_remove true s p id) as [[s1 f]|] eqn:Ed; [|discriminate].
    inversion E; subst. eapply do_remove_invp; eauto.
Qed.

Lemma invp_run : forall acts s s', Inv s -> InvP s -> run true s acts = Some s' -> InvP s'.
Proof.
  induction acts as [|a r IH]; intros s s' I P E; simpl in E.
  - inversion E; subst; assumption.
  - destruct (step true s a) as [s1|] eqn:Es; [|discriminate].
    eapply IH; [eapply inv_step; eauto|eapply invp_step; eauto|eassumption].
Qed.

(* with pruning: the key has a map entry only while somebody is queued on it or is between
   getQueue and enqueue *)
Lemma no_residue_inv s : Inv s -> InvP s -> has_entry s = true -> in_use s = true.
Proof.
  intros I P Hh. unfold has_entry in Hh. destruct (cur s) as [p|] eqn:Ec; [|discriminate].
  destruct (i_cur s I p Ec) as [q [Eq _]]. unfold in_use. apply orb_true_iff.
  destruct (ents q) as [|e tl] eqn:Q.
  - right. destruct (P p q Ec Eq Q) as [t T]. apply existsb_exists. exists (L1 p).
    split; [eapply nth_error_In; eauto|reflexivity].
  - left. apply existsb_exists. exists q. split; [eapply nth_error_In; eauto|]. rewrite Q. reflexivity.
Qed.

Theorem lock_no_residue_pruned : forall n acts s, run true (init n) acts = Some s ->
  has_entry s = true -> in_use s = true.
Proof.
  intros n acts s R. apply no_residue_inv; [eapply reach_inv; eauto|].
  eapply invp_run; eauto using inv_init, invp_init.
Qed.

Example lock_no_residue_nonvacuous :
  exists s, run true (init 1) [AStep 0; AStep 0; AStep 0; ARemove 0 0] = Some s /\
            has_entry s = false /\ nth_error (thr s) 0 = Some (H 0).
Proof. eexists. split; [vm_compute; reflexivity|]. split; reflexivity. Qed.

(* the code of the pinned commit keeps the entry: Lock k; Unlock k *)
Theorem lock_no_residue_refuted_unpruned :
  exists s, run false (init 1) [AStep 0; AStep 0; AStep 0; ARemove 0 0] = Some s /\
            has_entry s = true /\ in_use s = false.
Proof. eexists. split; [vm_compute; reflexivity|]. split; reflexivity. Qed.

(* ... and never drops it again: the map only grows *)
Theorem lock_growth_unpruned : forall s a s', step false s a = Some s' ->
  has_entry s = true -> has_entry s' = true.
Proof.
  intros s a s' E Hh. unfold has_entry in *. destruct (cur s) as [c|] eqn:Ec; [|discriminate].
  assert (R : forall p id s1 f, do_remove false s p id = Some (s1, f) -> cur s1 = Some c).
  { intros p id s1 f Ed. unfold do_remove in Ed. destruct (nth_error (heap s) p); [|discriminate].
    destruct (q_remove false id q) as [q' fd]. inversion Ed; subst. simpl.
    rewrite andb_false_r. simpl. assumption. }
  destruct a as [t|t|p id]; simpl in E.
  - destruct (nth_error (thr s) t) as [[|p|p|p|]|]; try discriminate.
    + rewrite Ec in E. inversion E; subst. simpl. rewrite Ec. reflexivity.
    + destruct (nth_error (heap s) p) as [q|]; [|discriminate].
      destruct (retired q); inversion E; subst; simpl; rewrite Ec; reflexivity.
    + destruct (nth_error (heap s) p) as [q|]; [|discriminate].
      destruct (find_entry t (ents q)) as [e|]; [|discriminate].
      destruct (e_ready e); inversion E; subst; simpl; rewrite Ec; reflexivity.
  - destruct (nth_error (thr s) t) as [[|p|p|p|]|]; try discriminate.
    destruct (do_remove false s p t) as [[s1 f]|] eqn:Ed; [|discriminate].
    inversion E; subst. simpl. rewrite (R _ _ _ _ Ed). reflexivity.
  - destruct (do_remove false s p id) as [[s1 f]|] eqn:Ed; [|discriminate].
    inversion E; subst. rewrite (R _ _ _ _ Ed). reflexivity.
Qed.

(* ---- the whole lock: the map size is bounded by the number of keys in use ------------------ *)
Definition KInv (s : st) : Prop := Inv s /\ InvP s.

Lemma upd_Forall {A} (P : A -> Prop) : forall l i y, Forall P l -> P y -> Forall P (upd i y l).
Proof.
  induction l as [|z t IH]; intros [|i] y F Py; simpl; auto; inversion F; subst; constructor; auto.
Qed.

Lemma gstep_kinv g k a g' : Forall KInv g -> gstep true g k a = Some g' -> Forall KInv g'.
Proof.
  intros F E. unfold gstep in E. destruct (nth_error g k) as [s|] eqn:Ek; [|discriminate].
  destruct (step true s a) as [s'|] eqn:Es; [|discriminate]. inversion E; subst.
  apply upd_Forall; [assumption|]. rewrite Forall_forall in F.
  destruct (F s (nth_error_In _ _ Ek)) as [I P]. split; [eapply inv_step; eauto|eapply invp_step; eauto].
Qed.

Theorem lock_map_size_bounded : forall ns acts g,
  grun true (map init ns) acts = Some g -> map_size g <= keys_in_use g.
Proof.
  intros ns acts g R.
  assert (F : Forall KInv g).
  { assert (F0 : Forall KInv (map init ns)).
    { apply Forall_forall. intros s Hin. apply in_map_iff in Hin. destruct Hin as [n [<- _]].
      split; [apply inv_init|apply invp_init]. }
    revert R F0. generalize (map init ns). induction acts as [|[k a] r IH]; intros g0 R F0; simpl in R.
    - inversion R; subst; assumption.
    - destruct (gstep true g0 k a) as [g1|] eqn:Eg; [|discriminate].
      eapply IH; [eassumption|eapply gstep_kinv; eauto]. }
  unfold map_size, keys_in_use. clear R. induction F as [|s l [I P] Fl IH]; simpl; [lia|].
  destruct (has_entry s) eqn:Hh.
  - rewrite (no_residue_inv s I P Hh). simpl. lia.
  - destruct (in_use s); simpl; lia.
Qed.
