(* Conc/BufferProofs.v — the write-buffer invariant for every schedule of any number of
   writers, deleters and flushers on one instance (late = false = the code), its consequence at
   quiescence / after a close-write, and the refutation for the late-dequeue variant. *)
From HV Require Import Base.Prelude Conc.Buffer.

Lemma upd_same {A} (f : nat -> A) k v : upd f k v k = v.
Proof. unfold upd. rewrite Nat.eqb_refl. reflexivity. Qed.
Lemma upd_other {A} (f : nat -> A) k v x : x <> k -> upd f k v x = f x.
Proof. unfold upd. intro H. apply Nat.eqb_neq in H. rewrite H. reflexivity. Qed.

Lemma mem_nat_in x l : mem_nat x l = true <-> In x l.
Proof.
  induction l as [|a l IH]; simpl; [split; [discriminate|tauto]|].
  rewrite orb_true_iff, IH, Nat.eqb_eq. split; intros [H|H]; auto.
Qed.
Lemma mem_app x a b : mem_nat x (a ++ b) = mem_nat x a || mem_nat x b.
Proof. induction a as [|y a IH]; simpl; [reflexivity|]. rewrite IH, orb_assoc. reflexivity. Qed.
Lemma mem_qadd_same k q : mem_nat k (qadd k q) = true.
Proof.
  unfold qadd. destruct (mem_nat k q) eqn:E; [exact E|]. rewrite mem_app. simpl.
  rewrite Nat.eqb_refl. apply orb_true_r.
Qed.
Lemma mem_qadd_other k x q : x <> k -> mem_nat x (qadd k q) = mem_nat x q.
Proof.
  intro H. unfold qadd. destruct (mem_nat k q); [reflexivity|]. rewrite mem_app. simpl.
  apply Nat.eqb_neq in H. rewrite H. simpl. apply orb_false_r.
Qed.
Lemma mem_filter x f l : mem_nat x (filter f l) = mem_nat x l && f x.
Proof.
  induction l as [|a l IH]; simpl; [reflexivity|].
  destruct (f a) eqn:F; simpl; rewrite IH.
  - destruct (Nat.eqb_spec x a) as [->|]; simpl; [rewrite F; destruct (mem_nat a l); reflexivity|reflexivity].
  - destruct (Nat.eqb_spec x a) as [->|]; simpl; [rewrite F; apply andb_false_r|reflexivity].
Qed.
Lemma mem_qdel_other k x q : x <> k -> mem_nat x (qdel k q) = mem_nat x q.
Proof.
  intro H. unfold qdel. rewrite mem_filter. apply Nat.eqb_neq in H. rewrite H. apply andb_true_r.
Qed.
Lemma mem_qminus x q b : mem_nat x (qminus q b) = mem_nat x q && negb (mem_nat x b).
Proof. unfold qminus. apply mem_filter. Qed.
Lemma qminus_self q : qminus q q = [].
Proof.
  assert (H : forall l, (forall x, In x l -> mem_nat x q = true) -> filter (fun x => negb (mem_nat x q)) l = []).
  { induction l as [|a l IH]; intro A; simpl; [reflexivity|].
    rewrite (A a (or_introl eq_refl)). simpl. apply IH. intros x Hx. apply A. right. exact Hx. }
  apply H. intros x Hx. apply mem_nat_in. exact Hx.
Qed.

(* every live key is queued, or in a collected-but-unwritten batch, or its current value is
   what the chronicler holds *)
Definition Inv (s : st) : Prop :=
  (forall k v, mem s k = Live v ->
     mem_nat k (queue s) = true \/ (exists t, In k (batch (pcs s t))) \/ disk s k = Some v) /\
  (forall t all, pcs s t <> FLate all).

Lemma inv_init progs : Inv (init progs).
Proof.
  split; cbn.
  - intros k v H. discriminate.
  - intros t all. destruct (progs t); discriminate.
Qed.

(* the batch of every other thread is untouched by a step of t *)
Lemma step_other late s t s' x : tstep late s t = Some s' -> x <> t -> pcs s' x = pcs s x.
Proof.
  unfold tstep. intros H Hx.
  destruct (pcs s t) as [| k v th | k th | | b | b all | all |] eqn:P; try discriminate.
  - inversion H; subst; cbn. apply upd_other; exact Hx.
  - destruct (mem s k); [inversion H; subst; cbn; apply upd_other; exact Hx | | inversion H; subst; cbn; apply upd_other; exact Hx].
    destruct (onfile s k); inversion H; subst; cbn; apply upd_other; exact Hx.
  - destruct (queue s); inversion H; subst; cbn; apply upd_other; exact Hx.
  - destruct late; inversion H; subst; cbn; apply upd_other; exact Hx.
  - destruct b as [|k r]; [inversion H; subst; cbn; apply upd_other; exact Hx|].
    destruct (mem s k); inversion H; subst; cbn; apply upd_other; exact Hx.
  - destruct late; [|discriminate]. inversion H; subst; cbn; apply upd_other; exact Hx.
Qed.

Ltac other_batch t x Hpc :=
  match goal with
  | Hb : In _ (batch (pcs _ x)) |- _ =>
      right; left; exists x; rewrite upd_other; [exact Hb|];
      intro; subst x; rewrite Hpc in Hb; simpl in Hb; tauto
  end.

Lemma inv_step s t s' : Inv s -> tstep false s t = Some s' -> Inv s'.
Proof.
  intros [I NL] H. unfold tstep in H.
  destruct (pcs s t) as [| k0 v0 th | k0 th | | b | b all | all |] eqn:P; try discriminate.
  - (* WSave *)
    inversion H; subst; clear H. split; cbn.
    + intros k v Hm. unfold upd in Hm. destruct (Nat.eqb_spec k k0) as [->|Hne].
      * left. apply mem_qadd_same.
      * destruct (I k v Hm) as [A|[[x A]|A]].
        -- left. rewrite mem_qadd_other by exact Hne.
           destruct (mem s k0); try exact A; rewrite mem_qdel_other by exact Hne; exact A.
        -- other_batch t x P.
        -- right; right; exact A.
    + intros x all. unfold upd. destruct (Nat.eqb_spec x t); [destruct th; discriminate|apply NL].
  - (* WDel *)
    assert (G : forall m' q', (forall k, k <> k0 -> mem_nat k q' = mem_nat k (queue s)) ->
              (forall v, m' <> Live v) ->
              Inv {| pcs := upd (pcs s) t (if th then FColl else Done); mem := upd (mem s) k0 m';
                     onfile := onfile s; queue := q'; disk := disk s |}).
    { intros m' q' Hq Hm'. split; cbn.
      - intros k v Hm. unfold upd in Hm. destruct (Nat.eqb_spec k k0) as [->|Hne]; [exfalso; eapply Hm'; eauto|].
        destruct (I k v Hm) as [A|[[x A]|A]].
        + left. rewrite Hq by exact Hne. exact A.
        + other_batch t x P.
        + right; right; exact A.
      - intros x all. unfold upd. destruct (Nat.eqb_spec x t); [destruct th; discriminate|apply NL]. }
    destruct (mem s k0) eqn:M.
    + inversion H; subst; clear H. split; cbn; [|intros x all; unfold upd; destruct (Nat.eqb_spec x t); [discriminate|apply NL]].
      intros k v Hm. destruct (I k v Hm) as [A|[[x A]|A]]; [left; exact A | other_batch t x P | right; right; exact A].
    + destruct (onfile s k0); inversion H; subst; clear H.
      * apply G; [intros k Hk; apply mem_qadd_other; exact Hk | intros v0; discriminate].
      * apply G; [intros k Hk; apply mem_qdel_other; exact Hk | intros v0; discriminate].
    + inversion H; subst; clear H. split; cbn; [|intros x all; unfold upd; destruct (Nat.eqb_spec x t); [discriminate|apply NL]].
      intros k v Hm. destruct (I k v Hm) as [A|[[x A]|A]]; [left; exact A | other_batch t x P | right; right; exact A].
  - (* FColl *)
    destruct (queue s) as [|q0 q] eqn:Q; inversion H; subst; clear H.
    + split; cbn; [|intros x all; unfold upd; destruct (Nat.eqb_spec x t); [discriminate|apply NL]].
      intros k v Hm. destruct (I k v Hm) as [A|[[x A]|A]]; [left; rewrite Q; exact A | other_batch t x P | right; right; exact A].
    + split; cbn; [|intros x all; unfold upd; destruct (Nat.eqb_spec x t); [discriminate|apply NL]].
      intros k v Hm. destruct (I k v Hm) as [A|[[x A]|A]]; [left; rewrite Q; exact A | other_batch t x P | right; right; exact A].
  - (* FDeq *)
    inversion H; subst; clear H. split; cbn; [|intros x all; unfold upd; destruct (Nat.eqb_spec x t); [discriminate|apply NL]].
    intros k v Hm. destruct (I k v Hm) as [A|[[x A]|A]].
    + destruct (mem_nat k b) eqn:B.
      * right; left. exists t. rewrite upd_same. simpl. apply mem_nat_in. exact B.
      * left. rewrite mem_qminus, A, B. reflexivity.
    + right; left. destruct (Nat.eq_dec x t) as [->|Hx].
      * exists t. rewrite upd_same. rewrite P in A. exact A.
      * exists x. rewrite upd_other by exact Hx. exact A.
    + right; right; exact A.
  - (* FWrite *)
    destruct b as [|k0 r].
    + inversion H; subst; clear H. split; cbn; [|intros x a; unfold upd; destruct (Nat.eqb_spec x t); [discriminate|apply NL]].
      intros k v Hm. destruct (I k v Hm) as [A|[[x A]|A]]; [left; exact A | other_batch t x P | right; right; exact A].
    + assert (B : forall k, k <> k0 -> (exists x, In k (batch (pcs s x))) ->
                  exists x, In k (batch (upd (pcs s) t (FWrite r all) x))).
      { intros k Hk [x A]. destruct (Nat.eq_dec x t) as [->|Hx].
        - exists t. rewrite upd_same. rewrite P in A. simpl in *. destruct A; [congruence|assumption].
        - exists x. rewrite upd_other by exact Hx. exact A. }
      destruct (mem s k0) eqn:M; inversion H; subst; clear H;
        (split; cbn; [|intros x a; unfold upd; destruct (Nat.eqb_spec x t); [discriminate|apply NL]]).
      * intros k w Hm. destruct (Nat.eq_dec k k0) as [->|Hne]; [congruence|].
        destruct (I k w Hm) as [A|[A|A]]; [left; exact A | right; left; apply B; assumption | right; right; exact A].
      * intros k w Hm. destruct (Nat.eq_dec k k0) as [->|Hne].
        -- right; right. rewrite upd_same. congruence.
        -- destruct (I k w Hm) as [A|[A|A]]; [left; exact A | right; left; apply B; assumption |].
           right; right. rewrite upd_other by exact Hne. exact A.
      * intros k w Hm. unfold upd in Hm. destruct (Nat.eqb_spec k k0) as [->|Hne]; [discriminate|].
        destruct (I k w Hm) as [A|[A|A]]; [left; exact A | right; left; apply B; assumption |].
        right; right. rewrite upd_other by exact Hne. exact A.
Qed.

Lemma inv_run sched : forall s, Inv s -> Inv (run false s sched).
Proof.
  induction sched as [|t r IH]; intros s I; simpl; [exact I|].
  destruct (tstep false s t) eqn:E; [apply IH; eapply inv_step; eauto|apply IH; exact I].
Qed.

(* all schedules: whenever nothing is queued and no batch is in flight, the chronicler holds the
   current value of every live key *)
Theorem buffer_quiescent_durable : forall progs sched k v,
  let s := run false (init progs) sched in
  queue s = [] -> (forall t, batch (pcs s t) = []) ->
  mem s k = Live v -> disk s k = Some v.
Proof.
  intros progs sched k v s Hq Hb Hm.
  destruct (inv_run sched _ (inv_init progs)) as [I _]. fold s in I.
  destruct (I k v Hm) as [A|[[x A]|A]]; [rewrite Hq in A; discriminate | rewrite Hb in A; destruct A | exact A].
Qed.

(* all schedules: a live key whose current value is not yet with the chronicler is still queued
   or in a batch that a running flusher is going to write *)
Theorem buffer_tracks_unwritten : forall progs sched k v,
  let s := run false (init progs) sched in
  mem s k = Live v -> disk s k <> Some v ->
  mem_nat k (queue s) = true \/ exists t, In k (batch (pcs s t)).
Proof.
  intros progs sched k v s Hm Hd.
  destruct (inv_run sched _ (inv_init progs)) as [I _]. fold s in I.
  destruct (I k v Hm) as [A|[A|A]]; [left; exact A|right; exact A|contradiction].
Qed.

(* ---- a flusher that runs alone (the close-write of Close / GracefulStop) empties the queue -- *)
Lemma write_alone : forall r all s t, pcs s t = FWrite r all ->
  let s' := run false s (repeat t (S (length r))) in
  pcs s' t = Done /\ queue s' = queue s /\ (forall x, x <> t -> pcs s' x = pcs s x).
Proof.
  induction r as [|k r IH]; intros all s t P; simpl.
  - unfold tstep. rewrite P. cbn. rewrite upd_same. repeat split; auto. intros x Hx. apply upd_other; exact Hx.
  - destruct (tstep false s t) as [s1|] eqn:E.
    + assert (P1 : pcs s1 t = FWrite r all /\ queue s1 = queue s).
      { unfold tstep in E. rewrite P in E. destruct (mem s k); inversion E; subst; cbn; rewrite upd_same; auto. }
      destruct P1 as [P1 Q1]. destruct (IH all s1 t P1) as [A [B C]].
      split; [exact A|]. split; [rewrite <- Q1; exact B|]. intros x Hx. etransitivity; [apply C; exact Hx|]. eapply step_other; eauto.
    + unfold tstep in E. rewrite P in E. destruct (mem s k); discriminate.
Qed.

Lemma run_cons s t r : run false s (t :: r) =
  match tstep false s t with Some s' => run false s' r | None => run false s r end.
Proof. reflexivity. Qed.
Lemma run_done t : forall n s0, pcs s0 t = Done -> run false s0 (repeat t n) = s0.
Proof.
  induction n as [|n IH]; intros s0 H0; [reflexivity|].
  change (repeat t (S n)) with (t :: repeat t n). rewrite run_cons. unfold tstep. rewrite H0. apply IH. exact H0.
Qed.

Lemma flush_alone s t : pcs s t = FColl ->
  let s' := run false s (repeat t (3 + length (queue s))) in
  pcs s' t = Done /\ queue s' = [] /\ (forall x, x <> t -> pcs s' x = pcs s x).
Proof.
  intro P. cbv zeta. destruct (queue s) as [|q0 q] eqn:Q.
  - assert (E : run false s (repeat t (3 + length (@nil nat))) = set_pc s t Done).
    { change (repeat t (3 + length (@nil nat))) with (t :: repeat t 2). rewrite run_cons.
      unfold tstep. rewrite P, Q. apply run_done. cbn. apply upd_same. }
    rewrite E. cbn. rewrite upd_same.
    split; [reflexivity|]. split; [exact Q|]. intros x Hx. apply upd_other; exact Hx.
  - set (s1 := set_pc s t (FDeq (q0 :: q))).
    assert (P1 : pcs s1 t = FDeq (q0 :: q)) by (cbn; apply upd_same).
    set (s2 := {| pcs := upd (pcs s1) t (FWrite (q0 :: q) (q0 :: q)); mem := mem s1; onfile := onfile s1;
                  queue := qminus (queue s1) (q0 :: q); disk := disk s1 |}).
    assert (P2 : pcs s2 t = FWrite (q0 :: q) (q0 :: q)) by (cbn; apply upd_same).
    assert (E : run false s (repeat t (3 + length (q0 :: q))) = run false s2 (repeat t (S (length (q0 :: q))))).
    { change (repeat t (3 + length (q0 :: q))) with (t :: t :: repeat t (S (length (q0 :: q)))).
      rewrite run_cons. unfold tstep at 1. rewrite P, Q. fold s1.
      rewrite run_cons. unfold tstep at 1. rewrite P1. reflexivity. }
    rewrite E.
    destruct (write_alone (q0 :: q) (q0 :: q) s2 t P2) as [A [B C]].
    split; [exact A|]. split.
    + rewrite B. unfold s2, s1. cbn [queue set_pc]. rewrite Q. apply qminus_self.
    + intros x Hx. rewrite C by exact Hx. cbn. rewrite !upd_other by exact Hx. reflexivity.
Qed.

(* in every reachable state: if no other flusher is in flight and the close-write t runs alone
   to completion, every live key is durable with its current value *)
Theorem close_write_makes_durable : forall progs sched t k v,
  let s := run false (init progs) sched in
  pcs s t = FColl -> (forall x, x <> t -> batch (pcs s x) = []) ->
  let s' := run false s (repeat t (3 + length (queue s))) in
  mem s' k = Live v -> disk s' k = Some v.
Proof.
  intros progs sched t k v s P Hb s' Hm.
  destruct (flush_alone s t P) as [A [B C]]. fold s' in A, B, C.
  assert (I : Inv s') by (apply inv_run; apply inv_run; apply inv_init).
  destruct I as [I _].
  destruct (I k v Hm) as [E|[[x E]|E]]; [rewrite B in E; discriminate | | exact E].
  destruct (Nat.eq_dec x t) as [->|Hx]; [rewrite A in E; destruct E|].
  rewrite C in E by exact Hx. rewrite Hb in E by exact Hx. destruct E.
Qed.

(* ---- refutation for the late dequeue ---- *)
Theorem late_dequeue_loses_update :
  let s := run true (init (progs_of w_late_progs)) w_late in
  mem s 0 = Live 2 /\ disk s 0 = Some 1 /\ queue s = [] /\
  forallb (fun t => match batch (pcs s t) with [] => true | _ => false end) [0;1;2;3] = true.
Proof. vm_compute. auto. Qed.

(* the same schedule with the real order keeps the update *)
Example early_dequeue_keeps_update :
  let s := run false (init (progs_of w_late_progs)) w_late in
  mem s 0 = Live 2 /\ disk s 0 = Some 2 /\ queue s = [].
Proof. vm_compute. auto. Qed.
