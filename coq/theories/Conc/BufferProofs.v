(* Conc/BufferProofs.v — the write-buffer invariant of Conc/Buffer.v for every schedule of any
   number of writers, deleters and concurrent flushers (late = false = the code) in which no key
   is re-created while an unwritten batch still holds an older record object of it; its
   consequences at quiescence / after a close-write; refutations without that hypothesis and for
   the late-dequeue variant. *)
From HV Require Import Base.Prelude Conc.Buffer.

Lemma upd_same {A} (f : nat -> A) k v : upd f k v k = v.
Proof. unfold upd. rewrite Nat.eqb_refl. reflexivity. Qed.
Lemma upd_other {A} (f : nat -> A) k v x : x <> k -> upd f k v x = f x.
Proof. unfold upd. intro H. apply Nat.eqb_neq in H. rewrite H. reflexivity. Qed.

(* ---- queue operations, stated over the key function ---- *)
Lemma qhas_spec s k q : qhas s k q = true <-> exists o, In o q /\ keyof s o = k.
Proof.
  unfold qhas. rewrite existsb_exists. split; intros [o [A B]]; exists o; split; auto.
  - apply Nat.eqb_eq; exact B.
  - apply Nat.eqb_eq; exact B.
Qed.
Lemma qhas_false s k q o : qhas s k q = false -> In o q -> keyof s o <> k.
Proof.
  intros H Hi E. assert (qhas s k q = true) by (apply qhas_spec; eauto). congruence.
Qed.
Lemma qadd_keep s o q x : In x q -> In x (qadd s o q).
Proof. unfold qadd. destruct (qhas s (keyof s o) q); [auto|]. intro H. apply in_or_app; auto. Qed.
Lemma qadd_in s o q x : In x (qadd s o q) -> In x q \/ x = o.
Proof.
  unfold qadd. destruct (qhas s (keyof s o) q); [auto|]. intro H. apply in_app_or in H.
  destruct H as [H|[H|[]]]; auto.
Qed.
Lemma qadd_new s o q : qhas s (keyof s o) q = false -> In o (qadd s o q).
Proof. unfold qadd. intros ->. apply in_or_app. right. left. reflexivity. Qed.
Lemma qdel_in s k q x : In x (qdel s k q) <-> In x q /\ keyof s x <> k.
Proof.
  unfold qdel. rewrite filter_In, negb_true_iff, Nat.eqb_neq. reflexivity.
Qed.
Lemma qminus_in s q b x : In x (qminus s q b) <-> In x q /\ qhas s (keyof s x) b = false.
Proof. unfold qminus. rewrite filter_In, negb_true_iff. reflexivity. Qed.
Lemma qminus_self s q : qminus s q q = [].
Proof.
  assert (H : forall l, (forall x, In x l -> In x q) -> filter (fun o => negb (qhas s (keyof s o) q)) l = []).
  { induction l as [|a l IH]; intro A; simpl; [reflexivity|].
    assert (E : qhas s (keyof s a) q = true) by (apply qhas_spec; exists a; split; [apply A; left|]; reflexivity).
    rewrite E. simpl. apply IH. intros x Hx. apply A. right. exact Hx. }
  apply H. auto.
Qed.
(* the key function only matters on the listed objects *)
Lemma qhas_ext s s' k q : (forall o, In o q -> keyof s' o = keyof s o) -> qhas s' k q = qhas s k q.
Proof.
  intro H. unfold qhas. induction q as [|a q IH]; simpl; [reflexivity|].
  rewrite H by (left; reflexivity). rewrite IH; [reflexivity|]. intros o Ho. apply H. right. exact Ho.
Qed.
Lemma qdel_ext s s' k q : (forall o, In o q -> keyof s' o = keyof s o) -> qdel s' k q = qdel s k q.
Proof.
  intro H. unfold qdel. induction q as [|a q IH]; simpl; [reflexivity|].
  rewrite H by (left; reflexivity). rewrite IH; [reflexivity|]. intros o Ho. apply H. right. exact Ho.
Qed.

Record Inv (ts : list nat) (s : st) : Prop := {
  i_cur  : forall k o, cur s k = Some o -> keyof s o = k /\ otomb (objs s o) = false /\ o < nobj s;
  i_qlt  : forall o, In o (queue s) -> o < nobj s;
  i_blt  : forall x o, In o (batch (pcs s x)) -> o < nobj s;
  i_bcur : forall x o, In o (batch (pcs s x)) -> cur s (keyof s o) = Some o \/ cur s (keyof s o) = None;
  i_qcur : forall o, In o (queue s) -> cur s (keyof s o) = Some o \/ cur s (keyof s o) = None;
  i_main : forall k o, cur s k = Some o ->
             In o (queue s) \/ (exists x, In o (batch (pcs s x))) \/ disk s k = Some (oval (objs s o));
  i_nl   : forall x all, pcs s x <> FLate all;
  i_ts   : forall x, batch (pcs s x) <> [] -> In x ts
}.

Lemma start_batch p : batch (start p) = [].
Proof. destruct p; reflexivity. Qed.

Lemma inv_init ts progs : Inv ts (init progs).
Proof.
  constructor; cbn.
  - discriminate.
  - intros o [].
  - intros x o. rewrite start_batch. intros [].
  - intros x o. rewrite start_batch. intros [].
  - intros o [].
  - discriminate.
  - intros x all. destruct (progs x); discriminate.
  - intros x. rewrite start_batch. congruence.
Qed.

Lemma step_other late s t s' x : tstep late s t = Some s' -> x <> t -> pcs s' x = pcs s x.
Proof.
  unfold tstep. intros H Hx.
  destruct (pcs s t) as [| k v th | k | | b | b all | all |] eqn:P; try discriminate.
  - destruct (cur s k); inversion H; subst; cbn; apply upd_other; exact Hx.
  - destruct (cur s k); [|inversion H; subst; cbn; apply upd_other; exact Hx].
    destruct (ofile (objs s n)); inversion H; subst; cbn; apply upd_other; exact Hx.
  - destruct (queue s); inversion H; subst; cbn; apply upd_other; exact Hx.
  - destruct late; inversion H; subst; cbn; apply upd_other; exact Hx.
  - destruct b as [|k r]; inversion H; subst; cbn; apply upd_other; exact Hx.
  - destruct late; [|discriminate]. inversion H; subst; cbn; apply upd_other; exact Hx.
Qed.

(* batches of the threads after a step of t whose new pc has batch [nb] *)
Lemma batch_upd s t p x : batch (upd (pcs s) t p x) = if Nat.eqb x t then batch p else batch (pcs s x).
Proof. unfold upd. destruct (Nat.eqb x t); reflexivity. Qed.

Section Step.
Variable ts : list nat.

(* a step that changes only the pc of t: the new batch comes from the old batch or the queue and
   contains the old batch *)
Lemma inv_pc s t p :
  Inv ts s -> In t ts ->
  (forall o, In o (batch p) -> In o (batch (pcs s t)) \/ In o (queue s)) ->
  (forall o, In o (batch (pcs s t)) -> In o (batch p)) ->
  (forall all, p <> FLate all) -> Inv ts (set_pc s t p).
Proof.
  intros I Ht Hn Ho Hp. constructor; cbn.
  - apply (i_cur ts s I).
  - apply (i_qlt ts s I).
  - intros x o. rewrite batch_upd. destruct (Nat.eqb_spec x t); [subst|apply (i_blt ts s I)].
    intro A. destruct (Hn o A); [eapply (i_blt ts s I); eauto|apply (i_qlt ts s I); assumption].
  - intros x o. rewrite batch_upd. destruct (Nat.eqb_spec x t); [subst|apply (i_bcur ts s I)].
    intro A. destruct (Hn o A); [eapply (i_bcur ts s I); eauto|apply (i_qcur ts s I); assumption].
  - apply (i_qcur ts s I).
  - intros k o H.
    destruct (i_main ts s I k o H) as [A|[[x A]|A]]; [left; exact A| |right; right; exact A].
    right. left. destruct (Nat.eq_dec x t) as [->|Hx].
    + exists t. rewrite upd_same. apply Ho. exact A.
    + exists x. rewrite upd_other by exact Hx. exact A.
  - intros x all. unfold upd. destruct (Nat.eqb_spec x t); [apply Hp|apply (i_nl ts s I)].
  - intros x. rewrite batch_upd. destruct (Nat.eqb_spec x t); [subst; auto|apply (i_ts ts s I)].
Qed.

Lemma inv_step s t s' :
  Inv ts s -> In t ts -> recreates s ts t = false -> tstep false s t = Some s' -> Inv ts s'.
Proof.
  intros I Ht Hr H. unfold tstep in H. unfold recreates in Hr.
  destruct (pcs s t) as [| k v th | k | | b | b all | all |] eqn:P; try discriminate.
  - (* WSave *)
    assert (NB : forall p', batch p' = [] -> forall x, batch (upd (pcs s) t p' x) = batch (pcs s x)).
    { intros p' E x. rewrite batch_upd. destruct (Nat.eqb_spec x t); [subst; rewrite P, E; reflexivity|reflexivity]. }
    assert (E0 : batch (if th then FColl else Done) = []) by (destruct th; reflexivity).
    destruct (cur s k) as [o|] eqn:C.
    + (* modify *)
      inversion H; subst; clear H.
      destruct (i_cur ts s I k o C) as [Ko [To Lo]].
      set (s' := {| pcs := upd (pcs s) t (if th then FColl else Done);
                    objs := upd (objs s) o {| okey := okey (objs s o); oval := v; otomb := otomb (objs s o); ofile := ofile (objs s o) |};
                    nobj := nobj s; cur := cur s; queue := qadd s o (queue s); disk := disk s |}).
      assert (KF : forall x, keyof s' x = keyof s x).
      { intro x. unfold keyof, s'. cbn. unfold upd. destruct (Nat.eqb_spec x o); subst; reflexivity. }
      constructor.
      * intros k' o' H. cbn in H. destruct (i_cur ts s I k' o' H) as [A [B D]]. rewrite KF. split; [exact A|]. split; [|exact D].
        cbn. unfold upd. destruct (Nat.eqb_spec o' o); subst; [exact To|exact B].
      * intros x Hx. cbn in Hx. apply qadd_in in Hx. destruct Hx as [Hx| ->]; [apply (i_qlt ts s I); exact Hx|exact Lo].
      * intros x o'. cbn [pcs s']. rewrite (NB _ E0). apply (i_blt ts s I).
      * intros x o'. cbn [pcs s' cur]. rewrite (NB _ E0), KF. apply (i_bcur ts s I).
      * intros x Hx. cbn in Hx. rewrite KF. cbn [cur s']. apply qadd_in in Hx. destruct Hx as [Hx| ->].
        -- apply (i_qcur ts s I); exact Hx.
        -- left. rewrite Ko. exact C.
      * intros k' o' H. cbn in H. destruct (Nat.eq_dec o' o) as [->|Hne].
        -- left. cbn. destruct (qhas s (keyof s o) (queue s)) eqn:Q.
           ++ apply qhas_spec in Q. destruct Q as [o2 [A B]]. apply qadd_keep.
              destruct (i_qcur ts s I o2 A) as [D|D]; rewrite B, Ko, C in D; [inversion D; subst; exact A|discriminate].
           ++ apply qadd_new. exact Q.
        -- destruct (i_main ts s I k' o' H) as [A|[[x A]|A]].
           ++ left. cbn. apply qadd_keep. exact A.
           ++ right. left. exists x. cbn [pcs s']. rewrite (NB _ E0). exact A.
           ++ right. right. cbn. rewrite upd_other by exact Hne. exact A.
      * intros x all. cbn. unfold upd. destruct (Nat.eqb_spec x t); [destruct th; discriminate|apply (i_nl ts s I)].
      * intros x. cbn [pcs s']. rewrite (NB _ E0). apply (i_ts ts s I).
    + (* create *)
      inversion H; subst; clear H.
      assert (NK : forall x o', In o' (batch (pcs s x)) -> keyof s o' <> k).
      { intros x o' A E. assert (Hx : In x ts) by (apply (i_ts ts s I); intro Z; rewrite Z in A; destruct A).
        assert (F : existsb (fun y => qhas s k (batch (pcs s y))) ts = true).
        { apply existsb_exists. exists x. split; [exact Hx|]. apply qhas_spec. eauto. }
        congruence. }
      set (o := nobj s).
      set (s1 := {| pcs := pcs s; objs := upd (objs s) o {| okey := k; oval := v; otomb := false; ofile := false |};
                    nobj := S o; cur := upd (cur s) k (Some o); queue := queue s; disk := disk s |}).
      set (s' := {| pcs := upd (pcs s) t (if th then FColl else Done); objs := objs s1; nobj := nobj s1;
                    cur := cur s1; queue := qdel s1 k (queue s) ++ [o]; disk := disk s |}).
      assert (KF : forall x, x < nobj s -> keyof s' x = keyof s x /\ objs s' x = objs s x).
      { intros x Hx. unfold keyof, s'. cbn. rewrite upd_other by (unfold o; lia). auto. }
      assert (KF1 : forall x, x < nobj s -> keyof s1 x = keyof s x).
      { intros x Hx. unfold keyof, s1. cbn. rewrite upd_other by (unfold o; lia). reflexivity. }
      assert (KO : keyof s' o = k) by (unfold keyof, s'; cbn; rewrite upd_same; reflexivity).
      change (Inv ts s'). constructor.
      * intros k' o' H. cbn in H. unfold upd in H. destruct (Nat.eqb_spec k' k) as [->|Hne].
        -- inversion H; subst o'. split; [exact KO|]. split; [cbn; rewrite upd_same; reflexivity|cbn; lia].
        -- destruct (i_cur ts s I k' o' H) as [A [B D]]. destruct (KF o' D) as [E F].
           rewrite E, F. split; [exact A|]. split; [exact B|cbn; unfold o; lia].
      * intros x Hx. cbn in Hx. apply in_app_or in Hx. destruct Hx as [Hx|[<-|[]]]; [|cbn; lia].
        apply qdel_in in Hx. destruct Hx as [Hx _]. apply (i_qlt ts s I) in Hx. cbn. unfold o. lia.
      * intros x o'. cbn [pcs s']. rewrite (NB _ E0). intro A. apply (i_blt ts s I) in A. cbn. unfold o. lia.
      * intros x o'. cbn [pcs s']. rewrite (NB _ E0). intro A.
        assert (L := i_blt ts s I x o' A). destruct (KF o' L) as [E _]. rewrite E. cbn [cur s' s1].
        rewrite upd_other by (eapply NK; eauto).
        destruct (i_bcur ts s I x o' A) as [D|D]; [left|right]; exact D.
      * intros x Hx. cbn in Hx. apply in_app_or in Hx. destruct Hx as [Hx|[<-|[]]].
        -- apply qdel_in in Hx. destruct Hx as [Hx Hk]. assert (L := i_qlt ts s I x Hx).
           destruct (KF x L) as [E _]. rewrite E. cbn [cur s' s1]. rewrite KF1 in Hk by exact L.
           rewrite upd_other by exact Hk. apply (i_qcur ts s I); exact Hx.
        -- left. rewrite KO. cbn. apply upd_same.
      * intros k' o' H. cbn in H. unfold upd in H. destruct (Nat.eqb_spec k' k) as [->|Hne].
        -- inversion H; subst o'. left. cbn. apply in_or_app. right. left. reflexivity.
        -- destruct (i_cur ts s I k' o' H) as [A [_ L]]. destruct (KF o' L) as [_ F].
           destruct (i_main ts s I k' o' H) as [B|[[x B]|B]].
           ++ left. cbn. apply in_or_app. left. apply qdel_in. split; [exact B|]. rewrite KF1 by exact L. congruence.
           ++ right. left. exists x. cbn [pcs s']. rewrite (NB _ E0). exact B.
           ++ right. right. rewrite F. exact B.
      * intros x all. cbn. unfold upd. destruct (Nat.eqb_spec x t); [destruct th; discriminate|apply (i_nl ts s I)].
      * intros x. cbn [pcs s']. rewrite (NB _ E0). apply (i_ts ts s I).
  - (* WDel *)
    assert (NB : forall x, batch (upd (pcs s) t Done x) = batch (pcs s x)).
    { intro x. rewrite batch_upd. destruct (Nat.eqb_spec x t); [subst; rewrite P; reflexivity|reflexivity]. }
    destruct (cur s k) as [o|] eqn:C.
    2:{ inversion H; subst; clear H. apply inv_pc; auto; try (rewrite P; simpl; tauto); discriminate. }
    destruct (i_cur ts s I k o C) as [Ko [To Lo]].
    assert (OTH : forall k' o', k' <> k -> cur s k' = Some o' -> o' <> o).
    { intros k' o' Hk Hc E. subst o'. destruct (i_cur ts s I k' o Hc) as [A _]. congruence. }
    destruct (ofile (objs s o)) eqn:F; injection H as H; subst s'.
    + set (s1 := {| pcs := pcs s; objs := upd (objs s) o {| okey := okey (objs s o); oval := oval (objs s o); otomb := true; ofile := true |};
                    nobj := nobj s; cur := upd (cur s) k None; queue := queue s; disk := disk s |}).
      set (s' := {| pcs := upd (pcs s) t Done; objs := objs s1; nobj := nobj s1; cur := cur s1;
                    queue := qadd s1 o (queue s); disk := disk s |}).
      assert (KF : forall x, keyof s' x = keyof s x /\ keyof s1 x = keyof s x).
      { intro x. unfold keyof, s', s1. cbn. unfold upd. destruct (Nat.eqb_spec x o); subst; auto. }
      assert (CU : forall x, (cur s (keyof s x) = Some x \/ cur s (keyof s x) = None) ->
                   cur s' (keyof s' x) = Some x \/ cur s' (keyof s' x) = None).
      { intros x D. destruct (KF x) as [E _]. rewrite E. cbn. unfold upd.
        destruct (Nat.eqb_spec (keyof s x) k); [right; reflexivity|exact D]. }
      change (Inv ts s'). constructor.
      * intros k' o' H. cbn in H. unfold upd in H. destruct (Nat.eqb_spec k' k); [discriminate|].
        destruct (i_cur ts s I k' o' H) as [A [B D]]. destruct (KF o') as [E _]. rewrite E. split; [exact A|].
        split; [|exact D]. cbn. rewrite upd_other by (eapply OTH; eauto). exact B.
      * intros x Hx. cbn in Hx. apply qadd_in in Hx. destruct Hx as [Hx| ->]; [apply (i_qlt ts s I); exact Hx|exact Lo].
      * intros x o'. cbn [pcs s']. rewrite NB. apply (i_blt ts s I).
      * intros x o'. cbn [pcs s']. rewrite NB. intro A. apply CU. eapply (i_bcur ts s I); eauto.
      * intros x Hx. cbn in Hx. apply qadd_in in Hx. destruct Hx as [Hx| ->].
        -- apply CU. apply (i_qcur ts s I); exact Hx.
        -- right. destruct (KF o) as [E _]. rewrite E, Ko. cbn. apply upd_same.
      * intros k' o' H. cbn in H. unfold upd in H. destruct (Nat.eqb_spec k' k) as [|Hne]; [discriminate|].
        assert (Hoo := OTH k' o' Hne H).
        destruct (i_main ts s I k' o' H) as [A|[[x A]|A]].
        -- left. cbn. apply qadd_keep. exact A.
        -- right. left. exists x. cbn [pcs s']. rewrite NB. exact A.
        -- right. right. cbn. rewrite upd_other by exact Hoo. exact A.
      * intros x all. cbn. unfold upd. destruct (Nat.eqb_spec x t); [discriminate|apply (i_nl ts s I)].
      * intros x. cbn [pcs s']. rewrite NB. apply (i_ts ts s I).
    + set (s' := {| pcs := upd (pcs s) t Done; objs := objs s; nobj := nobj s; cur := upd (cur s) k None;
                    queue := qdel s k (queue s); disk := disk s |}).
      assert (CU : forall x, (cur s (keyof s x) = Some x \/ cur s (keyof s x) = None) ->
                   cur s' (keyof s' x) = Some x \/ cur s' (keyof s' x) = None).
      { intros x D. change (keyof s' x) with (keyof s x). cbn. unfold upd.
        destruct (Nat.eqb_spec (keyof s x) k); [right; reflexivity|exact D]. }
      change (Inv ts s'). constructor.
      * intros k' o' H. cbn in H. unfold upd in H. destruct (Nat.eqb_spec k' k); [discriminate|].
        apply (i_cur ts s I k' o' H).
      * intros x Hx. cbn in Hx. apply qdel_in in Hx. apply (i_qlt ts s I). tauto.
      * intros x o'. cbn [pcs s']. rewrite NB. apply (i_blt ts s I).
      * intros x o'. cbn [pcs s']. rewrite NB. intro A. apply CU. eapply (i_bcur ts s I); eauto.
      * intros x Hx. cbn in Hx. apply qdel_in in Hx. apply CU. apply (i_qcur ts s I). tauto.
      * intros k' o' H. cbn in H. unfold upd in H. destruct (Nat.eqb_spec k' k) as [|Hne]; [discriminate|].
        destruct (i_cur ts s I k' o' H) as [A _].
        destruct (i_main ts s I k' o' H) as [B|[[x B]|B]].
        -- left. cbn. apply qdel_in. split; [exact B|congruence].
        -- right. left. exists x. cbn [pcs s']. rewrite NB. exact B.
        -- right. right. exact B.
      * intros x all. cbn. unfold upd. destruct (Nat.eqb_spec x t); [discriminate|apply (i_nl ts s I)].
      * intros x. cbn [pcs s']. rewrite NB. apply (i_ts ts s I).
  - (* FColl *)
    destruct (queue s) as [|q0 q] eqn:Q; inversion H; subst; clear H.
    + apply inv_pc; auto; try (rewrite P; simpl; tauto); discriminate.
    + apply inv_pc; auto; try discriminate.
      * intros o A. right. rewrite Q. exact A.
      * rewrite P. simpl. tauto.
  - (* FDeq *)
    inversion H; subst; clear H.
    assert (NB : forall x, batch (upd (pcs s) t (FWrite b b) x) = batch (pcs s x)).
    { intro x. rewrite batch_upd. destruct (Nat.eqb_spec x t); [subst; rewrite P; reflexivity|reflexivity]. }
    constructor; cbn [pcs objs nobj cur queue disk].
    + apply (i_cur ts s I).
    + intros x Hx. apply qminus_in in Hx. apply (i_qlt ts s I). tauto.
    + intros x o. rewrite NB. apply (i_blt ts s I).
    + intros x o. rewrite NB. apply (i_bcur ts s I).
    + intros x Hx. apply qminus_in in Hx. apply (i_qcur ts s I). tauto.
    + intros k o H. destruct (i_cur ts s I k o H) as [Ko _].
      destruct (i_main ts s I k o H) as [A|[[x A]|A]].
      * destruct (qhas s (keyof s o) b) eqn:Q.
        -- right. left. exists t. rewrite NB, P. simpl.
           apply qhas_spec in Q. destruct Q as [o2 [B C]].
           destruct (i_bcur ts s I t o2) as [D|D]; [rewrite P; exact B| |]; rewrite C, Ko, H in D;
             [inversion D; subst; exact B|discriminate].
        -- left. apply qminus_in. auto.
      * right. left. exists x. rewrite NB. exact A.
      * right. right. exact A.
    + intros x all. unfold upd. destruct (Nat.eqb_spec x t); [discriminate|apply (i_nl ts s I)].
    + intros x. rewrite NB. apply (i_ts ts s I).
  - (* FWrite *)
    destruct b as [|o r]; inversion H; subst; clear H.
    + apply inv_pc; auto; try (rewrite P; simpl; tauto); discriminate.
    + set (x0 := objs s o).
      assert (SUB : forall x o', In o' (batch (upd (pcs s) t (FWrite r all) x)) -> In o' (batch (pcs s x))).
      { intros x o'. rewrite batch_upd. destruct (Nat.eqb_spec x t); [subst; rewrite P; simpl; auto|auto]. }
      set (s' := {| pcs := upd (pcs s) t (FWrite r all);
                    objs := upd (objs s) o {| okey := okey x0; oval := oval x0; otomb := otomb x0; ofile := true |};
                    nobj := nobj s; cur := cur s; queue := queue s;
                    disk := upd (disk s) (okey x0) (if otomb x0 then None else Some (oval x0)) |}).
      assert (KF : forall x, keyof s' x = keyof s x /\ oval (objs s' x) = oval (objs s x) /\ otomb (objs s' x) = otomb (objs s x)).
      { intro x. unfold keyof, s', x0. cbn. unfold upd. destruct (Nat.eqb_spec x o); subst; auto. }
      assert (Bo : cur s (keyof s o) = Some o \/ cur s (keyof s o) = None).
      { apply (i_bcur ts s I t). rewrite P. left. reflexivity. }
      change (Inv ts s'). constructor.
      * intros k o' H. cbn in H. destruct (i_cur ts s I k o' H) as [A [B D]]. destruct (KF o') as [E [_ G]].
        rewrite E, G. auto.
      * apply (i_qlt ts s I).
      * intros x o' A. apply SUB in A. eapply (i_blt ts s I); eauto.
      * intros x o' A. apply SUB in A. destruct (KF o') as [E _]. rewrite E. eapply (i_bcur ts s I); eauto.
      * intros x Hx. destruct (KF x) as [E _]. rewrite E. apply (i_qcur ts s I). exact Hx.
      * intros k o' H. cbn in H. destruct (i_cur ts s I k o' H) as [Ko [To _]]. destruct (KF o') as [_ [V _]].
        destruct (Nat.eq_dec o' o) as [->|Hne].
        -- right. right. cbn. rewrite (upd_same (objs s)). cbn.
           assert (E : okey x0 = k) by exact Ko. rewrite E, upd_same.
           assert (T : otomb x0 = false) by exact To. rewrite T. reflexivity.
        -- destruct (i_main ts s I k o' H) as [A|[[x A]|A]].
           ++ left. exact A.
           ++ right. left. exists x. cbn [pcs s']. rewrite batch_upd. destruct (Nat.eqb_spec x t) as [->|]; [|exact A].
              rewrite P in A. simpl in *. destruct A; [congruence|assumption].
           ++ right. right. rewrite V. cbn. rewrite upd_other; [exact A|].
              intro E. assert (E2 : keyof s o = k) by (symmetry; exact E). rewrite E2, H in Bo.
              destruct Bo as [D|D]; [inversion D; congruence|discriminate].
      * intros x all0. cbn. unfold upd. destruct (Nat.eqb_spec x t); [discriminate|apply (i_nl ts s I)].
      * intros x. cbn [pcs s']. rewrite batch_upd. destruct (Nat.eqb_spec x t); [subst; auto|apply (i_ts ts s I)].
Qed.

Lemma inv_run sched : forall s, Inv ts s -> no_recreate s ts sched = true -> Inv ts (run false s sched).
Proof.
  induction sched as [|t r IH]; intros s I H; simpl in *; [exact I|].
  apply andb_true_iff in H. destruct H as [H H3]. apply andb_true_iff in H. destruct H as [H1 H2].
  apply negb_true_iff in H2. apply existsb_exists in H1. destruct H1 as [y [Hy E]]. apply Nat.eqb_eq in E. subst y.
  destruct (tstep false s t) eqn:T; [apply IH; [eapply inv_step; eauto|exact H3]|apply IH; assumption].
Qed.
End Step.

(* ---- all schedules (of the threads ts, without a re-creation inside a flush window) ---- *)

(* whenever nothing is queued and no collected batch is unwritten, the chronicler holds the
   current value of every key that has a record *)
Theorem buffer_quiescent_durable : forall progs ts sched k v,
  let s := run false (init progs) sched in
  no_recreate (init progs) ts sched = true ->
  queue s = [] -> (forall t, batch (pcs s t) = []) ->
  memval s k = Some v -> disk s k = Some v.
Proof.
  intros progs ts sched k v s Hn Hq Hb Hm. unfold memval in Hm.
  destruct (cur s k) as [o|] eqn:C; [|discriminate]. inversion Hm; subst v.
  assert (I := inv_run ts sched _ (inv_init ts progs) Hn). fold s in I.
  destruct (i_main ts s I k o C) as [A|[[x A]|A]]; [rewrite Hq in A; destruct A | rewrite Hb in A; destruct A | exact A].
Qed.

(* a key whose current value the chronicler does not hold yet is still queued or in a batch
   that a running flusher is going to write: no acknowledged Save is dropped from the buffer *)
Theorem buffer_tracks_unwritten : forall progs ts sched k o,
  let s := run false (init progs) sched in
  no_recreate (init progs) ts sched = true ->
  cur s k = Some o -> disk s k <> Some (oval (objs s o)) ->
  In o (queue s) \/ exists t, In o (batch (pcs s t)).
Proof.
  intros progs ts sched k o s Hn C Hd.
  assert (I := inv_run ts sched _ (inv_init ts progs) Hn). fold s in I.
  destruct (i_main ts s I k o C) as [A|[A|A]]; [left; exact A|right; exact A|contradiction].
Qed.

(* ---- a flusher that runs alone (the close-write of Close / GracefulStop) empties the queue -- *)
Lemma run_cons s t r : run false s (t :: r) =
  match tstep false s t with Some s' => run false s' r | None => run false s r end.
Proof. reflexivity. Qed.
Lemma run_done t : forall n s0, pcs s0 t = Done -> run false s0 (repeat t n) = s0.
Proof.
  induction n as [|n IH]; intros s0 H0; [reflexivity|].
  change (repeat t (S n)) with (t :: repeat t n). rewrite run_cons. unfold tstep. rewrite H0. apply IH. exact H0.
Qed.

Lemma write_alone : forall r all s t, pcs s t = FWrite r all ->
  let s' := run false s (repeat t (S (length r))) in
  pcs s' t = Done /\ queue s' = queue s /\ cur s' = cur s /\ (forall x, x <> t -> pcs s' x = pcs s x).
Proof.
  induction r as [|o r IH]; intros all s t P; cbv zeta.
  - change (repeat t (S (length (@nil nat)))) with [t]. rewrite run_cons. unfold tstep. rewrite P. cbn. rewrite upd_same.
    repeat split; auto. intros x Hx. apply upd_other; exact Hx.
  - change (repeat t (S (length (o :: r)))) with (t :: repeat t (S (length r))). rewrite run_cons.
    destruct (tstep false s t) as [s1|] eqn:E; [|unfold tstep in E; rewrite P in E; discriminate].
    assert (P1 : pcs s1 t = FWrite r all /\ queue s1 = queue s /\ cur s1 = cur s).
    { unfold tstep in E. rewrite P in E. inversion E; subst; cbn; rewrite upd_same; auto. }
    destruct P1 as [P1 [Q1 C1]]. destruct (IH all s1 t P1) as [A [B [C D]]].
    split; [exact A|]. split; [rewrite <- Q1; exact B|]. split; [rewrite <- C1; exact C|].
    intros x Hx. etransitivity; [apply D; exact Hx|]. eapply step_other; eauto.
Qed.

Lemma flush_alone s t : pcs s t = FColl ->
  let s' := run false s (repeat t (3 + length (queue s))) in
  pcs s' t = Done /\ queue s' = [] /\ cur s' = cur s /\ (forall x, x <> t -> pcs s' x = pcs s x).
Proof.
  intro P. cbv zeta. destruct (queue s) as [|q0 q] eqn:Q.
  - assert (E : run false s (repeat t (3 + length (@nil nat))) = set_pc s t Done).
    { change (repeat t (3 + length (@nil nat))) with (t :: repeat t 2). rewrite run_cons.
      unfold tstep. rewrite P, Q. apply run_done. cbn. apply upd_same. }
    rewrite E. cbn. rewrite upd_same.
    split; [reflexivity|]. split; [exact Q|]. split; [reflexivity|]. intros x Hx. apply upd_other; exact Hx.
  - set (s1 := set_pc s t (FDeq (q0 :: q))).
    assert (P1 : pcs s1 t = FDeq (q0 :: q)) by (cbn; apply upd_same).
    set (s2 := {| pcs := upd (pcs s1) t (FWrite (q0 :: q) (q0 :: q)); objs := objs s1; nobj := nobj s1; cur := cur s1;
                  queue := qminus s1 (queue s1) (q0 :: q); disk := disk s1 |}).
    assert (P2 : pcs s2 t = FWrite (q0 :: q) (q0 :: q)) by (cbn; apply upd_same).
    assert (E : run false s (repeat t (3 + length (q0 :: q))) = run false s2 (repeat t (S (length (q0 :: q))))).
    { change (repeat t (3 + length (q0 :: q))) with (t :: t :: repeat t (S (length (q0 :: q)))).
      rewrite run_cons. unfold tstep at 1. rewrite P, Q. fold s1.
      rewrite run_cons. unfold tstep at 1. rewrite P1. reflexivity. }
    rewrite E.
    destruct (write_alone (q0 :: q) (q0 :: q) s2 t P2) as [A [B [C D]]].
    split; [exact A|]. split; [|split].
    + rewrite B. unfold s2. cbn [queue]. unfold s1 at 2. cbn [queue set_pc]. rewrite Q. apply qminus_self.
    + rewrite C. reflexivity.
    + intros x Hx. rewrite D by exact Hx. cbn. rewrite !upd_other by exact Hx. reflexivity.
Qed.

Definition isflush (p : pc) : bool :=
  match p with FColl | FDeq _ | FWrite _ _ | Done => true | _ => false end.

Lemma flusher_steps ts t : In t ts -> forall n s0, Inv ts s0 -> isflush (pcs s0 t) = true ->
  Inv ts (run false s0 (repeat t n)).
Proof.
  intro Ht. induction n as [|n IH]; intros s0 I0 F; [exact I0|].
  change (repeat t (S n)) with (t :: repeat t n). rewrite run_cons.
  destruct (tstep false s0 t) as [s1|] eqn:E; [|apply IH; assumption].
  apply IH.
  - eapply inv_step; eauto. unfold recreates. destruct (pcs s0 t); try reflexivity; discriminate.
  - unfold tstep in E. destruct (pcs s0 t) as [| k v th | k | | b | b all | all |] eqn:P0; try discriminate.
    + destruct (queue s0); inversion E; subst; cbn; rewrite upd_same; reflexivity.
    + inversion E; subst; cbn; rewrite upd_same; reflexivity.
    + destruct b; inversion E; subst; cbn; rewrite upd_same; reflexivity.
Qed.

(* in every reachable state (of such a schedule): if no other flusher is in flight and the
   close-write t runs alone to completion, every key that has a record is durable with its
   current value *)
Theorem close_write_makes_durable : forall progs ts sched t k v,
  let s := run false (init progs) sched in
  no_recreate (init progs) ts sched = true -> In t ts ->
  pcs s t = FColl -> (forall x, x <> t -> batch (pcs s x) = []) ->
  let s' := run false s (repeat t (3 + length (queue s))) in
  memval s' k = Some v -> disk s' k = Some v.
Proof.
  intros progs ts sched t k v s Hn Ht P Hb s' Hm.
  destruct (flush_alone s t P) as [A [B [C D]]]. fold s' in A, B, C, D.
  assert (I : Inv ts s) by (apply (inv_run ts sched _ (inv_init ts progs) Hn)).
  assert (I' : Inv ts s') by (apply flusher_steps; [exact Ht|exact I|rewrite P; reflexivity]).
  unfold memval in Hm. destruct (cur s' k) as [o|] eqn:Co; [|discriminate]. inversion Hm; subst v.
  destruct (i_main ts s' I' k o Co) as [E|[[x E]|E]]; [rewrite B in E; destruct E | | exact E].
  destruct (Nat.eq_dec x t) as [->|Hx]; [rewrite A in E; destruct E|].
  rewrite D in E by exact Hx. rewrite Hb in E by exact Hx. destruct E.
Qed.

(* ---- refutations ---- *)
Theorem late_dequeue_loses_update :
  let s := run true (init (progs_of w_late_progs)) w_late in
  memval s 0 = Some 2 /\ disk s 0 = Some 1 /\ queue s = [] /\
  forallb (fun t => match batch (pcs s t) with [] => true | _ => false end) [0;1;2;3] = true.
Proof. vm_compute. auto. Qed.

Example early_dequeue_keeps_update :
  let s := run false (init (progs_of w_late_progs)) w_late in
  memval s 0 = Some 2 /\ disk s 0 = Some 2 /\ queue s = [] /\
  no_recreate (init (progs_of w_late_progs)) [0;1;2;3] w_late = true.
Proof. vm_compute. auto. Qed.

(* the hypothesis is needed (the code, late = false): a key that is deleted and re-created while
   an unwritten batch holds its old record object gets the old value back ... *)
Theorem recreate_in_window_old_value_back :
  let s := run false (init (progs_of w_stale_progs)) w_stale_value in
  memval s 0 = Some 3 /\ disk s 0 = Some 1 /\ queue s = [] /\
  forallb (fun t => match batch (pcs s t) with [] => true | _ => false end) [0;1;2;3] = true /\
  no_recreate (init (progs_of w_stale_progs)) [0;1;2;3] w_stale_value = false.
Proof. vm_compute. auto. Qed.

(* ... or is deleted by the old object's tombstone *)
Theorem recreate_in_window_tombstone_wins :
  let s := run false (init (progs_of w_stale_tomb_progs)) w_stale_tomb in
  memval s 0 = Some 3 /\ disk s 0 = None /\ queue s = [] /\
  forallb (fun t => match batch (pcs s t) with [] => true | _ => false end) [0;1;2;3;4] = true /\
  no_recreate (init (progs_of w_stale_tomb_progs)) [0;1;2;3;4] w_stale_tomb = false.
Proof. vm_compute. auto. Qed.

(* the close-write is needed even while another flush is running: that flush only writes what it
   collected. 0 saves k0=1; 1 = write tick, parked after its dequeue; 2 saves k1=2; if Close()
   skips its own flush (because "a writer is active") and the tick then finishes, k1 is still
   queued in an instance that is gone; with the close-write (thread 3) it is durable *)
Example close_write_skipped_loses_queued_save :
  let progs := progs_of [PSave 0 1 false; PFlush; PSave 1 2 false; PFlush] in
  let skipped := run false (init progs) [0; 1;1; 2; 1;1;1] in
  let closed := run false (init progs) [0; 1;1; 2; 3;3;3;3; 1;1;1] in
  memval skipped 1 = Some 2 /\ disk skipped 1 = None /\ length (queue skipped) = 1 /\
  memval closed 1 = Some 2 /\ disk closed 1 = Some 2 /\ disk closed 0 = Some 1 /\ queue closed = [] /\
  no_recreate (init progs) [0;1;2;3] [0; 1;1; 2; 3;3;3;3; 1;1;1] = true.
Proof. vm_compute. repeat split; reflexivity. Qed.
