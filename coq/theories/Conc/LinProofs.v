(* Conc/LinProofs.v — C09: every schedule of any number of guarded read-modify-write threads
   over one record is a serial execution in the order of the write steps (which lie between
   invocation and response), for both write modes, from the C15 guard invariant. *)
From HV Require Import Base.Prelude Conc.Guard Conc.GuardProofs Conc.Lin.
From Coq Require Import Sorted Permutation.

(* ---- list helpers ---- *)

Lemma nth_error_upd_same {A} (l : list A) n x y :
  nth_error l n = Some y -> nth_error (upd_nth n x l) n = Some x.
Proof.
  revert n; induction l as [|a t IH]; intros [|n] H; simpl in *; try discriminate; auto.
Qed.

Lemma nth_error_upd_other {A} (l : list A) n m x :
  n <> m -> nth_error (upd_nth n x l) m = nth_error l m.
Proof.
  revert n m; induction l as [|a t IH]; intros [|n] [|m] H; simpl; auto; try congruence.
Qed.

Lemma map_upd_nth_same {A B} (f : A -> B) (l : list A) n x y :
  nth_error l n = Some y -> f x = f y -> map f (upd_nth n x l) = map f l.
Proof.
  revert n; induction l as [|a t IH]; intros [|n] H E; simpl in *; try discriminate; auto.
  - inversion H; subst. rewrite E. reflexivity.
  - f_equal. eapply IH; eauto.
Qed.

Lemma ss_lt_app_last (l : list nat) (x : nat) :
  StronglySorted lt l -> Forall (fun y => y < x) l -> StronglySorted lt (l ++ [x]).
Proof.
  induction l as [|a t IH]; simpl; intros Hs Hf.
  - constructor; constructor.
  - inversion Hs as [|? ? Hs' Ha]; subst. inversion Hf as [|? ? Hax Hf']; subst.
    constructor; [apply IH; assumption|].
    apply Forall_app; split; [assumption| constructor; [assumption|constructor]].
Qed.

(* ---- frame properties of guard steps (any id policy) ---- *)

Definition ev_client (e : ev) : client :=
  match e with EStartW c | EReturn c | EStartN c | ERelease c _ => c end.

Lemma step_ret_mono reset s e s' p :
  step reset s e = Some s' -> In p (ret s) -> In p (ret s').
Proof.
  intros H Hi. destruct e as [c|c|c|c id]; simpl in H.
  - destruct (lookup_client c (pend s)); [discriminate|]. inversion H; subst; simpl; assumption.
  - destruct (lookup_client c (pend s)); [|discriminate].
    destruct (g_head (g s)); [|discriminate]. destruct (Z.eqb z z0); [|discriminate].
    inversion H; subst; simpl. apply in_app_iff; left; assumption.
  - destruct (queue (g s)).
    + inversion H; subst; simpl. apply in_app_iff; left; assumption.
    + inversion H; subst; assumption.
  - inversion H; subst; simpl; assumption.
Qed.

Lemma step_held_other reset s e s' c i :
  step reset s e = Some s' -> ev_client e <> c -> In (c, i) (held s) -> In (c, i) (held s').
Proof.
  intros H Hne Hi. destruct e as [c0|c0|c0|c0 id]; simpl in H, Hne.
  - destruct (lookup_client c0 (pend s)); [discriminate|]. inversion H; subst; simpl; assumption.
  - destruct (lookup_client c0 (pend s)); [|discriminate].
    destruct (g_head (g s)); [|discriminate]. destruct (Z.eqb z z0); [|discriminate].
    inversion H; subst; simpl. apply in_app_iff; left; assumption.
  - destruct (queue (g s)).
    + inversion H; subst; simpl. apply in_app_iff; left; assumption.
    + inversion H; subst; assumption.
  - inversion H; subst; simpl. apply remove_first_other; [assumption|].
    intro E; inversion E; subst; congruence.
Qed.

Lemma return_gives reset s c id s' :
  lookup_client c (pend s) = Some id -> step reset s (EReturn c) = Some s' ->
  In (c, id) (held s') /\ In (c, id) (ret s').
Proof.
  intros El H. simpl in H. rewrite El in H.
  destruct (g_head (g s)); [|discriminate]. destruct (Z.eqb id z); [|discriminate].
  inversion H; subst; simpl. split; apply in_app_iff; right; left; reflexivity.
Qed.

Section ProtocolProofs.
Variables (St Op Rs : Type).
Variable sem : St -> Op -> St * Rs.

Notation world := (world St Op Rs).
Notation thread := (thread St Op Rs).
Notation lentry := (lentry St Op Rs).

Definition clients (log : list lentry) : list nat := map l_c log.
Definition times (log : list lentry) : list nat := map l_time log.

(* the sections of the log form a chain: each one read the state its predecessor wrote *)
Fixpoint chain_ok (s : St) (log : list lentry) : Prop :=
  match log with
  | [] => True
  | e :: t => l_read e = s /\ sem (l_read e) (l_op e) = (l_write e, l_resp e) /\ chain_ok (l_write e) t
  end.

Fixpoint last_state (s : St) (log : list lentry) : St :=
  match log with [] => s | e :: t => last_state (l_write e) t end.

Lemma chain_ok_app s log e :
  chain_ok s log -> l_read e = last_state s log -> sem (l_read e) (l_op e) = (l_write e, l_resp e) ->
  chain_ok s (log ++ [e]).
Proof.
  revert s; induction log as [|a t IH]; simpl; intros s Hc Hr Hs.
  - auto.
  - destruct Hc as [H1 [H2 H3]]. repeat split; auto.
Qed.

Lemma last_state_app s log e : last_state s (log ++ [e]) = l_write e.
Proof. revert s; induction log as [|a t IH]; simpl; intros s; auto. Qed.

Lemma chain_sem_run s log :
  chain_ok s log -> sem_run sem s (map l_op log) = (last_state s log, map l_resp log).
Proof.
  revert s; induction log as [|e t IH]; simpl; intros s Hc; [reflexivity|].
  destruct Hc as [H1 [H2 H3]]. subst s. rewrite H2. simpl. rewrite (IH _ H3). reflexivity.
Qed.

Definition in_log (w : world) (c : nat) (t : thread) (rs : Rs) : Prop :=
  exists e, In e (w_log w) /\ l_c e = c /\ l_op e = t_op t /\ l_resp e = rs /\ t_inv t < l_time e.

Definition TInv (w : world) (c : nat) (t : thread) : Prop :=
  match t_pc t with
  | PInit => ~ In c (clients (w_log w))
  | PWait => ~ In c (clients (w_log w)) /\ t_inv t < w_now w
  | PIn id => In (c, id) (held (w_g w)) /\ ~ In c (clients (w_log w)) /\ t_inv t < w_now w
  | PRead id r => In (c, id) (held (w_g w)) /\ r = w_val w /\ ~ In c (clients (w_log w)) /\ t_inv t < w_now w
  | PWritten id rs => In (c, id) (ret (w_g w)) /\ in_log w c t rs
  | PSaved id rs => In (c, id) (ret (w_g w)) /\ in_log w c t rs
  | PDone rs => exists e, In e (w_log w) /\ l_c e = c /\ l_op e = t_op t /\ l_resp e = rs /\
                          t_inv t < l_time e /\ l_time e < t_ret t
  end.

Record WInv (s0 : St) (w : world) : Prop := {
  W_g : Inv (w_g w);
  W_thr : forall c t, nth_error (w_thr w) c = Some t -> TInv w c t;
  W_nd : NoDup (clients (w_log w));
  W_sorted : StronglySorted lt (times (w_log w));
  W_time : Forall (fun e => l_time e < w_now w) (w_log w);
  W_chain : chain_ok s0 (w_log w);
  W_last : last_state s0 (w_log w) = w_val w;
  W_logthr : forall e, In e (w_log w) ->
             exists t, nth_error (w_thr w) (l_c e) = Some t /\ past_write (t_pc t) = true
}.

Lemma tinv_frame (w w' : world) c c' t :
  TInv w c' t -> c' <> c ->
  (forall i, In (c', i) (held (w_g w)) -> In (c', i) (held (w_g w'))) ->
  (forall p, In p (ret (w_g w)) -> In p (ret (w_g w'))) ->
  (exists ex, w_log w' = w_log w ++ ex /\ forall e, In e ex -> l_c e = c) ->
  (w_val w' = w_val w \/ (Inv (w_g w) /\ exists id, In (c, id) (held (w_g w)))) ->
  w_now w <= w_now w' ->
  TInv w' c' t.
Proof.
  intros HT Hne Hheld Hret [ex [Hlog Hex]] Hval Hnow.
  assert (Hnotin : ~ In c' (clients (w_log w)) -> ~ In c' (clients (w_log w'))).
  { intros Hn Hi. rewrite Hlog in Hi. unfold clients in Hi. rewrite map_app in Hi.
    apply in_app_iff in Hi as [Hi|Hi]; [apply Hn; exact Hi|].
    apply in_map_iff in Hi as [e [E Hi]]. apply Hex in Hi. congruence. }
  assert (Hinlog : forall rs, in_log w c' t rs -> in_log w' c' t rs).
  { intros rs [e [Hi Hr]]. exists e. split; [|exact Hr]. rewrite Hlog. apply in_app_iff; left; exact Hi. }
  unfold TInv in *. destruct (t_pc t) as [| |id|id r|id rs|id rs|rs].
  - auto.
  - destruct HT as [H1 H2]. split; [auto|lia].
  - destruct HT as [H1 [H2 H3]]. repeat split; [auto|auto|lia].
  - destruct HT as [H1 [H2 [H3 H4]]]. repeat split; [auto| |auto|lia].
    destruct Hval as [Hv|[HI [id0 Hh]]]; [congruence|].
    exfalso. pose proof (held_at_most_one _ HI _ _ H1 Hh) as E. inversion E; subst. congruence.
  - destruct HT as [H1 H2]. split; auto.
  - destruct HT as [H1 H2]. split; auto.
  - destruct HT as [e [Hi Hr]]. exists e. split; [|exact Hr]. rewrite Hlog. apply in_app_iff; left; exact Hi.
Qed.

(* the shape shared by every step: thread c moves to t', the guard to g', the record to v',
   the log grows by ex (nothing, or the one section c just completed) *)
Lemma winv_put s0 (w : world) c t g' v' log' ex t' :
  WInv s0 w -> nth_error (w_thr w) c = Some t ->
  log' = w_log w ++ ex ->
  Inv g' ->
  (forall c' i, c' <> c -> In (c', i) (held (w_g w)) -> In (c', i) (held g')) ->
  (forall p, In p (ret (w_g w)) -> In p (ret g')) ->
  ((ex = [] /\ v' = w_val w) \/
   (exists e, ex = [e] /\ l_c e = c /\ l_time e = w_now w /\ l_read e = w_val w /\
              sem (l_read e) (l_op e) = (l_write e, l_resp e) /\ l_write e = v' /\
              ~ In c (clients (w_log w)) /\ (exists id, In (c, id) (held (w_g w))) /\
              past_write (t_pc t') = true)) ->
  (past_write (t_pc t) = true -> past_write (t_pc t') = true) ->
  TInv (put w c g' v' log' t') c t' ->
  WInv s0 (put w c g' v' log' t').
Proof.
  intros I Hc Hlog Ig Hheld Hret Hex Hpw HT.
  assert (Hexc : forall e, In e ex -> l_c e = c).
  { destruct Hex as [[-> _]|[e [-> [E _]]]]; simpl; [tauto|]. intros e' [<-|[]]; exact E. }
  constructor; simpl.
  - exact Ig.
  - intros c' t0 Hn. destruct (Nat.eq_dec c c') as [<-|Hne].
    + rewrite (nth_error_upd_same _ _ _ _ Hc) in Hn. inversion Hn; subst t0. exact HT.
    + rewrite nth_error_upd_other in Hn by exact Hne.
      eapply (tinv_frame w _ c); [apply (W_thr _ _ I); exact Hn|congruence| | | | |]; simpl.
      * intros i. apply Hheld. congruence.
      * exact Hret.
      * exists ex. split; [exact Hlog|exact Hexc].
      * destruct Hex as [[_ ->]|[e [_ [_ [_ [_ [_ [_ [_ [Hid _]]]]]]]]]]; [left; reflexivity|].
        right. split; [apply (W_g _ _ I)|exact Hid].
      * lia.
  - subst log'. destruct Hex as [[-> _]|[e [-> [E [_ [_ [_ [_ [Hn _]]]]]]]]].
    + rewrite app_nil_r. apply (W_nd _ _ I).
    + unfold clients. rewrite map_app. simpl. rewrite E.
      apply nodup_app_last; [apply (W_nd _ _ I)|exact Hn].
  - subst log'. destruct Hex as [[-> _]|[e [-> [_ [Et _]]]]].
    + rewrite app_nil_r. apply (W_sorted _ _ I).
    + unfold times. rewrite map_app. simpl. rewrite Et.
      apply ss_lt_app_last; [apply (W_sorted _ _ I)|].
      pose proof (W_time _ _ I) as Hf. apply Forall_forall. intros x Hx.
      apply in_map_iff in Hx as [e0 [<- Hx]]. rewrite Forall_forall in Hf. apply Hf; exact Hx.
  - subst log'. apply Forall_app; split.
    + eapply Forall_impl; [|apply (W_time _ _ I)]. simpl; intros; lia.
    + destruct Hex as [[-> _]|[e [-> [_ [Et _]]]]]; [constructor|].
      constructor; [lia|constructor].
  - subst log'. destruct Hex as [[-> _]|[e [-> [_ [_ [Er [Hs _]]]]]]].
    + rewrite app_nil_r. apply (W_chain _ _ I).
    + apply chain_ok_app; [apply (W_chain _ _ I)| |exact Hs].
      rewrite (W_last _ _ I). exact Er.
  - subst log'. destruct Hex as [[-> ->]|[e [-> [_ [_ [_ [_ [Ew _]]]]]]]].
    + rewrite app_nil_r. apply (W_last _ _ I).
    + rewrite last_state_app. exact Ew.
  - subst log'. intros e Hi. apply in_app_iff in Hi as [Hi|Hi].
    + destruct (W_logthr _ _ I e Hi) as [t0 [Hn Hp]].
      destruct (Nat.eq_dec c (l_c e)) as [E|Hne].
      * exists t'. rewrite <- E. split; [eapply nth_error_upd_same; exact Hc|].
        apply Hpw. rewrite <- E in Hn. rewrite Hc in Hn. inversion Hn; subst. exact Hp.
      * exists t0. split; [rewrite nth_error_upd_other by exact Hne; exact Hn|exact Hp].
    + destruct Hex as [[-> _]|[e0 [-> [E [_ [_ [_ [_ [_ [_ Hp]]]]]]]]]]; [destruct Hi|].
      destruct Hi as [<-|[]]. exists t'. rewrite E. split; [eapply nth_error_upd_same; exact Hc|exact Hp].
Qed.

Lemma winv_step s0 (w : world) c w' :
  WInv s0 w -> tstep sem false w c = Some w' -> WInv s0 w'.
Proof.
  intros I H. unfold tstep in H.
  destruct (nth_error (w_thr w) c) as [t|] eqn:Hc; [|discriminate].
  pose proof (W_thr _ _ I _ _ Hc) as HT. unfold TInv in HT.
  pose proof (W_g _ _ I) as Ig.
  destruct (t_pc t) as [| |id|id r|id rs|id rs|rs] eqn:Hpc.
  - (* PInit: enqueue *)
    destruct (step false (w_g w) (EStartW c)) as [g'|] eqn:Hs; [|discriminate].
    inversion H; subst w'; clear H.
    eapply winv_put with (ex := []); try exact Hc; eauto.
    + rewrite app_nil_r; reflexivity.
    + eapply inv_step; [exact Ig| |exact Hs]; reflexivity.
    + intros c' i Hne. eapply step_held_other; [exact Hs|simpl; congruence].
    + intros p. eapply step_ret_mono; exact Hs.
    + rewrite Hpc; discriminate.
    + unfold TInv; simpl. split; [exact HT|lia].
  - (* PWait: the blocked start returns *)
    destruct (lookup_client c (pend (w_g w))) as [id|] eqn:El; [|discriminate].
    destruct (step false (w_g w) (EReturn c)) as [g'|] eqn:Hs; [|discriminate].
    inversion H; subst w'; clear H. destruct HT as [H1 H2].
    destruct (return_gives _ _ _ _ _ El Hs) as [Hh Hr].
    eapply winv_put with (ex := []); try exact Hc; eauto.
    + rewrite app_nil_r; reflexivity.
    + eapply inv_step; [exact Ig| |exact Hs]; reflexivity.
    + intros c' i Hne. eapply step_held_other; [exact Hs|simpl; congruence].
    + intros p. eapply step_ret_mono; exact Hs.
    + rewrite Hpc; discriminate.
    + unfold TInv; simpl. repeat split; [exact Hh|exact H1|lia].
  - (* PIn: read the record *)
    inversion H; subst w'; clear H. destruct HT as [H1 [H2 H3]].
    eapply winv_put with (ex := []); try exact Hc; eauto.
    + rewrite app_nil_r; reflexivity.
    + rewrite Hpc; discriminate.
    + unfold TInv; simpl. repeat split; [exact H1|exact H2|lia].
  - (* PRead: write the record; the section is logged *)
    inversion H; subst w'; clear H. destruct HT as [H1 [H2 [H3 H4]]].
    eapply winv_put; try exact Hc; eauto.
    + right. eexists. split; [reflexivity|]. simpl.
      repeat split; [exact H2| |exact H3|exists id; exact H1].
      destruct (sem r (t_op t)); reflexivity.
    + unfold TInv; simpl. split; [apply (I_held_r _ Ig); exact H1|].
      eexists. split; [apply in_app_iff; right; left; reflexivity|]. simpl.
      repeat split; exact H4.
  - (* PWritten: Save (immediate mode releases the guard here) *)
    destruct HT as [H1 H2].
    destruct (t_imm t).
    + destruct (step false (w_g w) (ERelease c id)) as [g'|] eqn:Hs; [|discriminate].
      inversion H; subst w'; clear H.
      eapply winv_put with (ex := []); try exact Hc; eauto.
      * rewrite app_nil_r; reflexivity.
      * eapply inv_step; [exact Ig| |exact Hs]. simpl. apply mem_pair_in; exact H1.
      * intros c' i Hne. eapply step_held_other; [exact Hs|simpl; congruence].
      * intros p. eapply step_ret_mono; exact Hs.
      * unfold TInv; simpl. split; [eapply step_ret_mono; [exact Hs|exact H1]|].
        destruct H2 as [e He]. exists e. exact He.
    + inversion H; subst w'; clear H.
      eapply winv_put with (ex := []); try exact Hc; eauto.
      * rewrite app_nil_r; reflexivity.
      * unfold TInv; simpl. split; [exact H1|]. destruct H2 as [e He]. exists e. exact He.
  - (* PSaved: the caller's (possibly second) release *)
    destruct HT as [H1 H2].
    destruct (step false (w_g w) (ERelease c id)) as [g'|] eqn:Hs; [|discriminate].
    inversion H; subst w'; clear H.
    eapply winv_put with (ex := []); try exact Hc; eauto.
    + rewrite app_nil_r; reflexivity.
    + eapply inv_step; [exact Ig| |exact Hs]. simpl. apply mem_pair_in; exact H1.
    + intros c' i Hne. eapply step_held_other; [exact Hs|simpl; congruence].
    + intros p. eapply step_ret_mono; exact Hs.
    + unfold TInv; simpl. destruct H2 as [e [Hi [E1 [E2 [E3 E4]]]]]. exists e.
      repeat split; try assumption.
      pose proof (W_time _ _ I) as Hf. rewrite Forall_forall in Hf. apply Hf; exact Hi.
  - discriminate.
Qed.

Lemma winv_init s0 prog : WInv s0 (winit St Op Rs s0 prog).
Proof.
  constructor; simpl.
  - apply inv_init.
  - intros c t Hn. apply nth_error_In in Hn. apply in_map_iff in Hn as [p [<- _]].
    unfold TInv; simpl. tauto.
  - constructor.
  - constructor.
  - constructor.
  - exact Logic.I.
  - reflexivity.
  - intros e [].
Qed.

Lemma winv_run s0 sched : forall w, WInv s0 w -> WInv s0 (wrun sem false w sched).
Proof.
  induction sched as [|c t IH]; simpl; intros w I; [exact I|].
  destruct (tstep sem false w c) as [w'|] eqn:E; [|apply IH; exact I].
  apply IH. eapply winv_step; eassumption.
Qed.

(* ---- the programs never change ---- *)

Definition progs (w : world) : list (Op * bool) := map (fun t => (t_op t, t_imm t)) (w_thr w).

Lemma tstep_progs reset (w : world) c w' : tstep sem reset w c = Some w' -> progs w' = progs w.
Proof.
  intro H. unfold tstep in H. destruct (nth_error (w_thr w) c) as [t|] eqn:Hc; [|discriminate].
  unfold progs.
  destruct (t_pc t);
    repeat match type of H with
    | context [match ?x with _ => _ end] => destruct x; try discriminate
    | context [if ?x then _ else _] => destruct x
    end; inversion H; subst; simpl; eapply map_upd_nth_same; try exact Hc; reflexivity.
Qed.

Lemma wrun_progs reset sched : forall w : world, progs (wrun sem reset w sched) = progs w.
Proof.
  induction sched as [|c t IH]; simpl; intros w; [reflexivity|].
  destruct (tstep sem reset w c) as [w'|] eqn:E; [|apply IH].
  rewrite IH. eapply tstep_progs; exact E.
Qed.

Lemma progs_init s0 prog : progs (winit St Op Rs s0 prog) = prog.
Proof.
  unfold progs, winit; simpl. rewrite map_map. simpl.
  induction prog as [|[o b] t IH]; simpl; [reflexivity|]. rewrite IH. reflexivity.
Qed.

(* ---- consequences ---- *)

Definition in_section (p : pc St Rs) : bool :=
  match p with PIn _ | PRead _ _ => true | _ => false end.

Lemma nodup_clients_inj (log : list lentry) e1 e2 :
  NoDup (clients log) -> In e1 log -> In e2 log -> l_c e1 = l_c e2 -> e1 = e2.
Proof.
  induction log as [|a t IH]; simpl; intros Hn H1 H2 E; [tauto|].
  inversion Hn as [|? ? Hna Hnt]; subst.
  destruct H1 as [<-|H1], H2 as [<-|H2]; auto.
  - exfalso. apply Hna. rewrite E. apply in_map. exact H2.
  - exfalso. apply Hna. rewrite <- E. apply in_map. exact H1.
Qed.

(* guarded sections are atomic: in every schedule of any number of threads the completed
   sections form a chain (each read the state written by its predecessor, the record holds
   the last write), at most one thread is between its guard return and its write, and the
   value such a thread has read is still the record's content. *)
Theorem guarded_section_atomic_gen s0 prog sched :
  let w := wrun sem false (winit St Op Rs s0 prog) sched in
  chain_ok s0 (w_log w) /\ last_state s0 (w_log w) = w_val w /\
  StronglySorted lt (times (w_log w)) /\
  (forall c1 c2 t1 t2, nth_error (w_thr w) c1 = Some t1 -> nth_error (w_thr w) c2 = Some t2 ->
     in_section (t_pc t1) = true -> in_section (t_pc t2) = true -> c1 = c2) /\
  (forall c t id r, nth_error (w_thr w) c = Some t -> t_pc t = PRead id r -> r = w_val w).
Proof.
  intros w. pose proof (winv_run s0 sched _ (winv_init s0 prog)) as I. fold w in I.
  split; [apply (W_chain _ _ I)|]. split; [apply (W_last _ _ I)|]. split; [apply (W_sorted _ _ I)|].
  split.
  - intros c1 c2 t1 t2 H1 H2 S1 S2.
    pose proof (W_thr _ _ I _ _ H1) as T1. pose proof (W_thr _ _ I _ _ H2) as T2.
    unfold TInv in T1, T2.
    assert (X1 : exists i, In (c1, i) (held (w_g w))).
    { destruct (t_pc t1); try discriminate; [destruct T1 as [T1 _]|destruct T1 as [T1 _]]; eauto. }
    assert (X2 : exists i, In (c2, i) (held (w_g w))).
    { destruct (t_pc t2); try discriminate; [destruct T2 as [T2 _]|destruct T2 as [T2 _]]; eauto. }
    destruct X1 as [i1 X1], X2 as [i2 X2].
    pose proof (held_at_most_one _ (W_g _ _ I) _ _ X1 X2) as E. inversion E; reflexivity.
  - intros c t id r Hn Hp. pose proof (W_thr _ _ I _ _ Hn) as T. unfold TInv in T.
    rewrite Hp in T. destruct T as [_ [T _]]. exact T.
Qed.

(* linearizability: the log (order of the write steps) is a sequential execution of [sem]
   that produces the record's final content and exactly the responses the threads received;
   it contains every thread that passed its write step exactly once; and it respects the
   real-time order: if a's response step precedes b's first step, a's section precedes b's. *)
Theorem linearizable_gen s0 prog sched :
  let w := wrun sem false (winit St Op Rs s0 prog) sched in
  sem_run sem s0 (map l_op (w_log w)) = (w_val w, map l_resp (w_log w)) /\
  NoDup (clients (w_log w)) /\
  (forall c, In c (clients (w_log w)) <->
             exists t, nth_error (w_thr w) c = Some t /\ past_write (t_pc t) = true) /\
  (forall c t rs, nth_error (w_thr w) c = Some t -> t_pc t = PDone rs ->
     exists e, In e (w_log w) /\ l_c e = c /\ Some (l_op e) = option_map fst (nth_error prog c) /\ l_resp e = rs) /\
  StronglySorted lt (times (w_log w)) /\
  (forall ea eb ta tb, In ea (w_log w) -> In eb (w_log w) ->
     nth_error (w_thr w) (l_c ea) = Some ta -> nth_error (w_thr w) (l_c eb) = Some tb ->
     is_done (t_pc ta) = true -> t_ret ta < t_inv tb -> l_time ea < l_time eb).
Proof.
  intros w. pose proof (winv_run s0 sched _ (winv_init s0 prog)) as I. fold w in I.
  assert (Hprog : progs w = prog).
  { unfold w. rewrite wrun_progs. apply progs_init. }
  split. { rewrite (chain_sem_run _ _ (W_chain _ _ I)). rewrite (W_last _ _ I). reflexivity. }
  split. { apply (W_nd _ _ I). }
  split.
  { intros c. split.
    - intros Hi. apply in_map_iff in Hi as [e [<- Hi]]. apply (W_logthr _ _ I); exact Hi.
    - intros [t [Hn Hp]]. pose proof (W_thr _ _ I _ _ Hn) as T. unfold TInv in T.
      destruct (t_pc t); try discriminate.
      + destruct T as [_ [e [Hi [E _]]]]. rewrite <- E. apply in_map; exact Hi.
      + destruct T as [_ [e [Hi [E _]]]]. rewrite <- E. apply in_map; exact Hi.
      + destruct T as [e [Hi [E _]]]. rewrite <- E. apply in_map; exact Hi. }
  split.
  { intros c t rs Hn Hp. pose proof (W_thr _ _ I _ _ Hn) as T. unfold TInv in T. rewrite Hp in T.
    destruct T as [e [Hi [E1 [E2 [E3 _]]]]]. exists e. repeat split; try assumption.
    rewrite <- Hprog. unfold progs. rewrite nth_error_map. rewrite Hn. simpl. rewrite E2. reflexivity. }
  split. { apply (W_sorted _ _ I). }
  intros ea eb ta tb Ha Hb Hta Htb Hd Hlt.
  pose proof (W_thr _ _ I _ _ Hta) as Ta. pose proof (W_thr _ _ I _ _ Htb) as Tb.
  unfold TInv in Ta, Tb.
  assert (A : l_time ea < t_ret ta).
  { destruct (t_pc ta); try discriminate. destruct Ta as [e [Hi [E [_ [_ [_ Hr]]]]]].
    assert (e = ea) by (eapply nodup_clients_inj; [apply (W_nd _ _ I)|exact Hi|exact Ha|exact E]).
    subst e. exact Hr. }
  assert (B : t_inv tb < l_time eb).
  { destruct (W_logthr _ _ I eb Hb) as [t0 [Hn0 Hp0]]. rewrite Htb in Hn0. inversion Hn0; subst t0.
    destruct (t_pc tb); try discriminate.
    - destruct Tb as [_ [e [Hi [E [_ [_ Hr]]]]]].
      assert (e = eb) by (eapply nodup_clients_inj; [apply (W_nd _ _ I)|exact Hi|exact Hb|exact E]).
      subst e. exact Hr.
    - destruct Tb as [_ [e [Hi [E [_ [_ Hr]]]]]].
      assert (e = eb) by (eapply nodup_clients_inj; [apply (W_nd _ _ I)|exact Hi|exact Hb|exact E]).
      subst e. exact Hr.
    - destruct Tb as [e [Hi [E [_ [_ [Hr _]]]]]].
      assert (e = eb) by (eapply nodup_clients_inj; [apply (W_nd _ _ I)|exact Hi|exact Hb|exact E]).
      subst e. exact Hr. }
  lia.
Qed.

(* when every thread has finished, the log contains every thread exactly once *)
Lemma all_done_perm s0 prog sched :
  let w := wrun sem false (winit St Op Rs s0 prog) sched in
  all_done w = true -> Permutation (clients (w_log w)) (seq 0 (length prog)).
Proof.
  intros w Hd. pose proof (winv_run s0 sched _ (winv_init s0 prog)) as I. fold w in I.
  assert (Hlen : length (w_thr w) = length prog).
  { assert (Hprog : progs w = prog) by (unfold w; rewrite wrun_progs; apply progs_init).
    rewrite <- Hprog. unfold progs. rewrite map_length. reflexivity. }
  apply NoDup_Permutation; [apply (W_nd _ _ I)|apply seq_NoDup|].
  intros c. rewrite in_seq. split.
  - intros Hi. apply in_map_iff in Hi as [e [<- Hi]].
    destruct (W_logthr _ _ I e Hi) as [t [Hn _]].
    assert (l_c e < length (w_thr w)) by (apply nth_error_Some; congruence). lia.
  - intros [_ Hlt]. simpl in Hlt. rewrite <- Hlen in Hlt.
    destruct (nth_error (w_thr w) c) as [t|] eqn:Hn; [|apply nth_error_None in Hn; lia].
    unfold all_done in Hd. rewrite forallb_forall in Hd.
    pose proof (Hd t (nth_error_In _ _ Hn)) as Hdt.
    pose proof (W_thr _ _ I _ _ Hn) as T. unfold TInv in T.
    destruct (t_pc t); try discriminate.
    destruct T as [e [Hi [E _]]]. rewrite <- E. apply in_map; exact Hi.
Qed.

(* each logged section carries the operation of the thread's program *)
Lemma log_ops s0 prog sched :
  let w := wrun sem false (winit St Op Rs s0 prog) sched in
  forall e, In e (w_log w) -> Some (l_op e) = option_map fst (nth_error prog (l_c e)).
Proof.
  intros w e Hi. pose proof (winv_run s0 sched _ (winv_init s0 prog)) as I. fold w in I.
  assert (Hprog : progs w = prog) by (unfold w; rewrite wrun_progs; apply progs_init).
  destruct (W_logthr _ _ I e Hi) as [t [Hn Hp]].
  pose proof (W_thr _ _ I _ _ Hn) as T. unfold TInv in T.
  assert (X : exists e', In e' (w_log w) /\ l_c e' = l_c e /\ l_op e' = t_op t).
  { destruct (t_pc t); try discriminate.
    - destruct T as [_ [e' [H1 [H2 [H3 _]]]]]; eauto.
    - destruct T as [_ [e' [H1 [H2 [H3 _]]]]]; eauto.
    - destruct T as [e' [H1 [H2 [H3 _]]]]; eauto. }
  destruct X as [e' [H1 [H2 H3]]].
  assert (e' = e) by (eapply nodup_clients_inj; [apply (W_nd _ _ I)|exact H1|exact Hi|exact H2]).
  subst e'. rewrite <- Hprog. unfold progs. rewrite nth_error_map. rewrite Hn. simpl. rewrite H3. reflexivity.
Qed.

End ProtocolProofs.

(* ---- instance: the RPC alphabet over one key ------------------------------------------- *)

Local Open Scope Z_scope.

Lemma wrap64_add a d : wrap64 (wrap64 a + d) = wrap64 (a + d).
Proof.
  unfold wrap64.
  set (M := 18446744073709551616). set (H := 9223372036854775808).
  assert (E: (a + H) mod M - H + d + H = (a + H) mod M + d).
  { generalize ((a + H) mod M). intro z. lia. }
  rewrite E. rewrite Zplus_mod_idemp_l. f_equal. f_equal. lia.
Qed.

Lemma wrap64_small v : -9223372036854775808 <= v < 9223372036854775808 -> wrap64 v = v.
Proof. intro H. unfold wrap64. rewrite Z.mod_small by lia. lia. Qed.

Definition inc_delta (o : op) : Z := match o with OInc d => d | _ => 0 end.
Definition is_inc (o : op) : bool := match o with OInc _ => true | _ => false end.
Definition zsum (l : list Z) : Z := fold_right Z.add 0 l.

Lemma zsum_perm l l' : Permutation l l' -> zsum l = zsum l'.
Proof. induction 1; simpl; lia. Qed.

Lemma inc_run ops : forall v, wrap64 v = v -> Forall (fun o => is_inc o = true) ops ->
  fst (sem_run seq_step (Some (VI v)) ops) = Some (VI (wrap64 (v + zsum (map inc_delta ops)))).
Proof.
  induction ops as [|o t IH]; intros v Hv Hf.
  - simpl. rewrite Z.add_0_r. rewrite Hv. reflexivity.
  - inversion Hf as [|? ? Ho Ht]; subst. destruct o; try discriminate.
    cbn [sem_run seq_step fst snd map inc_delta zsum fold_right].
    fold (zsum (map inc_delta t)).
    rewrite IH; [| |exact Ht].
    + rewrite wrap64_add. do 3 f_equal. lia.
    + pose proof (wrap64_add (v + d) 0) as E. rewrite !Z.add_0_r in E. exact E.
Qed.

Lemma map_nth_error_seq {A B} (g : option A -> B) (l : list A) :
  map (fun c => g (nth_error l c)) (seq 0 (length l)) = map (fun x => g (Some x)) l.
Proof.
  induction l as [|a t IH]; simpl; [reflexivity|]. f_equal.
  rewrite <- seq_shift, map_map. simpl. exact IH.
Qed.

(* No lost update: any number of concurrent increments on one record, each in either write
   mode, under every schedule: once all are acknowledged the record holds the initial value
   plus the sum of all deltas (in Go's int64 arithmetic), and every increment was applied
   exactly once. *)
Theorem no_lost_update v0 (dm : list (Z * bool)) sched :
  wrap64 v0 = v0 ->
  let prog := map (fun p => (OInc (fst p), snd p)) dm in
  let w := krun false (kinit (Some (VI v0)) prog) sched in
  all_done w = true ->
  w_val w = Some (VI (wrap64 (v0 + zsum (map fst dm)))) /\ length (w_log w) = length dm.
Proof.
  intros Hv prog w Hd.
  pose proof (linearizable_gen kst op resp seq_step (Some (VI v0)) prog sched) as L.
  pose proof (all_done_perm kst op resp seq_step (Some (VI v0)) prog sched Hd) as P.
  pose proof (log_ops kst op resp seq_step (Some (VI v0)) prog sched) as LO.
  fold kinit in L, P, LO. fold krun in L, P, LO. fold w in L, P, LO. simpl in L, LO.
  destruct L as [Hrun _].
  set (opn := fun c => match nth_error prog c with Some p => fst p | None => OGet end).
  assert (Hops : map l_op (w_log w) = map opn (clients kst op resp (w_log w))).
  { unfold clients. rewrite map_map. apply map_ext_in. intros e Hi.
    pose proof (LO e Hi) as E. unfold opn. destruct (nth_error prog (l_c e)); simpl in E; congruence. }
  assert (Hlen : length prog = length dm) by (unfold prog; apply map_length).
  split.
  - replace (w_val w) with (fst (sem_run seq_step (Some (VI v0)) (map l_op (w_log w)))) by (rewrite Hrun; reflexivity).
    rewrite inc_run; [|exact Hv|].
    + do 4 f_equal. rewrite Hops, map_map.
      rewrite (zsum_perm _ _ (Permutation_map (fun c => inc_delta (opn c)) P)).
      rewrite Hlen. unfold opn, prog.
      transitivity (zsum (map (fun c => match nth_error dm c with Some p => fst p | None => 0 end) (seq 0 (length dm)))).
      { f_equal. apply map_ext. intro c. rewrite nth_error_map. destruct (nth_error dm c); reflexivity. }
      rewrite (map_nth_error_seq (fun o => match o with Some p => fst p | None => 0 end) dm). reflexivity.
    + rewrite Hops. apply Forall_forall. intros o Ho. apply in_map_iff in Ho as [c [<- Hc]].
      apply (Permutation_in _ P) in Hc. apply in_seq in Hc. unfold opn, prog.
      rewrite nth_error_map. destruct (nth_error dm c) eqn:En; [reflexivity|].
      apply nth_error_None in En. lia.
  - pose proof (Permutation_length P) as PL. unfold clients in PL.
    rewrite map_length, seq_length in PL. rewrite PL. exact Hlen.
Qed.

(* in particular n acknowledged increments by one add n *)
Corollary n_increments_add_n (modes : list bool) sched :
  let prog := map (fun b => (OInc 1, b)) modes in
  let w := krun false (kinit (Some (VI 0)) prog) sched in
  all_done w = true ->
  w_val w = Some (VI (wrap64 (Z.of_nat (length modes)))).
Proof.
  intros prog w Hd.
  pose proof (no_lost_update 0 (map (fun b => (1, b)) modes) sched eq_refl) as H.
  rewrite map_map in H. simpl in H. fold prog in H. fold w in H.
  destruct (H Hd) as [Hval _]. rewrite Hval. do 3 f_equal.
  rewrite map_map. simpl. clear. induction modes as [|b t IH]; [reflexivity|].
  cbn [map zsum fold_right length]. fold (zsum (map (fun _ : bool => 1) t)). rewrite IH. lia.
Qed.

(* the instances of the generic theorems for the RPC alphabet *)
Definition guarded_section_atomic := guarded_section_atomic_gen kst op resp seq_step.
Definition linearizable := linearizable_gen kst op resp seq_step.

(* the pinned commit (guard ids restart when the queue empties): three acknowledged
   increments in immediate-write mode leave the counter at 2 *)
Theorem lost_update_with_id_reset :
  exists prog sched,
    Forall (fun p => fst p = OInc 1) prog /\
    let w := krun true (kinit (Some (VI 0)) prog) sched in
    all_done w = true /\ length prog = 3%nat /\ w_val w = Some (VI 2) /\
    map l_resp (w_log w) = [RInc 1; RInc 2; RInc 2].
Proof.
  exists lost_update_prog, lost_update_sched. split.
  - repeat constructor.
  - vm_compute. repeat split; reflexivity.
Qed.

(* the same programs and schedule with monotone ids: the third thread stays blocked behind
   the second, which then writes 2; letting everybody finish gives 3 *)
Example monotone_ids_ok :
  let w := krun false (kinit (Some (VI 0)) lost_update_prog) (lost_update_sched ++ [2;2;2;2;2;2]%nat) in
  all_done w = true /\ w_val w = Some (VI 3) /\ map l_resp (w_log w) = [RInc 1; RInc 2; RInc 3].
Proof. vm_compute. repeat split; reflexivity. Qed.

(* non-vacuity of the general theorems: mixed operations, both modes, an interleaved schedule
   in which everybody finishes; the log is a serial execution with the observed responses *)
Definition mixed_prog : list (op * bool) :=
  [(OSet (VI 5), true); (OInc 2, false); (OPatch true 1, true); (OInc (-3), true); (OGet, false)].
Definition mixed_sched : list nat :=
  [0;1;2;3;4; 0;1;2;0;0;3;0;0; 4;1;1;1;1;1; 2;2;2;2;2; 3;3;3;3;3;3; 4;4;4;4;4;4]%nat.
Example mixed_nonvacuous :
  let w := krun false (kinit None mixed_prog) mixed_sched in
  all_done w = true /\ w_val w = Some (VI 4) /\
  map l_c (w_log w) = [0;1;2;3;4]%nat /\
  map l_resp (w_log w) = [RSet true; RInc 7; RPatch 5; RInc 4; RGet (Some (VI 4))].
Proof. vm_compute. repeat split; reflexivity. Qed.

(* the oracle clause of the harness is a consequence of the sequential meaning: in every
   serial order a matching shift hands out only records that satisfy its filter, and a
   rejected conditional increment changes nothing *)
Lemma shiftm_returns_matching s thr s' v :
  seq_step s (OShiftM thr) = (s', RShiftM (Some v)) -> shiftm_match thr (Some v) = true /\ s = Some v /\ s' = None.
Proof.
  simpl. destruct (shiftm_match thr s) eqn:E; intro H; inversion H; subst. auto.
Qed.

Lemma incif_rejected_no_change s c cv d s' v :
  seq_step s (OIncIf c cv d) = (s', RIncNo v) -> s' = s.
Proof.
  simpl. destruct s as [[z|z|]|]; try (destruct (cond_holds c cv _)); intro H; inversion H; reflexivity.
Qed.

(* the protocol theorems cover the added operations as well (they are parametric in the
   read-modify-write function); a concrete schedule with conditional increments and a
   matching shift *)
Example mixed2_nonvacuous :
  let prog := [(OIncIf 0 5 1, true); (OSet (VI 70), false); (OShiftM 50, true); (OIncIf 1 10 2, false)] in
  let w := krun false (kinit None prog) [0;1;3;2; 0;0;0;0;0; 1;1;1;1;1; 3;3;3;3;3; 2;2;2;2;2]%nat in
  all_done w = true /\ w_val w = None /\
  map l_resp (w_log w) = [RIncNo 0; RSet true; RInc 72; RShiftM (Some (VI 72))].
Proof. vm_compute. repeat split; reflexivity. Qed.

(* the final-state clause of the harness: no operation of the alphabet stores a void record, so a
   serial execution that starts without one never ends with one *)
Lemma seq_step_not_void s o : s <> Some VV -> o <> OSet VV -> fst (seq_step s o) <> Some VV.
Proof.
  intros H Ho. destruct o as [v|d|c cv d|thr| | |cr d| ]; simpl.
  - destruct v; try discriminate. congruence.
  - destruct s as [[z|z|]|]; simpl; try discriminate; congruence.
  - destruct s as [[z|z|]|]; try (destruct (cond_holds c cv _)); simpl; try discriminate; congruence.
  - destruct (shiftm_match thr s); simpl; [discriminate|exact H].
  - discriminate.
  - discriminate.
  - destruct s as [[z|z|]|]; try destruct cr; simpl; try discriminate; congruence.
  - exact H.
Qed.

Lemma seq_run_not_void l : forall s, s <> Some VV -> Forall (fun o => o <> OSet VV) l ->
  fst (sem_run seq_step s l) <> Some VV.
Proof.
  induction l as [|o t IH]; simpl; intros s H Hf; [exact H|].
  inversion Hf; subst. apply IH; [apply seq_step_not_void; assumption|assumption].
Qed.
