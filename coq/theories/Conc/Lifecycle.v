(* Conc/Lifecycle.v — executable model of the swamp lifecycle around acknowledged writes
   (swamp.go: SaveFunction / DeleteTreasure auto-destroy / Destroy / startCloseListener / Close,
   gateway.go: Set / Delete, hydra.go: GracefulStop). Model only (no proofs).

   One swamp name; keys are numbers; the storage file is abstracted to the set of durable keys
   [disk] (C01 covers the file format). SummonSwamp is one atomic get-or-create step here: its
   exclusiveness is the subject of C18 (Conc/Summon.v). Any number of threads (tid -> pc), a
   schedule is a list of thread ids.

   [wi0] = the swamp is in immediate-write mode (write interval 0): SaveFunction writes through
   the chronicler at once, and - observed on the real code - this still reaches the file when
   the instance has already been closed. With a write interval > 0 a saved record waits in
   treasuresWaitingForWriter until a write tick or Close flushes it.

   [want] is a ghost: keys whose last ACKNOWLEDGED operation is a write. *)
From HV Require Import Base.Prelude.

Definition upd {A} (f : nat -> A) (k : nat) (v : A) : nat -> A :=
  fun x => if Nat.eqb x k then v else f x.

Fixpoint mem_nat (x : nat) (l : list nat) : bool :=
  match l with [] => false | y :: t => Nat.eqb x y || mem_nat x t end.
Definition add_key (k : nat) (l : list nat) : list nat := if mem_nat k l then l else k :: l.
Definition del_key (k : nat) (l : list nat) : list nat := filter (fun x => negb (Nat.eqb x k)) l.

(* pending write-buffer entries: (true, k) = write k, (false, k) = delete k; oldest first *)
Fixpoint flush (disk : list nat) (pend : list (bool * nat)) : list nat :=
  match pend with
  | [] => disk
  | (true, k) :: r => flush (add_key k disk) r
  | (false, k) :: r => flush (del_key k disk) r
  end.

Record inst := {
  closing : bool; cancelled : bool; vig : Z; last : nat;
  mem : list nat; pend : list (bool * nat)
}.
Definition no_inst : inst :=
  {| closing := false; cancelled := false; vig := 0; last := 0; mem := []; pend := [] |}.

Inductive prog := PIdle0 | PWrite (k : nat) | PDelete (k : nat) | PIdleTick (i : nat) | PTick | PStop.

Inductive pc :=
| Idle
| WSummon (k : nat) | WVigil (k i : nat) | WSave (k i : nat) | WAck (k i : nat) | WCease (i : nat)
| DSummon (k : nat) | DVigil (k i : nat) | DDel (k i : nat) | DAuto (i : nat)
| XMark (i : nat) | XDrain (i : nat) | DCease (i : nat)
| IRead (i : nat) | ICheck (i l : nat) | IFlush (i : nat) | ICb (i : nat)
| TTick | SStop
| Done.

Definition start (p : prog) : pc :=
  match p with
  | PIdle0 => Idle | PWrite k => WSummon k | PDelete k => DSummon k
  | PIdleTick i => IRead i | PTick => TTick | PStop => SStop
  end.

Record st := {
  pcs : nat -> pc; insts : nat -> inst; ninst : nat; mapi : option nat;
  disk : list nat; now : nat; stopping : bool; want : list nat
}.

Definition init (progs : nat -> prog) : st :=
  {| pcs := fun t => start (progs t); insts := fun _ => no_inst; ninst := 0; mapi := None;
     disk := []; now := 0; stopping := false; want := [] |}.

Definition set_pc s t p := {| pcs := upd (pcs s) t p; insts := insts s; ninst := ninst s; mapi := mapi s;
  disk := disk s; now := now s; stopping := stopping s; want := want s |}.
Definition set_inst s i x := {| pcs := pcs s; insts := upd (insts s) i x; ninst := ninst s; mapi := mapi s;
  disk := disk s; now := now s; stopping := stopping s; want := want s |}.
Definition set_map s m := {| pcs := pcs s; insts := insts s; ninst := ninst s; mapi := m;
  disk := disk s; now := now s; stopping := stopping s; want := want s |}.
Definition set_disk s d := {| pcs := pcs s; insts := insts s; ninst := ninst s; mapi := mapi s;
  disk := d; now := now s; stopping := stopping s; want := want s |}.
Definition set_want s w := {| pcs := pcs s; insts := insts s; ninst := ninst s; mapi := mapi s;
  disk := disk s; now := now s; stopping := stopping s; want := w |}.

Definition with_i (x : inst) cl ca v la m p : inst :=
  {| closing := cl; cancelled := ca; vig := v; last := la; mem := m; pend := p |}.

(* get-or-create; returns the state and the instance, None = the caller has to wait/fails *)
Definition summon (s : st) : option (st * nat) :=
  if stopping s then None else
  match mapi s with
  | Some i =>
      let x := insts s i in
      let s1 := set_inst s i (with_i x (closing x) (cancelled x) (vig x) (now s) (mem x) (pend x)) in
      if closing x then None else Some (s1, i)
  | None =>
      let i := ninst s in
      let x := with_i no_inst false false 0 (now s) (disk s) [] in
      let s1 := {| pcs := pcs s; insts := upd (insts s) i x; ninst := S i; mapi := Some i;
                   disk := disk s; now := now s; stopping := stopping s; want := want s |} in
      Some (s1, i)
  end.

Definition close_flush (s : st) (i : nat) : st :=
  let x := insts s i in
  set_inst (set_disk s (flush (disk s) (pend x))) i
           (with_i x true true (vig x) (last x) (mem x) []).

Definition tstep (wi0 : bool) (idle : nat) (s : st) (t : nat) : option st :=
  match pcs s t with
  | Idle | Done => None
  | WSummon k => match summon s with Some (s1, i) => Some (set_pc s1 t (WVigil k i)) | None => None end
  | WVigil k i =>
      let x := insts s i in
      Some (set_pc (set_inst s i (with_i x (closing x) (cancelled x) (vig x + 1)%Z (last x) (mem x) (pend x))) t (WSave k i))
  | WSave k i =>
      let x := insts s i in
      let x' := with_i x (closing x) (cancelled x) (vig x) (now s) (add_key k (mem x))
                       (if wi0 then pend x else pend x ++ [(true, k)]) in
      let s1 := set_inst s i x' in
      Some (set_pc (if wi0 then set_disk s1 (add_key k (disk s)) else s1) t (WAck k i))
  | WAck k i => Some (set_pc (set_want s (add_key k (want s))) t (WCease i))
  | WCease i =>
      let x := insts s i in
      Some (set_pc (set_inst s i (with_i x (closing x) (cancelled x) (vig x - 1)%Z (last x) (mem x) (pend x))) t Done)
  | DSummon k => match summon s with Some (s1, i) => Some (set_pc s1 t (DVigil k i)) | None => None end
  | DVigil k i =>
      let x := insts s i in
      Some (set_pc (set_inst s i (with_i x (closing x) (cancelled x) (vig x + 1)%Z (last x) (mem x) (pend x))) t (DDel k i))
  | DDel k i =>
      let x := insts s i in
      if mem_nat k (mem x) then
        let m' := del_key k (mem x) in
        let x' := with_i x (closing x) (cancelled x) (vig x) (now s) m'
                         (if wi0 then pend x else pend x ++ [(false, k)]) in
        let s1 := set_want (set_inst s i x') (del_key k (want s)) in
        let s2 := if wi0 then set_disk s1 (del_key k (disk s)) else s1 in
        Some (set_pc s2 t (match m' with [] => DAuto i | _ => DCease i end))
      else Some (set_pc s t (DCease i))
  | DAuto i =>                                 (* Count() == 0 decided; CeaseVigil; Destroy *)
      let x := insts s i in
      Some (set_pc (set_inst s i (with_i x (closing x) (cancelled x) (vig x - 1)%Z (last x) (mem x) (pend x))) t (XMark i))
  | XMark i =>
      let x := insts s i in
      Some (set_pc (set_inst s i (with_i x true (cancelled x) (vig x) (last x) (mem x) (pend x))) t (XDrain i))
  | XDrain i =>                                (* vigil drain, then the file is removed *)
      let x := insts s i in
      if Z.ltb 0 (vig x) then None
      else Some (set_pc (set_map (set_disk (set_inst s i (with_i x true true (vig x) (last x) (mem x) [])) []) None) t (DCease i))
  | DCease i =>
      let x := insts s i in
      Some (set_pc (set_inst s i (with_i x (closing x) (cancelled x) (vig x - 1)%Z (last x) (mem x) (pend x))) t Done)
  | IRead i => if Nat.ltb i (ninst s) then Some (set_pc s t (ICheck i (last (insts s i)))) else None
  | ICheck i l =>                              (* closeWriteMutex; checks with the value read before *)
      let x := insts s i in
      if negb (closing x) && Z.leb (vig x) 0 && Nat.ltb (l + idle) (now s)
      then Some (set_pc (set_inst s i (with_i x true (cancelled x) (vig x) (last x) (mem x) (pend x))) t (IFlush i))
      else Some (set_pc s t Done)
  | IFlush i => Some (set_pc (close_flush s i) t (ICb i))
  | ICb i => Some (set_pc (set_map s None) t Done)
  | TTick => Some (set_pc {| pcs := pcs s; insts := insts s; ninst := ninst s; mapi := mapi s; disk := disk s;
                            now := S (now s); stopping := stopping s; want := want s |} t Done)
  | SStop =>                                   (* MarkShuttingDown; Close of the instance in the map *)
      let s0 := {| pcs := pcs s; insts := insts s; ninst := ninst s; mapi := mapi s; disk := disk s;
                   now := now s; stopping := true; want := want s |} in
      match mapi s with
      | Some i => if closing (insts s i) then Some (set_pc s0 t Done)
                  else Some (set_pc (set_map (close_flush s0 i) None) t Done)
      | None => Some (set_pc s0 t Done)
      end
  end.

Fixpoint run (wi0 : bool) (idle : nat) (s : st) (sched : list nat) : st :=
  match sched with
  | [] => s
  | t :: r => match tstep wi0 idle s t with Some s' => run wi0 idle s' r | None => run wi0 idle s r end
  end.

(* the property on a final state (after a graceful stop and a fresh engine: reloaded = disk) *)
Definition survives (s : st) : bool := forallb (fun k => mem_nat k (disk s)) (want s).

(* witness (i): thread 0 writes k0; thread 1 deletes k0 (last record), decides to auto-destroy and
   is preempted; thread 2 writes k1 completely (acknowledged); thread 1 destroys; 3 = stop *)
Definition w_i_progs : list prog := [PWrite 0; PDelete 0; PWrite 1; PStop].
Definition w_i : list nat := [0;0;0;0;0; 1;1;1; 2;2;2;2;2; 1;1;1;1; 3].
(* witness (ii): thread 0 writes k0; time passes; idle tick (thread 1) reads lastInteraction;
   thread 2 summons (refresh); the tick passes its checks and closes; thread 2 saves and is
   acknowledged; 6 = stop; 3,4,5 = clock ticks *)
Definition w_ii_progs : list prog := [PWrite 0; PIdleTick 0; PWrite 1; PTick; PTick; PTick; PStop].
Definition w_ii : list nat := [0;0;0;0;0; 3;4;5; 1; 2; 1;1;1; 2;2;2;2; 6].

Definition progs_of (l : list prog) : nat -> prog := fun t => nth t l PIdle0.

(* ---- correspondence ---- *)
(* a case: the acknowledged operations in acknowledgement order ((true,k) write / (false,k) remove),
   the key set found after GracefulStop + fresh engine, the race the harness forced/observed
   (0 none, 1 auto-destroy decision overlapping an insert, 2 idle close between summon and vigil),
   and what the model predicts for the reloaded set (None = no prediction for this case) *)
Definition rawcase := (list (N * N) * list N * N * N)%type.
Definition Cc (acks : list (N * N)) (reloaded : list N) (race : N) (model : N) : rawcase :=
  (acks, reloaded, race, model).
Definition Pa (w k : N) : N * N := (w, k).

Fixpoint lww (acks : list (N * N)) (acc : list nat) : list nat :=
  match acks with
  | [] => acc
  | (w, k) :: r => lww r (if N.eqb w 1 then add_key (N.to_nat k) acc else del_key (N.to_nat k) acc)
  end.

Definition set_eqb (a b : list nat) : bool :=
  forallb (fun x => mem_nat x b) a && forallb (fun x => mem_nat x a) b.

(* model prediction selector: 1 = witness (i) with wi0, 2 = (i) interval, 3 = (ii) wi0, 4 = (ii) interval *)
Definition predicted (m : N) : option (list nat) :=
  match m with
  | 1 => Some (disk (run true 1 (init (progs_of w_i_progs)) w_i))
  | 2 => Some (disk (run false 1 (init (progs_of w_i_progs)) w_i))
  | 3 => Some (disk (run true 1 (init (progs_of w_ii_progs)) w_ii))
  | 4 => Some (disk (run false 1 (init (progs_of w_ii_progs)) w_ii))
  | _ => None
  end%N.

(* verdict codes: 0 ok; 1 model prediction differs from the reloaded set; 2 acknowledged write
   lost, no forced race; 3 lost under the auto-destroy race; 4 lost under the idle-close race *)
Definition check_case (c : rawcase) : N :=
  let '(acks, reloaded, race, m) := c in
  let got := map N.to_nat reloaded in
  let wanted := lww acks [] in
  if forallb (fun k => mem_nat k got) wanted then
    match predicted m with
    | Some p => if set_eqb p got then 0%N else 1%N
    | None => 0%N
    end
  else match race with 1 => 3 | 2 => 4 | _ => 2 end%N.

Definition check_all (cases : list rawcase) : list verdict := check_cases check_case cases.
