(* Conc/LifecycleCheck.v — case checker of the C16 correspondence harness (no proofs).
   A case is one swamp: the acknowledged operations with their values, what a fresh engine
   reloaded after GracefulStop, and optionally (a) the selector of a Conc/Lifecycle.v witness
   whose reloaded key set the model predicts, (b) the thread programs and the observed
   flush-window trace of a forced run, which Conc/Buffer.v has to accept and whose final file
   content (after all batches and the close-write) it predicts. *)
From HV Require Import Base.Prelude Conc.Lifecycle.
From HV Require Conc.Buffer.
Local Open Scope N_scope.

Definition Pa (w k v : N) : N * N * N := (w, k, v).          (* w = 1 write, 0 remove *)
Definition Pr (k v : N) : N * N := (k, v).
Definition Pb (kind k v th : N) : N * N * N * N := (kind, k, v, th).
Definition rawcase :=
  (list (N * N * N) * list (N * N) * N * N * list (N * N * N * N) * list Buffer.rawobs)%type.
Definition Cc acks reloaded (race model : N) bprogs btrace : rawcase :=
  (acks, reloaded, race, model, bprogs, btrace).

Fixpoint assoc_set (k v : N) (l : list (N * N)) : list (N * N) :=
  match l with
  | [] => [(k, v)]
  | (k', v') :: r => if N.eqb k k' then (k, v) :: r else (k', v') :: assoc_set k v r
  end.
Definition assoc_del (k : N) (l : list (N * N)) : list (N * N) :=
  filter (fun p => negb (N.eqb (fst p) k)) l.
Fixpoint assoc_get (k : N) (l : list (N * N)) : option N :=
  match l with
  | [] => None
  | (k', v) :: r => if N.eqb k k' then Some v else assoc_get k r
  end.

(* last acknowledged operation per key *)
Fixpoint lwwv (acks : list (N * N * N)) (acc : list (N * N)) : list (N * N) :=
  match acks with
  | [] => acc
  | (w, k, v) :: r => lwwv r (if N.eqb w 1 then assoc_set k v acc else assoc_del k acc)
  end.

(* 0 ok, 2 an acknowledged write is missing, 5 an older value of the key is back *)
Fixpoint oracle (wanted reloaded : list (N * N)) : N :=
  match wanted with
  | [] => 0
  | (k, v) :: r =>
      match assoc_get k reloaded with
      | None => 2
      | Some v' => if N.eqb v v' then oracle r reloaded else 5
      end
  end.

Definition dec_prog (p : N * N * N * N) : Buffer.prog :=
  let '(kind, k, v, th) := p in
  match kind with
  | 1 => Buffer.PSave (N.to_nat k) (N.to_nat v) (N.eqb th 1)
  | 2 => Buffer.PDelete (N.to_nat k)
  | 3 => Buffer.PFlush
  | _ => Buffer.PNone
  end.

(* the forced run through the model, then every thread and a final close-write to completion *)
Definition buffer_final (bprogs : list (N * N * N * N)) (tr : list Buffer.rawobs) : option Buffer.st :=
  let progs := map dec_prog bprogs ++ [Buffer.PFlush] in
  let s0 := Buffer.init (Buffer.progs_of progs) in
  match Buffer.accept s0 tr with
  | Some s1 =>
      let others := seq 0 (length bprogs) in
      let s2 := Buffer.drain 40 s1 others in
      Some (Buffer.drain 40 s2 [length bprogs])
  | None => None
  end.

(* the reloaded content is the model's file content on every key that has a record at the end *)
Definition live_match (s : Buffer.st) (reloaded : list (N * N)) : bool :=
  forallb (fun k => match Buffer.memval s k with
                    | Some _ => option_eqb N.eqb (option_map N.of_nat (Buffer.disk s k)) (assoc_get (N.of_nat k) reloaded)
                    | None => true
                    end) (seq 0 16).

(* verdict codes: 0 ok; 1 model and implementation differ (witness prediction, trace not
   accepted, or final content); 2 acknowledged write missing; 3 missing under the forced
   auto-destroy race; 4 missing under the forced idle-close race; 5 an acknowledged update was
   replaced by an older value of the key; 6 lost (missing or older value) in a forced schedule
   that deletes and re-creates a key inside a flush window (race = 3), provided the model
   predicts exactly the reloaded content *)
Definition check_case (c : rawcase) : N :=
  let '(acks, reloaded, race, m, bprogs, btrace) := c in
  let wit := match predicted m with
             | Some p => set_eqb p (map (fun kv => N.to_nat (fst kv)) reloaded)
             | None => true end in
  let buf := match bprogs with
             | [] => true
             | _ => match buffer_final bprogs btrace with
                    | Some s => live_match s reloaded
                    | None => false end
             end in
  match oracle (lwwv acks []) reloaded with
  | 0 => if wit && buf then 0 else 1
  | v =>
      match race with
      | 1 => if N.eqb v 2 then 3 else v
      | 2 => if N.eqb v 2 then 4 else v
      | 3 => match bprogs with [] => v | _ => if buf then 6 else v end
      | _ => v
      end
  end.

Definition check_all (cases : list rawcase) : list verdict := check_cases check_case cases.
