(* Conc/Summon.v — executable model of hydra.go:SummonSwamp (summon wait-slot protocol, swamp map
   insert) together with the close/destroy completions of swamp.go that remove the map entry.
   Model only (no proofs) so that it still runs when a proof breaks.

   One swamp name is modelled: wait-slots, the instance map and instances of different names
   share nothing (summoningSwamps and swamps are keyed by the name).

   Threads: any number (thread table is a total function tid -> pc); every thread runs one
   program (summon / Close(i) / Destroy(i) / cancel the context of a summoner). A schedule is a
   list of thread ids; [tstep] is the deterministic step of one thread and also returns the label
   of the step (the values the harness can observe at the corresponding hook point).

   Granularity (DESIGN M6): every sync.Map operation, every atomic load/store and every region
   protected by the slot mutex up to the next blocking call is one step; cond.Wait is split in
   "register and unlock" (end of a step) and "woken: relock and re-check" (a step that is
   enabled only after a Broadcast newer than the registration: generation counter [gen]).

   [fixed] selects the slot accounting:
     fixed = true  : the code after the fix: commit for C18 (count incremented on entry under
                     the slot lock; the last owner marks the slot dead and deletes it under the
                     lock; a summoner that finds a dead slot retries LoadOrStore)
     fixed = false : the code at the pinned commit (count incremented only before cond.Wait,
                     decremented on every exit after the unlock, slot deleted when it reads 0).
   The faithful model of the current tree is [fixed = true]; the other value is kept so that
   the refutation of the property for the old accounting stays machine-checked.

   Fields marked (ghost) are history variables: they are written but never read by [tstep]. *)
From HV Require Import Base.Prelude.

Definition upd {A} (f : nat -> A) (k : nat) (v : A) : nat -> A :=
  fun x => if Nat.eqb x k then v else f x.

Inductive prog :=
| PIdle
| PSummon
| PClose (i : nat)       (* swamp.Close() on instance i (idle listener, graceful stop) *)
| PDestroy (i : nat)     (* swamp.Destroy() on instance i (request holding a reference) *)
| PCancel (t : nat).     (* the context of summoner t is cancelled / its 30 s close-wait expires *)

Inductive pc :=
| Idle
| SLoad                                   (* before summoningSwamps.LoadOrStore *)
| SLock (w : nat)                         (* slot w loaded, before cond.L.Lock *)
| SWait (w g : nat)                       (* asleep in cond.Wait, registered at generation g *)
| SBody (w : nat)                         (* owns the section, top of the body loop *)
| SFound (w i : nat)                      (* getSwamp returned i, before IsClosing *)
| SWaitClose (w i : nat)                  (* in WaitForGracefulClose(i) *)
| SCreate (w : nat)                       (* getSwamp returned nil, before createNewSwamp *)
| SStore (w i : nat)                      (* instance i constructed, before swamps.Store *)
| SExit (w : nat) (r : option nat)        (* deferred exit, before cond.L.Lock *)
| OExit2 (w : nat) (r : option nat)       (* old accounting only: before count-- *)
| OExit3 (w : nat) (r : option nat)       (* old accounting only: before the load of count *)
| OExit4 (w : nat) (r : option nat)       (* old accounting only: before the map delete *)
| SDone (r : option nat)                  (* SummonSwamp returned r (None = error) *)
| CGate (i : nat) | CFinish (i : nat) | CCallback (i : nat)
| DMark (i : nat) | DGate (i : nat) | DFinish (i : nat) | DCallback (i : nat)
| KCancel (t : nat)
| Done.

Definition start (p : prog) : pc :=
  match p with
  | PIdle => Idle | PSummon => SLoad | PClose i => CGate i | PDestroy i => DMark i
  | PCancel t => KCancel t
  end.

Record slot := {
  ready : bool;
  count : Z;
  dead : bool;
  gen : nat;                 (* number of Broadcasts so far *)
  holder : option nat;       (* ghost: the thread that set ready *)
  owners : list nat          (* ghost: threads that incremented count and did not leave yet *)
}.
Definition fresh_slot : slot :=
  {| ready := false; count := 0; dead := false; gen := 0; holder := None; owners := [] |}.

Record inst := {
  closing : bool;
  cstarted : bool;           (* ghost: a Close() passed its gate *)
  destroyed : bool;
  cancelled : bool;          (* goRoutineContext cancelled: writer closed / file removed *)
  stored : bool;             (* ghost: swamps.Store was executed for it *)
  tearer : option nat;       (* ghost: the thread that passed a Close/Destroy gate *)
  cbdone : bool              (* ghost: that thread ran the close callback *)
}.
Definition fresh_inst : inst :=
  {| closing := false; cstarted := false; destroyed := false; cancelled := false;
     stored := false; tearer := None; cbdone := false |}.

Record st := {
  pcs : nat -> pc;
  slots : nat -> slot; nslots : nat;
  cur : option nat;          (* summoningSwamps[name] *)
  insts : nat -> inst; ninst : nat;
  mapi : option nat;         (* swamps[name] *)
  abort : nat -> bool
}.

Definition init (progs : nat -> prog) : st :=
  {| pcs := fun t => start (progs t); slots := fun _ => fresh_slot; nslots := 0; cur := None;
     insts := fun _ => fresh_inst; ninst := 0; mapi := None; abort := fun _ => false |}.

Definition set_pc (s : st) (t : nat) (p : pc) : st :=
  {| pcs := upd (pcs s) t p; slots := slots s; nslots := nslots s; cur := cur s;
     insts := insts s; ninst := ninst s; mapi := mapi s; abort := abort s |}.
Definition set_slot (s : st) (w : nat) (x : slot) : st :=
  {| pcs := pcs s; slots := upd (slots s) w x; nslots := nslots s; cur := cur s;
     insts := insts s; ninst := ninst s; mapi := mapi s; abort := abort s |}.
Definition set_cur (s : st) (c : option nat) : st :=
  {| pcs := pcs s; slots := slots s; nslots := nslots s; cur := c;
     insts := insts s; ninst := ninst s; mapi := mapi s; abort := abort s |}.
Definition alloc_slot (s : st) : st :=
  {| pcs := pcs s; slots := slots s; nslots := S (nslots s); cur := Some (nslots s);
     insts := insts s; ninst := ninst s; mapi := mapi s; abort := abort s |}.
Definition set_inst (s : st) (i : nat) (x : inst) : st :=
  {| pcs := pcs s; slots := slots s; nslots := nslots s; cur := cur s;
     insts := upd (insts s) i x; ninst := ninst s; mapi := mapi s; abort := abort s |}.
Definition alloc_inst (s : st) : st :=
  {| pcs := pcs s; slots := slots s; nslots := nslots s; cur := cur s;
     insts := insts s; ninst := S (ninst s); mapi := mapi s; abort := abort s |}.
Definition set_map (s : st) (m : option nat) : st :=
  {| pcs := pcs s; slots := slots s; nslots := nslots s; cur := cur s;
     insts := insts s; ninst := ninst s; mapi := m; abort := abort s |}.
Definition set_abort (s : st) (t : nat) : st :=
  {| pcs := pcs s; slots := slots s; nslots := nslots s; cur := cur s;
     insts := insts s; ninst := ninst s; mapi := mapi s; abort := upd (abort s) t true |}.

Definition rm (t : nat) (l : list nat) : list nat := remove Nat.eq_dec t l.

(* labels: what a step shows at its hook point *)
Inductive label :=
| LLoaded (w : nat) | LRetry (w : nat) | LWait (w : nat) | LEntered (w : nat)
| LCtxLeave (w : nat)
| LFound (i : nat) | LNil | LCtxDone | LWaitClose (i : nat) | LReturn (i : nat)
| LClosed (i : nat) | LTimeout (i : nat) | LNew (i : nat) | LStored (i : nat)
| LLeave (w : nat) (c : Z)
| LUnready (w : nat) | LDec (w : nat) (c : Z) | LZero (w : nat) | LNonZero (w : nat) | LDeleted (w : nat)
| LCloseBegin (i : nat) | LCloseSkip (i : nat) | LCancelled (i : nat) | LCallback (i : nat)
| LDMarked (i : nat) | LDBegin (i : nat) | LDSkip (i : nat)
| LCancel (t : nat)
| LCbStart (i : nat).    (* harness-only marker: a close callback is about to run (no model step) *)

(* fixed accounting: the caller leaves slot w (count--; last owner kills and deletes the slot;
   Broadcast), all under the slot lock *)
Definition leave_fixed (s : st) (t w : nat) (release : bool) : st :=
  let sl := slots s w in
  let c := (count sl - 1)%Z in
  let last := Z.eqb c 0 in
  let sl' := {| ready := if release then false else ready sl;
                count := c; dead := if last then true else dead sl; gen := S (gen sl);
                holder := if release then None else holder sl; owners := rm t (owners sl) |} in
  let s1 := set_slot s w sl' in
  if last then set_cur s1 None else s1.

Definition bcast (sl : slot) : slot :=
  {| ready := ready sl; count := count sl; dead := dead sl; gen := S (gen sl);
     holder := holder sl; owners := owners sl |}.
Definition add_count (sl : slot) (t : nat) : slot :=
  {| ready := ready sl; count := (count sl + 1)%Z; dead := dead sl; gen := gen sl;
     holder := holder sl; owners := t :: owners sl |}.
Definition take (sl : slot) (t : nat) : slot :=
  {| ready := true; count := count sl; dead := dead sl; gen := gen sl;
     holder := Some t; owners := owners sl |}.

Definition tstep (fixed : bool) (s : st) (t : nat) : option (st * label) :=
  match pcs s t with
  | Idle | SDone _ | Done => None
  | SLoad =>
      match cur s with
      | Some w => Some (set_pc s t (SLock w), LLoaded w)
      | None => let w := nslots s in Some (set_pc (alloc_slot s) t (SLock w), LLoaded w)
      end
  | SLock w =>
      let sl := slots s w in
      if fixed then
        if dead sl then Some (set_pc s t SLoad, LRetry w)
        else
          let sl1 := add_count sl t in
          if ready sl then
            if abort s t then
              Some (set_pc (leave_fixed (set_slot s w sl1) t w false) t (SDone None), LCtxLeave w)
            else Some (set_pc (set_slot s w sl1) t (SWait w (gen sl)), LWait w)
          else Some (set_pc (set_slot s w (take sl1 t)) t (SBody w), LEntered w)
      else
        if ready sl then
          if abort s t then Some (set_pc (set_slot s w (bcast sl)) t (SDone None), LCtxLeave w)
          else Some (set_pc (set_slot s w (add_count sl t)) t (SWait w (gen sl)), LWait w)
        else Some (set_pc (set_slot s w (take sl t)) t (SBody w), LEntered w)
  | SWait w g =>
      let sl := slots s w in
      if Nat.eqb (gen sl) g then None
      else if ready sl then
        if abort s t then
          if fixed then Some (set_pc (leave_fixed s t w false) t (SDone None), LCtxLeave w)
          else Some (set_pc (set_slot s w (bcast sl)) t (SDone None), LCtxLeave w)
        else
          if fixed then Some (set_pc s t (SWait w (gen sl)), LWait w)
          else Some (set_pc (set_slot s w (add_count sl t)) t (SWait w (gen sl)), LWait w)
      else Some (set_pc (set_slot s w (take sl t)) t (SBody w), LEntered w)
  | SBody w =>
      if abort s t then Some (set_pc s t (SExit w None), LCtxDone)
      else match mapi s with
           | Some i => Some (set_pc s t (SFound w i), LFound i)
           | None => Some (set_pc s t (SCreate w), LNil)
           end
  | SFound w i =>
      if closing (insts s i) then Some (set_pc s t (SWaitClose w i), LWaitClose i)
      else Some (set_pc s t (SExit w (Some i)), LReturn i)
  | SWaitClose w i =>
      if cancelled (insts s i) then Some (set_pc s t (SBody w), LClosed i)
      else if abort s t then Some (set_pc s t (SExit w None), LTimeout i)
      else None
  | SCreate w =>
      let i := ninst s in Some (set_pc (alloc_inst s) t (SStore w i), LNew i)
  | SStore w i =>
      let x := insts s i in
      let x' := {| closing := closing x; cstarted := cstarted x; destroyed := destroyed x;
                   cancelled := cancelled x; stored := true; tearer := tearer x; cbdone := cbdone x |} in
      Some (set_pc (set_map (set_inst s i x') (Some i)) t (SExit w (Some i)), LStored i)
  | SExit w r =>
      if fixed then
        Some (set_pc (leave_fixed s t w true) t (SDone r), LLeave w (count (slots s w) - 1)%Z)
      else
        let sl := slots s w in
        let sl' := {| ready := false; count := count sl; dead := dead sl; gen := S (gen sl);
                      holder := None; owners := owners sl |} in
        Some (set_pc (set_slot s w sl') t (OExit2 w r), LUnready w)
  | OExit2 w r =>
      if fixed then None
      else
        let sl := slots s w in
        let sl' := {| ready := ready sl; count := (count sl - 1)%Z; dead := dead sl; gen := gen sl;
                      holder := holder sl; owners := rm t (owners sl) |} in
        Some (set_pc (set_slot s w sl') t (OExit3 w r), LDec w (count sl - 1)%Z)
  | OExit3 w r =>
      if fixed then None
      else if Z.eqb (count (slots s w)) 0 then Some (set_pc s t (OExit4 w r), LZero w)
           else Some (set_pc s t (SDone r), LNonZero w)
  | OExit4 w r =>
      if fixed then None else Some (set_pc (set_cur s None) t (SDone r), LDeleted w)
  | CGate i =>
      if Nat.ltb i (ninst s) then
        let x := insts s i in
        if closing x then Some (set_pc s t Done, LCloseSkip i)
        else
          let x' := {| closing := true; cstarted := true; destroyed := destroyed x;
                       cancelled := cancelled x; stored := stored x; tearer := Some t; cbdone := false |} in
          Some (set_pc (set_inst s i x') t (CFinish i), LCloseBegin i)
      else None
  | CFinish i =>
      let x := insts s i in
      let x' := {| closing := closing x; cstarted := cstarted x; destroyed := destroyed x;
                   cancelled := true; stored := stored x; tearer := tearer x; cbdone := cbdone x |} in
      Some (set_pc (set_inst s i x') t (CCallback i), LCancelled i)
  | CCallback i =>
      let x := insts s i in
      let x' := {| closing := closing x; cstarted := cstarted x; destroyed := destroyed x;
                   cancelled := cancelled x; stored := stored x; tearer := tearer x; cbdone := true |} in
      Some (set_pc (set_map (set_inst s i x') None) t Done, LCallback i)
  | DMark i =>
      if Nat.ltb i (ninst s) then
        let x := insts s i in
        let x' := {| closing := true; cstarted := cstarted x; destroyed := destroyed x;
                     cancelled := cancelled x; stored := stored x; tearer := tearer x; cbdone := cbdone x |} in
        Some (set_pc (set_inst s i x') t (DGate i), LDMarked i)
      else None
  | DGate i =>
      let x := insts s i in
      if destroyed x then Some (set_pc s t Done, LDSkip i)
      else
        let x' := {| closing := closing x; cstarted := cstarted x; destroyed := true;
                     cancelled := cancelled x; stored := stored x; tearer := Some t; cbdone := false |} in
        Some (set_pc (set_inst s i x') t (DFinish i), LDBegin i)
  | DFinish i =>
      let x := insts s i in
      let x' := {| closing := closing x; cstarted := cstarted x; destroyed := destroyed x;
                   cancelled := true; stored := stored x; tearer := tearer x; cbdone := cbdone x |} in
      Some (set_pc (set_inst s i x') t (DCallback i), LCancelled i)
  | DCallback i =>
      let x := insts s i in
      let x' := {| closing := closing x; cstarted := cstarted x; destroyed := destroyed x;
                   cancelled := cancelled x; stored := stored x; tearer := tearer x; cbdone := true |} in
      Some (set_pc (set_map (set_inst s i x') None) t Done, LCallback i)
  | KCancel t' => Some (set_pc (set_abort s t') t Done, LCancel t')
  end.

(* a schedule: the thread ids in the order in which they take a step; a thread that is not
   enabled (asleep, finished) is skipped *)
Fixpoint run (fixed : bool) (s : st) (sched : list nat) : st :=
  match sched with
  | [] => s
  | t :: r => match tstep fixed s t with
              | Some (s', _) => run fixed s' r
              | None => run fixed s r
              end
  end.

(* "late destroy": the teardown part of Destroy() starts on an instance on which a Close()
   already passed its gate (the Destroy idempotency guard only knows about other Destroys) *)
Definition late_destroy (s : st) (t : nat) : bool :=
  match pcs s t with
  | DGate i => cstarted (insts s i) && negb (destroyed (insts s i))
  | _ => false
  end.

Fixpoint no_late_destroy (fixed : bool) (s : st) (sched : list nat) : bool :=
  match sched with
  | [] => true
  | t :: r => negb (late_destroy s t) &&
              match tstep fixed s t with
              | Some (s', _) => no_late_destroy fixed s' r
              | None => no_late_destroy fixed s r
              end
  end.

(* ---- the property on a state -------------------------------------------------------------- *)

Definition live (s : st) (i : nat) : Prop := i < ninst s /\ cancelled (insts s i) = false.

Fixpoint count_live (s : st) (n : nat) : nat :=
  match n with
  | O => 0
  | S k => (if cancelled (insts s k) then 0 else 1) + count_live s k
  end.
Definition nlive (s : st) : nat := count_live s (ninst s).

(* ---- correspondence: acceptance of an observed trace -------------------------------------- *)

Definition opt_nat_eqb := option_eqb Nat.eqb.

Definition label_eqb (a b : label) : bool :=
  match a, b with
  | LLoaded x, LLoaded y | LRetry x, LRetry y | LWait x, LWait y | LEntered x, LEntered y
  | LCtxLeave x, LCtxLeave y | LFound x, LFound y | LWaitClose x, LWaitClose y
  | LReturn x, LReturn y | LClosed x, LClosed y | LTimeout x, LTimeout y | LNew x, LNew y
  | LStored x, LStored y | LUnready x, LUnready y | LZero x, LZero y | LNonZero x, LNonZero y
  | LDeleted x, LDeleted y | LCloseBegin x, LCloseBegin y | LCloseSkip x, LCloseSkip y
  | LCancelled x, LCancelled y | LCallback x, LCallback y | LDMarked x, LDMarked y
  | LDBegin x, LDBegin y | LDSkip x, LDSkip y | LCancel x, LCancel y
  | LCbStart x, LCbStart y => Nat.eqb x y
  | LNil, LNil | LCtxDone, LCtxDone => true
  | LLeave x c, LLeave y d | LDec x c, LDec y d => Nat.eqb x y && Z.eqb c d
  | _, _ => false
  end.

(* One observed event: thread, label (slot and instance numbers are the order of first
   appearance in the trace, which is the allocation order of the model), and the observables
   sampled by the harness right after the event:
     om : the instance in the hydra map (None = no entry),   only meaningful when [sampled] *)
Record obs := { o_t : nat; o_l : label; o_sampled : bool; o_map : option nat }.

(* verdict codes: 0 ok; 1 the trace is not a run of the model; 2 two live instances at once;
   3 SummonSwamp returned an instance that is not the one in the map at its final check;
   4 two live instances where the older one had lost its map entry to the close callback of a
     Destroy() that started on an instance whose Close() had already started *)
Fixpoint accept (s : st) (tr : list obs) : N :=
  match tr with
  | [] => 0%N
  | o :: r =>
      match o_l o with
      | LCbStart _ => accept s r
      | _ =>
        match tstep true s (o_t o) with
        | Some (s', l) =>
            if label_eqb l (o_l o) &&
               (negb (o_sampled o) || opt_nat_eqb (mapi s') (o_map o))
            then accept s' r else 1%N
        | None => 1%N
        end
      end
  end.

(* property oracle on the implementation's observations alone: live = constructed (LNew) and
   not yet cancelled (LCancelled); returned instance = sampled map entry at the return.
   lv: live instances; cs: instances on which a Close() began; ld: instances on which a Destroy()
   began after a Close() ("late destroy"); orph: live instances that were live when the callback
   of a late destroy of another instance ran (their map entry is gone) *)
Fixpoint mem_nat (x : nat) (l : list nat) : bool :=
  match l with [] => false | y :: t => Nat.eqb x y || mem_nat x t end.

(* pcb: cancelled instances whose own close callback has not started yet; stale: members of pcb
   that were in that state when the callback of a late destroy of ANOTHER instance ran - their
   map entry may be gone already, so their own callback (by name) removes a successor's entry *)
Fixpoint oracle_go (lv cs ld orph pcb stale pend : list nat) (tr : list obs) : N :=
  match tr with
  | [] => 0%N
  | o :: r =>
      match o_l o with
      | LNew i =>
          match lv with
          | [] => oracle_go [i] cs ld orph pcb stale pend r
          | _ => if forallb (fun j => mem_nat j orph) lv then 4%N else 2%N
          end
      | LCancelled i =>
          (* an instance that had lost its map entry (orphan) and is torn down now: its own callback,
             still to come, removes a successor's entry - it is displaced *)
          oracle_go (rm i lv) cs ld (rm i orph) (i :: pcb) (if mem_nat i orph then i :: stale else stale) pend r
      | LCloseBegin i => oracle_go lv (i :: cs) ld orph pcb stale pend r
      | LDBegin i => oracle_go lv cs (if mem_nat i cs then i :: ld else ld) orph pcb stale pend r
      | LCbStart i =>
          if mem_nat i ld then
            oracle_go lv cs ld (rm i lv ++ orph) (rm i pcb) (rm i pcb ++ stale) (i :: pend) r
          else if mem_nat i stale then   (* a displaced callback displaces further *)
            oracle_go lv cs ld (rm i lv ++ orph) (rm i pcb) (rm i pcb ++ rm i stale) (i :: pend) r
          else oracle_go lv cs ld orph (rm i pcb) stale pend r
      | LCallback i =>
          (* the hook LCbStart is logged BEFORE the delete by name; the entry that is actually removed
             is the one in the map when the callback completes. Once a late (or displaced) callback
             of i has started, every completed callback of i may be that one: whoever is live then
             (created between the start hook and the delete) has lost its map entry too *)
          if mem_nat i pend then
            oracle_go lv cs ld (rm i lv ++ orph) pcb (rm i pcb ++ stale) pend r
          else oracle_go lv cs ld orph pcb stale pend r
      | LReturn i =>
          if negb (o_sampled o) || opt_nat_eqb (o_map o) (Some i) then oracle_go lv cs ld orph pcb stale pend r
          else if mem_nat i orph then 4%N else 3%N
      | _ => oracle_go lv cs ld orph pcb stale pend r
      end
  end.
Definition oracle (lv cs ld orph : list nat) (tr : list obs) : N := oracle_go lv cs ld orph [] [] [] tr.

(* c_trace: the forced part (replayed by the model); c_tail: events of the free-running drain
   (or of a stress run), on which only the oracle is evaluated *)
Record case := { c_progs : list prog; c_trace : list obs; c_tail : list obs }.

Definition progs_of (l : list prog) : nat -> prog := fun t => nth t l PIdle.

Definition check_case (c : case) : N :=
  match oracle [] [] [] [] (c_trace c ++ c_tail c) with
  | 0%N => accept (init (progs_of (c_progs c))) (c_trace c)
  | v => v
  end.

(* compact wire format of the harness (numbers only, fast to parse):
   event = (thread, label code, a, c, m): label code/arguments as in [dec_label]; the count of
   LLeave is sent as c = count + 1000; m = 0 not sampled, 1 map empty, i + 2 map holds i.
   program = (kind, argument): 0 summon, 1 Close(a), 2 Destroy(a), 3 cancel(a). *)
Definition rawev := (N * N * N * N * N)%type.
Definition dec_label (k a c : N) : label :=
  let n := N.to_nat a in
  match k with
  | 0 => LLoaded n | 1 => LRetry n | 2 => LWait n | 3 => LEntered n | 4 => LCtxLeave n
  | 5 => LFound n | 6 => LNil | 7 => LCtxDone | 8 => LWaitClose n | 9 => LReturn n
  | 10 => LClosed n | 11 => LTimeout n | 12 => LNew n | 13 => LStored n
  | 14 => LLeave n (Z.of_N c - 1000)%Z
  | 15 => LCloseBegin n | 16 => LCloseSkip n | 17 => LCancelled n | 18 => LCallback n
  | 19 => LDMarked n | 20 => LDBegin n | 21 => LDSkip n | 22 => LCancel n
  | _ => LCbStart n
  end%N.
Definition dec_obs (e : rawev) : obs :=
  let '(t, k, a, c, m) := e in
  {| o_t := N.to_nat t; o_l := dec_label k a c; o_sampled := negb (N.eqb m 0);
     o_map := if N.leb m 1 then None else Some (N.to_nat (m - 2)) |}.
Definition dec_prog (p : N * N) : prog :=
  match fst p with
  | 0 => PSummon | 1 => PClose (N.to_nat (snd p)) | 2 => PDestroy (N.to_nat (snd p))
  | _ => PCancel (N.to_nat (snd p))
  end%N.
Definition rawcase := (list (N * N) * list rawev * list rawev)%type.
Definition dec_case (r : rawcase) : case :=
  let '(ps, tr, tl) := r in
  {| c_progs := map dec_prog ps; c_trace := map dec_obs tr; c_tail := map dec_obs tl |}.

(* typed constructors: the generated case files elaborate much faster with them *)
Definition E (t k a c m : N) : rawev := (t, k, a, c, m).
Definition P (k a : N) : N * N := (k, a).
Definition C (ps : list (N * N)) (tr tl : list rawev) : rawcase := (ps, tr, tl).

Definition check_all (cases : list rawcase) : list verdict :=
  check_cases (fun r => check_case (dec_case r)) cases.

(* ---- model -> impl: witnesses and enumerated schedules ------------------------------------ *)

(* old accounting: A owns the section, B waits, A leaves (count 1 -> 0: slot deleted while B is
   about to own it), C gets a fresh slot; A's instance is destroyed; B and C both create.
   threads: 0 = A, 1 = B, 2 = C, 3 = Destroy(instance 0) *)
Definition witness_progs : list prog := [PSummon; PSummon; PSummon; PDestroy 0].
Definition witness_old : list nat :=
  [0;0;0;0;0;      (* A: load, enter, body (nil), create 0, store *)
   1;1;            (* B: load, wait *)
   0;0;0;0;        (* A: unready+broadcast, count--, reads 0, deletes the slot *)
   3;3;3;3;        (* Destroy(0): mark, gate, cancel, callback *)
   1;              (* B: woken, takes the old slot *)
   2;2;            (* C: load (fresh slot), enter *)
   1;1;2;2].       (* B: body (nil), create 1; C: body (nil), create 2 *)

(* late destroy: D holds instance 0 (summoned earlier); Close(0) completes; S creates 1;
   D's Destroy(0) removes the map entry of 1; S2 creates 2 while 1 is live.
   threads: 0 = first summoner, 1 = Close(0), 2 = S, 3 = Destroy(0), 4 = S2 *)
Definition witness_late_progs : list prog := [PSummon; PClose 0; PSummon; PDestroy 0; PSummon].
Definition witness_late : list nat :=
  [0;0;0;0;0;0;    (* creates and stores 0, leaves *)
   1;1;1;          (* Close(0): gate, cancel, callback *)
   2;2;2;2;2;2;    (* S creates and stores 1, leaves *)
   3;3;3;3;        (* Destroy(0): mark, gate (late), cancel, callback: entry of 1 removed *)
   4;4;4;4].       (* S2: load, enter, body (nil), create 2 *)

(* all interleavings of per-thread step budgets (each thread id occurs [n] times) *)
Fixpoint interleavings (fuel : nat) (budget : list (nat * nat)) : list (list nat) :=
  match fuel with
  | O => [[]]
  | S f =>
      if forallb (fun p => Nat.eqb (snd p) 0) budget then [[]]
      else flat_map (fun p =>
             match snd p with
             | O => []
             | S k => map (cons (fst p))
                        (interleavings f (map (fun q => if Nat.eqb (fst q) (fst p) then (fst q, k) else q) budget))
             end) budget
  end.
