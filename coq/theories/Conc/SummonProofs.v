(* Conc/SummonProofs.v — invariants of the summon protocol with the fixed slot accounting
   (fixed = true) for every schedule of any number of threads, and the refutations for the old
   accounting and for a Destroy() that starts after a Close() of the same instance. *)
From HV Require Import Base.Prelude Conc.Summon.
From Coq Require Import ZifyNat ZifyBool.

Lemma upd_same {A} (f : nat -> A) k v : upd f k v k = v.
Proof. unfold upd. rewrite Nat.eqb_refl. reflexivity. Qed.
Lemma upd_other {A} (f : nat -> A) k v x : x <> k -> upd f k v x = f x.
Proof. unfold upd. intro H. apply Nat.eqb_neq in H. rewrite H. reflexivity. Qed.

(* slot a thread is registered on (counted in [count]) / whose section it owns / it refers to *)
Definition reg (p : pc) : option nat :=
  match p with
  | SWait w _ | SBody w | SFound w _ | SWaitClose w _ | SCreate w | SStore w _ | SExit w _ => Some w
  | _ => None
  end.
Definition insec (p : pc) : option nat :=
  match p with
  | SBody w | SFound w _ | SWaitClose w _ | SCreate w | SStore w _ | SExit w _ => Some w
  | _ => None
  end.
Definition sref (p : pc) : option nat :=
  match p with
  | SLock w => Some w
  | _ => reg p
  end.

Lemma insec_reg p w : insec p = Some w -> reg p = Some w.
Proof. destruct p; simpl; congruence. Qed.
Lemma reg_sref p w : reg p = Some w -> sref p = Some w.
Proof. destruct p; simpl; congruence. Qed.

Record SInv (s : st) : Prop := {
  s_cur   : forall w, cur s = Some w -> w < nslots s /\ dead (slots s w) = false;
  s_alive : forall w, w < nslots s -> dead (slots s w) = false -> cur s = Some w;
  s_fd    : forall w, nslots s <= w -> dead (slots s w) = false;
  s_cnt   : forall w, count (slots s w) = Z.of_nat (length (owners (slots s w)));
  s_nd    : forall w, NoDup (owners (slots s w));
  s_own   : forall w t, In t (owners (slots s w)) <-> reg (pcs s t) = Some w;
  s_dead  : forall w, dead (slots s w) = true -> owners (slots s w) = [];
  s_sec   : forall w t, insec (pcs s t) = Some w ->
                        holder (slots s w) = Some t /\ ready (slots s w) = true;
  s_lt    : forall t w, sref (pcs s t) = Some w -> w < nslots s
}.

(* ---- list helpers ---- *)
Lemma rm_in t x l : In x (rm t l) <-> In x l /\ x <> t.
Proof.
  unfold rm. split.
  - intro H. apply in_remove in H. exact H.
  - intros [H1 H2]. apply in_in_remove; assumption.
Qed.
Lemma rm_nodup t l : NoDup l -> NoDup (rm t l).
Proof.
  induction l as [|a l IH]; simpl; intro H; [constructor|].
  inversion H as [|? ? Hn Hl]; subst.
  destruct (Nat.eq_dec t a); [apply IH; assumption|].
  constructor; [|apply IH; assumption].
  intro Hi. apply rm_in in Hi. tauto.
Qed.
Lemma rm_notin t l : ~ In t l -> rm t l = l.
Proof. apply notin_remove. Qed.
Lemma rm_len t l : NoDup l -> In t l -> S (length (rm t l)) = length l.
Proof.
  induction l as [|a l IH]; simpl; intros Hn Hi; [tauto|].
  inversion Hn as [|? ? Hna Hl]; subst.
  destruct (Nat.eq_dec t a) as [->|Hne].
  - fold (rm a l). rewrite rm_notin by assumption. reflexivity.
  - simpl. f_equal. destruct Hi as [->|Hi]; [congruence|]. apply IH; assumption.
Qed.
Lemma rm_head t l : ~ In t l -> rm t (t :: l) = l.
Proof.
  intro H. unfold rm. simpl. destruct (Nat.eq_dec t t); [|congruence]. apply notin_remove. exact H.
Qed.

Arguments rm : simpl never.

(* ---- mutual exclusion of the summoning section from the slot invariant ---- *)
Lemma reg_alive s t w : SInv s -> reg (pcs s t) = Some w -> cur s = Some w.
Proof.
  intros I H. apply (s_alive s I).
  - apply (s_lt s I t). apply reg_sref. exact H.
  - destruct (dead (slots s w)) eqn:D; [|reflexivity].
    apply (s_dead s I) in D. apply (s_own s I) in H. rewrite D in H. destruct H.
Qed.

Lemma mutex s t t' w w' : SInv s ->
  insec (pcs s t) = Some w -> insec (pcs s t') = Some w' -> t = t' /\ w = w'.
Proof.
  intros I H H'.
  assert (C : cur s = Some w) by (eapply reg_alive; eauto using insec_reg).
  assert (C' : cur s = Some w') by (eapply reg_alive; eauto using insec_reg).
  assert (w = w') by congruence. subst w'.
  apply (s_sec s I) in H. apply (s_sec s I) in H'. destruct H as [H _], H' as [H' _].
  split; congruence.
Qed.

(* ---- frame: steps that only move the pc of t inside its current role ---- *)
Lemma sinv_frame s s' t p' : SInv s ->
  pcs s' = upd (pcs s) t p' -> slots s' = slots s -> nslots s' = nslots s -> cur s' = cur s ->
  reg p' = reg (pcs s t) -> insec p' = insec (pcs s t) ->
  (forall w, sref p' = Some w -> sref (pcs s t) = Some w) ->
  SInv s'.
Proof.
  intros I Hp Hs Hn Hc Hr Hi Hf.
  assert (R : forall x, reg (pcs s' x) = reg (pcs s x)).
  { intro x. rewrite Hp. unfold upd. destruct (Nat.eqb_spec x t); subst; auto. }
  assert (S : forall x, insec (pcs s' x) = insec (pcs s x)).
  { intro x. rewrite Hp. unfold upd. destruct (Nat.eqb_spec x t); subst; auto. }
  constructor; rewrite ?Hs, ?Hn, ?Hc.
  - apply (s_cur s I).
  - apply (s_alive s I).
  - apply (s_fd s I).
  - apply (s_cnt s I).
  - apply (s_nd s I).
  - intros w x. rewrite R. apply (s_own s I).
  - apply (s_dead s I).
  - intros w x. rewrite S. apply (s_sec s I).
  - intros x w. rewrite Hp. unfold upd. destruct (Nat.eqb_spec x t); subst.
    + intro H. apply Hf in H. eapply (s_lt s I); eauto.
    + apply (s_lt s I).
Qed.

(* ---- a step of t that rewrites slot w and keeps it alive ---- *)
Lemma sinv_slot_step s s' t w p' sl' :
  SInv s -> sref (pcs s t) = Some w -> dead (slots s w) = false ->
  (forall x, pcs s' x = if Nat.eqb x t then p' else pcs s x) ->
  (forall x, slots s' x = if Nat.eqb x w then sl' else slots s x) ->
  nslots s' = nslots s -> cur s' = cur s ->
  dead sl' = false ->
  count sl' = Z.of_nat (length (owners sl')) -> NoDup (owners sl') ->
  (forall x, In x (owners sl') <-> (x = t /\ reg p' = Some w) \/ (x <> t /\ In x (owners (slots s w)))) ->
  (forall w', sref p' = Some w' -> w' = w) ->
  (insec p' = Some w -> holder sl' = Some t /\ ready sl' = true) ->
  (forall x, x <> t -> insec (pcs s x) = Some w -> holder sl' = Some x /\ ready sl' = true) ->
  SInv s'.
Proof.
  intros I Hsr Hd Hp Hs Hn Hc Hd' Hcnt Hnd Hown Hw Hin Hoth.
  assert (Hlt : w < nslots s) by (eapply (s_lt s I); eauto).
  assert (Hreg : forall w', reg p' = Some w' -> w' = w) by (intros w' H; apply Hw, reg_sref, H).
  constructor; rewrite ?Hn, ?Hc.
  - intros w0 H. destruct (s_cur s I w0 H) as [A B]. split; [exact A|].
    rewrite Hs. destruct (Nat.eqb_spec w0 w); subst; auto.
  - intros w0 A B. apply (s_alive s I); [exact A|].
    rewrite Hs in B. destruct (Nat.eqb_spec w0 w); subst; auto.
  - intros w0 A. rewrite Hs. destruct (Nat.eqb_spec w0 w); subst; auto. apply (s_fd s I); exact A.
  - intros w0. rewrite Hs. destruct (Nat.eqb_spec w0 w); subst; auto. apply (s_cnt s I).
  - intros w0. rewrite Hs. destruct (Nat.eqb_spec w0 w); subst; auto. apply (s_nd s I).
  - intros w0 x. rewrite Hs, Hp.
    destruct (Nat.eqb_spec w0 w) as [->|Hne]; destruct (Nat.eqb_spec x t) as [->|Hxt].
    + rewrite Hown. split; [intros [[_ H]|[H _]]; [exact H|congruence] | intro H; left; auto].
    + rewrite Hown. rewrite <- (s_own s I). split; [intros [[H _]|[_ H]]; [congruence|exact H] | intro H; right; auto].
    + rewrite (s_own s I). split; intro H.
      * apply reg_sref in H. congruence.
      * apply Hreg in H. congruence.
    + apply (s_own s I).
  - intros w0. rewrite Hs. destruct (Nat.eqb_spec w0 w); subst; [congruence|]. apply (s_dead s I).
  - intros w0 x. rewrite Hs, Hp.
    destruct (Nat.eqb_spec x t) as [->|Hxt].
    + intro H. assert (w0 = w) by (apply Hreg, insec_reg, H). subst w0. rewrite Nat.eqb_refl. auto.
    + intro H. destruct (Nat.eqb_spec w0 w) as [->|Hne]; [auto|]. apply (s_sec s I); exact H.
  - intros x w0. rewrite Hp. destruct (Nat.eqb_spec x t) as [->|Hxt].
    + intro H. apply Hw in H. subst. exact Hlt.
    + apply (s_lt s I).
Qed.

(* ---- the last owner t leaves slot w: the slot dies and is removed from the map ---- *)
Lemma sinv_slot_kill s s' t w p' sl' :
  SInv s -> sref (pcs s t) = Some w -> dead (slots s w) = false ->
  (forall x, pcs s' x = if Nat.eqb x t then p' else pcs s x) ->
  (forall x, slots s' x = if Nat.eqb x w then sl' else slots s x) ->
  nslots s' = nslots s -> cur s' = None ->
  dead sl' = true -> owners sl' = [] -> count sl' = 0%Z ->
  (forall x, x <> t -> ~ In x (owners (slots s w))) ->
  sref p' = None ->
  SInv s'.
Proof.
  intros I Hsr Hd Hp Hs Hn Hc Hd' Ho Hcnt Hoth Hp'.
  assert (Hlt : w < nslots s) by (eapply (s_lt s I); eauto).
  assert (Hcur : cur s = Some w) by (apply (s_alive s I); assumption).
  assert (Hreg : reg p' = None) by (destruct p'; simpl in *; congruence).
  assert (Hins : insec p' = None) by (destruct p'; simpl in *; congruence).
  constructor; rewrite ?Hn, ?Hc.
  - discriminate.
  - intros w0 A B. rewrite Hs in B. destruct (Nat.eqb_spec w0 w); subst; [congruence|].
    assert (cur s = Some w0) by (apply (s_alive s I); assumption). congruence.
  - intros w0 A. rewrite Hs. destruct (Nat.eqb_spec w0 w); subst; [lia|]. apply (s_fd s I); exact A.
  - intros w0. rewrite Hs. destruct (Nat.eqb_spec w0 w); subst; [rewrite Hcnt, Ho; reflexivity|]. apply (s_cnt s I).
  - intros w0. rewrite Hs. destruct (Nat.eqb_spec w0 w); subst; [rewrite Ho; constructor|]. apply (s_nd s I).
  - intros w0 x. rewrite Hs, Hp.
    destruct (Nat.eqb_spec w0 w) as [->|Hne]; destruct (Nat.eqb_spec x t) as [->|Hxt].
    + rewrite Ho, Hreg. simpl. split; [tauto|discriminate].
    + rewrite Ho. simpl. split; [tauto|]. intro H. apply (s_own s I) in H. eapply Hoth; eauto.
    + rewrite Hreg, (s_own s I). split; [|discriminate]. intro H. apply reg_sref in H. congruence.
    + apply (s_own s I).
  - intros w0. rewrite Hs. destruct (Nat.eqb_spec w0 w); subst; auto. apply (s_dead s I).
  - intros w0 x. rewrite Hs, Hp.
    destruct (Nat.eqb_spec x t) as [->|Hxt]; [rewrite Hins; discriminate|].
    intro H. destruct (Nat.eqb_spec w0 w) as [->|Hne]; [|apply (s_sec s I); exact H].
    exfalso. apply (Hoth x Hxt). apply (s_own s I). apply insec_reg. exact H.
  - intros x w0. rewrite Hp. destruct (Nat.eqb_spec x t) as [->|Hxt]; [rewrite Hp'; discriminate|].
    apply (s_lt s I).
Qed.

Lemma reg_not_dead s t w : SInv s -> reg (pcs s t) = Some w -> dead (slots s w) = false.
Proof. intros I H. apply (s_cur s I). eapply reg_alive; eauto. Qed.

Lemma len0_nil {A} (l : list A) : length l = 0 -> l = [].
Proof. destruct l; simpl; [reflexivity|discriminate]. Qed.

(* a registered thread leaves its slot (fixed accounting) *)
Lemma sinv_leave s t w rel p' :
  SInv s -> reg (pcs s t) = Some w ->
  (rel = true -> insec (pcs s t) = Some w) -> (rel = false -> insec (pcs s t) = None) ->
  sref p' = None ->
  SInv (set_pc (leave_fixed s t w rel) t p').
Proof.
  intros I Hr Ht Hf Hp'.
  assert (Hd : dead (slots s w) = false) by (eapply reg_not_dead; eauto).
  assert (Hin : In t (owners (slots s w))) by (apply (s_own s I); exact Hr).
  assert (Hlen := rm_len t _ (s_nd s I w) Hin).
  assert (Hc := s_cnt s I w).
  assert (Hreg' : reg p' = None) by (destruct p'; simpl in *; congruence).
  assert (Hins' : insec p' = None) by (destruct p'; simpl in *; congruence).
  unfold leave_fixed.
  destruct (Z.eqb_spec (count (slots s w) - 1) 0) as [E|E].
  - eapply sinv_slot_kill with (s := s) (t := t) (w := w) (p' := p');
      [exact I | exact (reg_sref _ _ Hr) | exact Hd | intro x; reflexivity | intro x; reflexivity
      | reflexivity | reflexivity | | | | | exact Hp'].
    + reflexivity.
    + cbn. apply len0_nil. lia.
    + cbn. exact E.
    + intros x Hx Hi.
      assert (A : In x (rm t (owners (slots s w)))) by (apply rm_in; auto).
      assert (B : length (rm t (owners (slots s w))) = 0) by lia.
      apply len0_nil in B. rewrite B in A. destruct A.
  - eapply sinv_slot_step with (s := s) (t := t) (w := w) (p' := p');
      [exact I | exact (reg_sref _ _ Hr) | exact Hd | intro x; reflexivity | intro x; reflexivity
      | reflexivity | reflexivity | | | | | | | ].
    + cbn. exact Hd.
    + cbn. lia.
    + cbn. apply rm_nodup. apply (s_nd s I).
    + intro x. cbn. rewrite rm_in, Hreg'. split; [intros [A B]; right; auto | intros [[_ A]|[A B]]; [discriminate|auto]].
    + intros w'. rewrite Hp'. discriminate.
    + rewrite Hins'. discriminate.
    + intros x Hx Hi. cbn. destruct rel.
      * destruct (mutex s t x w w I (Ht eq_refl) Hi) as [A _]. congruence.
      * apply (s_sec s I). exact Hi.
Qed.

Ltac frame_tac I t :=
  eapply sinv_frame with (t := t); [exact I | reflexivity | reflexivity | reflexivity | reflexivity | | | ];
  match goal with H : pcs _ t = _ |- _ => rewrite H end; simpl; try reflexivity; try (intros ? ?; assumption);
  try (intros ? ?; discriminate).

Lemma sinv_tstep s t s' l : SInv s -> tstep true s t = Some (s', l) -> SInv s'.
Proof.
  intros I H. unfold tstep in H.
  destruct (pcs s t) eqn:Hpc; try discriminate.
  - (* SLoad *)
    destruct (cur s) as [w|] eqn:Hc; inversion H; subst; clear H.
    + destruct (s_cur s I w Hc) as [Hlt Hd].
      assert (Hn : forall w0, ~ In t (owners (slots s w0))).
      { intros w0 A. apply (s_own s I) in A. rewrite Hpc in A. discriminate. }
      constructor; cbn.
      * apply (s_cur s I).
      * apply (s_alive s I).
      * apply (s_fd s I).
      * apply (s_cnt s I).
      * apply (s_nd s I).
      * intros w0 x. unfold upd. destruct (Nat.eqb_spec x t) as [->|Hx]; [|apply (s_own s I)].
        simpl. split; [intro A; exfalso; eapply Hn; eauto|discriminate].
      * apply (s_dead s I).
      * intros w0 x. unfold upd. destruct (Nat.eqb_spec x t) as [->|Hx]; [discriminate|apply (s_sec s I)].
      * intros x w0. unfold upd. destruct (Nat.eqb_spec x t) as [->|Hx]; [|apply (s_lt s I)].
        simpl. intro A. inversion A; subst. exact Hlt.
    + assert (Hn : forall w0, ~ In t (owners (slots s w0))).
      { intros w0 A. apply (s_own s I) in A. rewrite Hpc in A. discriminate. }
      constructor; cbn.
      * intros w A. inversion A; subst. split; [lia|]. apply (s_fd s I). lia.
      * intros w A B. destruct (Nat.eq_dec w (nslots s)) as [->|Hne]; [reflexivity|].
        assert (cur s = Some w) by (apply (s_alive s I); [lia|exact B]). congruence.
      * intros w A. apply (s_fd s I). lia.
      * apply (s_cnt s I).
      * apply (s_nd s I).
      * intros w0 x. unfold upd. destruct (Nat.eqb_spec x t) as [->|Hx]; [|apply (s_own s I)].
        simpl. split; [intro A; exfalso; eapply Hn; eauto|discriminate].
      * apply (s_dead s I).
      * intros w0 x. unfold upd. destruct (Nat.eqb_spec x t) as [->|Hx]; [discriminate|apply (s_sec s I)].
      * intros x w0. unfold upd. destruct (Nat.eqb_spec x t) as [->|Hx].
        -- simpl. intro A. inversion A; subst. lia.
        -- intro A. apply (s_lt s I) in A. lia.
  - (* SLock *)
    assert (Hn : ~ In t (owners (slots s w))).
    { intros A. apply (s_own s I) in A. rewrite Hpc in A. discriminate. }
    assert (Hsr : sref (pcs s t) = Some w) by (rewrite Hpc; reflexivity).
    assert (Hc := s_cnt s I w).
    destruct (dead (slots s w)) eqn:Hd.
    { inversion H; subst; clear H. frame_tac I t. }
    destruct (ready (slots s w)) eqn:Hrd.
    + destruct (abort s t) eqn:Hab; inversion H; subst; clear H.
      * (* ctx leave: count+1-1 *)
        unfold leave_fixed. cbn. rewrite upd_same. cbn.
        destruct (Z.eqb_spec (count (slots s w) + 1 - 1) 0) as [E|E].
        -- eapply sinv_slot_kill with (s := s) (t := t) (w := w) (p' := SDone None);
             [exact I | exact Hsr | exact Hd | intro x; reflexivity
             | intro x; cbn; unfold upd; destruct (Nat.eqb x w); reflexivity
             | reflexivity | reflexivity | | | | | reflexivity].
           ++ reflexivity.
           ++ cbn. rewrite rm_head by exact Hn. apply len0_nil. lia.
           ++ cbn. exact E.
           ++ intros x Hx A. assert (B : owners (slots s w) = []) by (apply len0_nil; lia).
              rewrite B in A. destruct A.
        -- eapply sinv_slot_step with (s := s) (t := t) (w := w) (p' := SDone None);
             [exact I | exact Hsr | exact Hd | intro x; reflexivity
             | intro x; cbn; unfold upd; destruct (Nat.eqb x w); reflexivity
             | reflexivity | reflexivity | | | | | | | ].
           ++ cbn. exact Hd.
           ++ cbn. rewrite rm_head by exact Hn. lia.
           ++ cbn. rewrite rm_head by exact Hn. apply (s_nd s I).
           ++ intro x. cbn. rewrite rm_head by exact Hn.
              split; [intro A; right; split; [intro; subst; tauto|exact A] | intros [[_ A]|[_ A]]; [discriminate|exact A]].
           ++ intros w'. discriminate.
           ++ discriminate.
           ++ intros x Hx A. cbn. apply (s_sec s I). exact A.
      * (* wait *)
        eapply sinv_slot_step with (s := s) (t := t) (w := w) (p' := SWait w (gen (slots s w)));
          [exact I | exact Hsr | exact Hd | intro x; reflexivity | intro x; reflexivity
          | reflexivity | reflexivity | | | | | | | ].
        -- cbn. exact Hd.
        -- cbn. lia.
        -- cbn. constructor; [exact Hn|apply (s_nd s I)].
        -- intro x. cbn. split.
           ++ intros [A|A]; [left; auto | right; split; [intro; subst; tauto|exact A]].
           ++ intros [[A _]|[_ A]]; auto.
        -- intros w' A. simpl in A. congruence.
        -- discriminate.
        -- intros x Hx A. cbn. apply (s_sec s I). exact A.
    + (* enter *)
      inversion H; subst; clear H.
      eapply sinv_slot_step with (s := s) (t := t) (w := w) (p' := SBody w);
        [exact I | exact Hsr | exact Hd | intro x; reflexivity | intro x; reflexivity
        | reflexivity | reflexivity | | | | | | | ].
      * cbn. exact Hd.
      * cbn. lia.
      * cbn. constructor; [exact Hn|apply (s_nd s I)].
      * intro x. cbn. split.
        -- intros [A|A]; [left; auto | right; split; [intro; subst; tauto|exact A]].
        -- intros [[A _]|[_ A]]; auto.
      * intros w' A. simpl in A. congruence.
      * intros _. cbn. auto.
      * intros x Hx A. apply (s_sec s I) in A. destruct A as [_ A]. congruence.
  - (* SWait *)
    assert (Hr : reg (pcs s t) = Some w) by (rewrite Hpc; reflexivity).
    assert (Hin : In t (owners (slots s w))) by (apply (s_own s I); exact Hr).
    assert (Hd : dead (slots s w) = false) by (eapply reg_not_dead; eauto).
    destruct (Nat.eqb (gen (slots s w)) g); [discriminate|].
    destruct (ready (slots s w)) eqn:Hrd.
    + destruct (abort s t) eqn:Hab; inversion H; subst; clear H.
      * apply sinv_leave; auto; try discriminate. rewrite Hpc. reflexivity.
      * frame_tac I t.
    + inversion H; subst; clear H.
      eapply sinv_slot_step with (s := s) (t := t) (w := w) (p' := SBody w);
        [exact I | exact (reg_sref _ _ Hr) | exact Hd | intro x; reflexivity | intro x; reflexivity
        | reflexivity | reflexivity | | | | | | | ].
      * cbn. exact Hd.
      * cbn. apply (s_cnt s I).
      * cbn. apply (s_nd s I).
      * intro x. cbn. split.
        -- intro A. destruct (Nat.eq_dec x t); [left; auto|right; auto].
        -- intros [[-> _]|[_ A]]; auto.
      * intros w' A. simpl in A. congruence.
      * intros _. cbn. auto.
      * intros x Hx A. apply (s_sec s I) in A. destruct A as [_ A]. congruence.
  - (* SBody *)
    destruct (abort s t); [inversion H; subst; clear H; frame_tac I t|].
    destruct (mapi s); inversion H; subst; clear H; frame_tac I t.
  - (* SFound *)
    destruct (closing (insts s i)); inversion H; subst; clear H; frame_tac I t.
  - (* SWaitClose *)
    destruct (cancelled (insts s i)); [inversion H; subst; clear H; frame_tac I t|].
    destruct (abort s t); inversion H; subst; clear H; frame_tac I t.
  - (* SCreate *) inversion H; subst; clear H. frame_tac I t.
  - (* SStore *) inversion H; subst; clear H. frame_tac I t.
  - (* SExit *)
    inversion H; subst; clear H.
    apply sinv_leave; auto; try discriminate; rewrite Hpc; reflexivity.
  - (* CGate *)
    destruct (Nat.ltb i (ninst s)); [|discriminate].
    destruct (closing (insts s i)); inversion H; subst; clear H; frame_tac I t.
  - inversion H; subst; clear H. frame_tac I t.
  - inversion H; subst; clear H. frame_tac I t.
  - destruct (Nat.ltb i (ninst s)); [|discriminate]. inversion H; subst; clear H. frame_tac I t.
  - destruct (destroyed (insts s i)); inversion H; subst; clear H; frame_tac I t.
  - inversion H; subst; clear H. frame_tac I t.
  - inversion H; subst; clear H. frame_tac I t.
  - inversion H; subst; clear H. frame_tac I t.
Qed.

(* ================= instances ================= *)

Definition tdpc (p : pc) : option nat :=
  match p with
  | CFinish i | CCallback i | DFinish i | DCallback i => Some i
  | _ => None
  end.

(* what the pc of thread t promises about the shared state *)
Record pc_ok (s : st) (t : nat) (p : pc) : Prop := {
  k_create : forall w, p = SCreate w -> mapi s = None;
  k_store  : forall w i, p = SStore w i ->
               mapi s = None /\ stored (insts s i) = false /\ i < ninst s;
  k_tdpc   : forall i, tdpc p = Some i ->
               tearer (insts s i) = Some t /\ cbdone (insts s i) = false /\ i < ninst s;
  k_cbpc   : forall i, p = CCallback i \/ p = DCallback i -> cancelled (insts s i) = true;
  k_found  : forall w i, p = SFound w i -> stored (insts s i) = true /\ i < ninst s;
  k_dgate  : forall i, p = DGate i -> closing (insts s i) = true /\ i < ninst s
}.

Record IInv (s : st) : Prop := {
  i_map   : forall i, mapi s = Some i -> i < ninst s /\ stored (insts s i) = true;
  i_unst  : forall i, i < ninst s -> stored (insts s i) = false -> exists t w, pcs s t = SStore w i;
  i_open  : forall i, stored (insts s i) = true -> tearer (insts s i) = None -> mapi s = Some i;
  i_tear  : forall i t, tearer (insts s i) = Some t -> cbdone (insts s i) = false ->
              tdpc (pcs s t) = Some i /\ (stored (insts s i) = true -> mapi s = Some i);
  i_cb    : forall i, cbdone (insts s i) = true -> cancelled (insts s i) = true;
  i_canc  : forall i, cancelled (insts s i) = true -> tearer (insts s i) <> None;
  i_tcl   : forall i, tearer (insts s i) <> None ->
              closing (insts s i) = true /\
              (cstarted (insts s i) = true \/ destroyed (insts s i) = true);
  i_fresh : forall i, ninst s <= i -> insts s i = fresh_inst;
  i_pc    : forall t, pc_ok s t (pcs s t)
}.

Lemma pc_ok_triv s t p :
  (forall w, p <> SCreate w) -> (forall w i, p <> SStore w i) -> tdpc p = None ->
  (forall w i, p <> SFound w i) -> (forall i, p <> DGate i) -> pc_ok s t p.
Proof.
  intros A B C D E. constructor; intros; subst; try congruence; simpl in *; try discriminate.
  - destruct H; subst; discriminate.
Qed.

(* steps that move only the pc of t and do not touch instances or the instance map *)
Lemma iinv_frame s s' t p' : IInv s ->
  pcs s' = upd (pcs s) t p' -> insts s' = insts s -> ninst s' = ninst s -> mapi s' = mapi s ->
  (forall w i, pcs s t <> SStore w i) -> tdpc (pcs s t) = None ->
  pc_ok s t p' -> IInv s'.
Proof.
  intros I Hp Hi Hn Hm Hns Htd Hok.
  constructor; rewrite ?Hi, ?Hn, ?Hm.
  - apply (i_map s I).
  - intros i A B. destruct (i_unst s I i A B) as [x [w E]]. exists x, w. rewrite Hp.
    rewrite upd_other; [exact E|]. intro; subst. eapply Hns; eauto.
  - apply (i_open s I).
  - intros i x A B. destruct (i_tear s I i x A B) as [C D]. split; [|exact D].
    rewrite Hp. rewrite upd_other; [exact C|]. intro; subst. congruence.
  - apply (i_cb s I).
  - apply (i_canc s I).
  - apply (i_tcl s I).
  - apply (i_fresh s I).
  - intro x. rewrite Hp. unfold upd. destruct (Nat.eqb_spec x t) as [->|Hx].
    + destruct Hok. constructor; rewrite ?Hi, ?Hn, ?Hm; assumption.
    + destruct (i_pc s I x). constructor; rewrite ?Hi, ?Hn, ?Hm; assumption.
Qed.

(* transfer of pc_ok for the other threads when instance i0 is rewritten *)
Lemma pc_ok_other s s' x i0 v p :
  pc_ok s x p ->
  insts s' = upd (insts s) i0 v -> ninst s' = ninst s ->
  ((exists w, p = SCreate w) \/ (exists w i, p = SStore w i) -> mapi s' = None) ->
  (stored (insts s i0) = true -> stored v = true) ->
  ((exists w, p = SStore w i0) -> stored v = false) ->
  (tearer (insts s i0) = Some x -> tearer v = Some x /\ cbdone v = cbdone (insts s i0)) ->
  (cancelled (insts s i0) = true -> cancelled v = true) ->
  (closing (insts s i0) = true -> closing v = true) ->
  pc_ok s' x p.
Proof.
  intros K Hi Hn Hm Hst Hst2 Htr Hca Hcl. destruct K.
  constructor; rewrite ?Hi, ?Hn.
  - intros w E. apply Hm. eauto.
  - intros w i E. destruct (k_store0 w i E) as [A [B C]]. split; [apply Hm; eauto|]. split; [|exact C].
    unfold upd. destruct (Nat.eqb_spec i i0); subst; [apply Hst2; eauto|exact B].
  - intros i E. destruct (k_tdpc0 i E) as [A [B C]]. unfold upd.
    destruct (Nat.eqb_spec i i0); subst; [|auto]. destruct (Htr A) as [D F]. rewrite D, F. auto.
  - intros i E. specialize (k_cbpc0 i E). unfold upd. destruct (Nat.eqb_spec i i0); subst; auto.
  - intros w i E. destruct (k_found0 w i E) as [A B]. split; [|exact B]. unfold upd.
    destruct (Nat.eqb_spec i i0); subst; auto.
  - intros i E. destruct (k_dgate0 i E) as [A B]. split; [|exact B]. unfold upd.
    destruct (Nat.eqb_spec i i0); subst; auto.
Qed.

Lemma tearer_none_dec (x : inst) : tearer x = None \/ tearer x <> None.
Proof. destruct (tearer x); [right; discriminate|left; reflexivity]. Qed.

Lemma iinv_create s t w : IInv s -> pcs s t = SCreate w ->
  IInv (set_pc (alloc_inst s) t (SStore w (ninst s))).
Proof.
  intros I Hpc.
  assert (Hm : mapi s = None) by (eapply (k_create _ _ _ (i_pc s I t)); eauto).
  assert (Hf : insts s (ninst s) = fresh_inst) by (apply (i_fresh s I); lia).
  constructor; cbn.
  - intros i A. destruct (i_map s I i A). split; [lia|assumption].
  - intros i A B. destruct (Nat.eq_dec i (ninst s)) as [->|Hne].
    + exists t, w. apply upd_same.
    + destruct (i_unst s I i ltac:(lia) B) as [x [w' E]]. exists x, w'.
      rewrite upd_other; [exact E|]. intro; subst. congruence.
  - apply (i_open s I).
  - intros i x A B. destruct (i_tear s I i x A B) as [C D]. split; [|exact D].
    rewrite upd_other; [exact C|]. intro; subst. rewrite Hpc in C. discriminate.
  - apply (i_cb s I).
  - apply (i_canc s I).
  - apply (i_tcl s I).
  - intros i A. apply (i_fresh s I). lia.
  - intro x. unfold upd. destruct (Nat.eqb_spec x t) as [->|Hx].
    + constructor; cbn; intros; try discriminate.
      * inversion H; subst. rewrite Hf. cbn. auto.
      * destruct H; discriminate.
    + destruct (i_pc s I x). constructor; cbn; intros.
      * eauto.
      * destruct (k_store0 _ _ H) as [A [B C]]. auto.
      * destruct (k_tdpc0 _ H) as [A [B C]]. auto.
      * eauto.
      * destruct (k_found0 _ _ H). auto.
      * destruct (k_dgate0 _ H). auto.
Qed.

Lemma iinv_store s t w i : SInv s -> IInv s -> pcs s t = SStore w i ->
  let x := insts s i in
  let x' := {| closing := closing x; cstarted := cstarted x; destroyed := destroyed x;
               cancelled := cancelled x; stored := true; tearer := tearer x; cbdone := cbdone x |} in
  IInv (set_pc (set_map (set_inst s i x') (Some i)) t (SExit w (Some i))).
Proof.
  intros SI I Hpc x x'. subst x' x.
  destruct (k_store _ _ _ (i_pc s I t) w i Hpc) as [Hm [Hst Hlt]].
  assert (Hins : insec (pcs s t) = Some w) by (rewrite Hpc; reflexivity).
  assert (Hnomap : forall j, stored (insts s j) = true -> tearer (insts s j) = None -> False).
  { intros j A B. apply (i_open s I) in A; [|exact B]. congruence. }
  constructor; cbn.
  - intros j A. inversion A; subst. split; [exact Hlt|]. rewrite upd_same. reflexivity.
  - intros j A B. unfold upd in B. destruct (Nat.eqb_spec j i) as [->|Hne]; [discriminate|].
    destruct (i_unst s I j A B) as [y [w' E]]. exists y, w'.
    rewrite upd_other; [exact E|]. intro; subst. congruence.
  - intros j. unfold upd. destruct (Nat.eqb_spec j i) as [->|Hne]; [reflexivity|].
    intros A B. exfalso. eauto.
  - intros j y. unfold upd at 1 2 4. destruct (Nat.eqb_spec j i) as [->|Hne]; cbn.
    + intros A B. destruct (i_tear s I i y A B) as [C D]. split; [|reflexivity].
      rewrite upd_other; [exact C|]. intro; subst. rewrite Hpc in C. discriminate.
    + intros A B. destruct (i_tear s I j y A B) as [C D]. split.
      * rewrite upd_other; [exact C|]. intro; subst. rewrite Hpc in C. discriminate.
      * intro E. apply D in E. congruence.
  - intros j. unfold upd. destruct (Nat.eqb_spec j i) as [->|Hne]; cbn; apply (i_cb s I).
  - intros j. unfold upd. destruct (Nat.eqb_spec j i) as [->|Hne]; cbn; apply (i_canc s I).
  - intros j. unfold upd. destruct (Nat.eqb_spec j i) as [->|Hne]; cbn; apply (i_tcl s I).
  - intros j A. rewrite upd_other by lia. apply (i_fresh s I). exact A.
  - intro y. unfold upd at 1. destruct (Nat.eqb_spec y t) as [->|Hy].
    + apply pc_ok_triv; try reflexivity; intros; discriminate.
    + eapply pc_ok_other with (s := s) (i0 := i); try reflexivity; try (apply (i_pc s I y)).
      * intros [[w' E]|[w' [i' E]]]; exfalso; apply Hy;
          (destruct (mutex s y t w' w SI) as [A _]; [rewrite E; reflexivity | exact Hins | exact A]).
      * intros [w' E]. exfalso. apply Hy.
        destruct (mutex s y t w' w SI) as [A _]; [rewrite E; reflexivity | exact Hins | exact A].
      * cbn. intro A. auto.
      * cbn. auto.
      * cbn. auto.
Qed.

Lemma iinv_gate s t i v p' : IInv s ->
  tdpc (pcs s t) = None -> (forall w j, pcs s t <> SStore w j) ->
  tearer (insts s i) = None -> i < ninst s ->
  closing v = true -> (cstarted v = true \/ destroyed v = true) ->
  cancelled v = cancelled (insts s i) -> stored v = stored (insts s i) ->
  tearer v = Some t -> cbdone v = false ->
  (p' = CFinish i \/ p' = DFinish i) ->
  IInv (set_pc (set_inst s i v) t p').
Proof.
  intros I Htd Hns Hte Hlt Hcl Hcd Hca Hst Htv Hcb Hp'.
  constructor; cbn.
  - intros j A. destruct (i_map s I j A) as [B C]. split; [exact B|].
    unfold upd. destruct (Nat.eqb_spec j i) as [->|Hne]; congruence.
  - intros j A B. assert (B' : stored (insts s j) = false).
    { unfold upd in B. destruct (Nat.eqb_spec j i) as [->|Hne]; congruence. }
    destruct (i_unst s I j A B') as [y [w' E]]. exists y, w'.
    rewrite upd_other; [exact E|]. intro; subst. eapply Hns; eauto.
  - intros j. unfold upd. destruct (Nat.eqb_spec j i) as [->|Hne]; [congruence|apply (i_open s I)].
  - intros j y. unfold upd at 1 2 4. destruct (Nat.eqb_spec j i) as [->|Hne].
    + intros A B. assert (y = t) by congruence. subst y. rewrite upd_same. split.
      * destruct Hp'; subst; reflexivity.
      * intro C. apply (i_open s I); congruence.
    + intros A B. destruct (i_tear s I j y A B) as [C D]. split; [|exact D].
      rewrite upd_other; [exact C|]. intro; subst. congruence.
  - intros j. unfold upd. destruct (Nat.eqb_spec j i) as [->|Hne]; [congruence|apply (i_cb s I)].
  - intros j. unfold upd. destruct (Nat.eqb_spec j i) as [->|Hne]; [congruence|apply (i_canc s I)].
  - intros j. unfold upd. destruct (Nat.eqb_spec j i) as [->|Hne]; [auto|apply (i_tcl s I)].
  - intros j A. rewrite upd_other by lia. apply (i_fresh s I). exact A.
  - intro y. unfold upd at 1. destruct (Nat.eqb_spec y t) as [->|Hy].
    + constructor; cbn; intros; destruct Hp'; subst; try discriminate.
      * simpl in H. inversion H; subst. rewrite upd_same. auto.
      * simpl in H. inversion H; subst. rewrite upd_same. auto.
      * destruct H; discriminate.
      * destruct H; discriminate.
    + eapply pc_ok_other with (s := s) (i0 := i) (v := v);
        [apply (i_pc s I y) | reflexivity | reflexivity | | | | | | ].
      * intros [[w' E]|[w' [i' E]]];
          [apply (k_create _ _ _ (i_pc s I y) _ E) | apply (k_store _ _ _ (i_pc s I y) _ _ E)].
      * congruence.
      * intros [w' E]. destruct (k_store _ _ _ (i_pc s I y) _ _ E) as [_ [A _]]. congruence.
      * congruence.
      * congruence.
      * auto.
Qed.

Lemma iinv_mark s t i : IInv s -> pcs s t = DMark i -> i < ninst s ->
  let x := insts s i in
  let x' := {| closing := true; cstarted := cstarted x; destroyed := destroyed x;
               cancelled := cancelled x; stored := stored x; tearer := tearer x; cbdone := cbdone x |} in
  IInv (set_pc (set_inst s i x') t (DGate i)).
Proof.
  intros I Hpc Hlt x x'. subst x' x.
  constructor; cbn.
  - intros j A. destruct (i_map s I j A) as [B C]. split; [exact B|].
    unfold upd. destruct (Nat.eqb_spec j i) as [->|Hne]; cbn; congruence.
  - intros j A B. assert (B' : stored (insts s j) = false).
    { unfold upd in B. destruct (Nat.eqb_spec j i) as [->|Hne]; cbn in B; congruence. }
    destruct (i_unst s I j A B') as [y [w' E]]. exists y, w'.
    rewrite upd_other; [exact E|]. intro; subst. congruence.
  - intros j. unfold upd. destruct (Nat.eqb_spec j i) as [->|Hne]; cbn; apply (i_open s I).
  - intros j y. unfold upd at 1 2 4. destruct (Nat.eqb_spec j i) as [->|Hne]; cbn;
      intros A B; destruct (i_tear s I _ y A B) as [C D]; (split; [|exact D]);
      (rewrite upd_other; [exact C|]; intro; subst; rewrite Hpc in C; discriminate).
  - intros j. unfold upd. destruct (Nat.eqb_spec j i) as [->|Hne]; cbn; apply (i_cb s I).
  - intros j. unfold upd. destruct (Nat.eqb_spec j i) as [->|Hne]; cbn; apply (i_canc s I).
  - intros j. unfold upd. destruct (Nat.eqb_spec j i) as [->|Hne]; cbn; [|apply (i_tcl s I)].
    intro A. split; [reflexivity|]. apply (i_tcl s I). exact A.
  - intros j A. rewrite upd_other by lia. apply (i_fresh s I). exact A.
  - intro y. unfold upd at 1. destruct (Nat.eqb_spec y t) as [->|Hy].
    + constructor; cbn; intros; try discriminate.
      * destruct H; discriminate.
      * inversion H; subst. rewrite upd_same. auto.
    + eapply pc_ok_other with (s := s) (i0 := i);
        [apply (i_pc s I y) | reflexivity | reflexivity | | | | | | ].
      * intros [[w' E]|[w' [i' E]]];
          [apply (k_create _ _ _ (i_pc s I y) _ E) | apply (k_store _ _ _ (i_pc s I y) _ _ E)].
      * cbn. auto.
      * intros [w' E]. destruct (k_store _ _ _ (i_pc s I y) _ _ E) as [_ [A _]]. cbn. exact A.
      * cbn. auto.
      * cbn. auto.
      * cbn. auto.
Qed.

Lemma iinv_finish s t i p' : IInv s ->
  (pcs s t = CFinish i \/ pcs s t = DFinish i) -> (p' = CCallback i \/ p' = DCallback i) ->
  let x := insts s i in
  let x' := {| closing := closing x; cstarted := cstarted x; destroyed := destroyed x;
               cancelled := true; stored := stored x; tearer := tearer x; cbdone := cbdone x |} in
  IInv (set_pc (set_inst s i x') t p').
Proof.
  intros I Hpc Hp' x x'. subst x' x.
  assert (Htd : tdpc (pcs s t) = Some i) by (destruct Hpc as [E|E]; rewrite E; reflexivity).
  destruct (k_tdpc _ _ _ (i_pc s I t) i Htd) as [Hte [Hcb Hlt]].
  assert (Htd' : tdpc p' = Some i) by (destruct Hp'; subst; reflexivity).
  constructor; cbn.
  - intros j A. destruct (i_map s I j A) as [B C]. split; [exact B|].
    unfold upd. destruct (Nat.eqb_spec j i) as [->|Hne]; cbn; congruence.
  - intros j A B. assert (B' : stored (insts s j) = false).
    { unfold upd in B. destruct (Nat.eqb_spec j i) as [->|Hne]; cbn in B; congruence. }
    destruct (i_unst s I j A B') as [y [w' E]]. exists y, w'.
    rewrite upd_other; [exact E|]. intro; subst. rewrite E in Htd. discriminate.
  - intros j. unfold upd. destruct (Nat.eqb_spec j i) as [->|Hne]; cbn; apply (i_open s I).
  - intros j y. unfold upd at 1 2 4. destruct (Nat.eqb_spec j i) as [->|Hne]; cbn.
    + intros A B. destruct (i_tear s I _ y A B) as [C D]. split; [|exact D].
      assert (y = t) by congruence. subst y. rewrite upd_same. exact Htd'.
    + intros A B. destruct (i_tear s I _ y A B) as [C D]. split; [|exact D].
      rewrite upd_other; [exact C|]. intro; subst. congruence.
  - intros j. unfold upd. destruct (Nat.eqb_spec j i) as [->|Hne]; cbn; [reflexivity|apply (i_cb s I)].
  - intros j. unfold upd. destruct (Nat.eqb_spec j i) as [->|Hne]; cbn; [|apply (i_canc s I)].
    intros _. congruence.
  - intros j. unfold upd. destruct (Nat.eqb_spec j i) as [->|Hne]; cbn; apply (i_tcl s I).
  - intros j A. rewrite upd_other by lia. apply (i_fresh s I). exact A.
  - intro y. unfold upd at 1. destruct (Nat.eqb_spec y t) as [->|Hy].
    + constructor; cbn; intros; destruct Hp'; subst; try discriminate;
        try (simpl in H; inversion H; subst; rewrite upd_same; cbn; auto);
        try (destruct H as [H|H]; inversion H; subst; rewrite upd_same; reflexivity).
    + eapply pc_ok_other with (s := s) (i0 := i);
        [apply (i_pc s I y) | reflexivity | reflexivity | | | | | | ].
      * intros [[w' E]|[w' [i' E]]];
          [apply (k_create _ _ _ (i_pc s I y) _ E) | apply (k_store _ _ _ (i_pc s I y) _ _ E)].
      * cbn. auto.
      * intros [w' E]. destruct (k_store _ _ _ (i_pc s I y) _ _ E) as [_ [A _]]. cbn. exact A.
      * cbn. auto.
      * cbn. auto.
      * cbn. auto.
Qed.

Lemma iinv_callback s t i : IInv s ->
  (pcs s t = CCallback i \/ pcs s t = DCallback i) ->
  let x := insts s i in
  let x' := {| closing := closing x; cstarted := cstarted x; destroyed := destroyed x;
               cancelled := cancelled x; stored := stored x; tearer := tearer x; cbdone := true |} in
  IInv (set_pc (set_map (set_inst s i x') None) t Done).
Proof.
  intros I Hpc x x'. subst x' x.
  assert (Htd : tdpc (pcs s t) = Some i) by (destruct Hpc as [E|E]; rewrite E; reflexivity).
  destruct (k_tdpc _ _ _ (i_pc s I t) i Htd) as [Hte [Hcb Hlt]].
  assert (Hca : cancelled (insts s i) = true) by (apply (k_cbpc _ _ _ (i_pc s I t)); exact Hpc).
  (* the map can only hold i *)
  assert (Honly : forall j, mapi s = Some j -> j = i).
  { intros j A. destruct (i_tear s I i t Hte Hcb) as [_ D].
    destruct (stored (insts s i)) eqn:S; [specialize (D eq_refl); congruence|].
    destruct (i_unst s I i Hlt S) as [y [w' E]].
    destruct (k_store _ _ _ (i_pc s I y) _ _ E) as [F _]. congruence. }
  constructor; cbn.
  - discriminate.
  - intros j A B. assert (B' : stored (insts s j) = false).
    { unfold upd in B. destruct (Nat.eqb_spec j i) as [->|Hne]; cbn in B; congruence. }
    destruct (i_unst s I j A B') as [y [w' E]]. exists y, w'.
    rewrite upd_other; [exact E|]. intro; subst. rewrite E in Htd. discriminate.
  - intros j. unfold upd. destruct (Nat.eqb_spec j i) as [->|Hne]; cbn.
    + intros _ A. congruence.
    + intros A B. exfalso. apply Hne, Honly. apply (i_open s I); assumption.
  - intros j y. unfold upd at 1 2 4. destruct (Nat.eqb_spec j i) as [->|Hne]; cbn; [discriminate|].
    intros A B. destruct (i_tear s I _ y A B) as [C D]. split.
    + rewrite upd_other; [exact C|]. intro; subst. congruence.
    + intro E. exfalso. apply Hne, Honly, D, E.
  - intros j. unfold upd. destruct (Nat.eqb_spec j i) as [->|Hne]; cbn; [auto|apply (i_cb s I)].
  - intros j. unfold upd. destruct (Nat.eqb_spec j i) as [->|Hne]; cbn; apply (i_canc s I).
  - intros j. unfold upd. destruct (Nat.eqb_spec j i) as [->|Hne]; cbn; apply (i_tcl s I).
  - intros j A. rewrite upd_other by lia. apply (i_fresh s I). exact A.
  - intro y. unfold upd at 1. destruct (Nat.eqb_spec y t) as [->|Hy].
    + apply pc_ok_triv; try reflexivity; intros; discriminate.
    + eapply pc_ok_other with (s := s) (i0 := i);
        [apply (i_pc s I y) | reflexivity | reflexivity | | | | | | ].
      * intros _. reflexivity.
      * cbn. auto.
      * intros [w' E]. destruct (k_store _ _ _ (i_pc s I y) _ _ E) as [_ [A _]]. cbn. exact A.
      * intro A. exfalso. apply Hy. congruence.
      * cbn. auto.
      * cbn. auto.
Qed.

Lemma leave_insts s t w r : insts (leave_fixed s t w r) = insts s.
Proof. unfold leave_fixed. destruct (Z.eqb _ 0); reflexivity. Qed.
Lemma leave_ninst s t w r : ninst (leave_fixed s t w r) = ninst s.
Proof. unfold leave_fixed. destruct (Z.eqb _ 0); reflexivity. Qed.
Lemma leave_mapi s t w r : mapi (leave_fixed s t w r) = mapi s.
Proof. unfold leave_fixed. destruct (Z.eqb _ 0); reflexivity. Qed.
Lemma leave_pcs s t w r : pcs (leave_fixed s t w r) = pcs s.
Proof. unfold leave_fixed. destruct (Z.eqb _ 0); reflexivity. Qed.

Ltac ftriv := apply pc_ok_triv; try reflexivity; intros; discriminate.
Ltac iframe I t Hpc :=
  eapply iinv_frame with (t := t);
  [exact I | cbn; rewrite ?leave_pcs; reflexivity | cbn; rewrite ?leave_insts; reflexivity
  | cbn; rewrite ?leave_ninst; reflexivity | cbn; rewrite ?leave_mapi; reflexivity
  | rewrite Hpc; intros; discriminate | rewrite Hpc; reflexivity | ].

Lemma iinv_tstep s t s' l : SInv s -> IInv s -> late_destroy s t = false ->
  tstep true s t = Some (s', l) -> IInv s'.
Proof.
  intros SI I Hok H. unfold tstep in H. unfold late_destroy in Hok.
  destruct (pcs s t) eqn:Hpc; try discriminate.
  - (* SLoad *) destruct (cur s); inversion H; subst; clear H; iframe I t Hpc; ftriv.
  - (* SLock *)
    destruct (dead (slots s w)); [inversion H; subst; clear H; iframe I t Hpc; ftriv|].
    destruct (ready (slots s w)); [destruct (abort s t)|]; inversion H; subst; clear H; iframe I t Hpc; ftriv.
  - (* SWait *)
    destruct (Nat.eqb (gen (slots s w)) g); [discriminate|].
    destruct (ready (slots s w)); [destruct (abort s t)|]; inversion H; subst; clear H; iframe I t Hpc; ftriv.
  - (* SBody *)
    destruct (abort s t); [inversion H; subst; clear H; iframe I t Hpc; ftriv|].
    destruct (mapi s) as [i|] eqn:Hm; inversion H; subst; clear H; iframe I t Hpc.
    + constructor; intros; try discriminate.
      * destruct H; discriminate.
      * inversion H; subst. destruct (i_map s I _ Hm). auto.
    + constructor; intros; try discriminate.
      * exact Hm.
      * destruct H; discriminate.
  - (* SFound *)
    destruct (closing (insts s i)); inversion H; subst; clear H; iframe I t Hpc; ftriv.
  - (* SWaitClose *)
    destruct (cancelled (insts s i)); [inversion H; subst; clear H; iframe I t Hpc; ftriv|].
    destruct (abort s t); inversion H; subst; clear H; iframe I t Hpc; ftriv.
  - (* SCreate *) inversion H; subst; clear H. apply iinv_create; assumption.
  - (* SStore *) inversion H; subst; clear H. apply iinv_store; assumption.
  - (* SExit *) inversion H; subst; clear H. iframe I t Hpc; ftriv.
  - (* CGate *)
    destruct (Nat.ltb_spec i (ninst s)) as [Hlt|]; [|discriminate].
    destruct (closing (insts s i)) eqn:Hcl; inversion H; subst; clear H.
    + iframe I t Hpc; ftriv.
    + apply iinv_gate; auto; try (rewrite Hpc; intros; discriminate); try (rewrite Hpc; reflexivity).
      destruct (tearer_none_dec (insts s i)) as [A|A]; [exact A|].
      apply (i_tcl s I) in A. destruct A as [A _]. congruence.
  - (* CFinish *) inversion H; subst; clear H. apply iinv_finish; auto.
  - (* CCallback *) inversion H; subst; clear H. apply iinv_callback; auto.
  - (* DMark *)
    destruct (Nat.ltb_spec i (ninst s)) as [Hlt|]; [|discriminate].
    inversion H; subst; clear H. apply iinv_mark; auto.
  - (* DGate *)
    destruct (k_dgate _ _ _ (i_pc s I t) i Hpc) as [Hcl Hlt].
    destruct (destroyed (insts s i)) eqn:Hde; inversion H; subst; clear H.
    + iframe I t Hpc; ftriv.
    + apply iinv_gate; auto; try (rewrite Hpc; intros; discriminate); try (rewrite Hpc; reflexivity).
      destruct (tearer_none_dec (insts s i)) as [A|A]; [exact A|].
      apply (i_tcl s I) in A. destruct A as [_ [A|A]]; [|congruence].
      rewrite A in Hok. discriminate.
  - (* DFinish *) inversion H; subst; clear H. apply iinv_finish; auto.
  - (* DCallback *) inversion H; subst; clear H. apply iinv_callback; auto.
  - (* KCancel *) inversion H; subst; clear H. iframe I t Hpc; ftriv.
Qed.

(* ================= all schedules ================= *)

Definition Inv (s : st) : Prop := SInv s /\ IInv s.

Lemma start_reg p : reg (start p) = None /\ insec (start p) = None /\ sref (start p) = None.
Proof. destruct p; simpl; auto. Qed.

Lemma inv_init progs : Inv (init progs).
Proof.
  split.
  - constructor; cbn.
    + discriminate.
    + intros w A. lia.
    + reflexivity.
    + reflexivity.
    + intros w. constructor.
    + intros w t. destruct (start_reg (progs t)) as [A _]. rewrite A. split; [intros []|discriminate].
    + reflexivity.
    + intros w t. destruct (start_reg (progs t)) as [_ [A _]]. rewrite A. discriminate.
    + intros t w. destruct (start_reg (progs t)) as [_ [_ A]]. rewrite A. discriminate.
  - constructor; cbn.
    + discriminate.
    + intros i A. lia.
    + discriminate.
    + discriminate.
    + discriminate.
    + discriminate.
    + intros i A. congruence.
    + reflexivity.
    + intro t. apply pc_ok_triv; destruct (progs t); try reflexivity; intros; discriminate.
Qed.

Lemma inv_run sched : forall s, Inv s -> no_late_destroy true s sched = true -> Inv (run true s sched).
Proof.
  induction sched as [|t r IH]; intros s [SI I] H; simpl in *; [split; assumption|].
  apply andb_true_iff in H. destruct H as [H1 H2]. apply negb_true_iff in H1.
  destruct (tstep true s t) as [[s' l]|] eqn:E.
  - apply IH; [|exact H2]. split; [eapply sinv_tstep; eauto | eapply iinv_tstep; eauto].
  - apply IH; [split; assumption|exact H2].
Qed.

Lemma inv_single s : Inv s -> forall i j, live s i -> live s j -> i = j.
Proof.
  intros [SI I] i j [Li Ci] [Lj Cj].
  assert (M : forall k, k < ninst s -> cancelled (insts s k) = false ->
              stored (insts s k) = true -> mapi s = Some k).
  { intros k Lk Ck Sk. destruct (tearer (insts s k)) as [x|] eqn:T.
    - destruct (cbdone (insts s k)) eqn:B.
      + apply (i_cb s I) in B. congruence.
      + apply (i_tear s I k x T B). exact Sk.
    - apply (i_open s I); assumption. }
  assert (U : forall k, k < ninst s -> stored (insts s k) = false ->
              mapi s = None /\ exists x w, pcs s x = SStore w k).
  { intros k Lk Sk. destruct (i_unst s I k Lk Sk) as [x [w E]]. split; [|eauto].
    apply (k_store _ _ _ (i_pc s I x) _ _ E). }
  destruct (stored (insts s i)) eqn:Si; destruct (stored (insts s j)) eqn:Sj.
  - assert (A := M i Li Ci Si). assert (B := M j Lj Cj Sj). congruence.
  - assert (A := M i Li Ci Si). destruct (U j Lj Sj) as [B _]. congruence.
  - assert (A := M j Lj Cj Sj). destruct (U i Li Si) as [B _]. congruence.
  - destruct (U i Li Si) as [_ [x [w E]]]. destruct (U j Lj Sj) as [_ [y [w' F]]].
    destruct (mutex s x y w w' SI) as [A _]; [rewrite E; reflexivity|rewrite F; reflexivity|].
    subst y. congruence.
Qed.

Lemma inv_returns_current s t w i : Inv s ->
  pcs s t = SFound w i -> closing (insts s i) = false -> mapi s = Some i /\ live s i.
Proof.
  intros [SI I] Hpc Hcl.
  destruct (k_found _ _ _ (i_pc s I t) _ _ Hpc) as [Hst Hlt].
  assert (T : tearer (insts s i) = None).
  { destruct (tearer_none_dec (insts s i)) as [A|A]; [exact A|].
    apply (i_tcl s I) in A. destruct A. congruence. }
  split; [apply (i_open s I); assumption|]. split; [exact Hlt|].
  destruct (cancelled (insts s i)) eqn:C; [|reflexivity].
  apply (i_canc s I) in C. congruence.
Qed.

Theorem summon_single_instance : forall progs sched,
  no_late_destroy true (init progs) sched = true ->
  forall i j, live (run true (init progs) sched) i -> live (run true (init progs) sched) j -> i = j.
Proof. intros progs sched H. apply inv_single. apply inv_run; [apply inv_init|exact H]. Qed.

Theorem summon_returns_current : forall progs sched t w i,
  no_late_destroy true (init progs) sched = true ->
  let s := run true (init progs) sched in
  pcs s t = SFound w i -> closing (insts s i) = false -> mapi s = Some i /\ live s i.
Proof. intros progs sched t w i H s. apply inv_returns_current. apply inv_run; [apply inv_init|exact H]. Qed.

Theorem summon_section_exclusive : forall progs sched t t' w w',
  no_late_destroy true (init progs) sched = true ->
  let s := run true (init progs) sched in
  insec (pcs s t) = Some w -> insec (pcs s t') = Some w' -> t = t' /\ w = w'.
Proof.
  intros progs sched t t' w w' H s. apply mutex.
  apply (inv_run sched (init progs) (inv_init progs) H).
Qed.

(* the slot part does not depend on the close/destroy hypothesis at all *)
Lemma sinv_run sched : forall s, SInv s -> SInv (run true s sched).
Proof.
  induction sched as [|t r IH]; intros s SI; simpl; [assumption|].
  destruct (tstep true s t) as [[s' l]|] eqn:E; [apply IH; eapply sinv_tstep; eauto|apply IH; assumption].
Qed.

Theorem summon_slot_accounting : forall progs sched w,
  let s := run true (init progs) sched in
  count (slots s w) = Z.of_nat (length (owners (slots s w))) /\
  (forall t, In t (owners (slots s w)) <-> reg (pcs s t) = Some w) /\
  (cur s = Some w <-> w < nslots s /\ dead (slots s w) = false) /\
  (dead (slots s w) = true -> count (slots s w) = 0%Z).
Proof.
  intros progs sched w s.
  assert (SI : SInv s) by (apply sinv_run; apply (inv_init progs)).
  split; [apply (s_cnt s SI)|]. split; [intro t; apply (s_own s SI)|]. split.
  - split; [apply (s_cur s SI)|intros [A B]; apply (s_alive s SI); assumption].
  - intro D. rewrite (s_cnt s SI). rewrite (s_dead s SI w D). reflexivity.
Qed.

(* ---- refutations ---- *)
Theorem summon_two_live_old_accounting :
  exists progs sched, nlive (run false (init progs) sched) = 2.
Proof. exists (progs_of witness_progs), witness_old. vm_compute. reflexivity. Qed.

Theorem summon_slot_leak_old_accounting :
  exists progs sched, let s := run false (init progs) sched in
    count (slots s 0) = (-2)%Z /\ cur s = Some 0 /\ pcs s 0 = SDone (Some 0) /\ pcs s 1 = SDone (Some 0).
Proof.
  exists (progs_of [PSummon; PSummon]), [0;0;0;0;0;0;0;0;0; 1;1;1;1;1;1;1]. vm_compute. auto.
Qed.

Theorem summon_two_live_late_destroy :
  exists progs sched, nlive (run true (init progs) sched) = 2 /\
                      no_late_destroy true (init progs) sched = false.
Proof. exists (progs_of witness_late_progs), witness_late. vm_compute. auto. Qed.

Lemma live_count s n : (forall i j, i < n -> j < n -> cancelled (insts s i) = false ->
                          cancelled (insts s j) = false -> i = j) -> count_live s n <= 1.
Proof.
  induction n as [|k IH]; intro H; simpl; [lia|].
  destruct (cancelled (insts s k)) eqn:C.
  - simpl. apply IH. intros i j A B. apply H; lia.
  - assert (Z : count_live s k = 0).
    { clear IH. assert (forall m, m <= k -> count_live s m = 0) as G; [|apply G; lia].
      induction m as [|m IHm]; intro Hm; simpl; [reflexivity|].
      destruct (cancelled (insts s m)) eqn:Cm; [apply IHm; lia|].
      assert (m = k) by (apply H; try lia; assumption). lia. }
    lia.
Qed.

Theorem summon_nlive_le_1 : forall progs sched,
  no_late_destroy true (init progs) sched = true -> nlive (run true (init progs) sched) <= 1.
Proof.
  intros progs sched H. unfold nlive. apply live_count.
  intros i j A B C D. eapply summon_single_instance; eauto; split; assumption.
Qed.

(* non-vacuity: the old-accounting witness schedule satisfies the hypothesis, has a waiting
   summoner, a destroy, and ends with two instances constructed of which one is live (not yet stored) *)
Example summon_hyp_satisfiable :
  let s := run true (init (progs_of witness_progs)) witness_old in
  no_late_destroy true (init (progs_of witness_progs)) witness_old = true /\
  ninst s = 2 /\ nlive s = 1 /\ mapi s = None.
Proof. vm_compute. auto. Qed.
