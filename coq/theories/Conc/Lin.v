(* Conc/Lin.v — C09: write RPCs as thread programs over one shared record protected by the
   record guard of Conc/Guard.v (C15), plus the small sequential meaning of the RPC alphabet
   and the certificate checker used by the correspondence harness.  Model only, no proofs.

   Code modelled (app/core/hydra/swamp/swamp.go IncrementXxx, swamp_patch.go PatchFields,
   app/server/gateway/gateway.go Set): every write RPC on an existing record object is
       guardID := t.StartTreasureGuard(true)          PInit -> PWait -> PIn   (enqueue ; return)
       v := t.GetContent...()                         PIn -> PRead            (read of the shared record)
       t.SetContent...(guardID, f v)                  PRead -> PWritten       (write; the linearization point)
       t.Save(guardID)                                PWritten -> PSaved      (SaveFunction: when writeInterval = 0
                                                                               and the swamp is persistent it calls
                                                                               t.ReleaseTreasureGuard(guardID) itself)
       t.ReleaseTreasureGuard(guardID)   (deferred)   PSaved -> PDone         (the caller releases the same id (again))
   Every unprotected access of the record is a step of its own (DESIGN M6); the guard methods
   are the atomic steps of Conc/Guard.v.  [reset] is the id policy of Guard.v (false = current
   code, true = the pinned commit, kept for the refutation only). *)
From HV Require Import Base.Prelude Conc.Guard.
Local Open Scope Z_scope.

(* ---- sequential meaning of the RPC alphabet on one key ---------------------------------- *)

Inductive val :=
| VI (z : Z)      (* Int64 content *)
| VM (z : Z)      (* ByteArray content: msgpack map {"n": z} *)
| VV.             (* a record object whose content is void (never stored by the alphabet below;
                     it only shows up in responses that hand out a removed record object) *)
Definition kst := option val.                  (* None = key absent / content void *)

Inductive op :=
| OSet (v : val)                    (* Set, CreateIfNotExist+Overwrite *)
| OInc (d : Z)                      (* IncrementInt64 by d, no condition *)
| OIncIf (c : N) (cv : Z) (d : Z)   (* IncrementInt64 by d if "current c cv" (c: 0 = 1 > 2 >= 3 < 4 <= 5 <>) *)
| OShiftM (thr : Z)                 (* ShiftMatchingTreasures, filter "Int64 value > thr", all matches *)
| ODel                              (* Delete *)
| OShift                            (* ShiftByKeys [key] (CloneAndDeleteTreasuresByKeys) *)
| OPatch (create : bool) (d : Z)    (* PatchTreasures: INC "n" by d, CreateIfNotExist = create *)
| OGet.                             (* Get *)

Inductive resp :=
| RSet (isnew : bool)               (* NEW | UPDATED/NOTHING_CHANGED (not distinguished: C06's sticky flags) *)
| RInc (v : Z)
| RIncNo (v : Z)                    (* condition not met: the current value, nothing changed *)
| RShiftM (v : kst)                 (* this key's record in the reply of the matching shift, None = not taken *)
| RErr                              (* increment on a non-int64 record *)
| RDel (found : bool)               (* DELETED | NOT_FOUND *)
| RShift (v : kst)                  (* the shifted value, None when the key was absent *)
| RPatch (code : N)                 (* 0 PATCHED 1 CREATED 2 KEY_NOT_FOUND 5 TYPE_MISMATCH *)
| RGet (v : kst).

(* Go's int64 wrap-around *)
Definition wrap64 (z : Z) : Z :=
  (z + 9223372036854775808) mod 18446744073709551616 - 9223372036854775808.

Definition is_some {A} (o : option A) : bool := match o with Some _ => true | None => false end.

Definition cond_holds (c : N) (cv v : Z) : bool :=
  match c with
  | 0%N => Z.eqb v cv | 1%N => Z.ltb cv v | 2%N => Z.leb cv v
  | 3%N => Z.ltb v cv | 4%N => Z.leb v cv | _ => negb (Z.eqb v cv)
  end.

(* does a record satisfy the filter of OShiftM thr *)
Definition shiftm_match (thr : Z) (s : kst) : bool :=
  match s with Some (VI z) => Z.ltb thr z | _ => false end.

Definition seq_step (s : kst) (o : op) : kst * resp :=
  match o with
  | OSet v => (Some v, RSet (negb (is_some s)))
  | OInc d =>
      match s with
      | None | Some VV => (Some (VI (wrap64 d)), RInc (wrap64 d))
      | Some (VI v) => (Some (VI (wrap64 (v + d))), RInc (wrap64 (v + d)))
      | Some (VM _) => (s, RErr)
      end
  | OIncIf c cv d =>
      (* the code reads a void/absent record as 0; a rejected increment saves nothing *)
      match s with
      | None | Some VV => if cond_holds c cv 0 then (Some (VI (wrap64 d)), RInc (wrap64 d)) else (s, RIncNo 0)
      | Some (VI v) => if cond_holds c cv v then (Some (VI (wrap64 (v + d))), RInc (wrap64 (v + d))) else (s, RIncNo v)
      | Some (VM _) => (s, RErr)
      end
  | OShiftM thr => if shiftm_match thr s then (None, RShiftM s) else (s, RShiftM None)
  | ODel => (None, RDel (is_some s))
  | OShift => (None, RShift s)
  | OPatch cr d =>
      match s with
      | None | Some VV => if cr then (Some (VM (wrap64 d)), RPatch 1) else (s, RPatch 2)
      | Some (VM v) => (Some (VM (wrap64 (v + d))), RPatch 0)
      | Some (VI _) => (s, RPatch 5)
      end
  | OGet => (s, RGet s)
  end.

Fixpoint seq_run (s : kst) (l : list op) : kst * list resp :=
  match l with
  | [] => (s, [])
  | o :: t => let '(s1, r) := seq_step s o in
              let '(s2, rs) := seq_run s1 t in (s2, r :: rs)
  end.

(* ---- the protocol, parametric in the state and the read-modify-write function ----------- *)

Section Protocol.
Variables (St Op Rs : Type).
Variable sem : St -> Op -> St * Rs.

Inductive pc :=
| PInit
| PWait
| PIn (id : Z)
| PRead (id : Z) (r : St)
| PWritten (id : Z) (rs : Rs)
| PSaved (id : Z) (rs : Rs)
| PDone (rs : Rs).

Record thread := { t_op : Op; t_imm : bool; t_pc : pc; t_inv : nat; t_ret : nat }.

(* one guarded section, appended to the log at its write step *)
Record lentry := { l_c : client; l_op : Op; l_read : St; l_write : St; l_resp : Rs; l_time : nat }.

Record world := {
  w_g   : Guard.st;        (* the record's guard, with the C15 bookkeeping *)
  w_val : St;              (* the record's content *)
  w_log : list lentry;     (* completed read-modify-write sections, oldest first *)
  w_now : nat;             (* number of steps taken so far (logical clock) *)
  w_thr : list thread      (* any number of threads; thread c is client c of the guard *)
}.

Definition new_thread (o : Op) (imm : bool) : thread :=
  {| t_op := o; t_imm := imm; t_pc := PInit; t_inv := 0; t_ret := 0 |}.

Definition winit (s0 : St) (prog : list (Op * bool)) : world :=
  {| w_g := Guard.init; w_val := s0; w_log := []; w_now := 0;
     w_thr := map (fun p => new_thread (fst p) (snd p)) prog |}.

Fixpoint upd_nth {A} (n : nat) (x : A) (l : list A) : list A :=
  match l, n with
  | [], _ => []
  | _ :: t, O => x :: t
  | y :: t, S k => y :: upd_nth k x t
  end.

Definition set_pc (t : thread) (p : pc) : thread :=
  {| t_op := t_op t; t_imm := t_imm t; t_pc := p; t_inv := t_inv t; t_ret := t_ret t |}.

Definition put (w : world) (c : nat) (g' : Guard.st) (v' : St) (log' : list lentry) (t' : thread) : world :=
  {| w_g := g'; w_val := v'; w_log := log'; w_now := S (w_now w); w_thr := upd_nth c t' (w_thr w) |}.

(* one step of thread c; None = c is not enabled (blocked in the guard queue, finished, or
   no such thread) *)
Definition tstep (reset : bool) (w : world) (c : nat) : option world :=
  match nth_error (w_thr w) c with
  | None => None
  | Some t =>
      match t_pc t with
      | PInit =>
          match Guard.step reset (w_g w) (EStartW c) with
          | Some g' => Some (put w c g' (w_val w) (w_log w)
                         {| t_op := t_op t; t_imm := t_imm t; t_pc := PWait; t_inv := w_now w; t_ret := 0 |})
          | None => None
          end
      | PWait =>
          match lookup_client c (pend (w_g w)), Guard.step reset (w_g w) (EReturn c) with
          | Some id, Some g' => Some (put w c g' (w_val w) (w_log w) (set_pc t (PIn id)))
          | _, _ => None
          end
      | PIn id => Some (put w c (w_g w) (w_val w) (w_log w) (set_pc t (PRead id (w_val w))))
      | PRead id r =>
          let s' := fst (sem r (t_op t)) in
          let rs := snd (sem r (t_op t)) in
          Some (put w c (w_g w) s'
                  (w_log w ++ [{| l_c := c; l_op := t_op t; l_read := r; l_write := s';
                                  l_resp := rs; l_time := w_now w |}])
                  (set_pc t (PWritten id rs)))
      | PWritten id rs =>
          if t_imm t then
            match Guard.step reset (w_g w) (ERelease c id) with
            | Some g' => Some (put w c g' (w_val w) (w_log w) (set_pc t (PSaved id rs)))
            | None => None
            end
          else Some (put w c (w_g w) (w_val w) (w_log w) (set_pc t (PSaved id rs)))
      | PSaved id rs =>
          match Guard.step reset (w_g w) (ERelease c id) with
          | Some g' => Some (put w c g' (w_val w) (w_log w)
                         {| t_op := t_op t; t_imm := t_imm t; t_pc := PDone rs; t_inv := t_inv t; t_ret := w_now w |})
          | None => None
          end
      | PDone _ => None
      end
  end.

(* a schedule is any list of thread numbers; a choice that is not enabled is skipped *)
Fixpoint wrun (reset : bool) (w : world) (sched : list nat) : world :=
  match sched with
  | [] => w
  | c :: t => match tstep reset w c with Some w' => wrun reset w' t | None => wrun reset w t end
  end.

Definition past_write (p : pc) : bool :=
  match p with PWritten _ _ | PSaved _ _ | PDone _ => true | _ => false end.

Definition is_done (p : pc) : bool := match p with PDone _ => true | _ => false end.

Definition all_done (w : world) : bool := forallb (fun t => is_done (t_pc t)) (w_thr w).

End Protocol.

Arguments t_op {St Op Rs}. Arguments t_imm {St Op Rs}. Arguments t_pc {St Op Rs}.
Arguments t_inv {St Op Rs}. Arguments t_ret {St Op Rs}. Arguments Build_thread {St Op Rs}.
Arguments l_c {St Op Rs}. Arguments l_op {St Op Rs}. Arguments l_read {St Op Rs}.
Arguments l_write {St Op Rs}. Arguments l_resp {St Op Rs}. Arguments l_time {St Op Rs}.
Arguments Build_lentry {St Op Rs}.
Arguments w_g {St Op Rs}. Arguments w_val {St Op Rs}. Arguments w_log {St Op Rs}.
Arguments w_now {St Op Rs}. Arguments w_thr {St Op Rs}. Arguments Build_world {St Op Rs}.
Arguments set_pc {St Op Rs}. Arguments put {St Op Rs}. Arguments tstep {St Op Rs}.
Arguments wrun {St Op Rs}. Arguments past_write {St Rs}. Arguments is_done {St Rs}.
Arguments all_done {St Op Rs}.
Arguments PInit {St Rs}.
Arguments PWait {St Rs}.
Arguments PIn {St Rs}.
Arguments PRead {St Rs}.
Arguments PWritten {St Rs}.
Arguments PSaved {St Rs}.
Arguments PDone {St Rs}.

(* sequential replay of a log: the state after the sections and the list of responses *)
Fixpoint sem_run {St Op Rs} (sem : St -> Op -> St * Rs) (s : St) (l : list Op) : St * list Rs :=
  match l with
  | [] => (s, [])
  | o :: t => let s1 := fst (sem s o) in let r := snd (sem s o) in
              let q := sem_run sem s1 t in (fst q, r :: snd q)
  end.

(* ---- instance used for C09: the RPC alphabet over one key ------------------------------- *)

Definition kworld := world kst op resp.
Definition kinit := winit kst op resp.
Definition kstep := @tstep kst op resp seq_step.
Definition krun := @wrun kst op resp seq_step.

(* the lost-update schedule of the pinned commit (ids reset when the queue empties), three
   incrementers in immediate-write mode: A runs through its Save (which releases id 1 and
   empties the queue, so ids restart), B starts, gets id 1 again and reads; A's deferred
   release of id 1 pops B; C enters while B is inside, reads the same value, both write. *)
Definition lost_update_prog : list (op * bool) := [(OInc 1, true); (OInc 1, true); (OInc 1, true)].
Definition lost_update_sched : list nat :=
  [0;0;0;0;0;  1;1;1;  0;  2;2;2;2;2;2;  1;1;1]%nat.

(* ---- correspondence: certificate check of one recorded per-key history ------------------ *)

(* one completed request as observed by the harness: operation, response, invocation and
   response time stamps (any monotone clock; only their order is used) *)
Record hop := { h_op : op; h_resp : resp; h_inv : N; h_ret : N }.

Definition val_eqb (a b : val) : bool :=
  match a, b with
  | VI x, VI y => Z.eqb x y
  | VM x, VM y => Z.eqb x y
  | VV, VV => true
  | _, _ => false
  end.
Definition kst_eqb := option_eqb val_eqb.

Definition resp_eqb (a b : resp) : bool :=
  match a, b with
  | RSet x, RSet y => Bool.eqb x y
  | RInc x, RInc y => Z.eqb x y
  | RIncNo x, RIncNo y => Z.eqb x y
  | RShiftM x, RShiftM y => kst_eqb x y
  | RErr, RErr => true
  | RDel x, RDel y => Bool.eqb x y
  | RShift x, RShift y => kst_eqb x y
  | RPatch x, RPatch y => N.eqb x y
  | RGet x, RGet y => kst_eqb x y
  | _, _ => false
  end.

(* Relaxed sequential meanings, used ONLY to classify a history that has no linearization
   under [seq_step] into a precise known-finding class: the harness proposes the class and an
   order in which some elements are flagged "deviating"; Coq validates that the history is
   explained by exactly the named deviations.  The state carries a ghost = the content of the
   record object most recently removed from the key map (a writer that looked the object up
   before the removal still holds it).
     relax 0 : the specification [seq_step] (flags are ignored)
     relax 1 : a flagged Delete answers DELETED although the key is absent
               (DeleteTreasure checks existence before, and outside, the guarded removal)
     relax 2 : additionally a flagged Set/Increment/Patch runs on the ghost object; when the
               key is absent the object is published again (SaveFunction sees no entry), when
               the key is present the visible record is untouched (the update is lost)
     relax 3 : additionally a flagged ShiftByKeys may return any value (its clone and its
               removal are two separately guarded sections) *)
Definition rstate := (kst * kst)%type.       (* (visible state, ghost) *)

Definition is_write (o : op) : bool :=
  match o with OSet _ | OInc _ | OIncIf _ _ _ | OPatch _ _ => true | _ => false end.

(* result: new state, response, "any response of the same kind is accepted" *)
Definition relaxed_step (relax : N) (flag : bool) (s : rstate) (o : op) : rstate * resp * bool :=
  let '(cur, ghost) := s in
  let removed := match cur with Some _ => cur | None => ghost end in
  match o with
  | ODel =>
      if flag && N.leb 1 relax && negb (is_some cur) then ((None, ghost), RDel true, false)
      else ((None, removed), RDel (is_some cur), false)
  | OShift =>
      if flag && N.leb 3 relax then ((None, removed), RShift cur, true)
      else ((None, removed), RShift cur, false)
  | OGet => (s, RGet cur, false)
  | OShiftM thr =>
      (* a matching shift removes like a Delete; flagged under relax 3 its clone may be stale
         (the oracle [shiftm_oracle] still demands that whatever it returns satisfies the filter) *)
      if flag && N.leb 3 relax then ((None, removed), RShiftM cur, true)
      else if shiftm_match thr cur then ((None, cur), RShiftM cur, false)
      else (s, RShiftM None, false)
  | _ =>
      if flag && N.leb 2 relax && is_some ghost then
        let '(g', r) := seq_step ghost o in
        let r' := match o with OSet _ => RSet (negb (is_some cur)) | _ => r end in
        match cur with
        | None => ((g', None), r', false)
        | Some _ => ((cur, g'), r', false)
        end
      else
        let '(s', r) := seq_step cur o in ((s', ghost), r, false)
  end.

(* a certificate: the per-key history, the proposed linear order (indices into the history,
   each with the deviation flag), the state before and after *)
Record lcase := {
  c_init  : kst;
  c_ops   : list hop;
  c_order : list (nat * bool);
  c_final : kst;
  c_relax : N
}.

Fixpoint mark_seen (n : nat) (seen : list bool) : option (list bool) :=
  match seen, n with
  | [], _ => None
  | b :: t, O => if b then None else Some (true :: t)
  | b :: t, S k => match mark_seen k t with Some t' => Some (b :: t') | None => None end
  end.

Definition same_kind (a b : resp) : bool :=
  match a, b with
  | RSet _, RSet _ | RInc _, RInc _ | RIncNo _, RIncNo _ | RShiftM _, RShiftM _ | RErr, RErr | RDel _, RDel _
  | RShift _, RShift _ | RPatch _, RPatch _ | RGet _, RGet _ => true
  | _, _ => false
  end.

(* walk the proposed order: every index is used exactly once, the real-time order is
   respected (no element of the order returned before an earlier element was invoked), and
   the sequential meaning reproduces every response.
   codes: 0 ok, 1 malformed certificate (not a permutation), 2 real-time order broken,
          3 a response differs from the sequential meaning, 4 final state differs *)
Fixpoint walk (relax : N) (ops : list hop) (order : list (nat * bool)) (seen : list bool)
              (maxinv : N) (s : rstate) : N * rstate * list bool :=
  match order with
  | [] => (0%N, s, seen)
  | (i, flag) :: rest =>
      match nth_error ops i, mark_seen i seen with
      | Some h, Some seen' =>
          if N.ltb (h_ret h) maxinv then (2%N, s, seen)
          else
            let '(s', r, anyr) := relaxed_step relax flag s (h_op h) in
            if (if anyr then same_kind r (h_resp h) else resp_eqb r (h_resp h))
            then walk relax ops rest seen' (N.max maxinv (h_inv h)) s'
            else (3%N, s, seen)
      | _, _ => (1%N, s, seen)
      end
  end.

Definition cert_code (c : lcase) : N :=
  let '(code, s, seen) :=
    walk (c_relax c) (c_ops c) (c_order c) (map (fun _ => false) (c_ops c)) 0%N (c_init c, None) in
  if negb (N.eqb code 0) then code
  else if negb (forallb (fun b => b) seen) then 1%N
  else if negb (kst_eqb (fst s) (c_final c)) then 4%N
  else 0%N.

(* verdict of a case: 0 = linearizable (certificate valid under the specification);
   1..4 = invalid certificate (mismatch: the untrusted search and the Coq meaning disagree);
   14 = a matching shift returned a record that does not satisfy its filter;
   15 = a Get or a shift handed out an int64 value that no request wrote;
   16 = the final state of the key is an indexed record with void content;
   11/12/13 = the harness found no linearization under the specification, but the history is
   explained by the named deviation class (a violation with that signature).  A history for
   which the search finds no explanation at all is reported by the harness itself. *)
(* oracle on the observations alone, independent of any order: a matching shift only hands
   out records that satisfy its filter (in every serial order the reply of
   ShiftMatching(value > thr) consists of matching records) *)
Definition shiftm_oracle (ops : list hop) : bool :=
  forallb (fun h => match h_op h, h_resp h with
                    | OShiftM thr, RShiftM (Some v) => shiftm_match thr (Some v)
                    | _, _ => true
                    end) ops.

(* second order-independent clause: an int64 value handed out by a Get or a shift was written
   by somebody - it is the initial value, the value of a Set, or the acknowledged result of an
   increment (every request of a history has returned, so every stored int64 is one of these) *)
Definition written_ints (init : kst) (ops : list hop) : list Z :=
  (match init with Some (VI z) => [z] | _ => [] end) ++
  flat_map (fun h => match h_op h, h_resp h with
                     | OSet (VI z), _ => [z]
                     | _, RInc z => [z]
                     | _, _ => []
                     end) ops.

Definition handed_out_oracle (init : kst) (ops : list hop) : bool :=
  let w := written_ints init ops in
  forallb (fun h => match h_resp h with
                    | RShift (Some (VI z)) | RShiftM (Some (VI z)) | RGet (Some (VI z)) => existsb (Z.eqb z) w
                    | _ => true
                    end) ops.

(* third order-independent clause: once every request has returned, a key is absent or holds a
   value; no serial order of the alphabet leaves an indexed record with void content (a record
   that a removal has emptied but that is still, or again, in the key index) *)
Definition final_not_void (final : kst) : bool :=
  match final with Some VV => false | _ => true end.

Definition check_case (c : lcase) : N :=
  if negb (final_not_void (c_final c)) then 16%N
  else
  if negb (shiftm_oracle (c_ops c)) then 14%N
  else if negb (handed_out_oracle (c_init c) (c_ops c)) then 15%N
  else
  if N.eqb (c_relax c) 9 then 0%N   (* no certificate: emitted for the record, verdict by the harness *)
  else
  match cert_code c with
  | 0%N => if N.eqb (c_relax c) 0 then 0%N else (10 + c_relax c)%N
  | k => k
  end.

Definition check_all (cases : list lcase) : list verdict := check_cases check_case cases.
