(* Conc/Buffer.v — executable model of the write buffer of ONE swamp instance
   (swamp.go: SaveFunction / deleteHandler / fileWriterHandler / Close's close-write),
   for any number of concurrently running writers, deleters and flushers. Model only.

   objs  : the record objects (treasures): key, current value, marked-for-deletion, written once
   cur   : beaconKey: the current record object of a key
   queue : treasuresWaitingForWriter: record objects, at most one per KEY (Add is a no-op when the
           key is present, Delete is by key)
   disk  : what the chronicler has been given (C01 abstracts the file); an object is serialised
           with the value it has at that moment
   A flusher (write tick, write-through of an immediate-write Save, the close-write of Close())
   is: collect the queued objects; dequeue them BY KEY; serialise them one by one; done. The
   "only one writer" flag of fileWriterHandler does not gate anything (its early return leaves
   only the inner closure), so flushers run concurrently - as modelled.

   [late] = false : the code: the batch leaves the queue BEFORE it is written
   [late] = true  : a variant that dequeues after the write (machine-checked refutation). *)
From HV Require Import Base.Prelude.

Definition upd {A} (f : nat -> A) (k : nat) (v : A) : nat -> A :=
  fun x => if Nat.eqb x k then v else f x.

Record obj := { okey : nat; oval : nat; otomb : bool; ofile : bool }.
Definition no_obj : obj := {| okey := 0; oval := 0; otomb := false; ofile := false |}.

Inductive prog :=
| PNone
| PSave (k v : nat) (through : bool)   (* Save; [through] = immediate-write mode: flush inline *)
| PDelete (k : nat)
| PFlush.                              (* write tick / explicit flush / close-write *)

Inductive pc :=
| Idle
| WSave (k v : nat) (through : bool)
| WDel (k : nat)
| FColl                                (* before the Iterate over the queue *)
| FDeq (b : list nat)                  (* collected b, before the dequeue loop (late: before the write) *)
| FWrite (b : list nat) (all : list nat)  (* objects still to serialise; [all] = the whole batch *)
| FLate (all : list nat)               (* late variant only: written, before the dequeue *)
| Done.

Definition start (p : prog) : pc :=
  match p with
  | PNone => Idle | PSave k v th => WSave k v th | PDelete k => WDel k | PFlush => FColl
  end.

Record st := {
  pcs : nat -> pc;
  objs : nat -> obj; nobj : nat;
  cur : nat -> option nat;
  queue : list nat;
  disk : nat -> option nat
}.

Definition init (progs : nat -> prog) : st :=
  {| pcs := fun t => start (progs t); objs := fun _ => no_obj; nobj := 0; cur := fun _ => None;
     queue := []; disk := fun _ => None |}.

Definition set_pc s t p :=
  {| pcs := upd (pcs s) t p; objs := objs s; nobj := nobj s; cur := cur s; queue := queue s; disk := disk s |}.

Definition keyof (s : st) (o : nat) : nat := okey (objs s o).
Definition qhas (s : st) (k : nat) (q : list nat) : bool := existsb (fun o => Nat.eqb (keyof s o) k) q.
Definition qadd (s : st) (o : nat) (q : list nat) : list nat := if qhas s (keyof s o) q then q else q ++ [o].
Definition qdel (s : st) (k : nat) (q : list nat) : list nat := filter (fun o => negb (Nat.eqb (keyof s o) k)) q.
Definition qminus (s : st) (q b : list nat) : list nat := filter (fun o => negb (qhas s (keyof s o) b)) q.

Definition tstep (late : bool) (s : st) (t : nat) : option st :=
  match pcs s t with
  | Idle | Done => None
  | WSave k v th =>
      let nxt := if th then FColl else Done in
      match cur s k with
      | Some o =>
          let x := objs s o in
          Some {| pcs := upd (pcs s) t nxt;
                  objs := upd (objs s) o {| okey := okey x; oval := v; otomb := otomb x; ofile := ofile x |};
                  nobj := nobj s; cur := cur s; queue := qadd s o (queue s); disk := disk s |}
      | None =>
          let o := nobj s in
          let s1 := {| pcs := pcs s; objs := upd (objs s) o {| okey := k; oval := v; otomb := false; ofile := false |};
                       nobj := S o; cur := upd (cur s) k (Some o); queue := queue s; disk := disk s |} in
          Some {| pcs := upd (pcs s) t nxt; objs := objs s1; nobj := nobj s1; cur := cur s1;
                  queue := qdel s1 k (queue s) ++ [o]; disk := disk s |}
      end
  | WDel k =>
      match cur s k with
      | Some o =>
          let x := objs s o in
          if ofile x then
            let s1 := {| pcs := pcs s; objs := upd (objs s) o {| okey := okey x; oval := oval x; otomb := true; ofile := true |};
                         nobj := nobj s; cur := upd (cur s) k None; queue := queue s; disk := disk s |} in
            Some {| pcs := upd (pcs s) t Done; objs := objs s1; nobj := nobj s1; cur := cur s1;
                    queue := qadd s1 o (queue s); disk := disk s |}
          else
            Some {| pcs := upd (pcs s) t Done; objs := objs s; nobj := nobj s; cur := upd (cur s) k None;
                    queue := qdel s k (queue s); disk := disk s |}
      | None => Some (set_pc s t Done)
      end
  | FColl =>
      match queue s with
      | [] => Some (set_pc s t Done)
      | q => Some (set_pc s t (FDeq q))
      end
  | FDeq b =>
      if late then Some (set_pc s t (FWrite b b))
      else Some {| pcs := upd (pcs s) t (FWrite b b); objs := objs s; nobj := nobj s; cur := cur s;
                   queue := qminus s (queue s) b; disk := disk s |}
  | FWrite [] all => Some (set_pc s t (if late then FLate all else Done))
  | FWrite (o :: r) all =>
      let x := objs s o in
      Some {| pcs := upd (pcs s) t (FWrite r all);
              objs := upd (objs s) o {| okey := okey x; oval := oval x; otomb := otomb x; ofile := true |};
              nobj := nobj s; cur := cur s; queue := queue s;
              disk := upd (disk s) (okey x) (if otomb x then None else Some (oval x)) |}
  | FLate all =>
      if late then
        Some {| pcs := upd (pcs s) t Done; objs := objs s; nobj := nobj s; cur := cur s;
                queue := qminus s (queue s) all; disk := disk s |}
      else None
  end.

Fixpoint run (late : bool) (s : st) (sched : list nat) : st :=
  match sched with
  | [] => s
  | t :: r => match tstep late s t with Some s' => run late s' r | None => run late s r end
  end.

(* objects a thread has collected and not yet serialised *)
Definition batch (p : pc) : list nat :=
  match p with FDeq b => b | FWrite b _ => b | _ => [] end.

(* the current value of a key in memory *)
Definition memval (s : st) (k : nat) : option nat :=
  match cur s k with Some o => Some (oval (objs s o)) | None => None end.

(* "re-creation inside a flush window": a Save creates a new record object for a key while an
   unwritten batch of some thread among [ts] still holds an (older) object of that key *)
Definition recreates (s : st) (ts : list nat) (t : nat) : bool :=
  match pcs s t with
  | WSave k _ _ =>
      match cur s k with
      | None => existsb (fun x => qhas s k (batch (pcs s x))) ts
      | Some _ => false
      end
  | _ => false
  end.

(* schedules over the threads [ts] without such a step *)
Fixpoint no_recreate (s : st) (ts : list nat) (sched : list nat) : bool :=
  match sched with
  | [] => true
  | t :: r => existsb (Nat.eqb t) ts && negb (recreates s ts t) &&
              match tstep false s t with Some s' => no_recreate s' ts r | None => no_recreate s ts r end
  end.

Definition progs_of (l : list prog) : nat -> prog := fun t => nth t l PNone.

(* refutation witness for the late dequeue: 0 saves k0=1; 1 = flusher collects and writes it;
   2 updates k0=2 while the batch is written but not yet dequeued; the flusher then dequeues k0;
   3 = the close-write finds an empty queue *)
Definition w_late_progs : list prog := [PSave 0 1 false; PFlush; PSave 0 2 false; PFlush].
Definition w_late : list nat := [0; 1;1;1;1; 2; 1; 3;3;3;3].

(* refutation witnesses for a re-creation inside a flush window (the code, late = false):
   0 saves k0=1 and its write-through is parked after the dequeue; 1 deletes k0 (never written:
   dropped from the queue); 2 saves k0=3 (new object) and writes it through; 0 then writes the
   old object: k0=1 is back *)
Definition w_stale_progs : list prog := [PSave 0 1 true; PDelete 0; PSave 0 3 true; PFlush].
Definition w_stale_value : list nat := [0;0;0; 1; 2;2;2;2;2; 0;0; 3].
(* same, but 0 is parked after the collect, 1 = Save k1 writes both through (k0 is now on file),
   2 deletes k0 (tombstone), 3 re-creates k0=3 and writes it through; 0 then writes the
   tombstone: k0 is gone *)
Definition w_stale_tomb_progs : list prog := [PSave 0 1 true; PSave 1 2 true; PDelete 0; PSave 0 3 true; PFlush].
Definition w_stale_tomb : list nat := [0;0; 1;1;1;1;1;1; 2; 3;3;3;3;3; 0;0;0; 4].

(* ---- correspondence: acceptance of a forced run ------------------------------------------ *)
(* observation: (thread, kind, a, qlen): kind 0 = the request of the thread did its Save /
   Delete, 1 = collected a objects, 2 = dequeued, 5 = collected and dequeued a objects (the hook
   at the entry of chroniclerV2.Write), 3 = wrote the batch (all remaining objects), 4 = flush
   done; qlen = CountTreasuresWaitingForWriter afterwards (1000 = not sampled) *)
Definition rawobs := (N * N * N * N)%type.
Definition Ob (t kind a qlen : N) : rawobs := (t, kind, a, qlen).

Fixpoint steps_while_write (fuel : nat) (s : st) (t : nat) : st :=
  match fuel with
  | O => s
  | S f => match pcs s t with
           | FWrite (_ :: _) _ => match tstep false s t with Some s' => steps_while_write f s' t | None => s end
           | _ => s
           end
  end.

Definition qlen_ok (s : st) (q : N) : bool := N.eqb q 1000 || N.eqb (N.of_nat (length (queue s))) q.

(* one observed step; None = not a step of the model *)
Definition obs_step (s : st) (o : rawobs) : option st :=
  let '(t, kind, a, q) := o in
  let tn := N.to_nat t in
  let chk s' := if qlen_ok s' q then Some s' else None in
  match kind, pcs s tn with
  | 0%N, WSave _ _ _ | 0%N, WDel _ =>
      match tstep false s tn with Some s' => chk s' | None => None end
  | 1%N, FColl =>
      match tstep false s tn with
      | Some s' => if N.eqb (N.of_nat (length (batch (pcs s' tn)))) a then chk s' else None
      | None => None end
  | 2%N, FDeq _ => match tstep false s tn with Some s' => chk s' | None => None end
  | 3%N, FWrite _ _ => chk (steps_while_write 64 s tn)
  | 4%N, FWrite [] _ => match tstep false s tn with Some s' => chk s' | None => None end
  | 4%N, FColl => match queue s with [] => tstep false s tn | _ => None end
  | 5%N, FColl =>      (* chroniclerV2.Write entered with a objects: collected and dequeued *)
      match queue s with
      | [] => if N.eqb a 0 then match tstep false s tn with Some s' => chk s' | None => None end else None
      | _ =>
          match tstep false s tn with
          | Some s1 =>
              match tstep false s1 tn with
              | Some s2 => if N.eqb (N.of_nat (length (batch (pcs s2 tn)))) a then chk s2 else None
              | None => None end
          | None => None end
      end
  | 3%N, Done | 4%N, Done => chk s      (* the flush had found nothing to write *)
  | _, _ => None
  end.

Fixpoint accept (s : st) (tr : list rawobs) : option st :=
  match tr with
  | [] => Some s
  | o :: r => match obs_step s o with Some s' => accept s' r | None => None end
  end.

(* run the threads [ts] round-robin [fuel] times *)
Fixpoint drain (fuel : nat) (s : st) (ts : list nat) : st :=
  match fuel with
  | O => s
  | S f => drain f (run false s ts) ts
  end.
