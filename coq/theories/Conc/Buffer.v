(* Conc/Buffer.v — executable model of the write buffer of ONE swamp instance
   (swamp.go: SaveFunction / deleteHandler / fileWriterHandler / Close's close-write),
   for any number of concurrently running writers, deleters and flushers. Model only.

   mem   : the in-memory record of a key (beaconKey): live with a value, a queued tombstone
           (deleted after it had been written to the file), or gone
   queue : treasuresWaitingForWriter (a key set)
   disk  : what the chronicler has been given (C01 abstracts the file); values are read from the
           record at the moment it is serialised, not when it was queued
   A flusher (write tick, write-through of an immediate-write Save, WriteTreasuresToFilesystem,
   the close-write of Close()) is: collect the queue; dequeue the collected keys; serialise them
   one by one; done. The "only one writer" flag of fileWriterHandler does not gate anything (the
   early return leaves only the inner closure), so flushers run concurrently - as modelled.

   [late] = false : the code: the batch leaves the queue BEFORE it is written
   [late] = true  : a variant that dequeues after the write (kept as a machine-checked refutation:
                    an update acknowledged while the batch is being written is dropped).

   Abstraction: the queue holds record objects, the model holds keys; a record that was deleted
   before its first write and re-created is one key here. Both agree on the queue as a key set
   and on the file once every batch is written. *)
From HV Require Import Base.Prelude.

Definition upd {A} (f : nat -> A) (k : nat) (v : A) : nat -> A :=
  fun x => if Nat.eqb x k then v else f x.

Inductive kstate := Gone | Live (v : nat) | Tomb.

Fixpoint mem_nat (x : nat) (l : list nat) : bool :=
  match l with [] => false | y :: t => Nat.eqb x y || mem_nat x t end.
Definition qadd (k : nat) (q : list nat) : list nat := if mem_nat k q then q else q ++ [k].
Definition qdel (k : nat) (q : list nat) : list nat := filter (fun x => negb (Nat.eqb x k)) q.
Definition qminus (q b : list nat) : list nat := filter (fun x => negb (mem_nat x b)) q.

Inductive prog :=
| PNone
| PSave (k v : nat) (through : bool)   (* Save; [through] = immediate-write mode: flush inline *)
| PDelete (k : nat) (through : bool)
| PFlush.                              (* write tick / explicit flush / close-write *)

Inductive pc :=
| Idle
| WSave (k v : nat) (through : bool)
| WDel (k : nat) (through : bool)
| FColl                                (* before the Iterate over the queue *)
| FDeq (b : list nat)                  (* collected b, before the dequeue loop (late: before the write) *)
| FWrite (b : list nat) (all : list nat)  (* keys still to serialise; [all] = the whole batch *)
| FLate (all : list nat)               (* late variant only: written, before the dequeue *)
| Done.

Definition start (p : prog) : pc :=
  match p with
  | PNone => Idle | PSave k v th => WSave k v th | PDelete k th => WDel k th | PFlush => FColl
  end.

Record st := {
  pcs : nat -> pc;
  mem : nat -> kstate;
  onfile : nat -> bool;        (* the record object of the key has been written once (FileName set) *)
  queue : list nat;
  disk : nat -> option nat
}.

Definition init (progs : nat -> prog) : st :=
  {| pcs := fun t => start (progs t); mem := fun _ => Gone; onfile := fun _ => false;
     queue := []; disk := fun _ => None |}.

Definition set_pc s t p :=
  {| pcs := upd (pcs s) t p; mem := mem s; onfile := onfile s; queue := queue s; disk := disk s |}.

Definition tstep (late : bool) (s : st) (t : nat) : option st :=
  match pcs s t with
  | Idle | Done => None
  | WSave k v th =>
      let fresh := match mem s k with Live _ => false | _ => true end in
      Some {| pcs := upd (pcs s) t (if th then FColl else Done);
              mem := upd (mem s) k (Live v);
              onfile := if fresh then upd (onfile s) k false else onfile s;
              queue := qadd k (if fresh then qdel k (queue s) else queue s);
              disk := disk s |}
  | WDel k th =>
      match mem s k with
      | Live _ =>
          if onfile s k then
            Some {| pcs := upd (pcs s) t (if th then FColl else Done); mem := upd (mem s) k Tomb;
                    onfile := onfile s; queue := qadd k (queue s); disk := disk s |}
          else
            Some {| pcs := upd (pcs s) t (if th then FColl else Done); mem := upd (mem s) k Gone;
                    onfile := onfile s; queue := qdel k (queue s); disk := disk s |}
      | _ => Some (set_pc s t Done)
      end
  | FColl =>
      match queue s with
      | [] => Some (set_pc s t Done)
      | q => Some (set_pc s t (FDeq q))
      end
  | FDeq b =>
      if late then Some (set_pc s t (FWrite b b))
      else Some {| pcs := upd (pcs s) t (FWrite b b); mem := mem s; onfile := onfile s;
                   queue := qminus (queue s) b; disk := disk s |}
  | FWrite [] all => Some (set_pc s t (if late then FLate all else Done))
  | FWrite (k :: r) all =>
      match mem s k with
      | Live v => Some {| pcs := upd (pcs s) t (FWrite r all); mem := mem s; onfile := upd (onfile s) k true;
                          queue := queue s; disk := upd (disk s) k (Some v) |}
      | Tomb => Some {| pcs := upd (pcs s) t (FWrite r all); mem := upd (mem s) k Gone; onfile := onfile s;
                        queue := queue s; disk := upd (disk s) k None |}
      | Gone => Some (set_pc s t (FWrite r all))     (* stale object: what it writes is not a live key *)
      end
  | FLate all =>
      if late then
        Some {| pcs := upd (pcs s) t Done; mem := mem s; onfile := onfile s;
                queue := qminus (queue s) all; disk := disk s |}
      else None
  end.

Fixpoint run (late : bool) (s : st) (sched : list nat) : st :=
  match sched with
  | [] => s
  | t :: r => match tstep late s t with Some s' => run late s' r | None => run late s r end
  end.

(* keys a thread has collected and not yet serialised *)
Definition batch (p : pc) : list nat :=
  match p with FDeq b => b | FWrite b _ => b | _ => [] end.

(* refutation witness for the late dequeue: 0 saves k0=1; 1 = flusher collects and writes it;
   2 updates k0=2 while the batch is written but not yet dequeued; the flusher then dequeues k0;
   3 = the close-write finds an empty queue *)
Definition w_late_progs : list prog := [PSave 0 1 false; PFlush; PSave 0 2 false; PFlush].
Definition w_late : list nat := [0; 1;1;1;1; 2; 1; 3;3;3;3].
Definition progs_of (l : list prog) : nat -> prog := fun t => nth t l PNone.

(* ---- correspondence: acceptance of a forced run ------------------------------------------ *)
(* observation: (thread, kind, a, b, qlen): kind 0 = the request of the thread did its Save /
   Delete (program of the thread says which), 1 = collected a keys, 2 = dequeued, 3 = wrote the
   batch (all remaining keys), 4 = flush done; qlen = CountTreasuresWaitingForWriter afterwards
   (1000 = not sampled) *)
Definition rawobs := (N * N * N * N)%type.
Definition Ob (t kind a qlen : N) : rawobs := (t, kind, a, qlen).

Fixpoint steps_while_write (fuel : nat) (s : st) (t : nat) : st :=
  match fuel with
  | O => s
  | S f => match pcs s t with
           | FWrite (_ :: _) _ => match tstep false s t with Some s' => steps_while_write f s' t | None => s end
           | _ => s
           end
  end.

Definition qlen_ok (s : st) (q : N) : bool := N.eqb q 1000 || N.eqb (N.of_nat (length (queue s))) q.

(* verdict: 0 accepted, 1 not a run of the model *)
Fixpoint accept (s : st) (tr : list rawobs) : N :=
  match tr with
  | [] => 0%N
  | (t, kind, a, q) :: r =>
      let tn := N.to_nat t in
      match kind, pcs s tn with
      | 0%N, WSave _ _ _ | 0%N, WDel _ _ =>
          match tstep false s tn with Some s' => if qlen_ok s' q then accept s' r else 1%N | None => 1%N end
      | 1%N, FColl =>
          match tstep false s tn with
          | Some s' => if N.eqb (N.of_nat (length (batch (pcs s' tn)))) a && qlen_ok s' q then accept s' r else 1%N
          | None => 1%N end
      | 2%N, FDeq _ =>
          match tstep false s tn with Some s' => if qlen_ok s' q then accept s' r else 1%N | None => 1%N end
      | 3%N, FWrite _ _ =>
          let s' := steps_while_write 64 s tn in if qlen_ok s' q then accept s' r else 1%N
      | 4%N, FWrite [] _ =>
          match tstep false s tn with Some s' => if qlen_ok s' q then accept s' r else 1%N | None => 1%N end
      | 4%N, FColl =>    (* empty queue: the handler returned without writing *)
          match queue s with [] => match tstep false s tn with Some s' => accept s' r | None => 1%N end | _ => 1%N end
      | _, _ => 1%N
      end
  end.

(* run every thread that is inside a flush, then one final flusher [tf], to completion *)
Fixpoint drain (fuel : nat) (s : st) (ts : list nat) : st :=
  match fuel with
  | O => s
  | S f => drain f (run false s ts) ts
  end.
