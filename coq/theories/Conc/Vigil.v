(* Conc/Vigil.v — executable small-step model of app/core/hydra/swamp/vigil/vigil.go and of the
   lifecycle waits built on it (C17).  Model only; the proofs are in Conc/VigilProofs.v.

   Go code (after the fix: commit for C17):

     BeginVigil : atomic.AddInt64(&vigils, 1)
     CeaseVigil : mu.Lock(); atomic.AddInt64(&vigils, -1); mu.Unlock(); [hook vigil.cease.gap]
                  cond.Broadcast()
     WaitForActiveVigilsClosed :
                  cond.L.Lock(); defer cond.L.Unlock()
                  for atomic.LoadInt64(&vigils) > 0 { [hook vigil.wait.check]  cond.Wait() }
     sync.Cond.Wait (Go runtime): t := notifyListAdd(&notify)      -- ticket = notify.wait++
                                  L.Unlock()
                                  notifyListWait(&notify, t)       -- returns iff t < notify.notify
                                  L.Lock()
     sync.Cond.Broadcast        : notify.notify := notify.wait     -- wakes every ticket taken before

   At the pinned commit CeaseVigil was   atomic.AddInt64(&vigils,-1); cond.Broadcast()   with no
   lock; that protocol is the variant [locked = false] and is kept only for the refutation.

   Granularity (DESIGN M6): every lock, unlock, atomic load/add, ticket draw, sleep/wake and
   broadcast is a step of its own.  Any number of waiters and of operations. *)
From HV Require Import Base.Prelude.

Inductive wpc :=
| W0                (* before cond.L.Lock() *)
| W1                (* holds L, at the loop head: about to load the counter *)
| W2                (* holds L, loaded a value > 0 (hook vigil.wait.check), about to draw a ticket *)
| W2b (t : nat)     (* holds L, ticket t drawn, about to L.Unlock() inside Wait *)
| W3 (t : nat)      (* unlocked, in notifyListWait(t): asleep until t < notify *)
| W4                (* woken, about to L.Lock() again inside Wait *)
| W5                (* holds L, loaded a value <= 0, about to run the deferred Unlock *)
| WDone.

Inductive cpc :=
| CIdle             (* operation not begun yet *)
| C0                (* BeginVigil done; the operation runs; next step starts CeaseVigil *)
| C1                (* (locked only) holds L, about to decrement *)
| C2                (* (locked only) decremented, holds L, about to unlock *)
| C3                (* decremented, L not held (hook vigil.cease.gap), about to Broadcast *)
| CDone.

Record sh := { cnt : Z; mu : bool; nwait : nat; nnotify : nat }.
Record st := { shd : sh; ws : list wpc; cs : list cpc }.

Definition wstep (h : sh) (w : wpc) : option (sh * wpc) :=
  match w with
  | W0 => if mu h then None
          else Some ({| cnt := cnt h; mu := true; nwait := nwait h; nnotify := nnotify h |}, W1)
  | W1 => Some (h, if (0 <? cnt h)%Z then W2 else W5)
  | W2 => Some ({| cnt := cnt h; mu := mu h; nwait := S (nwait h); nnotify := nnotify h |},
                W2b (nwait h))
  | W2b t => Some ({| cnt := cnt h; mu := false; nwait := nwait h; nnotify := nnotify h |}, W3 t)
  | W3 t => if Nat.ltb t (nnotify h) then Some (h, W4) else None
  | W4 => if mu h then None
          else Some ({| cnt := cnt h; mu := true; nwait := nwait h; nnotify := nnotify h |}, W1)
  | W5 => Some ({| cnt := cnt h; mu := false; nwait := nwait h; nnotify := nnotify h |}, WDone)
  | WDone => None
  end.

Definition cstep (locked : bool) (h : sh) (c : cpc) : option (sh * cpc) :=
  match c with
  | CIdle => Some ({| cnt := (cnt h + 1)%Z; mu := mu h; nwait := nwait h; nnotify := nnotify h |}, C0)
  | C0 => if locked then
            if mu h then None
            else Some ({| cnt := cnt h; mu := true; nwait := nwait h; nnotify := nnotify h |}, C1)
          else Some ({| cnt := (cnt h - 1)%Z; mu := mu h; nwait := nwait h; nnotify := nnotify h |}, C3)
  | C1 => Some ({| cnt := (cnt h - 1)%Z; mu := mu h; nwait := nwait h; nnotify := nnotify h |}, C2)
  | C2 => Some ({| cnt := cnt h; mu := false; nwait := nwait h; nnotify := nnotify h |}, C3)
  | C3 => Some ({| cnt := cnt h; mu := mu h; nwait := nwait h; nnotify := nwait h |}, CDone)
  | CDone => None
  end.

Fixpoint upd {A} (i : nat) (x : A) (l : list A) : list A :=
  match l, i with
  | [], _ => []
  | _ :: t, O => x :: t
  | y :: t, S k => y :: upd k x t
  end.

Inductive tid := TW (i : nat) | TC (i : nat).

Definition step (locked : bool) (s : st) (t : tid) : option st :=
  match t with
  | TW i => match nth_error (ws s) i with
            | Some w => match wstep (shd s) w with
                        | Some (h', w') => Some {| shd := h'; ws := upd i w' (ws s); cs := cs s |}
                        | None => None
                        end
            | None => None
            end
  | TC i => match nth_error (cs s) i with
            | Some c => match cstep locked (shd s) c with
                        | Some (h', c') => Some {| shd := h'; ws := ws s; cs := upd i c' (cs s) |}
                        | None => None
                        end
            | None => None
            end
  end.

(* A schedule is a list of thread ids; a step that is not enabled ends the run with None
   (schedules of enabled steps only are the executions of the system). *)
Fixpoint run (locked : bool) (s : st) (sched : list tid) : option st :=
  match sched with
  | [] => Some s
  | t :: r => match step locked s t with Some s' => run locked s' r | None => None end
  end.

(* nw waiters that have not started, nops operations that have not begun. *)
Definition init (nw nops : nat) : st :=
  {| shd := {| cnt := 0; mu := false; nwait := 0; nnotify := 0 |};
     ws := repeat W0 nw; cs := repeat CIdle nops |}.

Definition c_quiet (c : cpc) : bool := match c with CIdle | CDone => true | _ => false end.
Definition w_done (w : wpc) : bool := match w with WDone => true | _ => false end.

(* every started operation has completely ceased *)
Definition quiescent (s : st) : bool := forallb c_quiet (cs s).

(* a waiter asleep on a ticket that no broadcast has reached *)
Definition w_asleep (h : sh) (w : wpc) : bool :=
  match w with W3 t => negb (Nat.ltb t (nnotify h)) | _ => false end.

(* stuck: all operations have ceased, some waiter has not returned, and no waiter can move *)
Definition w_enabled (h : sh) (w : wpc) : bool :=
  match wstep h w with Some _ => true | None => false end.
Definition stuck (s : st) : bool :=
  quiescent s && negb (forallb w_done (ws s)) && negb (existsb (w_enabled (shd s)) (ws s)).

(* number of own steps a waiter needs at most once the counter stays at 0 *)
Definition wmeas (w : wpc) : nat :=
  match w with
  | W2 => 7 | W2b _ => 6 | W3 _ => 5 | W4 => 4 | W0 => 3 | W1 => 2 | W5 => 1 | WDone => 0
  end.
Definition measure (s : st) : nat := fold_right (fun w a => wmeas w + a) 0 (ws s).

(* ---- the swamp auto-destroy path (counter balance) -------------------------------------- *)
(* gateway handler:   BeginVigil(); defer CeaseVigil(); ... swamp.DeleteTreasure / CloneAndDelete*
   swamp.go, when the swamp became empty:   s.CeaseVigil(); s.Destroy(); [s.BeginVigil()]
   The bracketed re-begin is the fix: commit ([rebal = true]); at the pinned commit it is
   missing ([rebal = false]) and the deferred CeaseVigil drives the counter to -1.
   Only the counter matters here, so an operation is a straight-line program over it;
   Destroy's drain is the wait modelled above and needs counter <= 0 to get through. *)
Inductive dpc :=
| D0        (* not begun *)
| D1        (* begun, in flight *)
| D2        (* auto-destroy: own vigil ceased, inside Destroy (drain: waits for counter <= 0) *)
| D3        (* Destroy returned; (rebal) vigil re-begun; the deferred CeaseVigil is still to run *)
| DDone.

(* [destroys]: does this operation take the auto-destroy branch *)
Definition dstep (rebal : bool) (destroys : bool) (n : Z) (d : dpc) : option (Z * dpc) :=
  match d with
  | D0 => Some ((n + 1)%Z, D1)
  | D1 => if destroys then Some ((n - 1)%Z, D2) else Some ((n - 1)%Z, DDone)
  | D2 => if (n <=? 0)%Z then Some ((if rebal then n + 1 else n)%Z, D3) else None
  | D3 => Some ((n - 1)%Z, DDone)
  | DDone => None
  end.

Record dst := { dcnt : Z; dops : list (bool * dpc) }.

Definition dstep_at (rebal : bool) (s : dst) (i : nat) : option dst :=
  match nth_error (dops s) i with
  | Some (b, d) => match dstep rebal b (dcnt s) d with
                   | Some (n', d') => Some {| dcnt := n'; dops := upd i (b, d') (dops s) |}
                   | None => None
                   end
  | None => None
  end.

Fixpoint drun (rebal : bool) (s : dst) (sched : list nat) : option dst :=
  match sched with
  | [] => Some s
  | i :: r => match dstep_at rebal s i with Some s' => drun rebal s' r | None => None end
  end.

Definition dinit (kinds : list bool) : dst := {| dcnt := 0; dops := map (fun b => (b, D0)) kinds |}.

Definition d_inflight (p : bool * dpc) : bool := match snd p with D1 | D3 => true | _ => false end.
Definition d_count_inflight (s : dst) : nat := length (filter d_inflight (dops s)).

(* ---- polling waits (safeops.WaitForUnlock, hydra.GracefulStop, SummonSwamp's capped wait) -- *)
(* GracefulStop: for { if open()==0 return; if iter >= cap {force; sleep; return}; iter++; sleep }.
   [opens] is the sequence of values CountActiveSwamps returns (an oracle, M2); the result is
   the number of loop iterations executed, or None when fuel ran out (M8). *)
Fixpoint poll_capped (fuel : nat) (cap iter : nat) (opens : nat -> nat) (k : nat) : option nat :=
  match fuel with
  | O => None
  | S f => if Nat.eqb (opens k) 0 then Some k
           else if Nat.leb cap iter then Some k
           else poll_capped f cap (S iter) opens (S k)
  end.

(* WaitForUnlock: for { if locked()<=0 break; sleep }: no cap; terminates at the first poll that
   sees the counter at zero. *)
Fixpoint poll_until (fuel : nat) (locked : nat -> Z) (k : nat) : option nat :=
  match fuel with
  | O => None
  | S f => if (locked k <=? 0)%Z then Some k else poll_until f locked (S k)
  end.

(* ---- correspondence: replay of an observed forced-schedule trace ------------------------- *)
(* What the harness records.  Events marked (L) are logged while the vigil's mutex is held, so
   their order in the log is the order of the critical sections; the others are logged by a
   thread that the harness has just released while every other thread is parked, blocked or
   asleep (the harness waits for quiescence after every release).
     OBegin c        BeginVigil of operation c returned
     ODec c v    (L) operation c decremented the counter to v (hook vigil.cease.dec)
     OGap c          operation c is parked at hook vigil.cease.gap (unlocked, before Broadcast)
     OBcast c        operation c was resumed from that hook (its next action is the Broadcast)
     OCeased c       CeaseVigil of operation c returned (may be logged after the events of a
                     waiter woken by the broadcast, hence the separate OBcast)
     OCheck w v  (L) waiter w is parked at hook vigil.wait.check having read v (> 0)
     OWait w         waiter w was resumed from that hook (next: ticket, unlock, sleep)
     OReturn w       WaitForActiveVigilsClosed of waiter w returned
   Steps without an event (lock, unlock, ticket, sleep, wake) are silent: the replay advances
   the named thread up to the observed point; when it needs the mutex and an operation that has
   decremented (C2) still holds it in the model, that operation's unlock is performed first. *)
Inductive obs :=
| OBegin (c : nat) | ODec (c : nat) (v : Z) | OGap (c : nat) | OBcast (c : nat) | OCeased (c : nat)
| OCheck (w : nat) (v : Z) | OWait (w : nat) | OReturn (w : nat).

Definition w_holds (w : wpc) : bool :=
  match w with W1 | W2 | W2b _ | W5 => true | _ => false end.
Definition c_holds (c : cpc) : bool := match c with C1 | C2 => true | _ => false end.

Fixpoint find_idx {A} (p : A -> bool) (l : list A) (i : nat) : option nat :=
  match l with
  | [] => None
  | x :: t => if p x then Some i else find_idx p t (S i)
  end.

Definition is_C2 (c : cpc) := match c with C2 => true | _ => false end.

(* the silent unlock of an operation that has decremented *)
Definition release_mu (s : st) : st :=
  if mu (shd s) then
    match find_idx is_C2 (cs s) 0 with
    | Some i => match step true s (TC i) with Some s' => s' | None => s end
    | None => s
    end
  else s.

Definition wpc_at (s : st) (i : nat) : wpc := nth i (ws s) WDone.
Definition cpc_at (s : st) (i : nat) : cpc := nth i (cs s) CDone.

(* advance thread t by enabled steps until [stop] holds of the state (checked before each
   step); None when the thread blocks for good or fuel runs out *)
Fixpoint advance (fuel : nat) (s : st) (t : tid) (stop : st -> bool) : option st :=
  match fuel with
  | O => None
  | S f =>
      if stop s then Some s
      else match step true s t with
           | Some s' => advance f s' t stop
           | None => let s1 := release_mu s in
                     match step true s1 t with
                     | Some s' => advance f s' t stop
                     | None => None
                     end
           end
  end.

Definition is_W2 (w : wpc) := match w with W2 => true | _ => false end.
Definition is_W3 (w : wpc) := match w with W3 _ => true | _ => false end.

Definition replay_one (s : st) (o : obs) : option st :=
  match o with
  | OBegin c => match cpc_at s c with
                | CIdle => step true s (TC c)
                | _ => None
                end
  | ODec c v => match cpc_at s c with
                | C0 => match advance 4 s (TC c) (fun s' => is_C2 (cpc_at s' c)) with
                        | Some s' => if Z.eqb (cnt (shd s')) v then Some s' else None
                        | None => None
                        end
                | _ => None
                end
  | OGap c => match cpc_at s c with
              | C2 => step true s (TC c)
              | C3 => Some s               (* its unlock was already needed by another thread *)
              | _ => None
              end
  | OBcast c => match cpc_at s c with
                | C3 => step true s (TC c)
                | _ => None
                end
  | OCeased c => match cpc_at s c with
                 | CDone => Some s
                 | _ => None
                 end
  | OCheck w v =>
      match wpc_at s w with
      | W0 | W3 _ => match advance 6 s (TW w) (fun s' => is_W2 (wpc_at s' w)) with
                     | Some s' => if Z.eqb (cnt (shd s')) v then Some s' else None
                     | None => None
                     end
      | _ => None
      end
  | OWait w => match wpc_at s w with
               | W2 => advance 4 s (TW w) (fun s' => is_W3 (wpc_at s' w))
               | _ => None
               end
  | OReturn w => match wpc_at s w with
                 | W0 | W3 _ => advance 8 s (TW w) (fun s' => w_done (wpc_at s' w))
                 | _ => None
                 end
  end.

Fixpoint replay (s : st) (tr : list obs) : option st :=
  match tr with
  | [] => Some s
  | o :: r => match replay_one s o with Some s' => replay s' r | None => None end
  end.

(* One forced-schedule case: numbers of waiters and operations, the observed trace, the waiters
   that had not returned 2 s after everything was released and every operation had ceased, and
   the counter read at the very end. *)
Record fcase := { f_nw : nat; f_nops : nat; f_trace : list obs; f_hung : list nat; f_final : Z }.

Definition count_begin (tr : list obs) : Z :=
  Z.of_nat (length (filter (fun o => match o with OBegin _ => true | _ => false end) tr)).
Definition count_ceased (tr : list obs) : Z :=
  Z.of_nat (length (filter (fun o => match o with OCeased _ => true | _ => false end) tr)).

(* verdict codes: 0 ok; 1 model/impl mismatch; 2 a waiter hung although every operation had
   ceased (lost wake-up); 3 counter <> begun - ceased at the end *)
Definition check_fcase (c : fcase) : N :=
  match f_hung c with
  | _ :: _ => 2%N
  | [] =>
      if negb (Z.eqb (f_final c) (count_begin (f_trace c) - count_ceased (f_trace c))) then 3%N
      else match replay (init (f_nw c) (f_nops c)) (f_trace c) with
           | Some s => if Z.eqb (cnt (shd s)) (f_final c) then 0%N else 1%N
           | None => 1%N
           end
  end.

(* Free-running stress round / swamp-level probe / poll probe: only the property-level
   observables are compared (hang, final counter). *)
Inductive case :=
| KForced (c : fcase)
| KStress (nops : nat) (hung : bool) (final : Z)           (* nops begin/cease pairs vs waiters *)
| KDestroy (kinds : list bool) (finals : Z) (hung : bool)  (* ops through the real swamp auto-destroy path, run one after another *)
| KPoll (nlocks : nat) (hung : bool)                       (* safeops: nlocks Lock/Unlock pairs vs WaitForUnlock *)
| KSummon (nreq : nat) (ncancelled : nat) (hung : bool) (later_hung : bool)
     (* nreq requests queued in hydra.SummonSwamp's per-name slot, ncancelled contexts cancelled; hung: a
        request was still asleep in the queue after every summon in flight had finished; later_hung: all of
        them returned but a later request for the same name did not (the slot protocol is Conc/Summon.v) *)
| KCloseFault (faulted close_hung summon_hung : bool)
     (* swamp.Close() while every growing write of the final flush fails (file size limit 0): Close must
        return, and a later request for the name must not be left waiting for that close *)
| KInflight (dop iop : nat) (op_hung destroy_hung third_hung : bool) (final : Z).
     (* request R2 holds a vigil; request R1 empties the swamp (auto-destroy) and waits in Destroy's drain;
        R2 then performs operation iop under its vigil and ceases; R3 summons the closing name.
        op_hung: R2's operation did not return (so the drain can never end); destroy_hung: R1 did not return
        after every vigil was ceased; third_hung: R3 did not return; final: the vigil counter afterwards *)

(* model prediction for a sequential run of the auto-destroy programs: every op runs to the end *)
Fixpoint dseq (rebal : bool) (s : dst) (i : nat) (fuel : nat) : option dst :=
  match fuel with
  | O => Some s
  | S f => match nth_error (dops s) i with
           | None => Some s
           | Some _ =>
               match drun rebal s [i; i; i; i] with
               | Some s' => dseq rebal s' (S i) f
               | None => match drun rebal s [i; i] with
                         | Some s' => dseq rebal s' (S i) f
                         | None => None
                         end
               end
           end
  end.

Definition check_case (k : case) : N :=
  match k with
  | KForced c => check_fcase c
  | KStress nops hung final => if hung then 2%N else if Z.eqb final 0 then 0%N else 3%N
  | KDestroy kinds final hung =>
      if hung then 4%N
      else match dseq true (dinit kinds) 0 (S (length kinds)) with
           | Some s => if Z.eqb (dcnt s) final then 0%N
                       else if (final <? 0)%Z then 5%N else 1%N
           | None => 1%N
           end
  | KPoll _ hung => if hung then 6%N else 0%N
  | KSummon _ _ hung later => if hung then 9%N else if later then 11%N else 0%N
  | KCloseFault _ ch sh => if ch then 14%N else if sh then 13%N else 0%N
  | KInflight _ _ oh dh th final =>
      if oh then 10%N else if dh then 4%N else if th then 12%N
      else if (final <? 0)%Z then 5%N else if Z.eqb final 0 then 0%N else 3%N
  end.

Definition check_all (cases : list case) : list verdict := check_cases check_case cases.
