(* Conc/LifecycleProofs.v — what is machine-checked about Conc/Lifecycle.v:
   the two refutations of "acknowledged writes survive" (vm_compute witnesses), and - for all
   inputs - that the flush performed by Close()/GracefulStop makes the last buffered operation
   of every key durable. The all-schedules partial theorem of DESIGN 7/C16
   (C16_partial_no_lifecycle_race) is NOT proved here. *)
From HV Require Import Base.Prelude Conc.Lifecycle.

Lemma mem_add_same k l : mem_nat k (add_key k l) = true.
Proof.
  unfold add_key. destruct (mem_nat k l) eqn:E; [exact E|]. simpl. rewrite Nat.eqb_refl. reflexivity.
Qed.
Lemma mem_add_other k x l : x <> k -> mem_nat x (add_key k l) = mem_nat x l.
Proof.
  intro H. unfold add_key. destruct (mem_nat k l); [reflexivity|]. simpl.
  apply Nat.eqb_neq in H. rewrite H. reflexivity.
Qed.
Lemma mem_del_same k l : mem_nat k (del_key k l) = false.
Proof.
  induction l as [|a l IH]; simpl; [reflexivity|].
  destruct (Nat.eqb_spec a k) as [->|Hne]; simpl; [exact IH|].
  destruct (Nat.eqb_spec k a) as [->|_]; [congruence|exact IH].
Qed.
Lemma mem_del_other k x l : x <> k -> mem_nat x (del_key k l) = mem_nat x l.
Proof.
  intro H. induction l as [|a l IH]; simpl; [reflexivity|].
  destruct (Nat.eqb_spec a k) as [->|Hne]; simpl.
  - apply Nat.eqb_neq in H. rewrite H. exact IH.
  - rewrite IH. reflexivity.
Qed.

(* the last buffered operation on key k, if any: Some true = write, Some false = delete *)
Fixpoint last_op (k : nat) (pend : list (bool * nat)) (acc : option bool) : option bool :=
  match pend with
  | [] => acc
  | (w, k') :: r => last_op k r (if Nat.eqb k' k then Some w else acc)
  end.

Lemma last_op_acc k r : forall acc,
  last_op k r acc = match last_op k r None with Some w => Some w | None => acc end.
Proof.
  induction r as [|[w k'] r IH]; intro acc; simpl; [reflexivity|].
  destruct (Nat.eqb k' k).
  - rewrite (IH (Some w)). destruct (last_op k r None); reflexivity.
  - apply IH.
Qed.

Lemma flush_spec : forall pend dsk k,
  mem_nat k (flush dsk pend) =
  match last_op k pend None with Some w => w | None => mem_nat k dsk end.
Proof.
  induction pend as [|[w k'] r IH]; intros dsk k; simpl; [reflexivity|].
  destruct (Nat.eqb_spec k' k) as [->|Hne]; destruct w; rewrite IH.
  - rewrite (last_op_acc k r (Some true)). destruct (last_op k r None); [reflexivity|apply mem_add_same].
  - rewrite (last_op_acc k r (Some false)). destruct (last_op k r None); [reflexivity|apply mem_del_same].
  - rewrite mem_add_other by congruence. reflexivity.
  - rewrite mem_del_other by congruence. reflexivity.
Qed.

(* every key whose last buffered operation is a write is durable after the flush, for every
   buffer and every previous file content; a key that is not in the buffer keeps its state *)
Theorem flush_last_write_durable : forall pend dsk k,
  last_op k pend None = Some true -> mem_nat k (flush dsk pend) = true.
Proof. intros pend dsk k H. rewrite (flush_spec pend dsk k), H. reflexivity. Qed.

Theorem flush_untouched_key : forall pend dsk k,
  last_op k pend None = None -> mem_nat k (flush dsk pend) = mem_nat k dsk.
Proof. intros pend dsk k H. rewrite (flush_spec pend dsk k), H. reflexivity. Qed.

(* ... in particular for the flush step of Close()/GracefulStop on any instance in any state *)
Theorem close_flush_durable : forall s i k,
  last_op k (pend (insts s i)) None = Some true -> mem_nat k (disk (close_flush s i)) = true.
Proof. intros s i k H. unfold close_flush. cbn. apply flush_last_write_durable. exact H. Qed.

(* ---- refutations of "every acknowledged write survives" ---- *)
Theorem ack_lost_autodestroy : forall wi0,
  survives (run wi0 1 (init (progs_of w_i_progs)) w_i) = false.
Proof. intros [|]; vm_compute; reflexivity. Qed.

Theorem ack_lost_idle_close_interval_mode :
  survives (run false 1 (init (progs_of w_ii_progs)) w_ii) = false.
Proof. vm_compute. reflexivity. Qed.

(* the same schedule in immediate-write mode keeps the record (as the real code does) *)
Example idle_close_immediate_mode_survives :
  survives (run true 1 (init (progs_of w_ii_progs)) w_ii) = true.
Proof. vm_compute. reflexivity. Qed.

(* non-vacuity of the flush theorem: a buffer with a write, a delete and a re-write *)
Example flush_example :
  last_op 3 [(true, 3); (false, 3); (true, 5); (true, 3)] None = Some true /\
  flush [7] [(true, 3); (false, 3); (true, 5); (true, 3)] = [3; 5; 7].
Proof. vm_compute. auto. Qed.
