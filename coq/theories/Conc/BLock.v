(* Conc/BLock.v — executable model of the business lock, app/core/hydra/lock/lock.go (C14, C28).
   Model only; proofs in Conc/BLockProofs.v.

   One key.  (Keys share nothing but the sync.Map, whose entries are independent; the whole lock
   is a family of these per-key systems, see [gst] at the end.)

   Go code (after the fix: commit for C28):
     Lock(ctx,key,ttl): c := &caller{id: fresh uuid, ready, done}
                        q := getQueue(key)                    -- Load / LoadOrStore(newQueue())
                        for !q.enqueue(c) { q = getQueue(key) }
                        select { <-c.ready: start watchdog(ttl -> remove(key,q,id)); return id
                                 <-ctx.Done(): remove(key,q,id); return error }
     enqueue(c)  under q.mu: if q.retired {return false}; append; if was empty close(c.ready)
     remove(key,q,id) under q.mu: first caller with that id: delete it, close(done), if it was the
                        head and others remain close(new head.ready); if none remain
                        { q.retired = true; queues.CompareAndDelete(key,q) }
     Unlock(key,id):    q := queues.Load(key) (error if absent); remove(key,q,id) (error if absent)
   At the pinned commit there was no retired flag and no deletion: [prune = false].

   Heap of queue objects per key: [heap] (index = pointer), [cur] = the map entry of the key.
   A Lock call is a thread; its index in [thr] is its token and stands for its lock id (uuids are
   fresh: M5).  [seq] numbers the enqueues (ghost, for the FIFO statement).
   Granularity: getQueue is one step (its linearisation point), every q.mu section is one step,
   the select taking the ready branch is a step ([AStep] at L2), taking the ctx branch is
   [ACancel]; a remove by anybody else (Unlock with a pointer it loaded earlier, the TTL watchdog)
   is [ARemove p id] for an arbitrary object p and id - an over-approximation of Unlock's two
   steps (Load, then remove) and of the watchdog. *)
From HV Require Import Base.Prelude.

Record entry := { e_tok : nat; e_seq : nat; e_ready : bool }.
Record qobj := { ents : list entry; retired : bool }.

Inductive pc :=
| L0                (* before getQueue (also after a refused enqueue) *)
| L1 (p : nat)      (* holds pointer p, before enqueue *)
| L2 (p : nat)      (* enqueued in p, in the select *)
| H (p : nat)       (* took the ready branch: Lock returned the id; watchdog armed *)
| LCancelled.       (* took the ctx branch: removed itself, Lock returned an error *)

Record st := { heap : list qobj; cur : option nat; thr : list pc; nenq : nat; glog : list nat }.

Definition init (n : nat) : st :=
  {| heap := []; cur := None; thr := repeat L0 n; nenq := 0; glog := [] |}.

Fixpoint upd {A} (i : nat) (x : A) (l : list A) : list A :=
  match l, i with
  | [], _ => []
  | _ :: t, O => x :: t
  | y :: t, S k => y :: upd k x t
  end.

Fixpoint rm_first (id : nat) (l : list entry) : list entry :=
  match l with
  | [] => []
  | e :: t => if Nat.eqb (e_tok e) id then t else e :: rm_first id t
  end.

Definition wake_head (l : list entry) : list entry :=
  match l with
  | [] => []
  | e :: t => {| e_tok := e_tok e; e_seq := e_seq e; e_ready := true |} :: t
  end.

Definition has_tok (id : nat) (l : list entry) : bool := existsb (fun e => Nat.eqb (e_tok e) id) l.
Definition is_head (id : nat) (l : list entry) : bool :=
  match l with e :: _ => Nat.eqb (e_tok e) id | [] => false end.
Definition is_nil {A} (l : list A) : bool := match l with [] => true | _ => false end.

(* remove under q.mu; second component: found *)
Definition q_remove (prune : bool) (id : nat) (q : qobj) : qobj * bool :=
  if has_tok id (ents q) then
    let l1 := rm_first id (ents q) in
    let l2 := if is_head id (ents q) then wake_head l1 else l1 in
    ({| ents := l2; retired := retired q || (prune && is_nil l2) |}, true)
  else (q, false).

Definition opt_eqb (a : option nat) (p : nat) : bool :=
  match a with Some x => Nat.eqb x p | None => false end.

(* remove(key, heap[p], id) including the CompareAndDelete of the map entry *)
Definition do_remove (prune : bool) (s : st) (p id : nat) : option (st * bool) :=
  match nth_error (heap s) p with
  | None => None
  | Some q =>
      let '(q', found) := q_remove prune id q in
      let drop := found && prune && is_nil (ents q') && opt_eqb (cur s) p in
      Some ({| heap := upd p q' (heap s); cur := if drop then None else cur s;
               thr := thr s; nenq := nenq s; glog := glog s |}, found)
  end.

Definition set_thr (s : st) (t : nat) (c : pc) : st :=
  {| heap := heap s; cur := cur s; thr := upd t c (thr s); nenq := nenq s; glog := glog s |}.

Fixpoint find_entry (id : nat) (l : list entry) : option entry :=
  match l with
  | [] => None
  | e :: t => if Nat.eqb (e_tok e) id then Some e else find_entry id t
  end.

Inductive action :=
| AStep (t : nat)              (* thread t performs its next step *)
| ACancel (t : nat)            (* thread t, in the select, takes the ctx.Done branch *)
| ARemove (p : nat) (id : nat). (* Unlock / watchdog: remove id from object p *)

Definition step (prune : bool) (s : st) (a : action) : option st :=
  match a with
  | AStep t =>
      match nth_error (thr s) t with
      | Some L0 =>
          match cur s with
          | Some p => Some (set_thr s t (L1 p))
          | None =>
              let p := length (heap s) in
              Some {| heap := heap s ++ [{| ents := []; retired := false |}]; cur := Some p;
                      thr := upd t (L1 p) (thr s); nenq := nenq s; glog := glog s |}
          end
      | Some (L1 p) =>
          match nth_error (heap s) p with
          | Some q =>
              if retired q then Some (set_thr s t L0)
              else
                let e := {| e_tok := t; e_seq := nenq s; e_ready := is_nil (ents q) |} in
                Some {| heap := upd p {| ents := ents q ++ [e]; retired := false |} (heap s);
                        cur := cur s; thr := upd t (L2 p) (thr s);
                        nenq := S (nenq s); glog := glog s |}
          | None => None
          end
      | Some (L2 p) =>
          match nth_error (heap s) p with
          | Some q =>
              match find_entry t (ents q) with
              | Some e => if e_ready e
                          then Some {| heap := heap s; cur := cur s; thr := upd t (H p) (thr s);
                                       nenq := nenq s; glog := e_seq e :: glog s |}
                          else None
              | None => None
              end
          | None => None
          end
      | _ => None
      end
  | ACancel t =>
      match nth_error (thr s) t with
      | Some (L2 p) =>
          match do_remove prune s p t with
          | Some (s', _) => Some (set_thr s' t LCancelled)
          | None => None
          end
      | _ => None
      end
  | ARemove p id =>
      match do_remove prune s p id with
      | Some (s', _) => Some s'
      | None => None
      end
  end.

Fixpoint run (prune : bool) (s : st) (acts : list action) : option st :=
  match acts with
  | [] => Some s
  | a :: r => match step prune s a with Some s' => run prune s' r | None => None end
  end.

(* An id becomes known to clients only when Lock returns it: Unlock can be called with the id of
   a caller that was granted (own, stale, duplicate, stolen) or with an id that no caller has
   (foreign), but not with the id of a caller that is still inside Lock.  Needed only for the
   progress statements; mutual exclusion and FIFO hold for all traces. *)
Definition known_id (s : st) (id : nat) : bool :=
  match nth_error (thr s) id with
  | Some (H _) | Some LCancelled | None => true
  | _ => false
  end.
Definition valid_action (s : st) (a : action) : bool :=
  match a with ARemove _ id => known_id s id | _ => true end.
Fixpoint valid_trace (prune : bool) (s : st) (acts : list action) : bool :=
  match acts with
  | [] => true
  | a :: r => valid_action s a &&
              match step prune s a with Some s' => valid_trace prune s' r | None => true end
  end.

(* a holder: granted and still queued ("between ObserveReady and its removal") *)
Definition is_H (c : option pc) : bool := match c with Some (H _) => true | _ => false end.
Definition holder_in (s : st) (q : qobj) (e : entry) : Prop :=
  In e (ents q) /\ is_H (nth_error (thr s) (e_tok e)) = true.

(* gateway layer: TTL floor (gateway.go Lock: if TTL <= 1000 { TTL = 1000 }) *)
Definition gw_ttl (floor : Z) (ttl : Z) : Z := if (ttl <=? floor)%Z then floor else ttl.

(* ---- the whole lock: one per-key system per key ------------------------------------------ *)
Definition gst := list st.
Definition gstep (prune : bool) (g : gst) (k : nat) (a : action) : option gst :=
  match nth_error g k with
  | Some s => match step prune s a with Some s' => Some (upd k s' g) | None => None end
  | None => None
  end.
Fixpoint grun (prune : bool) (g : gst) (acts : list (nat * action)) : option gst :=
  match acts with
  | [] => Some g
  | (k, a) :: r => match gstep prune g k a with Some g' => grun prune g' r | None => None end
  end.
Definition has_entry (s : st) : bool := match cur s with Some _ => true | None => false end.
Definition map_size (g : gst) : nat := length (filter has_entry g).
(* a key is in use: somebody is queued on it (holding or waiting) or is just entering *)
Definition is_L1 (c : pc) : bool := match c with L1 _ => true | _ => false end.
Definition in_use (s : st) : bool :=
  existsb (fun q => negb (is_nil (ents q))) (heap s) || existsb is_L1 (thr s).
Definition keys_in_use (g : gst) : nat := length (filter in_use g).

(* ---- correspondence ----------------------------------------------------------------------- *)
(* Events of one key in hook-log order (hooks run under q.mu; the API-level events are logged by
   the calling goroutine right after the call returned). *)
Inductive who := WCancel | WWatchdog | WUnlock (idtok : option nat).
Inductive obs :=
| EEnq (t : nat) (len : nat)                         (* lock.enqueue: caller t appended, new length *)
| EEnqRetired (t : nat)                              (* lock.enqueue.retired: refused, caller retries *)
| ERem (t : nat) (i : nat) (len : nat) (w : who)     (* lock.removed: caller t was at index i, length after,
                                                        and who did it (logged before the next waiter is woken) *)
| EPrune                                             (* lock.prune: the queue was retired and its map entry
                                                        dropped (same critical section as the preceding ERem) *)
| ERemMiss                                           (* lock.remove.miss: id not queued *)
| ELockRet (t : nat)                                 (* Lock of caller t returned its id *)
| ECancelRet (t : nat)                               (* Lock of caller t returned an error *)
| EUnlockRet (idtok : option nat) (ok : bool).       (* Unlock(id of caller idtok / foreign id) returned *)

Fixpoint index_of (id : nat) (l : list entry) (i : nat) : option nat :=
  match l with
  | [] => None
  | e :: t => if Nat.eqb (e_tok e) id then Some i else index_of id t (S i)
  end.

Definition cur_len (s : st) : nat :=
  match cur s with
  | Some p => match nth_error (heap s) p with Some q => length (ents q) | None => 0 end
  | None => 0
  end.

Definition thr_at (s : st) (t : nat) : pc := nth t (thr s) LCancelled.
Definition mem_nat (x : nat) (l : list nat) : bool := existsb (Nat.eqb x) l.

(* replay state: model state + callers whose Lock return has been seen *)
Definition replay_one (prune : bool) (sr : st * list nat) (o : obs) : option (st * list nat) :=
  let '(s, ret) := sr in
  match o with
  | EEnq t len =>
      match thr_at s t with
      | L0 => match step prune s (AStep t) with
              | Some s1 => match step prune s1 (AStep t) with
                           | Some s2 => match thr_at s2 t with
                                        | L2 _ => if Nat.eqb (cur_len s2) len then Some (s2, ret) else None
                                        | _ => None
                                        end
                           | None => None
                           end
              | None => None
              end
      | _ => None
      end
  | EEnqRetired t =>
      match thr_at s t with
      | L0 => if prune && existsb retired (heap s) then Some (s, ret) else None
      | _ => None
      end
  | EPrune => if prune && negb (has_entry s) then Some (s, ret) else None
  | ERem t i len w =>
      let go (s0 : st) (p : nat) (a : action) :=
        match nth_error (heap s0) p with
        | Some q =>
            match index_of t (ents q) 0, step prune s0 a with
            | Some i', Some s' =>
                if Nat.eqb i i' && Nat.eqb (length (ents q)) (S len) then Some (s', ret) else None
            | _, _ => None
            end
        | None => None
        end in
      match w, thr_at s t with
      | WCancel, L2 p => go s p (ACancel t)
      | WWatchdog, L2 p => match step prune s (AStep t) with
                           | Some s1 => go s1 p (ARemove p t)
                           | None => None
                           end
      | WWatchdog, H p => go s p (ARemove p t)
      | WUnlock _, H p => go s p (ARemove p t)
      | _, _ => None
      end
  | ERemMiss => Some (s, ret)
  | ELockRet t =>
      if mem_nat t ret then None
      else match thr_at s t with
           | H _ => Some (s, t :: ret)
           | L2 _ => match step prune s (AStep t) with
                     | Some s' => Some (s', t :: ret)
                     | None => None
                     end
           | _ => None
           end
  | ECancelRet t =>
      (* L0: Lock gave up before it enqueued (a context check ahead of the queue is harmless for
         this property; whether it leaves a queue object behind is judged by code 6) *)
      match thr_at s t with LCancelled | L0 => Some (s, ret) | _ => None end
  | EUnlockRet _ _ => Some (s, ret)
  end.

Fixpoint replay (prune : bool) (sr : st * list nat) (tr : list obs) : option (st * list nat) :=
  match tr with
  | [] => Some sr
  | o :: r => match replay_one prune sr o with Some sr' => replay prune sr' r | None => None end
  end.

(* Property oracle on the observations alone.  [q] = the queue reconstructed from the hook
   events, [held] = callers whose Lock has returned and who have not been removed yet,
   [gone] = callers already removed.
   codes: 2 two holders; 3 an Unlock released a caller other than the one its id belongs to
   (or a foreign id released somebody / was reported found); 4 a caller was granted while not at
   the head of the queue; 5 the same caller removed twice / unlock result inconsistent *)
Fixpoint remove_nat (x : nat) (l : list nat) : list nat :=
  match l with [] => [] | y :: t => if Nat.eqb x y then t else y :: remove_nat x t end.

Fixpoint oracle (q held gone : list nat) (tr : list obs) : N :=
  match tr with
  | [] => 0%N
  | o :: r =>
      match o with
      | EEnq t _ => oracle (q ++ [t]) held gone r
      | ERem t _ _ w =>
          if mem_nat t gone then 5%N
          else match w with
               | WUnlock (Some id) => if Nat.eqb id t then oracle (remove_nat t q) (remove_nat t held) (t :: gone) r else 3%N
               | WUnlock None => 3%N
               | _ => oracle (remove_nat t q) (remove_nat t held) (t :: gone) r
               end
      | ELockRet t =>
          if mem_nat t gone then oracle q held gone r      (* returned late, its TTL already fired *)
          else match held with
               | _ :: _ => 2%N
               | [] => match q with
                       | h :: _ => if Nat.eqb h t then oracle q (t :: held) gone r else 4%N
                       | [] => 4%N
                       end
               end
      | EUnlockRet None ok => if ok then 3%N else oracle q held gone r
      | EUnlockRet (Some t) ok =>
          (* success means the caller was removed by this very call, so it must be gone now *)
          if ok && negb (mem_nat t gone) then 5%N else oracle q held gone r
      | _ => oracle q held gone r
      end
  end.

(* One key of one case: number of Lock calls, trace, and what the key's map entry looked like
   after quiescence (entry present?, callers still queued). *)
(* k_ttl: for every caller that was removed by its TTL watchdog: (caller, TTL asked in us, time in
   us between the instant its ready channel was closed - it became head, measured under q.mu before
   the close - and its removal by the watchdog).  The watchdog's timer is armed with the TTL after the
   caller has been granted, so the second number can never be below the first. *)
Record kcase := { k_n : nat; k_trace : list obs; k_entry : bool; k_len : nat; k_ttl : list (nat * Z * Z) }.

Definition ttl_early (x : nat * Z * Z) : bool := (snd x <? snd (fst x))%Z.

Definition check_key (prune : bool) (c : kcase) : N :=
  match oracle [] [] [] (k_trace c) with
  | 0%N =>
      (* code 9: a holder was released by its TTL before the TTL had run since it was granted *)
      if existsb ttl_early (k_ttl c) then 9%N else
      (* after quiescence every Lock call has returned and every TTL has fired: a queue object
         that is still in the map with nobody queued is per-key state of a released key (C28) *)
      if prune && k_entry c && Nat.eqb (k_len c) 0 then 6%N else
      match replay prune (init (k_n c), []) (k_trace c) with
      | Some (s, _) =>
          if Nat.eqb (cur_len s) (k_len c) && (Bool.eqb (has_entry s) (k_entry c) || negb prune)
          then 0%N else 1%N
      | None => 1%N
      end
  | v => v
  end.

Fixpoint first_nonzero (l : list N) : N :=
  match l with [] => 0%N | x :: t => if N.eqb x 0 then first_nonzero t else x end.

Inductive case :=
| KTrace (keys : list kcase)                       (* C14: one lock instance, its keys *)
| KResidue (nkeys : nat) (locked_now : nat) (queue_count : nat) (entries : nat)
                                                   (* C28: after a history over nkeys distinct keys of
                                                      which locked_now are still held or waited on *)
| KTtl (asked : Z) (released_before_floor : bool) (released_later : bool).
                                                   (* C14 gateway: a lock taken with TTL asked (ms) *)

(* code 6: per-key lock state retained for a key that nobody holds or waits on (C28);
   code 7: gateway lock released before the 1000 ms floor; 8: never released by its TTL *)
Definition check_case (k : case) : N :=
  match k with
  | KTrace keys => first_nonzero (map (check_key true) keys)
  | KResidue nkeys locked_now qc entries =>
      (* entries: everything the lock object keeps in any container (found by reflection): per key in
         use at most the map entry, the holder and - in these histories - one waiter *)
      if negb (Nat.leb qc locked_now) then 6%N
      else if Nat.leb entries (3 * locked_now) then 0%N else 10%N
  | KTtl asked early later => if early then 7%N else if later then 0%N else 8%N
  end.

Definition check_all (cases : list case) : list verdict := check_cases check_case cases.
