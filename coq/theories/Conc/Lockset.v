(* Conc/Lockset.v — C10: the lockset discipline of the shared-memory access sites of
   beacon.go / treasure.go / swamp.go / gateway.go, as a hand-written table
   (site, location class, read/write, locks certainly held), the decision procedure
   [race_free], a small interleaving semantics that justifies it, the multi-getter read as a
   sequence of separately locked steps, and the case checker of the correspondence harness.
   Model only, no proofs.

   Locks: a sync.RWMutex is held Shared (RLock) or Excl (Lock); the record guard (guard.go,
   C15) is an exclusive per-record lock.  Lock and location names denote the instances that
   belong to ONE object (one beacon, one treasure): two accesses to the same location instance
   use the same lock instances (trusted, see props/C10.json). *)
From HV Require Import Base.Prelude.
From Coq Require Import String.
Local Open Scope string_scope.

Inductive lockname := KBeaconMu | KTreasureMu | KGuard.
Inductive mode := Excl | Shared.
Definition lockset := list (lockname * mode).

Inductive loc :=
| LBeaconMap      (* beacon.treasuresByKeys *)
| LBeaconOrder    (* beacon.treasuresByOrder *)
| LContent        (* treasure.treasure.Content *)
| LCreatedAt | LCreatedBy | LModifiedAt | LModifiedBy | LExpiration | LDeleted
| LFlags          (* contentChanged, ... *)
| LFileName.      (* treasure.treasure.FileName (pointer to the name of the file holding the record) *)

Inductive akind := Rd | Wr.

Record row := { r_id : N; r_site : string; r_loc : loc; r_kind : akind; r_locks : lockset }.

Definition lock_eqb (a b : lockname) : bool :=
  match a, b with KBeaconMu, KBeaconMu | KTreasureMu, KTreasureMu | KGuard, KGuard => true | _, _ => false end.
Definition is_excl (m : mode) : bool := match m with Excl => true | Shared => false end.
Definition loc_eqb (a b : loc) : bool :=
  match a, b with
  | LBeaconMap, LBeaconMap | LBeaconOrder, LBeaconOrder | LContent, LContent | LCreatedAt, LCreatedAt
  | LCreatedBy, LCreatedBy | LModifiedAt, LModifiedAt | LModifiedBy, LModifiedBy
  | LExpiration, LExpiration | LDeleted, LDeleted | LFlags, LFlags | LFileName, LFileName => true
  | _, _ => false
  end.
Definition is_wr (a : row) : bool := match r_kind a with Wr => true | Rd => false end.

(* two accesses conflict: same location, at least one write *)
Definition conflict (a b : row) : bool := loc_eqb (r_loc a) (r_loc b) && (is_wr a || is_wr b).

(* they are ordered by a lock: a common lock held exclusively by at least one of them *)
Definition protected (a b : row) : bool :=
  existsb (fun p => existsb (fun q => lock_eqb (fst p) (fst q) && (is_excl (snd p) || is_excl (snd q)))
                            (r_locks b)) (r_locks a).

Definition racy (a b : row) : bool := conflict a b && negb (protected a b).

Definition race_free (t : list row) : bool :=
  forallb (fun a => forallb (fun b => negb (racy a b)) t) t.

(* the unordered racy pairs of a table, by row id (a before b in the table, or a = b) *)
Fixpoint racy_pairs (t : list row) : list (N * N) :=
  match t with
  | [] => []
  | a :: rest =>
      (if racy a a then [(r_id a, r_id a)] else []) ++
      map (fun b => (r_id a, r_id b)) (filter (fun b => racy a b || racy b a) rest) ++
      racy_pairs rest
  end.

(* ---- the table (current tree, i.e. after "fix: beacon.GetAll returns a snapshot") -------- *)

Definition R id site l k locks := {| r_id := id; r_site := site; r_loc := l; r_kind := k; r_locks := locks |}.

Definition bmuX := [(KBeaconMu, Excl)].
Definition bmuS := [(KBeaconMu, Shared)].
Definition guardX := [(KGuard, Excl)].
Definition tmuS := [(KTreasureMu, Shared)].

Definition beacon_rows : list row := [
  R 1  "beacon.Add"                      LBeaconMap   Wr bmuX;
  R 2  "beacon.Delete"                   LBeaconMap   Wr bmuX;
  R 3  "beacon.PushManyFromMap"          LBeaconMap   Wr bmuX;
  R 4  "beacon.Get|IsExists|AreExists|Count" LBeaconMap Rd bmuS;
  R 5  "beacon.GetAll (maps.Clone)"      LBeaconMap   Rd bmuS;
  R 6  "beacon.Iterate"                  LBeaconMap   Rd bmuS;
  R 7  "beacon.CloneUnorderedTreasures"  LBeaconMap   Rd bmuX;
  R 8  "beacon.Add (ordered)"            LBeaconOrder Wr bmuX;
  R 9  "beacon.Delete (ordered)"         LBeaconOrder Wr bmuX;
  R 10 "beacon.PushManyFromMap (ordered)" LBeaconOrder Wr bmuX;
  R 11 "beacon.SortBy*"                  LBeaconOrder Wr bmuX;
  R 12 "beacon.Shift*|ReindexExpiration" LBeaconOrder Wr bmuX;
  R 13 "beacon.GetManyFromOrderPosition|GetManyFromKey" LBeaconOrder Rd bmuS;
  R 14 "beacon.CountMatching (Cap pre-count)" LBeaconMap Rd bmuS;
  R 15 "beacon.ShiftMatching|ShiftExpired|ShiftMany|ShiftOne|SelectExpired* (scan, Cap count, removal)" LBeaconMap Wr bmuX;
  R 16 "beacon.Reset|SetIsOrdered"       LBeaconMap   Wr bmuX
].

Definition treasure_rows : list row := [
  R 20 "treasure.SetContent*"            LContent    Wr guardX;
  R 21 "treasure.BodySetForDeletion (Content)" LContent Wr guardX;
  R 22 "treasure.GetContentType"         LContent    Rd tmuS;
  R 23 "treasure.GetContent*"            LContent    Rd tmuS;
  R 24 "treasure.Clone|CloneContent"     LContent    Rd guardX;
  R 30 "treasure.SetCreatedAt"           LCreatedAt  Wr guardX;
  R 31 "treasure.GetCreatedAt"           LCreatedAt  Rd tmuS;
  R 32 "treasure.SetCreatedBy"           LCreatedBy  Wr guardX;
  R 33 "treasure.GetCreatedBy"           LCreatedBy  Rd tmuS;
  R 34 "treasure.SetModifiedAt"          LModifiedAt Wr guardX;
  R 35 "treasure.GetModifiedAt"          LModifiedAt Rd tmuS;
  R 36 "treasure.SetModifiedBy"          LModifiedBy Wr guardX;
  R 37 "treasure.GetModifiedBy"          LModifiedBy Rd tmuS;
  R 38 "treasure.SetExpirationTime"      LExpiration Wr guardX;
  R 39 "treasure.BodySetForDeletion (ExpirationTime)" LExpiration Wr guardX;
  R 40 "treasure.GetExpirationTime"      LExpiration Rd tmuS;
  R 41 "treasure.BodySetForDeletion (DeletedAt/By)" LDeleted Wr guardX;
  R 42 "treasure.GetDeletedAt|GetDeletedBy" LDeleted Rd tmuS;
  R 43 "treasure.Set* (change flags)"    LFlags      Wr guardX;
  R 44 "treasure.Is*Changed (SaveFunction, under the caller's guard)" LFlags Rd ((KGuard, Excl) :: tmuS);
  (* the file pointer: stored by the chronicler's file-pointer callback on the flushing
     goroutine (no guard, no t.mu), read through GetFileName by SaveFunction / deleteHandler *)
  R 45 "treasure.BodySetFileName (swamp.FilePointerCallbackFunction, flush)" LFileName Wr [];
  R 46 "treasure.GetFileName and its readers (SaveFunction, deleteHandler)" LFileName Rd tmuS;
  R 47 "treasure.BodySetFileName (SaveFunction, under the caller's guard)" LFileName Wr guardX;
  (* the subscriber callback of Gateway.SubscribeToEvents converts the LIVE record of a
     New/Modified event (treasureToKeyValuePair); it runs on the writer's goroutine inside
     SaveFunction, i.e. while the writer still owns the record guard *)
  R 60 "event callback: treasure.GetContentType|GetContent*" LContent    Rd ((KGuard, Excl) :: tmuS);
  R 61 "event callback: treasure.GetCreatedAt"     LCreatedAt  Rd ((KGuard, Excl) :: tmuS);
  R 62 "event callback: treasure.GetCreatedBy"     LCreatedBy  Rd ((KGuard, Excl) :: tmuS);
  R 63 "event callback: treasure.GetModifiedAt"    LModifiedAt Rd ((KGuard, Excl) :: tmuS);
  R 64 "event callback: treasure.GetModifiedBy"    LModifiedBy Rd ((KGuard, Excl) :: tmuS);
  R 65 "event callback: treasure.GetExpirationTime" LExpiration Rd ((KGuard, Excl) :: tmuS);
  (* the same callback also converts event.OldTreasure = the record found in the key map. For a
     writer that works on a record object which a concurrent Delete/ShiftByKeys has replaced
     (C09: write_on_stale_record_object_after_delete) that is ANOTHER object, whose guard the
     writer does not hold.  The harness maps event-callback reads to these rows only in runs that
     contain removals (phase A); without removals rows 60-65 apply. *)
  R 70 "event callback (swamp with removals): GetContentType|GetContent* of the indexed record" LContent    Rd tmuS;
  R 71 "event callback (swamp with removals): GetCreatedAt of the indexed record"     LCreatedAt  Rd tmuS;
  R 72 "event callback (swamp with removals): GetCreatedBy of the indexed record"     LCreatedBy  Rd tmuS;
  R 73 "event callback (swamp with removals): GetModifiedAt of the indexed record"    LModifiedAt Rd tmuS;
  R 74 "event callback (swamp with removals): GetModifiedBy of the indexed record"    LModifiedBy Rd tmuS;
  R 75 "event callback (swamp with removals): GetExpirationTime of the indexed record" LExpiration Rd tmuS
].

Definition table : list row := beacon_rows ++ treasure_rows.

(* the rows of the unchanged tree that the fix removed: beacon.GetAll handed out the live map
   and its two callers iterated it with no lock *)
Definition old_getall_rows : list row := [
  R 50 "Gateway.GetAll (ranges over the live map returned by beacon.GetAll)" LBeaconMap Rd [];
  R 51 "swamp.treasuresForBeacon / PushManyFromMap source (cold index build, live map)" LBeaconMap Rd []
].
Definition table_before_fix : list row := table ++ old_getall_rows.

(* the part of the table whose discipline is sound: the beacon, and the record fields as
   accessed by guard holders only (no lock-free getter) *)
(* a lock-free access: a getter under t.mu.RLock only, or an access holding no lock at all
   (the chronicler's file-pointer callback) *)
Definition is_lockfree_getter (a : row) : bool :=
  match r_kind a, r_locks a with
  | Rd, [(KTreasureMu, Shared)] => true
  | _, [] => true
  | _, _ => false
  end.
Definition table_guarded : list row := filter (fun a => negb (is_lockfree_getter a)) table.

(* ---- interleaving semantics that justifies the criterion -------------------------------- *)

(* every thread is either idle or inside one access; an access begins by acquiring its locks,
   which is possible only if no other thread inside an access holds an incompatible lock
   (sync.RWMutex / guard semantics), and ends by releasing them *)
Definition cfg := list (option row).

Inductive ev := Begin (t : nat) (a : row) | End (t : nat).

Fixpoint set_nth {A} (n : nat) (x : A) (l : list A) : list A :=
  match l, n with
  | [], _ => []
  | _ :: t, O => x :: t
  | y :: t, S k => y :: set_nth k x t
  end.

Definition lock_compatible (a b : row) : bool := negb (protected a b) && negb (protected b a).

Definition others_compatible (c : cfg) (t : nat) (a : row) : bool :=
  forallb (fun p => match snd p with
                    | Some b => Nat.eqb (fst p) t || lock_compatible a b
                    | None => true
                    end)
          (combine (seq 0 (List.length c)) c).

Definition lstep (c : cfg) (e : ev) : option cfg :=
  match e with
  | Begin t a =>
      match nth_error c t with
      | Some None => if others_compatible c t a then Some (set_nth t (Some a) c) else None
      | _ => None
      end
  | End t =>
      match nth_error c t with
      | Some (Some _) => Some (set_nth t None c)
      | _ => None
      end
  end.

Fixpoint lrun (c : cfg) (tr : list ev) : option cfg :=
  match tr with
  | [] => Some c
  | e :: rest => match lstep c e with Some c' => lrun c' rest | None => None end
  end.

Definition ev_in_table (t : list row) (e : ev) : Prop :=
  match e with Begin _ a => In a t | End _ => True end.

(* ---- the multi-getter read (gateway.treasureToKeyValuePair) ----------------------------- *)

(* a record version: (value, updatedBy); the guarded writer (keyValuesToTreasure) stores the
   value and the author with two setters; the reader calls the getters one after the other,
   each under its own t.mu.RLock *)
Record trec := { f_value : Z; f_by : Z }.
Inductive rwstep :=
| WSetValue (v : Z) | WSetBy (v : Z)          (* writer steps (under the guard) *)
| RGetValue | RGetBy.                         (* reader steps (one RLock each) *)

(* state: the record and what the reader has collected so far *)
Fixpoint rw_run (r : trec) (got : option Z * option Z) (tr : list rwstep) : trec * (option Z * option Z) :=
  match tr with
  | [] => (r, got)
  | WSetValue v :: t => rw_run {| f_value := v; f_by := f_by r |} got t
  | WSetBy v :: t => rw_run {| f_value := f_value r; f_by := v |} got t
  | RGetValue :: t => rw_run r (Some (f_value r), snd got) t
  | RGetBy :: t => rw_run r (fst got, Some (f_by r)) t
  end.

(* version i is written as value = i, updatedBy = i *)
Definition torn_witness : list rwstep := [WSetValue 2; RGetValue; RGetBy; WSetBy 2].

(* ---- correspondence: what the race harness observed ------------------------------------- *)

Inductive c10case :=
| CRace (a b : N)                 (* a data-race report whose two stacks map to rows a and b *)
| CRead (value by_ : Z)           (* a reader received (value, updatedBy) *)
| CEvent (value by_ : Z)          (* a subscriber received a New/Modified event carrying (value, updatedBy) *)
| CEventDup (value by_ : Z)       (* ... whose version an earlier event of the same key already carried *)
| CBytes (one_version : bool)     (* a reader was handed a byte-array value; did its bytes show one version *)
| CQuiet (reads writes : N).      (* a child run finished; counters *)

Definition find_row (id : N) : option row := find (fun r => N.eqb (r_id r) id) table.

Fixpoint pair_index (p : N * N) (l : list (N * N)) (i : N) : option N :=
  match l with
  | [] => None
  | q :: t => if (N.eqb (fst p) (fst q) && N.eqb (snd p) (snd q)) || (N.eqb (fst p) (snd q) && N.eqb (snd p) (fst q))
              then Some i else pair_index p t (N.succ i)
  end.

(* codes: 0 nothing to report;
   1 a reported race maps to rows that the table does not contain;
   2 a reported race maps to a pair of rows that the table claims ordered by a lock or not
     conflicting (the table is wrong: correspondence failure);
   50 a read returned fields of two different versions;
   51 an event carried fields of two different versions (the event record is converted under
      the writer's guard, so unlike 50 this is not explained by the lock-free getters);
   52 two events of one key carried the same version: an event record was converted after
      the writer had left its guarded section and shows a later writer's version;
   53 the bytes of a byte-array value changed under the reader: a stored value is immutable
      (a Set installs a new slice), so a slice that was handed out keeps showing one version;
   100 + i: the race is the i-th predicted racy pair of the table *)
Definition check_case (c : c10case) : N :=
  match c with
  | CRace a b =>
      match find_row a, find_row b with
      | Some ra, Some rb =>
          if racy ra rb || racy rb ra then
            match pair_index (a, b) (racy_pairs table) 0 with
            | Some i => (100 + i)%N
            | None => 2%N
            end
          else 2%N
      | _, _ => 1%N
      end
  | CRead v b => if Z.eqb v b then 0%N else 50%N
  | CEvent v b => if Z.eqb v b then 0%N else 51%N
  | CEventDup _ _ => 52%N
  | CBytes ok => if ok then 0%N else 53%N
  | CQuiet _ _ => 0%N
  end.

Definition check_all (cases : list c10case) : list verdict := check_cases check_case cases.
