(* Conc/VigilProofs.v — invariant of the vigil protocol with the decrement under the waiter's
   mutex, lifted to all schedules; no-stuck-waiter, termination measure, the refutation for the
   unlocked protocol, counter balance of the auto-destroy path, termination of the polls. *)
From HV Require Import Base.Prelude Conc.Vigil.
From Coq Require Import ZifyNat ZifyBool.

Definition b2n (b : bool) : nat := if b then 1 else 0.
Definition count {A} (p : A -> bool) (l : list A) : nat := length (filter p l).

Lemma count_cons {A} (p : A -> bool) x l : count p (x :: l) = b2n (p x) + count p l.
Proof. unfold count; simpl. destruct (p x); reflexivity. Qed.

Lemma count_upd {A} (p : A -> bool) : forall l i x y,
  nth_error l i = Some x -> count p (upd i y l) + b2n (p x) = count p l + b2n (p y).
Proof.
  induction l as [|z t IH]; intros [|i] x y E; simpl in E; try discriminate.
  - inversion E; subst. simpl. rewrite !count_cons. lia.
  - simpl. rewrite !count_cons. specialize (IH _ _ y E). lia.
Qed.

Lemma upd_Forall {A} (P : A -> Prop) : forall l i y, Forall P l -> P y -> Forall P (upd i y l).
Proof.
  induction l as [|z t IH]; intros [|i] y F Py; simpl; auto; inversion F; subst; constructor; auto.
Qed.

Lemma nth_Forall {A} (P : A -> Prop) l i x : nth_error l i = Some x -> Forall P l -> P x.
Proof. intros E F. rewrite Forall_forall in F. apply F. eapply nth_error_In; eauto. Qed.

Lemma count_zero {A} (p : A -> bool) l : count p l = 0 -> forall x, In x l -> p x = false.
Proof.
  induction l as [|z t IH]; intros E x Hin; [destruct Hin|].
  rewrite count_cons in E. destruct Hin as [->|Hin].
  - destruct (p x); simpl in E; [lia|reflexivity].
  - apply IH; [lia|assumption].
Qed.

Lemma count_pos {A} (p : A -> bool) l : 0 < count p l -> exists x, In x l /\ p x = true.
Proof.
  induction l as [|z t IH]; intros E; [unfold count in E; simpl in E; lia|].
  rewrite count_cons in E. destruct (p z) eqn:Pz.
  - exists z; split; [left; reflexivity|assumption].
  - simpl in E. destruct (IH E) as [x [Hin Px]]. exists x; split; [right|]; assumption.
Qed.

Lemma count_nth_pos {A} (p : A -> bool) l i x :
  nth_error l i = Some x -> p x = true -> 0 < count p l.
Proof.
  revert i; induction l as [|z t IH]; intros [|i] E Px; simpl in E; try discriminate;
    rewrite count_cons.
  - inversion E; subst. rewrite Px. simpl. lia.
  - specialize (IH _ E Px). lia.
Qed.

Lemma count_le {A} (p q : A -> bool) l :
  (forall x, p x = true -> q x = true) -> count p l <= count q l.
Proof.
  intros H; induction l as [|z t IH]; [unfold count; simpl; lia|].
  rewrite !count_cons. specialize (H z). destruct (p z), (q z); simpl; try lia.
Qed.

Lemma count_all_false {A} (p : A -> bool) l : (forall x, In x l -> p x = false) -> count p l = 0.
Proof.
  induction l as [|z t IH]; intros H; [reflexivity|].
  rewrite count_cons, IH by (intros; apply H; right; assumption).
  rewrite (H z) by (left; reflexivity). reflexivity.
Qed.

Lemma count_repeat_false {A} (p : A -> bool) x n : p x = false -> count p (repeat x n) = 0.
Proof. intros E. apply count_all_false. intros y Hin. apply repeat_spec in Hin. subst; assumption. Qed.

(* ---- the invariant (DESIGN Appendix A, generalised to any number of waiters) ------------- *)

Definition pre_dec (c : cpc) : bool := match c with C0 | C1 => true | _ => false end.
Definition pre_bcast (c : cpc) : bool := match c with C0 | C1 | C2 | C3 => true | _ => false end.

Definition wok (h : sh) (l : list cpc) (w : wpc) : Prop :=
  match w with
  | W2 => 0 < count pre_dec l
  | W2b t | W3 t => t < nwait h /\ (t < nnotify h \/ 0 < count pre_bcast l)
  | _ => True
  end.

Definition Inv (s : st) : Prop :=
  cnt (shd s) = Z.of_nat (count pre_dec (cs s)) /\
  count w_holds (ws s) + count c_holds (cs s) = b2n (mu (shd s)) /\
  nnotify (shd s) <= nwait (shd s) /\
  Forall (wok (shd s) (cs s)) (ws s).

Lemma pre_dec_le_bcast l : count pre_dec l <= count pre_bcast l.
Proof. apply count_le. intros [] E; simpl in *; congruence. Qed.

Lemma inv_init nw nops : Inv (init nw nops).
Proof.
  unfold Inv, init; simpl. repeat split.
  - rewrite count_repeat_false by reflexivity. reflexivity.
  - rewrite !count_repeat_false by reflexivity. reflexivity.
  - lia.
  - apply Forall_forall. intros w Hin. apply repeat_spec in Hin. subst. exact I.
Qed.

Lemma wok_mono h h' l w :
  nwait h <= nwait h' -> nnotify h <= nnotify h' -> wok h l w -> wok h' l w.
Proof. intros A B; destruct w; simpl; auto; intros [C [D|D]]; split; try lia. Qed.

Lemma inv_wstep s i s' : Inv s -> step true s (TW i) = Some s' -> Inv s'.
Proof.
  intros [I1 [I2 [I3 I4]]] E. unfold step in E.
  destruct (nth_error (ws s) i) as [w|] eqn:Ew; [|discriminate].
  destruct (wstep (shd s) w) as [[h' w']|] eqn:Es; [|discriminate].
  inversion E; subst s'; clear E. unfold Inv; simpl.
  pose proof (count_upd w_holds (ws s) i w w' Ew) as Hc.
  pose proof (nth_Forall _ _ _ _ Ew I4) as Hw.
  assert (Hpb := pre_dec_le_bcast (cs s)).
  assert (Hgoal : cnt h' = cnt (shd s) /\
                  count w_holds (upd i w' (ws s)) + count c_holds (cs s) = b2n (mu h') /\
                  nwait (shd s) <= nwait h' /\ nnotify (shd s) = nnotify h' /\
                  wok h' (cs s) w').
  { destruct w; simpl in Es;
      try (destruct (mu (shd s)) eqn:Em; [discriminate|]);
      try (destruct (Nat.ltb t (nnotify (shd s))) eqn:Et; [|discriminate]);
      inversion Es; subst h' w'; clear Es; simpl in *; try rewrite Em in *; simpl in *;
      repeat split; try lia.
    all: try (destruct (mu (shd s)); simpl in *; lia).
    all: destruct (0 <? cnt (shd s))%Z eqn:Ez; simpl in *; try exact I;
      try (destruct (mu (shd s)); simpl in *; lia); lia.
  }
  destruct Hgoal as [G1 [G2 [G3 [G4 G5]]]].
  repeat split; try assumption; try lia.
  apply upd_Forall; [|assumption].
  eapply Forall_impl; [|exact I4]. intros a. apply wok_mono; lia.
Qed.

Lemma inv_cstep s i s' : Inv s -> step true s (TC i) = Some s' -> Inv s'.
Proof.
  intros [I1 [I2 [I3 I4]]] E. unfold step in E.
  destruct (nth_error (cs s) i) as [c|] eqn:Ec; [|discriminate].
  destruct (cstep true (shd s) c) as [[h' c']|] eqn:Es; [|discriminate].
  inversion E; subst s'; clear E. unfold Inv; simpl.
  pose proof (count_upd pre_dec (cs s) i c c' Ec) as Hd.
  pose proof (count_upd pre_bcast (cs s) i c c' Ec) as Hb.
  pose proof (count_upd c_holds (cs s) i c c' Ec) as Hh.
  rewrite Forall_forall in I4.
  assert (Hb2 : b2n (mu (shd s)) <= 1) by (destruct (mu (shd s)); simpl; lia).
  destruct c; simpl in Es;
    try (destruct (mu (shd s)) eqn:Em; [discriminate|]);
    inversion Es; subst h' c'; clear Es; simpl in *; try rewrite Em in *; simpl in *;
    repeat split; try lia; apply Forall_forall; intros w Hin; specialize (I4 w Hin);
    destruct w; simpl in *; try exact I; try lia.
  - (* C1 -> C2: the ceaser holds the mutex, so no waiter is at W2 *)
    pose proof (count_nth_pos c_holds _ _ _ Ec eq_refl) as Hp.
    assert (Hz : count w_holds (ws s) = 0) by lia.
    pose proof (count_zero _ _ Hz _ Hin) as Hf. simpl in Hf. discriminate.
Qed.

Lemma inv_step s t s' : Inv s -> step true s t = Some s' -> Inv s'.
Proof. destruct t; [apply inv_wstep|apply inv_cstep]. Qed.

Lemma inv_run : forall sched s s', Inv s -> run true s sched = Some s' -> Inv s'.
Proof.
  induction sched as [|t r IH]; intros s s' I E; simpl in E.
  - inversion E; subst; assumption.
  - destruct (step true s t) as [s1|] eqn:Es; [|discriminate].
    eapply IH; [eapply inv_step; eauto|eassumption].
Qed.

Lemma reach_inv nw nops sched s : run true (init nw nops) sched = Some s -> Inv s.
Proof. apply inv_run, inv_init. Qed.

(* ---- consequences in quiescent states ---------------------------------------------------- *)

Lemma quiescent_counts s : quiescent s = true ->
  count pre_dec (cs s) = 0 /\ count pre_bcast (cs s) = 0 /\ count c_holds (cs s) = 0.
Proof.
  unfold quiescent. rewrite forallb_forall. intros Q.
  repeat split; apply count_all_false; intros c Hin; specialize (Q c Hin); destruct c;
    simpl in *; congruence.
Qed.

(* no waiter sleeps on a ticket that no broadcast has reached *)
Lemma quiescent_no_sleeper s : Inv s -> quiescent s = true ->
  forall w, In w (ws s) -> w_asleep (shd s) w = false.
Proof.
  intros [_ [_ [_ I4]]] Q w Hin. destruct (quiescent_counts s Q) as [_ [Qb _]].
  rewrite Forall_forall in I4. specialize (I4 w Hin).
  destruct w; simpl in *; try reflexivity.
  destruct I4 as [_ [L|L]]; [|lia].
  apply Nat.ltb_lt in L. rewrite L. reflexivity.
Qed.

Lemma no_stuck_inv s : Inv s -> stuck s = false.
Proof.
  intros I. unfold stuck.
  destruct (quiescent s) eqn:Q; [|reflexivity].
  destruct (forallb w_done (ws s)) eqn:D; [reflexivity|].
  simpl. apply negb_false_iff. apply existsb_exists.
  pose proof (quiescent_no_sleeper s I Q) as NS.
  destruct I as [I1 [I2 [I3 I4]]].
  destruct (quiescent_counts s Q) as [Qd [Qb Qh]].
  rewrite Forall_forall in I4.
  destruct (mu (shd s)) eqn:Em.
  - (* the mutex is held: by a waiter, and every waiter that holds it can move *)
    assert (P : 0 < count w_holds (ws s)) by (simpl in I2; lia).
    destruct (count_pos _ _ P) as [w [Hin Hw]]. exists w; split; [assumption|].
    destruct w; simpl in Hw; try discriminate; unfold w_enabled; simpl; try reflexivity.
  - (* the mutex is free: any waiter that has not returned can move *)
    assert (Z0 : count w_holds (ws s) = 0) by (simpl in I2; lia).
    assert (Hex : exists w, In w (ws s) /\ w_done w = false).
    { clear -D. induction (ws s) as [|a l IH]; simpl in D; [discriminate|].
      destruct (w_done a) eqn:Da.
      - destruct (IH D) as [w [Hin Hw]]. exists w; split; [right|]; assumption.
      - exists a; split; [left; reflexivity|assumption]. }
    destruct Hex as [w [Hin Hw]]. exists w; split; [assumption|].
    pose proof (count_zero _ _ Z0 _ Hin) as Hh. specialize (NS w Hin).
    destruct w; simpl in *; try discriminate; unfold w_enabled; simpl; rewrite ?Em; try reflexivity.
    apply negb_false_iff in NS. rewrite NS. reflexivity.
Qed.

Theorem no_stuck_waiter_locked : forall nw nops sched s,
  run true (init nw nops) sched = Some s -> stuck s = false.
Proof. intros. apply no_stuck_inv. eapply reach_inv; eauto. Qed.

Theorem no_sleeper_locked : forall nw nops sched s,
  run true (init nw nops) sched = Some s -> quiescent s = true ->
  forall w, In w (ws s) -> w_asleep (shd s) w = false.
Proof. intros. eapply quiescent_no_sleeper; eauto. eapply reach_inv; eauto. Qed.

(* the hypotheses are satisfiable by a non-trivial state: one waiter really slept and was woken *)
Example no_stuck_nonvacuous :
  exists sched s, run true (init 1 2) sched = Some s /\ quiescent s = true /\
                  nwait (shd s) = 2 /\ forallb w_done (ws s) = true.
Proof.
  exists [TC 0; TC 1; TW 0; TW 0; TW 0; TW 0; TC 0; TC 0; TC 0; TC 0; TW 0; TW 0; TW 0;
          TW 0; TW 0; TC 1; TC 1; TC 1; TC 1; TW 0; TW 0; TW 0; TW 0].
  eexists. split; [vm_compute; reflexivity|]. vm_compute. auto.
Qed.

(* ---- termination: a measure that every waiter step decreases once operations are quiet ---- *)

Lemma measure_upd : forall l i w w', nth_error l i = Some w ->
  fold_right (fun w a => wmeas w + a) 0 (upd i w' l) + wmeas w =
  fold_right (fun w a => wmeas w + a) 0 l + wmeas w'.
Proof.
  induction l as [|z t IH]; intros [|i] w w' E; simpl in E; try discriminate.
  - inversion E; subst. simpl. lia.
  - simpl. specialize (IH _ _ w' E). lia.
Qed.

Lemma wstep_decreases s i s' : Inv s -> quiescent s = true -> step true s (TW i) = Some s' ->
  measure s' < measure s /\ quiescent s' = true.
Proof.
  intros I Q E. destruct (quiescent_counts s Q) as [Qd _]. destruct I as [I1 _].
  unfold step in E.
  destruct (nth_error (ws s) i) as [w|] eqn:Ew; [|discriminate].
  destruct (wstep (shd s) w) as [[h' w']|] eqn:Es; [|discriminate].
  inversion E; subst s'; clear E. unfold measure, quiescent; simpl. split; [|exact Q].
  pose proof (measure_upd (ws s) i w w' Ew) as M.
  assert (wmeas w' < wmeas w).
  { destruct w; simpl in Es;
      try (destruct (mu (shd s)); [discriminate|]);
      try (destruct (Nat.ltb t (nnotify (shd s))); [|discriminate]);
      inversion Es; subst; simpl; try lia.
    rewrite I1, Qd. simpl. lia. }
  lia.
Qed.

Definition is_TW (t : tid) : Prop := match t with TW _ => True | TC _ => False end.

(* once every started operation has ceased, the waiters can make at most [measure s] steps
   altogether - whatever the order *)
Lemma waiter_steps_bounded : forall sched s s', Inv s -> quiescent s = true ->
  Forall is_TW sched -> run true s sched = Some s' ->
  length sched + measure s' <= measure s /\ quiescent s' = true /\ Inv s'.
Proof.
  induction sched as [|t r IH]; intros s s' I Q F E; simpl in E.
  - inversion E; subst. simpl. split; [lia|split; assumption].
  - inversion F as [|? ? Ft Fr]; subst. destruct t as [i|i]; [|destruct Ft].
    destruct (step true s (TW i)) as [s1|] eqn:Es; [|discriminate].
    destruct (wstep_decreases s i s1 I Q Es) as [M Q1].
    pose proof (inv_step _ _ _ I Es) as I1.
    destruct (IH s1 s' I1 Q1 Fr E) as [B [Q' I']]. split; [simpl; lia|split; assumption].
Qed.

(* ... and they are never all blocked before all have returned: a complete run exists and every
   maximal run of the waiters ends with all of them returned *)
Lemma waiters_complete : forall n s, Inv s -> quiescent s = true -> measure s <= n ->
  exists sched s', Forall is_TW sched /\ run true s sched = Some s' /\
                   forallb w_done (ws s') = true /\ length sched <= measure s.
Proof.
  induction n as [|n IH]; intros s I Q M.
  - exists [], s. repeat split; auto with arith.
    assert (Z0 : measure s = 0) by lia. clear -Z0. unfold measure in Z0.
    induction (ws s) as [|a l IHl]; [reflexivity|]. simpl in *.
    destruct a; simpl in *; try lia; apply IHl; lia.
  - destruct (forallb w_done (ws s)) eqn:D.
    + exists [], s. repeat split; auto with arith.
    + pose proof (no_stuck_inv s I) as NS. unfold stuck in NS. rewrite Q, D in NS. simpl in NS.
      apply negb_false_iff, existsb_exists in NS. destruct NS as [w [Hin En]].
      destruct (In_nth_error _ _ Hin) as [i Ei].
      assert (Es : exists s1, step true s (TW i) = Some s1).
      { unfold step. rewrite Ei. unfold w_enabled in En.
        destruct (wstep (shd s) w) as [[h' w']|]; [eexists; reflexivity|discriminate]. }
      destruct Es as [s1 Es].
      destruct (wstep_decreases s i s1 I Q Es) as [M1 Q1].
      pose proof (inv_step _ _ _ I Es) as I1.
      destruct (IH s1 I1 Q1 ltac:(lia)) as [sched [s' [F [R [Dn L]]]]].
      exists (TW i :: sched), s'. repeat split.
      * constructor; [exact Logic.I|assumption].
      * cbn [run]. rewrite Es. assumption.
      * assumption.
      * simpl. lia.
Qed.

Theorem wait_terminates_locked : forall nw nops sched s,
  run true (init nw nops) sched = Some s -> quiescent s = true ->
  (forall wsched s', Forall is_TW wsched -> run true s wsched = Some s' ->
                     length wsched + measure s' <= measure s) /\
  (exists wsched s', Forall is_TW wsched /\ run true s wsched = Some s' /\
                     forallb w_done (ws s') = true /\ length wsched <= measure s) /\
  measure s <= 7 * length (ws s).
Proof.
  intros nw nops sched s R Q. pose proof (reach_inv _ _ _ _ R) as I. repeat split.
  - intros wsched s' F E. destruct (waiter_steps_bounded wsched s s' I Q F E) as [B _]. exact B.
  - eapply waiters_complete; eauto.
  - unfold measure. clear. induction (ws s) as [|a l IH]; simpl; [lia|]. destruct a; simpl; lia.
Qed.

(* ---- the protocol of the pinned commit (no lock around the decrement) loses a wake-up ---- *)

Definition lost_wakeup_schedule : list tid :=
  [TC 0; TW 0; TW 0; TC 0; TC 0; TW 0; TW 0].

Theorem no_stuck_waiter_refuted_unlocked :
  exists sched s, run false (init 1 1) sched = Some s /\ stuck s = true /\
                  quiescent s = true /\ ws s = [W3 0] /\ nnotify (shd s) = 0.
Proof.
  exists lost_wakeup_schedule. eexists. split; [vm_compute; reflexivity|].
  vm_compute. auto.
Qed.

(* ---- counter balance on the auto-destroy path --------------------------------------------- *)

Definition dInv (s : dst) : Prop := dcnt s = Z.of_nat (count d_inflight (dops s)).

Lemma dinv_init kinds : dInv (dinit kinds).
Proof.
  unfold dInv, dinit; simpl. rewrite count_all_false; [reflexivity|].
  intros p Hin. apply in_map_iff in Hin. destruct Hin as [b [<- _]]. reflexivity.
Qed.

Lemma dinv_step s i s' : dInv s -> dstep_at true s i = Some s' -> dInv s'.
Proof.
  unfold dInv, dstep_at. intros I E.
  destruct (nth_error (dops s) i) as [[b d]|] eqn:En; [|discriminate].
  destruct (dstep true b (dcnt s) d) as [[n' d']|] eqn:Es; [|discriminate].
  inversion E; subst s'; clear E. simpl.
  pose proof (count_upd d_inflight (dops s) i (b, d) (b, d') En) as Hc.
  destruct d; simpl in Es; try discriminate;
    try (destruct b); try (destruct (dcnt s <=? 0)%Z eqn:Ez; [|discriminate]);
    inversion Es; subst; unfold d_inflight in *; simpl in *; lia.
Qed.

Theorem counter_balance_rebalanced : forall kinds sched s,
  drun true (dinit kinds) sched = Some s ->
  dcnt s = Z.of_nat (d_count_inflight s) /\ (0 <= dcnt s)%Z.
Proof.
  intros kinds sched.
  assert (G : forall s0 s, dInv s0 -> drun true s0 sched = Some s -> dInv s).
  { induction sched as [|i r IH]; intros s0 s I E; simpl in E.
    - inversion E; subst; assumption.
    - destruct (dstep_at true s0 i) as [s1|] eqn:Es; [|discriminate].
      eapply IH; [eapply dinv_step; eauto|eassumption]. }
  intros s E. pose proof (G _ _ (dinv_init kinds) E) as I. unfold dInv in I.
  unfold d_count_inflight. fold (count d_inflight (dops s)). split; [assumption|lia].
Qed.

Example counter_balance_nonvacuous :
  exists s, drun true (dinit [true; false]) [1; 0; 0; 1; 0; 0] = Some s /\ dcnt s = 0%Z /\
            map snd (dops s) = [DDone; DDone].
Proof. eexists. split; [vm_compute; reflexivity|]. vm_compute. auto. Qed.

(* without the re-begin the deferred CeaseVigil makes the counter negative *)
Theorem counter_balance_refuted_without_rebalance :
  exists s, drun false (dinit [true]) [0; 0; 0; 0] = Some s /\ dcnt s = (-1)%Z.
Proof. eexists. split; [vm_compute; reflexivity|]. reflexivity. Qed.

(* ---- polling waits ----------------------------------------------------------------------- *)

Theorem poll_capped_terminates : forall fuel cap iter opens k,
  cap - iter < fuel ->
  exists n, poll_capped fuel cap iter opens k = Some n /\ n <= k + (cap - iter).
Proof.
  induction fuel as [|f IH]; intros cap iter opens k L; [lia|]. simpl.
  destruct (Nat.eqb (opens k) 0); [exists k; split; [reflexivity|lia]|].
  destruct (Nat.leb cap iter) eqn:Ec; [exists k; split; [reflexivity|lia]|].
  apply Nat.leb_gt in Ec.
  destruct (IH cap (S iter) opens (S k) ltac:(lia)) as [n [E B]]. exists n. split; [assumption|lia].
Qed.

Theorem poll_until_terminates : forall (d fuel : nat) (locked : nat -> Z) (k : nat),
  (locked (k + d)%nat <= 0)%Z -> d < fuel ->
  exists n, poll_until fuel locked k = Some n /\ n <= k + d /\ (locked n <= 0)%Z.
Proof.
  induction d as [|d IH]; intros fuel locked k Z0 L; (destruct fuel as [|f]; [lia|]); simpl.
  - rewrite Nat.add_0_r in Z0. apply Z.leb_le in Z0. rewrite Z0.
    exists k. repeat split; [lia|apply Z.leb_le; assumption].
  - destruct (locked k <=? 0)%Z eqn:E.
    + exists k. repeat split; [lia|apply Z.leb_le; assumption].
    + replace (k + S d) with (S k + d) in Z0 by lia.
      destruct (IH f locked (S k) Z0 ltac:(lia)) as [n [E1 [B1 B2]]].
      exists n. repeat split; [assumption|lia|assumption].
Qed.

Example poll_capped_example :
  poll_capped 20 10 0 (fun _ => 3) 0 = Some 10 /\ poll_capped 20 10 0 (fun k => 2 - k) 0 = Some 2.
Proof. vm_compute. auto. Qed.
