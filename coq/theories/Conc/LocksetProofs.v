(* Conc/LocksetProofs.v — C10: soundness of the lockset criterion in the interleaving
   semantics of Lockset.v, the verdict of the criterion on the access table of the code
   (refuted, with the exact list of racy pairs; sound sub-tables), and the multi-getter read. *)
From HV Require Import Base.Prelude Conc.Lockset.
From Coq Require Import String.
Local Open Scope string_scope.

Lemma nth_error_set_same {A} (l : list A) n x y :
  nth_error l n = Some y -> nth_error (set_nth n x l) n = Some x.
Proof. revert n; induction l as [|a t IH]; intros [|n] H; simpl in *; try discriminate; auto. Qed.

Lemma nth_error_set_other {A} (l : list A) n m x :
  n <> m -> nth_error (set_nth n x l) m = nth_error l m.
Proof. revert n m; induction l as [|a t IH]; intros [|n] [|m] H; simpl; auto; try congruence. Qed.

Lemma in_combine_seq {A} (c : list A) : forall s j x,
  nth_error c j = Some x -> In ((s + j)%nat, x) (combine (seq s (List.length c)) c).
Proof.
  induction c as [|a t IH]; intros s [|j] x H; simpl in *; try discriminate.
  - inversion H; subst. left. f_equal. lia.
  - right. replace (s + S j)%nat with (S s + j)%nat by lia. apply IH. exact H.
Qed.

Lemma others_compatible_spec c t a :
  others_compatible c t a = true ->
  forall j b, nth_error c j = Some (Some b) -> j <> t -> lock_compatible a b = true.
Proof.
  unfold others_compatible. intros H j b Hn Hne. rewrite forallb_forall in H.
  pose proof (in_combine_seq c 0 j (Some b) Hn) as Hi. simpl in Hi.
  specialize (H _ Hi). simpl in H.
  apply orb_true_iff in H as [H|H]; [apply Nat.eqb_eq in H; contradiction|exact H].
Qed.

Section Sound.
Variable tbl : list row.
Hypothesis Hfree : race_free tbl = true.

Lemma free_pair a b : In a tbl -> In b tbl -> conflict a b = true -> protected a b = true.
Proof.
  intros Ha Hb Hc. unfold race_free in Hfree. rewrite forallb_forall in Hfree.
  specialize (Hfree a Ha). rewrite forallb_forall in Hfree. specialize (Hfree b Hb).
  unfold racy in Hfree. rewrite Hc in Hfree. simpl in Hfree.
  destruct (protected a b); [reflexivity|discriminate].
Qed.

Definition LInv (c : cfg) : Prop :=
  (forall i a, nth_error c i = Some (Some a) -> In a tbl) /\
  (forall i j a b, i <> j -> nth_error c i = Some (Some a) -> nth_error c j = Some (Some b) ->
                   protected a b = false).

Lemma linv_step c e c' : LInv c -> ev_in_table tbl e -> lstep c e = Some c' -> LInv c'.
Proof.
  intros [I1 I2] He H. destruct e as [t a|t]; simpl in H, He.
  - destruct (nth_error c t) as [[x|]|] eqn:Ht; try discriminate.
    destruct (others_compatible c t a) eqn:Hc; [|discriminate]. inversion H; subst c'; clear H.
    pose proof (others_compatible_spec _ _ _ Hc) as Hs.
    split.
    + intros i a0 Hn. destruct (Nat.eq_dec t i) as [<-|Hne].
      * rewrite (nth_error_set_same _ _ _ _ Ht) in Hn. inversion Hn; subst. exact He.
      * rewrite nth_error_set_other in Hn by exact Hne. eapply I1; exact Hn.
    + intros i j a0 b0 Hij Hi Hj.
      destruct (Nat.eq_dec t i) as [Eti|Hti]; destruct (Nat.eq_dec t j) as [Etj|Htj];
        [congruence|subst i|subst j|].
      * rewrite (nth_error_set_same _ _ _ _ Ht) in Hi. inversion Hi; subst a0.
        rewrite nth_error_set_other in Hj by exact Htj.
        assert (Hl : lock_compatible a b0 = true) by (eapply Hs; [exact Hj|congruence]).
        unfold lock_compatible in Hl. apply andb_true_iff in Hl as [Hl _].
        destruct (protected a b0); [discriminate|reflexivity].
      * rewrite (nth_error_set_same _ _ _ _ Ht) in Hj. inversion Hj; subst b0.
        rewrite nth_error_set_other in Hi by exact Hti.
        assert (Hl : lock_compatible a a0 = true) by (eapply Hs; [exact Hi|congruence]).
        unfold lock_compatible in Hl. apply andb_true_iff in Hl as [_ Hl].
        destruct (protected a0 a); [discriminate|reflexivity].
      * rewrite nth_error_set_other in Hi by exact Hti.
        rewrite nth_error_set_other in Hj by exact Htj. eapply (I2 i j); eassumption.
  - destruct (nth_error c t) as [[x|]|] eqn:Ht; try discriminate.
    inversion H; subst c'; clear H. split.
    + intros i a0 Hn. destruct (Nat.eq_dec t i) as [<-|Hne].
      * rewrite (nth_error_set_same _ _ _ _ Ht) in Hn. discriminate.
      * rewrite nth_error_set_other in Hn by exact Hne. eapply I1; exact Hn.
    + intros i j a0 b0 Hij Hi Hj.
      destruct (Nat.eq_dec t i) as [<-|Hti].
      { rewrite (nth_error_set_same _ _ _ _ Ht) in Hi. discriminate. }
      destruct (Nat.eq_dec t j) as [<-|Htj].
      { rewrite (nth_error_set_same _ _ _ _ Ht) in Hj. discriminate. }
      rewrite nth_error_set_other in Hi by exact Hti.
      rewrite nth_error_set_other in Hj by exact Htj. eapply (I2 i j); eassumption.
Qed.

Lemma linv_idle n : LInv (repeat None n).
Proof.
  split.
  - intros i a H. apply nth_error_In in H. apply repeat_spec in H. discriminate.
  - intros i j a b _ H. apply nth_error_In in H. apply repeat_spec in H. discriminate.
Qed.

(* No reachable state of any number of threads, under any schedule, has two threads inside
   conflicting accesses, if all accesses are rows of a table accepted by [race_free]. *)
Theorem lockset_sound_gen n tr : forall c',
  Forall (ev_in_table tbl) tr -> lrun (repeat None n) tr = Some c' ->
  forall i j a b, i <> j -> nth_error c' i = Some (Some a) -> nth_error c' j = Some (Some b) ->
                  conflict a b = false.
Proof.
  assert (G : forall tr c c', LInv c -> Forall (ev_in_table tbl) tr -> lrun c tr = Some c' -> LInv c').
  { induction tr0 as [|e t IH]; simpl; intros c c' I Hf Hr.
    - inversion Hr; subst; exact I.
    - inversion Hf as [|? ? He Ht]; subst.
      destruct (lstep c e) as [c1|] eqn:Es; [|discriminate].
      eapply IH; [eapply linv_step; eassumption|exact Ht|exact Hr]. }
  intros c' Hf Hr i j a b Hij Hi Hj.
  destruct (G _ _ _ (linv_idle n) Hf Hr) as [I1 I2].
  destruct (conflict a b) eqn:Hc; [|reflexivity].
  pose proof (free_pair a b (I1 _ _ Hi) (I1 _ _ Hj) Hc) as Hp.
  rewrite (I2 _ _ _ _ Hij Hi Hj) in Hp. discriminate.
Qed.
End Sound.

(* ---- the criterion on the code's table ---- *)

(* refuted on the current tree: the record setters run under the guard only, the getters
   under t.mu.RLock only; these are all racy pairs (row ids of Lockset.table) *)
Theorem lockset_race_free_refuted :
  race_free table = false /\
  racy_pairs table =
    [(20,22); (20,23); (20,70); (21,22); (21,23); (21,70); (30,31); (30,71); (32,33); (32,72); (34,35); (34,73); (36,37); (36,74); (38,40); (38,75); (39,40); (39,75); (41,42); (45,45); (45,46); (45,47); (46,47)]%N.
Proof. split; vm_compute; reflexivity. Qed.

(* the unchanged tree additionally raced on the beacon's key map: beacon.GetAll handed out
   the live map (removed by the fix: commit) *)
Theorem lockset_getall_refuted_before_fix :
  forallb (fun p => existsb (fun q => N.eqb (fst p) (fst q) && N.eqb (snd p) (snd q)) (racy_pairs table_before_fix))
          [(1,50); (2,50); (1,51); (2,51); (3,51)]%N = true.
Proof. vm_compute; reflexivity. Qed.

(* what does hold: the beacon (after the fix) and the record fields as far as only guard
   holders touch them are race free *)
Theorem lockset_race_free_partial :
  race_free beacon_rows = true /\ race_free table_guarded = true /\
  (forall a, In a table -> In a table_guarded \/ is_lockfree_getter a = true).
Proof.
  split; [vm_compute; reflexivity|]. split; [vm_compute; reflexivity|].
  intros a Ha. destruct (is_lockfree_getter a) eqn:E; [right; reflexivity|left].
  unfold table_guarded. apply filter_In. split; [exact Ha|rewrite E; reflexivity].
Qed.

(* non-vacuity of lockset_sound: a run over the sound sub-table in which a guarded writer and
   a beacon reader are inside their accesses at the same time, and a second guard holder is
   refused *)
Example sound_nonvacuous :
  let w := R 20 "treasure.SetContent*" LContent Wr guardX in
  let r := R 4 "beacon.Get|IsExists|AreExists|Count" LBeaconMap Rd bmuS in
  In w table_guarded /\ In r table_guarded /\
  lrun (repeat None 3) [Begin 0 w; Begin 1 r; End 1; Begin 1 r] <> None /\
  lrun (repeat None 3) [Begin 0 w; Begin 2 w] = None.
Proof.
  simpl. repeat split.
  - vm_compute. tauto.
  - vm_compute. tauto.
  - vm_compute. discriminate.
Qed.

(* and the semantics does exhibit the race the table predicts: a guarded setter and a
   lock-free getter are inside their accesses simultaneously *)
Example race_reachable :
  let w := R 20 "treasure.SetContent*" LContent Wr guardX in
  let g := R 23 "treasure.GetContent*" LContent Rd tmuS in
  exists c, lrun (repeat None 2) [Begin 0 w; Begin 1 g] = Some c /\
            nth_error c 0 = Some (Some w) /\ nth_error c 1 = Some (Some g) /\ conflict w g = true.
Proof. eexists. vm_compute. repeat split; reflexivity. Qed.

(* ---- the multi-getter read ---- *)

(* a reader that assembles (value, updatedBy) from two getters can return fields of two
   versions: versions 1 and 2 are written as (1,1) and (2,2); the reader obtains (2,1) *)
Theorem read_single_version_refuted :
  exists tr, snd (rw_run {| f_value := 1; f_by := 1 |} (None, None) tr) = (Some 2%Z, Some 1%Z) /\
             filter (fun s => match s with WSetValue _ | WSetBy _ => true | _ => false end) tr
               = [WSetValue 2; WSetBy 2] /\
             filter (fun s => match s with RGetValue | RGetBy => true | _ => false end) tr
               = [RGetValue; RGetBy].
Proof. exists torn_witness. vm_compute. repeat split; reflexivity. Qed.

Lemma rw_run_app tr1 : forall r got tr2,
  rw_run r got (tr1 ++ tr2) = rw_run (fst (rw_run r got tr1)) (snd (rw_run r got tr1)) tr2.
Proof.
  induction tr1 as [|s t IH]; intros r got tr2; simpl; [reflexivity|].
  destruct s; apply IH.
Qed.

(* each single getter is atomic: it returns exactly the field of the record as left by the
   steps before it *)
Theorem read_single_getter_partial r got pre :
  fst (snd (rw_run r got (pre ++ [RGetValue]))) = Some (f_value (fst (rw_run r got pre))) /\
  snd (snd (rw_run r got (pre ++ [RGetBy]))) = Some (f_by (fst (rw_run r got pre))).
Proof. split; rewrite rw_run_app; reflexivity. Qed.
