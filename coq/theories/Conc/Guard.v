(* Conc/Guard.v — executable model of app/core/hydra/swamp/treasure/guard/guard.go.
   Model only (no proofs) so that it still runs when a proof breaks.

   Every method of the Go guard runs under g.mu, so each call is one atomic step, except a
   waiting StartTreasureGuard, which is two: the enqueue (id := ++largest; append) and, later,
   the return from cond.Wait once the id is at the head of the queue (event [EReturn]).

   [reset] selects the id policy on "queue became empty":
     reset = false : ids are never reused (the code after the fix: commit for C15)
     reset = true  : largestGuardID is set back to 0 (the code at the pinned commit).
   The faithful model of the current tree is [reset = false]; the other value is kept only so
   that the refutation of the property for the old code stays machine-checked. *)
From HV Require Import Base.Prelude.

Record gst := { queue : list Z; largest : Z }.

Definition g_init : gst := {| queue := []; largest := 0 |}.

Definition g_enqueue (s : gst) : gst * Z :=
  let id := (largest s + 1)%Z in
  ({| queue := queue s ++ [id]; largest := id |}, id).

Definition g_head (s : gst) : option Z :=
  match queue s with [] => None | h :: _ => Some h end.

Definition g_release (reset : bool) (s : gst) (id : Z) : gst :=
  match queue s with
  | h :: t =>
      if Z.eqb h id then
        {| queue := t;
           largest := match t with [] => if reset then 0%Z else largest s | _ => largest s end |}
      else s
  | [] => s
  end.

(* ---- clients ---------------------------------------------------------------------------- *)

Definition client := nat.

Inductive ev :=
| EStartW (c : client)              (* waiting start: enqueue step *)
| EReturn (c : client)              (* the blocked start of c returns (its id is the head) *)
| EStartN (c : client)              (* non-waiting start: returns id, or 0 when busy *)
| ERelease (c : client) (id : Z).   (* c calls ReleaseTreasureGuard(id) *)

Record st := {
  g    : gst;
  pend : list (client * Z);   (* enqueued waiting starts that have not returned yet *)
  ret  : list (client * Z);   (* every id ever returned to a client (issue log), oldest first *)
  held : list (client * Z)    (* returned and not yet released by the client it was returned to *)
}.

Definition init : st := {| g := g_init; pend := []; ret := []; held := [] |}.

Definition pair_eqb (a b : client * Z) : bool :=
  Nat.eqb (fst a) (fst b) && Z.eqb (snd a) (snd b).

Fixpoint remove_first (x : client * Z) (l : list (client * Z)) : list (client * Z) :=
  match l with
  | [] => []
  | y :: t => if pair_eqb x y then t else y :: remove_first x t
  end.

Fixpoint lookup_client (c : client) (l : list (client * Z)) : option Z :=
  match l with
  | [] => None
  | (c', id) :: t => if Nat.eqb c c' then Some id else lookup_client c t
  end.

Definition mem_pair (x : client * Z) (l : list (client * Z)) : bool := existsb (pair_eqb x) l.

(* One event. [None] = the event is not enabled in this state (a blocked start cannot return
   unless its id is at the head; a client has at most one start in flight). *)
Definition step (reset : bool) (s : st) (e : ev) : option st :=
  match e with
  | EStartW c =>
      match lookup_client c (pend s) with
      | Some _ => None
      | None =>
          let '(g', id) := g_enqueue (g s) in
          Some {| g := g'; pend := pend s ++ [(c, id)]; ret := ret s; held := held s |}
      end
  | EReturn c =>
      match lookup_client c (pend s), g_head (g s) with
      | Some id, Some h =>
          if Z.eqb id h then
            Some {| g := g s; pend := remove_first (c, id) (pend s);
                    ret := ret s ++ [(c, id)]; held := held s ++ [(c, id)] |}
          else None
      | _, _ => None
      end
  | EStartN c =>
      match queue (g s) with
      | [] =>
          let '(g', id) := g_enqueue (g s) in
          Some {| g := g'; pend := pend s; ret := ret s ++ [(c, id)]; held := held s ++ [(c, id)] |}
      | _ => Some s                      (* returns 0, nothing changes *)
      end
  | ERelease c id =>
      Some {| g := g_release reset (g s) id; pend := pend s; ret := ret s;
              held := remove_first (c, id) (held s) |}
  end.

Fixpoint run (reset : bool) (s : st) (tr : list ev) : option st :=
  match tr with
  | [] => Some s
  | e :: t => match step reset s e with Some s' => run reset s' t | None => None end
  end.

(* A release is "own" when the id was at some time returned to the releasing client: this
   allows duplicate and stale releases and releases of an id that is foreign to the current
   holder, but not guessing an id that was handed to somebody else. *)
Definition own_release (s : st) (e : ev) : bool :=
  match e with
  | ERelease c id => mem_pair (c, id) (ret s)
  | _ => true
  end.

Fixpoint own_trace (reset : bool) (s : st) (tr : list ev) : bool :=
  match tr with
  | [] => true
  | e :: t =>
      own_release s e &&
      match step reset s e with Some s' => own_trace reset s' t | None => true end
  end.

(* ---- correspondence: replay of an observed trace ---------------------------------------- *)

(* What the harness observed for one executed operation on the real guard. *)
Inductive obs :=
| OStartW (c : client) (q : list Z)            (* queue snapshot after the enqueue *)
| OReturn (c : client) (id : Z)                (* blocked start returned this id *)
| OStartN (c : client) (id : Z) (q : list Z)   (* returned id (0 = busy), queue afterwards *)
| ORelease (c : client) (id : Z) (q : list Z). (* queue afterwards *)

Definition zlist_eqb := list_eqb Z.eqb.

(* verdict codes: 0 ok; 1 model/impl mismatch; 2 impl trace has two holders at once
   (mutual exclusion); 3 a release by a non-holder changed the holder; 4 FIFO broken *)
Fixpoint replay (reset : bool) (s : st) (tr : list obs) : N :=
  match tr with
  | [] => 0%N
  | o :: t =>
      match o with
      | OStartW c q =>
          match step reset s (EStartW c) with
          | Some s' => if zlist_eqb (queue (g s')) q then replay reset s' t else 1%N
          | None => 1%N
          end
      | OReturn c id =>
          match lookup_client c (pend s), step reset s (EReturn c) with
          | Some id', Some s' => if Z.eqb id id' then replay reset s' t else 1%N
          | _, _ => 1%N
          end
      | OStartN c id q =>
          match step reset s (EStartN c) with
          | Some s' =>
              let mid := match queue (g s) with [] => (largest (g s) + 1)%Z | _ => 0%Z end in
              if Z.eqb id mid && zlist_eqb (queue (g s')) q then replay reset s' t else 1%N
          | None => 1%N
          end
      | ORelease c id q =>
          match step reset s (ERelease c id) with
          | Some s' => if zlist_eqb (queue (g s')) q then replay reset s' t else 1%N
          | None => 1%N
          end
      end
  end.

(* Property oracle evaluated on the *implementation's* observations alone (no model state):
   clients that were returned an id and have not released it themselves are the holders;
   [arr] is the arrival order of the waiting starts that have not returned yet. *)
Fixpoint remove_client (c : client) (l : list client) : list client :=
  match l with
  | [] => []
  | x :: t => if Nat.eqb c x then t else x :: remove_client c t
  end.

Fixpoint oracle (hs : list (client * Z)) (arr : list client) (lastq : list Z) (tr : list obs) : N :=
  match tr with
  | [] => 0%N
  | o :: t =>
      match o with
      | OStartW c q => oracle hs (arr ++ [c]) q t
      | OReturn c id =>
          let hs' := hs ++ [(c, id)] in
          if Nat.ltb 1 (length hs') then 2%N
          else match arr with
               | a :: _ => if Nat.eqb a c then oracle hs' (remove_client c arr) lastq t else 4%N
               | [] => oracle hs' arr lastq t
               end
      | OStartN c id q =>
          if Z.eqb id 0 then oracle hs arr q t
          else let hs' := hs ++ [(c, id)] in
               if Nat.ltb 1 (length hs') then 2%N
               else match arr with
                    | _ :: _ => 4%N        (* a non-waiting start overtook queued waiters *)
                    | [] => oracle hs' arr q t
                    end
      | ORelease c id q =>
          if mem_pair (c, id) hs then oracle (remove_first (c, id) hs) arr q t
          else (* non-holder release: the head must not change *)
            match lastq, q with
            | h :: _, h' :: _ => if Z.eqb h h' then oracle hs arr q t else 3%N
            | [], [] => oracle hs arr q t
            | _, _ => 3%N
            end
      end
  end.

Definition check_case (tr : list obs) : N :=
  match oracle [] [] [] tr with
  | 0%N => replay false init tr
  | v => v
  end.

Definition check_all (cases : list (list obs)) : list verdict := check_cases check_case cases.

(* ---- model -> impl: enumeration of all short client programs ---------------------------- *)
(* ops of the abstract alphabet used by the exhaustive enumeration; the harness interprets
   them on the real guard. [RelOwn c] releases the id c currently holds (no-op if none),
   [RelStale c] releases the most recent id c has already released, [RelOther c] releases the
   id most recently returned to c while the *current holder is somebody else*. *)
Inductive aop := AStartW (c : client) | AStartN (c : client) | ARelOwn (c : client) | ARelStale (c : client).

Definition aops (nclients : nat) : list aop :=
  flat_map (fun c => [AStartW c; AStartN c; ARelOwn c; ARelStale c]) (seq 0 nclients).

Fixpoint sequences {A} (alphabet : list A) (n : nat) : list (list A) :=
  match n with
  | O => [[]]
  | S k => flat_map (fun s => map (fun a => a :: s) alphabet) (sequences alphabet k)
  end.
