(* Conc/GuardProofs.v — invariants of the guard model with monotone ids (reset = false),
   for every trace of any number of clients, and the refutation for reset = true. *)
From HV Require Import Base.Prelude Conc.Guard.
From Coq Require Import Sorted.
Local Open Scope Z_scope.

Definition ids (l : list (client * Z)) : list Z := map snd l.

Record Inv (s : st) : Prop := {
  I_sorted : StronglySorted Z.lt (queue (g s));
  I_range  : Forall (fun x => 0 < x <= largest (g s)) (queue (g s));
  I_lpos   : 0 <= largest (g s);
  I_pend_q : forall c id, In (c, id) (pend s) -> In id (queue (g s));
  I_pend_nd: NoDup (ids (pend s));
  I_ret_nd : NoDup (ids (ret s));
  I_ret_le : Forall (fun x => x <= largest (g s)) (ids (ret s));
  I_disj   : forall id, In id (ids (pend s)) -> ~ In id (ids (ret s));
  I_held_r : forall p, In p (held s) -> In p (ret s);
  I_held_nd: NoDup (held s);
  I_held_h : forall c id, In (c, id) (held s) -> g_head (g s) = Some id;
  I_q_cover: forall id, In id (queue (g s)) -> In id (ids (pend s)) \/ In id (ids (held s));
  I_fifo   : forall r q, In r (ids (ret s)) -> In q (ids (pend s)) -> r < q;
  I_ret_inc: StronglySorted Z.lt (ids (ret s))
}.

(* ---- list helpers ---- *)

Lemma ss_app_last (l : list Z) (x : Z) :
  StronglySorted Z.lt l -> Forall (fun y => y < x) l -> StronglySorted Z.lt (l ++ [x]).
Proof.
  induction l as [|a t IH]; simpl; intros Hs Hf.
  - constructor; constructor.
  - inversion Hs as [|? ? Hs' Ha]; subst. inversion Hf as [|? ? Hax Hf']; subst.
    constructor; [apply IH; assumption|].
    apply Forall_app; split; [assumption| constructor; [assumption|constructor]].
Qed.

Lemma in_ids (l : list (client * Z)) c id : In (c, id) l -> In id (ids l).
Proof. intro H. unfold ids. change id with (snd (c, id)). apply in_map. exact H. Qed.

Lemma in_ids_ex (l : list (client * Z)) id : In id (ids l) -> exists c, In (c, id) l.
Proof.
  unfold ids. intro H. apply in_map_iff in H as [[c i] [E H]]. simpl in E; subst. eauto.
Qed.

Lemma pair_eqb_eq a b : pair_eqb a b = true <-> a = b.
Proof.
  destruct a as [c i], b as [c' i']. unfold pair_eqb; simpl.
  rewrite andb_true_iff, Nat.eqb_eq, Z.eqb_eq. split; [intros [-> ->]; reflexivity|intro E; inversion E; auto].
Qed.

Lemma remove_first_incl x l p : In p (remove_first x l) -> In p l.
Proof.
  induction l as [|y t IH]; simpl; [tauto|].
  destruct (pair_eqb x y); simpl; intuition.
Qed.

Lemma remove_first_nodup x l : NoDup l -> NoDup (remove_first x l).
Proof.
  induction l as [|y t IH]; simpl; intro H; [constructor|].
  inversion H as [|? ? Hn Ht]; subst.
  destruct (pair_eqb x y); [assumption|].
  constructor; [intro Hi; apply Hn; eapply remove_first_incl; eassumption | apply IH; assumption].
Qed.

Lemma remove_first_not_in x l : NoDup l -> ~ In x (remove_first x l).
Proof.
  induction l as [|y t IH]; simpl; intro H; [tauto|].
  inversion H as [|? ? Hn Ht]; subst.
  destruct (pair_eqb x y) eqn:E.
  - apply pair_eqb_eq in E; subst. assumption.
  - simpl. intros [E2|Hi]; [|apply IH; assumption].
    subst y. assert (pair_eqb x x = true) by (apply pair_eqb_eq; reflexivity). congruence.
Qed.

Lemma remove_first_other x l p : In p l -> p <> x -> In p (remove_first x l).
Proof.
  induction l as [|y t IH]; simpl; [tauto|].
  intros [->|Hi] Hne.
  - destruct (pair_eqb x p) eqn:E; [apply pair_eqb_eq in E; congruence| left; reflexivity].
  - destruct (pair_eqb x y); [assumption| right; apply IH; assumption].
Qed.

Lemma remove_first_ids_incl x l id : In id (ids (remove_first x l)) -> In id (ids l).
Proof.
  intro H. apply in_ids_ex in H as [c H]. apply remove_first_incl in H. eapply in_ids; eauto.
Qed.

Lemma remove_first_ids_nodup x l : NoDup (ids l) -> NoDup (ids (remove_first x l)).
Proof.
  induction l as [|y t IH]; simpl; intro H; [constructor|].
  inversion H as [|? ? Hn Ht]; subst.
  destruct (pair_eqb x y); [assumption|]. simpl.
  constructor; [intro Hi; apply Hn; eapply remove_first_ids_incl; eassumption| apply IH; assumption].
Qed.

Lemma lookup_client_in c l id : lookup_client c l = Some id -> In (c, id) l.
Proof.
  induction l as [|[c' i] t IH]; simpl; [discriminate|].
  destruct (Nat.eqb c c') eqn:E.
  - apply Nat.eqb_eq in E; subst. intro H; inversion H; subst. left; reflexivity.
  - intro H. right. apply IH. assumption.
Qed.

Lemma mem_pair_in x l : mem_pair x l = true <-> In x l.
Proof.
  unfold mem_pair. rewrite existsb_exists. split.
  - intros [y [Hy E]]. apply pair_eqb_eq in E; subst; assumption.
  - intro H. exists x. split; [assumption|apply pair_eqb_eq; reflexivity].
Qed.

Lemma nodup_ids_inj l c c' id : NoDup (ids l) -> In (c, id) l -> In (c', id) l -> c = c'.
Proof.
  induction l as [|[a i] t IH]; simpl; intros Hn H1 H2; [tauto|].
  inversion Hn as [|? ? Hni Hnt]; subst.
  destruct H1 as [E1|H1], H2 as [E2|H2].
  - congruence.
  - inversion E1; subst. exfalso. apply Hni. eapply in_ids; eauto.
  - inversion E2; subst. exfalso. apply Hni. eapply in_ids; eauto.
  - eauto.
Qed.

Lemma ss_head_min (h : Z) t x : StronglySorted Z.lt (h :: t) -> In x t -> h < x.
Proof. intros Hs Hi. inversion Hs as [|? ? _ Hf]; subst. rewrite Forall_forall in Hf. auto. Qed.

Lemma ss_head_notin (h : Z) t : StronglySorted Z.lt (h :: t) -> ~ In h t.
Proof. intros Hs Hi. pose proof (ss_head_min _ _ _ Hs Hi). lia. Qed.

Lemma nodup_app_last {A} (l : list A) (x : A) : NoDup l -> ~ In x l -> NoDup (l ++ [x]).
Proof.
  induction l as [|a t IH]; simpl; intros Hn Hx.
  - constructor; [simpl; tauto|constructor].
  - inversion Hn as [|? ? Ha Ht]; subst. constructor.
    + intro Hi. apply in_app_iff in Hi as [Hi|[Hi|[]]]; [contradiction|]. subst. apply Hx. left; reflexivity.
    + apply IH; [assumption|]. intro Hi. apply Hx. right; assumption.
Qed.

Lemma pair_eq_dec (a b : client * Z) : {a = b} + {a <> b}.
Proof. decide equality; [apply Z.eq_dec|apply Nat.eq_dec]. Qed.

(* ---- the invariant ---- *)

Lemma inv_init : Inv init.
Proof.
  constructor; simpl; try constructor; try tauto; try lia; intros; try contradiction.
Qed.

Lemma held_at_most_one s : Inv s -> forall p q, In p (held s) -> In q (held s) -> p = q.
Proof.
  intros I [c i] [c' i'] Hp Hq.
  pose proof (I_held_h _ I _ _ Hp) as H1. pose proof (I_held_h _ I _ _ Hq) as H2.
  assert (i = i') by congruence. subst i'.
  f_equal. apply (nodup_ids_inj (ret s) c c' i (I_ret_nd _ I)); apply (I_held_r _ I); assumption.
Qed.

(* A release of an id that was returned to c earlier but that c no longer holds (stale,
   duplicate, or simply not the current holder's) does not touch the guard. *)
Lemma stale_release_noop s c id :
  Inv s -> In (c, id) (ret s) -> ~ In (c, id) (held s) -> g_release false (g s) id = g s.
Proof.
  intros I Hr Hnh. unfold g_release.
  destruct (queue (g s)) as [|h t] eqn:Eq; [reflexivity|].
  destruct (Z.eqb h id) eqn:E; [|reflexivity].
  apply Z.eqb_eq in E; subst h. exfalso.
  assert (Hin : In id (queue (g s))) by (rewrite Eq; left; reflexivity).
  destruct (I_q_cover _ I _ Hin) as [Hp|Hh].
  - apply (I_disj _ I _ Hp). eapply in_ids; eauto.
  - apply in_ids_ex in Hh as [c' Hh]. pose proof (I_held_r _ I _ Hh) as Hr'.
    assert (c = c') by (eapply nodup_ids_inj; [apply (I_ret_nd _ I)|eassumption|eassumption]).
    subst. contradiction.
Qed.

Lemma inv_step s e s' :
  Inv s -> own_release s e = true -> step false s e = Some s' -> Inv s'.
Proof.
  intros I Hown Hst. destruct e as [c|c|c|c id]; simpl in Hst.
  - (* EStartW *)
    destruct (lookup_client c (pend s)) eqn:El; [discriminate|].
    inversion Hst; subst s'; clear Hst.
    set (nid := largest (g s) + 1).
    assert (Hfresh_q : Forall (fun y => y < nid) (queue (g s))).
    { eapply Forall_impl; [|apply (I_range _ I)]. simpl; intros; unfold nid; lia. }
    assert (Hfresh_r : ~ In nid (ids (ret s))).
    { intro Hi. pose proof (I_ret_le _ I) as Hle. rewrite Forall_forall in Hle.
      apply Hle in Hi. unfold nid in Hi; lia. }
    assert (Hfresh_p : ~ In nid (ids (pend s))).
    { intro Hi. apply in_ids_ex in Hi as [c' Hi]. apply (I_pend_q _ I) in Hi.
      rewrite Forall_forall in Hfresh_q. apply Hfresh_q in Hi. lia. }
    constructor; simpl; fold nid.
    + apply ss_app_last; [apply (I_sorted _ I)|assumption].
    + apply Forall_app; split.
      * eapply Forall_impl; [|apply (I_range _ I)]. simpl; intros; unfold nid; lia.
      * constructor; [pose proof (I_lpos _ I); unfold nid; lia|constructor].
    + pose proof (I_lpos _ I); unfold nid; lia.
    + intros c' id Hi. apply in_app_iff in Hi as [Hi|[Hi|[]]].
      * apply in_app_iff; left. eapply (I_pend_q _ I); eauto.
      * inversion Hi; subst. apply in_app_iff; right; left; reflexivity.
    + unfold ids. rewrite map_app. simpl. apply nodup_app_last; [apply (I_pend_nd _ I)|assumption].
    + apply (I_ret_nd _ I).
    + eapply Forall_impl; [|apply (I_ret_le _ I)]. simpl; intros; unfold nid; lia.
    + intros id Hi. unfold ids in Hi. rewrite map_app in Hi. apply in_app_iff in Hi as [Hi|[Hi|[]]].
      * apply (I_disj _ I); assumption.
      * simpl in Hi; subst. assumption.
    + apply (I_held_r _ I).
    + apply (I_held_nd _ I).
    + intros c' id Hi. pose proof (I_held_h _ I _ _ Hi) as Hh. unfold g_head in *.
      destruct (queue (g s)); [discriminate|]. simpl. assumption.
    + intros id Hi. apply in_app_iff in Hi as [Hi|[Hi|[]]].
      * destruct (I_q_cover _ I _ Hi) as [Hp|Hh]; [left|right; assumption].
        unfold ids. rewrite map_app. apply in_app_iff. left. assumption.
      * subst. left. unfold ids. rewrite map_app. apply in_app_iff. right. left. reflexivity.
    + intros r q Hr Hq. unfold ids in Hq. rewrite map_app in Hq. apply in_app_iff in Hq as [Hq|[Hq|[]]].
      * eapply (I_fifo _ I); eauto.
      * simpl in Hq; subst. pose proof (I_ret_le _ I) as Hle. rewrite Forall_forall in Hle.
        apply Hle in Hr. unfold nid; lia.
    + apply (I_ret_inc _ I).
  - (* EReturn *)
    destruct (lookup_client c (pend s)) as [id|] eqn:El; [|discriminate].
    destruct (g_head (g s)) as [h|] eqn:Eh; [|discriminate].
    destruct (Z.eqb id h) eqn:E; [|discriminate]. apply Z.eqb_eq in E; subst h.
    inversion Hst; subst s'; clear Hst.
    apply lookup_client_in in El.
    assert (Hheld_empty : held s = []).
    { destruct (held s) as [|[c' i'] t] eqn:Ehd; [reflexivity|]. exfalso.
      assert (Hi : In (c', i') (held s)) by (rewrite Ehd; left; reflexivity).
      pose proof (I_held_h _ I _ _ Hi) as Hh. rewrite Eh in Hh. inversion Hh; subst i'.
      apply (I_disj _ I id); [eapply in_ids; eauto|].
      eapply in_ids. apply (I_held_r _ I). eassumption. }
    assert (Hid_notret : ~ In id (ids (ret s))).
    { apply (I_disj _ I). eapply in_ids; eauto. }
    constructor; simpl.
    + apply (I_sorted _ I).
    + apply (I_range _ I).
    + apply (I_lpos _ I).
    + intros c' id' Hi. apply remove_first_incl in Hi. eapply (I_pend_q _ I); eauto.
    + apply remove_first_ids_nodup. apply (I_pend_nd _ I).
    + unfold ids. rewrite map_app. simpl. apply nodup_app_last; [apply (I_ret_nd _ I)|assumption].
    + unfold ids. rewrite map_app. apply Forall_app; split; [apply (I_ret_le _ I)|].
      constructor; [|constructor]. simpl.
      pose proof (I_range _ I) as Hr. rewrite Forall_forall in Hr.
      apply (I_pend_q _ I) in El. apply Hr in El. lia.
    + intros id' Hi Hr. unfold ids in Hr. rewrite map_app in Hr. apply in_app_iff in Hr as [Hr|[Hr|[]]].
      * apply remove_first_ids_incl in Hi. apply (I_disj _ I id'); assumption.
      * simpl in Hr; subst id'.
        apply in_ids_ex in Hi as [c' Hi].
        assert (c' = c).
        { eapply nodup_ids_inj; [apply (I_pend_nd _ I)| |eassumption].
          eapply remove_first_incl; eassumption. }
        subst c'. eapply remove_first_not_in; [|eassumption].
        apply NoDup_map_inv with (f := snd). apply (I_pend_nd _ I).
    + intros p Hi. rewrite Hheld_empty in Hi. simpl in Hi. destruct Hi as [<-|[]].
      apply in_app_iff; right; left; reflexivity.
    + rewrite Hheld_empty. simpl. constructor; [simpl; tauto|constructor].
    + intros c' id' Hi. rewrite Hheld_empty in Hi. simpl in Hi. destruct Hi as [Hi|[]].
      inversion Hi; subst. assumption.
    + intros id' Hi. destruct (Z.eq_dec id' id) as [->|Hne].
      * right. rewrite Hheld_empty. simpl. left; reflexivity.
      * destruct (I_q_cover _ I _ Hi) as [Hp|Hh].
        -- left. apply in_ids_ex in Hp as [c' Hp]. eapply in_ids.
           apply remove_first_other; [eassumption|]. intro Ex; inversion Ex; subst; congruence.
        -- rewrite Hheld_empty in Hh. simpl in Hh. contradiction.
    + intros r q Hr Hq. unfold ids in Hr. rewrite map_app in Hr. apply in_app_iff in Hr as [Hr|[Hr|[]]].
      * apply remove_first_ids_incl in Hq. eapply (I_fifo _ I); eauto.
      * simpl in Hr; subst r.
        (* q is another pending id, so it sits behind the head *)
        assert (Hqp : In q (ids (pend s))) by (eapply remove_first_ids_incl; eassumption).
        assert (Hne : q <> id).
        { intro; subst q. apply in_ids_ex in Hq as [c' Hq].
          assert (c' = c).
          { eapply nodup_ids_inj; [apply (I_pend_nd _ I)| |eassumption].
            eapply remove_first_incl; eassumption. }
          subst c'. eapply remove_first_not_in; [|eassumption].
          apply NoDup_map_inv with (f := snd). apply (I_pend_nd _ I). }
        apply in_ids_ex in Hqp as [c' Hqp]. apply (I_pend_q _ I) in Hqp.
        unfold g_head in Eh. destruct (queue (g s)) as [|h t] eqn:Eq; [discriminate|].
        inversion Eh; subst h. destruct Hqp as [Hx|Hx]; [congruence|].
        eapply ss_head_min; [|eassumption]. rewrite <- Eq. apply (I_sorted _ I).
    + unfold ids. rewrite map_app. simpl. apply ss_app_last; [apply (I_ret_inc _ I)|].
      apply Forall_forall. intros r Hr. eapply (I_fifo _ I); [eassumption|]. eapply in_ids; eauto.
  - (* EStartN *)
    destruct (queue (g s)) as [|h t] eqn:Eq.
    + inversion Hst; subst s'; clear Hst.
      set (nid := largest (g s) + 1).
      assert (Hheld_empty : held s = []).
      { destruct (held s) as [|[c' i'] t'] eqn:Ehd; [reflexivity|]. exfalso.
        assert (Hi : In (c', i') (held s)) by (rewrite Ehd; left; reflexivity).
        pose proof (I_held_h _ I _ _ Hi) as Hh. unfold g_head in Hh. rewrite Eq in Hh. discriminate. }
      assert (Hpend_empty : pend s = []).
      { destruct (pend s) as [|[c' i'] t'] eqn:Ep; [reflexivity|]. exfalso.
        assert (Hi : In (c', i') (pend s)) by (rewrite Ep; left; reflexivity).
        apply (I_pend_q _ I) in Hi. rewrite Eq in Hi. contradiction. }
      assert (Hfresh_r : ~ In nid (ids (ret s))).
      { intro Hi. pose proof (I_ret_le _ I) as Hle. rewrite Forall_forall in Hle.
        apply Hle in Hi. unfold nid in Hi; lia. }
      constructor; simpl; rewrite ?Eq; simpl; fold nid.
      * constructor; constructor.
      * constructor; [pose proof (I_lpos _ I); unfold nid; lia|constructor].
      * pose proof (I_lpos _ I); unfold nid; lia.
      * rewrite Hpend_empty. simpl. tauto.
      * apply (I_pend_nd _ I).
      * unfold ids. rewrite map_app. simpl. apply nodup_app_last; [apply (I_ret_nd _ I)|assumption].
      * unfold ids. rewrite map_app. apply Forall_app; split.
        -- eapply Forall_impl; [|apply (I_ret_le _ I)]. simpl; intros; unfold nid; lia.
        -- constructor; [simpl; lia|constructor].
      * rewrite Hpend_empty. simpl. tauto.
      * rewrite Hheld_empty. simpl. intros p [<-|[]]. apply in_app_iff; right; left; reflexivity.
      * rewrite Hheld_empty. simpl. constructor; [simpl; tauto|constructor].
      * rewrite Hheld_empty. simpl. intros c' id' [Hi|[]]. inversion Hi; subst. reflexivity.
      * intros id' [<-|[]]. right. rewrite Hheld_empty. simpl. left; reflexivity.
      * rewrite Hpend_empty. simpl. tauto.
      * unfold ids. rewrite map_app. simpl. apply ss_app_last; [apply (I_ret_inc _ I)|].
        pose proof (I_ret_le _ I) as Hle. eapply Forall_impl; [|exact Hle]. simpl; intros; unfold nid; lia.
    + inversion Hst; subst s'. assumption.
  - (* ERelease *)
    inversion Hst; subst s'; clear Hst. simpl in Hown. apply mem_pair_in in Hown.
    destruct (in_dec pair_eq_dec (c, id) (held s)) as [Hh|Hnh].
    2:{ (* not the holder: guard untouched *)
        rewrite (stale_release_noop _ _ _ I Hown Hnh).
        constructor; simpl; try apply I.
        - intros p Hp. apply (I_held_r _ I). eapply remove_first_incl; eauto.
        - apply remove_first_nodup. apply I.
        - intros c' id' Hi. eapply (I_held_h _ I). eapply remove_first_incl; eauto.
        - intros id' Hi. destruct (I_q_cover _ I _ Hi) as [Hp|Hq]; [left; assumption|right].
          apply in_ids_ex in Hq as [c' Hq]. eapply in_ids. apply remove_first_other; [eassumption|].
          intro Ex; inversion Ex; subst. contradiction. }
    (* the holder releases: head popped *)
    pose proof (I_held_h _ I _ _ Hh) as Hhead. unfold g_head in Hhead.
    destruct (queue (g s)) as [|h t] eqn:Eq; [discriminate|]. inversion Hhead; subst h.
    assert (Hheld' : remove_first (c, id) (held s) = []).
    { destruct (remove_first (c, id) (held s)) as [|p t'] eqn:Er; [reflexivity|]. exfalso.
      assert (Hp : In p (remove_first (c, id) (held s))) by (rewrite Er; left; reflexivity).
      pose proof (remove_first_incl _ _ _ Hp) as Hp'.
      assert (p = (c, id)) by (eapply held_at_most_one; eauto). subst p.
      eapply remove_first_not_in; [apply (I_held_nd _ I)|eassumption]. }
    pose proof (I_sorted _ I) as Hs. rewrite Eq in Hs.
    pose proof (I_range _ I) as Hr. rewrite Eq in Hr.
    assert (Hg : g_release false (g s) id = {| queue := t; largest := largest (g s) |}).
    { unfold g_release. rewrite Eq. rewrite Z.eqb_refl. destruct t; reflexivity. }
    rewrite Hg. rewrite Hheld'.
    constructor; simpl.
    + inversion Hs; assumption.
    + inversion Hr; assumption.
    + apply (I_lpos _ I).
    + intros c' id' Hi. pose proof (I_pend_q _ I _ _ Hi) as Hq. rewrite Eq in Hq.
      destruct Hq as [Hq|Hq]; [|assumption]. subst id'. exfalso.
      apply (I_disj _ I id); [eapply in_ids; eauto|eapply in_ids; eauto].
    + apply (I_pend_nd _ I).
    + apply (I_ret_nd _ I).
    + apply (I_ret_le _ I).
    + apply (I_disj _ I).
    + intros p [].
    + constructor.
    + intros c' id' [].
    + intros id' Hi. left.
      assert (Hi' : In id' (queue (g s))) by (rewrite Eq; right; assumption).
      destruct (I_q_cover _ I _ Hi') as [Hp|Hq]; [assumption|]. exfalso.
      apply in_ids_ex in Hq as [c' Hq]. pose proof (I_held_h _ I _ _ Hq) as Hh2.
      unfold g_head in Hh2. rewrite Eq in Hh2. inversion Hh2; subst id'.
      eapply ss_head_notin; eassumption.
    + apply (I_fifo _ I).
    + apply (I_ret_inc _ I).
Qed.

(* ---- lifted to every trace ---- *)

Lemma run_inv tr : forall s s',
  Inv s -> own_trace false s tr = true -> run false s tr = Some s' -> Inv s'.
Proof.
  induction tr as [|e t IH]; simpl; intros s s' I Ho Hr.
  - inversion Hr; subst; assumption.
  - apply andb_true_iff in Ho as [Ho1 Ho2].
    destruct (step false s e) as [s1|] eqn:Es; [|discriminate].
    eapply IH; [eapply inv_step; eassumption|assumption|assumption].
Qed.

Lemma held_length s : Inv s -> (length (held s) <= 1)%nat.
Proof.
  intro I. destruct (held s) as [|p [|q t]] eqn:E; simpl; try lia. exfalso.
  assert (Hp : In p (held s)) by (rewrite E; left; reflexivity).
  assert (Hq : In q (held s)) by (rewrite E; right; left; reflexivity).
  pose proof (held_at_most_one _ I _ _ Hp Hq) as Epq. subst q.
  pose proof (I_held_nd _ I) as Hn. rewrite E in Hn. inversion Hn as [|? ? Hni _]; subst.
  apply Hni. left; reflexivity.
Qed.

Theorem guard_mutex tr s' :
  own_trace false init tr = true -> run false init tr = Some s' ->
  (length (held s') <= 1)%nat /\
  (forall c id, In (c, id) (held s') -> g_head (g s') = Some id).
Proof.
  intros Ho Hr. pose proof (run_inv _ _ _ inv_init Ho Hr) as I.
  split; [apply held_length; assumption | apply (I_held_h _ I)].
Qed.

(* Arrival order: ids are handed out in enqueue order (each new id exceeds every id handed
   out before), and blocked starts return in increasing id order. *)
Theorem guard_fifo tr s' :
  own_trace false init tr = true -> run false init tr = Some s' ->
  StronglySorted Z.lt (ids (ret s')) /\
  (forall r q, In r (ids (ret s')) -> In q (ids (pend s')) -> r < q) /\
  (forall x, In x (ids (ret s')) \/ In x (ids (pend s')) -> x <= largest (g s')).
Proof.
  intros Ho Hr. pose proof (run_inv _ _ _ inv_init Ho Hr) as I.
  split; [apply (I_ret_inc _ I)|split; [apply (I_fifo _ I)|]].
  intros x [Hx|Hx].
  - pose proof (I_ret_le _ I) as H. rewrite Forall_forall in H. auto.
  - apply in_ids_ex in Hx as [c Hx]. apply (I_pend_q _ I) in Hx.
    pose proof (I_range _ I) as H. rewrite Forall_forall in H. apply H in Hx. lia.
Qed.

Theorem guard_nonholder_release_harmless tr s c id :
  own_trace false init tr = true -> run false init tr = Some s ->
  In (c, id) (ret s) -> ~ In (c, id) (held s) ->
  forall s', step false s (ERelease c id) = Some s' -> g s' = g s /\ held s' = held s.
Proof.
  intros Ho Hr Hret Hnh s' Hs. pose proof (run_inv _ _ _ inv_init Ho Hr) as I.
  simpl in Hs. inversion Hs; subst s'; simpl. split.
  - apply (stale_release_noop s c id); assumption.
  - clear Hs I. induction (held s) as [|y t IH]; simpl; [reflexivity|].
    destruct (pair_eqb (c, id) y) eqn:E.
    + apply pair_eqb_eq in E; subst. exfalso; apply Hnh; left; reflexivity.
    + f_equal. apply IH. intro Hi. apply Hnh. right; assumption.
Qed.

(* no waiter is stuck: whenever the queue is non-empty, its head is either held by a client
   (who can release) or is a pending start that is enabled to return *)
Theorem guard_head_progress tr s h :
  own_trace false init tr = true -> run false init tr = Some s ->
  g_head (g s) = Some h ->
  (exists c, In (c, h) (held s)) \/ (exists c, In (c, h) (pend s)).
Proof.
  intros Ho Hr Hh. pose proof (run_inv _ _ _ inv_init Ho Hr) as I.
  assert (Hin : In h (queue (g s))).
  { unfold g_head in Hh. destruct (queue (g s)); [discriminate|]. inversion Hh; subst. left; reflexivity. }
  destruct (I_q_cover _ I _ Hin) as [Hp|Hq].
  - right. destruct (in_ids_ex _ _ Hp) as [c Hc]. exists c; exact Hc.
  - left. destruct (in_ids_ex _ _ Hq) as [c Hc]. exists c; exact Hc.
Qed.

(* ---- the pinned commit's id policy (reset to 0 when the queue empties) ---- *)

Definition witness_reset : list ev :=
  [EStartW 0%nat; EReturn 0%nat; ERelease 0%nat 1;      (* A acquires id 1 and releases it *)
   EStartW 1%nat; EReturn 1%nat;                         (* B acquires: id 1 again *)
   ERelease 0%nat 1;                                     (* A releases its stale id: pops B *)
   EStartW 2%nat; EReturn 2%nat].                        (* C acquires while B is still inside *)

Theorem guard_mutex_refuted_with_reset :
  exists tr, own_trace true init tr = true /\
             option_map (fun s => length (held s)) (run true init tr) = Some 2%nat.
Proof. exists witness_reset. split; vm_compute; reflexivity. Qed.

(* with monotone ids the same client programs are harmless: C stays blocked behind B (its
   return is not enabled, so the full witness is not a trace), B is still the only holder *)
Example witness_monotone_ok :
  run false init witness_reset = None /\
  option_map (fun s => (held s, pend s)) (run false init (removelast witness_reset))
    = Some ([(1%nat, 2)], [(2%nat, 3)]).
Proof. split; vm_compute; reflexivity. Qed.

(* non-vacuity: three clients, queueing, duplicate and stale releases; hypotheses hold *)
Definition nonvacuous_trace : list ev :=
  [EStartW 0%nat; EReturn 0%nat; EStartW 1%nat; EStartN 2%nat; EStartW 2%nat;
   ERelease 0%nat 1; ERelease 0%nat 1; EReturn 1%nat; ERelease 0%nat 1;
   ERelease 1%nat 2; EReturn 2%nat].
Example nonvacuous :
  own_trace false init nonvacuous_trace = true /\
  option_map (fun s => (held s, queue (g s))) (run false init nonvacuous_trace)
    = Some ([(2%nat, 3)], [3]).
Proof. split; vm_compute; reflexivity. Qed.

(* Releasing any id that is not at the head - never issued, issued to somebody else and still
   queued behind the head, zero or negative - leaves the guard untouched (no hypothesis on who
   releases what). *)
Theorem guard_release_non_head_noop reset (s : gst) id :
  g_head s <> Some id -> g_release reset s id = s.
Proof.
  unfold g_head, g_release. destruct (queue s) as [|h t]; intro H; [reflexivity|].
  destruct (Z.eqb h id) eqn:E; [|reflexivity]. apply Z.eqb_eq in E; subst. congruence.
Qed.
