(* Storage/C03Compact.v — entry-level model of V2 compaction (no proofs in this file).

   Abstraction level (DESIGN C03, M2, M4): a .hyd file is seen the way the reader sees it:
   a header name plus the list of entries of all blocks in file order; keys, payloads and
   names are interned ids (0 = empty byte string). The byte format, block boundaries and
   compression are C01's subject and do not appear here. Map iteration order (the order in
   which a compaction writes the live keys), every trigger decision (fragmentation ratios
   are float comparisons) and flush boundaries are oracle inputs, observed from the
   implementation by the harness and universally quantified in the theorems.

   Go sources modelled:
     v2/reader.go      LoadIndex
     v2/compactor.go   Compactor.Compact, CompactFromIndex, CleanupCompactionTemp
     v2/writer.go      NewFileWriterWithName (open-existing-for-append | create)
     chronicler_v2.go  Write / Close / ForceCompaction / Load (self-heal) / maybeCompactInline
     hydraidectl/cmd/compact.go  compactSwamp = NewCompactor(path, _, thr).Compact()          *)
From HV Require Import Base.Prelude.
Local Open Scope N_scope.

Definition key := N.
Definition pay := N.      (* payload id; 0 = zero-length payload *)
Definition name := N.     (* name id, same id space as payloads; 0 = "" *)
Definition metakey : key := 0.   (* the id the harness gives to "__swamp_meta__" *)

(* entry operations as LoadIndex distinguishes them: OpInsert/OpUpdate are one class *)
Inductive opc := OSet | ODel | OMeta | OOther.
Record entry := E { e_op : opc; e_key : key; e_pay : pay }.

Definition opc_eqb (a b : opc) : bool :=
  match a, b with OSet, OSet | ODel, ODel | OMeta, OMeta | OOther, OOther => true | _, _ => false end.
Definition entry_eqb (a b : entry) : bool :=
  opc_eqb (e_op a) (e_op b) && (e_key a =? e_key b) && (e_pay a =? e_pay b).

(* ---- the live index: association list with at most one binding per key ----------------- *)
Definition index := list (key * pay).

Definition idel (k : key) (ix : index) : index := filter (fun p => negb (fst p =? k)) ix.
Definition iset (k : key) (v : pay) (ix : index) : index := (k, v) :: idel k ix.
Fixpoint ilookup (k : key) (ix : index) : option pay :=
  match ix with
  | [] => None
  | (k', v) :: t => if k' =? k then Some v else ilookup k t
  end.
Definition ikeys (ix : index) : list key := map fst ix.

(* reader.go:LoadIndex callback *)
Definition apply_entry (st : index * name) (e : entry) : index * name :=
  let (ix, nm) := st in
  match e_op e with
  | OSet => (iset (e_key e) (e_pay e) ix, nm)
  | ODel => (idel (e_key e) ix, nm)
  | OMeta => if (nm =? 0) && (e_key e =? metakey) && negb (e_pay e =? 0) then (ix, e_pay e) else (ix, nm)
  | OOther => (ix, nm)
  end.
Definition load_entries (hname : name) (es : list entry) : index * name :=
  fold_left apply_entry es ([], hname).

(* ---- file images ------------------------------------------------------------------------- *)
Inductive fimg :=
| FGood (hname : name) (es : list entry)  (* valid header, every block parses, clean end *)
| FTorn (hname : name) (es : list entry)  (* valid header; after [es] a hard read error *)
| FBad.                                    (* header short/invalid: NewFileReader and openExistingFile fail *)

Definition load_index (f : fimg) : option (index * name) :=
  match f with FGood h es => Some (load_entries h es) | _ => None end.

(* what may sit at the ".hyd.compact" path *)
Inductive node :=
| NFile (f : fimg)
| NDir.                                    (* something os.Remove cannot remove (non-empty directory) *)

Record fs := FS { hyd : option fimg; tmp : option node }.

(* os.Remove(temp): None = the call failed and the node is still there *)
Definition remove_node (t : option node) : option (option node) :=
  match t with
  | None => Some None
  | Some (NFile _) => Some None
  | Some NDir => None
  end.
(* CleanupCompactionTemp / "_ = os.Remove": errors ignored *)
Definition cleanup_tmp (t : option node) : option node :=
  match remove_node t with Some t' => t' | None => t end.

(* writer.go:NewFileWriterWithName on the temp path: an existing file is opened for append *)
Definition open_temp (t : option node) (nm : name) : option fimg :=
  match t with
  | None => Some (FGood nm [])
  | Some (NFile (FGood h es)) => Some (FGood h es)
  | Some (NFile (FTorn h es)) => Some (FTorn h es)
  | Some (NFile FBad) => None
  | Some NDir => None
  end.
(* appended blocks land behind whatever the file holds *)
Definition fappend (f : fimg) (es' : list entry) : fimg :=
  match f with
  | FGood h es => FGood h (es ++ es')
  | FTorn h es => FTorn h es
  | FBad => FBad
  end.

(* the entries a compaction writes: one OpInsert per live key, in map-iteration order [perm] *)
Definition compact_entries (ix : index) (perm : list key) : list entry :=
  flat_map (fun k => match ilookup k ix with Some v => [E OSet k v] | None => [] end) perm.

Inductive cres := CSkipNoFile | CSkipBelow | CErr | CDone.

(* compactor.go:Compact.  [rm_first] = the repaired code (stale temp removed before the
   writer is created); [rm_first = false] is the code of the pinned commit.
   [go] = "fragmentation >= threshold" (float comparison, oracle). *)
Definition compactor_compact (rm_first go : bool) (perm : list key) (s : fs) : fs * cres :=
  match hyd s with
  | None => (s, CSkipNoFile)
  | Some f =>
    match load_index f with
    | None => (s, CErr)
    | Some (ix, nm) =>
      if negb go then (s, CSkipBelow) else
      match (if rm_first then remove_node (tmp s) else Some (tmp s)) with
      | None => (s, CErr)
      | Some t1 =>
        match open_temp t1 nm with
        | None => (FS (hyd s) t1, CErr)
        | Some t2 => (FS (Some (fappend t2 (compact_entries ix perm))) None, CDone)
        end
      end
    end
  end.

(* compactor.go:CompactFromIndex (index and name supplied by the caller) *)
Definition compact_from_index (nm : name) (ix : index) (perm : list key) (s : fs) : fs * cres :=
  match hyd s with
  | None => (s, CSkipNoFile)
  | Some _ =>
    let t1 := cleanup_tmp (tmp s) in
    match open_temp t1 nm with
    | None => (FS (hyd s) t1, CErr)
    | Some t2 => (FS (Some (fappend t2 (compact_entries ix perm))) None, CDone)
    end
  end.

(* ---- chronicler_v2.go ---------------------------------------------------------------------- *)
(* The writer buffer is folded into the logical file: every compaction path closes (flushes)
   the writer first, and the harness observes files after Sync().                             *)
Record chron := CH { c_fs : fs; c_name : name }.

Definition wr := (key * option pay)%type.      (* a treasure handed to Write: Some = live, None = DeletedAt>0 *)
Definition wr_entry (w : wr) : entry :=
  match snd w with Some v => E OSet (fst w) v | None => E ODel (fst w) 0 end.

(* ensureWriter + WriteEntry*: new file gets the chronicler's name; existing file is appended *)
Definition chron_append (c : chron) (batch : list wr) : fs :=
  let s := c_fs c in
  match batch with
  | [] => s
  | _ =>
    match hyd s with
    | None => FS (Some (FGood (c_name c) (map wr_entry batch))) (tmp s)
    | Some f => FS (Some (fappend f (map wr_entry batch))) (tmp s)
    end
  end.

(* runCompactionLocked: close writer; CleanupCompactionTemp; NewCompactor(path, bs, 0).Compact() *)
Definition run_compaction (rm_first go2 : bool) (perm : list key) (s : fs) : fs :=
  fst (compactor_compact rm_first go2 perm (FS (hyd s) (cleanup_tmp (tmp s)))).

Inductive ep :=
| EWrite (batch : list wr) (go1 go2 : bool) (perm : list key)  (* Write + maybeCompactInline *)
| EClose (go1 go2 : bool) (perm : list key)                    (* Close + maybeCompactInline *)
| EForce (go2 : bool) (perm : list key)                        (* ForceCompaction *)
| ELoad (go : bool) (perm : list key)                          (* Load with self-heal *)
| ECli (go : bool) (perm : list key).                          (* hydraidectl compact *)

Definition step (rm_first : bool) (c : chron) (e : ep) : chron :=
  match e with
  | EWrite batch go1 go2 perm =>
      let s1 := chron_append c batch in
      match batch with
      | [] => c                                   (* Write returns before the trigger *)
      | _ => CH (if go1 then run_compaction rm_first go2 perm s1 else s1) (c_name c)
      end
  | EClose go1 go2 perm =>
      CH (if go1 then run_compaction rm_first go2 perm (c_fs c) else c_fs c) (c_name c)
  | EForce go2 perm => CH (run_compaction rm_first go2 perm (c_fs c)) (c_name c)
  | ELoad go perm =>
      let s1 := FS (hyd (c_fs c)) (cleanup_tmp (tmp (c_fs c))) in
      match hyd s1 with
      | None => CH s1 (c_name c)
      | Some f =>
        match load_index f with
        | None => CH s1 (c_name c)
        | Some (ix, fname) =>
          let nm := if (negb (fname =? 0)) && (c_name c =? 0) then fname else c_name c in
          CH (if go then fst (compact_from_index nm ix perm s1) else s1) nm
        end
      end
  | ECli go perm => CH (fst (compactor_compact rm_first go perm (c_fs c))) (c_name c)
  end.

(* maybeCompactInline: the integer guards in front of the float comparison [frag_gt] *)
Definition may_compact_inline (enabled has_live_fn : bool) (total live min_entries : Z) (frag_gt : bool) : bool :=
  if negb enabled then false else
  if negb has_live_fn then false else
  if (total <? min_entries)%Z then false else
  let live := if (live <? 0)%Z then 0%Z else live in
  if (total <? live)%Z then false else
  if (total <? 2 * live)%Z then false else
  if (total - live <=? 0)%Z then false else
  frag_gt.

(* ---- crash model for the compaction op sequence (own small instance of M7) ----------------- *)
Inductive cop :=
| CRemoveTmp                       (* unlink temp (may report ENOENT) *)
| CCreateTmp (nm : name)           (* O_CREAT|O_TRUNC + header + name *)
| CAppendTmp (es : list entry)     (* one flushed block *)
| CHeaderTmp                       (* 64-byte in-place header rewrite (counters only) *)
| CFsyncTmp
| CCloseTmp
| CRenameTmpHyd.

Definition cop_eqb_shape (a b : cop) : bool :=
  match a, b with
  | CRemoveTmp, CRemoveTmp | CCreateTmp _, CCreateTmp _ | CAppendTmp _, CAppendTmp _
  | CHeaderTmp, CHeaderTmp | CFsyncTmp, CFsyncTmp | CCloseTmp, CCloseTmp | CRenameTmpHyd, CRenameTmpHyd => true
  | _, _ => false
  end.

(* the op list of Compact / CompactFromIndex once the decision to compact is taken;
   [blocks] is the flush policy's partition of the compacted entries (oracle) *)
Definition compact_ops (nm : name) (blocks : list (list entry)) : list cop :=
  [CRemoveTmp; CCreateTmp nm]
  ++ flat_map (fun b => [CAppendTmp b; CHeaderTmp]) blocks
  ++ [CHeaderTmp; CFsyncTmp; CCloseTmp; CRenameTmpHyd].

(* strict structural equality of file images *)
Definition fimg_eqb (a b : fimg) : bool :=
  match a, b with
  | FGood h es, FGood h' es' => (h =? h') && list_eqb entry_eqb es es'
  | FTorn h es, FTorn h' es' => (h =? h') && list_eqb entry_eqb es es'
  | FBad, FBad => true
  | _, _ => false
  end.

(* volatile state while the ops execute *)
Record vstate := VS {
  v_tmp : option fimg;               (* page-cache content of the temp file *)
  v_synced : bool;                   (* every byte written to the temp so far is durable *)
  v_renames : list (fimg * bool)     (* renames executed: content moved over .hyd, and whether it was synced *)
}.
Definition vinit : vstate := VS None false [].

Definition vstep (v : vstate) (o : cop) : vstate :=
  match o with
  | CRemoveTmp => VS None false (v_renames v)
  | CCreateTmp nm => VS (Some (FGood nm [])) false (v_renames v)
  | CAppendTmp es => VS (option_map (fun f => fappend f es) (v_tmp v)) false (v_renames v)
  | CHeaderTmp => VS (v_tmp v) false (v_renames v)
  | CFsyncTmp => VS (v_tmp v) true (v_renames v)
  | CCloseTmp => v
  | CRenameTmpHyd =>
      match v_tmp v with
      | Some f => VS None false ((f, v_synced v) :: v_renames v)
      | None => v
      end
  end.
Definition vrun_from (v : vstate) (ops : list cop) : vstate := fold_left vstep ops v.
Definition vrun (ops : list cop) : vstate := vrun_from vinit ops.

(* What can be on disk after a crash once the ops [done] have executed.
   - the temp path may hold anything at all (stale file, partial/torn new file, nothing):
     nothing about it is durable before the fsync and its directory entry is never synced;
   - the .hyd path holds the old file unless a rename is durable; a durable rename shows
     the content moved, which is complete iff it was fsynced before (ext4-ordered assumption,
     DESIGN M7); content renamed without a preceding fsync may be anything.                  *)
Inductive crash_image (old : fimg) (done : list cop) : fs -> Prop :=
| CI_old : forall t, crash_image old done (FS (Some old) t)
| CI_new : forall f t, In (f, true) (v_renames (vrun done)) -> crash_image old done (FS (Some f) t)
| CI_garbage : forall f g t, In (f, false) (v_renames (vrun done)) -> crash_image old done (FS (Some g) t).

(* an op list is safe for [newf] when every rename it performs moves exactly [newf], fsynced.
   This is what the observed syscall trace of a real compaction is checked against (M2: any
   rewrite that keeps "complete new file, fsync, then rename" passes).                        *)
Fixpoint safe_from (newf : fimg) (v : vstate) (ops : list cop) : bool :=
  match ops with
  | [] => true
  | o :: t =>
    (match o, v_tmp v with
     | CRenameTmpHyd, Some f => v_synced v && fimg_eqb f newf
     | _, _ => true
     end) && safe_from newf (vstep v o) t
  end.
Definition safe_ops (newf : fimg) (ops : list cop) : bool := safe_from newf vinit ops.
Definition renames_done (ops : list cop) : nat := length (v_renames (vrun ops)).

(* ---- correspondence: cases produced by harness/cmd/c03 ------------------------------------- *)
Definition pair_eqb (a b : key * pay) : bool := (fst a =? fst b) && (snd a =? snd b).

(* extensional equality of two duplicate-free indexes given as lists *)
Definition index_eqb (a b : index) : bool :=
  forallb (fun p => match ilookup (fst p) b with Some v => v =? snd p | None => false end) a &&
  forallb (fun p => match ilookup (fst p) a with Some v => v =? snd p | None => false end) b.

Fixpoint nodup_keys (l : list key) : bool :=
  match l with
  | [] => true
  | k :: t => negb (existsb (N.eqb k) t) && nodup_keys t
  end.

(* observation equality: an unreadable .hyd is reported by the harness as [FTorn 0 []] *)
Definition fimg_obs_eqb (a b : fimg) : bool :=
  match a, b with
  | FGood h es, FGood h' es' => (h =? h') && list_eqb entry_eqb es es'
  | FGood _ _, _ | _, FGood _ _ => false
  | _, _ => true
  end.

Inductive epk := KWrite | KClose | KForce | KLoad | KCli.

(* one observed step of a session *)
Record sobs := SO {
  so_kind : epk;
  so_place : option (option node);          (* harness put this at the temp path before the step *)
  so_batch : list wr;                       (* KWrite: the treasures written *)
  so_go1 : bool;                            (* observed: the chronicler's own trigger fired (writer closed + temp cleanup ran) *)
  so_compacted : bool;                      (* observed: the .hyd was replaced *)
  so_file : option fimg;                    (* .hyd after the step as the real reader returns it (name + all entries) *)
  so_index : option (index * name);         (* real LoadIndex after the step *)
  so_tmp_after : bool                       (* something exists at the temp path afterwards *)
}.
Record case := CASE { k_cname : name; k_init : option fimg; k_steps : list sobs }.

Definition ep_of (o : sobs) : ep :=
  let perm := match so_file o with Some (FGood _ es) => map e_key es | _ => [] end in
  match so_kind o with
  | KWrite => EWrite (so_batch o) (so_go1 o) (so_compacted o) perm
  | KClose => EClose (so_go1 o) (so_compacted o) perm
  | KForce => EForce (so_compacted o) perm
  | KLoad => ELoad (so_compacted o) perm
  | KCli => ECli (so_compacted o) perm
  end.

Definition spec_apply (ix : index) (batch : list wr) : index :=
  fst (fold_left apply_entry (map wr_entry batch) (ix, 0)).

(* property oracle on the implementation's observations alone.
   codes: 2 unloadable after step; 3 key appeared; 4 key lost; 5 value changed; 6 name changed *)
Definition classify_diff (expect got : index) : N :=
  if negb (forallb (fun p => match ilookup (fst p) expect with Some _ => true | None => false end) got) then 3
  else if negb (forallb (fun p => match ilookup (fst p) got with Some _ => true | None => false end) expect) then 4
  else if negb (index_eqb expect got) then 5 else 0.

Fixpoint oracle (cname : name) (prev : option (index * name)) (steps : list sobs) : N :=
  match steps with
  | [] => 0
  | o :: t =>
    let batch := match so_kind o with KWrite => so_batch o | _ => [] end in
    match prev, so_index o with
    | Some (ix, nm), None => 2
    | Some (ix, nm), Some (ix', nm') =>
        match classify_diff (spec_apply ix batch) ix' with
        | 0 =>
          let name_ok := (nm' =? nm) ||
                         (match so_kind o with KLoad => negb (cname =? 0) && (nm' =? cname) | _ => false end) in
          if name_ok then oracle cname (Some (ix', nm')) t else 6
        | c => c
        end
    | None, Some (ix', nm') =>
        (* no loadable file before: a Write creates it *)
        match so_kind o with
        | KWrite => match classify_diff (spec_apply [] batch) ix' with 0 => oracle cname (Some (ix', nm')) t | c => c end
        | _ => oracle cname None t
        end
    | None, None => oracle cname None t
    end
  end.

(* model replay: code 1 when the model's file / temp prediction differs from the observation *)
Fixpoint replay (c : chron) (steps : list sobs) : N :=
  match steps with
  | [] => 0
  | o :: t =>
    let c0 := match so_place o with Some n => CH (FS (hyd (c_fs c)) n) (c_name c) | None => c end in
    let c1 := step true c0 (ep_of o) in
    let file_ok := option_eqb fimg_obs_eqb (hyd (c_fs c1)) (so_file o) in
    let idx_ok := match hyd (c_fs c1), so_index o with
                  | Some f, Some (ix, nm) =>
                      match load_index f with
                      | Some (mix, mnm) => index_eqb mix ix && (mnm =? nm) && nodup_keys (ikeys ix)
                      | None => false
                      end
                  | Some f, None => match load_index f with None => true | Some _ => false end
                  | None, None => true
                  | None, Some _ => false
                  end in
    let tmp_ok := Bool.eqb (match tmp (c_fs c1) with Some _ => true | None => false end) (so_tmp_after o) in
    if file_ok && idx_ok && tmp_ok then replay c1 t else 1
  end.

Definition check_case (k : case) : N :=
  let prev := match k_init k with Some f => load_index f | None => None end in
  match oracle (k_cname k) prev (k_steps k) with
  | 0 => replay (CH (FS (k_init k) None) (k_cname k)) (k_steps k)
  | v => v
  end.

(* ---- crash cases ------------------------------------------------------------------------------
   [KC_trace]: the syscall trace of one real compaction (strace), lifted to [cop]s, must be
   [safe_ops] for the file the compaction produced, with exactly one rename.
   [KC_image]: a directory image that [crash_image] allows (the harness materialises it from the
   old file and the traced writes), loaded by the real chronicler: must give the old index.     *)
Inductive ccase :=
| KC_session (k : case)
| KC_trace (ops : list cop) (newfile : fimg)
| KC_image (old : fimg) (idx_after : option (index * name)) (hyd_is_old_or_new : bool)
| KC_conc (init : option fimg) (cname : name) (writes : list wr) (destroyed : bool)
          (final : option (index * name)).

(* code 1: the observed op sequence is not "complete new file, fsync, then one rename" *)
Definition check_trace (ops : list cop) (newfile : fimg) : N :=
  if safe_ops newfile ops && Nat.eqb (renames_done ops) 1 then 0 else 1.

Definition check_image (old : fimg) (after : option (index * name)) (okfile : bool) : N :=
  match load_index old, after with
  | Some (ix, nm), Some (ix', nm') =>
      match classify_diff ix ix' with
      | 0 => if nm' =? nm then (if okfile then 0 else 7) else 6
      | c => c
      end
  | Some _, None => 2
  | None, _ => 0
  end.

(* [KC_conc]: a compaction entry point ran concurrently with other calls on the same chronicler
   (parked just before its rename while a Write / Sync / Close / Destroy was issued, or plain
   stress). [writes]: every treasure whose Write returned, the per-goroutine sequences
   concatenated (the goroutines write disjoint key sets, so every interleaving has the same
   per-key subsequences and hence the same result: spec_apply_lookup_filter). [final]: the real
   LoadIndex after everything returned and the chronicler was closed.
   codes: 2-6 as for sessions; 8 a destroyed swamp has a .hyd again. *)
Definition check_conc (init : option fimg) (cname : name) (writes : list wr) (destroyed : bool)
                      (final : option (index * name)) : N :=
  if destroyed then match final with None => 0 | Some _ => 8 end else
  let start := match init with
               | Some f => load_index f
               | None => Some ([], cname)
               end in
  match start, final with
  | Some (ix, nm), Some (ix', nm') =>
      match classify_diff (spec_apply ix writes) ix' with
      | 0 => if (nm' =? nm) || ((nm =? 0) && (nm' =? cname)) then 0 else 6
      | c => c
      end
  | Some (ix, nm), None => match writes, init with [], None => 0 | _, _ => 2 end
  | None, _ => 0
  end.

Definition check_ccase (k : ccase) : N :=
  match k with
  | KC_session c => check_case c
  | KC_trace ops nf => check_trace ops nf
  | KC_image old after okfile => check_image old after okfile
  | KC_conc init cname writes destroyed final => check_conc init cname writes destroyed final
  end.

Definition check_all (cases : list ccase) : list verdict := check_cases check_ccase cases.
