(* Storage/C03CompactProofs.v — theorems about the compaction model Storage/C03Compact.v *)
From HV Require Import Base.Prelude Storage.C03Compact.
From Coq Require Import ZifyN ZifyNat ZifyBool.
Local Open Scope N_scope.

(* ---- index algebra ------------------------------------------------------------------------ *)
Lemma ilookup_idel_same : forall k ix, ilookup k (idel k ix) = None.
Proof.
  intros k ix; induction ix as [|[k' v] t IH]; simpl; [reflexivity|].
  destruct (k' =? k) eqn:Ek; simpl; [exact IH|]. rewrite Ek. exact IH.
Qed.

Lemma ilookup_idel_other : forall k k' ix, k <> k' -> ilookup k (idel k' ix) = ilookup k ix.
Proof.
  intros k k' ix Hne; induction ix as [|[k2 v] t IH]; simpl; [reflexivity|].
  destruct (k2 =? k') eqn:E2; simpl.
  - apply N.eqb_eq in E2; subst k2.
    destruct (k' =? k) eqn:E3; [apply N.eqb_eq in E3; congruence | exact IH].
  - destruct (k2 =? k) eqn:E3; [reflexivity | exact IH].
Qed.

Lemma ilookup_iset_same : forall k v ix, ilookup k (iset k v ix) = Some v.
Proof. intros; unfold iset; simpl. rewrite N.eqb_refl. reflexivity. Qed.

Lemma ilookup_iset_other : forall k k' v ix, k <> k' -> ilookup k (iset k' v ix) = ilookup k ix.
Proof.
  intros k k' v ix Hne; unfold iset; simpl.
  destruct (k' =? k) eqn:E; [apply N.eqb_eq in E; congruence|].
  apply ilookup_idel_other; exact Hne.
Qed.

(* two states are the same stored state: same live records with the same values, same name *)
Definition st_equiv (a b : index * name) : Prop :=
  (forall k, ilookup k (fst a) = ilookup k (fst b)) /\ snd a = snd b.

Lemma st_equiv_refl : forall a, st_equiv a a.
Proof. intros; split; reflexivity. Qed.

(* the compaction loop visits every live key *)
Definition covers (perm : list key) (ix : index) : Prop :=
  forall k, ilookup k ix <> None -> In k perm.

(* ---- replaying what a compaction wrote ---------------------------------------------------- *)
Lemma compact_entries_cons : forall ix a p,
  compact_entries ix (a :: p) =
  (match ilookup a ix with Some v => [E OSet a v] | None => [] end) ++ compact_entries ix p.
Proof. reflexivity. Qed.

Lemma fold_compact_entries : forall ix perm acc nm,
  snd (fold_left apply_entry (compact_entries ix perm) (acc, nm)) = nm /\
  forall k,
    (In k perm -> ilookup k (fst (fold_left apply_entry (compact_entries ix perm) (acc, nm))) =
                  match ilookup k ix with Some v => Some v | None => ilookup k acc end) /\
    (~ In k perm -> ilookup k (fst (fold_left apply_entry (compact_entries ix perm) (acc, nm))) = ilookup k acc).
Proof.
  intros ix perm; induction perm as [|a p IH]; intros acc nm.
  - split; [reflexivity|]. intros k; split; [intros [] | intros _; reflexivity].
  - rewrite compact_entries_cons, fold_left_app.
    set (acc' := match ilookup a ix with Some v => iset a v acc | None => acc end).
    assert (Hst : fold_left apply_entry (match ilookup a ix with Some v => [E OSet a v] | None => [] end) (acc, nm) = (acc', nm)).
    { unfold acc'. destruct (ilookup a ix); reflexivity. }
    rewrite Hst. destruct (IH acc' nm) as [IHn IHl]. split; [exact IHn|].
    assert (Hother : forall k, k <> a -> ilookup k acc' = ilookup k acc).
    { intros k Hk. unfold acc'. destruct (ilookup a ix); [apply ilookup_iset_other; exact Hk | reflexivity]. }
    assert (Hsame : ilookup a acc' = match ilookup a ix with Some v => Some v | None => ilookup a acc end).
    { unfold acc'. destruct (ilookup a ix); [apply ilookup_iset_same | reflexivity]. }
    intros k. destruct (IHl k) as [IHin IHout]. split.
    + intros Hin. destruct (in_dec N.eq_dec k p) as [Hp|Hp].
      * rewrite (IHin Hp). destruct (ilookup k ix) eqn:Ek; [reflexivity|].
        destruct (N.eq_dec k a) as [->|Hne]; [rewrite Hsame, Ek; reflexivity | apply Hother; exact Hne].
      * assert (k = a) as -> by (destruct Hin; [congruence | contradiction]).
        rewrite (IHout Hp). exact Hsame.
    + intros Hnin. assert (Hp : ~ In k p) by (intros H; apply Hnin; right; exact H).
      rewrite (IHout Hp). apply Hother. intros ->. apply Hnin; left; reflexivity.
Qed.

(* DESIGN: compact_preserves_index — a freshly written compacted file loads to the same
   index and carries the name in its (V3) header, for every iteration order that visits
   every live key. *)
Lemma compact_preserves_index : forall ix nm perm,
  covers perm ix ->
  st_equiv (load_entries nm (compact_entries ix perm)) (ix, nm).
Proof.
  intros ix nm perm Hc. unfold load_entries.
  destruct (fold_compact_entries ix perm [] nm) as [Hn Hl].
  split; [|exact Hn]. intros k. change (fst (ix, nm)) with ix. destruct (Hl k) as [Hin Hout].
  destruct (in_dec N.eq_dec k perm) as [Hi|Hi].
  - eapply eq_trans; [exact (Hin Hi)|]. destruct (ilookup k ix); reflexivity.
  - eapply eq_trans; [exact (Hout Hi)|]. cbn. destruct (ilookup k ix) eqn:E; [|reflexivity].
    exfalso. apply Hi. apply Hc. congruence.
Qed.

(* ---- Compactor.Compact (repaired: rm_first = true) and CompactFromIndex -------------------- *)
Definition state_of (s : fs) : option (index * name) :=
  match hyd s with Some f => load_index f | None => None end.

Lemma compactor_compact_preserves : forall go perm s st,
  state_of s = Some st -> covers perm (fst st) ->
  exists st', state_of (fst (compactor_compact true go perm s)) = Some st' /\ st_equiv st' st.
Proof.
  intros go perm s [ix nm] Hs Hc. unfold state_of in Hs. unfold compactor_compact.
  destruct (hyd s) as [f|] eqn:Eh; [|discriminate].
  rewrite Hs. destruct go; simpl.
  2:{ exists (ix, nm). unfold state_of. rewrite Eh. split; [exact Hs | apply st_equiv_refl]. }
  destruct (remove_node (tmp s)) as [t1|] eqn:Er.
  2:{ exists (ix, nm). simpl. unfold state_of. rewrite Eh. split; [exact Hs | apply st_equiv_refl]. }
  assert (t1 = None) as -> by (destruct (tmp s) as [[?|]|]; simpl in Er; congruence).
  simpl. eexists; split; [unfold state_of; simpl; reflexivity|].
  simpl. apply compact_preserves_index. exact Hc.
Qed.

Lemma cleanup_tmp_cases : forall t, cleanup_tmp t = None \/ cleanup_tmp t = Some NDir.
Proof. intros [[f|]|]; simpl; auto. Qed.

Lemma compact_from_index_preserves : forall nm ix perm s st,
  state_of s = Some st -> covers perm ix ->
  exists st', state_of (fst (compact_from_index nm ix perm s)) = Some st' /\
              (st_equiv st' st \/ st_equiv st' (ix, nm)).
Proof.
  intros nm ix perm s st Hs Hc. unfold compact_from_index. unfold state_of in Hs.
  destruct (hyd s) as [f|] eqn:Eh; [|discriminate].
  destruct (cleanup_tmp_cases (tmp s)) as [Et|Et]; rewrite Et; simpl.
  - eexists; split; [unfold state_of; simpl; reflexivity|]. right.
    apply compact_preserves_index. exact Hc.
  - exists st. unfold state_of; simpl. try rewrite Eh. split; [exact Hs | left; apply st_equiv_refl].
Qed.

(* ---- chronicler entry points --------------------------------------------------------------- *)
Definition ep_batch (e : ep) : list wr := match e with EWrite b _ _ _ => b | _ => [] end.
Definition ep_perm (e : ep) : list key :=
  match e with EWrite _ _ _ p | EClose _ _ p | EForce _ p | ELoad _ p | ECli _ p => p end.
Definition is_load (e : ep) : bool := match e with ELoad _ _ => true | _ => false end.

Definition wr_apply (ix : index) (w : wr) : index :=
  match snd w with Some v => iset (fst w) v ix | None => idel (fst w) ix end.

Lemma apply_wr_entry : forall ix nm w, apply_entry (ix, nm) (wr_entry w) = (wr_apply ix w, nm).
Proof. intros ix nm [k [v|]]; reflexivity. Qed.

Lemma fold_wr_entries : forall batch ix nm,
  fold_left apply_entry (map wr_entry batch) (ix, nm) = (spec_apply ix batch, nm).
Proof.
  unfold spec_apply. intros batch; induction batch as [|w t IH]; intros ix nm.
  - reflexivity.
  - cbn [map fold_left]. rewrite !apply_wr_entry. rewrite IH. rewrite (IH _ 0). reflexivity.
Qed.

Lemma load_entries_app : forall h es es',
  load_entries h (es ++ es') = fold_left apply_entry es' (load_entries h es).
Proof. intros; unfold load_entries; apply fold_left_app. Qed.

Lemma run_compaction_preserves : forall go2 perm s st,
  state_of s = Some st -> covers perm (fst st) ->
  exists st', state_of (run_compaction true go2 perm s) = Some st' /\ st_equiv st' st.
Proof.
  intros go2 perm s st Hs Hc. unfold run_compaction.
  apply compactor_compact_preserves; [|exact Hc]. unfold state_of in *; simpl. exact Hs.
Qed.

(* C03_any_entry_point_preserves: every entry point, every pre-existing temp node, every
   trigger decision, every iteration order covering the live keys. The stored name is kept,
   except that Load's self-heal writes the chronicler's configured name when it has one. *)
Theorem any_entry_point_preserves : forall c e h es,
  hyd (c_fs c) = Some (FGood h es) ->
  let before := load_entries h es in
  let expect := (spec_apply (fst before) (ep_batch e), snd before) in
  covers (ep_perm e) (fst expect) ->
  exists st', state_of (c_fs (step true c e)) = Some st' /\
    (forall k, ilookup k (fst st') = ilookup k (fst expect)) /\
    (snd st' = snd expect \/ (is_load e = true /\ c_name c <> 0 /\ snd st' = c_name c)).
Proof.
  intros c e h es Hh before expect Hc.
  assert (Hst : state_of (c_fs c) = Some before) by (unfold state_of; rewrite Hh; reflexivity).
  destruct e as [batch go1 go2 perm | go1 go2 perm | go2 perm | go perm | go perm]; simpl in *.
  - (* Write *)
    destruct batch as [|w b].
    + exists before. split; [exact Hst|]. split; [intros; reflexivity | left; reflexivity].
    + set (batch := w :: b) in *.
      assert (Ha : state_of (chron_append c batch) = Some expect).
      { unfold chron_append, batch. rewrite Hh. unfold state_of; simpl hyd.
        unfold fappend, load_index. rewrite load_entries_app.
        fold before. change (wr_entry w :: map wr_entry b) with (map wr_entry batch).
        unfold expect. destruct before as [bix bnm]. rewrite fold_wr_entries. reflexivity. }
      destruct go1.
      * destruct (run_compaction_preserves go2 perm _ _ Ha Hc) as [st' [H1 [H2 H3]]].
        exists st'. split; [exact H1|]. split; [exact H2 | left; exact H3].
      * exists expect. split; [exact Ha|]. split; [intros; reflexivity | left; reflexivity].
  - (* Close *)
    destruct go1.
    + destruct (run_compaction_preserves go2 perm _ _ Hst Hc) as [st' [H1 [H2 H3]]].
      exists st'. split; [exact H1|]. split; [exact H2 | left; exact H3].
    + exists before. split; [exact Hst|]. split; [intros; reflexivity | left; reflexivity].
  - (* ForceCompaction *)
    destruct (run_compaction_preserves go2 perm _ _ Hst Hc) as [st' [H1 [H2 H3]]].
    exists st'. split; [exact H1|]. split; [exact H2 | left; exact H3].
  - (* Load self-heal *)
    rewrite Hh. simpl load_index. fold before. destruct before as [bix bnm] eqn:Eb. simpl in *.
    set (nm := if negb (bnm =? 0) && (c_name c =? 0) then bnm else c_name c).
    set (s1 := FS (Some (FGood h es)) (cleanup_tmp (tmp (c_fs c)))).
    assert (Hs1 : state_of s1 = Some (bix, bnm)) by (unfold state_of, s1; simpl; rewrite <- Eb; reflexivity).
    destruct go; simpl.
    + destruct (compact_from_index_preserves nm bix perm s1 _ Hs1 Hc) as [st' [H1 [[H2 H3]|[H2 H3]]]].
      * exists st'. split; [exact H1|]. split; [exact H2 | left; exact H3].
      * exists st'. split; [exact H1|]. split; [exact H2|].
        simpl in H3. unfold nm in H3.
        destruct (bnm =? 0) eqn:E0; simpl in H3.
        -- apply N.eqb_eq in E0. subst bnm.
           destruct (N.eq_dec (c_name c) 0) as [Ez|Ez]; [left; congruence | right; auto].
        -- destruct (c_name c =? 0) eqn:E1; simpl in H3; [left; exact H3|].
           apply N.eqb_neq in E1. right; auto.
    + exists (bix, bnm). split; [exact Hs1|]. split; [intros; reflexivity | left; reflexivity].
  - (* hydraidectl compact *)
    destruct (compactor_compact_preserves go perm _ _ Hst Hc) as [st' [H1 [H2 H3]]].
    exists st'. split; [exact H1|]. split; [exact H2 | left; exact H3].
Qed.

(* ---- sequences of calls: any interleaving of atomic steps -------------------------------------- *)
(* Every chronicler method runs under c.mu, so a concurrent execution is some sequence of steps. *)
Lemma wr_apply_lookup : forall k ix w,
  ilookup k (wr_apply ix w) = if fst w =? k then snd w else ilookup k ix.
Proof.
  intros k ix [k' [v|]]; unfold wr_apply; cbn [fst snd].
  - destruct (k' =? k) eqn:E.
    + apply N.eqb_eq in E; subst. apply ilookup_iset_same.
    + apply N.eqb_neq in E. apply ilookup_iset_other. congruence.
  - destruct (k' =? k) eqn:E.
    + apply N.eqb_eq in E; subst. apply ilookup_idel_same.
    + apply N.eqb_neq in E. apply ilookup_idel_other. congruence.
Qed.

Lemma spec_apply_cons : forall ix w t, spec_apply ix (w :: t) = spec_apply (wr_apply ix w) t.
Proof.
  intros. unfold spec_apply. cbn [map fold_left]. rewrite apply_wr_entry. reflexivity.
Qed.

Lemma spec_apply_app : forall ix a b, spec_apply ix (a ++ b) = spec_apply (spec_apply ix a) b.
Proof.
  intros ix a; revert ix; induction a as [|w t IH]; intros ix b; [reflexivity|].
  rewrite <- app_comm_cons, !spec_apply_cons. apply IH.
Qed.

(* the value of a key after a batch depends only on its value before *)
Lemma spec_apply_lookup_congr : forall k l a b,
  ilookup k a = ilookup k b -> ilookup k (spec_apply a l) = ilookup k (spec_apply b l).
Proof.
  intros k l; induction l as [|w t IH]; intros a b H; [exact H|].
  rewrite !spec_apply_cons. apply IH. rewrite !wr_apply_lookup. rewrite H. reflexivity.
Qed.

(* ... and only on the writes to that key: two write orders with the same per-key subsequences
   (e.g. any interleaving of writers that own disjoint key sets) give the same state *)
Lemma spec_apply_lookup_filter : forall k l ix,
  ilookup k (spec_apply ix l) = ilookup k (spec_apply ix (filter (fun w : wr => fst w =? k) l)).
Proof.
  intros k l; induction l as [|w t IH]; intros ix; [reflexivity|].
  cbn [filter]. destruct (fst w =? k) eqn:E.
  - rewrite !spec_apply_cons. apply IH.
  - rewrite spec_apply_cons, IH. apply spec_apply_lookup_congr.
    rewrite wr_apply_lookup, E. reflexivity.
Qed.

Fixpoint run_steps (c : chron) (es : list ep) : chron :=
  match es with [] => c | e :: t => run_steps (step true c e) t end.

Fixpoint steps_cover (c : chron) (es : list ep) : Prop :=
  match es with
  | [] => True
  | e :: t =>
    match state_of (c_fs c) with
    | Some st => covers (ep_perm e) (spec_apply (fst st) (ep_batch e))
    | None => True
    end /\ steps_cover (step true c e) t
  end.

Lemma state_of_good : forall s st, state_of s = Some st ->
  exists h es, hyd s = Some (FGood h es) /\ load_entries h es = st.
Proof.
  intros s st H. unfold state_of in H. destruct (hyd s) as [[h es|h es|]|]; simpl in H; try discriminate.
  inversion H. eauto.
Qed.

Theorem any_interleaving_preserves : forall es c st,
  state_of (c_fs c) = Some st -> steps_cover c es ->
  exists st', state_of (c_fs (run_steps c es)) = Some st' /\
    forall k, ilookup k (fst st') = ilookup k (spec_apply (fst st) (flat_map ep_batch es)).
Proof.
  induction es as [|e t IH]; intros c st Hs Hc.
  - exists st. split; [exact Hs | intros; reflexivity].
  - destruct Hc as [Hc1 Hc2]. rewrite Hs in Hc1.
    destruct (state_of_good _ _ Hs) as [h [es0 [Hh Hl]]].
    pose proof (any_entry_point_preserves c e h es0 Hh) as P. simpl in P. rewrite Hl in P.
    destruct (P Hc1) as [st1 [H1 [H2 _]]].
    destruct (IH (step true c e) st1 H1 Hc2) as [st' [H3 H4]].
    exists st'. split; [exact H3|]. intros k. rewrite H4.
    cbn [flat_map]. rewrite spec_apply_app. apply spec_apply_lookup_congr. apply H2.
Qed.

(* the hypothesis is satisfiable and the theorem is not vacuous: a fragmented file with a
   deleted key, a stale temp holding that key under a foreign name, compaction through the CLI *)
Definition ex_file : fimg :=
  FGood 7 [E OSet 1 10; E OSet 2 20; E OSet 1 11; E ODel 2 0; E OSet 3 30; E OSet 3 31].
Definition ex_stale : node := NFile (FGood 9 [E OSet 2 20]).
Definition ex_chron : chron := CH (FS (Some ex_file) (Some ex_stale)) 7.

Example ex_covers : covers [3; 1] (fst (load_entries 7 [E OSet 1 10; E OSet 2 20; E OSet 1 11; E ODel 2 0; E OSet 3 30; E OSet 3 31])).
Proof.
  assert (Ei : fst (load_entries 7 [E OSet 1 10; E OSet 2 20; E OSet 1 11; E ODel 2 0; E OSet 3 30; E OSet 3 31])
               = [(3, 31); (1, 11)]) by (vm_compute; reflexivity).
  rewrite Ei. intros k Hk. cbn [ilookup] in Hk.
  destruct (3 =? k) eqn:E3; [apply N.eqb_eq in E3; subst; left; reflexivity|].
  destruct (1 =? k) eqn:E1; [apply N.eqb_eq in E1; subst; right; left; reflexivity|].
  exfalso; apply Hk; reflexivity.
Qed.

Example ex_cli_result :
  c_fs (step true ex_chron (ECli true [3; 1])) = FS (Some (FGood 7 [E OSet 3 31; E OSet 1 11])) None.
Proof. vm_compute; reflexivity. Qed.

(* the code of the pinned commit (no removal of the stale temp): the deleted key 2 is back and
   the stored name is the stale file's *)
Theorem stale_temp_refuted_before_fix :
  exists c perm h es,
    hyd (c_fs c) = Some (FGood h es) /\
    covers perm (fst (load_entries h es)) /\
    exists st', state_of (c_fs (step false c (ECli true perm))) = Some st' /\
      ilookup 2 (fst (load_entries h es)) = None /\ ilookup 2 (fst st') = Some 20 /\
      snd (load_entries h es) = 7 /\ snd st' = 9.
Proof.
  exists ex_chron, [3; 1]. do 2 eexists. split; [reflexivity|]. split; [exact ex_covers|].
  eexists. split; [vm_compute; reflexivity|]. vm_compute. repeat split; reflexivity.
Qed.

(* a torn stale temp made the pinned code replace the swamp by an unreadable file *)
Theorem stale_torn_temp_destroys_before_fix :
  exists c perm, state_of (c_fs c) <> None /\ state_of (c_fs (step false c (ECli true perm))) = None.
Proof.
  exists (CH (FS (Some ex_file) (Some (NFile (FTorn 7 [])))) 7), [3; 1].
  split; vm_compute; [discriminate | reflexivity].
Qed.

(* ---- inline trigger ------------------------------------------------------------------------ *)
Lemma trigger_monotone : forall enabled has_fn total live min_entries frag_gt,
  may_compact_inline enabled has_fn total live min_entries frag_gt = true ->
  (min_entries <= total /\ 2 * live <= total /\ live < total /\ frag_gt = true)%Z.
Proof.
  intros enabled has_fn total live mn fg. unfold may_compact_inline.
  destruct enabled; [|discriminate]. destruct has_fn; [|discriminate]. cbn [negb].
  destruct (total <? mn)%Z eqn:E1; [discriminate|].
  destruct (live <? 0)%Z eqn:E2;
    match goal with |- context [(total <? ?l)%Z] => destruct (total <? l)%Z eqn:E3 end; try discriminate;
    match goal with |- context [(total <? 2 * ?l)%Z] => destruct (total <? 2 * l)%Z eqn:E4 end; try discriminate;
    match goal with |- context [(total - ?l <=? 0)%Z] => destruct (total - l <=? 0)%Z eqn:E5 end; try discriminate;
    intros ->; lia.
Qed.

Example trigger_example : may_compact_inline true true 300 10 100 true = true.
Proof. vm_compute; reflexivity. Qed.

(* ---- crash atomicity ------------------------------------------------------------------------ *)
Lemma entry_eqb_eq : forall a b, entry_eqb a b = true <-> a = b.
Proof.
  intros [o k p] [o' k' p']; unfold entry_eqb; simpl. split.
  - intros H. apply andb_true_iff in H as [H H3]. apply andb_true_iff in H as [H1 H2].
    apply N.eqb_eq in H2, H3. subst. destruct o, o'; simpl in H1; try discriminate; reflexivity.
  - intros H; inversion H; subst. rewrite !N.eqb_refl. destruct o'; reflexivity.
Qed.

Lemma fimg_eqb_eq : forall a b, fimg_eqb a b = true -> a = b.
Proof.
  intros [h es|h es|] [h' es'|h' es'|]; simpl; intros H; try discriminate; try reflexivity;
    apply andb_true_iff in H as [H1 H2]; apply N.eqb_eq in H1;
    apply (list_eqb_eq entry_eqb entry_eqb_eq) in H2; subst; reflexivity.
Qed.

Lemma fimg_eqb_refl : forall a, fimg_eqb a a = true.
Proof.
  intros [h es|h es|]; simpl; try reflexivity; rewrite N.eqb_refl; simpl;
    apply (list_eqb_eq entry_eqb entry_eqb_eq); reflexivity.
Qed.

Definition renames_ok (newf : fimg) (l : list (fimg * bool)) : Prop :=
  forall f b, In (f, b) l -> f = newf /\ b = true.

Lemma safe_from_renames : forall newf ops v,
  safe_from newf v ops = true -> renames_ok newf (v_renames v) ->
  forall done rest, ops = done ++ rest -> renames_ok newf (v_renames (vrun_from v done)).
Proof.
  intros newf ops; induction ops as [|o t IH]; intros v Hs Hr done rest Heq.
  - destruct done; [exact Hr | discriminate].
  - destruct done as [|d done']; [exact Hr|].
    simpl in Heq. inversion Heq; subst d t. clear Heq.
    simpl in Hs. apply andb_true_iff in Hs as [Ho Hs].
    unfold vrun_from; simpl. apply (IH (vstep v o) Hs) with (rest := rest); [|reflexivity].
    destruct o; simpl; try exact Hr.
    destruct (v_tmp v) as [f|] eqn:Et; [|exact Hr]. simpl.
    apply andb_true_iff in Ho as [Hsy Hf]. apply fimg_eqb_eq in Hf.
    intros f' b' [Hin|Hin]; [inversion Hin; subst; auto | apply Hr; exact Hin].
Qed.

(* for every safe op list, every prefix executed before the crash, every crash image: the
   .hyd path holds the complete old or the complete new file *)
Lemma crash_atomic_of_safe : forall old newf ops done rest img,
  safe_ops newf ops = true -> ops = done ++ rest ->
  crash_image old done img ->
  hyd img = Some old \/ hyd img = Some newf.
Proof.
  intros old newf ops done rest img Hs Heq Hc.
  assert (Hr : renames_ok newf (v_renames (vrun done))).
  { unfold vrun. apply (safe_from_renames newf ops vinit Hs) with (rest := rest); [|exact Heq]. intros f b []. }
  inversion Hc; subst; simpl.
  - left; reflexivity.
  - right. destruct (Hr _ _ H) as [-> _]. reflexivity.
  - destruct (Hr _ _ H) as [_ Hb]. discriminate.
Qed.

Lemma vrun_blocks : forall blocks h es syn rn,
  vrun_from (VS (Some (FGood h es)) syn rn) (flat_map (fun b => [CAppendTmp b; CHeaderTmp]) blocks)
  = VS (Some (FGood h (es ++ concat blocks))) (match blocks with [] => syn | _ => false end) rn.
Proof.
  induction blocks as [|b t IH]; intros h es syn rn; simpl.
  - rewrite app_nil_r. reflexivity.
  - unfold vrun_from in *; simpl. rewrite IH. rewrite <- app_assoc.
    destruct t; reflexivity.
Qed.

Lemma safe_from_no_rename : forall newf ops v,
  (forall o, In o ops -> o <> CRenameTmpHyd) -> safe_from newf v ops = true.
Proof.
  intros newf ops; induction ops as [|o t IH]; intros v Hn; simpl; [reflexivity|].
  rewrite IH by (intros o' Ho'; apply Hn; right; exact Ho').
  destruct o; try reflexivity. exfalso. apply (Hn CRenameTmpHyd); [left|]; reflexivity.
Qed.

Lemma safe_from_app : forall newf a b v,
  safe_from newf v (a ++ b) = safe_from newf v a && safe_from newf (vrun_from v a) b.
Proof.
  intros newf a; induction a as [|o t IH]; intros b v; simpl; [reflexivity|].
  unfold vrun_from; simpl. rewrite IH. rewrite andb_assoc. reflexivity.
Qed.

Lemma compact_ops_safe : forall nm blocks,
  safe_ops (FGood nm (concat blocks)) (compact_ops nm blocks) = true.
Proof.
  intros nm blocks. unfold safe_ops, compact_ops.
  change ([CRemoveTmp; CCreateTmp nm] ++ flat_map (fun b => [CAppendTmp b; CHeaderTmp]) blocks ++ [CHeaderTmp; CFsyncTmp; CCloseTmp; CRenameTmpHyd])
    with (CRemoveTmp :: CCreateTmp nm :: (flat_map (fun b => [CAppendTmp b; CHeaderTmp]) blocks ++ [CHeaderTmp; CFsyncTmp; CCloseTmp; CRenameTmpHyd])).
  simpl. rewrite safe_from_app. rewrite vrun_blocks. simpl.
  pose proof (fimg_eqb_refl (FGood nm (concat blocks))) as Hre. simpl in Hre. rewrite Hre. simpl. rewrite andb_true_r.
  apply safe_from_no_rename. intros o Ho. apply in_flat_map in Ho as [b [_ Hb]].
  destruct Hb as [<-|[<-|[]]]; discriminate.
Qed.

(* C03_crash_atomic: crash after any prefix of the compaction ops, any crash image, any stale
   temp: after Load's temp cleanup the .hyd holds the complete old or the complete new file and
   loads to the old state. *)
Theorem crash_atomic : forall h es perm blocks done rest img,
  let old := FGood h es in
  let st := load_entries h es in
  covers perm (fst st) ->
  concat blocks = compact_entries (fst st) perm ->
  compact_ops (snd st) blocks = done ++ rest ->
  crash_image old done img ->
  let img' := FS (hyd img) (cleanup_tmp (tmp img)) in
  (hyd img' = Some old \/ hyd img' = Some (FGood (snd st) (concat blocks))) /\
  exists st', state_of img' = Some st' /\ st_equiv st' st.
Proof.
  intros h es perm blocks done rest img old st Hc Hb Heq Hci img'.
  pose proof (crash_atomic_of_safe old _ _ done rest img (compact_ops_safe (snd st) blocks) Heq Hci) as H.
  split; [exact H|]. unfold state_of, img'; simpl.
  destruct H as [H|H]; rewrite H; simpl.
  - exists st. split; [reflexivity | apply st_equiv_refl].
  - eexists; split; [reflexivity|]. rewrite Hb.
    destruct st as [ix nm] eqn:Est. simpl. apply compact_preserves_index. exact Hc.
Qed.

(* non-vacuity: the op list of the example compaction, crashed right after the rename, allows
   the new file (and only old/new) *)
Example crash_example :
  let ops := compact_ops 7 [[E OSet 3 31]; [E OSet 1 11]] in
  crash_image ex_file ops (FS (Some (FGood 7 [E OSet 3 31; E OSet 1 11])) (Some (NFile FBad))).
Proof. simpl. apply CI_new. vm_compute. left; reflexivity. Qed.

(* without the fsync the same op list allows arbitrary content at the .hyd path *)
Example crash_without_fsync_is_unsafe :
  let ops := [CRemoveTmp; CCreateTmp 7; CAppendTmp [E OSet 3 31]; CHeaderTmp; CCloseTmp; CRenameTmpHyd] in
  safe_ops (FGood 7 [E OSet 3 31]) ops = false /\ crash_image ex_file ops (FS (Some FBad) None).
Proof.
  simpl. split; [vm_compute; reflexivity|].
  apply (CI_garbage _ _ (FGood 7 [E OSet 3 31])). vm_compute. left; reflexivity.
Qed.
