(* Storage/Writer.v — the V2 FileWriter (v2/writer.go + WriteBuffer of v2/block.go) as a state
   machine over the *logical* file: header counters, stored name, and the list of blocks, each
   a list of entries.  The bytes of a logical file are given by [Reader.render]; what the
   reader makes of those bytes is proved in ReaderProofs.v.

   Generic (M4) in the key type K, payload type D and name type NM: the writer only looks at
   their lengths.  The automatic-flush decision (block.go: currentSize >= maxSize) is *not*
   modelled: every write carries the flush decision [fl] as an input (M2), so theorems
   quantify over every placement of flush boundaries, hence over every block size; the
   correspondence check feeds the decisions observed from the implementation.

   [guard] selects the code: true = current (repaired) writer, which rejects entries it cannot
   encode, caps a block at 65535 entries and refuses names of 65536+ bytes; false = the writer
   of the pinned commit, which accepted everything (kept for the refutation theorems).

   Executable model, no proofs. *)
From HV Require Import Base.Prelude Storage.Format Storage.Lww.
Local Open Scope N_scope.

Section Writer.
Variables (K D NM : Type).
Variables (klen : K -> N) (dlen : D -> N) (nmlen : NM -> N).
(* "the serialized and the compressed block both fit a uint32 length" – abstract here because
   compression is abstract; instantiated in Reader.v *)
Variable cfits : list (lentry K D) -> bool.
Variable guard : bool.

Notation lent := (lentry K D).

Record lfile := mkF {
  f_ver : N;                 (* 2 or 3 *)
  f_name : NM;               (* V3: bytes after the header.  V2: not stored here (metadata entry) *)
  f_ec : N; f_bc : N;        (* header counters as on disk *)
  f_blocks : list (list lent) }.

Record wstate := mkW { w_buf : list lent; w_bc : N; w_ec : N }.

(* the file on disk (None = does not exist) and the open writer, if any *)
Record state := mkS { s_file : option lfile; s_w : option wstate }.

Inductive wop :=
| OOpen (name : NM)               (* NewFileWriterWithName(path, maxBlock, name) *)
| OWrite (e : lent) (fl : bool)   (* WriteEntry; fl = the size policy asked for a flush *)
| OFlush | OSync | OClose.

Inductive res := ROk | RErr.
Definition res_eqb (a b : res) : bool :=
  match a, b with ROk, ROk => true | RErr, RErr => true | _, _ => false end.

Definition MaxKeySize : N := 65535.
Definition MaxEntriesPerBlock : N := 65535.
Definition MaxNameSize : N := 65535.

(* validateEntry (repaired writer): 1 <= len(key) <= 65535, len(data) <= MaxUint32 *)
Definition encodable (e : lent) : bool :=
  (1 <=? klen (l_key e)) && (klen (l_key e) <=? MaxKeySize) && (dlen (l_data e) <? two32).

Definition block_ok (b : list lent) : bool := (nlen b <=? MaxEntriesPerBlock) && cfits b.

(* flushLocked: nothing to do on an empty buffer; the repaired WriteBuffer.Flush refuses
   (buffer kept) a block that does not fit the header fields; otherwise the block is appended
   and the counters in memory and in the on-disk header advance.  EntryCount advances by the
   *header's* uint16 count, as in the Go code. *)
Definition flush (f : lfile) (w : wstate) : lfile * wstate * res :=
  match w_buf w with
  | [] => (f, w, ROk)
  | _ =>
    if guard && negb (block_ok (w_buf w)) then (f, w, RErr) else
    let bc := w_bc w + 1 in
    let ec := w_ec w + (nlen (w_buf w)) mod two16 in
    (mkF (f_ver f) (f_name f) ec bc (f_blocks f ++ [w_buf w]), mkW [] bc ec, ROk)
  end.

Definition step (st : state) (op : wop) : state * res :=
  match op, s_file st, s_w st with
  | OOpen _, _, Some _ => (st, RErr)                       (* one writer per file (harness rule) *)
  | OOpen name, None, None =>
      if guard && (MaxNameSize <? nmlen name) then (st, RErr)
      else (mkS (Some (mkF Version3 name 0 0 [])) (Some (mkW [] 0 0)), ROk)
  | OOpen _, Some f, None => (mkS (Some f) (Some (mkW [] (f_bc f) (f_ec f))), ROk)
  | OWrite e fl, Some f, Some w =>
      if guard && negb (encodable e) then (st, RErr) else
      let w1 := mkW (w_buf w ++ [e]) (w_bc w) (w_ec w) in
      if fl || (guard && (MaxEntriesPerBlock <=? nlen (w_buf w1))) then
        match flush f w1 with (f', w', r) => (mkS (Some f') (Some w'), r) end
      else (mkS (Some f) (Some w1), ROk)
  | (OFlush | OSync), Some f, Some w =>
      match flush f w with (f', w', r) => (mkS (Some f') (Some w'), r) end
  | OClose, Some f, Some w =>
      match flush f w with (f', w', r) => (mkS (Some f') None, r) end
  | OClose, _, None => (st, ROk)
  | _, _, _ => (st, RErr)
  end.

Fixpoint run (st : state) (ops : list wop) : state * list res :=
  match ops with
  | [] => (st, [])
  | op :: t => let '(st1, r) := step st op in let '(st2, rs) := run st1 t in (st2, r :: rs)
  end.

Definition all_ok (rs : list res) : bool := forallb (fun r => res_eqb r ROk) rs.

(* what the file stands for: all entries of all blocks in order, plus what waits in the buffer *)
Definition file_log (f : option lfile) : list lent :=
  match f with Some f => concat (f_blocks f) | None => [] end.
Definition log (st : state) : list lent :=
  file_log (s_file st) ++ match s_w st with Some w => w_buf w | None => [] end.

Definition ents (op : wop) : list lent := match op with OWrite e _ => [e] | _ => [] end.

Definition init : state := mkS None None.

End Writer.

Arguments mkF {K D NM}.
Arguments f_ver {K D NM}.
Arguments f_name {K D NM}.
Arguments f_ec {K D NM}.
Arguments f_bc {K D NM}.
Arguments f_blocks {K D NM}.
Arguments mkW {K D}.
Arguments w_buf {K D}.
Arguments w_bc {K D}.
Arguments w_ec {K D}.
Arguments mkS {K D NM}.
Arguments s_file {K D NM}.
Arguments s_w {K D NM}.
Arguments OOpen {K D NM}.
Arguments OWrite {K D NM}.
Arguments OFlush {K D NM}.
Arguments OSync {K D NM}.
Arguments OClose {K D NM}.
Arguments init {K D NM}.
Arguments ents {K D NM}.
Arguments log {K D NM}.
Arguments file_log {K D NM}.
