(* Storage/Reader.v — bytes of a logical file ([render], what writer.go/block.go put on disk)
   and the V2 FileReader (v2/reader.go): NewFileReader, readNextBlock, ReadAllEntries,
   LoadIndex, ReadSwampName – on byte lists.  Compression and CRC are Section variables (M5).
   Executable model, no proofs. *)
From HV Require Import Base.Prelude Storage.Format Storage.Lww Storage.Writer.
Local Open Scope N_scope.

Section Reader.
Variable compress : bytes -> bytes.
Variable decompress : bytes -> option bytes.
Variable crc : bytes -> N.

Notation bent := (lentry bytes bytes).
Notation bfile := (lfile bytes bytes bytes).

Definition to_entry (e : bent) : entry := mkEntry (l_op e) (l_key e) (l_data e).
Definition of_entry (e : entry) : bent := mkL (e_op e) (e_key e) (e_data e).

(* ---- what the writer puts on disk ------------------------------------------------------- *)
(* WriteBuffer.Flush: serialize, compress, header with truncating length fields *)
Definition block_payload (b : list bent) : bytes := compress (ser_entries (map to_entry b)).
Definition block_header (b : list bent) : bheader :=
  let u := ser_entries (map to_entry b) in
  let c := compress u in
  mkBH (nlen c) (nlen u) (nlen b) (crc c) 0.
Definition render_block (b : list bent) : bytes := ser_bh (block_header b) ++ block_payload b.

(* the repaired Flush refuses a block whose serialized or compressed size exceeds MaxUint32 *)
Definition cfits (b : list bent) : bool :=
  (nlen (ser_entries (map to_entry b)) <? two32) && (nlen (block_payload b) <? two32).

(* header fields the model does not track (timestamps, flags, block size, reserved) are inputs *)
Record hmeta := mkHM { hm_flags : N; hm_created : N; hm_modified : N; hm_blocksize : N; hm_reserved : bytes }.

Definition file_header (hm : hmeta) (f : bfile) : fheader :=
  mkFH (f_ver f) (hm_flags hm) (hm_created hm) (hm_modified hm) (hm_blocksize hm)
       (f_ec f) (f_bc f)
       (if N.eqb (f_ver f) Version3 then nlen (f_name f) else 0) (hm_reserved hm).

(* createNewFile writes header then all name bytes (NameLength itself is uint16(len)) *)
Definition render (hm : hmeta) (f : bfile) : bytes :=
  ser_fh (file_header hm f)
  ++ (if N.eqb (f_ver f) Version3 then f_name f else [])
  ++ concat (map render_block (f_blocks f)).

(* ---- the reader ------------------------------------------------------------------------- *)
(* ParseBlock *)
Definition parse_block (h : bheader) (c : bytes) : option (list entry) :=
  if negb (N.eqb (crc c mod two32) (bh_crc h)) then None else
  match decompress c with
  | None => None
  | Some u =>
    if negb (N.eqb (nlen u mod two32) (bh_usize h)) then None
    else parse_entries (N.to_nat (bh_count h)) u
  end.

Inductive rres (A : Type) := RDone (a : A) | RFail | RFuel.
Arguments RDone {A}. Arguments RFail {A}. Arguments RFuel {A}.

(* readNextBlock in a loop until EOF.  A short block header is EOF; so is a payload of which
   no byte is present (io.ReadFull returns io.EOF); a partly present payload, a checksum or a
   decode error is a failure.  Each round consumes at least 16 bytes: fuel = number of rounds. *)
Fixpoint read_blocks (fuel : nat) (buf : bytes) : rres (list (list entry)) :=
  match fuel with
  | O => RFuel
  | S fu =>
    match take BlockHeaderSize buf with
    | None => RDone []
    | Some (hb, rest) =>
      match deser_bh hb with
      | None => RFail
      | Some h =>
        match take (bh_csize h) rest with
        | None => match rest with [] => RDone [] | _ => RFail end
        | Some (c, rest') =>
          match parse_block h c with
          | None => RFail
          | Some es =>
            match read_blocks fu rest' with
            | RDone bs => RDone (es :: bs)
            | r => r
            end
          end
        end
      end
    end
  end.

(* NewFileReader: header; V3 with NameLength > 0: the name *)
Definition open_reader (file : bytes) : option (fheader * bytes) :=
  match take FileHeaderSize file with
  | None => None
  | Some (hb, rest) =>
    match deser_fh hb with
    | None => None
    | Some h =>
      if N.eqb (fh_version h) Version3 && (0 <? fh_namelen h) then
        match take (fh_namelen h) rest with
        | None => None
        | Some (nm, _) => Some (h, nm)
        end
      else Some (h, [])
    end
  end.

(* ReadAllBlocks: seek to DataStartOffset, blocks until EOF *)
Definition read_all (file : bytes) (h : fheader) : rres (list (list entry)) :=
  read_blocks (S (length file)) (skipn (N.to_nat (data_start h)) file).

(* LoadIndex: the replay of Lww.v plus the V2 name fallback (first OpMetadata entry with the
   metadata key and non-empty data, only if no name is known yet) *)
Fixpoint meta_name (es : list entry) : bytes :=
  match es with
  | [] => []
  | e :: t =>
    if N.eqb (e_op e) OpMetadata && bytes_eqb (e_key e) MetadataEntryKey
       && negb (match e_data e with [] => true | _ => false end)
    then e_data e else meta_name t
  end.

Definition load_index (file : bytes) : option (amap bytes bytes * bytes) :=
  match open_reader file with
  | None => None
  | Some (h, nm) =>
    match read_all file h with
    | RDone bs =>
      let es := concat bs in
      Some (replay bytes bytes bytes_eqb (map of_entry es),
            match nm with [] => meta_name es | _ => nm end)
    | _ => None
    end
  end.

(* the blocks as the reader sees them (used by theorems and the lifter comparison) *)
Definition read_file (file : bytes) : option (fheader * bytes * list (list entry)) :=
  match open_reader file with
  | None => None
  | Some (h, nm) =>
    match read_all file h with
    | RDone bs => Some (h, nm, bs)
    | _ => None
    end
  end.

End Reader.

Arguments RDone {A}. Arguments RFail {A}. Arguments RFuel {A}.
