(* Storage/C23Migrate.v — entry-level model of the V1 -> V2 migration (no proofs in this file).

   A V1 swamp folder is a list of chunk files in directory order plus the name stored in the
   `meta` file. A readable chunk file is a list of segments; a segment is a gob-encoded treasure,
   here (key, payload id) or a segment that does not decode. Keys/payloads/names are interned
   ids as in Storage/C03Compact.v, whose index / file-image definitions are reused.

   Go sources modelled:
     chronicler.go           Load  (filesystem.GetAllFileContents: unreadable files are skipped;
                                    files visited in Go map order; first undecodable segment
                                    aborts the load with nothing pushed)
     v2/migrator/migrator.go migrateSwamp, loadV1Swamp, writeV2File, verifyMigration, deleteV1Files *)
From HV Require Import Base.Prelude.
From HV Require Export Storage.C03Compact.
Local Open Scope N_scope.

Inductive seg := SOk (k : key) (v : pay) | SBad.   (* SBad: gob decode fails or the key is empty *)

Inductive vcontent :=
| VSegs (l : list seg)      (* file reads, decompresses and parses into segments *)
| VUnreadable.              (* read / decompress / framing error *)

Record vfile := VF { vf_hex : bool;          (* name looks like a V1 data file: hex digits and dashes, no extension *)
                     vf_content : vcontent }.

Record v1folder := V1 { v1_files : list vfile; v1_meta : name (* 0: meta file missing or undecodable *) }.

(* ---- V1 chronicler Load --------------------------------------------------------------------- *)
Definition seg_apply (ix : index) (s : seg) : index :=
  match s with SOk k v => iset k v ix | SBad => ix end.
Definition segs_of (f : vfile) : list seg :=
  match vf_content f with VSegs l => l | VUnreadable => [] end.
Definition seg_bad (s : seg) : bool := match s with SBad => true | _ => false end.

(* [order]: the files in the order Go's map iteration visits them (oracle) *)
Definition v1_load (order : list vfile) : index :=
  let segs := flat_map segs_of order in
  if existsb seg_bad segs then [] else fold_left seg_apply segs [].

(* ---- migrator ---------------------------------------------------------------------------------- *)
Inductive mload := MLErr | MLOk (ix : index).

(* loadV1Swamp: directory order, only hex-named files, any unreadable file or bad segment fails *)
Definition mig_load (files : list vfile) : mload :=
  let fs := filter vf_hex files in
  if existsb (fun f => match vf_content f with VUnreadable => true | _ => false end) fs then MLErr else
  let segs := flat_map segs_of fs in
  if existsb seg_bad segs then MLErr else MLOk (fold_left seg_apply segs []).

Record mcfg := CFG { dry_run : bool; verify : bool; delete_old : bool }.

Inductive phase := PSuccess | PSkippedEmpty | PDryRun | PFailLoad | PFailWrite | PFailVerify.

(* what sits at the target path <swamp>.hyd *)
Inductive prehyd :=
| PreNone                    (* nothing *)
| PreShort                   (* a file shorter than its header (+ name): an interrupted creation *)
| PreFile (f : fimg).        (* anything else, as the reader / the writer's open sees it *)

Definition hyd_img (p : prehyd) : option fimg := match p with PreFile f => Some f | _ => None end.

Record mstate := MS { m_v1 : option v1folder;  (* None: the V1 files were deleted *)
                      m_hyd : prehyd }.

(* verifyMigration: LoadIndex must succeed and contain every expected key (values not compared) *)
Definition verify_ok (hyd : prehyd) (expected : index) : bool :=
  match hyd_img hyd with
  | Some f =>
    match load_index f with
    | Some (ix, _) => forallb (fun p => match ilookup (fst p) ix with Some _ => true | None => false end) expected
    | None => false
    end
  | None => false
  end.

(* writeV2File: NewFileWriterWithName. Nothing at the path: a fresh V3 file. An existing file is
   opened for append: a file shorter than its header (+ name) is created again from scratch; an
   invalid header is an error; otherwise an incomplete final block is cut off (the reader already
   ignores it, so the file arrives here as [FGood] of its complete blocks) and new blocks are
   appended - behind whatever the file holds, including a block that is complete but corrupt
   ([FTorn]). A failed write removes the file.
   [write_fails]: a WriteEntry/Close error occurs (fault oracle). [perm]: map iteration order of the
   deduplicated entries. Returns the target path afterwards and whether the write succeeded. *)
(* write faults (oracle): none; while the new file's header / name is being written (the file is left
   behind shorter than header + name - what the next open creates again); later (WriteEntry / Close:
   the migrator removes the file) *)
Inductive wfault := WNoFault | WFailCreate | WFailWrite.

Definition open_target (pre : prehyd) (nm : name) : option fimg :=
  match pre with
  | PreNone | PreShort => Some (FGood nm [])
  | PreFile f => open_temp (Some (NFile f)) nm
  end.

Definition write_v2 (pre : prehyd) (nm : name) (ix : index) (perm : list key) (wf : wfault)
  : prehyd * bool :=
  match open_target pre nm with
  | None => (pre, false)                                  (* writer cannot be created: nothing touched *)
  | Some f0 =>
    match wf, pre with
    | WFailCreate, (PreNone | PreShort) => (PreShort, false)   (* createNewFile failed half way *)
    | WFailCreate, PreFile _ => (pre, false)              (* opening an existing file writes nothing *)
    | WFailWrite, _ => (PreNone, false)                   (* os.Remove(filePath) *)
    | WNoFault, _ => (PreFile (fappend f0 (compact_entries ix perm)), true)
    end
  end.

Definition migrate (cfg : mcfg) (perm : list key) (write_fails : wfault) (folder : v1folder) (pre : prehyd)
  : mstate * phase :=
  let keep := MS (Some folder) pre in
  match mig_load (v1_files folder) with
  | MLErr => (keep, PFailLoad)
  | MLOk ix =>
    match ix with
    | [] => (MS (if delete_old cfg && negb (dry_run cfg) then None else Some folder) pre, PSkippedEmpty)
    | _ =>
      if dry_run cfg then (keep, PDryRun) else
      match write_v2 pre (v1_meta folder) ix perm write_fails with
      | (hyd1, false) => (MS (Some folder) hyd1, PFailWrite)
      | (hyd1, true) =>
        if verify cfg && negb (verify_ok hyd1 ix) then (MS (Some folder) PreNone, PFailVerify)
        else (MS (if delete_old cfg then None else Some folder) hyd1, PSuccess)
      end
    end
  end.

(* ---- V1 writer (chronicler.go:Write) for the folder invariant --------------------------------- *)
(* The swamp hands a treasure to Write either as new (no file pointer) or as modified with the
   file it lives in. New treasures are appended to the current chunk, rolling over to a fresh
   chunk when the size estimate says so (oracle); modified ones are rewritten in place, a real
   delete drops the segment and an emptied chunk file is removed. *)
Definition chunk := list (key * pay).
Inductive v1op :=
| WNew (k : key) (v : pay) (rollover : bool)    (* append; [rollover]: start a new chunk first *)
| WModify (k : key) (v : pay)                   (* rewrite the segment of k in its chunk *)
| WDelete (k : key).                            (* drop the segment of k; drop the chunk if empty *)

Definition chunk_has (k : key) (c : chunk) : bool := existsb (fun p => fst p =? k) c.
Definition folder_has (k : key) (cs : list chunk) : bool := existsb (chunk_has k) cs.

Fixpoint app_last (cs : list chunk) (p : key * pay) : list chunk :=
  match cs with
  | [] => [[p]]
  | [c] => [c ++ [p]]
  | c :: t => c :: app_last t p
  end.

Definition v1_step (cs : list chunk) (o : v1op) : list chunk :=
  match o with
  | WNew k v ro => if ro then cs ++ [[(k, v)]] else app_last cs (k, v)
  | WModify k v => map (map (fun p => if fst p =? k then (k, v) else p)) cs
  | WDelete k => filter (fun c => negb (match c with [] => true | _ => false end))
                        (map (filter (fun p => negb (fst p =? k))) cs)
  end.

(* the swamp's discipline: a key is submitted as new only when no chunk holds it *)
Definition op_ok (cs : list chunk) (o : v1op) : bool :=
  match o with WNew k _ _ => negb (folder_has k cs) | _ => true end.

Fixpoint v1_run (cs : list chunk) (ops : list v1op) : option (list chunk) :=
  match ops with
  | [] => Some cs
  | o :: t => if op_ok cs o then v1_run (v1_step cs o) t else None
  end.

Definition all_keys (cs : list chunk) : list key := flat_map (map fst) cs.
Definition chunk_file (c : chunk) : vfile := VF true (VSegs (map (fun p => SOk (fst p) (snd p)) c)).

(* ---- correspondence: cases produced by harness/cmd/c23 ----------------------------------------- *)
Definition phase_eqb (a b : phase) : bool :=
  match a, b with
  | PSuccess, PSuccess | PSkippedEmpty, PSkippedEmpty | PDryRun, PDryRun
  | PFailLoad, PFailLoad | PFailWrite, PFailWrite | PFailVerify, PFailVerify => true
  | _, _ => false
  end.

Record mcase := MC {
  mc_folder : v1folder;                 (* as read by the harness with the real V1 filesystem layer *)
  mc_v1_loaded : index;                 (* what the real V1 chronicler Load pushed into its beacon *)
  mc_cfg : mcfg;
  mc_pre : prehyd;                      (* target path before the run *)
  mc_write_fault : bool;                (* an RLIMIT_FSIZE fault was injected into the V2 write *)
  mc_phase : phase;                     (* observed outcome *)
  mc_v1_intact : bool;                  (* V1 folder byte-identical afterwards *)
  mc_v1_deleted : bool;                 (* V1 folder gone afterwards *)
  mc_hyd : prehyd;                      (* target path afterwards, read by the real reader *)
  mc_v2_loaded : option (index * name)  (* real V2 chronicler Load of the result (beacon content) + stored name *)
}.

Definition file_keys (f : vfile) : list key :=
  flat_map (fun s => match s with SOk k _ => [k] | SBad => [] end) (segs_of f).
(* some key occurs in two different files: the V1 engine's own Load is then order dependent *)
Fixpoint cross_dup (fs : list vfile) : bool :=
  match fs with
  | [] => false
  | f :: t => existsb (fun k => existsb (fun g => existsb (N.eqb k) (file_keys g)) t) (file_keys f) || cross_dup t
  end.

(* property oracle on observations alone. codes:
   2 V1 data damaged although migration did not succeed (or delete-old not requested)
   3 migrated swamp has a record the legacy engine would not load; 4 lost record; 5 value differs;
   6 name differs; 7 as 3/4/5/6 but a .hyd with a valid header existed at the target path before the run *)
Definition mig_oracle (c : mcase) : N :=
  let deleted_ok := match mc_phase c with
                    | PSuccess => delete_old (mc_cfg c)
                    | PSkippedEmpty => delete_old (mc_cfg c) && negb (dry_run (mc_cfg c))
                    | _ => false
                    end in
  if negb (mc_v1_intact c) && negb (deleted_ok && mc_v1_deleted c) then 2 else
  match mc_phase c with
  | PSuccess =>
    match mc_v2_loaded c with
    | None => match mc_pre c with PreFile _ => 7 | _ => 4 end
    | Some (ix, nm) =>
      let d := classify_diff (mc_v1_loaded c) ix in
      let d := if (d =? 5) && cross_dup (v1_files (mc_folder c)) then 0 else d in
      let d := if d =? 0 then (if nm =? v1_meta (mc_folder c) then 0 else 6) else d in
      if d =? 0 then 0 else match mc_pre c with PreFile _ => 7 | _ => d end
    end
  | _ => 0
  end.

Definition prehyd_eqb (a b : prehyd) : bool :=
  match a, b with
  | PreNone, PreNone | PreShort, PreShort => true
  | PreFile f, PreFile g => fimg_obs_eqb f g
  | _, _ => false
  end.

(* replay: the migrator model, with the iteration order read off the resulting file *)
Definition mig_replay (c : mcase) : N :=
  let perm := match mc_hyd c with PreFile (FGood _ es) => map e_key es | _ => [] end in
  let wf := match mc_phase c with
            | PFailWrite => if mc_write_fault c then (match mc_hyd c with PreShort => WFailCreate | _ => WFailWrite end) else WNoFault
            | _ => WNoFault
            end in
  let '(st, ph) := migrate (mc_cfg c) perm wf (mc_folder c) (mc_pre c) in
  let v1_ok := Bool.eqb (match m_v1 st with None => true | Some _ => false end) (mc_v1_deleted c) in
  let hyd_ok := prehyd_eqb (m_hyd st) (mc_hyd c) in
  (* the real V1 Load agrees with the model's V1 load of the folder as read *)
  let v1l_ok := cross_dup (v1_files (mc_folder c)) || index_eqb (v1_load (v1_files (mc_folder c))) (mc_v1_loaded c) in
  if phase_eqb ph (mc_phase c) && v1_ok && hyd_ok && v1l_ok then 0 else 1.

Definition check_mcase (c : mcase) : N :=
  match mig_oracle c with 0 => mig_replay c | v => v end.

Definition check_all (cases : list mcase) : list verdict := check_cases check_mcase cases.
