(* Storage/C25Fault.v — disk write faults (M7 Fault): the environment may make any appending
   write of a flush stop after a strict prefix and fail ([FFshort j], j = 0 is a full reject),
   fail the in-place header update ([FFhdr]) or the header update / fsync of a Sync or Close
   ([sync_ok = false]), fail the truncation back after a short write ([FFshortDirty j]) and the
   retried truncation of a later flush ([FFpre]); faults clear later.  The fault oracle is part of the API history
   (C02Writer.v); this file has the C25 case checker.  Model only (no proofs). *)
From HV Require Import Base.Prelude Storage.C02Fs Storage.C02Writer Storage.C02Crash.
Local Open Scope N_scope.

(* a Close that failed discards what was still buffered; the final-state clause is only
   evaluated for histories without one *)
Definition close_failed (h : list api) (oks : list bool) : bool :=
  existsb (fun p => match fst p with AClose _ _ _ => negb (snd p) | _ => false end) (combine h oks).

Definition has_fault (h : list api) : bool :=
  existsb (fun a => match a with
                    | AWrite _ (Some (_, FFok)) | AWrite _ None | AOpen => false
                    | AFlush _ FFok => false
                    | ASync _ FFok true | AClose _ FFok true => false
                    | _ => true
                    end) h.

Record c25case := mkc25 {
  fc_nlen : N;
  fc_hist : list api;                         (* with the observed fault outcomes *)
  fc_log : list (N * N);                      (* observed op log, canonical *)
  fc_oks : list bool;                         (* observed result (nil error?) of every call *)
  fc_mids : list (nat * list (key * vid));    (* (calls done, Load of a copy of the file then) *)
  fc_final : list (key * vid)                 (* Load after the whole history *)
}.

Fixpoint mids_ok (nlen : N) (h : list api) (mids : list (nat * list (key * vid))) : bool :=
  match mids with
  | [] => true
  | (n, st) :: t =>
      let '(f, _, _, _) := w_run nlen fs_empty w_closed (firstn n h) in
      st_eqb (state_of (loaded_blocks true (vol f))) st && mids_ok nlen h t
  end.

(* spec-level oracle for a snapshot, independent of the writer model: number of entries
   submitted before the last Sync/Close that reported success *)
Fixpoint synced_cnt (open : bool) (cnt synced : nat) (h : list api) (oks : list bool) : nat :=
  match h, oks with
  | a :: t, ok :: oks' =>
      match a with
      | AWrite _ _ => synced_cnt open (if open then S cnt else cnt) synced t oks'
      | AOpen => synced_cnt true cnt synced t oks'
      | ASync _ _ _ => synced_cnt open cnt (if ok && open then cnt else synced) t oks'
      | AClose _ _ _ => synced_cnt false cnt (if ok && open then cnt else synced) t oks'
      | AFlush _ _ | AOpenFail _ => synced_cnt open cnt synced t oks'
      end
  | _, _ => synced
  end.

(* is [st] the state after the first m submitted entries for some lo <= m <= |es| ? *)
Fixpoint entry_boundary (fuel : nat) (m : nat) (es : list entry) (st : list (key * vid)) : bool :=
  match fuel with
  | O => false
  | S fuel' => st_eqb (state_of_entries [] (firstn m es)) st || entry_boundary fuel' (S m) es st
  end.

(* every snapshot holds a prefix of the submitted entries that includes everything a
   successful Sync/Close had covered before (not evaluated once a Close has failed: what that
   Close still had buffered is legitimately gone, only the model knows which entries) *)
Fixpoint mids_spec (h : list api) (oks : list bool) (mids : list (nat * list (key * vid))) : bool :=
  match mids with
  | [] => true
  | (n, st) :: t =>
      let es := submitted false (firstn n h) in
      let lo := synced_cnt false 0 0 (firstn n h) (firstn n oks) in
      (close_failed (firstn n h) (firstn n oks) || entry_boundary (S (length es - lo)) lo es st)
      && mids_spec h oks t
  end.

Definition c25_check (c : c25case) : N :=
  let nlen := fc_nlen c in
  let h := fc_hist c in
  let '(f, _, ops, moks) := w_run nlen fs_empty w_closed h in
  if negb (forallb api_okb h) then 1
  else if negb (close_failed h (fc_oks c)) &&
          negb (st_eqb (state_of_entries [] (submitted false h)) (fc_final c)) then 3
  else if negb (mids_spec h (fc_oks c) (fc_mids c)) then 2
  else if negb (list_eqb pair_eqb (canon_log ops) (fc_log c)) then 1
  else if negb (list_eqb Bool.eqb moks (fc_oks c)) then 1
  else if negb (mids_ok nlen h (fc_mids c)) then 1
  else if negb (st_eqb (state_of (loaded_blocks true (vol f))) (fc_final c)) then 1
  else 0.

Definition check_all (cases : list c25case) : list verdict := check_cases c25_check cases.
