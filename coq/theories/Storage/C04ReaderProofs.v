(* Storage/C04ReaderProofs.v — lemmas and theorems about Storage/C04Reader.v, Snappy.v, Crc32.v.
   All statements quantify over every byte string / every policy; nothing here is a test. *)
From HV Require Import Base.Prelude Storage.Crc32 Storage.Snappy Storage.C04Reader.
From Coq Require Import ZifyN ZifyNat ZifyBool.
Local Open Scope N_scope.

Arguments firstn : simpl never.
Arguments skipn : simpl never.
Arguments N.mul : simpl never.
Arguments N.add : simpl never.
Arguments N.sub : simpl never.
Arguments N.to_nat : simpl never.
Arguments N.of_nat : simpl never.
Arguments crc32 : simpl never.
Arguments snappy_decode : simpl never.

(* ---- outcomes that must never occur ------------------------------------------------------- *)

Definition good {A} (r : res A) : Prop :=
  match r with Panic | OutOfFuel => False | _ => True end.

Lemma good_bind {A B} (r : res A) (f : A -> res B) :
  good r -> (forall a, r = Ok a -> good (f a)) -> good (bind r f).
Proof. destruct r; simpl; auto. Qed.

(* ---- checked slicing ------------------------------------------------------------------------ *)

Lemma lenN_nil {A} : @lenN A [] = 0.
Proof. reflexivity. Qed.

Lemma lenN_cons {A} (x : A) l : lenN (x :: l) = 1 + lenN l.
Proof. unfold lenN. simpl length. lia. Qed.

Lemma lenN_app {A} (a b : list A) : lenN (a ++ b) = lenN a + lenN b.
Proof. unfold lenN. rewrite app_length. lia. Qed.

Lemma lenN_firstn {A} n (l : list A) : n <= lenN l -> lenN (firstn (N.to_nat n) l) = n.
Proof. unfold lenN. intros. rewrite firstn_length. lia. Qed.

Lemma lenN_skipn {A} n (l : list A) : lenN (skipn (N.to_nat n) l) = lenN l - n.
Proof. unfold lenN. rewrite skipn_length. lia. Qed.

Lemma sub_some l lo hi :
  lo <= hi -> hi <= lenN l ->
  sub l lo hi = Some (firstn (N.to_nat (hi - lo)) (skipn (N.to_nat lo) l)) /\
  lenN (firstn (N.to_nat (hi - lo)) (skipn (N.to_nat lo) l)) = hi - lo.
Proof.
  intros H1 H2. unfold sub.
  rewrite (proj2 (N.leb_le _ _) H1), (proj2 (N.leb_le _ _) H2). split; [reflexivity|].
  apply lenN_firstn. rewrite lenN_skipn. lia.
Qed.

Lemma slice_ok l lo hi :
  lo <= hi -> hi <= lenN l -> exists s, slice l lo hi = Ok s /\ lenN s = hi - lo /\
                                        s = firstn (N.to_nat (hi - lo)) (skipn (N.to_nat lo) l).
Proof.
  intros H1 H2. destruct (sub_some l lo hi H1 H2) as [E L]. unfold slice. rewrite E. eauto.
Qed.

Lemma rd_ok l lo hi : lo <= hi -> hi <= lenN l -> exists v, rd l lo hi = Ok v.
Proof.
  intros H1 H2. destruct (slice_ok l lo hi H1 H2) as (s & E & _). unfold rd. rewrite E. simpl. eauto.
Qed.

Lemma idx1_ok l i : i < lenN l -> exists b, idx1 l i = Ok b.
Proof.
  intros H. unfold idx1. destruct (nth_error l (N.to_nat i)) eqn:E; eauto.
  apply nth_error_None in E. unfold lenN in H. lia.
Qed.

(* ---- file header --------------------------------------------------------------------------------- *)

Lemma fhdr_deserialize_good buf : good (fhdr_deserialize buf).
Proof.
  unfold fhdr_deserialize. destruct (lenN buf <? file_header_size) eqn:L; [exact I|].
  apply N.ltb_ge in L. unfold file_header_size in L.
  destruct (slice_ok buf 0 4) as (m & -> & _); try lia. cbn [bind].
  destruct (negb (bytes_eqb m magic_bytes)); [exact I|].
  destruct (rd_ok buf 4 6) as (v & ->); try lia. cbn [bind].
  destruct (negb (v =? version2) && negb (v =? version3)); [exact I|].
  destruct (rd_ok buf 44 46) as (nl & ->); try lia. exact I.
Qed.

Lemma new_file_reader_good b : good (fst (new_file_reader b)).
Proof.
  unfold new_file_reader. destruct (lenN b <? file_header_size) eqn:L; [exact I|].
  apply N.ltb_ge in L. unfold file_header_size in *.
  destruct (slice_ok b 0 64) as (hb & -> & _); try lia. cbn [bind].
  pose proof (fhdr_deserialize_good hb) as G.
  destruct (fhdr_deserialize hb) as [h| | |]; simpl in G; try contradiction; try exact I.
  destruct ((fh_version h =? version3) && (0 <? fh_namelen h)); [|exact I].
  destruct (lenN b - 64 <? fh_namelen h) eqn:L2; [exact I|].
  apply N.ltb_ge in L2.
  destruct (slice_ok b 64 (64 + fh_namelen h)) as (nm & -> & _); try lia. exact I.
Qed.

(* ---- block header ---------------------------------------------------------------------------------- *)

Lemma bhdr_deserialize_ok buf : block_header_size <= lenN buf -> exists h, bhdr_deserialize buf = Ok h.
Proof.
  intros L. unfold bhdr_deserialize, block_header_size in *.
  rewrite (proj2 (N.ltb_ge _ _) L).
  destruct (rd_ok buf 0 4) as (a & ->); try lia.
  destruct (rd_ok buf 4 8) as (b & ->); try lia.
  destruct (rd_ok buf 8 10) as (c & ->); try lia.
  destruct (rd_ok buf 10 14) as (d & ->); try lia. cbn [bind]. eauto.
Qed.

(* ---- entries ------------------------------------------------------------------------------------------- *)

Definition entry_fits (n : N) (e : entry) : Prop :=
  lenN (e_key e) <= n /\ lenN (e_data e) <= n /\ e_key e <> [].

Lemma entry_deserialize_spec buf :
  match entry_deserialize buf with
  | Ok (e, n) => 8 <= n /\ n <= lenN buf /\ entry_fits (lenN buf) e
  | Err _ => True
  | _ => False
  end.
Proof.
  unfold entry_deserialize.
  destruct (lenN buf <? 7) eqn:L; [exact I|]. apply N.ltb_ge in L.
  destruct (idx1_ok buf 0) as (op & ->); try lia. cbn [bind].
  destruct (rd_ok buf 1 3) as (kl & ->); try lia. cbn [bind].
  destruct (lenN buf <? 3 + kl + 4) eqn:L2; [exact I|]. apply N.ltb_ge in L2.
  destruct (slice_ok buf 3 (3 + kl)) as (key & -> & Lk & _); try lia. cbn [bind].
  destruct key as [|k0 key]; [exact I|].
  destruct (rd_ok buf (3 + kl) (3 + kl + 4)) as (dl & ->); try lia. cbn [bind].
  destruct (lenN buf <? 3 + kl + 4 + dl) eqn:L3; [exact I|]. apply N.ltb_ge in L3.
  destruct (slice_ok buf (3 + kl + 4) (3 + kl + 4 + dl)) as (data & -> & Ld & _); try lia. cbn [bind].
  rewrite lenN_cons in Lk.
  unfold entry_fits; simpl. rewrite lenN_cons. repeat split; try lia. discriminate.
Qed.

Lemma parse_entries_spec k : forall unc off,
  off <= lenN unc ->
  match parse_entries k unc off with
  | Ok es => N.of_nat (length es) = N.of_nat k /\ Forall (entry_fits (lenN unc)) es /\
             off + 8 * N.of_nat k <= lenN unc
  | Err _ => True
  | _ => False
  end.
Proof.
  induction k as [|k IH]; intros unc off Hoff; simpl parse_entries.
  - repeat split; [constructor | lia].
  - destruct (slice_ok unc off (lenN unc)) as (buf & -> & Lb & _); try lia. cbn [bind].
    pose proof (entry_deserialize_spec buf) as S.
    destruct (entry_deserialize buf) as [[e n]| | |]; try contradiction; try exact I.
    destruct S as (S1 & S2 & S3 & S4 & S5). cbn [bind fst snd].
    specialize (IH unc (off + n)). 
    destruct (parse_entries k unc (off + n)) as [es| | |]; cbn [bind]; try (apply IH; lia); try exact I.
    destruct IH as (I1 & I2 & I3); [lia|].
    repeat split.
    + simpl length. lia.
    + constructor; [|exact I2]. unfold entry_fits. repeat split; try lia; assumption.
    + lia.
Qed.
