(* Storage/C04ReaderProofs.v — lemmas and theorems about Storage/C04Reader.v, Snappy.v, Crc32.v.
   All statements quantify over every byte string / every policy; nothing here is a test. *)
From HV Require Import Base.Prelude Storage.Crc32 Storage.Snappy Storage.C04Reader.
From Coq Require Import ZifyN ZifyNat ZifyBool.
Local Open Scope N_scope.

Arguments firstn : simpl never.
Arguments skipn : simpl never.
Arguments N.mul : simpl never.
Arguments N.add : simpl never.
Arguments N.sub : simpl never.
Arguments N.to_nat : simpl never.
Arguments N.of_nat : simpl never.
Arguments crc32 : simpl never.
Arguments snappy_decode : simpl never.

(* ---- outcomes that must never occur ------------------------------------------------------- *)

Definition good {A} (r : res A) : Prop :=
  match r with Panic | OutOfFuel => False | _ => True end.

Lemma good_bind {A B} (r : res A) (f : A -> res B) :
  good r -> (forall a, r = Ok a -> good (f a)) -> good (bind r f).
Proof. destruct r; simpl; auto. Qed.

(* ---- checked slicing ------------------------------------------------------------------------ *)

Lemma lenN_nil {A} : @lenN A [] = 0.
Proof. reflexivity. Qed.

Lemma lenN_cons {A} (x : A) l : lenN (x :: l) = 1 + lenN l.
Proof. unfold lenN. simpl length. lia. Qed.

Lemma lenN_app {A} (a b : list A) : lenN (a ++ b) = lenN a + lenN b.
Proof. unfold lenN. rewrite app_length. lia. Qed.

Lemma lenN_firstn {A} n (l : list A) : n <= lenN l -> lenN (firstn (N.to_nat n) l) = n.
Proof. unfold lenN. intros. rewrite firstn_length. lia. Qed.

Lemma lenN_skipn {A} n (l : list A) : lenN (skipn (N.to_nat n) l) = lenN l - n.
Proof. unfold lenN. rewrite skipn_length. lia. Qed.

Lemma sub_some l lo hi :
  lo <= hi -> hi <= lenN l ->
  sub l lo hi = Some (firstn (N.to_nat (hi - lo)) (skipn (N.to_nat lo) l)) /\
  lenN (firstn (N.to_nat (hi - lo)) (skipn (N.to_nat lo) l)) = hi - lo.
Proof.
  intros H1 H2. unfold sub.
  rewrite (proj2 (N.leb_le _ _) H1), (proj2 (N.leb_le _ _) H2). split; [reflexivity|].
  apply lenN_firstn. rewrite lenN_skipn. lia.
Qed.

Lemma slice_ok l lo hi :
  lo <= hi -> hi <= lenN l -> exists s, slice l lo hi = Ok s /\ lenN s = hi - lo /\
                                        s = firstn (N.to_nat (hi - lo)) (skipn (N.to_nat lo) l).
Proof.
  intros H1 H2. destruct (sub_some l lo hi H1 H2) as [E L]. unfold slice. rewrite E. eauto.
Qed.

Lemma rd_ok l lo hi : lo <= hi -> hi <= lenN l -> exists v, rd l lo hi = Ok v.
Proof.
  intros H1 H2. destruct (slice_ok l lo hi H1 H2) as (s & E & _). unfold rd. rewrite E. simpl. eauto.
Qed.

Lemma idx1_ok l i : i < lenN l -> exists b, idx1 l i = Ok b.
Proof.
  intros H. unfold idx1. destruct (nth_error l (N.to_nat i)) eqn:E; eauto.
  apply nth_error_None in E. unfold lenN in H. lia.
Qed.

(* ---- file header --------------------------------------------------------------------------------- *)

Lemma fhdr_deserialize_good buf : good (fhdr_deserialize buf).
Proof.
  unfold fhdr_deserialize. destruct (lenN buf <? file_header_size) eqn:L; [exact I|].
  apply N.ltb_ge in L. unfold file_header_size in L.
  destruct (slice_ok buf 0 4) as (m & -> & _); try lia. cbn [bind].
  destruct (negb (bytes_eqb m magic_bytes)); [exact I|].
  destruct (rd_ok buf 4 6) as (v & ->); try lia. cbn [bind].
  destruct (negb (v =? version2) && negb (v =? version3)); [exact I|].
  destruct (rd_ok buf 44 46) as (nl & ->); try lia. exact I.
Qed.

Lemma new_file_reader_good b : good (fst (new_file_reader b)).
Proof.
  unfold new_file_reader. destruct (lenN b <? file_header_size) eqn:L; [exact I|].
  apply N.ltb_ge in L. unfold file_header_size in *.
  destruct (slice_ok b 0 64) as (hb & -> & _); try lia. cbn [bind].
  pose proof (fhdr_deserialize_good hb) as G.
  destruct (fhdr_deserialize hb) as [h| | |]; simpl in G; try contradiction; try exact I.
  destruct ((fh_version h =? version3) && (0 <? fh_namelen h)); [|exact I].
  destruct (lenN b - 64 <? fh_namelen h) eqn:L2; [exact I|].
  apply N.ltb_ge in L2.
  destruct (slice_ok b 64 (64 + fh_namelen h)) as (nm & -> & _); try lia. exact I.
Qed.

(* ---- block header ---------------------------------------------------------------------------------- *)

Lemma bhdr_deserialize_ok buf : block_header_size <= lenN buf -> exists h, bhdr_deserialize buf = Ok h.
Proof.
  intros L. unfold bhdr_deserialize, block_header_size in *.
  rewrite (proj2 (N.ltb_ge _ _) L).
  destruct (rd_ok buf 0 4) as (a & ->); try lia.
  destruct (rd_ok buf 4 8) as (b & ->); try lia.
  destruct (rd_ok buf 8 10) as (c & ->); try lia.
  destruct (rd_ok buf 10 14) as (d & ->); try lia. cbn [bind]. eauto.
Qed.

(* ---- entries ------------------------------------------------------------------------------------------- *)

Definition entry_fits (n : N) (e : entry) : Prop :=
  lenN (e_key e) <= n /\ lenN (e_data e) <= n /\ e_key e <> [].

Lemma entry_deserialize_spec buf :
  match entry_deserialize buf with
  | Ok (e, n) => 8 <= n /\ n <= lenN buf /\ entry_fits (lenN buf) e
  | Err _ => True
  | _ => False
  end.
Proof.
  unfold entry_deserialize.
  destruct (lenN buf <? 7) eqn:L; [exact I|]. apply N.ltb_ge in L.
  destruct (idx1_ok buf 0) as (op & ->); try lia. cbn [bind].
  destruct (rd_ok buf 1 3) as (kl & ->); try lia. cbn [bind].
  destruct (lenN buf <? 3 + kl + 4) eqn:L2; [exact I|]. apply N.ltb_ge in L2.
  destruct (slice_ok buf 3 (3 + kl)) as (key & -> & Lk & _); try lia. cbn [bind].
  destruct key as [|k0 key]; [exact I|].
  destruct (rd_ok buf (3 + kl) (3 + kl + 4)) as (dl & ->); try lia. cbn [bind].
  destruct (lenN buf <? 3 + kl + 4 + dl) eqn:L3; [exact I|]. apply N.ltb_ge in L3.
  destruct (slice_ok buf (3 + kl + 4) (3 + kl + 4 + dl)) as (data & -> & Ld & _); try lia. cbn [bind].
  rewrite lenN_cons in Lk.
  unfold entry_fits; simpl. rewrite lenN_cons. repeat split; try lia. discriminate.
Qed.

Lemma parse_entries_spec k : forall unc off,
  off <= lenN unc ->
  match parse_entries k unc off with
  | Ok es => N.of_nat (length es) = N.of_nat k /\ Forall (entry_fits (lenN unc)) es /\
             off + 8 * N.of_nat k <= lenN unc
  | Err _ => True
  | _ => False
  end.
Proof.
  induction k as [|k IH]; intros unc off Hoff; simpl parse_entries.
  - repeat split; [constructor | lia].
  - destruct (slice_ok unc off (lenN unc)) as (buf & -> & Lb & _); try lia. cbn [bind].
    pose proof (entry_deserialize_spec buf) as S.
    destruct (entry_deserialize buf) as [[e n]| | |]; try contradiction; try exact I.
    destruct S as (S1 & S2 & S3 & S4 & S5). cbn [bind fst snd].
    specialize (IH unc (off + n)). 
    destruct (parse_entries k unc (off + n)) as [es| | |]; cbn [bind]; try (apply IH; lia); try exact I.
    destruct IH as (I1 & I2 & I3); [lia|].
    repeat split.
    + simpl length. lia.
    + constructor; [|exact I2]. unfold entry_fits. repeat split; try lia; assumption.
    + lia.
Qed.

(* ---- Snappy decoder: total, never out of range --------------------------------------------------------- *)

Lemma sn_lit_len_len x t len t' :
  sn_lit_len x t = Some (len, t') -> (length t' <= length t)%nat.
Proof.
  unfold sn_lit_len.
  destruct (x <? 60); [intros E; inversion E; subst; lia|].
  destruct (x =? 60); [destruct t as [|a t1]; intros E; inversion E; subst; simpl; lia|].
  destruct (x =? 61); [destruct t as [|a [|b t1]]; intros E; inversion E; subst; simpl; lia|].
  destruct (x =? 62); [destruct t as [|a [|b [|c t1]]]; intros E; inversion E; subst; simpl; lia|].
  destruct t as [|a [|b [|c [|d t1]]]]; intros E; inversion E; subst; simpl; lia.
Qed.

Lemma sn_copy_args_len k tag t len off t' :
  sn_copy_args k tag t = Some (len, off, t') -> (length t' <= length t)%nat.
Proof.
  unfold sn_copy_args.
  destruct (k =? 1); [destruct t as [|a t1]; intros E; inversion E; subst; simpl; lia|].
  destruct (k =? 2); [destruct t as [|a [|b t1]]; intros E; inversion E; subst; simpl; lia|].
  destruct t as [|a [|b [|c [|d t1]]]]; intros E; inversion E; subst; simpl; lia.
Qed.

Lemma sn_copy_back_some n : forall off1 rout,
  (off1 < length rout)%nat ->
  exists r, sn_copy_back n off1 rout = Some r /\ length r = (n + length rout)%nat.
Proof.
  induction n as [|n IH]; intros off1 rout H; simpl.
  - eauto.
  - destruct (nth_error rout off1) eqn:E.
    + destruct (IH off1 (n0 :: rout)) as (r & -> & L); [simpl; lia|].
      eexists; split; [reflexivity|]. simpl in L. lia.
    + apply nth_error_None in E. lia.
Qed.

Definition sn_good (r : sn_result) : Prop :=
  match r with SnPanic | SnOutOfFuel => False | _ => True end.

Lemma sn_loop_good fuel : forall dlen d rout src,
  (length src < fuel)%nat -> d = lenN rout -> sn_good (sn_loop fuel dlen d rout src).
Proof.
  induction fuel as [|f IH]; intros dlen d rout src Hf Hd; [lia|].
  cbn [sn_loop]. destruct src as [|tag t].
  - destruct (d =? dlen); exact I.
  - cbv zeta. destruct (N.land tag 3 =? 0).
    + destruct (sn_lit_len (N.shiftr tag 2) t) as [[len t']|] eqn:E; [|exact I].
      apply sn_lit_len_len in E.
      destruct ((dlen - d <? len) || (lenN t' <? len)) eqn:C; [exact I|].
      apply orb_false_iff in C as [C1 C2]. apply N.ltb_ge in C2. unfold lenN in C2.
      apply IH.
      * rewrite skipn_length. simpl in Hf. lia.
      * subst d. unfold lenN. rewrite rev_append_rev, app_length, rev_length, firstn_length. lia.
    + destruct (sn_copy_args (N.land tag 3) tag t) as [[[len off] t']|] eqn:E; [|exact I].
      apply sn_copy_args_len in E.
      destruct ((off =? 0) || (d <? off) || (dlen - d <? len)) eqn:C; [exact I|].
      apply orb_false_iff in C as [C C3]. apply orb_false_iff in C as [C1 C2].
      apply N.eqb_neq in C1. apply N.ltb_ge in C2.
      destruct (sn_copy_back_some (N.to_nat len) (N.to_nat (off - 1)) rout) as (r & -> & L).
      { subst d. unfold lenN in C2. lia. }
      apply IH; [simpl in Hf; lia|]. subst d. unfold lenN in *. lia.
Qed.

Lemma snappy_decode_good src : sn_good (snappy_decode src).
Proof.
  unfold snappy_decode. destruct (sn_decoded_len src) as [[dl body]|]; [|exact I].
  apply sn_loop_good; [lia|reflexivity].
Qed.

(* ---- ParseBlock / readNextBlock ------------------------------------------------------------------------------ *)

Lemma parse_block_good pol h comp : good (fst (parse_block pol h comp)).
Proof.
  unfold parse_block.
  destruct (negb (crc32 comp =? bh_crc h)); [exact I|].
  destruct (sn_decoded_len comp) as [[dl body]|]; [|exact I].
  destruct (p_sn_bound pol && _); [exact I|].
  pose proof (snappy_decode_good comp) as G.
  destruct (snappy_decode comp) as [unc| | |]; simpl in G; try contradiction; cbn [sn_to_res fst]; try exact I.
  destruct (negb (lenN unc =? bh_usize h)); [exact I|].
  pose proof (parse_entries_spec (N.to_nat (bh_count h)) unc 0) as S.
  destruct (parse_entries (N.to_nat (bh_count h)) unc 0); cbn [fst]; try exact I; apply S; lia.
Qed.

Definition step_good (len : nat) (s : step) : Prop :=
  match s with
  | StPanic | StFuel => False
  | StBlock _ rest' => (length rest' + 16 <= len)%nat
  | _ => True
  end.

Lemma tail_class_good n b : step_good n (tail_class b).
Proof. destruct b; exact I. Qed.

Lemma next_block_ne_good pol rest : step_good (length rest) (fst (next_block_ne pol rest)).
Proof.
  unfold next_block_ne. cbv zeta.
  destruct (lenN rest <? block_header_size) eqn:L; [apply tail_class_good|].
  apply N.ltb_ge in L. unfold block_header_size in *.
  destruct (slice_ok rest 0 16) as (hb & -> & Lh & _); try lia. cbn [bind].
  destruct (bhdr_deserialize_ok hb) as (h & ->); [unfold block_header_size; lia|].
  destruct (lenN rest - 16 <? bh_csize h) eqn:S.
  - destruct (p_bound_first pol); cbn [andb fst]; apply tail_class_good.
  - rewrite andb_false_r. apply N.ltb_ge in S.
    destruct (slice_ok rest 16 (16 + bh_csize h)) as (comp & -> & _); try lia.
    pose proof (parse_block_good pol h comp) as G.
    destruct (parse_block pol h comp) as [r plog]. cbn [fst] in *.
    destruct r; simpl in G; try contradiction; cbn [fst step_good]; try exact I.
    rewrite skipn_length. unfold lenN in *. lia.
Qed.

Lemma next_block_good pol rest : step_good (length rest) (fst (next_block pol rest)).
Proof.
  unfold next_block. destruct rest; [exact I|]. apply next_block_ne_good.
Qed.

Lemma read_blocks_good pol fuel : forall rest,
  (length rest < 16 * fuel)%nat -> good (fst (read_blocks pol fuel rest)).
Proof.
  induction fuel as [|f IH]; intros rest H; [lia|].
  cbn [read_blocks].
  pose proof (next_block_good pol rest) as G.
  destruct (next_block pol rest) as [st log]. cbn [fst] in G.
  destruct st; simpl in G; try contradiction; cbn [fst]; try exact I.
  specialize (IH rest' ltac:(lia)).
  destruct (read_blocks pol f rest') as [r log']. cbn [fst] in *.
  destruct r; simpl in *; auto.
Qed.

Lemma blocks_fuel_enough rest : (length rest < 16 * blocks_fuel rest)%nat.
Proof.
  unfold blocks_fuel.
  pose proof (Nat.div_mod (length rest) 16 ltac:(lia)).
  pose proof (Nat.mod_upper_bound (length rest) 16 ltac:(lia)). lia.
Qed.

Lemma skipN_length n l : (length (skipN n l) <= length l)%nat.
Proof.
  unfold skipN. destruct (lenN l <=? n); [simpl; lia|]. rewrite skipn_length. lia.
Qed.

Lemma blocks_fuel_mono a b : (length a <= length b)%nat -> (blocks_fuel a <= blocks_fuel b)%nat.
Proof.
  intros H. unfold blocks_fuel.
  pose proof (Nat.div_le_mono (length a) (length b) 16 ltac:(lia) H). lia.
Qed.

Lemma read_blocks_good_le pol fuel rest :
  (blocks_fuel rest <= fuel)%nat -> good (fst (read_blocks pol fuel rest)).
Proof.
  intros H. apply read_blocks_good. pose proof (blocks_fuel_enough rest). lia.
Qed.

(* C04_total: NewFileReader + LoadIndex on ANY byte string, under ANY tail policy / code
   version, neither runs out of fuel (the block loop consumes >= 16 bytes per iteration, so
   len/16 + 2 iterations suffice: "never hangs") nor reaches an out-of-range slice or index
   ("never panics"). *)
Theorem read_file_total pol b : good (fst (read_file_bytes pol b)).
Proof.
  unfold read_file_bytes, read_file_fuel.
  pose proof (new_file_reader_good b) as G.
  destruct (new_file_reader b) as [o log0]. cbn [fst] in G.
  destruct o as [op| | |]; simpl in G; try contradiction; cbn [fst]; try exact I.
  pose proof (read_blocks_good_le pol (blocks_fuel b) (skipN (data_start_offset (o_hdr op)) b)) as R.
  destruct (read_blocks pol (blocks_fuel b) (skipN (data_start_offset (o_hdr op)) b)) as [r log1].
  cbn [fst] in R.
  assert (good r) as Gr by (apply R, blocks_fuel_mono, skipN_length).
  destruct r; simpl in Gr; try contradiction; exact I.
Qed.

Lemma scan_loop_good fuel : forall rest bc ec us,
  (length rest < 16 * fuel)%nat -> good (scan_loop fuel rest bc ec us).
Proof.
  induction fuel as [|f IH]; intros rest bc ec us H; [lia|].
  cbn [scan_loop].
  destruct (lenN rest <? block_header_size) eqn:L; [exact I|].
  apply N.ltb_ge in L. unfold block_header_size in *.
  destruct (slice_ok rest 0 16) as (hb & -> & Lh & _); try lia. cbn [bind].
  destruct (bhdr_deserialize_ok hb) as (h & ->); [unfold block_header_size; lia|]. cbn [bind].
  apply IH. unfold skipN. destruct (lenN rest <=? 16 + bh_csize h) eqn:C.
  - simpl. unfold lenN in L. lia.
  - rewrite skipn_length. unfold lenN in L. lia.
Qed.

Theorem scan_total b : good (scan_block_headers b).
Proof.
  unfold scan_block_headers.
  pose proof (new_file_reader_good b) as G.
  destruct (fst (new_file_reader b)) as [op| | |]; simpl in G; try contradiction; try exact I.
  apply scan_loop_good, blocks_fuel_enough.
Qed.

Theorem read_swamp_name_total pol b : good (read_swamp_name pol b).
Proof.
  unfold read_swamp_name.
  pose proof (new_file_reader_good b) as G.
  destruct (fst (new_file_reader b)) as [op| | |]; simpl in G; try contradiction; try exact I.
  destruct (fh_version (o_hdr op) =? version3); [exact I|].
  pose proof (read_file_total pol b) as T.
  destruct (fst (read_file_bytes pol b)); simpl in *; auto.
Qed.
