(* Storage/C04ReaderProofs.v — lemmas and theorems about Storage/C04Reader.v, Snappy.v, Crc32.v.
   All statements quantify over every byte string / every policy; nothing here is a test. *)
From HV Require Import Base.Prelude Storage.Crc32 Storage.Snappy Storage.C04Reader.
From Coq Require Import ZifyN ZifyNat ZifyBool.
Local Open Scope N_scope.

Arguments firstn : simpl never.
Arguments skipn : simpl never.
Arguments N.mul : simpl never.
Arguments N.add : simpl never.
Arguments N.sub : simpl never.
Arguments N.to_nat : simpl never.
Arguments N.of_nat : simpl never.
Arguments crc32 : simpl never.
Arguments snappy_decode : simpl never.

(* ---- outcomes that must never occur ------------------------------------------------------- *)

Definition good {A} (r : res A) : Prop :=
  match r with Panic | OutOfFuel => False | _ => True end.

Lemma good_bind {A B} (r : res A) (f : A -> res B) :
  good r -> (forall a, r = Ok a -> good (f a)) -> good (bind r f).
Proof. destruct r; simpl; auto. Qed.

(* ---- checked slicing ------------------------------------------------------------------------ *)

Lemma lenN_nil {A} : @lenN A [] = 0.
Proof. reflexivity. Qed.

Lemma lenN_cons {A} (x : A) l : lenN (x :: l) = 1 + lenN l.
Proof. unfold lenN. simpl length. lia. Qed.

Lemma lenN_app {A} (a b : list A) : lenN (a ++ b) = lenN a + lenN b.
Proof. unfold lenN. rewrite app_length. lia. Qed.

Lemma lenN_firstn {A} n (l : list A) : n <= lenN l -> lenN (firstn (N.to_nat n) l) = n.
Proof. unfold lenN. intros. rewrite firstn_length. lia. Qed.

Lemma lenN_skipn {A} n (l : list A) : lenN (skipn (N.to_nat n) l) = lenN l - n.
Proof. unfold lenN. rewrite skipn_length. lia. Qed.

Lemma sub_some l lo hi :
  lo <= hi -> hi <= lenN l ->
  sub l lo hi = Some (firstn (N.to_nat (hi - lo)) (skipn (N.to_nat lo) l)) /\
  lenN (firstn (N.to_nat (hi - lo)) (skipn (N.to_nat lo) l)) = hi - lo.
Proof.
  intros H1 H2. unfold sub.
  rewrite (proj2 (N.leb_le _ _) H1), (proj2 (N.leb_le _ _) H2). split; [reflexivity|].
  apply lenN_firstn. rewrite lenN_skipn. lia.
Qed.

Lemma slice_ok l lo hi :
  lo <= hi -> hi <= lenN l -> exists s, slice l lo hi = Ok s /\ lenN s = hi - lo /\
                                        s = firstn (N.to_nat (hi - lo)) (skipn (N.to_nat lo) l).
Proof.
  intros H1 H2. destruct (sub_some l lo hi H1 H2) as [E L]. unfold slice. rewrite E. eauto.
Qed.

Lemma rd_ok l lo hi : lo <= hi -> hi <= lenN l -> exists v, rd l lo hi = Ok v.
Proof.
  intros H1 H2. destruct (slice_ok l lo hi H1 H2) as (s & E & _). unfold rd. rewrite E. simpl. eauto.
Qed.

Lemma idx1_ok l i : i < lenN l -> exists b, idx1 l i = Ok b.
Proof.
  intros H. unfold idx1. destruct (nth_error l (N.to_nat i)) eqn:E; eauto.
  apply nth_error_None in E. unfold lenN in H. lia.
Qed.

(* ---- file header --------------------------------------------------------------------------------- *)

Lemma fhdr_deserialize_good buf : good (fhdr_deserialize buf).
Proof.
  unfold fhdr_deserialize. destruct (lenN buf <? file_header_size) eqn:L; [exact I|].
  apply N.ltb_ge in L. unfold file_header_size in L.
  destruct (slice_ok buf 0 4) as (m & -> & _); try lia. cbn [bind].
  destruct (negb (bytes_eqb m magic_bytes)); [exact I|].
  destruct (rd_ok buf 4 6) as (v & ->); try lia. cbn [bind].
  destruct (negb (v =? version2) && negb (v =? version3)); [exact I|].
  destruct (rd_ok buf 44 46) as (nl & ->); try lia. exact I.
Qed.

Lemma new_file_reader_good b : good (fst (new_file_reader b)).
Proof.
  unfold new_file_reader. destruct (lenN b <? file_header_size) eqn:L; [exact I|].
  apply N.ltb_ge in L. unfold file_header_size in *.
  destruct (slice_ok b 0 64) as (hb & -> & _); try lia. cbn [bind].
  pose proof (fhdr_deserialize_good hb) as G.
  destruct (fhdr_deserialize hb) as [h| | |]; simpl in G; try contradiction; try exact I.
  destruct ((fh_version h =? version3) && (0 <? fh_namelen h)); [|exact I].
  destruct (lenN b - 64 <? fh_namelen h) eqn:L2; [exact I|].
  apply N.ltb_ge in L2.
  destruct (slice_ok b 64 (64 + fh_namelen h)) as (nm & -> & _); try lia. exact I.
Qed.

(* ---- block header ---------------------------------------------------------------------------------- *)

Lemma bhdr_deserialize_ok buf : block_header_size <= lenN buf -> exists h, bhdr_deserialize buf = Ok h.
Proof.
  intros L. unfold bhdr_deserialize, block_header_size in *.
  rewrite (proj2 (N.ltb_ge _ _) L).
  destruct (rd_ok buf 0 4) as (a & ->); try lia.
  destruct (rd_ok buf 4 8) as (b & ->); try lia.
  destruct (rd_ok buf 8 10) as (c & ->); try lia.
  destruct (rd_ok buf 10 14) as (d & ->); try lia. cbn [bind]. eauto.
Qed.

(* ---- entries ------------------------------------------------------------------------------------------- *)

Definition entry_fits (n : N) (e : entry) : Prop :=
  lenN (e_key e) <= n /\ lenN (e_data e) <= n /\ e_key e <> [].

Lemma entry_deserialize_spec buf :
  match entry_deserialize buf with
  | Ok (e, n) => 8 <= n /\ n <= lenN buf /\ entry_fits (lenN buf) e
  | Err _ => True
  | _ => False
  end.
Proof.
  unfold entry_deserialize.
  destruct (lenN buf <? 7) eqn:L; [exact I|]. apply N.ltb_ge in L.
  destruct (idx1_ok buf 0) as (op & ->); try lia. cbn [bind].
  destruct (rd_ok buf 1 3) as (kl & ->); try lia. cbn [bind].
  destruct (lenN buf <? 3 + kl + 4) eqn:L2; [exact I|]. apply N.ltb_ge in L2.
  destruct (slice_ok buf 3 (3 + kl)) as (key & -> & Lk & _); try lia. cbn [bind].
  destruct key as [|k0 key]; [exact I|].
  destruct (rd_ok buf (3 + kl) (3 + kl + 4)) as (dl & ->); try lia. cbn [bind].
  destruct (lenN buf <? 3 + kl + 4 + dl) eqn:L3; [exact I|]. apply N.ltb_ge in L3.
  destruct (slice_ok buf (3 + kl + 4) (3 + kl + 4 + dl)) as (data & -> & Ld & _); try lia. cbn [bind].
  rewrite lenN_cons in Lk.
  unfold entry_fits; simpl. rewrite lenN_cons. repeat split; try lia. discriminate.
Qed.

Lemma parse_entries_spec k : forall unc off,
  off <= lenN unc ->
  match parse_entries k unc off with
  | Ok es => N.of_nat (length es) = N.of_nat k /\ Forall (entry_fits (lenN unc)) es /\
             off + 8 * N.of_nat k <= lenN unc
  | Err _ => True
  | _ => False
  end.
Proof.
  induction k as [|k IH]; intros unc off Hoff; simpl parse_entries.
  - repeat split; [constructor | lia].
  - destruct (slice_ok unc off (lenN unc)) as (buf & -> & Lb & _); try lia. cbn [bind].
    pose proof (entry_deserialize_spec buf) as S.
    destruct (entry_deserialize buf) as [[e n]| | |]; try contradiction; try exact I.
    destruct S as (S1 & S2 & S3 & S4 & S5). cbn [bind fst snd].
    specialize (IH unc (off + n)). 
    destruct (parse_entries k unc (off + n)) as [es| | |]; cbn [bind]; try (apply IH; lia); try exact I.
    destruct IH as (I1 & I2 & I3); [lia|].
    repeat split.
    + simpl length. lia.
    + constructor; [|exact I2]. unfold entry_fits. repeat split; try lia; assumption.
    + lia.
Qed.

(* ---- Snappy decoder: total, never out of range --------------------------------------------------------- *)

Lemma sn_lit_len_len x t len t' :
  sn_lit_len x t = Some (len, t') -> (length t' <= length t)%nat.
Proof.
  unfold sn_lit_len.
  destruct (x <? 60); [intros E; inversion E; subst; lia|].
  destruct (x =? 60); [destruct t as [|a t1]; intros E; inversion E; subst; simpl; lia|].
  destruct (x =? 61); [destruct t as [|a [|b t1]]; intros E; inversion E; subst; simpl; lia|].
  destruct (x =? 62); [destruct t as [|a [|b [|c t1]]]; intros E; inversion E; subst; simpl; lia|].
  destruct t as [|a [|b [|c [|d t1]]]]; intros E; inversion E; subst; simpl; lia.
Qed.

Lemma sn_copy_args_len k tag t len off t' :
  sn_copy_args k tag t = Some (len, off, t') -> (length t' <= length t)%nat.
Proof.
  unfold sn_copy_args.
  destruct (k =? 1); [destruct t as [|a t1]; intros E; inversion E; subst; simpl; lia|].
  destruct (k =? 2); [destruct t as [|a [|b t1]]; intros E; inversion E; subst; simpl; lia|].
  destruct t as [|a [|b [|c [|d t1]]]]; intros E; inversion E; subst; simpl; lia.
Qed.

Lemma sn_copy_back_some n : forall off1 rout,
  (off1 < length rout)%nat ->
  exists r, sn_copy_back n off1 rout = Some r /\ length r = (n + length rout)%nat.
Proof.
  induction n as [|n IH]; intros off1 rout H; simpl.
  - eauto.
  - destruct (nth_error rout off1) eqn:E.
    + destruct (IH off1 (n0 :: rout)) as (r & -> & L); [simpl; lia|].
      eexists; split; [reflexivity|]. simpl in L. lia.
    + apply nth_error_None in E. lia.
Qed.

Definition sn_good (r : sn_result) : Prop :=
  match r with SnPanic | SnOutOfFuel => False | _ => True end.

Lemma sn_loop_good fuel : forall dlen d rout src,
  (length src < fuel)%nat -> d = lenN rout -> sn_good (sn_loop fuel dlen d rout src).
Proof.
  induction fuel as [|f IH]; intros dlen d rout src Hf Hd; [lia|].
  cbn [sn_loop]. destruct src as [|tag t].
  - destruct (d =? dlen); exact I.
  - cbv zeta. destruct (N.land tag 3 =? 0).
    + destruct (sn_lit_len (N.shiftr tag 2) t) as [[len t']|] eqn:E; [|exact I].
      apply sn_lit_len_len in E.
      destruct ((dlen - d <? len) || (lenN t' <? len)) eqn:C; [exact I|].
      apply orb_false_iff in C as [C1 C2]. apply N.ltb_ge in C2. unfold lenN in C2.
      apply IH.
      * rewrite skipn_length. simpl in Hf. lia.
      * subst d. unfold lenN. rewrite rev_append_rev, app_length, rev_length, firstn_length. lia.
    + destruct (sn_copy_args (N.land tag 3) tag t) as [[[len off] t']|] eqn:E; [|exact I].
      apply sn_copy_args_len in E.
      destruct ((off =? 0) || (d <? off) || (dlen - d <? len)) eqn:C; [exact I|].
      apply orb_false_iff in C as [C C3]. apply orb_false_iff in C as [C1 C2].
      apply N.eqb_neq in C1. apply N.ltb_ge in C2.
      destruct (sn_copy_back_some (N.to_nat len) (N.to_nat (off - 1)) rout) as (r & -> & L).
      { subst d. unfold lenN in C2. lia. }
      apply IH; [simpl in Hf; lia|]. subst d. unfold lenN in *. lia.
Qed.

Lemma snappy_decode_good src : sn_good (snappy_decode src).
Proof.
  unfold snappy_decode. destruct (sn_decoded_len src) as [[dl body]|]; [|exact I].
  apply sn_loop_good; [lia|reflexivity].
Qed.

(* ---- ParseBlock / readNextBlock ------------------------------------------------------------------------------ *)

Lemma parse_block_good pol h comp : good (fst (parse_block pol h comp)).
Proof.
  unfold parse_block.
  destruct (negb (crc32 comp =? bh_crc h)); [exact I|].
  destruct (sn_decoded_len comp) as [[dl body]|]; [|exact I].
  destruct (p_sn_bound pol && _); [exact I|].
  pose proof (snappy_decode_good comp) as G.
  destruct (snappy_decode comp) as [unc| | |]; simpl in G; try contradiction; cbn [sn_to_res fst]; try exact I.
  destruct (negb (lenN unc =? bh_usize h)); [exact I|].
  pose proof (parse_entries_spec (N.to_nat (bh_count h)) unc 0) as S.
  destruct (parse_entries (N.to_nat (bh_count h)) unc 0); cbn [fst]; try exact I; apply S; lia.
Qed.

Definition step_good (len : nat) (s : step) : Prop :=
  match s with
  | StPanic | StFuel => False
  | StBlock _ rest' => (length rest' + 16 <= len)%nat
  | _ => True
  end.

Lemma tail_class_good n b : step_good n (tail_class b).
Proof. destruct b; exact I. Qed.

Lemma next_block_ne_good pol rest : step_good (length rest) (fst (next_block_ne pol rest)).
Proof.
  unfold next_block_ne. cbv zeta.
  destruct (lenN rest <? block_header_size) eqn:L; [apply tail_class_good|].
  apply N.ltb_ge in L. unfold block_header_size in *.
  destruct (slice_ok rest 0 16) as (hb & -> & Lh & _); try lia. cbn [bind].
  destruct (bhdr_deserialize_ok hb) as (h & ->); [unfold block_header_size; lia|].
  destruct (lenN rest - 16 <? bh_csize h) eqn:S.
  - destruct (p_bound_first pol); cbn [andb fst]; apply tail_class_good.
  - rewrite andb_false_r. apply N.ltb_ge in S.
    destruct (slice_ok rest 16 (16 + bh_csize h)) as (comp & -> & _); try lia.
    pose proof (parse_block_good pol h comp) as G.
    destruct (parse_block pol h comp) as [r plog]. cbn [fst] in *.
    destruct r; simpl in G; try contradiction; cbn [fst step_good]; try exact I.
    rewrite skipn_length. unfold lenN in *. lia.
Qed.

Lemma next_block_good pol rest : step_good (length rest) (fst (next_block pol rest)).
Proof.
  unfold next_block. destruct rest; [exact I|]. apply next_block_ne_good.
Qed.

Lemma read_blocks_good pol fuel : forall rest,
  (length rest < 16 * fuel)%nat -> good (fst (read_blocks pol fuel rest)).
Proof.
  induction fuel as [|f IH]; intros rest H; [lia|].
  cbn [read_blocks].
  pose proof (next_block_good pol rest) as G.
  destruct (next_block pol rest) as [st log]. cbn [fst] in G.
  destruct st; simpl in G; try contradiction; cbn [fst]; try exact I.
  specialize (IH rest' ltac:(lia)).
  destruct (read_blocks pol f rest') as [r log']. cbn [fst] in *.
  destruct r; simpl in *; auto.
Qed.

Lemma blocks_fuel_enough rest : (length rest < 16 * blocks_fuel rest)%nat.
Proof.
  unfold blocks_fuel.
  pose proof (Nat.div_mod (length rest) 16 ltac:(lia)).
  pose proof (Nat.mod_upper_bound (length rest) 16 ltac:(lia)). lia.
Qed.

Lemma skipN_length n l : (length (skipN n l) <= length l)%nat.
Proof.
  unfold skipN. destruct (lenN l <=? n); [simpl; lia|]. rewrite skipn_length. lia.
Qed.

Lemma blocks_fuel_mono a b : (length a <= length b)%nat -> (blocks_fuel a <= blocks_fuel b)%nat.
Proof.
  intros H. unfold blocks_fuel.
  pose proof (Nat.div_le_mono (length a) (length b) 16 ltac:(lia) H). lia.
Qed.

Lemma read_blocks_good_le pol fuel rest :
  (blocks_fuel rest <= fuel)%nat -> good (fst (read_blocks pol fuel rest)).
Proof.
  intros H. apply read_blocks_good. pose proof (blocks_fuel_enough rest). lia.
Qed.

(* C04_total: NewFileReader + LoadIndex on ANY byte string, under ANY tail policy / code
   version, neither runs out of fuel (the block loop consumes >= 16 bytes per iteration, so
   len/16 + 2 iterations suffice: "never hangs") nor reaches an out-of-range slice or index
   ("never panics"). *)
Theorem read_file_total pol b : good (fst (read_file_bytes pol b)).
Proof.
  unfold read_file_bytes, read_file_fuel.
  pose proof (new_file_reader_good b) as G.
  destruct (new_file_reader b) as [o log0]. cbn [fst] in G.
  destruct o as [op| | |]; simpl in G; try contradiction; cbn [fst]; try exact I.
  pose proof (read_blocks_good_le pol (blocks_fuel b) (skipN (data_start_offset (o_hdr op)) b)) as R.
  destruct (read_blocks pol (blocks_fuel b) (skipN (data_start_offset (o_hdr op)) b)) as [r log1].
  cbn [fst] in R.
  assert (good r) as Gr by (apply R, blocks_fuel_mono, skipN_length).
  destruct r; simpl in Gr; try contradiction; exact I.
Qed.

Lemma scan_loop_good fuel : forall rest bc ec us,
  (length rest < 16 * fuel)%nat -> good (scan_loop fuel rest bc ec us).
Proof.
  induction fuel as [|f IH]; intros rest bc ec us H; [lia|].
  cbn [scan_loop].
  destruct (lenN rest <? block_header_size) eqn:L; [exact I|].
  apply N.ltb_ge in L. unfold block_header_size in *.
  destruct (slice_ok rest 0 16) as (hb & -> & Lh & _); try lia. cbn [bind].
  destruct (bhdr_deserialize_ok hb) as (h & ->); [unfold block_header_size; lia|]. cbn [bind].
  apply IH. unfold skipN. destruct (lenN rest <=? 16 + bh_csize h) eqn:C.
  - simpl. unfold lenN in L. lia.
  - rewrite skipn_length. unfold lenN in L. lia.
Qed.

Theorem scan_total b : good (scan_block_headers b).
Proof.
  unfold scan_block_headers.
  pose proof (new_file_reader_good b) as G.
  destruct (fst (new_file_reader b)) as [op| | |]; simpl in G; try contradiction; try exact I.
  apply scan_loop_good, blocks_fuel_enough.
Qed.

Theorem read_entries_total pol b : good (read_entries pol b).
Proof.
  unfold read_entries.
  pose proof (new_file_reader_good b) as G.
  destruct (fst (new_file_reader b)) as [op| | |]; simpl in G; try contradiction; try exact I.
  apply read_blocks_good_le, blocks_fuel_mono, skipN_length.
Qed.

Theorem calc_fragmentation_total pol b : good (calc_fragmentation pol b).
Proof.
  unfold calc_fragmentation. apply good_bind; [apply read_entries_total|]. intros; exact I.
Qed.

Theorem read_all_blocks_total pol b : good (read_all_blocks pol b).
Proof.
  unfold read_all_blocks.
  pose proof (new_file_reader_good b) as G.
  destruct (fst (new_file_reader b)) as [op| | |]; simpl in G; try contradiction; try exact I.
  apply good_bind; [apply read_blocks_good_le, blocks_fuel_mono, skipN_length|]. intros; exact I.
Qed.

Theorem read_swamp_name_total pol b : good (read_swamp_name pol b).
Proof.
  unfold read_swamp_name.
  pose proof (new_file_reader_good b) as G.
  destruct (fst (new_file_reader b)) as [op| | |]; simpl in G; try contradiction; try exact I.
  destruct (fh_version (o_hdr op) =? version3); [exact I|].
  pose proof (read_file_total pol b) as T.
  destruct (fst (read_file_bytes pol b)); simpl in *; auto.
Qed.

(* ---- allocation requests are in proportion to the file ----------------------------------------------------- *)

Definition is_bytes (l : list N) : Prop := Forall (fun x => x < 256) l.
Definition allocs_ok (n : N) (log : list alloc) : Prop := Forall (fun a => alloc_ok n a = true) log.

Lemma is_bytes_firstn k : forall l, is_bytes l -> is_bytes (firstn k l).
Proof.
  induction k as [|k IH]; intros l H; [rewrite firstn_O; constructor|].
  destruct l; [rewrite firstn_nil; constructor|]. rewrite firstn_cons.
  inversion H; subst. constructor; auto. apply IH; assumption.
Qed.

Lemma is_bytes_skipn k : forall l, is_bytes l -> is_bytes (skipn k l).
Proof.
  induction k as [|k IH]; intros l H; [rewrite skipn_O; assumption|].
  destruct l; [rewrite skipn_nil; constructor|]. rewrite skipn_cons.
  inversion H; subst. apply IH; assumption.
Qed.

Lemma le_bound s : is_bytes s -> le s < 256 ^ lenN s.
Proof.
  induction s as [|b t IH]; intros H; [simpl; lia|].
  inversion H; subst. specialize (IH H3). rewrite lenN_cons.
  replace (1 + lenN t) with (N.succ (lenN t)) by lia. rewrite N.pow_succ_r'.
  cbn [le]. lia.
Qed.

Lemma rd_bound l lo hi v : is_bytes l -> rd l lo hi = Ok v -> v < 256 ^ (hi - lo).
Proof.
  intros B. unfold rd, slice, sub.
  destruct ((lo <=? hi) && (hi <=? lenN l)) eqn:C; [|discriminate].
  apply andb_true_iff in C as [C1 C2]. apply N.leb_le in C1. apply N.leb_le in C2.
  cbn [bind]. intros E; inversion E; subst.
  rewrite <- (proj2 (sub_some l lo hi C1 C2)) at 2.
  apply le_bound, is_bytes_firstn, is_bytes_skipn, B.
Qed.

Lemma slice_bytes l lo hi s : is_bytes l -> slice l lo hi = Ok s -> is_bytes s.
Proof.
  intros B. unfold slice, sub. destruct ((lo <=? hi) && (hi <=? lenN l)); [|discriminate].
  intros E; inversion E; subst. apply is_bytes_firstn, is_bytes_skipn, B.
Qed.

Lemma fhdr_namelen_bound buf h : is_bytes buf -> fhdr_deserialize buf = Ok h -> fh_namelen h <= 65535.
Proof.
  intros B. unfold fhdr_deserialize.
  destruct (lenN buf <? file_header_size); [discriminate|].
  destruct (slice buf 0 4); cbn [bind]; try discriminate.
  destruct (negb (bytes_eqb a magic_bytes)); [discriminate|].
  destruct (rd buf 4 6) as [v| | |]; cbn [bind]; try discriminate.
  destruct (negb (v =? version2) && negb (v =? version3)); [discriminate|].
  destruct (rd buf 44 46) as [nl| | |] eqn:E; cbn [bind]; try discriminate.
  intros X; inversion X; subst. cbn [fh_namelen].
  apply rd_bound in E; [|assumption]. change (256 ^ (46 - 44)) with 65536 in E.
  destruct (v =? version3); lia.
Qed.

Lemma bhdr_count_bound buf h : is_bytes buf -> bhdr_deserialize buf = Ok h -> bh_count h <= 65535.
Proof.
  intros B. unfold bhdr_deserialize.
  destruct (lenN buf <? block_header_size); [discriminate|].
  destruct (rd buf 0 4); cbn [bind]; try discriminate.
  destruct (rd buf 4 8); cbn [bind]; try discriminate.
  destruct (rd buf 8 10) as [c| | |] eqn:E; cbn [bind]; try discriminate.
  destruct (rd buf 10 14); cbn [bind]; try discriminate.
  intros X; inversion X; subst. cbn [bh_count].
  apply rd_bound in E; [|assumption]. change (256 ^ (10 - 8)) with 65536 in E. lia.
Qed.

Lemma alloc_ok_buf_small n k : k <= 65535 -> alloc_ok n (ABuf k) = true.
Proof. intros. cbn [alloc_ok]. apply orb_true_iff. left. apply N.leb_le. assumption. Qed.

Lemma alloc_ok_buf_lin n k : k <= 22 * n -> alloc_ok n (ABuf k) = true.
Proof. intros. cbn [alloc_ok]. apply orb_true_iff. right. apply N.leb_le. assumption. Qed.

Lemma alloc_ok_entries n k : k <= 65535 -> alloc_ok n (AEntries k) = true.
Proof. intros. cbn [alloc_ok]. apply N.leb_le. assumption. Qed.

Lemma alloc_ok_mono n m a : n <= m -> alloc_ok n a = true -> alloc_ok m a = true.
Proof.
  intros H. destruct a; cbn [alloc_ok]; [|auto]. unfold max_snappy_expansion.
  rewrite !orb_true_iff, !N.leb_le. lia.
Qed.

Lemma allocs_ok_mono n m log : n <= m -> allocs_ok n log -> allocs_ok m log.
Proof. intros H. apply Forall_impl. intros a. apply alloc_ok_mono, H. Qed.

Lemma entry_allocs_ok n m es : m <= 22 * n -> Forall (entry_fits m) es -> allocs_ok n (entry_allocs es).
Proof.
  intros H F. unfold entry_allocs, allocs_ok. induction F as [|e es (F1 & F2 & _) _ IH]; simpl; [constructor|].
  constructor; [apply alloc_ok_buf_lin; lia|]. constructor; [apply alloc_ok_buf_lin; lia|]. exact IH.
Qed.

Lemma entry_fits_mono n m e : n <= m -> entry_fits n e -> entry_fits m e.
Proof. unfold entry_fits. intros H (A & B & C). repeat split; try lia; assumption. Qed.

Lemma parse_block_allocs pol h comp n :
  p_sn_bound pol = true -> bh_count h <= 65535 -> lenN comp <= n ->
  allocs_ok n (snd (parse_block pol h comp)) /\
  (forall es, fst (parse_block pol h comp) = Ok es -> Forall (entry_fits (22 * n)) es).
Proof.
  intros Hsn Hc Hn. unfold parse_block. rewrite Hsn. cbn [andb].
  destruct (negb (crc32 comp =? bh_crc h)); [split; [constructor|discriminate]|].
  destruct (sn_decoded_len comp) as [[dl body]|]; [|split; [constructor|discriminate]].
  destruct (negb (dl =? bh_usize h) || (max_snappy_expansion * lenN comp <? dl)) eqn:C;
    [split; [constructor|discriminate]|].
  apply orb_false_iff in C as [C1 C2]. apply negb_false_iff, N.eqb_eq in C1.
  apply N.ltb_ge in C2. unfold max_snappy_expansion in C2.
  assert (A1 : alloc_ok n (ABuf dl) = true) by (apply alloc_ok_buf_lin; lia).
  destruct (snappy_decode comp) as [unc| | |]; cbn [sn_to_res fst snd];
    try (split; [repeat constructor; assumption|discriminate]).
  destruct (negb (lenN unc =? bh_usize h)) eqn:C3; [split; [repeat constructor; assumption|discriminate]|].
  apply negb_false_iff, N.eqb_eq in C3.
  pose proof (parse_entries_spec (N.to_nat (bh_count h)) unc 0 ltac:(lia)) as S.
  destruct (parse_entries (N.to_nat (bh_count h)) unc 0) as [es| | |]; cbn [fst snd];
    try (split; [repeat constructor; try assumption; apply alloc_ok_entries; assumption|discriminate]).
  destruct S as (_ & F & _). split.
  - apply Forall_app. split; [repeat constructor; try assumption; apply alloc_ok_entries; assumption|].
    apply entry_allocs_ok with (m := lenN unc); [lia|exact F].
  - intros es' E; inversion E; subst.
    eapply Forall_impl; [|exact F]. intros e. apply entry_fits_mono. lia.
Qed.

Lemma tail_class_not_block b es r : tail_class b <> StBlock es r.
Proof. destruct b; discriminate. Qed.

Lemma next_block_ne_allocs pol rest n :
  p_bound_first pol = true -> p_sn_bound pol = true -> is_bytes rest -> lenN rest <= n ->
  allocs_ok n (snd (next_block_ne pol rest)) /\
  (forall es rest', fst (next_block_ne pol rest) = StBlock es rest' ->
     Forall (entry_fits (22 * n)) es /\ exists k, rest' = skipn k rest).
Proof.
  intros Hb Hsn B Hn. unfold next_block_ne. cbv zeta. rewrite Hb. cbn [andb].
  assert (A0 : alloc_ok n (ABuf block_header_size) = true) by (apply alloc_ok_buf_small; unfold block_header_size; lia).
  destruct (lenN rest <? block_header_size) eqn:L.
  { split; [repeat constructor; assumption|]. intros es r E. exfalso. eapply tail_class_not_block, E. }
  apply N.ltb_ge in L. unfold block_header_size in *.
  destruct (slice_ok rest 0 16) as (hb & E1 & Lh & _); try lia. rewrite E1. cbn [bind].
  pose proof (slice_bytes _ _ _ _ B E1) as Bh.
  destruct (bhdr_deserialize_ok hb) as (h & E2); [unfold block_header_size; lia|]. rewrite E2.
  pose proof (bhdr_count_bound _ _ Bh E2) as Hc.
  destruct (lenN rest - 16 <? bh_csize h) eqn:S.
  { split; [repeat constructor; assumption|]. intros es r E. exfalso. eapply tail_class_not_block, E. }
  apply N.ltb_ge in S.
  destruct (slice_ok rest 16 (16 + bh_csize h)) as (comp & -> & Lc & _); try lia.
  assert (A1 : alloc_ok n (ABuf (bh_csize h)) = true) by (apply alloc_ok_buf_lin; lia).
  destruct (parse_block_allocs pol h comp n Hsn Hc ltac:(lia)) as (P1 & P2).
  destruct (parse_block pol h comp) as [r plog]. cbn [fst snd] in *.
  assert (allocs_ok n (([ABuf 16] ++ [ABuf (bh_csize h)]) ++ plog)) as AL.
  { apply Forall_app. split; [repeat constructor; assumption|exact P1]. }
  destruct r; cbn [fst snd]; (split; [exact AL|]); try discriminate.
  intros es r E; inversion E; subst. split; [apply P2; reflexivity|eauto].
Qed.

Lemma read_blocks_allocs pol n fuel : forall rest,
  p_bound_first pol = true -> p_sn_bound pol = true -> is_bytes rest -> lenN rest <= n ->
  allocs_ok n (snd (read_blocks pol fuel rest)) /\
  (forall es, fst (read_blocks pol fuel rest) = Ok es -> Forall (entry_fits (22 * n)) es).
Proof.
  induction fuel as [|f IH]; intros rest Hb Hsn B Hn; cbn [read_blocks].
  { split; [constructor|discriminate]. }
  assert (allocs_ok n (snd (next_block pol rest)) /\
          (forall es rest', fst (next_block pol rest) = StBlock es rest' ->
             Forall (entry_fits (22 * n)) es /\ exists k, rest' = skipn k rest)) as (A & Bk).
  { unfold next_block. destruct rest as [|r0 rest0].
    - split; [repeat constructor; apply alloc_ok_buf_small; unfold block_header_size; lia|discriminate].
    - apply next_block_ne_allocs; assumption. }
  destruct (next_block pol rest) as [st log]. cbn [fst snd] in *.
  destruct st; cbn [fst snd]; try (split; [exact A|discriminate]).
  - split; [exact A|]. intros es E; inversion E; constructor.
  - destruct (Bk es rest' eq_refl) as (F & k & ->).
    destruct (IH (skipn k rest) Hb Hsn (is_bytes_skipn k rest B)) as (A2 & F2).
    { unfold lenN in *. rewrite skipn_length. lia. }
    destruct (read_blocks pol f (skipn k rest)) as [r log']. cbn [fst snd] in *.
    split; [apply Forall_app; split; assumption|].
    destruct r; cbn [bind]; try discriminate.
    intros es' E; inversion E; subst. apply Forall_app. split; [exact F|apply F2; reflexivity].
Qed.

Lemma load_allocs_ok n es : Forall (entry_fits (22 * n)) es -> allocs_ok n (load_allocs es).
Proof.
  intros F. unfold load_allocs, allocs_ok. induction F as [|e es (_ & F2 & _) _ IH]; simpl; [constructor|].
  destruct ((e_op e =? op_insert) || (e_op e =? op_update)); simpl; [|exact IH].
  constructor; [apply alloc_ok_buf_lin; lia|exact IH].
Qed.

Lemma is_bytes_skipN k l : is_bytes l -> is_bytes (skipN k l).
Proof. intros B. unfold skipN. destruct (lenN l <=? k); [constructor|apply is_bytes_skipn, B]. Qed.

Lemma new_file_reader_allocs b : is_bytes b -> allocs_ok (lenN b) (snd (new_file_reader b)).
Proof.
  intros B. unfold new_file_reader. cbv zeta.
  assert (A0 : alloc_ok (lenN b) (ABuf file_header_size) = true) by (apply alloc_ok_buf_small; unfold file_header_size; lia).
  destruct (lenN b <? file_header_size); [repeat constructor; assumption|].
  destruct (slice b 0 file_header_size) as [hb| | |] eqn:E1; cbn [bind snd]; try (repeat constructor; assumption).
  pose proof (slice_bytes _ _ _ _ B E1) as Bh.
  destruct (fhdr_deserialize hb) as [h| | |] eqn:E2; cbn [snd]; try (repeat constructor; assumption).
  pose proof (fhdr_namelen_bound _ _ Bh E2) as Hn.
  assert (A1 : alloc_ok (lenN b) (ABuf (fh_namelen h)) = true) by (apply alloc_ok_buf_small; assumption).
  destruct ((fh_version h =? version3) && (0 <? fh_namelen h)); [|repeat constructor; assumption].
  destruct (lenN b - file_header_size <? fh_namelen h); [repeat constructor; assumption|].
  destruct (slice b file_header_size (file_header_size + fh_namelen h)); cbn [snd]; repeat constructor; assumption.
Qed.

(* C04_alloc_bounded (repaired code): every allocation request made while loading ANY byte
   string b is at most 65535 (range of a uint16 field) or at most 22 x |b|. *)
Theorem read_file_alloc_bounded pol b :
  p_bound_first pol = true -> p_sn_bound pol = true -> is_bytes b ->
  allocs_ok (lenN b) (snd (read_file_bytes pol b)).
Proof.
  intros Hb Hsn B. unfold read_file_bytes, read_file_fuel.
  pose proof (new_file_reader_allocs b B) as A0.
  destruct (new_file_reader b) as [o log0]. cbn [snd] in A0.
  destruct o as [op| | |]; cbn [snd]; try exact A0.
  destruct (read_blocks_allocs pol (lenN b) (blocks_fuel b) (skipN (data_start_offset (o_hdr op)) b) Hb Hsn
              (is_bytes_skipN _ _ B)) as (A1 & F).
  { pose proof (skipN_length (data_start_offset (o_hdr op)) b). unfold lenN. lia. }
  destruct (read_blocks pol (blocks_fuel b) (skipN (data_start_offset (o_hdr op)) b)) as [r log1].
  cbn [fst snd] in *.
  destruct r; cbn [snd]; try (apply Forall_app; split; assumption).
  apply Forall_app; split; [assumption|]. apply Forall_app; split; [assumption|].
  apply load_allocs_ok, F. reflexivity.
Qed.

(* the code before the two fix: commits: an 80-byte file / an 87-byte file make it request 4 GiB *)
Definition old_policy : policy :=
  {| p_partial_hdr_eof := true; p_nopayload_eof := true; p_shortpayload_eof := false;
     p_bound_first := false; p_sn_bound := false |}.
Definition fixed_policy : policy :=
  {| p_partial_hdr_eof := true; p_nopayload_eof := true; p_shortpayload_eof := true;
     p_bound_first := true; p_sn_bound := true |}.

Definition witness_header : list N :=
  [72;89;68;82; 3;0; 0;0] ++ repeat 0 56.
Definition witness_forged_csize : list N :=            (* block header: CompressedSize = 0xFFFFFFF0 *)
  witness_header ++ [240;255;255;255; 10;0;0;0; 1;0; 0;0;0;0; 0;0].
Definition witness_forged_preamble : list N :=         (* CRC-consistent 7-byte block, snappy preamble 0xFFFFFFFF *)
  witness_header ++ [7;0;0;0; 255;255;255;255; 1;0; 196;201;120;245; 0;0] ++ [255;255;255;255;15;0;65].

Theorem alloc_unbounded_before_fix_csize :
  lenN witness_forged_csize = 80 /\ is_bytes witness_forged_csize /\
  read_file_bytes old_policy witness_forged_csize = (Ok ([], []), [ABuf 64; ABuf 16; ABuf 4294967280]) /\
  snd (read_file_bytes fixed_policy witness_forged_csize) = [ABuf 64; ABuf 16].
Proof.
  split; [vm_compute; reflexivity|]. split; [unfold is_bytes; repeat constructor|].
  split; vm_compute; reflexivity.
Qed.

Theorem alloc_unbounded_before_fix_preamble :
  lenN witness_forged_preamble = 87 /\
  read_file_bytes old_policy witness_forged_preamble =
    (Err ECorrupt, [ABuf 64; ABuf 16; ABuf 7; ABuf 4294967295]) /\
  read_file_bytes fixed_policy witness_forged_preamble = (Err ECorrupt, [ABuf 64; ABuf 16; ABuf 7]).
Proof. repeat split; vm_compute; reflexivity. Qed.

(* ---- accepted blocks are checked ----------------------------------------------------------------------------- *)

Record cblock := { cb_hdr : list N; cb_comp : list N; cb_entries : list entry }.

(* what "a block of the file checks out" means, independent of the reader loop *)
Definition block_checked (b : cblock) : Prop :=
  lenN (cb_hdr b) = 16 /\
  exists h unc,
    bhdr_deserialize (cb_hdr b) = Ok h /\
    lenN (cb_comp b) = bh_csize h /\                         (* payload completely present *)
    crc32 (cb_comp b) = bh_crc h /\                          (* CRC-32 over the compressed bytes matches *)
    snappy_decode (cb_comp b) = SnOk unc /\                  (* decompression succeeds ... *)
    lenN unc = bh_usize h /\                                 (* ... with the declared length *)
    parse_entries (N.to_nat (bh_count h)) unc 0 = Ok (cb_entries b).   (* EntryCount entries parse *)

Definition cb_bytes (b : cblock) : list N := cb_hdr b ++ cb_comp b.

(* a tail that cannot hold a complete block *)
Definition incomplete_tail (tail : list N) : Prop :=
  lenN tail < 16 \/
  exists h, bhdr_deserialize (firstn 16 tail) = Ok h /\ lenN tail - 16 < bh_csize h.

Lemma parse_block_ok pol h comp es :
  fst (parse_block pol h comp) = Ok es ->
  crc32 comp = bh_crc h /\ exists unc, snappy_decode comp = SnOk unc /\ lenN unc = bh_usize h /\
  parse_entries (N.to_nat (bh_count h)) unc 0 = Ok es.
Proof.
  unfold parse_block.
  destruct (negb (crc32 comp =? bh_crc h)) eqn:C; [discriminate|].
  apply negb_false_iff, N.eqb_eq in C.
  destruct (sn_decoded_len comp) as [[dl body]|]; [|discriminate].
  destruct (p_sn_bound pol && _); [discriminate|].
  destruct (snappy_decode comp) as [unc| | |]; cbn [sn_to_res fst]; try discriminate.
  destruct (negb (lenN unc =? bh_usize h)) eqn:C3; [discriminate|].
  apply negb_false_iff, N.eqb_eq in C3.
  destruct (parse_entries (N.to_nat (bh_count h)) unc 0) eqn:P; cbn [fst]; try discriminate.
  intros E; inversion E; subst. split; [assumption|]. exists unc. auto.
Qed.

Lemma skipn_skipn' {A} x y : forall l : list A, skipn x (skipn y l) = skipn (x + y) l.
Proof.
  induction y as [|y IH]; intros l.
  - rewrite skipn_O. f_equal. lia.
  - destruct l as [|a l]; [rewrite !skipn_nil; reflexivity|].
    replace (x + S y)%nat with (S (x + y)) by lia. rewrite !skipn_cons. apply IH.
Qed.

Lemma split3 (rest : list N) (c : nat) :
  rest = firstn 16 rest ++ firstn c (skipn 16 rest) ++ skipn (c + 16) rest.
Proof.
  rewrite <- skipn_skipn'. rewrite firstn_skipn. rewrite firstn_skipn. reflexivity.
Qed.

Lemma next_block_ne_block pol rest es rest' :
  fst (next_block_ne pol rest) = StBlock es rest' ->
  exists b, block_checked b /\ cb_entries b = es /\ rest = cb_bytes b ++ rest'.
Proof.
  unfold next_block_ne. cbv zeta.
  destruct (lenN rest <? block_header_size) eqn:L.
  { intros E. exfalso. eapply tail_class_not_block, E. }
  apply N.ltb_ge in L. unfold block_header_size in *.
  destruct (slice_ok rest 0 16) as (hb & -> & Lh & Eh); try lia. cbn [bind].
  destruct (bhdr_deserialize_ok hb) as (h & E2); [unfold block_header_size; lia|]. rewrite E2.
  destruct (lenN rest - 16 <? bh_csize h) eqn:S.
  { destruct (p_bound_first pol); cbn [andb fst]; intros E; exfalso; eapply tail_class_not_block, E. }
  rewrite andb_false_r. apply N.ltb_ge in S.
  destruct (slice_ok rest 16 (16 + bh_csize h)) as (comp & -> & Lc & Ec); try lia.
  pose proof (parse_block_ok pol h comp) as P.
  destruct (parse_block pol h comp) as [r plog]. cbn [fst] in *.
  destruct r; cbn [fst]; try discriminate.
  intros E; inversion E; subst a rest'. clear E.
  destruct (P es eq_refl) as (P1 & unc & P2 & P3 & P4).
  exists {| cb_hdr := hb; cb_comp := comp; cb_entries := es |}.
  split; [|split; [reflexivity|]].
  - split; [exact Lh|]. exists h, unc. cbn [cb_hdr cb_comp cb_entries].
    repeat split; try assumption. lia.
  - unfold cb_bytes. cbn [cb_hdr cb_comp]. rewrite <- app_assoc.
    rewrite Eh, Ec.
    change (N.to_nat 0) with 0%nat. rewrite skipn_O.
    change (N.to_nat (16 - 0)) with 16%nat. change (N.to_nat 16) with 16%nat.
    replace (N.to_nat (16 + bh_csize h - 16)) with (N.to_nat (bh_csize h)) by lia.
    replace (N.to_nat (16 + bh_csize h)) with (N.to_nat (bh_csize h) + 16)%nat by lia.
    apply split3.
Qed.

Lemma next_block_ne_eof pol rest : fst (next_block_ne pol rest) = StEOF -> incomplete_tail rest.
Proof.
  unfold next_block_ne. cbv zeta.
  destruct (lenN rest <? block_header_size) eqn:L.
  { intros _. left. apply N.ltb_lt in L. exact L. }
  apply N.ltb_ge in L. unfold block_header_size in *.
  destruct (slice_ok rest 0 16) as (hb & -> & Lh & Eh); try lia. cbn [bind].
  destruct (bhdr_deserialize_ok hb) as (h & E2); [unfold block_header_size; lia|]. rewrite E2.
  destruct (lenN rest - 16 <? bh_csize h) eqn:S.
  { intros _. right. exists h. apply N.ltb_lt in S. split; [|exact S].
    rewrite <- E2, Eh. change (N.to_nat 0) with 0%nat. rewrite skipn_O. reflexivity. }
  rewrite andb_false_r. apply N.ltb_ge in S.
  destruct (slice_ok rest 16 (16 + bh_csize h)) as (comp & -> & Lc & Ec); try lia.
  destruct (parse_block pol h comp) as [r plog]. destruct r; cbn [fst]; discriminate.
Qed.

Theorem read_blocks_checked pol fuel : forall rest es,
  fst (read_blocks pol fuel rest) = Ok es ->
  exists blocks tail,
    rest = concat (map cb_bytes blocks) ++ tail /\
    Forall block_checked blocks /\
    es = concat (map cb_entries blocks) /\
    incomplete_tail tail.
Proof.
  induction fuel as [|f IH]; intros rest es; cbn [read_blocks]; [discriminate|].
  destruct (next_block pol rest) as [st log] eqn:NB.
  assert (fst (next_block pol rest) = st) as NB' by (rewrite NB; reflexivity). clear NB.
  destruct st; cbn [fst]; try discriminate.
  - intros E; inversion E; subst. exists [], rest.
    split; [reflexivity|]. split; [constructor|]. split; [reflexivity|].
    unfold next_block in NB'. destruct rest; [left; unfold lenN; simpl; lia|].
    apply (next_block_ne_eof pol), NB'.
  - specialize (IH rest').
    destruct (read_blocks pol f rest') as [r log']. cbn [fst] in *.
    destruct r; cbn [bind]; try discriminate.
    intros E; inversion E; subst. clear E.
    destruct (IH a eq_refl) as (blocks & tail & R1 & R2 & R3 & R4).
    unfold next_block in NB'. destruct rest as [|r0 rest0]; [discriminate|].
    destruct (next_block_ne_block pol _ _ _ NB') as (b & B1 & B2 & B3).
    exists (b :: blocks), tail. repeat split.
    + rewrite B3. cbn [map concat]. rewrite <- app_assoc. f_equal. exact R1.
    + constructor; assumption.
    + cbn [map concat]. rewrite B2, R3. reflexivity.
    + exact R4.
Qed.

(* C04_accepted_blocks_are_checked: whenever NewFileReader+LoadIndex returns an index for a
   byte string, the header stage accepted it, the block area is a sequence of blocks each of
   which checks out (complete payload, matching CRC-32, successful decompression to the declared
   length, EntryCount parsable entries) followed only by a tail too short to hold a block, and the
   index is exactly the last-writer-wins fold of those blocks' entries. *)
Theorem read_file_checked pol b idx name :
  fst (read_file_bytes pol b) = Ok (idx, name) ->
  exists op blocks tail,
    fst (new_file_reader b) = Ok op /\
    skipN (data_start_offset (o_hdr op)) b = concat (map cb_bytes blocks) ++ tail /\
    Forall block_checked blocks /\
    incomplete_tail tail /\
    (idx, name) = apply_entries (o_name op) (concat (map cb_entries blocks)).
Proof.
  unfold read_file_bytes, read_file_fuel.
  destruct (new_file_reader b) as [o log0]. destruct o as [op| | |]; cbn [fst]; try discriminate.
  pose proof (read_blocks_checked pol (blocks_fuel b) (skipN (data_start_offset (o_hdr op)) b)) as R.
  destruct (read_blocks pol (blocks_fuel b) (skipN (data_start_offset (o_hdr op)) b)) as [r log1].
  cbn [fst] in R. destruct r; cbn [fst]; try discriminate.
  intros E; inversion E as [E']. clear E.
  destruct (R a eq_refl) as (blocks & tail & R1 & R2 & R3 & R4).
  exists op, blocks, tail. subst a. rewrite E'. repeat split; assumption.
Qed.

(* ---- the hypotheses of the theorems are satisfiable: a file written by the real FileWriter
   (3 entries in one block whose Snappy stream contains a copy element) ------------------------------- *)

Definition example_file : list N :=
  [72;89;68;82;3;0;0;0;31;142;88;197;127;128;215;24;31;142;88;197;127;128;215;24;0;64;0;0;3;0;0;0;0;0;0;0;1;0;0;0;
   0;0;0;0;0;0;0;0;0;0;0;0;0;0;0;0;0;0;0;0;0;0;0;0;36;0;0;0;58;0;0;0;3;0;205;73;85;136;0;0;58;80;3;2;0;107;107;0;0;0;
   0;1;1;0;107;32;0;0;0;97;98;99;100;110;4;0;32;1;1;0;97;1;0;0;0;118].

Example example_file_loads :
  is_bytes example_file /\
  fst (read_file_bytes fixed_policy example_file) =
    Ok ([([97], [118]);
         ([107], [97;98;99;100;97;98;99;100;97;98;99;100;97;98;99;100;97;98;99;100;97;98;99;100;97;98;99;100;97;98;99;100])],
        []) /\
  snd (read_file_bytes fixed_policy example_file) =
    [ABuf 64; ABuf 16; ABuf 36; ABuf 58; AEntries 3; ABuf 2; ABuf 0; ABuf 1; ABuf 32; ABuf 1; ABuf 1; ABuf 16; ABuf 32; ABuf 1] /\
  scan_block_headers example_file = Ok (1, 3, 58).
Proof.
  split; [unfold is_bytes, example_file; repeat constructor|].
  repeat split; vm_compute; reflexivity.
Qed.

(* one flipped payload bit of that file is reported, not decoded *)
Example example_file_bitflip_detected :
  fst (read_file_bytes fixed_policy (firstn 100 example_file ++ [99] ++ skipn 101 example_file)) = Err ECorrupt.
Proof. vm_compute. reflexivity. Qed.

(* ---- truncation ------------------------------------------------------------------------------ *)

Definition block_accepted (pol : policy) (b : cblock) : Prop :=
  lenN (cb_hdr b) = 16 /\
  exists h, bhdr_deserialize (cb_hdr b) = Ok h /\ lenN (cb_comp b) = bh_csize h /\
            fst (parse_block pol h (cb_comp b)) = Ok (cb_entries b).

Definition eofish (s : step) : Prop := s = StEOF \/ s = StErr EShort.

Lemma tail_class_eofish b : eofish (tail_class b).
Proof. destruct b; [left|right]; reflexivity. Qed.

Lemma firstn_len_app {A} (a b : list A) : firstn (length a) (a ++ b) = a.
Proof. induction a as [|x a IH]; [apply firstn_O|]. simpl length. simpl app. rewrite firstn_cons, IH. reflexivity. Qed.

Lemma skipn_len_app {A} (a b : list A) : skipn (length a) (a ++ b) = b.
Proof. induction a as [|x a IH]; [apply skipn_O|]. simpl length. simpl app. rewrite skipn_cons. exact IH. Qed.

Lemma firstn_app_ge {A} (a b : list A) m : (length a <= m)%nat -> firstn m (a ++ b) = a ++ firstn (m - length a) b.
Proof.
  revert m. induction a as [|x a IH]; intros m H; simpl length in *; simpl app.
  - f_equal. lia.
  - destruct m; [lia|]. rewrite firstn_cons. f_equal. rewrite IH by lia. f_equal.
Qed.

Lemma firstn_app_lt {A} (a b : list A) m : (m <= length a)%nat -> firstn m (a ++ b) = firstn m a.
Proof.
  revert m. induction a as [|x a IH]; intros m H; simpl length in *; simpl app.
  - replace m with 0%nat by lia. rewrite !firstn_O. reflexivity.
  - destruct m; [rewrite !firstn_O; reflexivity|]. rewrite !firstn_cons. f_equal. apply IH. lia.
Qed.

Lemma firstn_firstn_le {A} (l : list A) a b : (a <= b)%nat -> firstn a (firstn b l) = firstn a l.
Proof.
  revert a b. induction l as [|x l IH]; intros a b H; [rewrite !firstn_nil; reflexivity|].
  destruct a; [rewrite !firstn_O; reflexivity|]. destruct b; [lia|].
  rewrite !firstn_cons. f_equal. apply IH. lia.
Qed.

(* the reader's view of a complete accepted block followed by anything *)
Lemma next_block_accepted pol b X :
  block_accepted pol b -> fst (next_block pol (cb_bytes b ++ X)) = StBlock (cb_entries b) X.
Proof.
  intros (Lh & h & E2 & Lc & P). unfold cb_bytes. rewrite <- app_assoc.
  set (hb := cb_hdr b) in *. set (comp := cb_comp b) in *.
  assert (length hb = 16%nat) as Lh' by (unfold lenN in Lh; lia).
  unfold next_block. destruct (hb ++ comp ++ X) as [|r0 r1] eqn:ER.
  { destruct hb; simpl in *; [lia|discriminate]. }
  rewrite <- ER. clear ER r0 r1.
  unfold next_block_ne. cbv zeta.
  assert (lenN (hb ++ comp ++ X) = 16 + bh_csize h + lenN X) as LR by (rewrite !lenN_app; lia).
  destruct (lenN (hb ++ comp ++ X) <? block_header_size) eqn:L.
  { apply N.ltb_lt in L. unfold block_header_size in L. lia. }
  unfold block_header_size in *.
  destruct (slice_ok (hb ++ comp ++ X) 0 16) as (s & -> & _ & Es); try lia.
  change (N.to_nat 0) with 0%nat in Es. rewrite skipn_O in Es.
  change (N.to_nat (16 - 0)) with 16%nat in Es. rewrite <- Lh', firstn_len_app in Es. subst s.
  cbn [bind]. rewrite E2.
  destruct (lenN (hb ++ comp ++ X) - 16 <? bh_csize h) eqn:S.
  { apply N.ltb_lt in S. lia. }
  rewrite andb_false_r.
  destruct (slice_ok (hb ++ comp ++ X) 16 (16 + bh_csize h)) as (s & -> & _ & Es); try lia.
  change (N.to_nat 16) with 16%nat in Es. rewrite <- Lh', skipn_len_app in Es.
  replace (N.to_nat (16 + bh_csize h - 16)) with (length comp) in Es by (unfold lenN in Lc; lia).
  rewrite firstn_len_app in Es. subst s.
  destruct (parse_block pol h comp) as [r plog]. cbn [fst] in P. subst r. cbn [fst].
  f_equal.
  replace (N.to_nat (16 + bh_csize h)) with (length comp + length hb)%nat by (unfold lenN in Lc; lia).
  rewrite <- skipn_skipn'. rewrite skipn_len_app. apply skipn_len_app.
Qed.

(* ... and of a proper prefix of it *)
Lemma next_block_partial pol b m :
  block_accepted pol b -> (m < length (cb_bytes b))%nat ->
  eofish (fst (next_block pol (firstn m (cb_bytes b)))).
Proof.
  intros (Lh & h & E2 & Lc & P) Hm. unfold cb_bytes in *.
  set (hb := cb_hdr b) in *. set (comp := cb_comp b) in *.
  assert (length hb = 16%nat) as Lh' by (unfold lenN in Lh; lia).
  rewrite app_length in Hm.
  unfold next_block. destruct (firstn m (hb ++ comp)) as [|r0 r1] eqn:ER; [left; reflexivity|].
  rewrite <- ER. clear ER r0 r1.
  assert (lenN (firstn m (hb ++ comp)) = N.of_nat m) as LR.
  { unfold lenN. rewrite firstn_length, app_length. lia. }
  unfold next_block_ne. cbv zeta.
  destruct (lenN (firstn m (hb ++ comp)) <? block_header_size) eqn:L; [apply tail_class_eofish|].
  apply N.ltb_ge in L. unfold block_header_size in *.
  destruct (slice_ok (firstn m (hb ++ comp)) 0 16) as (s & -> & _ & Es); try lia.
  change (N.to_nat 0) with 0%nat in Es. rewrite skipn_O in Es.
  change (N.to_nat (16 - 0)) with 16%nat in Es.
  rewrite firstn_firstn_le in Es by lia. rewrite <- Lh', firstn_len_app in Es. subst s.
  cbn [bind]. rewrite E2.
  destruct (lenN (firstn m (hb ++ comp)) - 16 <? bh_csize h) eqn:S.
  - destruct (p_bound_first pol); cbn [andb fst]; apply tail_class_eofish.
  - apply N.ltb_ge in S. unfold lenN in Lc. lia.
Qed.

Lemma next_block_incomplete pol t j :
  incomplete_tail t -> eofish (fst (next_block pol (firstn j t))).
Proof.
  intros IT. unfold next_block.
  destruct (firstn j t) as [|r0 r1] eqn:ER; [left; reflexivity|]. rewrite <- ER. clear ER r0 r1.
  unfold next_block_ne. cbv zeta.
  destruct (lenN (firstn j t) <? block_header_size) eqn:L; [apply tail_class_eofish|].
  apply N.ltb_ge in L. unfold block_header_size in *.
  assert (lenN (firstn j t) <= lenN t) as LT by (unfold lenN; rewrite firstn_length; lia).
  assert (16 <= j)%nat as Hj by (unfold lenN in L; rewrite firstn_length in L; lia).
  destruct IT as [IT|(h & E2 & Sh)]; [lia|].
  destruct (slice_ok (firstn j t) 0 16) as (s & -> & _ & Es); try lia.
  change (N.to_nat 0) with 0%nat in Es. rewrite skipn_O in Es.
  change (N.to_nat (16 - 0)) with 16%nat in Es.
  rewrite firstn_firstn_le in Es by lia. subst s. cbn [bind]. rewrite E2.
  destruct (lenN (firstn j t) - 16 <? bh_csize h) eqn:S.
  - destruct (p_bound_first pol); cbn [andb fst]; apply tail_class_eofish.
  - apply N.ltb_ge in S. lia.
Qed.

Lemma cb_bytes_len pol b : block_accepted pol b -> (16 <= length (cb_bytes b))%nat.
Proof. intros (Lh & _). unfold cb_bytes. rewrite app_length. unfold lenN in Lh. lia. Qed.

Lemma read_blocks_eofish pol f rest :
  eofish (fst (next_block pol rest)) ->
  fst (read_blocks pol (S f) rest) = Ok [] \/ fst (read_blocks pol (S f) rest) = Err EShort.
Proof.
  intros E. cbn [read_blocks]. destruct (next_block pol rest) as [st log]. cbn [fst] in E.
  destruct E as [-> | ->]; [left|right]; reflexivity.
Qed.

(* reading any prefix of (accepted blocks ++ incomplete tail): EShort or the entries of the
   first k blocks *)
Lemma read_blocks_prefix pol tail : incomplete_tail tail ->
  forall blocks, Forall (block_accepted pol) blocks ->
  forall m fuel,
    (length (firstn m (concat (map cb_bytes blocks) ++ tail)) < 16 * fuel)%nat ->
    let r := fst (read_blocks pol fuel (firstn m (concat (map cb_bytes blocks) ++ tail))) in
    r = Err EShort \/ exists k, r = Ok (concat (map cb_entries (firstn k blocks))).
Proof.
  intros IT blocks F. induction F as [|b bs Hb _ IH]; intros m fuel Hf r; subst r.
  - cbn [map concat app] in *. destruct fuel as [|f]; [lia|].
    destruct (read_blocks_eofish pol f (firstn m tail) (next_block_incomplete pol tail m IT)) as [-> | ->];
      [right; exists 0%nat; reflexivity|left; reflexivity].
  - cbn [map concat] in *. rewrite <- app_assoc in *.
    pose proof (cb_bytes_len pol b Hb) as L16.
    destruct fuel as [|f]; [lia|].
    destruct (Nat.lt_ge_cases m (length (cb_bytes b))) as [Hm|Hm].
    + rewrite firstn_app_lt by lia.
      destruct (read_blocks_eofish pol f _ (next_block_partial pol b m Hb Hm)) as [-> | ->];
        [right; exists 0%nat; reflexivity|left; reflexivity].
    + rewrite firstn_app_ge in * by lia.
      cbn [read_blocks].
      pose proof (next_block_accepted pol b (firstn (m - length (cb_bytes b)) (concat (map cb_bytes bs) ++ tail)) Hb) as NB.
      destruct (next_block pol _) as [st log]. cbn [fst] in NB. subst st.
      specialize (IH (m - length (cb_bytes b))%nat f).
      rewrite app_length in Hf.
      destruct (read_blocks pol f _) as [r log']. cbn [fst] in *.
      destruct IH as [-> | (k & ->)]; [lia|left; reflexivity|].
      right. exists (S k). rewrite firstn_cons. reflexivity.
Qed.

Lemma next_block_ne_block_acc pol rest es rest' :
  fst (next_block_ne pol rest) = StBlock es rest' ->
  exists b, block_accepted pol b /\ cb_entries b = es /\ rest = cb_bytes b ++ rest'.
Proof.
  unfold next_block_ne. cbv zeta.
  destruct (lenN rest <? block_header_size) eqn:L.
  { intros E. exfalso. eapply tail_class_not_block, E. }
  apply N.ltb_ge in L. unfold block_header_size in *.
  destruct (slice_ok rest 0 16) as (hb & -> & Lh & Eh); try lia. cbn [bind].
  destruct (bhdr_deserialize_ok hb) as (h & E2); [unfold block_header_size; lia|]. rewrite E2.
  destruct (lenN rest - 16 <? bh_csize h) eqn:S.
  { destruct (p_bound_first pol); cbn [andb fst]; intros E; exfalso; eapply tail_class_not_block, E. }
  rewrite andb_false_r. apply N.ltb_ge in S.
  destruct (slice_ok rest 16 (16 + bh_csize h)) as (comp & -> & Lc & Ec); try lia.
  destruct (parse_block pol h comp) as [r plog] eqn:P.
  destruct r; cbn [fst]; try discriminate.
  intros E; inversion E; subst a rest'. clear E.
  exists {| cb_hdr := hb; cb_comp := comp; cb_entries := es |}.
  split; [|split; [reflexivity|]].
  - split; [exact Lh|]. exists h. cbn [cb_hdr cb_comp cb_entries].
    repeat split; try assumption; [lia|rewrite P; reflexivity].
  - unfold cb_bytes. cbn [cb_hdr cb_comp]. rewrite <- app_assoc.
    rewrite Eh, Ec.
    change (N.to_nat 0) with 0%nat. rewrite skipn_O.
    change (N.to_nat (16 - 0)) with 16%nat. change (N.to_nat 16) with 16%nat.
    replace (N.to_nat (16 + bh_csize h - 16)) with (N.to_nat (bh_csize h)) by lia.
    replace (N.to_nat (16 + bh_csize h)) with (N.to_nat (bh_csize h) + 16)%nat by lia.
    apply split3.
Qed.

Lemma read_blocks_accepted pol fuel : forall rest es,
  fst (read_blocks pol fuel rest) = Ok es ->
  exists blocks tail,
    rest = concat (map cb_bytes blocks) ++ tail /\
    Forall (block_accepted pol) blocks /\
    es = concat (map cb_entries blocks) /\
    incomplete_tail tail.
Proof.
  induction fuel as [|f IH]; intros rest es; cbn [read_blocks]; [discriminate|].
  destruct (next_block pol rest) as [st log] eqn:NB.
  assert (fst (next_block pol rest) = st) as NB' by (rewrite NB; reflexivity). clear NB.
  destruct st; cbn [fst]; try discriminate.
  - intros E; inversion E; subst. exists [], rest.
    split; [reflexivity|]. split; [constructor|]. split; [reflexivity|].
    unfold next_block in NB'. destruct rest; [left; unfold lenN; simpl; lia|].
    apply (next_block_ne_eof pol), NB'.
  - specialize (IH rest').
    destruct (read_blocks pol f rest') as [r log']. cbn [fst] in *.
    destruct r; cbn [bind]; try discriminate.
    intros E; inversion E; subst. clear E.
    destruct (IH a eq_refl) as (blocks & tail & R1 & R2 & R3 & R4).
    unfold next_block in NB'. destruct rest as [|r0 rest0]; [discriminate|].
    destruct (next_block_ne_block_acc pol _ _ _ NB') as (b & B1 & B2 & B3).
    exists (b :: blocks), tail. repeat split.
    + rewrite B3. cbn [map concat]. rewrite <- app_assoc. f_equal. exact R1.
    + constructor; assumption.
    + cbn [map concat]. rewrite B2, R3. reflexivity.
    + exact R4.
Qed.

Lemma skipn_firstn_comm' {A} m : forall n (l : list A), skipn m (firstn n l) = firstn (n - m) (skipn m l).
Proof.
  induction m as [|m IH]; intros n l.
  - rewrite !skipn_O. f_equal. lia.
  - destruct n; [cbn [Nat.sub]; rewrite ?firstn_O; destruct (S m); [rewrite ?skipn_O|rewrite ?skipn_nil]; reflexivity|].
    destruct l as [|x l]; [rewrite ?skipn_nil, ?firstn_nil, ?skipn_nil; reflexivity|].
    rewrite firstn_cons, !skipn_cons. apply IH.
Qed.

Lemma slice_prefix_eq (f : list N) n lo hi :
  lo <= hi -> hi <= N.of_nat n -> (n <= length f)%nat ->
  slice (firstn n f) lo hi = slice f lo hi.
Proof.
  intros H1 H2 H3.
  destruct (slice_ok (firstn n f) lo hi) as (s & -> & _ & ->); try lia.
  { unfold lenN. rewrite firstn_length. lia. }
  destruct (slice_ok f lo hi) as (s & -> & _ & ->); try lia.
  { unfold lenN. lia. }
  f_equal. rewrite skipn_firstn_comm'. apply firstn_firstn_le. lia.
Qed.

Lemma nfr_prefix f op n :
  fst (new_file_reader f) = Ok op -> (n < length f)%nat ->
  fst (new_file_reader (firstn n f)) = Err EShort \/
  (fst (new_file_reader (firstn n f)) = Ok op /\ data_start_offset (o_hdr op) <= N.of_nat n).
Proof.
  intros H Hn. unfold new_file_reader in *. cbv zeta in *. unfold file_header_size in *.
  assert (lenN (firstn n f) = N.of_nat n) as Ln by (unfold lenN; rewrite firstn_length; lia).
  destruct (lenN f <? 64) eqn:Lf; [discriminate|].
  destruct (lenN (firstn n f) <? 64) eqn:Lf'; [left; reflexivity|].
  apply N.ltb_ge in Lf, Lf'.
  rewrite (slice_prefix_eq f n 0 64) by lia.
  destruct (slice f 0 64) as [hb| | |]; cbn [bind fst] in *; try discriminate.
  destruct (fhdr_deserialize hb) as [h| | |]; cbn [fst] in *; try discriminate.
  unfold data_start_offset, file_header_size.
  destruct ((fh_version h =? version3) && (0 <? fh_namelen h)) eqn:C.
  - apply andb_true_iff in C as [C1 C2].
    destruct (lenN f - 64 <? fh_namelen h) eqn:Sf; [discriminate|].
    destruct (lenN (firstn n f) - 64 <? fh_namelen h) eqn:Sf'; [left; reflexivity|].
    apply N.ltb_ge in Sf, Sf'.
    rewrite (slice_prefix_eq f n 64 (64 + fh_namelen h)) by lia.
    destruct (slice f 64 (64 + fh_namelen h)); cbn [fst] in *; try discriminate.
    right. split; [exact H|]. inversion H; subst. cbn [o_hdr]. rewrite C1. lia.
  - right. split; [exact H|]. cbn [fst] in H. inversion H; subst. cbn [o_hdr].
    apply andb_false_iff in C as [-> | C]; [lia|].
    apply N.ltb_ge in C. destruct (fh_version h =? version3); lia.
Qed.

(* C04_truncation_detected_or_prefix: if the reader accepts f (so f = header [name] blocks tail),
   then for every n, reading the first n bytes of f is an error, or succeeds with the index of
   the first k blocks of f for some k - never with anything else. *)
Theorem read_file_truncation pol f res :
  fst (read_file_bytes pol f) = Ok res ->
  exists op blocks tail,
    fst (new_file_reader f) = Ok op /\
    skipN (data_start_offset (o_hdr op)) f = concat (map cb_bytes blocks) ++ tail /\
    Forall (block_accepted pol) blocks /\ incomplete_tail tail /\
    res = apply_entries (o_name op) (concat (map cb_entries blocks)) /\
    forall n,
      fst (read_file_bytes pol (firstn n f)) = Err EShort \/
      exists k, fst (read_file_bytes pol (firstn n f)) =
                Ok (apply_entries (o_name op) (concat (map cb_entries (firstn k blocks)))).
Proof.
  intros H.
  assert (H0 := H). unfold read_file_bytes, read_file_fuel in H0.
  destruct (new_file_reader f) as [o log0] eqn:NF.
  destruct o as [op| | |]; cbn [fst] in H0; try discriminate.
  pose proof (read_blocks_accepted pol (blocks_fuel f) (skipN (data_start_offset (o_hdr op)) f)) as R.
  destruct (read_blocks pol (blocks_fuel f) (skipN (data_start_offset (o_hdr op)) f)) as [r log1].
  cbn [fst] in R. destruct r; cbn [fst] in H0; try discriminate.
  inversion H0 as [H1]. clear H0.
  destruct (R a eq_refl) as (blocks & tail & R1 & R2 & R3 & R4). subst a.
  exists op, blocks, tail.
  split; [reflexivity|]. split; [exact R1|]. split; [exact R2|]. split; [exact R4|]. split; [first [reflexivity | symmetry; exact H1]|].
  intros n.
  destruct (Nat.le_gt_cases (length f) n) as [Hn|Hn].
  { right. exists (length blocks). rewrite firstn_all2 by exact Hn. rewrite firstn_all. rewrite H, H1. reflexivity. }
  assert (fst (new_file_reader f) = Ok op) as NF' by (rewrite NF; reflexivity).
  destruct (nfr_prefix f op n NF' Hn) as [E|(E & D)].
  { left. unfold read_file_bytes, read_file_fuel.
    destruct (new_file_reader (firstn n f)) as [o' l']. cbn [fst] in E. subst o'. reflexivity. }
  unfold read_file_bytes, read_file_fuel.
  destruct (new_file_reader (firstn n f)) as [o' l']. cbn [fst] in E. subst o'.
  set (dso := data_start_offset (o_hdr op)) in *.
  assert (skipN dso (firstn n f) = firstn (n - N.to_nat dso) (concat (map cb_bytes blocks) ++ tail)) as RS.
  { rewrite <- R1. unfold skipN.
    assert (lenN (firstn n f) = N.of_nat n) as Ln by (unfold lenN; rewrite firstn_length; lia).
    rewrite Ln. unfold lenN.
    destruct (N.of_nat (length f) <=? dso) eqn:C1; [apply N.leb_le in C1; lia|].
    destruct (N.of_nat n <=? dso) eqn:C2.
    - apply N.leb_le in C2. replace (n - N.to_nat dso)%nat with 0%nat by lia. rewrite firstn_O. reflexivity.
    - apply skipn_firstn_comm'. }
  rewrite RS.
  pose proof (read_blocks_prefix pol tail R4 blocks R2 (n - N.to_nat dso) (blocks_fuel (firstn n f))) as P.
  cbv zeta in P.
  destruct (read_blocks pol (blocks_fuel (firstn n f)) _) as [r lg]. cbn [fst] in *.
  destruct P as [-> | (k & ->)].
  - rewrite <- RS. pose proof (skipN_length dso (firstn n f)).
    pose proof (blocks_fuel_enough (firstn n f)). lia.
  - left. reflexivity.
  - right. exists k. reflexivity.
Qed.

(* non-vacuity: the example file is accepted; cut inside its only block it reads as the empty
   prefix (k = 0) under the repaired code's tail policy and as an error under the old one *)
Example example_file_truncated :
  fst (read_file_bytes fixed_policy (firstn 100 example_file)) = Ok ([], []) /\
  fst (read_file_bytes old_policy (firstn 100 example_file)) = Err EShort /\
  fst (read_file_bytes fixed_policy (firstn 70 example_file)) = Ok ([], []) /\
  fst (read_file_bytes fixed_policy (firstn 63 example_file)) = Err EShort.
Proof. repeat split; vm_compute; reflexivity. Qed.
