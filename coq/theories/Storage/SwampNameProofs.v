(* Storage/SwampNameProofs.v — C29: the fast name lookup and the explorer scan return the name a
   file was created with, for V3 and legacy V2 files, after any appends; the listing is exactly
   the set of scanned names. *)
From HV Require Import Base.Prelude Storage.Format Storage.FormatProofs Storage.Lww Storage.LwwProofs
  Storage.Writer Storage.WriterProofs Storage.Reader Storage.ReaderProofs Storage.ReplayProofs
  Storage.SwampName.
From Coq Require Import ZifyN ZifyNat ZifyBool.
Local Open Scope N_scope.

(* ---- the writer only ever appends blocks (generic) -------------------------------------- *)
Section Blocks.
Variables (K D NM : Type).
Variables (klen : K -> N) (dlen : D -> N) (nmlen : NM -> N).
Variable cfits : list (lentry K D) -> bool.
Notation step := (step K D NM klen dlen nmlen cfits true).
Notation run := (run K D NM klen dlen nmlen cfits true).
Notation flush := (flush K D NM cfits true).

Lemma flush_blocks f w f' w' r :
  flush f w = (f', w', r) -> exists extra, f_blocks f' = f_blocks f ++ extra.
Proof.
  unfold Writer.flush. destruct (w_buf w) as [|e b].
  - intro H; inversion H; subst. exists []. now rewrite app_nil_r.
  - destruct (true && negb (block_ok K D cfits (e :: b))).
    + intro H; inversion H; subst. exists []. now rewrite app_nil_r.
    + intro H; inversion H; subst. cbn. eauto.
Qed.

Lemma step_blocks st op f :
  s_file st = Some f ->
  exists f' extra, s_file (fst (step st op)) = Some f' /\ f_blocks f' = f_blocks f ++ extra.
Proof.
  destruct st as [[f0|] [w|]]; cbn [s_file s_w]; intro H; inversion H; subst;
  destruct op as [nm|e fl| | |]; cbn [Writer.step s_file s_w fst andb];
  try (exists f, []; split; [reflexivity | now rewrite app_nil_r]).
  - destruct (negb (encodable K D klen dlen e)); [exists f, []; split; [reflexivity | now rewrite app_nil_r]|].
    destruct (fl || _).
    + destruct (flush f _) as [[f' w'] r] eqn:Efl. cbn.
      apply flush_blocks in Efl as [extra He]. eauto.
    + cbn. exists f, []. split; [reflexivity | now rewrite app_nil_r].
  - destruct (flush f w) as [[f' w'] r] eqn:Efl. cbn. apply flush_blocks in Efl as [extra He]. eauto.
  - destruct (flush f w) as [[f' w'] r] eqn:Efl. cbn. apply flush_blocks in Efl as [extra He]. eauto.
  - destruct (flush f w) as [[f' w'] r] eqn:Efl. cbn. apply flush_blocks in Efl as [extra He]. eauto.
Qed.

Lemma run_blocks ops : forall st f,
  s_file st = Some f ->
  exists f' extra, s_file (fst (run st ops)) = Some f' /\ f_blocks f' = f_blocks f ++ extra.
Proof.
  induction ops as [|op ops IH]; intros st f Hf.
  - cbn. exists f, []. split; [exact Hf | now rewrite app_nil_r].
  - cbn [Writer.run]. destruct (step st op) as [st1 r] eqn:E1.
    destruct (run st1 ops) as [st2 rs2] eqn:E2. cbn [fst].
    destruct (step_blocks st op f Hf) as (f1 & ex1 & Hf1 & Hb1). rewrite E1 in Hf1. cbn [fst] in Hf1.
    destruct (IH st1 f1 Hf1) as (f2 & ex2 & Hf2 & Hb2). rewrite E2 in Hf2. cbn [fst] in Hf2.
    exists f2, (ex1 ++ ex2). split; [exact Hf2|]. now rewrite Hb2, Hb1, app_assoc.
Qed.
End Blocks.

(* ---- byte level -------------------------------------------------------------------------- *)
Section NameProofs.
Variable compress : list N -> list N.
Variable decompress : list N -> option (list N).
Variable crc : list N -> N.
Hypothesis decompress_compress : forall x, decompress (compress x) = Some x.

Notation bent := (lentry (list N) (list N)).
Notation bfile := (lfile (list N) (list N) (list N)).
Notation cfits := (Reader.cfits compress).
Notation wf_block := (wf_block (list N) (list N) nlen nlen cfits).
Notation wf_file := (wf_file (list N) (list N) (list N) nlen nlen cfits).
Notation render := (render compress crc).
Notation render_block := (render_block compress crc).
Notation read_swamp_name := (read_swamp_name decompress crc).
Notation read_prefix := (read_prefix decompress crc).
Notation scan_name := (scan_name decompress crc).
Notation scan_file := (scan_file decompress crc).
Notation scan_directory := (scan_directory decompress crc).

Definition entries_of (f : bfile) : list entry := concat (map (map to_entry) (f_blocks f)).

(* V3: the name after the header, whatever the blocks are (no block is looked at) *)
Theorem read_swamp_name_v3 hm f :
  f_ver f = Version3 -> nlen (f_name f) < two16 ->
  read_swamp_name (render hm f) = Some (f_name f).
Proof.
  intros Hv Hn. unfold SwampName.read_swamp_name.
  rewrite (open_reader_render compress decompress crc decompress_compress hm f) by (right; auto).
  rewrite seen_ver, Hv. cbn. unfold stored_name. now rewrite Hv.
Qed.

(* V2: the metadata-entry fallback of LoadIndex *)
Theorem read_swamp_name_v2 hm f :
  f_ver f = Version2 -> wf_file f ->
  read_swamp_name (render hm f) = Some (meta_name (entries_of f)).
Proof.
  intros Hv Hwf. unfold SwampName.read_swamp_name.
  rewrite (open_reader_render compress decompress crc decompress_compress hm f) by (left; auto).
  rewrite seen_ver, Hv. cbn [N.eqb Version2 Version3 Pos.eqb].
  rewrite (load_index_render compress decompress crc decompress_compress hm f) by (auto; left; auto).
  unfold stored_name. rewrite Hv. reflexivity.
Qed.

Lemma meta_name_app a b : meta_name a <> [] -> meta_name (a ++ b) = meta_name a.
Proof.
  induction a as [|e a IH]; cbn [meta_name app]; [intro H; now contradiction H|].
  destruct (_ && _ && _); [reflexivity | exact IH].
Qed.

Lemma scan_meta_app a b : scan_meta a <> [] -> scan_meta (a ++ b) = scan_meta a.
Proof.
  induction a as [|e a IH]; cbn [scan_meta app]; [intro H; now contradiction H|].
  destruct (_ && _); [reflexivity | exact IH].
Qed.

(* read_prefix reads back every block of a well-formed file *)
Lemma read_prefix_render bs :
  Forall wf_block bs -> forall fuel, (length bs < fuel)%nat ->
  read_prefix fuel (concat (map render_block bs)) = map (map to_entry) bs.
Proof.
  induction bs as [|b bs IH]; intros Hwf fuel Hfuel.
  - destruct fuel; [lia|]. cbn [map concat SwampName.read_prefix]. now rewrite take16_nil.
  - inversion Hwf as [|? ? Hb Hbs]; subst.
    destruct fuel as [|fu]; [lia|]. cbn [map concat SwampName.read_prefix].
    unfold Reader.render_block at 1. rewrite <- app_assoc.
    rewrite (take_app BlockHeaderSize (ser_bh (block_header compress crc b))) by (now rewrite ser_bh_len).
    rewrite bh_roundtrip_trunc.
    assert (Hc : bh_csize (trunc_bh (block_header compress crc b)) = nlen (block_payload compress b)).
    { destruct Hb as (_ & Hok & _). unfold Writer.block_ok in Hok.
      apply andb_true_iff in Hok as [_ Hfit]. unfold Reader.cfits in Hfit.
      apply andb_true_iff in Hfit as [_ Hfit]. apply N.ltb_lt in Hfit.
      cbn. rewrite N.mod_small; [reflexivity | exact Hfit]. }
    rewrite Hc. rewrite (take_app (nlen (block_payload compress b)) (block_payload compress b)) by reflexivity.
    rewrite (parse_block_render compress decompress crc decompress_compress b Hb).
    rewrite (IH Hbs fu) by (cbn in Hfuel; lia). reflexivity.
Qed.

Lemma skip_to_blocks hm f :
  ver_ok f ->
  skipn (N.to_nat (data_start (seen_header hm f))) (render hm f) = concat (map render_block (f_blocks f)).
Proof.
  intro Hv. unfold Reader.render. rewrite app_assoc.
  set (pre := ser_fh (file_header hm f) ++ _).
  assert (Hpre : N.to_nat (data_start (seen_header hm f)) = length pre).
  { subst pre. rewrite app_length. pose proof (ser_fh_len (file_header hm f)) as Hl.
    unfold nlen in Hl. unfold data_start. rewrite seen_ver, seen_namelen. unfold FileHeaderSize.
    destruct Hv as [Hv|[Hv Hn]]; rewrite Hv; cbn [N.eqb Version2 Version3 Pos.eqb].
    - cbn [length]. lia.
    - rewrite N.mod_small by exact Hn. unfold nlen. lia. }
  rewrite Hpre. apply skipn_len_app.
Qed.

(* the explorer's name: V3 name if non-empty, else the first metadata entry *)
Theorem scan_name_render hm f :
  ver_ok f -> wf_file f ->
  scan_name (render hm f) =
  Some (match stored_name f with [] => scan_meta (entries_of f) | nm => nm end).
Proof.
  intros Hv Hwf. unfold SwampName.scan_name.
  rewrite (open_reader_render compress decompress crc decompress_compress hm f Hv).
  destruct (stored_name f) as [|b nm] eqn:Es; [|reflexivity].
  rewrite (skip_to_blocks hm f Hv).
  rewrite read_prefix_render; [reflexivity | exact Hwf |].
  pose proof (render_blocks_len compress crc (f_blocks f)) as H1.
  unfold Reader.render. rewrite !app_length. lia.
Qed.

(* ---- SplitN(name, "/", 3) --------------------------------------------------------------- *)
Definition slash_free (l : list N) : Prop := ~ In slash l.

Lemma split1_app a r : slash_free a -> split1 (a ++ slash :: r) = Some (a, r).
Proof.
  induction a as [|x a IH]; intro H; cbn [app split1].
  - now rewrite N.eqb_refl.
  - destruct (N.eqb x slash) eqn:E.
    + apply N.eqb_eq in E. exfalso. apply H. now left.
    + rewrite IH; [reflexivity|]. intro Hin. apply H. now right.
Qed.

Theorem split3_parts a b c :
  slash_free a -> slash_free b -> split3 (a ++ slash :: b ++ slash :: c) = Some (a, b, c).
Proof. intros Ha Hb. unfold split3. now rewrite (split1_app a _ Ha), (split1_app b _ Hb). Qed.

Lemma split1_none l : slash_free l -> split1 l = None.
Proof.
  induction l as [|x l IH]; intro H; cbn; [reflexivity|].
  destruct (N.eqb x slash) eqn:E.
  - apply N.eqb_eq in E. exfalso. apply H. now left.
  - rewrite IH; [reflexivity|]. intro Hin. apply H. now right.
Qed.

(* ---- the listing ------------------------------------------------------------------------- *)
Lemma triple_eqb_eq x y : triple_eqb x y = true <-> x = y.
Proof.
  destruct x as [[a b] c], y as [[a' b'] c']. unfold triple_eqb. cbn.
  rewrite !andb_true_iff, !bytes_eqb_eq. split; [intros [[-> ->] ->]; reflexivity | intro H; inversion H; auto].
Qed.

Lemma idx_add_in idx t x : In x (idx_add idx t) <-> In x idx \/ x = t.
Proof.
  unfold idx_add. destruct (existsb (triple_eqb t) idx) eqn:E.
  - split; [now left|]. intros [H|H]; [exact H|]. subst.
    apply existsb_exists in E as (y & Hy & Heq). apply triple_eqb_eq in Heq. now subst.
  - rewrite in_app_iff. cbn. split; intros [H|H]; auto. destruct H as [H|[]]; auto.
Qed.

Lemma nodup_snoc {A} (l : list A) x : NoDup l -> ~ In x l -> NoDup (l ++ [x]).
Proof.
  induction l as [|y l IH]; cbn; intros Hn Hx.
  - constructor; [intros [] | constructor].
  - inversion Hn; subst. constructor.
    + intro Hin. apply in_app_iff in Hin as [H|[H|[]]]; [contradiction|]. subst. apply Hx. now left.
    + apply IH; [assumption|]. intro H. apply Hx. now right.
Qed.

Lemma idx_add_nodup idx t : NoDup idx -> NoDup (idx_add idx t).
Proof.
  intro H. unfold idx_add. destruct (existsb (triple_eqb t) idx) eqn:E; [exact H|].
  apply nodup_snoc; [exact H|]. intro Hx.
  assert (existsb (triple_eqb t) idx = true); [|congruence].
  apply existsb_exists. exists t. split; [exact Hx | now apply triple_eqb_eq].
Qed.

Theorem listing_exact files t :
  (In t (scan_directory files) <-> exists f, In f files /\ scan_file f = Some t) /\
  NoDup (scan_directory files).
Proof.
  unfold SwampName.scan_directory.
  assert (G : forall idx, NoDup idx ->
    (In t (fold_left (fun idx f => match scan_file f with Some t => idx_add idx t | None => idx end) files idx)
       <-> In t idx \/ exists f, In f files /\ scan_file f = Some t) /\
    NoDup (fold_left (fun idx f => match scan_file f with Some t => idx_add idx t | None => idx end) files idx)).
  { induction files as [|f files IH]; intros idx Hnd; cbn [fold_left].
    - split; [|exact Hnd]. split; [now left|]. intros [H|(f & [] & _)]. exact H.
    - destruct (scan_file f) as [x|] eqn:Ef.
      + destruct (IH (idx_add idx x) (idx_add_nodup idx x Hnd)) as [H1 H2]. split; [|exact H2].
        rewrite H1, idx_add_in. split.
        * intros [[H|H]|(g & Hg & Hs)]; auto.
          -- right. exists f. subst. split; [now left | exact Ef].
          -- right. exists g. split; [now right | exact Hs].
        * intros [H|(g & [Hg|Hg] & Hs)]; auto.
          -- subst. rewrite Ef in Hs. inversion Hs. auto.
          -- right. eauto.
      + destruct (IH idx Hnd) as [H1 H2]. split; [|exact H2].
        rewrite H1. split.
        * intros [H|(g & Hg & Hs)]; auto. right. exists g. split; [now right | exact Hs].
        * intros [H|(g & [Hg|Hg] & Hs)]; auto.
          -- subst. rewrite Ef in Hs. discriminate.
          -- right. eauto. }
  destruct (G [] (NoDup_nil _)) as [H1 H2]. split; [|exact H2].
  rewrite H1. split; [intros [[]|H]; exact H | now right].
Qed.

(* after any number of earlier scans of any earlier directory contents, the listing is exactly
   what the LAST scan found: nothing of an earlier scan survives *)
Theorem rescan_exact (history : list (list (list N))) files t :
  (In t (explorer_run decompress crc (history ++ [files])) <->
     exists f, In f files /\ scan_file f = Some t) /\
  NoDup (explorer_run decompress crc (history ++ [files])).
Proof.
  unfold explorer_run. rewrite fold_left_app. cbn [fold_left]. unfold rescan. apply listing_exact.
Qed.

End NameProofs.

(* ---- pagination ---------------------------------------------------------------------------- *)
Lemma skipn_add {A} (a b : nat) (l : list A) : skipn b (skipn a l) = skipn (a + b) l.
Proof.
  revert l; induction a as [|a IH]; intro l; [reflexivity|].
  destruct l as [|x l]; [now destruct b | exact (IH l)].
Qed.

(* consecutive pages tile the listing: nothing is skipped, nothing shown twice *)
Theorem page_tiles {A} (off lim : nat) (l : list A) :
  skipn off l = page off lim l ++ skipn (off + lim) l.
Proof. unfold page. now rewrite <- skipn_add, firstn_skipn. Qed.

Theorem pages_tile {A} (n off lim : nat) (l : list A) :
  skipn off l = pages n off lim l ++ skipn (off + n * lim) l.
Proof.
  revert off; induction n as [|n IH]; intro off; cbn [pages].
  - cbn. now rewrite Nat.add_0_r.
  - rewrite (page_tiles off lim l) at 1. rewrite (IH (off + lim)%nat).
    rewrite app_assoc. f_equal. f_equal. cbn. lia.
Qed.

(* with a positive page size, enough pages from offset 0 give back the whole listing *)
Corollary pages_cover {A} (n lim : nat) (l : list A) :
  (length l <= n * lim)%nat -> pages n 0 lim l = l.
Proof.
  intro H. pose proof (pages_tile n 0 lim l) as T. cbn [skipn plus] in T.
  rewrite (skipn_all2 l) in T by exact H. now rewrite app_nil_r in T.
Qed.
