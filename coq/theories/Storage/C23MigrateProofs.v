(* Storage/C23MigrateProofs.v — theorems about the migration model Storage/C23Migrate.v *)
From HV Require Import Base.Prelude Storage.C03Compact Storage.C03CompactProofs Storage.C23Migrate.
Local Open Scope N_scope.

(* ---- replaying segments ---------------------------------------------------------------------- *)
Definition segs_lookup (k : key) (l : list seg) : option pay := ilookup k (fold_left seg_apply l []).
Definition file_lookup (k : key) (f : vfile) : option pay := segs_lookup k (segs_of f).

Lemma seg_apply_lookup : forall k acc s,
  ilookup k (seg_apply acc s) =
  match ilookup k (seg_apply [] s) with Some v => Some v | None => ilookup k acc end.
Proof.
  intros k acc [k' v'|]; cbn [seg_apply]; [|reflexivity].
  destruct (N.eq_dec k k') as [->|Hne].
  - rewrite !ilookup_iset_same. reflexivity.
  - rewrite !ilookup_iset_other by exact Hne. reflexivity.
Qed.

Lemma fold_seg_lookup : forall l acc k,
  ilookup k (fold_left seg_apply l acc) =
  match ilookup k (fold_left seg_apply l []) with Some v => Some v | None => ilookup k acc end.
Proof.
  induction l as [|s t IH]; intros acc k; [reflexivity|].
  cbn [fold_left]. rewrite (IH (seg_apply acc s)), (IH (seg_apply [] s)).
  destruct (ilookup k (fold_left seg_apply t [])); [reflexivity|].
  apply seg_apply_lookup.
Qed.

Lemma segs_lookup_app : forall k a b,
  segs_lookup k (a ++ b) = match segs_lookup k b with Some v => Some v | None => segs_lookup k a end.
Proof. intros; unfold segs_lookup. rewrite fold_left_app. apply fold_seg_lookup. Qed.

(* files agree on every key they share: implied by "no key in two chunk files" *)
Definition consistent (fs : list vfile) : Prop :=
  forall k f g v w, In f fs -> In g fs -> file_lookup k f = Some v -> file_lookup k g = Some w -> v = w.

Lemma consistent_tail : forall f t, consistent (f :: t) -> consistent t.
Proof. intros f t H k a b v w Ha Hb; apply H; right; assumption. Qed.

Lemma lookup_files : forall fs, consistent fs -> forall k v,
  segs_lookup k (flat_map segs_of fs) = Some v <-> exists f, In f fs /\ file_lookup k f = Some v.
Proof.
  induction fs as [|f t IH]; intros Hc k v.
  - simpl. split; [discriminate | intros [f [[] _]]].
  - cbn [flat_map]. rewrite segs_lookup_app. specialize (IH (consistent_tail _ _ Hc) k).
    destruct (segs_lookup k (flat_map segs_of t)) as [w|] eqn:Et.
    + split.
      * intros E; inversion E; subst w. destruct (proj1 (IH v) eq_refl) as [g [Hg Hl]].
        exists g; split; [right; exact Hg | exact Hl].
      * intros [g [Hg Hl]]. destruct (proj1 (IH w) eq_refl) as [g' [Hg' Hl']].
        f_equal. apply (Hc k g' g w v); [right; exact Hg' | exact Hg | exact Hl' | exact Hl].
    + split.
      * intros E. exists f; split; [left; reflexivity | exact E].
      * intros [g [[<-|Hg] Hl]]; [exact Hl|].
        assert (Some v = None) by (rewrite <- (proj2 (IH v)); [reflexivity | exists g; auto]). discriminate.
Qed.

Lemma lookup_same_members : forall a b,
  (forall f, In f a <-> In f b) -> consistent a ->
  forall k, segs_lookup k (flat_map segs_of a) = segs_lookup k (flat_map segs_of b).
Proof.
  intros a b Hm Hc k.
  assert (Hcb : consistent b).
  { intros k' f g v w Hf Hg; apply Hc; apply Hm; assumption. }
  destruct (segs_lookup k (flat_map segs_of a)) as [v|] eqn:Ea.
  - symmetry. apply (lookup_files b Hcb). apply (lookup_files a Hc) in Ea as [f [Hf Hl]].
    exists f; split; [apply Hm; exact Hf | exact Hl].
  - destruct (segs_lookup k (flat_map segs_of b)) as [v|] eqn:Eb; [|reflexivity].
    apply (lookup_files b Hcb) in Eb as [f [Hf Hl]].
    assert (segs_lookup k (flat_map segs_of a) = Some v) as E
      by (apply (lookup_files a Hc); exists f; split; [apply Hm; exact Hf | exact Hl]).
    congruence.
Qed.

(* ---- folders the migrator accepts ------------------------------------------------------------- *)
Definition clean_file (f : vfile) : Prop :=
  vf_hex f = true /\ exists l, vf_content f = VSegs l /\ existsb seg_bad l = false.
Definition clean (fs : list vfile) : Prop := forall f, In f fs -> clean_file f.

Lemma clean_filter : forall fs, clean fs -> filter vf_hex fs = fs.
Proof.
  induction fs as [|f t IH]; intros Hc; [reflexivity|]. simpl.
  destruct (Hc f (or_introl eq_refl)) as [-> _]. f_equal. apply IH. intros g Hg; apply Hc; right; exact Hg.
Qed.

Lemma clean_readable : forall fs, clean fs ->
  existsb (fun f => match vf_content f with VUnreadable => true | _ => false end) fs = false.
Proof.
  induction fs as [|f t IH]; intros Hc; [reflexivity|]. simpl.
  destruct (Hc f (or_introl eq_refl)) as [_ [l [-> _]]]. simpl. apply IH. intros g Hg; apply Hc; right; exact Hg.
Qed.

Lemma clean_no_bad : forall fs, clean fs -> existsb seg_bad (flat_map segs_of fs) = false.
Proof.
  induction fs as [|f t IH]; intros Hc; [reflexivity|]. cbn [flat_map]. rewrite existsb_app.
  rewrite IH by (intros g Hg; apply Hc; right; exact Hg).
  destruct (Hc f (or_introl eq_refl)) as [_ [l [E Hb]]]. unfold segs_of. rewrite E, Hb. reflexivity.
Qed.

Lemma clean_members : forall a b, (forall f, In f a <-> In f b) -> clean a -> clean b.
Proof. intros a b Hm Hc f Hf. apply Hc. apply Hm. exact Hf. Qed.

Lemma mig_load_clean : forall fs, clean fs -> mig_load fs = MLOk (fold_left seg_apply (flat_map segs_of fs) []).
Proof.
  intros fs Hc. unfold mig_load. rewrite (clean_filter fs Hc), (clean_readable fs Hc), (clean_no_bad fs Hc). reflexivity.
Qed.

Lemma ilookup_in : forall (ix : index) p, In p ix -> ilookup (fst p) ix <> None.
Proof.
  induction ix as [|[k v] t IH]; intros p Hin; [destruct Hin|]. destruct Hin as [Hp|Hp]; simpl.
  - subst p. simpl. rewrite N.eqb_refl. discriminate.
  - destruct (k =? fst p); [discriminate | apply IH; exact Hp].
Qed.

Lemma verify_ok_fresh : forall nm ix perm,
  covers perm ix -> verify_ok (PreFile (FGood nm (compact_entries ix perm))) ix = true.
Proof.
  intros nm ix perm Hc. unfold verify_ok, hyd_img, load_index.
  destruct (compact_preserves_index ix nm perm Hc) as [Hl _].
  destruct (load_entries nm (compact_entries ix perm)) as [lix lnm]. simpl in Hl.
  apply forallb_forall. intros p Hp. rewrite Hl.
  destruct (ilookup (fst p) ix) eqn:E; [reflexivity|]. exfalso. exact (ilookup_in ix p Hp E).
Qed.

(* C23_migration_preserves *)
Theorem migration_preserves : forall cfg perm folder order,
  let files := v1_files folder in
  clean files -> consistent files ->
  (forall f, In f order <-> In f files) ->
  dry_run cfg = false ->
  v1_load files <> [] ->
  covers perm (v1_load files) ->
  exists hydf st,
    migrate cfg perm WNoFault folder PreNone =
      (MS (if delete_old cfg then None else Some folder) (PreFile hydf), PSuccess) /\
    load_index hydf = Some st /\
    (forall k, ilookup k (fst st) = ilookup k (v1_load order)) /\
    snd st = v1_meta folder.
Proof.
  intros cfg perm folder order files Hcl Hco Hm Hdry Hne Hcov.
  assert (Hv1 : v1_load files = fold_left seg_apply (flat_map segs_of files) []).
  { unfold v1_load. rewrite (clean_no_bad files Hcl). reflexivity. }
  set (ix := fold_left seg_apply (flat_map segs_of files) []) in *.
  rewrite Hv1 in Hne, Hcov.
  unfold migrate. fold files. rewrite (mig_load_clean files Hcl). fold ix.
  destruct ix as [|p0 ix0] eqn:Eix; [congruence|]. rewrite <- Eix in *.
  rewrite Hdry. unfold write_v2. simpl open_target. cbv iota beta.
  unfold fappend. simpl app.
  rewrite (verify_ok_fresh (v1_meta folder) ix perm Hcov). rewrite andb_false_r.
  exists (FGood (v1_meta folder) (compact_entries ix perm)).
  exists (load_entries (v1_meta folder) (compact_entries ix perm)).
  split; [reflexivity|]. split; [reflexivity|].
  destruct (compact_preserves_index ix (v1_meta folder) perm Hcov) as [Hl Hn].
  split; [|exact Hn]. intros k. rewrite Hl. simpl fst.
  unfold v1_load. rewrite (clean_no_bad order (clean_members files order (fun f => iff_sym (Hm f)) Hcl)).
  unfold ix. symmetry.
  exact (lookup_same_members order files Hm
           (fun k' f g v w Hf Hg => Hco k' f g v w (proj1 (Hm f) Hf) (proj1 (Hm g) Hg)) k).
Qed.

(* C23_failure_leaves_v1_intact: for every configuration, pre-existing .hyd, write fault and folder *)
Theorem failure_leaves_v1_intact : forall cfg perm wf folder pre st ph,
  migrate cfg perm wf folder pre = (st, ph) ->
  (m_v1 st = Some folder \/ m_v1 st = None) /\
  (m_v1 st = None -> delete_old cfg = true /\ dry_run cfg = false /\ (ph = PSuccess \/ ph = PSkippedEmpty)) /\
  (ph = PSuccess -> wf = WNoFault /\
     (verify cfg = true -> exists ix, mig_load (v1_files folder) = MLOk ix /\ verify_ok (m_hyd st) ix = true)) /\
  (ph = PFailVerify -> m_hyd st = PreNone) /\
  (ph = PFailLoad \/ ph = PDryRun \/ ph = PSkippedEmpty -> m_hyd st = pre).
Proof.
  intros [dr vf dl] perm wf folder pre st ph. unfold migrate. simpl.
  destruct (mig_load (v1_files folder)) as [|ix] eqn:El.
  - intros E; inversion E; subst; simpl.
    repeat split; auto; try discriminate; intros [?|[?|?]]; reflexivity.
  - destruct ix as [|p0 ix0].
    + intros E; inversion E; subst; simpl.
      destruct dl, dr; simpl; repeat split; auto; try discriminate; intros [?|[?|?]]; reflexivity.
    + destruct dr.
      * intros E; inversion E; subst; simpl.
        repeat split; auto; try discriminate; intros [?|[?|?]]; reflexivity.
      * unfold write_v2. destruct (open_target pre (v1_meta folder)) as [f0|].
        -- destruct wf as [| |].
           ++ destruct (vf && negb (verify_ok (PreFile (fappend f0 (compact_entries (p0 :: ix0) perm))) (p0 :: ix0))) eqn:Ev.
              ** intros E; inversion E; subst; simpl.
                 repeat split; auto; try discriminate; intros [?|[?|?]]; discriminate.
              ** intros E; inversion E; subst; simpl.
                 split; [destruct dl; auto|]. split; [destruct dl; [auto | discriminate]|].
                 split; [|split; [discriminate | intros [?|[?|?]]; discriminate]].
                 intros _. split; [reflexivity|]. intros ->. simpl in Ev.
                 exists (p0 :: ix0). split; [reflexivity|]. apply negb_false_iff in Ev. exact Ev.
           ++ destruct pre; intros E; inversion E; subst; simpl;
                repeat split; auto; try discriminate; intros [?|[?|?]]; discriminate.
           ++ intros E; inversion E; subst; simpl.
              repeat split; auto; try discriminate; intros [?|[?|?]]; discriminate.
        -- intros E; inversion E; subst; simpl.
           repeat split; auto; try discriminate; intros [?|[?|?]]; discriminate.
Qed.

(* ---- informational refutations -------------------------------------------------------------------- *)
(* verify only checks key presence *)
Theorem verify_is_weak :
  exists hyd expected k, verify_ok (PreFile hyd) expected = true /\
    ilookup k expected = Some 10 /\
    option_map (fun st => ilookup k (fst st)) (load_index hyd) = Some (Some 99).
Proof. exists (FGood 7 [E OSet 1 99]), [(1, 10)], 1. vm_compute. repeat split; reflexivity. Qed.

(* a .hyd already present at the target path is appended to: the migrated swamp then holds a record
   the legacy engine does not load, under the old file's name, verification passes and the V1 files
   are deleted *)
Definition ex_folder : v1folder := V1 [VF true (VSegs [SOk 1 10; SOk 3 30])] 7.

Theorem preexisting_hyd_refuted :
  exists pre st,
    migrate (CFG false true true) [1; 3] WNoFault ex_folder (PreFile pre) = (st, PSuccess) /\
    m_v1 st = None /\
    ilookup 2 (v1_load (v1_files ex_folder)) = None /\
    option_map (fun s => (ilookup 2 (fst s), snd s)) (match hyd_img (m_hyd st) with Some f => load_index f | None => None end)
      = Some (Some 20, 9).
Proof.
  exists (FGood 9 [E OSet 2 20]). eexists. split; [vm_compute; reflexivity|]. vm_compute. repeat split; reflexivity.
Qed.

(* a target file shorter than its header (interrupted creation) is created again: same result as
   with nothing at the path *)
Theorem short_target_harmless : forall cfg perm wf folder,
  migrate cfg perm wf folder PreShort = migrate cfg perm wf folder PreNone \/
  exists ph, (ph = PFailLoad \/ ph = PDryRun \/ ph = PSkippedEmpty) /\
             snd (migrate cfg perm wf folder PreShort) = ph /\ snd (migrate cfg perm wf folder PreNone) = ph /\
             m_v1 (fst (migrate cfg perm wf folder PreShort)) = m_v1 (fst (migrate cfg perm wf folder PreNone)) /\
             m_hyd (fst (migrate cfg perm wf folder PreShort)) = PreShort.
Proof.
  intros [dr vf dl] perm wf folder. unfold migrate. simpl.
  destruct (mig_load (v1_files folder)) as [|[|p0 ix0]].
  - right. exists PFailLoad. simpl. auto 10.
  - right. exists PSkippedEmpty. simpl. auto 10.
  - destruct dr; [right; exists PDryRun; simpl; auto 10 | left; reflexivity].
Qed.

(* a target file with a complete but corrupt block stays unreadable after the append: without
   --verify the migration reports success and --delete-old removes the only readable copy *)
Theorem corrupt_target_refuted :
  exists st, migrate (CFG false false true) [1; 3] WNoFault ex_folder (PreFile (FTorn 9 [])) = (st, PSuccess) /\
             m_v1 st = None /\ (match hyd_img (m_hyd st) with Some f => load_index f | None => None end) = None.
Proof. eexists. split; [vm_compute; reflexivity|]. vm_compute. split; reflexivity. Qed.

(* the same key in two chunk files: the legacy Load itself depends on the map iteration order *)
Theorem dup_refuted :
  exists f g, ilookup 1 (v1_load [f; g]) <> ilookup 1 (v1_load [g; f]).
Proof.
  exists (VF true (VSegs [SOk 1 10])), (VF true (VSegs [SOk 1 11])). vm_compute. discriminate.
Qed.

(* ---- the V1 writer keeps every key in at most one chunk ---------------------------------------------- *)
Lemma all_keys_app : forall a b, all_keys (a ++ b) = all_keys a ++ all_keys b.
Proof. intros; unfold all_keys; apply flat_map_app. Qed.

Lemma all_keys_app_last : forall cs p, all_keys (app_last cs p) = all_keys cs ++ [fst p].
Proof.
  induction cs as [|c t IH]; intros p; [reflexivity|].
  destruct t as [|c' t'].
  - simpl. unfold all_keys; simpl. rewrite !app_nil_r, map_app. reflexivity.
  - change (app_last (c :: c' :: t') p) with (c :: app_last (c' :: t') p).
    unfold all_keys in *. cbn [flat_map]. rewrite IH. rewrite app_assoc. reflexivity.
Qed.

Lemma folder_has_in : forall k cs, folder_has k cs = false -> ~ In k (all_keys cs).
Proof.
  intros k cs H Hin. unfold all_keys in Hin. apply in_flat_map in Hin as [c [Hc Hk]].
  apply in_map_iff in Hk as [p [Hp Hpc]].
  assert (folder_has k cs = true); [|congruence].
  unfold folder_has. apply existsb_exists. exists c; split; [exact Hc|].
  unfold chunk_has. apply existsb_exists. exists p; split; [exact Hpc|]. apply N.eqb_eq. exact Hp.
Qed.

Lemma all_keys_modify : forall k v cs,
  all_keys (map (map (fun p : key * pay => if fst p =? k then (k, v) else p)) cs) = all_keys cs.
Proof.
  intros k v cs. unfold all_keys. induction cs as [|c t IH]; [reflexivity|]. cbn [map flat_map].
  rewrite IH. f_equal. rewrite map_map. apply map_ext. intros p.
  destruct (fst p =? k) eqn:E; [apply N.eqb_eq in E; simpl; congruence | reflexivity].
Qed.

Lemma all_keys_drop_empty : forall cs : list chunk,
  all_keys (filter (fun c : chunk => negb (match c with [] => true | _ => false end)) cs) = all_keys cs.
Proof.
  unfold all_keys. induction cs as [|c t IH]; [reflexivity|]. cbn [filter].
  destruct c as [|p c']; cbn [negb flat_map map]; [exact IH | rewrite IH; reflexivity].
Qed.

Lemma keys_filter : forall k (c : chunk),
  map fst (filter (fun p : key * pay => negb (fst p =? k)) c) = filter (fun x => negb (x =? k)) (map fst c).
Proof.
  intros k c. induction c as [|p c' IHc]; [reflexivity|]. simpl.
  destruct (fst p =? k); simpl; [exact IHc | f_equal; exact IHc].
Qed.

Lemma all_keys_delete : forall k cs,
  all_keys (filter (fun c : chunk => negb (match c with [] => true | _ => false end))
                   (map (filter (fun p : key * pay => negb (fst p =? k))) cs))
  = filter (fun x => negb (x =? k)) (all_keys cs).
Proof.
  intros k cs. rewrite all_keys_drop_empty. unfold all_keys.
  induction cs as [|c t IH]; [reflexivity|]. cbn [map flat_map].
  rewrite filter_app, IH, keys_filter. reflexivity.
Qed.

Lemma v1_step_nodup : forall cs o,
  NoDup (all_keys cs) -> op_ok cs o = true -> NoDup (all_keys (v1_step cs o)).
Proof.
  intros cs [k v ro|k v|k] Hnd Hok; simpl in *.
  - apply negb_true_iff in Hok. apply folder_has_in in Hok.
    assert (NoDup (all_keys cs ++ [k])).
    { rewrite <- (rev_involutive (all_keys cs ++ [k])). apply NoDup_rev. rewrite rev_app_distr. simpl.
      constructor; [rewrite <- in_rev; exact Hok | apply NoDup_rev; exact Hnd]. }
    destruct ro.
    + rewrite all_keys_app. unfold all_keys at 2; simpl. exact H.
    + rewrite all_keys_app_last. exact H.
  - rewrite all_keys_modify. exact Hnd.
  - rewrite all_keys_delete. apply NoDup_filter. exact Hnd.
Qed.

(* v1_write_inv *)
Theorem v1_write_inv : forall ops cs cs',
  NoDup (all_keys cs) -> v1_run cs ops = Some cs' -> NoDup (all_keys cs').
Proof.
  induction ops as [|o t IH]; intros cs cs' Hnd Hr; simpl in Hr.
  - inversion Hr; subst; exact Hnd.
  - destruct (op_ok cs o) eqn:Eo; [|discriminate].
    apply (IH (v1_step cs o)); [apply v1_step_nodup; assumption | exact Hr].
Qed.

(* a folder whose keys are all distinct is clean and consistent *)
Lemma chunk_file_lookup_in : forall k c v, file_lookup k (chunk_file c) = Some v -> In k (map fst c).
Proof.
  intros k c v. unfold file_lookup, segs_lookup, chunk_file, segs_of; simpl.
  assert (G : forall acc, ilookup k (fold_left seg_apply (map (fun p : key * pay => SOk (fst p) (snd p)) c) acc) <> None ->
                          In k (map fst c) \/ ilookup k acc <> None).
  { induction c as [|p c' IHc]; intros acc Hl; simpl in *; [right; exact Hl|].
    destruct (IHc _ Hl) as [Hin|Hacc]; [left; right; exact Hin|].
    destruct (N.eq_dec k (fst p)) as [->|Hne]; [left; left; reflexivity|].
    rewrite ilookup_iset_other in Hacc by exact Hne. right; exact Hacc. }
  intros H. destruct (G [] ltac:(rewrite H; discriminate)) as [Hin|Hn]; [exact Hin | exfalso; apply Hn; reflexivity].
Qed.

Lemma nodup_app_disj : forall (a b : list key) x, NoDup (a ++ b) -> In x a -> In x b -> False.
Proof.
  induction a as [|y a' IH]; intros b x Hnd Ha Hb; [destruct Ha|].
  simpl in Hnd. inversion Hnd as [|? ? Hny Hnd']; subst.
  destruct Ha as [->|Ha]; [apply Hny; apply in_or_app; right; exact Hb | exact (IH b x Hnd' Ha Hb)].
Qed.

Lemma nodup_app_r : forall (a b : list key), NoDup (a ++ b) -> NoDup b.
Proof.
  induction a as [|y a' IH]; intros b Hnd; [exact Hnd|].
  simpl in Hnd. inversion Hnd; subst. apply IH; assumption.
Qed.

Lemma nodup_keys_same_chunk : forall cs c1 c2 k,
  NoDup (all_keys cs) -> In c1 cs -> In c2 cs -> In k (map fst c1) -> In k (map fst c2) -> c1 = c2.
Proof.
  induction cs as [|c t IH]; intros c1 c2 k Hnd H1 H2 K1 K2; [destruct H1|].
  unfold all_keys in Hnd; cbn [flat_map] in Hnd.
  assert (Hsplit : forall c', In c' t -> In k (map fst c') -> ~ In k (map fst c)).
  { intros c' Hc' Hk' Hk. apply (nodup_app_disj _ _ k Hnd Hk). apply in_flat_map. exists c'; auto. }
  destruct H1 as [<-|H1], H2 as [<-|H2].
  - reflexivity.
  - exfalso. exact (Hsplit c2 H2 K2 K1).
  - exfalso. exact (Hsplit c1 H1 K1 K2).
  - apply (IH c1 c2 k); auto. exact (nodup_app_r _ _ Hnd).
Qed.

Lemma nodup_folder_consistent : forall cs, NoDup (all_keys cs) -> consistent (map chunk_file cs).
Proof.
  intros cs Hnd k f g v w Hf Hg Lf Lg.
  apply in_map_iff in Hf as [c1 [<- H1]]. apply in_map_iff in Hg as [c2 [<- H2]].
  assert (c1 = c2) by (apply (nodup_keys_same_chunk cs c1 c2 k Hnd H1 H2);
                       [apply (chunk_file_lookup_in k c1 v Lf) | apply (chunk_file_lookup_in k c2 w Lg)]).
  subst c2. congruence.
Qed.

Lemma chunk_folder_clean : forall cs, clean (map chunk_file cs).
Proof.
  intros cs f Hf. apply in_map_iff in Hf as [c [<- _]]. split; [reflexivity|].
  eexists; split; [reflexivity|]. induction c as [|p c' IH]; [reflexivity | exact IH].
Qed.

(* end to end: every folder the V1 engine can produce from the empty folder migrates exactly *)
Theorem migration_preserves_v1_histories : forall ops cs cfg perm meta order,
  v1_run [] ops = Some cs ->
  let folder := V1 (map chunk_file cs) meta in
  (forall f, In f order <-> In f (v1_files folder)) ->
  dry_run cfg = false -> v1_load (v1_files folder) <> [] -> covers perm (v1_load (v1_files folder)) ->
  exists hydf st,
    migrate cfg perm WNoFault folder PreNone = (MS (if delete_old cfg then None else Some folder) (PreFile hydf), PSuccess) /\
    load_index hydf = Some st /\
    (forall k, ilookup k (fst st) = ilookup k (v1_load order)) /\ snd st = meta.
Proof.
  intros ops cs cfg perm meta order Hr folder Hm Hd Hne Hc.
  assert (Hnd : NoDup (all_keys cs)) by (apply (v1_write_inv ops [] cs); [constructor | exact Hr]).
  exact (migration_preserves cfg perm folder order (chunk_folder_clean cs) (nodup_folder_consistent cs Hnd) Hm Hd Hne Hc).
Qed.

(* non-vacuity: a history with rollover, modification and deletion *)
Example v1_history_example :
  v1_run [] [WNew 1 10 false; WNew 2 20 false; WNew 3 30 true; WModify 1 11; WDelete 2; WNew 2 21 false]
  = Some [[(1, 11)]; [(3, 30); (2, 21)]].
Proof. vm_compute; reflexivity. Qed.

Example migrate_example :
  migrate (CFG false true true) [3; 2; 1] WNoFault (V1 (map chunk_file [[(1, 11)]; [(3, 30); (2, 21)]]) 7) PreNone
  = (MS None (PreFile (FGood 7 [E OSet 3 30; E OSet 2 21; E OSet 1 11])), PSuccess).
Proof. vm_compute; reflexivity. Qed.
