(* Storage/Crc32.v — IEEE CRC-32 (hash/crc32.ChecksumIEEE) over byte lists, bitwise, in N.
   Model only (no proofs). Validated against Go's hash/crc32 on every C04 case and, as a
   256-entry table, against crc32.IEEETable (Gen/C04Consts.v, Storage/C04ReaderProofs.v). *)
From HV Require Import Base.Prelude.
Local Open Scope N_scope.

Definition crc_poly : N := 3988292384.      (* 0xEDB88320, reflected IEEE polynomial *)
Definition crc_mask : N := 4294967295.      (* 0xFFFFFFFF *)

Definition crc_shift1 (c : N) : N :=
  if N.testbit c 0 then N.lxor (N.shiftr c 1) crc_poly else N.shiftr c 1.

Fixpoint crc_bits (n : nat) (c : N) : N :=
  match n with O => c | S k => crc_bits k (crc_shift1 c) end.

(* one input byte: crc = table[(crc ^ b) & 0xff] ^ (crc >> 8), written bitwise *)
Definition crc_byte (c b : N) : N := crc_bits 8 (N.lxor c b).

Definition crc32_update (c : N) (l : list N) : N := fold_left crc_byte l c.

Definition crc32 (l : list N) : N := N.lxor (crc32_update crc_mask l) crc_mask.

(* the table Go uses (simpleMakeTable): entry i = 8 shift steps applied to i *)
Definition crc_table : list N := map (fun i => crc_bits 8 (N.of_nat i)) (seq 0 256).
