(* Storage/C02Crash.v — crash images of a file-system state (M7) and the C02 case checker.
   Model only (no proofs).

   Crash semantics assumed (ext4 data=ordered style, stated here once):
     * what was fsynced survives;
     * the bytes appended since the last fsync survive as a *prefix* in file order (a later
       appended byte is never present without all earlier ones), cut at ANY byte – this covers
       every torn in-flight write and the loss of any unsynced suffix;
     * a truncation that was not yet fsynced is either not persisted at all (the durable image
       survives as it was) or persisted together with a prefix of what was appended after it;
     * the in-place rewrite of the file header may persist or not, wholly or torn, independently
       of everything else (it does not change the structured image, see C02Fs.v);
     * a file that was never fsynced may be absent or present with any prefix of its bytes.
   [crash_image f img] over-approximates this: img is the durable image, or the first k bytes
   of the volatile image for any k not below the end of the last complete block of the durable
   image. *)
From HV Require Import Base.Prelude Storage.C02Fs Storage.C02Writer.
Local Open Scope N_scope.

Definition good_len_opt (nlen : N) (d : option content) : N :=
  match d with None => 0 | Some c => good_len nlen c end.

Definition crash_image (nlen : N) (f : fs) (img : option content) : Prop :=
  img = dur f \/
  exists k c, good_len_opt nlen (dur f) <= k /\ vol f = Some c /\ img = Some (cut k c).

(* executable form: choice None = durable image, Some k = first k bytes of the volatile image *)
Definition crash_image_of (nlen : N) (f : fs) (choice : option N) : option (option content) :=
  match choice with
  | None => Some (dur f)
  | Some k =>
      match vol f with
      | Some c => if good_len_opt nlen (dur f) <=? k then Some (Some (cut k c)) else None
      | None => None
      end
  end.

(* ---------------------------------------------------------------- case checker *)

Definition canon_op (o : fsop) : list (N * N) :=
  match o with
  | OCreate => [(1, 0)]
  | OApp _ n => if n =? 0 then [] else [(2, n)]
  | OHdr => [(3, 64)]
  | OTrunc n => [(4, n)]
  | OFsync => [(5, 0)]
  | OClose => [(6, 0)]
  end.

Definition canon_log (ops : list fsop) : list (N * N) := flat_map canon_op ops.

Definition pair_eqb (a b : N * N) : bool := (fst a =? fst b) && (snd a =? snd b).
Definition st_eqb (a b : list (key * vid)) : bool := list_eqb pair_eqb a b.

(* is [st] the state at some block boundary j with lo <= j <= |bs| ?  (fuel = |bs| - lo + 1) *)
Fixpoint boundary_state (fuel : nat) (j : nat) (bs : list block) (st : list (key * vid)) : bool :=
  match fuel with
  | O => false
  | S fuel' => st_eqb (state_of (firstn j bs)) st || boundary_state fuel' (S j) bs st
  end.

Inductive c02case :=
| CLog (nlen : N) (h : list api) (obs : list (N * N)) (oks : list bool)
| CImg (nlen : N) (h : list api) (nops : nat) (choice : option N)
       (loaded : list (key * vid)) (after : list api) (reloaded : list (key * vid)).

Definition c02_check (c : c02case) : N :=
  match c with
  | CLog nlen h obs oks =>
      let '(_, _, ops, moks) := w_run nlen fs_empty w_closed h in
      if negb (forallb api_okb h) then 1
      else if negb (list_eqb pair_eqb (canon_log ops) obs) then 1
      else if negb (list_eqb Bool.eqb moks oks) then 1
      else 0
  | CImg nlen h nops choice loaded after reloaded =>
      let ops := oplog nlen fs_empty w_closed h in
      let f := fs_run fs_empty (firstn nops ops) in
      match crash_image_of nlen f choice with
      | None => 1                                   (* harness built an image outside the model *)
      | Some img =>
          let D := loaded_blocks true (dur f) in
          let B := loaded_blocks true (vol f) in
          let mloaded := state_of (loaded_blocks true img) in
          let '(f2, _, _, _) := w_run nlen (fs_crashed img) w_closed after in
          let mreloaded := state_of (loaded_blocks true (vol f2)) in
          if negb (boundary_state (S (length B - length D)) (length D) B loaded) then
            (match loaded with [] => 2 | _ => 3 end)
          else if negb (st_eqb (state_of_entries loaded (submitted false after)) reloaded) then 4
          else if negb (st_eqb mloaded loaded) then 1
          else if negb (st_eqb mreloaded reloaded) then 1
          else 0
      end
  end.

Definition check_all (cases : list c02case) : list verdict := check_cases c02_check cases.
